//go:build verif

package deviceshare

import (
	"context"
	"fmt"
	"os"
	"sort"
	"strconv"
	"strings"
	"testing"

	corev1 "k8s.io/api/core/v1"
	"k8s.io/apimachinery/pkg/api/resource"
	metav1 "k8s.io/apimachinery/pkg/apis/meta/v1"
	"k8s.io/apimachinery/pkg/types"
	"k8s.io/client-go/tools/cache"
	fwktype "k8s.io/kube-scheduler/framework"
	"k8s.io/kubernetes/pkg/scheduler/framework"

	apiext "github.com/koordinator-sh/koordinator/apis/extension"
	schedulingv1alpha1 "github.com/koordinator-sh/koordinator/apis/scheduling/v1alpha1"
	"github.com/koordinator-sh/koordinator/pkg/scheduler/frameworkext"
	"github.com/koordinator-sh/koordinator/pkg/scheduler/frameworkext/hinter"
	"github.com/koordinator-sh/koordinator/pkg/scheduler/frameworkext/schedulingphase"
	"github.com/koordinator-sh/koordinator/pkg/util/transformer"
)

// ---------------------------------------------------------------------------------------------------------------
// C07 extension 3, part (a): the informer TRANSFORMER in front of the pod handlers.
// SetupTransformers (pkg/util/transformer) installs TransformPodFactory() on the pod informer and TransformDevice on
// the Device informer: every object passes them before a handler sees it.  A pod whose device-allocated annotation
// was written with the deprecated resource names (kubernetes.io/gpu-core, …) must reach the handlers with EVERY entry
// renamed, because the Device inventory only exposes the current names: an entry left under a deprecated name is
// booked on a name the device does not have - that GPU shows in-use 0 and is handed out again.
// The harness writes the annotation BY NAME (c07NAnn), remembers what it MEANS (sem: current name wins, else the
// deprecated one) as the pod's live allocation, and all ledger clauses (used = sum of live, record = live) apply.
// ---------------------------------------------------------------------------------------------------------------

// deprecated resource name per type and dimension ("" = none)
var c07Legacy = [3][c07D]corev1.ResourceName{
	{apiext.DeprecatedGPUCore, apiext.DeprecatedGPUMemory, apiext.DeprecatedGPUMemoryRatio},
	{apiext.DeprecatedKoordRDMA, "", ""},
	{apiext.DeprecatedKoordFPGA, "", ""},
}

func c07Transforms() (cache.TransformFunc, cache.TransformFunc) {
	return transformer.TransformPodFactory(), transformer.TransformDevice
}

type c07NEntry struct {
	minor    int
	leg, cur c07Vec // amount under the deprecated / the current name, -1 = key absent
}

type c07NAnn map[int][]c07NEntry

func (a c07NAnn) types() []int {
	ts := make([]int, 0, len(a))
	for t := range a {
		ts = append(ts, t)
	}
	sort.Ints(ts)
	return ts
}

func (a c07NAnn) tok() string {
	s := strconv.Itoa(len(a))
	for _, t := range a.types() {
		s += fmt.Sprintf(" %d %d", t, len(a[t]))
		for _, e := range a[t] {
			s += fmt.Sprintf(" %d %s %s", e.minor, e.leg.tok(), e.cur.tok())
		}
	}
	return s
}

func (a c07NAnn) api() apiext.DeviceAllocations {
	out := apiext.DeviceAllocations{}
	for t, es := range a {
		l := []*apiext.DeviceAllocation{}
		for _, e := range es {
			rl := c07RL(t, e.cur)
			for k := 0; k < c07D; k++ {
				if e.leg[k] >= 0 && c07Legacy[t][k] != "" {
					rl[c07Legacy[t][k]] = *resource.NewQuantity(e.leg[k], resource.DecimalSI)
				}
			}
			l = append(l, &apiext.DeviceAllocation{Minor: int32(e.minor), Resources: rl})
		}
		out[c07Types[t]] = l
	}
	return out
}

// what the annotation means: the current name if present, else the deprecated one
func (a c07NAnn) sem() c07Groups {
	g := c07Groups{}
	for t, es := range a {
		l := []c07Alloc{}
		for _, e := range es {
			v := c07Absent
			for k := 0; k < c07D; k++ {
				if e.cur[k] >= 0 {
					v[k] = e.cur[k]
				} else if e.leg[k] >= 0 {
					v[k] = e.leg[k]
				}
			}
			l = append(l, c07Alloc{minor: e.minor, vec: v})
		}
		g[t] = l
	}
	return g
}

// an annotation read back by name
func c07NAnnOf(al apiext.DeviceAllocations) c07NAnn {
	a := c07NAnn{}
	for t, dt := range c07Types {
		l, ok := al[dt]
		if !ok {
			continue
		}
		es := []c07NEntry{}
		for _, x := range l {
			e := c07NEntry{minor: int(x.Minor), leg: c07Absent, cur: c07Absent}
			for k := 0; k < c07D; k++ {
				if q, ok := x.Resources[c07Res[t][k]]; ok {
					e.cur[k] = q.Value()
				}
				if c07Legacy[t][k] != "" {
					if q, ok := x.Resources[c07Legacy[t][k]]; ok {
						e.leg[k] = q.Value()
					}
				}
			}
			es = append(es, e)
		}
		a[t] = es
	}
	return a
}

// the resource list of a DeviceInfo holding `v`, reported with deprecated names: all of them, or a random subset of the dimensions
func c07LegacyRL(r *vRand, t int, v c07Vec) (corev1.ResourceList, c07Vec, c07Vec) {
	leg, cur := c07Absent, c07Absent
	all := r.Bool()
	for k := 0; k < c07D; k++ {
		if v[k] < 0 {
			continue
		}
		if c07Legacy[t][k] != "" && (all || r.Bool()) {
			leg[k] = v[k]
		} else {
			cur[k] = v[k]
		}
	}
	rl := c07RL(t, cur)
	for k := 0; k < c07D; k++ {
		if leg[k] >= 0 {
			rl[c07Legacy[t][k]] = *resource.NewQuantity(leg[k], resource.DecimalSI)
		}
	}
	return rl, leg, cur
}

// the annotation of a pod holding `g`, as an older / mixed scheduler version wrote it
func c07GenNAnn(r *vRand, g c07Groups, conflicts bool, h *vHarness) c07NAnn {
	a := c07NAnn{}
	mode := r.Intn(4) // 0, 1: every name deprecated; 2: per entry; 3: per dimension
	h.Tag(fmt.Sprintf("tx:naming-mode:%d", mode))
	n := 0
	for _, t := range g.types() {
		for _, al := range g[t] {
			e := c07NEntry{minor: al.minor, leg: c07Absent, cur: c07Absent}
			entryLegacy := r.Bool()
			for k := 0; k < c07D; k++ {
				if al.vec[k] < 0 {
					continue
				}
				legacy := mode <= 1 || (mode == 2 && entryLegacy) || (mode == 3 && r.Bool())
				if c07Legacy[t][k] == "" {
					legacy = false
				}
				if legacy {
					e.leg[k] = al.vec[k]
					if conflicts && r.Chance(1, 8) { // both names on one dimension: the current one wins, the deprecated key stays
						e.cur[k] = al.vec[k] + int64(r.Range(0, 5))
						h.Tag("tx:both-names-on-one-dimension")
					}
				} else {
					e.cur[k] = al.vec[k]
				}
			}
			a[t] = append(a[t], e)
			n++
		}
	}
	h.Tag(fmt.Sprintf("tx:entries:%d", n))
	if len(g) > 1 {
		h.Tag("tx:gpu+rdma")
	}
	return a
}

// a pod event (kind 0 add, 1 update / resync, 2 delete) of a pod with a by-name annotation, delivered the way the
// informer does: object -> transform -> handler
func (c *c07EvCase) evPodTx(kind, shape int, p *c07EvPod, terminated bool) {
	h := c.h
	h.Op("evtx %d %d %d %d %s", kind, shape, p.id, vB(terminated), p.na.tok())
	before := c.cur
	mid := before
	if kind == 1 && !terminated {
		mid = c.midLedger(p.id, p.g.api())
	}
	key := fmt.Sprintf("default/p%d", p.id)
	var seen *corev1.Pod
	mk := func(deleting, term bool) interface{} {
		pod := c07Pod(p.id, p.na.api(), c07Node)
		pod.UID = types.UID(fmt.Sprintf("uid-%d", p.id))
		pod = c.decorate(pod, deleting)
		if term {
			pod.Status.Phase = corev1.PodSucceeded
		}
		out := c.deliver(c07Shaped(shape, pod, key))
		switch t := out.(type) {
		case *corev1.Pod:
			seen = t
		case cache.DeletedFinalStateUnknown:
			seen, _ = t.Obj.(*corev1.Pod)
		}
		return out
	}
	if h.Guard(func() {
		switch kind {
		case 0:
			c.podH.OnAdd(mk(false, terminated), false)
		case 1:
			o := mk(false, false)
			c.podH.OnUpdate(o, mk(false, terminated))
		default:
			c.podH.OnDelete(mk(true, false))
		}
	}) {
		h.Obs("panic")
		return
	}
	h.Tag(fmt.Sprintf("event:pod-through-transformer:%d:shape%d", kind, shape))
	// what the handler was given
	if seen != nil {
		al, err := apiext.GetDeviceAllocations(seen.Annotations)
		if err != nil {
			h.Obs("tx ?")
		} else {
			h.Obs("tx %s", c07NAnnOf(al).tok())
		}
	} else {
		h.Obs("tx -")
	}
	g := p.g
	wasLive := false
	if _, ok := c.live[0][p.id]; ok {
		wasLive = true
	}
	okind := "absent"
	switch {
	case kind == 0 && shape == c07ShObj && !terminated:
		okind = "raw-add"
		for _, t := range g.types() {
			c.noteAdd(t, p.id, g[t], before)
		}
		known := false
		for _, q := range c.pods {
			known = known || q.id == p.id
		}
		if !known {
			c.pods = append(c.pods, p)
			if p.rsv != 0 {
				if rv := c.findRsv(p.rsv); rv != nil {
					rv.owners = append(rv.owners, p.id)
				}
			}
		}
	case kind == 1 && shape == c07ShObj:
		okind = "release"
		for _, t := range g.types() {
			c.noteRemove(t, p.id, g[t])
			if !terminated {
				c.noteAdd(t, p.id, g[t], mid)
			}
		}
		if terminated {
			c.dropPod(p.id)
		}
	case kind == 2 && (shape == c07ShObj || shape == c07ShTomb):
		okind = "release"
		for _, t := range g.types() {
			c.noteRemove(t, p.id, g[t])
		}
		c.dropPod(p.id)
	}
	c.cur = c.emitLedger()
	if kind == 2 && wasLive && (shape == c07ShObj || shape == c07ShTomb) {
		if _, still := c.cur.pods[[2]int{0, p.id}]; still {
			what := "pod-object"
			if shape == c07ShTomb {
				what = "pod-tombstone"
			}
			h.Fail("C07:delete-not-released:"+what, "pod %d (deprecated resource names) was deleted (delivered as %s) but its devices are still recorded as in use", p.id, what)
		}
	}
	c.checkRecords("pod event through the transformer", c.cur)
	c.checkLedger(okind, before, c.cur)
}

// ---------------------------------------------------------------------------------------------------------------
// C07 extension 3, part (b): "designated" harness - the scheduling cycle over SEVERAL candidate nodes.
//   PreFilter -> Filter(node A) -> Filter(node B) -> [pod / device event on some node] -> Reserve(node X)
// through the real Plugin entry points, Reserve wrapped in schedulingphase.RecordPhase as the framework extender does,
// for pods that carry a device-allocated annotation (a designated allocation) with or without the DeviceShare
// scheduling hint (without it PreFilter drops the designation), and for plain pods.
// Model: Model/C07Glue.lean PState / cycFilter / cycReserve (`filter_clears_trial_result`,
// `reserve_allocates_at_commit_point`); one ledger per node (driver op `sel`).
// Oracle (independent, on the value ledger of the SELECTED node read just before Reserve):
//   C07:reserve-device-not-free        a committed GPU did not have the committed amount free on that node at that moment
//   C07:reserve-outside-designation    a designation was in force and a committed GPU is not one of the designated ones
//   C07:reserve-committed-types        the device types committed are not the types the pod requests
//   C07:reserve-refused-although-free  Reserve failed although the designated GPUs (or, without designation, enough GPUs) were free
//   C07:filter-verdict                 Filter(node) disagrees with "the designated GPUs of that node have the amounts free"
// plus every ledger clause after the commit.
// ---------------------------------------------------------------------------------------------------------------

type c07MNode struct {
	*c07Case
	idx  int
	node *corev1.Node
	ni   *framework.NodeInfo
}

// the nodes of one case
type c07Multi struct {
	t     *testing.T
	h     *vHarness
	pl    *Plugin
	podTx cache.TransformFunc
	names []string
	ns    []*c07MNode
	cur   int
	mem   int64
	memBy map[int]int64 // extension 6: memory size per GPU MINOR (the same on every node) when the GPUs of a node differ in size
}

// the triple a pod holding `amount` percent of GPU `minor` is recorded with: bytes are a share of THAT device's memory
func (m *c07Multi) fracOn(minor int, amount int64) c07Vec {
	if T, ok := m.memBy[minor]; ok {
		return c07Vec{amount, amount * T / 100, amount}
	}
	return m.frac(amount)
}

func (m *c07Multi) sel(i int) *c07MNode {
	if m.cur != i {
		m.h.Op("sel %d", i)
		m.cur = i
	}
	return m.ns[i]
}

func (m *c07Multi) frac(amount int64) c07Vec { return c07Vec{amount, amount * m.mem / 100, amount} }

func c07NewMulti(t *testing.T, h *vHarness, r *vRand, pl *Plugin, podTx cache.TransformFunc, nodes []*corev1.Node, names []string, nn int, mem int64) *c07Multi {
	m := &c07Multi{t: t, h: h, pl: pl, podTx: podTx, names: names, cur: -1, mem: mem}
	for i := 0; i < nn; i++ {
		base := &c07Case{h: h, r: r, cache: pl.nodeDeviceCache, exact: true, histX: true, sched: true, nextPod: 1, nname: names[i],
			cur: &c07Ledger{rows: map[[2]int]*c07Row{}, pods: map[[2]int]map[int]c07Vals{}}}
		for tt := 0; tt < 3; tt++ {
			base.live[tt] = map[int][]c07Alloc{}
		}
		base.inPlay = []int{0}
		base.da[0] = 3
		ni := framework.NewNodeInfo()
		ni.SetNode(nodes[i])
		m.ns = append(m.ns, &c07MNode{c07Case: base, idx: i, node: nodes[i], ni: ni})
	}
	return m
}

// one scheduling cycle; everything that is a choice is in the spec
type c07CycleSpec struct {
	id         int
	cnt        int   // GPUs
	amount     int64 // per GPU (core and memory-ratio)
	joint      bool  // + RDMA share ra, device-joint-allocate annotation
	ra         int64
	hasAnn     bool // the pod carries a device-allocated annotation: des (GPU), desR (RDMA)
	hint       bool // the scheduling hint names the DeviceShare plugin
	des, desR  []c07Alloc
	deprecated bool                       // SPEC and annotation written with deprecated names
	order      []int                      // Filter over these nodes, in this order
	between    func()                     // what happens between Filter and Reserve
	pick       func(feasible []int) int   // the node Reserve is called on
	unreserve  bool
	// extension 4: the pod matches NONE of the reservations on the nodes.  unmatched[node index] = the Available reservations
	// of that node (reserve pod id, its record, every pod ever assigned to it); nil = a cycle without restore state.
	// owners = the pods that hold their devices INSIDE a reservation (the ledger books them on top of the reservation).
	unmatched map[int][]*c07EvRsv
	owners    map[int]bool
	// set by cycle(): (node index, minor) of the GPUs on which an unmatched reservation's owners hold MORE than the reservation
	// does (rsvOK false there): the class of the OPEN KNOWN FINDING C07:reserve-device-not-free:owner-exceeds-reservation
	overOn map[[2]int]bool
}

func (sp *c07CycleSpec) overOnNode(i int) bool {
	for k := range sp.overOn {
		if k[0] == i {
			return true
		}
	}
	return false
}

func c07RsvListTok(l []*c07EvRsv) string {
	s := strconv.Itoa(len(l))
	for _, rv := range l {
		s += fmt.Sprintf(" %d %s", rv.id, c07IntsTok(rv.owners))
	}
	return s
}

// what is FREE on a GPU by the harness' own record: total minus what the live holders hold there.  A reservation holds
// its whole record, consumed by its owners or not; an owner pod's devices are part of its reservation's holding (the
// ledger books both), so owners are left out.
func (sp *c07CycleSpec) freeOn(nd *c07MNode, l *c07Ledger, minor int) c07Vals {
	row := l.row(0, minor)
	if sp.unmatched == nil {
		return row.f
	}
	var held c07Vals
	on := func(id int) c07Vals { // what live holder id holds on this GPU, by my own record
		var v c07Vals
		for _, a := range nd.live[0][id] {
			if a.minor == minor {
				for k := 0; k < c07D; k++ {
					v[k] += a.vec.val(k)
				}
			}
		}
		return v
	}
	for id := range nd.live[0] {
		if sp.owners[id] {
			continue
		}
		v := on(id)
		for _, rv := range sp.unmatched[nd.idx] {
			if rv.id != id {
				continue
			}
			// a reservation: its owners' devices are INSIDE its holding; should they hold more than it does on this GPU
			// (Default / Aligned policy: the rest comes out of the node's free amount) the excess is in use as well
			var inside c07Vals
			for _, o := range rv.owners {
				w := on(o)
				for k := 0; k < c07D; k++ {
					inside[k] += w[k]
				}
			}
			for k := 0; k < c07D; k++ {
				if inside[k] > v[k] {
					v[k] = inside[k]
				}
			}
		}
		for k := 0; k < c07D; k++ {
			held[k] += v[k]
		}
	}
	var f c07Vals
	for k := 0; k < c07D; k++ {
		f[k] = c07Max0(row.t[k] - held[k])
	}
	return f
}

// returns (a Reserve committed, the case must stop)
func (m *c07Multi) cycle(sp *c07CycleSpec) (bool, bool) {
	h, pl, names := m.h, m.pl, m.names
	id, cnt, amount, joint, ra, hasAnn, hint, des, desR := sp.id, sp.cnt, sp.amount, sp.joint, sp.ra, sp.hasAnn, sp.hint, sp.des, sp.desR
	req := c07Vec{amount, -1, amount}
	podReq := corev1.ResourceList{
		apiext.ResourceGPUCore:        *resource.NewQuantity(amount*int64(cnt), resource.DecimalSI),
		apiext.ResourceGPUMemoryRatio: *resource.NewQuantity(amount*int64(cnt), resource.DecimalSI),
	}
	if cnt > 1 && amount < 100 {
		// a fraction of each of cnt GPUs: the count comes from gpu.shared
		podReq[apiext.ResourceGPUShared] = *resource.NewQuantity(int64(cnt), resource.DecimalSI)
	}
	pod := c07Pod(id, nil, "")
	pod.UID = types.UID(fmt.Sprintf("uid-%d", id))
	if joint {
		podReq[apiext.ResourceRDMA] = *resource.NewQuantity(ra, resource.DecimalSI)
		pod.Annotations = map[string]string{apiext.AnnotationDeviceJointAllocate: `{"deviceTypes":["gpu","rdma"]}`}
		h.Tag("cycle:joint-gpu+rdma")
	}
	pod.Spec.Containers = []corev1.Container{{Name: "c", Resources: corev1.ResourceRequirements{Requests: podReq, Limits: podReq}}}
	if hasAnn {
		dg := c07Groups{0: des}
		if joint {
			dg[1] = desR
		}
		_ = apiext.SetDeviceAllocations(pod, dg.api())
	}
	// a pod created by an old client: its SPEC and its device-allocated annotation use the deprecated resource names; the
	// scheduler sees it only after the pod informer's transformer (as every pod it schedules)
	if sp.deprecated {
		rq := corev1.ResourceList{}
		for name, q := range podReq {
			switch name {
			case apiext.ResourceGPUCore:
				name = apiext.DeprecatedGPUCore
			case apiext.ResourceGPUMemoryRatio:
				name = apiext.DeprecatedGPUMemoryRatio
			case apiext.ResourceRDMA:
				name = apiext.DeprecatedKoordRDMA
			}
			rq[name] = q
		}
		pod.Spec.Containers[0].Resources = corev1.ResourceRequirements{Requests: rq, Limits: rq.DeepCopy()}
		if hasAnn {
			na := c07NAnn{}
			for _, a := range des {
				na[0] = append(na[0], c07NEntry{minor: a.minor, leg: a.vec, cur: c07Absent})
			}
			if joint {
				for _, a := range desR {
					na[1] = append(na[1], c07NEntry{minor: a.minor, leg: a.vec, cur: c07Absent})
				}
			}
			_ = apiext.SetDeviceAllocations(pod, na.api())
		}
		h.Tag("cycle:pod-with-deprecated-names")
	}
	if out, err := m.podTx(pod); err == nil {
		pod = out.(*corev1.Pod)
	} else {
		m.t.Fatalf("pod transformer: %v", err)
	}
	designated := hasAnn && hint
	switch {
	case designated:
		h.Tag("cycle:designated")
	case hasAnn:
		h.Tag("cycle:annotation-without-hint")
	default:
		h.Tag("cycle:plain")
	}
	cs := framework.NewCycleState()
	if hint {
		hinter.SetSchedulingHintState(cs, &hinter.SchedulingHintStateData{Extensions: map[string]interface{}{Name: nil}})
	}
	if hasAnn {
		h.Op("cyb 1 %d %s", vB(hint), c07EntriesTok(des))
	} else {
		h.Op("cyb 0 %d 0", vB(hint))
	}
	var pst *fwktype.Status
	if h.Guard(func() { _, pst = pl.PreFilter(context.TODO(), cs, pod, nil) }) {
		h.Obs("panic")
		return false, true
	}
	if !pst.IsSuccess() {
		h.Fail("C07:prefilter-refused", "PreFilter refused a well-formed GPU pod: %v", pst)
		return false, true
	}
	// extension 4: the restore state of every node, as frameworkext's BeforePreFilter builds it before any Filter: the pod
	// matches none of the reservations
	if sp.unmatched != nil {
		h.Tag("cycle:restore-state-unmatched-reservations")
		if h.Guard(func() { pl.PreRestoreReservation(context.TODO(), cs, pod) }) {
			h.Obs("panic")
			return false, true
		}
		gpu := schedulingv1alpha1.GPU
		for i := range m.ns {
			nd := m.sel(i)
			rvs := sp.unmatched[i]
			h.Op("cyrst %s", c07RsvListTok(rvs))
			var us []*frameworkext.ReservationInfo
			for _, rv := range rvs {
				ro := c07RsvObj(rv.id, rv.g, true, true, schedulingv1alpha1.ReservationAvailable, rv.policy)
				ro.Status.NodeName = names[i]
				ri := frameworkext.NewReservationInfo(ro)
				for _, o := range rv.owners {
					ri.AddAssignedPod(c07EvPodObj(o, nil, names[i]))
				}
				us = append(us, ri)
			}
			var out interface{}
			if h.Guard(func() { out, _ = pl.RestoreReservation(context.TODO(), cs, pod, nil, us, nd.ni) }) {
				h.Obs("panic")
				return false, true
			}
			rs, _ := out.(*nodeReservationRestoreStateData)
			if rs == nil {
				h.Obs("restore nil")
				continue
			}
			for _, a := range rs.unmatched {
				rid, err := strconv.Atoi(strings.TrimPrefix(a.rInfo.Pod.Name, "p"))
				if err != nil {
					rid = 999
				}
				h.Obs("ra 1 %d %s", rid, c07DRTok(0, a.allocatable[gpu]))
				h.Obs("rb 1 %d %s", rid, c07DRTok(0, a.allocated[gpu]))
				h.Obs("rc 1 %d %s", rid, c07DRTok(0, a.remained[gpu]))
				if len(a.allocated[gpu]) == 0 {
					h.Tag("restore:unmatched:unconsumed")
				} else if len(a.remained[gpu]) == 0 {
					h.Tag("restore:unmatched:fully-consumed")
				} else {
					h.Tag("restore:unmatched:partly-consumed")
				}
			}
			h.Obs("rm 2 %s", c07DRTok(0, rs.mergedUnmatchedUsed[gpu]))
			// the hypothesis rsvOK of unmatched_discount_val / unmatched_reservation_remainder_not_free on my own record:
			// no reservation's owners hold more than the reservation does on one of its GPUs
			hyp := true
			for _, rv := range rvs {
				for _, a := range nd.live[0][rv.id] {
					var inside c07Vals
					for _, o := range rv.owners {
						for _, b := range nd.live[0][o] {
							if b.minor == a.minor {
								for k := 0; k < c07D; k++ {
									inside[k] += b.vec.val(k)
								}
							}
						}
					}
					for k := 0; k < c07D; k++ {
						if inside[k] > a.vec.val(k) {
							hyp = false
							if sp.overOn == nil {
								sp.overOn = map[[2]int]bool{}
							}
							sp.overOn[[2]int{i, a.minor}] = true
						}
					}
				}
			}
			if hyp {
				h.Tag("hyp:rsvOK")
			} else {
				h.Obs("rsvhyp 0")
				h.Tag("hyp:not-rsvOK")
			}
		}
	}
	// do the GPUs the pod may use fit on the value ledger l?  (designated: exactly these GPUs; else: any cnt non-zero GPUs)
	var fitsNode *c07MNode
	fitsDesignated := func(l *c07Ledger) bool {
		for _, a := range des {
			row := l.row(0, a.minor)
			if row.t == (c07Vals{}) {
				return false
			}
			free := sp.freeOn(fitsNode, l, a.minor)
			for k := 0; k < c07D; k++ {
				if req.val(k) > free[k] {
					return false
				}
			}
		}
		return true
	}
	fitsAny := func(nd *c07MNode, l *c07Ledger) bool {
		q := 0
		for _, d := range nd.inv[0] {
			row := l.row(0, d.minor)
			if row.t == (c07Vals{}) {
				continue
			}
			ok := true
			free := sp.freeOn(nd, l, d.minor)
			for k := 0; k < c07D; k++ {
				if req.val(k) > free[k] {
					ok = false
				}
			}
			if ok {
				q++
			}
		}
		return q >= cnt
	}
	fits := func(nd *c07MNode) bool {
		fitsNode = nd
		if designated {
			return fitsDesignated(nd.cur)
		}
		return fitsAny(nd, nd.cur)
	}
	var feasible []int
	for _, i := range sp.order {
		nd := m.sel(i)
		h.Op("cyf %s %d %s", c07IntsTok(nd.infoMin[0]), cnt, req.tok())
		var st *fwktype.Status
		if h.Guard(func() { st = pl.Filter(context.TODO(), cs, pod, nd.ni) }) {
			h.Obs("panic")
			continue
		}
		h.Obs("filter %d", vB(st.IsSuccess()))
		h.Tag(fmt.Sprintf("cycle:Filter:%d", vB(st.IsSuccess())))
		if want := fits(nd); !want && st.IsSuccess() && sp.overOnNode(i) {
			// the open known finding can only turn a refusal into an admission, and only on a node with such a GPU: judged
			// at Reserve (with the device in hand), tagged here
			h.Tag("cycle:Filter:admitted-next-to-owner-exceeding-reservation")
		} else if want != st.IsSuccess() {
			h.Fail("C07:filter-verdict", "Filter of pod %d (%d GPU x %v, designated %v) on node %d answered %v; the GPUs it may use there fit = %v", id, cnt, req, designated, i, st, want)
		}
		if st.IsSuccess() {
			feasible = append(feasible, i)
		}
	}
	if sp.between != nil {
		sp.between()
	}
	x := sp.pick(feasible)
	nd := m.sel(x)
	before := nd.cur
	var rst *fwktype.Status
	var result apiext.DeviceAllocations
	if h.Guard(func() {
		schedulingphase.RecordPhase(cs, schedulingphase.Reserve) // frameworkExtenderImpl.RunReservePluginsReserve
		defer schedulingphase.RecordPhase(cs, "")
		rst = pl.Reserve(context.TODO(), cs, pod, names[x])
		if rst.IsSuccess() {
			if state, st := getPreFilterState(cs); st.IsSuccess() {
				result = state.allocationResult
			}
		}
	}) {
		h.Op("cyr %s %d %s 0 0", c07IntsTok(nd.infoMin[0]), cnt, req.tok())
		h.Obs("panic")
		return false, true
	}
	res := c07ResultOf(0, result[schedulingv1alpha1.GPU], !rst.IsSuccess())
	h.Op("cyr %s %d %s %d %s", c07IntsTok(nd.infoMin[0]), cnt, req.tok(), vB(res.ok), c07IntsTok(res.minors))
	h.Tag(fmt.Sprintf("cycle:Reserve:%d", vB(res.ok)))
	want := fits(nd)
	if !res.ok {
		h.Obs("alloc fail")
		if want {
			h.Fail("C07:reserve-refused-although-free", "Reserve of pod %d (%d GPU x %v, designated %v: %v) on node %d refused (%v) although the GPUs it may use are free there", id, cnt, req, designated, des, x, rst)
		}
		return false, false
	}
	ms := append([]int(nil), res.minors...)
	sort.Ints(ms)
	if len(ms) == 0 {
		h.Obs("alloc ok 0")
	} else {
		h.Obs("alloc ok %d %s", len(ms), vIntsI(ms))
		h.Obs("cov 1")
	}
	g := c07GroupsOf(result)
	// --- the property at the commit point, on the ledger of node x as it was just before Reserve ---
	wantTypes := 1
	if joint {
		wantTypes = 2
	}
	if len(g) != wantTypes || len(g[0]) == 0 || (joint && len(g[1]) != 1) {
		h.Fail("C07:reserve-committed-types", "pod %d requests %d device type(s) (GPU, joint RDMA: %v); Reserve on node %d (well planned: %v) committed device types %v", id, wantTypes, joint, x, nd.wellPlanned, g.types())
	}
	if joint && len(g[1]) == 1 {
		a := g[1][0]
		row := before.row(1, a.minor)
		if a.vec[0] != ra {
			h.Fail("C07:alloc-unsound:amount", "RDMA %d committed %v, requested %d", a.minor, a.vec, ra)
		}
		if a.vec.val(0) > row.f[0] {
			h.Fail("C07:reserve-device-not-free", "pod %d: Reserve on node %d committed %v on RDMA %d whose free amount there at that moment was %v", id, x, a.vec, a.minor, row.f)
		}
		if designated && len(desR) == 1 && desR[0].minor != a.minor {
			h.Fail("C07:reserve-outside-designation", "pod %d is designated to RDMA %d, Reserve committed RDMA %d", id, desR[0].minor, a.minor)
		}
	}
	if len(g[0]) != cnt {
		h.Fail("C07:alloc-unsound:count", "%d GPUs committed, %d requested", len(g[0]), cnt)
	}
	seen := map[int]bool{}
	for _, a := range g[0] {
		if seen[a.minor] {
			h.Fail("C07:alloc-unsound:duplicate-minor", "minor %d committed twice", a.minor)
		}
		seen[a.minor] = true
		row := before.row(0, a.minor)
		// extension 4: with reservations on the node "free" counts what every reservation the pod does not match still
		// holds as in use (freeOn; without reservations it is the ledger's own free amount)
		free := sp.freeOn(nd, before, a.minor)
		for k := 0; k < c07D; k++ {
			if req[k] >= 0 && a.vec[k] != req[k] {
				h.Fail("C07:alloc-unsound:amount", "GPU %d committed %v, per-GPU request %v", a.minor, a.vec, req)
			}
			if k == 0 && !c07MemPairCheck(h, fmt.Sprintf("pod %d (%d GPU x %v) on node %d", id, cnt, req, x), a.minor, req, a.vec, row.t[1], before.rows[[2]int{0, a.minor}] != nil && before.rows[[2]int{0, a.minor}].tp[1] && before.rows[[2]int{0, a.minor}].tp[2]) {
				break
			}
			if a.vec.val(k) > free[k] {
				fp := "C07:reserve-device-not-free"
				if sp.overOn[[2]int{x, a.minor}] {
					// exactly the class of the open known finding: on THIS GPU an unmatched reservation's owners hold more
					// than the reservation does; every other device keeps the plain fingerprint
					fp = "C07:reserve-device-not-free:owner-exceeds-reservation"
				}
				h.Fail(fp, "pod %d: Reserve on node %d committed %v on GPU %d whose free amount there at that moment was %v (total %v, booked in use %v; unmatched reservations on the node: %v)", id, x, a.vec, a.minor, free, row.t, row.u, sp.unmatched != nil)
				break
			}
		}
		if designated {
			in := false
			for _, d := range des {
				in = in || d.minor == a.minor
			}
			if !in {
				h.Fail("C07:reserve-outside-designation", "pod %d is designated to GPUs %v, Reserve committed GPU %d", id, des, a.minor)
			}
		}
	}
	if !designated && len(g[0]) > 0 {
		c07FillObs(h, g[0], req) // extension 6: the filled amounts are modelled (fillGPU on the selected node's totals)
	}
	h.Op("add %d %s", id, g.tok())
	for _, tt := range g.types() {
		nd.noteAdd(tt, id, g[tt], before)
	}
	nd.cur = nd.emitLedger()
	if sp.unmatched != nil {
		// the ledger books an owner pod ON TOP of its reservation (by design), so a GPU whose reservation is partly consumed
		// can go over its total in the ledger by a correct commit: that clause of checkLedger is judged by freeOn above
		nd.checkLedger("commit-next-to-reservations", before, nd.cur)
	} else {
		nd.checkLedger("commit", before, nd.cur)
	}
	// sometimes the binding fails: Unreserve gives everything back
	if sp.unreserve {
		h.Op("rem %d %s", id, g.tok())
		b2 := nd.cur
		if h.Guard(func() { pl.Unreserve(context.TODO(), cs, pod, names[x]) }) {
			h.Obs("panic")
			return true, false
		}
		for _, tt := range g.types() {
			nd.noteRemove(tt, id, g[tt])
		}
		nd.cur = nd.emitLedger()
		nd.checkLedger("release", b2, nd.cur)
		h.Tag("cycle:Unreserve")
	}
	return true, false
}

// ---------------------------------------------------------------------------------------------------------------
// C07 extension 4: non-owner pods next to UNMATCHED reservations.
// A reservation that is Available holds its devices through its reserve pod's record; an owner pod that is allocated from
// it is booked ON TOP (the ledger counts both).  For a pod that does not match the reservation RestoreReservation /
// mergeReservationAllocations hand Filter and Reserve a discount per GPU that must take out exactly the double-counted
// part (what the owners consumed): what the reservation STILL holds is in use for everybody but its owners.
// Oracle (freeOn): free on a GPU = total - (plain pods' holdings + per reservation max(its whole record, what its owners hold there));
//   C07:reserve-device-not-free  a committed GPU did not have the amount free at that moment
//   C07:filter-verdict / C07:reserve-refused-although-free  as in the designated stream, on that notion of free.
// Owners hold GPUs of their reservation only.  In 2 cases of 3 they never hold more than the reservation does on a GPU (what
// the Restricted policy guarantees; the Lean hypothesis rsvOK); in 1 case of 3 they may (Default / Aligned policy): there
// RestoreReservation's `remained` goes negative and the discount exceeds the reservation's record - OPEN KNOWN FINDING
//   C07:reserve-device-not-free:owner-exceeds-reservation   used ONLY when the committed GPU itself is such a GPU.
// ---------------------------------------------------------------------------------------------------------------
func c07UnmatchedCase(t *testing.T, h *vHarness, r *vRand, pl *Plugin, podTx cache.TransformFunc, nodes []*corev1.Node, names []string) bool {
	// OPEN KNOWN FINDING C07:reserve-device-not-free:owner-exceeds-reservation, 1 case in 3 (VERIF_C07_OVERCONSUME=1: every
	// case, =0: never): an owner may hold MORE than its reservation does on a GPU (Default / Aligned policy: the rest comes
	// out of the node's free amount), as much as is really free there
	overEnv := os.Getenv("VERIF_C07_OVERCONSUME") == "1" || (os.Getenv("VERIF_C07_OVERCONSUME") != "0" && r.Chance(1, 3))
	if overEnv {
		h.Tag("stream:unmatched-reservations:owners-may-exceed")
	}
	nn := r.Range(1, 3)
	mem := int64(r.Pick([]int64{16 << 30, 80 << 30}))
	m := c07NewMulti(t, h, r, pl, podTx, nodes, names, nn, mem)
	ns := m.ns
	nextPod := 1
	owners := map[int]bool{}
	unmatched := map[int][]*c07EvRsv{}
	// what the harness has placed on (node, minor): plain pods + reservations (NOT the owners: they are inside)
	held := map[[2]int]int64{}
	for i := 0; i < nn; i++ {
		ng := r.Range(1, 3)
		for mi := 0; mi < ng; mi++ {
			ns[i].inv[0] = append(ns[i].inv[0], c07Dev{minor: mi, healthy: !r.Chance(1, 16), res: c07Vec{100, mem, 100}, numa: -1})
		}
		m.sel(i).applyInventory(false)
		var healthy []int
		for _, d := range ns[i].inv[0] {
			if d.healthy {
				healthy = append(healthy, d.minor)
			}
		}
		if len(healthy) == 0 {
			continue
		}
		// sometimes a plain pod was there first
		if r.Chance(1, 4) {
			mi := healthy[r.Intn(len(healthy))]
			amt := int64(r.Pick([]int64{30, 50}))
			m.sel(i).doAddOn(nextPod, c07Groups{0: {{minor: mi, vec: m.frac(amt)}}})
			held[[2]int{i, mi}] += amt
			nextPod++
		}
		// reservations: each on 1 GPU (1 in 4: 2 GPUs), 50 or 100 per GPU, only where that much is left
		for k, nr := 0, r.Range(1, 2); k < nr; k++ {
			amt := int64(r.Pick([]int64{50, 100, 100}))
			want := 1
			if r.Chance(1, 4) {
				want = 2
			}
			var al []c07Alloc
			for _, j := range r.Perm(len(healthy)) {
				mi := healthy[j]
				if len(al) < want && held[[2]int{i, mi}]+amt <= 100 {
					al = append(al, c07Alloc{minor: mi, vec: m.frac(amt)})
				}
			}
			if len(al) == 0 {
				continue
			}
			sort.Slice(al, func(a, b int) bool { return al[a].minor < al[b].minor })
			rv := &c07EvRsv{id: 100 + nextPod, g: c07Groups{0: al}, policy: []schedulingv1alpha1.ReservationAllocatePolicy{
				schedulingv1alpha1.ReservationAllocatePolicyDefault, schedulingv1alpha1.ReservationAllocatePolicyAligned, schedulingv1alpha1.ReservationAllocatePolicyRestricted}[r.Intn(3)]}
			nextPod++
			// the reservation handler turns the Reservation into its reserve pod (name = UID = p<id>) and adds it
			m.sel(i).doAddOn(rv.id, rv.g)
			for _, a := range al {
				held[[2]int{i, a.minor}] += amt
			}
			// owners: 0-2 pods allocated from it, together never more than it holds on a GPU
			left := map[int]int64{}
			for _, a := range al {
				left[a.minor] = amt
			}
			no := int(r.Pick([]int64{0, 0, 1, 1, 2}))
			if overEnv && no == 0 {
				no = 1
			}
			for o := 0; o < no; o++ {
				var og []c07Alloc
				for _, a := range al {
					take := int64(r.Pick([]int64{20, 50, 100}))
					if take > left[a.minor] || (overEnv && r.Bool()) {
						take = left[a.minor]
					}
					if take == 0 || (len(al) > 1 && r.Chance(1, 3)) {
						continue
					}
					left[a.minor] -= take
					if room := 100 - held[[2]int{i, a.minor}]; overEnv && left[a.minor] == 0 && room >= 30 && rv.policy != schedulingv1alpha1.ReservationAllocatePolicyRestricted && r.Chance(3, 4) {
						extra := int64(30)
						if room >= 50 && r.Bool() {
							extra = 50
						}
						take += extra
						held[[2]int{i, a.minor}] += extra
						h.Tag("rsv:owner-exceeds-reservation")
					}
					og = append(og, c07Alloc{minor: a.minor, vec: m.frac(take)})
				}
				oid := nextPod
				nextPod++
				rv.owners = append(rv.owners, oid)
				owners[oid] = true
				if len(og) == 0 || r.Chance(1, 6) {
					// an owner that is gone (or holds no device): the reservation cache still lists it, the ledger has no record
					h.Tag("rsv:owner-without-record")
					continue
				}
				m.sel(i).doAddOn(oid, c07Groups{0: og})
			}
			if r.Chance(1, 5) {
				sh := make([]int, len(rv.owners))
				for a, b := range r.Perm(len(rv.owners)) {
					sh[a] = rv.owners[b]
				}
				rv.owners = sh
			}
			unmatched[i] = append(unmatched[i], rv)
		}
		// a plain pod on what is left
		if r.Chance(1, 3) {
			mi := healthy[r.Intn(len(healthy))]
			if room := 100 - held[[2]int{i, mi}]; room >= 30 {
				amt := int64(30)
				if room >= 50 && r.Bool() {
					amt = 50
				}
				m.sel(i).doAddOn(nextPod, c07Groups{0: {{minor: mi, vec: m.frac(amt)}}})
				held[[2]int{i, mi}] += amt
				nextPod++
			}
		}
	}
	reserved := 0
	for cyi, cycles := 0, r.Range(1, 2); cyi < cycles; cyi++ {
		sp := &c07CycleSpec{id: nextPod, cnt: 1, amount: int64(r.Pick([]int64{30, 50, 50, 100, 100})), unmatched: unmatched, owners: owners}
		nextPod++
		if r.Chance(1, 6) {
			sp.cnt, sp.amount = 2, 100
		}
		sp.hint = r.Chance(5, 6)
		if overEnv && r.Chance(2, 3) { // a request that fits into what an oversized discount pretends to be free
			sp.cnt, sp.amount = 1, int64(r.Pick([]int64{30, 50}))
		}
		if r.Chance(1, 4) { // a designation on top (the annotation of an earlier placement)
			sp.hasAnn = true
			pm := r.Perm(3)
			for i := 0; i < sp.cnt; i++ {
				sp.des = append(sp.des, c07Alloc{minor: pm[i], vec: m.frac(sp.amount)})
			}
			sort.Slice(sp.des, func(i, j int) bool { return sp.des[i].minor < sp.des[j].minor })
		}
		sp.order = r.Perm(nn)
		sp.between = func() {
			if !r.Chance(1, 3) {
				return
			}
			nd := ns[r.Intn(nn)]
			var plain []int
			for _, pid := range nd.livePods() {
				if !owners[pid] && pid < 100 {
					plain = append(plain, pid)
				}
			}
			if len(plain) > 0 && r.Bool() {
				m.sel(nd.idx).doDelOn(plain[r.Intn(len(plain))])
				h.Tag("cycle:event-between:pod-delete")
			} else {
				d := nd.inv[0][r.Intn(len(nd.inv[0]))]
				oid := nextPod
				nextPod++
				m.sel(nd.idx).doAddOn(oid, c07Groups{0: {{minor: d.minor, vec: m.frac(int64(r.Pick([]int64{50, 100})))}}})
				h.Tag("cycle:event-between:pod-add")
			}
		}
		sp.pick = func(feasible []int) int {
			x := -1
			if len(feasible) > 0 {
				x = feasible[r.Intn(len(feasible))]
			}
			if x < 0 || r.Chance(1, 8) {
				x = r.Intn(nn)
				h.Tag("cycle:Reserve-on-arbitrary-node")
			}
			return x
		}
		sp.unreserve = r.Chance(1, 6)
		ok, stop := m.cycle(sp)
		if ok {
			reserved++
		}
		if stop {
			break
		}
	}
	return reserved > 0
}

func c07DesignatedFixture(t *testing.T) (*Plugin, []*corev1.Node, []string) {
	names := []string{"n0", "n1", "n2"}
	var nodes []*corev1.Node
	for _, nm := range names {
		nodes = append(nodes, &corev1.Node{ObjectMeta: metav1.ObjectMeta{Name: nm}})
	}
	suit := newPluginTestSuit(t, nodes)
	p, err := suit.proxyNew(context.TODO(), getDefaultArgs(), suit.Framework)
	if err != nil {
		t.Fatalf("plugin: %v", err)
	}
	return p.(*Plugin), nodes, names
}

func TestVerifC07Designated(t *testing.T) {
	h := vOpen("C07")
	if h == nil {
		t.Skip("VERIF_OUT not set")
	}
	pl, nodes, names := c07DesignatedFixture(t)
	podTx, _ := c07Transforms()

	n := h.N(560, 11200)
	for idx := 0; idx < n; idx++ {
		r := h.Begin(idx)
		if r == nil {
			continue
		}
		pl.nodeDeviceCache = newNodeDeviceCache()
		// extension 4, 2 cases in 7: nodes whose GPUs are held by Available reservations, pods that match none of them
		if r.Chance(2, 7) {
			h.Tag("stream:unmatched-reservations")
			if c07UnmatchedCase(t, h, r, pl, podTx, nodes, names) {
				h.Nontrivial()
			}
			h.End()
			continue
		}
		nn := r.Range(2, 3)
		mem := int64(r.Pick([]int64{16 << 30, 80 << 30}))
		// 1 case in 3: the nodes also have RDMA devices (never the bottleneck: <= 20 of 100 per pod, <= 3 pods), half of the
		// nodes are labelled secondary-device-well-planned, and half of the pods ask for whole GPUs + RDMA with a
		// device-joint-allocate annotation: Filter leaves the RDMA out of its trial on a well-planned node, Reserve never does
		jointCase := r.Chance(1, 3)
		if jointCase {
			h.Tag("stream:gpu+rdma-joint")
		}
		m := c07NewMulti(t, h, r, pl, podTx, nodes, names, nn, mem)
		// extension 6, 1 case in 3 (VERIF_C07_MIXMEM=1: every case, =0: never): the GPUs of a node have DIFFERENT memory sizes
		// (per minor, the same on every node: a designation names minors), and half of the pods ask for two GPUs
		mixed := os.Getenv("VERIF_C07_MIXMEM") == "1" || (os.Getenv("VERIF_C07_MIXMEM") != "0" && r.Chance(1, 3))
		if mixed {
			h.Tag("stream:mixed-memory-sizes")
			sizes := []int64{16 << 30, 32 << 30, 80 << 30}
			off := r.Intn(3)
			m.memBy = map[int]int64{0: sizes[off%3], 1: sizes[(off+1+r.Intn(2))%3], 2: int64(r.Pick(sizes))}
		}
		ns := m.ns
		nextPod := 1
		for i := 0; i < nn; i++ {
			base := ns[i].c07Case
			if jointCase {
				base.wellPlanned = r.Bool()
				base.inPlay = []int{0, 1}
				base.da[1] = 1
				for mi := 0; mi < 2; mi++ {
					base.inv[1] = append(base.inv[1], c07Dev{minor: mi, healthy: true, res: c07Vec{100, -1, -1}, numa: -1})
				}
				if base.wellPlanned {
					h.Tag("node:secondary-device-well-planned")
				}
			}
			// the same minors on every node (a designation names minors, not nodes)
			ng := r.Range(2, 3)
			for mi := 0; mi < ng; mi++ {
				dm := mem
				if mixed {
					dm = m.memBy[mi]
				}
				base.inv[0] = append(base.inv[0], c07Dev{minor: mi, healthy: !r.Chance(1, 12), res: c07Vec{100, dm, 100}, numa: -1})
			}
			m.sel(i).applyInventory(false)
		}
		// background load: pods already running on some GPUs of some nodes (raw informer adds)
		for i, k := 0, r.Range(1, 4); i < k; i++ {
			nd := ns[r.Intn(nn)]
			d := nd.inv[0][r.Intn(len(nd.inv[0]))]
			if !d.healthy {
				continue
			}
			id := nextPod
			nextPod++
			m.sel(nd.idx).doAddOn(id, c07Groups{0: {{minor: d.minor, vec: m.fracOn(d.minor, int64(r.Pick([]int64{30, 50, 100, 100})))}}})
		}

		cycles := r.Range(1, 3)
		reserved := 0
		for cyi := 0; cyi < cycles; cyi++ {
			sp := &c07CycleSpec{id: nextPod, cnt: 1, amount: int64(r.Pick([]int64{30, 50, 100, 100}))}
			nextPod++
			if r.Chance(1, 4) {
				sp.cnt, sp.amount = 2, 100
			} else if mixed && r.Chance(1, 2) {
				sp.cnt = 2 // two GPUs of different sizes, whole or a fraction of each (gpu.shared 2)
				h.Tag("cycle:mixed-two-gpus")
			}
			sp.joint = jointCase && r.Bool()
			if sp.joint { // whole GPUs + a share of one RDMA device
				sp.amount = 100
				sp.ra = int64(r.Pick([]int64{10, 20}))
			}
			// designation: the annotation of an earlier placement (cnt entries on distinct minors)
			sp.hasAnn = r.Chance(4, 5)
			sp.hint = r.Chance(5, 6)
			if sp.hasAnn {
				pm := r.Perm(2)
				for i := 0; i < sp.cnt; i++ {
					sp.des = append(sp.des, c07Alloc{minor: pm[i], vec: m.fracOn(pm[i], sp.amount)})
				}
				sort.Slice(sp.des, func(i, j int) bool { return sp.des[i].minor < sp.des[j].minor })
				if sp.joint {
					sp.desR = []c07Alloc{{minor: r.Intn(2), vec: c07Vec{sp.ra, -1, -1}}}
				}
			}
			sp.deprecated = r.Chance(1, 4)
			sp.order = r.Perm(nn)
			sp.between = func() { // an informer event on some node (another pod lands on / leaves a GPU)
				if !r.Chance(1, 2) {
					return
				}
				nd := ns[r.Intn(nn)]
				if live := nd.livePods(); len(live) > 0 && r.Chance(1, 3) {
					pid := live[r.Intn(len(live))]
					m.sel(nd.idx).doDelOn(pid)
					h.Tag("cycle:event-between:pod-delete")
				} else {
					d := nd.inv[0][r.Intn(len(nd.inv[0]))]
					oid := nextPod
					nextPod++
					m.sel(nd.idx).doAddOn(oid, c07Groups{0: {{minor: d.minor, vec: m.fracOn(d.minor, int64(r.Pick([]int64{50, 100, 100})))}}})
					h.Tag("cycle:event-between:pod-add")
				}
			}
			// Reserve on a node that passed Filter (1 in 8: on any node - the framework never does that, the plugin must cope)
			sp.pick = func(feasible []int) int {
				x := -1
				if len(feasible) > 0 {
					x = feasible[r.Intn(len(feasible))]
				}
				if x < 0 || r.Chance(1, 8) {
					x = r.Intn(nn)
					h.Tag("cycle:Reserve-on-arbitrary-node")
				}
				return x
			}
			sp.unreserve = r.Chance(1, 5)
			ok, stop := m.cycle(sp)
			if ok {
				reserved++
			}
			if stop {
				break
			}
		}
		if reserved > 0 {
			h.Nontrivial()
		}
		h.End()
	}
	h.Close("2-3 nodes with 2-3 GPUs each (same minors everywhere) and a few running pods; 1-3 scheduling cycles PreFilter -> Filter on every node (random order) -> " +
		"[a pod add / delete event on some node] -> Reserve on a node that passed Filter (1 in 8: any node) -> [Unreserve], Reserve under schedulingphase.RecordPhase; " +
		"the pod carries a device-allocated annotation (designation) in 4 of 5 cycles and the DeviceShare scheduling hint in 5 of 6; 1 or 2 GPUs, fractional or whole; " +
		"1 case in 3 with RDMA devices, well-planned nodes and joint GPU+RDMA pods; 1 pod in 4 written with deprecated resource names; every pod passes the pod transformer. " +
		"2 cases in 7 (stream:unmatched-reservations): every node carries 1-2 Available reservations (reserve pod record on 1-2 GPUs, 50 or 100 per GPU) that 0-2 owner pods have not / partly / fully consumed " +
		"(+ owners that are gone), plain pods on what is left; the scheduled pods match NO reservation: PreFilter -> PreRestoreReservation -> RestoreReservation(matched none, unmatched all) on every node -> " +
		"Filter -> [event] -> Reserve, 1 pod in 4 designated; free = total - (plain pods + what every reservation holds). " +
		"extension 6: 1 plain case in 3 (VERIF_C07_MIXMEM) has GPUs of different memory sizes (per minor, the same on every node), half of its pods ask for two GPUs (whole, or a fraction of each via gpu.shared 2); " +
		"every non-designated commit is compared with the model's fillGPU (`fill`), every commit judged by the memory-pair clause. " +
		"non-trivial = at least one Reserve committed; distinct by op list")
}

// ---------------------------------------------------------------------------------------------------------------
// C07 designated, exhaustive small scope (thorough tier): two nodes with GPUs 0 and 1 each, EVERY combination of
//   which of the four GPUs is fully in use by a running pod                                                    16
//   the pod (one whole GPU): no annotation / designated to GPU 0 / to GPU 1 (with hint) / to GPU 0 without hint   4
//   Filter order: node 0 then 1 / node 1 then 0 / node 0 only / node 1 only                                     4
//   between Filter and Reserve: nothing / a pod takes (node, GPU) whole [4] / the pod running on (node, GPU) is deleted [4]   9
//   Reserve on node 0 / node 1                                                                                  2
// = 4608 histories (a delete of a pod that does not exist is a no-op event and kept: the enumeration stays a product).
// ---------------------------------------------------------------------------------------------------------------
func TestVerifC07DesignatedExhaustive(t *testing.T) {
	h := vOpen("C07")
	if h == nil {
		t.Skip("VERIF_OUT not set")
	}
	pl, nodes, names := c07DesignatedFixture(t)
	podTx, _ := c07Transforms()
	mem := int64(16 << 30)
	orders := [][]int{{0, 1}, {1, 0}, {0}, {1}}
	idx := 0
	for busy := 0; busy < 16; busy++ {
		for dz := 0; dz < 4; dz++ {
			for _, order := range orders {
				for ev := 0; ev < 9; ev++ {
					for x := 0; x < 2; x++ {
						r := h.Begin(idx)
						idx++
						if r == nil {
							continue
						}
						pl.nodeDeviceCache = newNodeDeviceCache()
						m := c07NewMulti(t, h, r, pl, podTx, nodes, names, 2, mem)
						running := map[[2]int]int{}
						nextPod := 1
						for i := 0; i < 2; i++ {
							for mi := 0; mi < 2; mi++ {
								m.ns[i].inv[0] = append(m.ns[i].inv[0], c07Dev{minor: mi, healthy: true, res: c07Vec{100, mem, 100}, numa: -1})
							}
							m.sel(i).applyInventory(false)
							for mi := 0; mi < 2; mi++ {
								if busy&(1<<(2*i+mi)) != 0 {
									running[[2]int{i, mi}] = nextPod
									m.sel(i).doAddOn(nextPod, c07Groups{0: {{minor: mi, vec: m.frac(100)}}})
									nextPod++
								}
							}
						}
						sp := &c07CycleSpec{id: 50, cnt: 1, amount: 100, order: order}
						switch dz {
						case 1, 2:
							sp.hasAnn, sp.hint = true, true
							sp.des = []c07Alloc{{minor: dz - 1, vec: m.frac(100)}}
						case 3:
							sp.hasAnn = true
							sp.des = []c07Alloc{{minor: 0, vec: m.frac(100)}}
						default:
							sp.hint = true
						}
						sp.between = func() {
							if ev == 0 {
								return
							}
							e := ev - 1
							i, mi := (e%4)/2, e%2
							if e < 4 {
								m.sel(i).doAddOn(60, c07Groups{0: {{minor: mi, vec: m.frac(100)}}})
							} else if pid, ok := running[[2]int{i, mi}]; ok {
								m.sel(i).doDelOn(pid)
							}
						}
						sp.pick = func([]int) int { return x }
						if ok, _ := m.cycle(sp); ok {
							h.Nontrivial()
						}
						h.End()
					}
				}
			}
		}
	}
	designatedN := idx
	// ---- extension 4: unmatched reservations, exhaustive small scope.  ONE node, GPUs 0 and 1 of 100; EVERY combination of
	//   per GPU one of 11 occupancies: empty | plain pod 50 | plain pod 100 | reservation 50 unconsumed | 50 with owner 20 |
	//     50 with owner 50 | reservation 100 unconsumed | 100 with owner 50 | 100 with owner 100 | reservation 50 + plain pod 50 |
	//     reservation 100 whose only owner is gone                                                                 121
	//   the pod (matches no reservation): 1 x 30 | 1 x 50 | 1 x 100 | 2 x 100                                          4
	//   no annotation | designated to GPU 0 (2 GPUs: to both) | designated to GPU 1 (2 GPUs: both, without hint)      3
	//   between Filter and Reserve: nothing | a plain pod takes 50 of GPU 0 | the plain pod on GPU 0 / 1 is deleted   4
	// = 5808 histories
	type occ struct {
		rsv, owner, plain int64
		gone            bool
	}
	occs := []occ{{}, {plain: 50}, {plain: 100}, {rsv: 50}, {rsv: 50, owner: 20}, {rsv: 50, owner: 50}, {rsv: 100}, {rsv: 100, owner: 50},
		{rsv: 100, owner: 100}, {rsv: 50, plain: 50}, {rsv: 100, gone: true}}
	type want struct {
		cnt    int
		amount int64
	}
	wants := []want{{1, 30}, {1, 50}, {1, 100}, {2, 100}}
	for o0 := range occs {
		for o1 := range occs {
			for _, w := range wants {
				for dz := 0; dz < 3; dz++ {
					for ev := 0; ev < 4; ev++ {
						r := h.Begin(idx)
						idx++
						if r == nil {
							continue
						}
						pl.nodeDeviceCache = newNodeDeviceCache()
						m := c07NewMulti(t, h, r, pl, podTx, nodes, names, 1, mem)
						for mi := 0; mi < 2; mi++ {
							m.ns[0].inv[0] = append(m.ns[0].inv[0], c07Dev{minor: mi, healthy: true, res: c07Vec{100, mem, 100}, numa: -1})
						}
						m.sel(0).applyInventory(false)
						owners := map[int]bool{}
						unmatched := map[int][]*c07EvRsv{}
						plainOn := map[int]int{}
						for mi, oc := range []occ{occs[o0], occs[o1]} {
							if oc.rsv > 0 {
								rv := &c07EvRsv{id: 101 + mi, g: c07Groups{0: {{minor: mi, vec: m.frac(oc.rsv)}}}, policy: schedulingv1alpha1.ReservationAllocatePolicyRestricted}
								m.sel(0).doAddOn(rv.id, rv.g)
								if oc.owner > 0 {
									rv.owners = []int{11 + mi}
									owners[11+mi] = true
									m.sel(0).doAddOn(11+mi, c07Groups{0: {{minor: mi, vec: m.frac(oc.owner)}}})
								}
								if oc.gone {
									rv.owners = []int{11 + mi}
									owners[11+mi] = true
								}
								unmatched[0] = append(unmatched[0], rv)
							}
							if oc.plain > 0 {
								plainOn[mi] = 21 + mi
								m.sel(0).doAddOn(21+mi, c07Groups{0: {{minor: mi, vec: m.frac(oc.plain)}}})
							}
						}
						sp := &c07CycleSpec{id: 50, cnt: w.cnt, amount: w.amount, order: []int{0}, hint: true, unmatched: unmatched, owners: owners}
						if dz > 0 {
							sp.hasAnn = true
							if w.cnt == 2 {
								sp.des = []c07Alloc{{minor: 0, vec: m.frac(w.amount)}, {minor: 1, vec: m.frac(w.amount)}}
								sp.hint = dz == 1
							} else {
								sp.des = []c07Alloc{{minor: dz - 1, vec: m.frac(w.amount)}}
							}
						}
						sp.between = func() {
							switch ev {
							case 1:
								m.sel(0).doAddOn(60, c07Groups{0: {{minor: 0, vec: m.frac(50)}}})
							case 2, 3:
								if pid, ok := plainOn[ev-2]; ok {
									m.sel(0).doDelOn(pid)
								}
							}
						}
						sp.pick = func([]int) int { return 0 }
						if ok, _ := m.cycle(sp); ok {
							h.Nontrivial()
						}
						h.End()
					}
				}
			}
		}
	}
	h.Extra("exhaustive-unmatched-reservations", fmt.Sprintf("1 node x 2 GPUs: 11 x 11 occupancies (plain pods, reservations unconsumed / partly / fully consumed / owner gone) x 4 requests x 3 designations x 4 events between = %d histories", idx-designatedN))
	idx = designatedN
	h.Extra("exhaustive", fmt.Sprintf("2 nodes x 2 GPUs: 16 occupancies x 4 designations x 4 Filter orders x 9 events between x 2 Reserve nodes = %d histories", idx))
	h.Close("exhaustive enumeration: two nodes with two GPUs each, every occupancy by running pods, a one-GPU pod without annotation / designated to GPU 0 / GPU 1 / annotated without hint, " +
		"Filter on node 0 then 1, 1 then 0, 0 only, 1 only, then nothing / another pod takes one of the four GPUs / the pod running on one of them is deleted, then Reserve on node 0 or node 1; " +
		"then (extension 4) one node with two GPUs, every pair of 11 occupancies (plain pods, reservations unconsumed / partly / fully consumed / owner gone), a pod that matches no reservation (1 x 30 / 50 / 100, 2 x 100), " +
		"no annotation / designated, nothing / a plain pod added / deleted between Filter and Reserve, through PreRestoreReservation + RestoreReservation; " +
		"non-trivial = Reserve committed")
}

// a raw informer add / delete of another pod on this node (ops add / del of the ledger vocabulary)
func (c *c07MNode) doAddOn(id int, g c07Groups) {
	h := c.h
	h.Op("upd %d 0 0 1 0 0 %s", id, g.tok())
	before := c.cur
	if h.Guard(func() { c.cache.onPodAdd(c07Pod(id, g.api(), c.nodeName())) }) {
		h.Obs("panic")
		return
	}
	for _, t := range g.types() {
		c.noteAdd(t, id, g[t], before)
	}
	c.cur = c.emitLedger()
	c.checkLedger("raw-add", before, c.cur)
}

func (c *c07MNode) doDelOn(id int) {
	h := c.h
	g := c.liveGroups(id)
	h.Op("del %d 1 %s", id, g.tok())
	before := c.cur
	if h.Guard(func() { c.cache.onPodDelete(c07Pod(id, g.api(), c.nodeName())) }) {
		h.Obs("panic")
		return
	}
	for _, t := range g.types() {
		c.noteRemove(t, id, g[t])
	}
	c.cur = c.emitLedger()
	c.checkLedger("release", before, c.cur)
}

// ---------------------------------------------------------------------------------------------------------------
// C07 extension 3, exhaustive small scope for the transformer (thorough tier): EVERY device-allocated annotation with
//   1, 2 or 3 GPU entries (minors 0..k-1, 20 % each), each entry written in one of four ways - every name deprecated /
//   every name current / mixed per dimension (core and ratio deprecated, memory current) / gpu-core under BOTH names -
//   and an RDMA entry that is absent / deprecated / current:   (4 + 16 + 64) x 3 = 252 annotations,
// each delivered through the real TransformPodFactory() to the real handlers as add, resync (update), delete - the
// delete once as the typed object and once as a tombstone by value: 504 histories, full observation and every ledger
// clause (used = sum of live, record = live, delete releases) after every step.
// ---------------------------------------------------------------------------------------------------------------
func TestVerifC07TransformExhaustive(t *testing.T) {
	h := vOpen("C07")
	if h == nil {
		t.Skip("VERIF_OUT not set")
	}
	node := &corev1.Node{ObjectMeta: metav1.ObjectMeta{Name: c07Node}}
	suit := newPluginTestSuit(t, []*corev1.Node{node})
	p, err := suit.proxyNew(context.TODO(), getDefaultArgs(), suit.Framework)
	if err != nil {
		t.Fatalf("plugin: %v", err)
	}
	pl := p.(*Plugin)
	mem := int64(16 << 30)
	gv := c07Vec{20, 20 * mem / 100, 20}
	entry := func(minor, way int) c07NEntry {
		e := c07NEntry{minor: minor, leg: c07Absent, cur: c07Absent}
		switch way {
		case 0:
			e.leg = gv
		case 1:
			e.cur = gv
		case 2:
			e.leg = c07Vec{gv[0], -1, gv[2]}
			e.cur = c07Vec{-1, gv[1], -1}
		default: // gpu-core under both names (the current one, 25, wins), the rest deprecated
			e.leg = gv
			e.cur = c07Vec{25, -1, -1}
		}
		return e
	}
	idx := 0
	for k := 1; k <= 3; k++ {
		total := 1
		for i := 0; i < k; i++ {
			total *= 4
		}
		for code := 0; code < total; code++ {
			for rd := 0; rd < 3; rd++ {
				for del := 0; del < 2; del++ {
					r := h.Begin(idx)
					idx++
					if r == nil {
						continue
					}
					pl.nodeDeviceCache = newNodeDeviceCache()
					base := &c07Case{h: h, r: r, cache: pl.nodeDeviceCache, exact: true, histX: true, sched: true, nextPod: 1, cur: &c07Ledger{rows: map[[2]int]*c07Row{}, pods: map[[2]int]map[int]c07Vals{}}}
					for tt := 0; tt < 3; tt++ {
						base.live[tt] = map[int][]c07Alloc{}
					}
					base.inPlay = []int{0, 1}
					base.da[0], base.da[1] = 3, 1
					for m := 0; m < 3; m++ {
						base.inv[0] = append(base.inv[0], c07Dev{minor: m, healthy: true, res: c07Vec{100, mem, 100}, numa: -1})
					}
					base.inv[1] = []c07Dev{{minor: 0, healthy: true, res: c07Vec{100, -1, -1}, numa: -1}}
					c := &c07EvCase{c07Case: base, pl: pl, node: node, mem: mem, nextRsv: 500}
					c.podH = cache.ResourceEventHandlerFuncs{AddFunc: c.cache.onPodAdd, UpdateFunc: c.cache.onPodUpdate, DeleteFunc: c.cache.onPodDelete}
					c.txf, c.txDev = c07Transforms()
					c.applyInventory(false)
					na := c07NAnn{}
					x := code
					for i := 0; i < k; i++ {
						na[0] = append(na[0], entry(i, x%4))
						x /= 4
					}
					switch rd {
					case 1:
						na[1] = []c07NEntry{{minor: 0, leg: c07Vec{10, -1, -1}, cur: c07Absent}}
					case 2:
						na[1] = []c07NEntry{{minor: 0, leg: c07Absent, cur: c07Vec{10, -1, -1}}}
					}
					pp := &c07EvPod{id: 1, g: na.sem(), na: na}
					c.evPodTx(0, c07ShObj, pp, false)
					c.evPodTx(1, c07ShObj, pp, false)
					sh := c07ShObj
					if del == 1 {
						sh = c07ShTomb
					}
					c.evPodTx(2, sh, pp, false)
					if len(c.cur.pods) != 0 {
						h.Fail("C07:delete-not-released:pod-object", "after add, resync and delete of the only pod the ledger still records %v", c.cur.pods)
					}
					h.Nontrivial()
					h.End()
				}
			}
		}
	}
	h.Extra("exhaustive", fmt.Sprintf("all 252 by-name annotations (1-3 GPU entries x 4 ways of naming, RDMA entry absent / deprecated / current) x 2 delete shapes: %d histories of add, resync, delete through the real transformer", idx))
	h.Close("exhaustive enumeration of every device-allocated annotation with 1-3 GPU entries, each entry named in one of four ways (deprecated / current / mixed / gpu-core under both names), " +
		"and an RDMA entry absent / deprecated / current, delivered through TransformPodFactory() as add, update, delete (typed object and tombstone); non-trivial = every case")
}
