//go:build verif

package deviceshare

import (
	"context"
	"fmt"
	"os"
	"sort"
	"strconv"
	"strings"
	"testing"
	"time"

	corev1 "k8s.io/api/core/v1"
	"k8s.io/apimachinery/pkg/api/resource"
	metav1 "k8s.io/apimachinery/pkg/apis/meta/v1"
	"k8s.io/apimachinery/pkg/types"
	"k8s.io/apimachinery/pkg/util/sets"
	"k8s.io/client-go/tools/cache"
	fwktype "k8s.io/kube-scheduler/framework"
	schedconfig "k8s.io/kubernetes/pkg/scheduler/apis/config"
	"k8s.io/kubernetes/pkg/scheduler/framework"

	apiext "github.com/koordinator-sh/koordinator/apis/extension"
	schedulingv1alpha1 "github.com/koordinator-sh/koordinator/apis/scheduling/v1alpha1"
	schedulerconfig "github.com/koordinator-sh/koordinator/pkg/scheduler/apis/config"
	"github.com/koordinator-sh/koordinator/pkg/scheduler/frameworkext"
	reservationutil "github.com/koordinator-sh/koordinator/pkg/util/reservation"
)

// C07 harness: one case = one history on one node driven through the REAL entry points
// (nodeDeviceCache.updateNodeDevice / invalidateNodeDevice, nodeDevice.updateCacheUsed as Reserve /
// Unreserve do, onPodAdd / onPodUpdate / onPodDelete with the allocation annotation, nodeDevice.filter,
// allocateDevices and AutopilotAllocator.Allocate).  After every state-changing op the ledger returned
// by getNodeDeviceSummary() is emitted value-based (missing key = 0) and checked by an independent
// oracle that keeps its own record of the live pods' allocations.

const c07D = 3
const c07Node = "n0"

var c07Types = [3]schedulingv1alpha1.DeviceType{schedulingv1alpha1.GPU, schedulingv1alpha1.RDMA, schedulingv1alpha1.FPGA}
var c07Res = [3][c07D]corev1.ResourceName{
	{apiext.ResourceGPUCore, apiext.ResourceGPUMemory, apiext.ResourceGPUMemoryRatio},
	{apiext.ResourceRDMA, "verif.koordinator.sh/x1", "verif.koordinator.sh/x2"},
	{apiext.ResourceFPGA, "verif.koordinator.sh/x1", "verif.koordinator.sh/x2"},
}

type c07Vec [c07D]int64 // -1 = key absent

var c07Absent = c07Vec{-1, -1, -1}

func (v c07Vec) tok() string {
	ss := make([]string, c07D)
	for i, x := range v {
		if x < 0 {
			ss[i] = "_"
		} else {
			ss[i] = strconv.FormatInt(x, 10)
		}
	}
	return strings.Join(ss, " ")
}

func (v c07Vec) val(k int) int64 {
	if v[k] < 0 {
		return 0
	}
	return v[k]
}

func (v c07Vec) isZero() bool {
	for k := 0; k < c07D; k++ {
		if v.val(k) != 0 {
			return false
		}
	}
	return true
}

func c07RL(t int, v c07Vec) corev1.ResourceList {
	rl := corev1.ResourceList{}
	for k := 0; k < c07D; k++ {
		if v[k] >= 0 {
			rl[c07Res[t][k]] = *resource.NewQuantity(v[k], resource.DecimalSI)
		}
	}
	return rl
}

type c07Vals [c07D]int64

func c07ValsOf(t int, rl corev1.ResourceList) c07Vals {
	var out c07Vals
	for k := 0; k < c07D; k++ {
		if q, ok := rl[c07Res[t][k]]; ok {
			out[k] = q.Value()
		}
	}
	return out
}

func (v c07Vals) str() string { return vInts(v[:]) }

type c07Alloc struct {
	minor int
	vec   c07Vec
}

type c07Dev struct {
	minor   int
	healthy bool
	res     c07Vec
	numa    int
	pcie    int
}

// value ledger read from the summary: (type, minor) -> total, free, used
type c07Row struct {
	t, f, u c07Vals
	fp      [c07D]bool // key present in the free entry
	tp      [c07D]bool // key present in the total entry (the device EXPOSES the resource name)
	hasF    bool       // the free map has an entry for the minor
}
type c07Ledger struct {
	rows map[[2]int]*c07Row
	pods map[[2]int]map[int]c07Vals // (type, pod) -> minor -> values
}

func c07ReadDR(t int, dr deviceResources, rows map[[2]int]*c07Row, which int) {
	for minor, rl := range dr {
		key := [2]int{t, minor}
		row := rows[key]
		if row == nil {
			row = &c07Row{}
			rows[key] = row
		}
		v := c07ValsOf(t, rl)
		switch which {
		case 0:
			row.t = v
			for k := 0; k < c07D; k++ {
				_, row.tp[k] = rl[c07Res[t][k]]
			}
		case 1:
			row.f = v
			row.hasF = true
			for k := 0; k < c07D; k++ {
				_, row.fp[k] = rl[c07Res[t][k]]
			}
		default:
			row.u = v
		}
	}
}

func c07Read(nd *nodeDevice) *c07Ledger {
	l := &c07Ledger{rows: map[[2]int]*c07Row{}, pods: map[[2]int]map[int]c07Vals{}}
	if nd == nil {
		return l
	}
	sum := nd.getNodeDeviceSummary()
	for t, dt := range c07Types {
		c07ReadDR(t, sum.DeviceTotalDetail[dt], l.rows, 0)
		c07ReadDR(t, sum.DeviceFreeDetail[dt], l.rows, 1)
		c07ReadDR(t, sum.DeviceUsedDetail[dt], l.rows, 2)
		for podKey, m := range sum.AllocateSet[dt] {
			id, err := strconv.Atoi(strings.TrimPrefix(podKey, "default/p"))
			if err != nil {
				id = 999
			}
			e := map[int]c07Vals{}
			for minor, rl := range m {
				e[minor] = c07ValsOf(t, rl)
			}
			l.pods[[2]int{t, id}] = e
		}
	}
	return l
}

func (l *c07Ledger) row(t, m int) c07Row {
	if r := l.rows[[2]int{t, m}]; r != nil {
		return *r
	}
	return c07Row{}
}

func c07SortedKeys2(m map[[2]int]struct{}) [][2]int {
	ks := make([][2]int, 0, len(m))
	for k := range m {
		ks = append(ks, k)
	}
	sort.Slice(ks, func(i, j int) bool {
		if ks[i][0] != ks[j][0] {
			return ks[i][0] < ks[j][0]
		}
		return ks[i][1] < ks[j][1]
	})
	return ks
}

func (l *c07Ledger) rowKeys() [][2]int {
	s := map[[2]int]struct{}{}
	for k := range l.rows {
		s[k] = struct{}{}
	}
	return c07SortedKeys2(s)
}

func (l *c07Ledger) podKeys() [][2]int {
	s := map[[2]int]struct{}{}
	for k := range l.pods {
		s[k] = struct{}{}
	}
	return c07SortedKeys2(s)
}

// lines: canonical observation of the ledger (prefix "d <type>" or, for a view of one type, "v").
func (l *c07Ledger) lines(view bool) []string {
	var out []string
	for _, k := range l.rowKeys() {
		r := l.rows[k]
		if r.t == (c07Vals{}) && r.f == (c07Vals{}) && r.u == (c07Vals{}) {
			continue
		}
		if view {
			out = append(out, fmt.Sprintf("v %d %s %s %s", k[1], r.t.str(), r.f.str(), r.u.str()))
		} else {
			out = append(out, fmt.Sprintf("d %d %d %s %s %s", k[0], k[1], r.t.str(), r.f.str(), r.u.str()))
		}
	}
	if view {
		return out
	}
	for _, k := range l.podKeys() {
		e := l.pods[k]
		ms := make([]int, 0, len(e))
		for m := range e {
			ms = append(ms, m)
		}
		sort.Ints(ms)
		s := fmt.Sprintf("p %d %d %d", k[0], k[1], len(ms))
		for _, m := range ms {
			s += fmt.Sprintf(" %d %s", m, e[m].str())
		}
		out = append(out, s)
	}
	return out
}

func (l *c07Ledger) equal(o *c07Ledger) bool {
	return strings.Join(l.lines(false), "\n") == strings.Join(o.lines(false), "\n")
}

func c07Max0(x int64) int64 {
	if x < 0 {
		return 0
	}
	return x
}

func c07Min(a, b int64) int64 {
	if a < b {
		return a
	}
	return b
}

type c07View struct {
	hasMinors bool
	minors    []int
	preempt   []c07Alloc
	required  []c07Alloc
}

func c07EntriesTok(es []c07Alloc) string {
	s := strconv.Itoa(len(es))
	for _, e := range es {
		s += fmt.Sprintf(" %d %s", e.minor, e.vec.tok())
	}
	return s
}

func c07IntsTok(xs []int) string {
	s := strconv.Itoa(len(xs))
	for _, x := range xs {
		s += " " + strconv.Itoa(x)
	}
	return s
}

func (v *c07View) tok() string {
	if v == nil {
		return "0"
	}
	return fmt.Sprintf("1 %d %s %s %s", vB(v.hasMinors), c07IntsTok(v.minors), c07EntriesTok(v.preempt), c07EntriesTok(v.required))
}

func c07DR(t int, es []c07Alloc) deviceResources {
	dr := deviceResources{}
	for _, e := range es {
		dr[e.minor] = c07RL(t, e.vec)
	}
	return dr
}

type c07Request struct {
	t         int
	req       c07Vec
	desired   int
	npcie     int
	required  []int
	preferred []int
	view      *c07View
}

// oracle: the set of minors that qualify for the request, from the value ledger alone.
// effective free = free; with preemptible P: total - max(0, used - P); restricted to the reserved
// amounts R (only minors of R, at most R) and to the minors the view admits.
func c07Qualifying(led *c07Ledger, q *c07Request) map[int]bool {
	out := map[int]bool{}
	for _, key := range led.rowKeys() {
		if key[0] != q.t {
			continue
		}
		m := key[1]
		row := led.row(q.t, m)
		eff := row.f
		if q.view != nil {
			v := q.view
			if !v.hasMinors {
				continue
			}
			in := false
			for _, x := range v.minors {
				in = in || x == m
			}
			if !in {
				continue
			}
			for _, p := range v.preempt {
				if p.minor == m {
					for k := 0; k < c07D; k++ {
						eff[k] = c07Max0(row.t[k] - c07Max0(row.u[k]-p.vec.val(k)))
					}
				}
			}
			if len(v.required) > 0 {
				found := false
				for _, rr := range v.required {
					if rr.minor == m {
						found = true
						for k := 0; k < c07D; k++ {
							eff[k] = c07Min(eff[k], rr.vec.val(k))
						}
					}
				}
				if !found {
					continue
				}
			}
		}
		if len(q.required) > 0 {
			in := false
			for _, x := range q.required {
				in = in || x == m
			}
			if !in {
				continue
			}
		}
		ok := true
		for k := 0; k < c07D; k++ {
			if q.req.val(k) > eff[k] {
				ok = false
			}
		}
		if ok {
			out[m] = true
		}
	}
	return out
}

func c07Scorer(kind int) *resourceAllocationScorer {
	if kind == 0 {
		return nil
	}
	var specs []schedconfig.ResourceSpec
	for t := 0; t < 3; t++ {
		for k := 0; k < c07D; k++ {
			specs = append(specs, schedconfig.ResourceSpec{Name: string(c07Res[t][k]), Weight: int64(1 + k)})
		}
	}
	st := schedulerconfig.LeastAllocated
	if kind == 2 {
		st = schedulerconfig.MostAllocated
	}
	args := &schedulerconfig.DeviceShareArgs{ScoringStrategy: &schedulerconfig.ScoringStrategy{Type: st, Resources: specs}}
	return deviceResourceStrategyTypeMap[st](args)
}

func c07Pod(id int, allocs apiext.DeviceAllocations, nodeName string) *corev1.Pod {
	pod := &corev1.Pod{ObjectMeta: metav1.ObjectMeta{Namespace: "default", Name: fmt.Sprintf("p%d", id), UID: "uid"}}
	pod.Spec.NodeName = nodeName
	if allocs != nil {
		_ = apiext.SetDeviceAllocations(pod, allocs)
	}
	return pod
}

type c07Groups map[int][]c07Alloc // type -> allocation list

func (g c07Groups) types() []int {
	ts := make([]int, 0, len(g))
	for t := range g {
		ts = append(ts, t)
	}
	sort.Ints(ts)
	return ts
}

func (g c07Groups) tok() string {
	s := strconv.Itoa(len(g))
	for _, t := range g.types() {
		s += fmt.Sprintf(" %d %s", t, c07EntriesTok(g[t]))
	}
	return s
}

func (g c07Groups) api() apiext.DeviceAllocations {
	out := apiext.DeviceAllocations{}
	for t, es := range g {
		l := []*apiext.DeviceAllocation{}
		for _, e := range es {
			l = append(l, &apiext.DeviceAllocation{Minor: int32(e.minor), Resources: c07RL(t, e.vec)})
		}
		out[c07Types[t]] = l
	}
	return out
}

func c07SameAllocs(a, b []c07Alloc) bool {
	if len(a) != len(b) {
		return false
	}
	for i := range a {
		if a[i] != b[i] {
			return false
		}
	}
	return true
}

type c07Case struct {
	h       *vHarness
	r       *vRand
	cache   *nodeDeviceCache
	inv     [3][]c07Dev
	da      [3]int // active dimensions per type
	inPlay  []int
	infoMin [3][]int // minors of nodeDevice.deviceInfos (last updateNodeDevice)
	live    [3]map[int][]c07Alloc
	exact   bool // every removal so far carried the recorded allocation and no malformed add happened
	staleFP string // env-gated stream: fingerprint to use when used != sum of live is due to a caller-supplied removal
	sched   bool // the Lean history predicate histSched on the harness' own record: every accepted add was an allocator-consistent commit on the ledger of that moment, no refresh went below what is in use
	histX   bool // the Lean history predicate histExact, computed here on the harness' own record: every accepted add had one entry per minor, every accepted removal carried exactly the recorded list
	loose   bool // malformed stream: raw adds / heterogeneous devices => allocation oracle only tags
	cur     *c07Ledger
	nextPod int
	gone    []int
	nname   string // node name ("" = c07Node); the multi-node harness runs one c07Case per node on a shared cache
	wellPlanned bool // the Device object carries the label secondary-device-well-planned=true
	devAnn  map[string]string // extension 8 (partition stream): annotations / labels of the Device object (GPU partition table, partition policy)
	devLbl  map[string]string
}

func (c *c07Case) nodeName() string {
	if c.nname != "" {
		return c.nname
	}
	return c07Node
}

func (c *c07Case) nd() *nodeDevice { return c.cache.getNodeDevice(c.nodeName(), false) }

func (c *c07Case) emitLedger() *c07Ledger {
	l := c07Read(c.nd())
	for _, s := range l.lines(false) {
		c.h.Obs("%s", s)
	}
	// the decidable hypotheses of the Lean theorems, evaluated on the harness' own record of the history:
	// histWFB (amounts >= 0, inventories are maps: true by construction of the Go types), histExact and histSched
	c.h.Obs("x 1 %d %d", vB(c.histX), vB(c.sched))
	c.checkHyp(l)
	return l
}

func (c *c07Case) checkHyp(l *c07Ledger) {
	if c.sched {
		c.h.Tag("hyp:histSched")
		// sched_no_overcommit, evaluated on the implementation: in such a history no device is over-committed
		for _, key := range l.rowKeys() {
			row := l.rows[key]
			for k := 0; k < c07D; k++ {
				if row.u[k] > row.t[k] {
					c.h.Fail("C07:overcommit-in-sched-history", "type %d minor %d dim %d used %d > total %d although every add was an allocator-consistent commit and no refresh went below the in-use amount", key[0], key[1], k, row.u[k], row.t[k])
					break
				}
			}
		}
	}
	if c.histX {
		c.h.Tag("hyp:histExact")
	} else {
		c.h.Tag("hyp:not-histExact")
	}
}

// histSched: the new inventory (c.inv) does not go below what is in use
func (c *c07Case) noteRefresh(before *c07Ledger, invalidate bool) {
	for _, key := range before.rowKeys() {
		row := before.rows[key]
		var nt c07Vals
		for _, d := range c.inv[key[0]] {
			if d.minor == key[1] && d.healthy && !invalidate {
				for k := 0; k < c07D; k++ {
					nt[k] = d.res.val(k)
				}
			}
		}
		for k := 0; k < c07D; k++ {
			if row.u[k] > nt[k] {
				c.sched = false
			}
		}
	}
}

func c07DistinctMinors(al []c07Alloc) bool {
	seen := map[int]bool{}
	for _, a := range al {
		if seen[a.minor] {
			return false
		}
		seen[a.minor] = true
	}
	return true
}

// the ledger BETWEEN the two halves of an update (release of `old`, then add): only needed to evaluate the hypothesis
// histSched for the add half (it is stated op by op).  Obtained by running the release half on a copy of the node's
// maps; not used by any property oracle.
func (c *c07Case) midLedger(pod int, old apiext.DeviceAllocations) *c07Ledger {
	nd := c.nd()
	if nd == nil || len(old) == 0 {
		return c.cur
	}
	cp := newNodeDevice()
	nd.lock.RLock()
	for dt, dr := range nd.deviceTotal {
		cp.deviceTotal[dt] = dr.DeepCopy()
	}
	for dt, dr := range nd.deviceFree {
		cp.deviceFree[dt] = dr.DeepCopy()
	}
	for dt, dr := range nd.deviceUsed {
		cp.deviceUsed[dt] = dr.DeepCopy()
	}
	for dt, m := range nd.allocateSet {
		cp.allocateSet[dt] = map[types.NamespacedName]deviceResources{}
		for k, v := range m {
			cp.allocateSet[dt][k] = v.DeepCopy()
		}
	}
	nd.lock.RUnlock()
	cp.updateCacheUsed(old, c07Pod(pod, nil, c07Node), false)
	return c07Read(cp)
}

// bookkeeping of one accepted-or-dropped add / removal of one device type (the gate is the harness' own live record)
func (c *c07Case) noteAdd(t, pod int, al []c07Alloc, at *c07Ledger) {
	if _, dup := c.live[t][pod]; dup {
		return
	}
	if !c07DistinctMinors(al) {
		c.histX = false
		c.sched = false
	}
	// allocator-consistent on the ledger before the op: the device has a free entry that exposes every key of the
	// entry with at least that amount
	for _, a := range al {
		row := at.rows[[2]int{t, a.minor}]
		if row == nil || !row.hasF {
			c.sched = false
			continue
		}
		for k := 0; k < c07D; k++ {
			if a.vec[k] >= 0 && (!row.fp[k] || a.vec[k] > row.f[k]) {
				c.sched = false
			}
		}
	}
	c.live[t][pod] = append([]c07Alloc(nil), al...)
}

func (c *c07Case) noteRemove(t, pod int, al []c07Alloc) {
	rec, ok := c.live[t][pod]
	if !ok {
		return
	}
	if !c07SameAllocs(rec, al) {
		c.exact = false
		c.histX = false
		c.h.Tag("history:stale-remove")
	}
	delete(c.live[t], pod)
}

// ---- oracle clauses evaluated after every state-changing op ----
func (c *c07Case) checkLedger(kind string, before, after *c07Ledger) {
	h := c.h
	for _, key := range after.rowKeys() {
		row := after.rows[key]
		for k := 0; k < c07D; k++ {
			if row.f[k] != c07Max0(row.t[k]-row.u[k]) {
				h.Fail("C07:free-ne-total-minus-used", "%s: type %d minor %d dim %d total %d used %d free %d", kind, key[0], key[1], k, row.t[k], row.u[k], row.f[k])
				return
			}
		}
	}
	// live pod set (the duplicate gate is keyed on it)
	for t := 0; t < 3; t++ {
		for p := range c.live[t] {
			if _, ok := after.pods[[2]int{t, p}]; !ok {
				h.Fail("C07:allocset-ne-live", "%s: live pod %d of type %d not recorded", kind, p, t)
				return
			}
		}
	}
	for key := range after.pods {
		if _, ok := c.live[key[0]][key[1]]; !ok {
			h.Fail("C07:allocset-ne-live", "%s: recorded pod %d of type %d is not live", kind, key[1], key[0])
			return
		}
	}
	if c.exact {
		want := map[[2]int]*c07Vals{}
		for t := 0; t < 3; t++ {
			for _, al := range c.live[t] {
				for _, a := range al {
					key := [2]int{t, a.minor}
					if want[key] == nil {
						want[key] = &c07Vals{}
					}
					for k := 0; k < c07D; k++ {
						want[key][k] += a.vec.val(k)
					}
				}
			}
		}
		keys := map[[2]int]struct{}{}
		for k := range want {
			keys[k] = struct{}{}
		}
		for k := range after.rows {
			keys[k] = struct{}{}
		}
		for _, key := range c07SortedKeys2(keys) {
			var w c07Vals
			if want[key] != nil {
				w = *want[key]
			}
			if got := after.row(key[0], key[1]).u; got != w {
				fp := "C07:used-ne-sum-of-live"
				if c.staleFP != "" {
					fp = c.staleFP // env-gated stream only
				}
				h.Fail(fp, "%s: type %d minor %d used %v sum of live allocations %v", kind, key[0], key[1], got, w)
				return
			}
		}
	}
	keys := map[[2]int]struct{}{}
	for k := range before.rows {
		keys[k] = struct{}{}
	}
	for k := range after.rows {
		keys[k] = struct{}{}
	}
	for _, key := range c07SortedKeys2(keys) {
		b, a := before.row(key[0], key[1]), after.row(key[0], key[1])
		for k := 0; k < c07D; k++ {
			switch kind {
			case "refresh":
				if a.u[k] != b.u[k] {
					h.Fail("C07:refresh-changed-used", "type %d minor %d dim %d used %d -> %d", key[0], key[1], k, b.u[k], a.u[k])
					return
				}
			case "commit", "release", "dup", "absent":
				// only an inventory refresh (or, in the malformed stream, a raw add) may create or grow an over-commit
				if c07Max0(a.u[k]-a.t[k]) > c07Max0(b.u[k]-b.t[k]) {
					h.Fail("C07:overcommit-by-"+kind, "type %d minor %d dim %d used %d total %d (before: used %d total %d)", key[0], key[1], k, a.u[k], a.t[k], b.u[k], b.t[k])
					return
				}
			}
		}
		if a.u != (c07Vals{}) {
			for k := 0; k < c07D; k++ {
				if a.u[k] > a.t[k] {
					h.Tag("state:overcommitted-after-" + kind)
					break
				}
			}
		}
	}
	if (kind == "dup" || kind == "absent") && !before.equal(after) {
		h.Fail("C07:"+kind+"-not-noop", "ledger changed by a duplicate add / removal of an absent pod")
	}
}

// ---- inventory ----
func (c *c07Case) genDevRes(t int) c07Vec {
	r := c.r
	v := c07Absent
	for k := 0; k < c.da[t]; k++ {
		switch r.Intn(8) {
		case 0:
			v[k] = int64(r.Range(0, 200))
		case 1:
			v[k] = 0
		default:
			if k == 1 {
				v[k] = int64(r.Pick([]int64{8, 16, 80}))
			} else {
				v[k] = 100
			}
		}
	}
	if c.loose && t != 0 && r.Chance(1, 4) { // heterogeneous device: a dimension is not exposed
		v[r.Intn(c07D)] = -1
	}
	return v
}

func (c *c07Case) applyInventory(invalidate bool) {
	h := c.h
	dev := &schedulingv1alpha1.Device{ObjectMeta: metav1.ObjectMeta{Name: c.nodeName()}}
	if c.wellPlanned {
		dev.Labels = map[string]string{apiext.LabelSecondaryDeviceWellPlanned: "true"}
	}
	if c.devAnn != nil {
		dev.Annotations = c.devAnn
	}
	for k, v := range c.devLbl {
		if dev.Labels == nil {
			dev.Labels = map[string]string{}
		}
		dev.Labels[k] = v
	}
	var toks []string
	n := 0
	for t := 0; t < 3; t++ {
		for _, d := range c.inv[t] {
			minor := int32(d.minor)
			info := schedulingv1alpha1.DeviceInfo{Type: c07Types[t], Minor: &minor, Health: d.healthy, Resources: c07RL(t, d.res), UUID: fmt.Sprintf("u-%d-%d", t, d.minor)}
			if d.numa >= 0 {
				info.Topology = &schedulingv1alpha1.DeviceTopology{SocketID: int32(d.numa), NodeID: int32(d.numa), PCIEID: fmt.Sprintf("pcie-%d", d.pcie)}
			}
			if c.devAnn != nil { // partition stream only: a label a pod's device hint can select on
				info.Labels = map[string]string{"verif-minor": fmt.Sprintf("m%d", d.minor)}
			}
			dev.Spec.Devices = append(dev.Spec.Devices, info)
			v := d.res
			if !d.healthy || invalidate {
				v = c07Absent
			}
			toks = append(toks, fmt.Sprintf("%d %d %s", t, d.minor, v.tok()))
			n++
		}
	}
	h.Op("ref %d %s", n, strings.Join(toks, " "))
	before := c.cur
	c.noteRefresh(before, invalidate)
	if h.Guard(func() {
		if invalidate {
			c.cache.invalidateNodeDevice(dev)
			h.Tag("entry:invalidateNodeDevice")
		} else {
			c.cache.updateNodeDevice(c.nodeName(), dev)
			h.Tag("entry:updateNodeDevice")
			for t := 0; t < 3; t++ {
				c.infoMin[t] = nil
				for _, d := range c.inv[t] {
					c.infoMin[t] = append(c.infoMin[t], d.minor)
				}
			}
		}
	}) {
		h.Obs("panic")
		return
	}
	c.cur = c.emitLedger()
	c.checkLedger("refresh", before, c.cur)
	// the new totals are the inventory
	for t := 0; t < 3; t++ {
		for _, d := range c.inv[t] {
			var want c07Vals
			if d.healthy && !invalidate {
				for k := 0; k < c07D; k++ {
					want[k] = d.res.val(k)
				}
			}
			if got := c.cur.row(t, d.minor).t; got != want {
				h.Fail("C07:refresh-total", "type %d minor %d total %v want %v", t, d.minor, got, want)
			}
		}
	}
	if invalidate { // the objects stay as they are in the API; a later update restores them
		h.Tag("op:invalidate")
	}
}

func (c *c07Case) genInventory(first bool) {
	r := c.r
	for _, t := range c.inPlay {
		if first {
			n := r.Range(1, 5)
			perm := r.Perm(8)
			c.inv[t] = nil
			withTopo := t == 0 && r.Bool()
			for i := 0; i < n; i++ {
				d := c07Dev{minor: perm[i], healthy: !r.Chance(1, 9), res: c.genDevRes(t), numa: -1}
				if withTopo {
					d.numa = perm[i] / 4
					d.pcie = perm[i] / 2
				}
				c.inv[t] = append(c.inv[t], d)
			}
			sort.Slice(c.inv[t], func(i, j int) bool { return c.inv[t][i].minor < c.inv[t][j].minor })
			continue
		}
		// mutate
		switch r.Intn(6) {
		case 0: // toggle health
			if len(c.inv[t]) > 0 {
				i := r.Intn(len(c.inv[t]))
				c.inv[t][i].healthy = !c.inv[t][i].healthy
			}
		case 1: // change amounts
			if len(c.inv[t]) > 0 {
				c.inv[t][r.Intn(len(c.inv[t]))].res = c.genDevRes(t)
			}
		case 2: // drop a device
			if len(c.inv[t]) > 0 {
				i := r.Intn(len(c.inv[t]))
				c.inv[t] = append(c.inv[t][:i:i], c.inv[t][i+1:]...)
			}
		case 3: // add a device
			used := map[int]bool{}
			for _, d := range c.inv[t] {
				used[d.minor] = true
			}
			m := r.Intn(8)
			if !used[m] {
				d := c07Dev{minor: m, healthy: true, res: c.genDevRes(t), numa: -1}
				if len(c.inv[t]) > 0 && c.inv[t][0].numa >= 0 {
					d.numa, d.pcie = m/4, m/2
				}
				c.inv[t] = append(c.inv[t], d)
				sort.Slice(c.inv[t], func(i, j int) bool { return c.inv[t][i].minor < c.inv[t][j].minor })
			}
		case 4: // the whole type disappears from the report
			if r.Chance(1, 3) {
				c.inv[t] = nil
			}
		default: // same report again
		}
	}
}

// ---- ledger ops ----
func (c *c07Case) doAdd(kind string, pod int, g c07Groups) {
	h, r := c.h, c.r
	allocs := g.api()
	before := c.cur
	entry := r.Intn(3)
	switch entry {
	case 0:
		h.Op("add %d %s", pod, g.tok())
	case 1: // onPodAdd = updatePod(nil, pod)
		h.Op("upd %d 0 0 1 0 0 %s", pod, g.tok())
	default: // the annotation appears on an assigned pod
		h.Op("upd %d 1 1 1 0 0 %s", pod, g.tok())
	}
	if h.Guard(func() {
		switch entry {
		case 0: // Reserve
			nd := c.cache.getNodeDevice(c07Node, false)
			if nd == nil {
				nd = c.cache.getNodeDevice(c07Node, true)
			}
			nd.lock.Lock()
			nd.updateCacheUsed(allocs, c07Pod(pod, nil, c07Node), true)
			nd.lock.Unlock()
			h.Tag("entry:updateCacheUsed-add")
		case 1:
			c.cache.onPodAdd(c07Pod(pod, allocs, c07Node))
			h.Tag("entry:onPodAdd")
		default:
			c.cache.onPodUpdate(c07Pod(pod, nil, c07Node), c07Pod(pod, allocs, c07Node))
			h.Tag("entry:onPodUpdate-add")
		}
	}) {
		h.Obs("panic")
		return
	}
	for _, t := range g.types() {
		c.noteAdd(t, pod, g[t], c.cur)
	}
	c.cur = c.emitLedger()
	c.checkLedger(kind, before, c.cur)
}

func (c *c07Case) doRemove(kind string, pod int, g c07Groups) {
	h, r := c.h, c.r
	allocs := g.api()
	before := c.cur
	entry := r.Intn(3)
	switch entry {
	case 0:
		h.Op("rem %d %s", pod, g.tok())
	case 1:
		h.Op("del %d 1 %s", pod, g.tok())
	default:
		h.Op("upd %d 1 1 1 1 %s %s", pod, g.tok(), g.tok())
	}
	if h.Guard(func() {
		switch entry {
		case 0: // Unreserve
			if nd := c.nd(); nd != nil {
				nd.lock.Lock()
				nd.updateCacheUsed(allocs, c07Pod(pod, nil, c07Node), false)
				nd.lock.Unlock()
			}
			h.Tag("entry:updateCacheUsed-remove")
		case 1:
			c.cache.onPodDelete(c07Pod(pod, allocs, c07Node))
			h.Tag("entry:onPodDelete")
		default: // the pod terminated
			np := c07Pod(pod, allocs, c07Node)
			np.Status.Phase = corev1.PodSucceeded
			c.cache.onPodUpdate(c07Pod(pod, allocs, c07Node), np)
			h.Tag("entry:onPodUpdate-terminated")
		}
	}) {
		h.Obs("panic")
		return
	}
	for _, t := range g.types() {
		c.noteRemove(t, pod, g[t])
	}
	c.cur = c.emitLedger()
	c.checkLedger(kind, before, c.cur)
}

// re-delivery of an update whose old and new objects carry the recorded allocation
func (c *c07Case) doReannotate(pod int, g c07Groups) {
	h := c.h
	h.Op("upd %d 1 1 1 0 %s %s", pod, g.tok(), g.tok())
	allocs := g.api()
	before := c.cur
	mid := c.midLedger(pod, allocs)
	if h.Guard(func() {
		c.cache.onPodUpdate(c07Pod(pod, allocs, c07Node), c07Pod(pod, allocs, c07Node))
		h.Tag("entry:onPodUpdate-same")
	}) {
		h.Obs("panic")
		return
	}
	for _, t := range g.types() {
		c.noteRemove(t, pod, g[t])
		c.noteAdd(t, pod, g[t], mid)
	}
	c.cur = c.emitLedger()
	c.checkLedger("release", before, c.cur) // an update never grows an over-commit either
	if !before.equal(c.cur) {
		h.Fail("C07:update-same-not-noop", "re-delivered update with identical allocations changed the ledger")
	}
}

// onPodUpdate(old, new) whose device-allocation annotation CHANGED (moved to another minor, other amounts, a device
// type appears / disappears, the whole annotation appears / disappears).  updatePod must release the OLD object's
// allocation and then add the NEW object's, each half behind the isValid gate of its device types (model:
// updatePodOps).  oldAssigned=false: the old object had no node yet (a pod that carried a designated allocation
// before it was scheduled) - no release half.  newAssigned=false: the pod lost its node (multi-scheduler clean-up)
// - deletePod(old).  newTerminated: deletePod(new) - the NEW object's annotation is what gets subtracted.
func (c *c07Case) doUpdate(kind string, pod int, oldG, newG c07Groups, oldAssigned, newAssigned, newTerminated bool) {
	h := c.h
	h.Op("upd %d 1 %d %d %d %s %s", pod, vB(oldAssigned), vB(newAssigned), vB(newTerminated), oldG.tok(), newG.tok())
	before := c.cur
	mid := c.cur
	if oldAssigned && newAssigned && !newTerminated {
		mid = c.midLedger(pod, oldG.api())
	}
	oldNode, newNode := c07Node, c07Node
	if !oldAssigned {
		oldNode = ""
	}
	if !newAssigned {
		newNode = ""
	}
	if h.Guard(func() {
		np := c07Pod(pod, newG.api(), newNode)
		if newTerminated {
			np.Status.Phase = corev1.PodFailed
		}
		c.cache.onPodUpdate(c07Pod(pod, oldG.api(), oldNode), np)
		h.Tag("entry:onPodUpdate-changed")
	}) {
		h.Obs("panic")
		return
	}
	// what the pod holds afterwards (the property's reading of an update): nothing if the new object is unassigned or
	// terminated, else the new object's allocation; what is released is named by the object the handler reads
	switch {
	case !newAssigned:
		if oldAssigned {
			for _, t := range oldG.types() {
				c.noteRemove(t, pod, oldG[t])
			}
		}
	case newTerminated:
		for _, t := range newG.types() {
			c.noteRemove(t, pod, newG[t])
		}
	default:
		if oldAssigned {
			for _, t := range oldG.types() {
				c.noteRemove(t, pod, oldG[t])
			}
		}
		for _, t := range newG.types() {
			c.noteAdd(t, pod, newG[t], mid)
		}
	}
	c.cur = c.emitLedger()
	c.checkLedger(kind, before, c.cur)
}

func (c *c07Case) otherMinor(t int, al []c07Alloc) (int, bool) {
	r := c.r
	used := map[int]bool{}
	for _, a := range al {
		used[a.minor] = true
	}
	var cands []int
	for _, d := range c.inv[t] {
		if !used[d.minor] {
			cands = append(cands, d.minor)
		}
	}
	if len(cands) > 0 && !r.Chance(1, 6) {
		return cands[r.Intn(len(cands))], true
	}
	m := r.Intn(8)
	return m, !used[m]
}

func (c *c07Case) smallVec(t int) c07Vec {
	r := c.r
	v := c07Absent
	for k := 0; k < c.da[t]; k++ {
		if k > 0 && r.Bool() {
			continue
		}
		v[k] = int64(r.Pick([]int64{10, 20, 50, 50, 100, int64(r.Range(1, 100))}))
		if k == 1 {
			v[k] = int64(r.Range(1, 16))
		}
	}
	return v
}

// a changed annotation derived from the recorded one (one entry per minor, so the history stays exact)
func (c *c07Case) genChanged(oldG c07Groups) (c07Groups, string) {
	r := c.r
	newG := c07Groups{}
	for t, al := range oldG {
		newG[t] = append([]c07Alloc(nil), al...)
	}
	ts := newG.types()
	switch r.Intn(7) {
	case 0, 1: // the allocation moves to another minor
		if len(ts) > 0 {
			t := ts[r.Intn(len(ts))]
			if len(newG[t]) > 0 {
				if m, ok := c.otherMinor(t, newG[t]); ok {
					newG[t][r.Intn(len(newG[t]))].minor = m
					return newG, "move"
				}
			}
		}
		return newG, "same"
	case 2, 3: // other amounts on the same minor
		if len(ts) > 0 {
			t := ts[r.Intn(len(ts))]
			if len(newG[t]) > 0 {
				i := r.Intn(len(newG[t]))
				v := c.smallVec(t)
				if v != newG[t][i].vec {
					newG[t][i].vec = v
					return newG, "amount"
				}
			}
		}
		return newG, "same"
	case 4: // a device type (or one more device) appears
		for _, t := range c.inPlay {
			if _, ok := newG[t]; !ok {
				if m, ok := c.otherMinor(t, nil); ok {
					newG[t] = []c07Alloc{{minor: m, vec: c.smallVec(t)}}
					return newG, "type-appears"
				}
			}
		}
		if len(ts) > 0 {
			t := ts[r.Intn(len(ts))]
			if m, ok := c.otherMinor(t, newG[t]); ok {
				newG[t] = append(newG[t], c07Alloc{minor: m, vec: c.smallVec(t)})
				return newG, "device-appears"
			}
		}
		return newG, "same"
	case 5: // a device type / one device disappears
		if len(ts) > 0 {
			t := ts[r.Intn(len(ts))]
			if len(newG[t]) > 1 && r.Bool() {
				i := r.Intn(len(newG[t]))
				newG[t] = append(newG[t][:i:i], newG[t][i+1:]...)
				return newG, "device-disappears"
			}
			delete(newG, t)
			if len(newG) == 0 {
				return newG, "annotation-disappears"
			}
			return newG, "type-disappears"
		}
		return newG, "same"
	default: // the whole annotation disappears
		return c07Groups{}, "annotation-disappears"
	}
}

func (c *c07Case) liveGroups(pod int) c07Groups {
	g := c07Groups{}
	for t := 0; t < 3; t++ {
		if al, ok := c.live[t][pod]; ok {
			g[t] = append([]c07Alloc(nil), al...)
		}
	}
	return g
}

func (c *c07Case) livePods() []int {
	s := map[int]bool{}
	for t := 0; t < 3; t++ {
		for p := range c.live[t] {
			s[p] = true
		}
	}
	ps := make([]int, 0, len(s))
	for p := range s {
		ps = append(ps, p)
	}
	sort.Ints(ps)
	return ps
}

// ---- allocation ----
func (c *c07Case) genReqVec(t int) c07Vec {
	r := c.r
	v := c07Absent
	for k := 0; k < c.da[t]; k++ {
		if k > 0 && r.Bool() {
			continue
		}
		switch r.Intn(11) {
		case 0, 5:
			v[k] = 100
		case 1:
			v[k] = int64(r.Range(101, 220))
		case 2:
			v[k] = 0
		case 3, 4:
			v[k] = 50
		default:
			if k == 1 {
				v[k] = int64(r.Range(1, 20))
			} else {
				v[k] = int64(r.Range(1, 100))
			}
		}
	}
	if c.loose && r.Chance(1, 4) {
		v[r.Intn(c07D)] = int64(r.Range(1, 100))
	}
	if v.isZero() {
		v[0] = int64(r.Range(1, 100))
	}
	return v
}

func (c *c07Case) genMinorSet(t int, max int) []int {
	r := c.r
	s := map[int]bool{}
	n := r.Range(1, max)
	for i := 0; i < n; i++ {
		if len(c.inv[t]) > 0 && !r.Chance(1, 6) {
			s[c.inv[t][r.Intn(len(c.inv[t]))].minor] = true
		} else {
			s[r.Intn(8)] = true
		}
	}
	out := make([]int, 0, len(s))
	for m := range s {
		out = append(out, m)
	}
	sort.Ints(out)
	return out
}

func (c *c07Case) genView(t int) *c07View {
	r := c.r
	v := &c07View{}
	if len(c.infoMin[t]) > 0 {
		v.hasMinors = true
		v.minors = append([]int(nil), c.infoMin[t]...)
	}
	kind := r.Intn(4)
	if kind == 0 || kind == 2 { // preemptible: what some live pods hold (or an arbitrary amount)
		for _, p := range c.livePods() {
			if al, ok := c.live[t][p]; ok && r.Bool() {
				for _, a := range al {
					dupe := false
					for _, e := range v.preempt {
						dupe = dupe || e.minor == a.minor
					}
					if !dupe {
						v.preempt = append(v.preempt, a)
					}
				}
			}
		}
		if len(v.preempt) == 0 && r.Bool() {
			for _, m := range c.genMinorSet(t, 2) {
				e := c07Alloc{minor: m, vec: c07Absent}
				for k := 0; k < c.da[t]; k++ {
					e.vec[k] = int64(r.Range(0, 100))
				}
				v.preempt = append(v.preempt, e)
			}
		}
	}
	if kind == 1 || kind == 2 { // reserved amounts
		for _, m := range c.genMinorSet(t, 3) {
			e := c07Alloc{minor: m, vec: c07Absent}
			for k := 0; k < c.da[t]; k++ {
				e.vec[k] = int64(r.Pick([]int64{100, 50, 100, int64(r.Range(0, 120))}))
			}
			if c.loose && t != 0 && r.Chance(1, 3) {
				e.vec[r.Intn(c07D)] = -1
			}
			v.required = append(v.required, e)
		}
	}
	return v
}

type c07Result struct {
	ok     bool
	minors []int
	vecs   []c07Vals
	raw    []*apiext.DeviceAllocation
}

func c07ResultOf(t int, al []*apiext.DeviceAllocation, failed bool) c07Result {
	res := c07Result{ok: !failed, raw: al}
	for _, a := range al {
		res.minors = append(res.minors, int(a.Minor))
		res.vecs = append(res.vecs, c07ValsOf(t, a.Resources))
	}
	return res
}

func (c *c07Case) checkAlloc(q *c07Request, res c07Result, reqVals c07Vals, desired, max int, exactCount bool) {
	h := c.h
	qual := c07Qualifying(c.cur, q)
	if c.loose {
		// heterogeneous devices / partial reserved lists: LessThanOrEqual ignores request keys the device does not expose
		if res.ok {
			for _, m := range res.minors {
				if !qual[m] {
					h.Tag("quirk:missing-dimension-passes")
				}
			}
		}
		return
	}
	if !res.ok {
		h.Tag("alloc:fail")
		if len(qual) >= desired {
			h.Fail("C07:alloc-incomplete", "type %d request %v desired %d failed although minors %v qualify", q.t, reqVals, desired, qual)
		}
		return
	}
	h.Tag("alloc:ok")
	seen := map[int]bool{}
	for i, m := range res.minors {
		if seen[m] {
			h.Fail("C07:alloc-unsound:duplicate-minor", "minor %d returned twice", m)
		}
		seen[m] = true
		if !qual[m] {
			row := c.cur.row(q.t, m)
			h.Fail("C07:alloc-unsound:not-enough-free", "type %d minor %d chosen for request %v: free %v total %v used %v (or not permitted)", q.t, m, reqVals, row.f, row.t, row.u)
		}
		if res.vecs[i] != reqVals {
			h.Fail("C07:alloc-unsound:amount", "minor %d allocated %v, requested %v", m, res.vecs[i], reqVals)
		}
	}
	if len(res.minors) < desired || len(res.minors) > max {
		h.Fail("C07:alloc-unsound:count", "%d devices returned, desired %d max %d", len(res.minors), desired, max)
	}
	_ = exactCount
}

// one allocation attempt; returns the allocation to commit (nil = nothing)
func (c *c07Case) doAlloc() (int, []c07Alloc) {
	h, r := c.h, c.r
	t := c.inPlay[r.Intn(len(c.inPlay))]
	nd := c.nd()
	if nd == nil {
		nd = c.cache.getNodeDevice(c07Node, true)
	}
	q := &c07Request{t: t}
	if r.Chance(1, 5) {
		q.required = c.genMinorSet(t, 3)
	}
	if r.Chance(1, 5) {
		q.preferred = c.genMinorSet(t, 3)
	}
	if r.Chance(1, 4) {
		q.view = c.genView(t)
	}
	pod := c07Pod(900, nil, c07Node)
	required := map[schedulingv1alpha1.DeviceType]sets.Int{}
	preferred := map[schedulingv1alpha1.DeviceType]sets.Int{}
	if len(q.required) > 0 {
		required[c07Types[t]] = sets.NewInt(q.required...)
	}
	if len(q.preferred) > 0 {
		preferred[c07Types[t]] = sets.NewInt(q.preferred...)
	}

	useAuto := t != 0 && r.Chance(1, 3)
	if useAuto {
		// L2: AutopilotAllocator.Allocate with the DefaultDeviceHandler (whole / fractional / multi-device shapes)
		podReq := c07Absent
		podReq[0] = r.Pick([]int64{100, 200, 300, 400, 150, 50, int64(r.Range(1, 100)), int64(r.Range(1, 100)), 0})
		if r.Chance(1, 4) && c.da[t] > 1 {
			podReq[1] = int64(r.Range(0, 20))
		}
		h.Op("auto %d %s %s %s %s", t, podReq.tok(), c07IntsTok(q.required), c07IntsTok(q.preferred), q.view.tok())
		state := &preFilterState{podRequests: map[schedulingv1alpha1.DeviceType]corev1.ResourceList{c07Types[t]: c07RL(t, podReq)}}
		al := &AutopilotAllocator{state: state, nodeDevice: nd, node: &corev1.Node{}, pod: pod}
		var out apiext.DeviceAllocations
		failed := false
		if h.Guard(func() {
			nd.lock.RLock()
			defer nd.lock.RUnlock()
			var rr, pp map[schedulingv1alpha1.DeviceType]deviceResources
			if q.view != nil {
				rr = map[schedulingv1alpha1.DeviceType]deviceResources{}
				pp = map[schedulingv1alpha1.DeviceType]deviceResources{}
				if len(q.view.required) > 0 {
					rr[c07Types[t]] = c07DR(t, q.view.required)
				}
				if len(q.view.preempt) > 0 {
					pp[c07Types[t]] = c07DR(t, q.view.preempt)
				}
			}
			o, st := al.Allocate(required, preferred, rr, pp)
			out, failed = o, !st.IsSuccess()
		}) {
			h.Obs("panic")
			return t, nil
		}
		h.Tag("entry:AutopilotAllocator.Allocate")
		res := c07ResultOf(t, out[c07Types[t]], failed)
		covTarget := nd
		if q.view != nil {
			h.Guard(func() {
				nd.lock.RLock()
				defer nd.lock.RUnlock()
				var rr, pp map[schedulingv1alpha1.DeviceType]deviceResources
				rr = map[schedulingv1alpha1.DeviceType]deviceResources{}
				pp = map[schedulingv1alpha1.DeviceType]deviceResources{}
				if len(q.view.required) > 0 {
					rr[c07Types[t]] = c07DR(t, q.view.required)
				}
				if len(q.view.preempt) > 0 {
					pp[c07Types[t]] = c07DR(t, q.view.preempt)
				}
				if al.requestsPerInstance != nil {
					covTarget = al.filterNodeDevice(rr, pp)
				}
			})
		}
		c.obsAlloc(res, true, covTarget, t)
		// oracle: the shape the statement gives to a request
		q.req = podReq
		desired := 1
		if podReq[0] > 100 && podReq[0]%100 == 0 {
			desired = int(podReq[0] / 100)
			q.req = c07Vec{100, -1, -1}
			h.Tag("shape:multi-device")
		} else if podReq[0] == 100 {
			h.Tag("shape:whole")
		} else {
			h.Tag("shape:fractional")
		}
		if podReq.isZero() {
			h.Tag("shape:zero")
			return t, nil
		}
		var rv c07Vals
		for k := 0; k < c07D; k++ {
			rv[k] = q.req.val(k)
		}
		c.checkAlloc(q, res, rv, desired, desired, true)
		return t, c.toCommit(q, res)
	}

	// L1: allocateDevices (GPU goes through GPUAllocator, the others through defaultAllocateDevices)
	q.req = c.genReqVec(t)
	q.desired = int(r.Pick([]int64{0, 1, 1, 1, 2, 2, 3, 4}))
	scorerKind := 0
	if r.Chance(1, 3) {
		scorerKind = r.Range(1, 2)
	}
	mode := 0
	if scorerKind != 0 || t == 0 {
		mode = 1
	}
	if t == 0 {
		q.required = nil // the GPU topology path does not look at `required` (restriction comes through the view)
		delete(required, c07Types[t])
		if q.desired == 0 {
			q.desired = 1
		}
	} else if r.Chance(1, 4) {
		q.npcie = r.Range(1, 4)
	}
	var pcies sets.String
	if q.npcie > 0 {
		pcies = sets.NewString()
		for i := 0; i < q.npcie; i++ {
			pcies.Insert(fmt.Sprintf("nomatch-%d", i))
		}
	}
	reqRL := c07RL(t, q.req)
	target := nd
	var viewLines []string
	ctx := &requestContext{
		pod: pod, node: &corev1.Node{},
		requestsPerInstance:       map[schedulingv1alpha1.DeviceType]corev1.ResourceList{c07Types[t]: reqRL},
		desiredCountPerDeviceType: map[schedulingv1alpha1.DeviceType]int{c07Types[t]: q.desired},
		required:                  required, preferred: preferred,
		allocationScorer: c07Scorer(scorerKind), nodeDevice: nd,
	}
	if t == 0 {
		ctx.gpuRequirements = &GPURequirements{numberOfGPUs: q.desired, requestsPerGPU: reqRL,
			gpuShared: q.req.val(0) < 100 && q.req.val(2) < 100}
	}
	var al []*apiext.DeviceAllocation
	failed := false
	if h.Guard(func() {
		nd.lock.RLock()
		defer nd.lock.RUnlock()
		if q.view != nil {
			devices := map[schedulingv1alpha1.DeviceType][]int{}
			if q.view.hasMinors {
				devices[c07Types[t]] = q.view.minors
			}
			rr := map[schedulingv1alpha1.DeviceType]deviceResources{}
			pp := map[schedulingv1alpha1.DeviceType]deviceResources{}
			if len(q.view.required) > 0 {
				rr[c07Types[t]] = c07DR(t, q.view.required)
			}
			if len(q.view.preempt) > 0 {
				pp[c07Types[t]] = c07DR(t, q.view.preempt)
			}
			target = nd.filter(devices, nil, rr, pp)
			vl := c07Read(target)
			for k := range vl.rows {
				if k[0] != t {
					delete(vl.rows, k)
				}
			}
			viewLines = vl.lines(true)
			h.Tag("entry:nodeDevice.filter")
		}
		a, st := allocateDevices(ctx, target, c07Types[t], reqRL, q.desired, pcies)
		al, failed = a, !st.IsSuccess()
	}) {
		h.Op("alloc %d 0 %d %d %s %s %s %s", t, q.desired, q.npcie, q.req.tok(), c07IntsTok(q.required), c07IntsTok(q.preferred), q.view.tok())
		h.Obs("panic")
		return t, nil
	}
	h.Tag("entry:allocateDevices")
	res := c07ResultOf(t, al, failed)
	line := fmt.Sprintf("alloc %d %d %d %d %s %s %s %s", t, mode, q.desired, q.npcie, q.req.tok(), c07IntsTok(q.required), c07IntsTok(q.preferred), q.view.tok())
	if mode == 1 {
		line += fmt.Sprintf(" %d %s", vB(res.ok), c07IntsTok(res.minors))
		h.Tag("mode:verdict")
	} else {
		h.Tag("mode:exact-order")
	}
	h.Op("%s", line)
	for _, s := range viewLines {
		h.Obs("%s", s)
	}
	c.obsAlloc(res, mode == 0, target, t)
	desired := q.desired
	if desired == 0 {
		desired = 1
	}
	max := desired
	if q.npcie > max {
		max = q.npcie
	}
	var rv c07Vals
	for k := 0; k < c07D; k++ {
		rv[k] = q.req.val(k)
	}
	c.checkAlloc(q, res, rv, desired, max, false)
	return t, c.toCommit(q, res)
}

func (c *c07Case) obsAlloc(res c07Result, ordered bool, target *nodeDevice, t int) {
	if !res.ok {
		c.h.Obs("alloc fail")
		return
	}
	ms := append([]int(nil), res.minors...)
	if !ordered {
		sort.Ints(ms)
	}
	if len(ms) == 0 {
		c.h.Obs("alloc ok 0")
		return
	}
	c.h.Obs("alloc ok %d %s", len(ms), vIntsI(ms))
	// hypothesis `chosenCovered` of no_overcommit: every chosen device exposes (in the free map the allocator read)
	// every resource name the per-instance request carries
	cov := true
	for i, m := range res.minors {
		free, ok := target.deviceFree[c07Types[t]][m]
		if !ok {
			continue
		}
		for name := range res.raw[i].Resources {
			if _, has := free[name]; !has {
				cov = false
			}
		}
	}
	c.h.Obs("cov %d", vB(cov))
	if cov {
		c.h.Tag("hyp:chosenCovered")
	} else {
		c.h.Tag("hyp:not-chosenCovered")
		if !c.loose {
			c.h.Fail("C07:assumption-covered", "main stream: a chosen device of type %d does not expose a requested resource name (generator assumption of no_overcommit broken)", t)
		}
	}
}

func (c *c07Case) toCommit(q *c07Request, res c07Result) []c07Alloc {
	if !res.ok || len(res.minors) == 0 {
		return nil
	}
	if q.view != nil && len(q.view.preempt) > 0 {
		c.h.Tag("alloc:on-preemption-view-not-committed")
		return nil // the victims would have to be removed first
	}
	var out []c07Alloc
	for i, m := range res.minors {
		v := c07Absent
		for k := 0; k < c07D; k++ {
			if _, ok := res.raw[i].Resources[c07Res[q.t][k]]; ok {
				v[k] = res.vecs[i][k]
			}
		}
		out = append(out, c07Alloc{minor: m, vec: v})
	}
	return out
}

func (c *c07Case) genRawAllocs(t int) []c07Alloc {
	r := c.r
	n := r.Range(0, 3)
	var out []c07Alloc
	for i := 0; i < n; i++ {
		m := r.Intn(8)
		if len(c.inv[t]) > 0 && r.Chance(3, 4) {
			m = c.inv[t][r.Intn(len(c.inv[t]))].minor
		}
		v := c07Absent
		for k := 0; k < c07D; k++ {
			if r.Chance(2, 3) {
				v[k] = int64(r.Pick([]int64{0, 10, 50, 100, 150}))
			}
		}
		out = append(out, c07Alloc{minor: m, vec: v})
	}
	return out
}

// extension 6: fillGPUTotalMem called directly (as Plugin.allocate calls it on the allocator's answer) on 1-3 entries over
// ARBITRARY minors (known, unknown, unhealthy / zero devices, the same minor twice) of the GPU inventory of this moment,
// whose abstract per-device totals differ.  Read-only on the ledger.  Observation: error, or every entry with key presence.
func (c *c07Case) fillProbe() {
	h, r := c.h, c.r
	nd := c.nd()
	if nd == nil {
		return
	}
	var req c07Vec = c07Absent
	if r.Chance(2, 3) {
		req[0] = int64(r.Pick([]int64{0, 20, 100}))
	}
	mode := r.Intn(8) // 0-2 ratio only, 3-5 bytes only, 6 both, 7 neither
	switch {
	case mode <= 2:
		req[2] = int64(r.Pick([]int64{0, 10, 33, 50, 100, 150}))
	case mode <= 5:
		req[1] = int64(r.Pick([]int64{0, 1, 4, 8, 16, 40, 80, 200}))
	case mode == 6:
		req[1], req[2] = int64(r.Range(0, 80)), int64(r.Range(0, 100))
	}
	n := r.Range(1, 3)
	var ms []int
	for i := 0; i < n; i++ {
		if r.Chance(1, 6) {
			ms = append(ms, r.Intn(8))
		} else {
			ms = append(ms, c.inv[0][r.Intn(len(c.inv[0]))].minor)
		}
	}
	// memoryBytesToRatio on a device that exposes no gpu-memory divides by zero (int64(+Inf) is platform-defined): bytes-only
	// probes are sent to devices with gpu-memory > 0 only
	if req[1] >= 0 && req[2] < 0 {
		for _, m := range ms {
			if row := c.cur.rows[[2]int{0, m}]; row != nil && row.t != (c07Vals{}) && row.t[1] <= 0 {
				req[1], req[2] = -1, 50
				break
			}
		}
	}
	al := apiext.DeviceAllocations{schedulingv1alpha1.GPU: {}}
	for _, m := range ms {
		al[schedulingv1alpha1.GPU] = append(al[schedulingv1alpha1.GPU], &apiext.DeviceAllocation{Minor: int32(m), Resources: c07RL(0, req)})
	}
	h.Op("fill %s %s", c07IntsTok(ms), req.tok())
	var err error
	if h.Guard(func() {
		nd.lock.RLock()
		defer nd.lock.RUnlock()
		err = fillGPUTotalMem(al, nd)
	}) {
		h.Obs("panic")
		return
	}
	h.Tag("entry:fillGPUTotalMem")
	if err != nil {
		h.Obs("fill err")
		h.Tag("fill:error")
		// oracle: refused only if some entry names a device that is unknown or has nothing (unhealthy)
		bad := false
		for _, m := range ms {
			if row := c.cur.rows[[2]int{0, m}]; row == nil || row.t == (c07Vals{}) {
				bad = true
			}
		}
		if !bad {
			h.Fail("C07:fill-refused-healthy-devices", "fillGPUTotalMem refused %v on minors %v although every one of them is a known non-zero device: %v", req, ms, err)
		}
		return
	}
	g := c07GroupsOf(al)[0]
	o := strconv.Itoa(len(g))
	for _, a := range g {
		o += fmt.Sprintf(" %d %s", a.minor, a.vec.tok())
	}
	h.Obs("fill %s", o)
	h.Tag(fmt.Sprintf("fill:ok:%d-entries", len(g)))
	ts := map[int64]bool{}
	for i, a := range g {
		if i >= len(ms) || a.minor != ms[i] {
			h.Fail("C07:fill-entry-moved", "entry %d of %v came back on minor %d", i, ms, a.minor)
			return
		}
		row := c.cur.rows[[2]int{0, a.minor}]
		if row == nil || row.t == (c07Vals{}) {
			h.Fail("C07:fill-accepted-bad-device", "fillGPUTotalMem accepted an entry on minor %d, which is unknown or zero", a.minor)
			return
		}
		ts[row.t[1]] = true
		for k := 0; k < c07D; k++ {
			if req[k] >= 0 && a.vec[k] != req[k] {
				h.Fail("C07:alloc-unsound:amount", "fillGPUTotalMem changed the requested dimension %d of %v to %v on GPU %d", k, req, a.vec, a.minor)
				return
			}
		}
		if !c07MemPairCheck(h, fmt.Sprintf("fillGPUTotalMem(%v x %v)", ms, req), a.minor, req, a.vec, row.t[1], row.tp[1]) {
			return
		}
	}
	if len(ts) > 1 {
		h.Tag("fill:entries-on-different-memory-sizes")
	}
}

func TestVerifC07(t *testing.T) {
	h := vOpen("C07")
	if h == nil {
		t.Skip("VERIF_OUT not set")
	}
	n := h.N(1500, 40000)
	for idx := 0; idx < n; idx++ {
		r := h.Begin(idx)
		if r == nil {
			continue
		}
		c := &c07Case{h: h, r: r, cache: newNodeDeviceCache(), exact: true, histX: true, sched: true, nextPod: 1, cur: &c07Ledger{rows: map[[2]int]*c07Row{}, pods: map[[2]int]map[int]c07Vals{}}}
		for t := 0; t < 3; t++ {
			c.live[t] = map[int][]c07Alloc{}
		}
		c.loose = r.Chance(1, 6)
		switch r.Intn(6) {
		case 0:
			c.inPlay = []int{0}
		case 1:
			c.inPlay = []int{1, 2}
		case 2:
			c.inPlay = []int{0, 1}
		case 3:
			c.inPlay = []int{2}
		default:
			c.inPlay = []int{1}
		}
		c.da[0] = 3
		c.da[1], c.da[2] = r.Range(1, 3), r.Range(1, 3)
		if c.loose {
			h.Tag("stream:malformed")
		} else {
			h.Tag("stream:main")
		}
		// a pod event may arrive before the first inventory (the cache then creates the node entry)
		if c.loose && r.Chance(1, 4) {
			tt := c.inPlay[0]
			p := c.nextPod
			c.nextPod++
			c.doAdd("raw-add", p, c07Groups{tt: c.genRawAllocs(tt)})
		}
		c.genInventory(true)
		c.applyInventory(false)
		gpuInPlay := false
		for _, tt := range c.inPlay {
			gpuInPlay = gpuInPlay || tt == 0
		}
		steps := r.Range(4, 12)
		if h.Tier == "thorough" && r.Chance(1, 10) {
			steps = r.Range(12, 30)
		}
		commits, updates := 0, 0
		for s := 0; s < steps; s++ {
			x := r.Intn(100)
			live := c.livePods()
			switch {
			case x < 45:
				tt, al := c.doAlloc()
				if al != nil && !r.Chance(1, 8) {
					p := c.nextPod
					c.nextPod++
					kind := "commit"
					if c.loose {
						kind = "raw-add" // may rest on the missing-dimension quirk: exempt from the over-commit clause
					}
					c.doAdd(kind, p, c07Groups{tt: al})
					commits++
					h.Tag("op:commit")
				}
			case x < 60:
				if len(live) == 0 {
					continue
				}
				p := live[r.Intn(len(live))]
				g := c.liveGroups(p)
				if c.loose && r.Chance(1, 2) { // stale annotation: amounts / minors differ from what was recorded
					for tt := range g {
						g[tt] = c.genRawAllocs(tt)
					}
				}
				c.doRemove("release", p, g)
				c.gone = append(c.gone, p)
				h.Tag("op:release")
			case x < 66:
				if len(live) == 0 {
					continue
				}
				p := live[r.Intn(len(live))]
				g := c.liveGroups(p)
				if r.Bool() { // the duplicate event carries something else
					for tt := range g {
						g[tt] = c.genRawAllocs(tt)
					}
				}
				c.doAdd("dup", p, g)
				h.Tag("op:dup-add")
			case x < 71:
				p := 50 + r.Intn(5)
				if len(c.gone) > 0 && r.Bool() {
					p = c.gone[r.Intn(len(c.gone))]
					if len(c.liveGroups(p)) > 0 {
						continue
					}
				}
				tt := c.inPlay[r.Intn(len(c.inPlay))]
				c.doRemove("absent", p, c07Groups{tt: c.genRawAllocs(tt)})
				h.Tag("op:remove-absent")
			case x < 75:
				if len(live) == 0 {
					continue
				}
				p := live[r.Intn(len(live))]
				if !c.exact {
					continue
				}
				c.doReannotate(p, c.liveGroups(p))
				h.Tag("op:update-same")
			case x < 86:
				// a pod update whose device-allocation annotation changed; the old object is what the informer delivered last
				if len(live) > 0 && !r.Chance(1, 5) {
					p := live[r.Intn(len(live))]
					oldG := c.liveGroups(p)
					newG, what := c.genChanged(oldG)
					if c.loose && r.Chance(1, 3) { // unfaithful delivery: the old object is not what the cache recorded
						for tt := range oldG {
							oldG[tt] = c.genRawAllocs(tt)
						}
					}
					newAssigned, newTerm := true, false
					if r.Chance(1, 8) { // the pod lost its node (multi-scheduler clean-up): deletePod(old object)
						newAssigned, what = false, "new-unassigned"
					} else if c.loose && what != "same" && r.Chance(1, 3) {
						// the annotation changes in the very update that reports the pod terminated: deletePod(NEW object)
						newTerm, what = true, "terminated-changed"
					}
					c.doUpdate("update", p, oldG, newG, true, newAssigned, newTerm)
					h.Tag("op:update-changed")
					h.Tag("update:" + what)
					if len(c.liveGroups(p)) > 0 && c.exact && r.Chance(1, 3) { // the informer resyncs: the same object twice
						c.doReannotate(p, c.liveGroups(p))
						h.Tag("op:update-same")
					}
					if len(c.liveGroups(p)) == 0 {
						c.gone = append(c.gone, p)
					} else if r.Chance(1, 3) { // ... and the pod is deleted with its last annotation
						c.doRemove("release", p, c.liveGroups(p))
						c.gone = append(c.gone, p)
						h.Tag("op:release")
					}
					updates++
				} else {
					// the annotation appears on a pod the cache does not hold (old object without annotation, or an old object
					// that carried an annotation while it was still unassigned)
					tt := c.inPlay[r.Intn(len(c.inPlay))]
					m, ok := c.otherMinor(tt, nil)
					if !ok {
						continue
					}
					newG := c07Groups{tt: []c07Alloc{{minor: m, vec: c.smallVec(tt)}}}
					oldG := c07Groups{}
					assigned := true
					if r.Bool() {
						assigned = false
						oldG = c07Groups{tt: []c07Alloc{{minor: r.Intn(8), vec: c.smallVec(tt)}}}
					}
					p := c.nextPod
					c.nextPod++
					c.doUpdate("update", p, oldG, newG, assigned, true, false)
					h.Tag("op:update-changed")
					if assigned {
						h.Tag("update:annotation-appears")
					} else {
						h.Tag("update:old-unassigned")
					}
					updates++
				}
			case x < 96:
				c.genInventory(false)
				c.applyInventory(r.Chance(1, 8))
				h.Tag("op:refresh")
			default:
				if !c.loose {
					continue
				}
				// raw pod event with an arbitrary (possibly multi-type, over-capacity, repeated-minor) allocation
				g := c07Groups{}
				for _, tt := range c.inPlay {
					if r.Bool() {
						g[tt] = c.genRawAllocs(tt)
					}
				}
				if len(g) == 0 {
					continue
				}
				for _, al := range g {
					seen := map[int]bool{}
					for _, a := range al {
						if seen[a.minor] {
							h.Tag("malformed:repeated-minor")
						}
						seen[a.minor] = true
					}
				}
				p := c.nextPod
				c.nextPod++
				c.doAdd("raw-add", p, g)
				h.Tag("op:raw-add")
			}
			if gpuInPlay && len(c.inv[0]) > 0 && r.Chance(1, 6) {
				c.fillProbe()
			}
		}
		if commits > 0 || updates > 0 {
			h.Nontrivial()
		}
		h.End()
	}
	h.Close("extension 6: after 1 step in 6 (GPU in play) a fillGPUTotalMem probe on 1-3 arbitrary minors x a request with bytes only / ratio only / both / neither, compared with the model's fillGPU and judged by the memory-pair clause; " +
		"one history per case on one node: inventory of 1-5 devices per type (gpu/rdma/fpga, 1-3 resource dimensions, unhealthy and zero devices), " +
		"then 4-12 (thorough: up to 30) ops: allocate (allocateDevices or AutopilotAllocator; fractional/whole/multi-device, required/preferred minors, " +
		"preemption/reservation view, nil/least/most scorer) + commit, release, duplicate add, removal of an absent pod, re-delivered update, pod update with a CHANGED allocation annotation " +
		"(moved minor / other amounts / type or device appears / disappears / annotation appears on an unknown pod, old object unassigned; then resync and delete), inventory refresh / invalidation; " +
		"1/6 of the cases are the malformed stream (raw adds, stale removals, heterogeneous devices). non-trivial = at least one allocation was committed; distinct by op list")
}

// ---------------------------------------------------------------------------------------------------------------
// C07 "path" harness: the REAL scheduling path of a GPU pod - Plugin.PreFilter (preparePod: request shapes from the
// pod spec) -> Plugin.Filter -> Plugin.Reserve (allocate + updateCacheUsed) -> informer confirmation
// (onPodUpdate: the annotation PreBind wrote appears on the assigned pod) / Plugin.Unreserve / onPodDelete, on a
// Plugin built by the package's own test fixture.  The model gets the per-GPU request the PROPERTY gives to the pod
// spec, the implementation's verdict and choice (`alloc … mode 1`: checked for consistency with the model's ledger),
// and the committed allocation.
//
//   1 case in 8 (VERIF_C07_HETERO=1: all, =0: none): GPUs of one node expose different resource names (a device
//                       without gpu-core / gpu-memory-ratio); quotav1.LessThanOrEqual ignores a requested name the device
//                       does not expose -> fingerprint C07:missing-dimension-accepted (OPEN KNOWN FINDING)
// Off by default (outside the property's quantifier, main agent's decision):
//   VERIF_C07_STALE=1   the annotation that reaches the informer differs from what Reserve recorded (foreign edit), or
//                       changes in the update that reports the pod terminated; removal subtracts the caller-supplied
//                       amounts -> fingerprint C07:caller-supplied-removal
// ---------------------------------------------------------------------------------------------------------------

// EXTENSION 6 - the gpu-memory / gpu-memory-ratio pair of ONE device describes the same memory: whatever dimension the
// pod did not request is charged from the other one and the total of THE DEVICE THE ENTRY IS ON (not of any other GPU of
// the node: GPUs of one node may have different memory sizes).  Independent oracle, from the per-GPU request, the committed
// entry and the device's own total T (value ledger read before the commit):
//   by ratio (pod requests gpu-memory-ratio r, no bytes):  bytes charged = r * T / 100 (whole bytes)
//   by bytes (pod requests gpu-memory b, no ratio):        ratio charged within one whole percent of 100 * b / T
//                                                          (memoryBytesToRatio truncates a float quotient)
// exposes = the device exposes both names.  Returns false after a Fail.
func c07MemPairCheck(h *vHarness, where string, minor int, req, vec c07Vec, T int64, exposes bool) bool {
	if !exposes || T <= 0 {
		return true
	}
	switch {
	case req[2] >= 0 && req[1] < 0: // by ratio
		h.Tag("mempair:by-ratio")
		if want := req[2] * T / 100; vec[1] != want {
			h.Fail("C07:memory-pair-not-of-this-device:by-ratio", "%s: GPU %d (gpu-memory total %d) is charged gpu-memory %d for gpu-memory-ratio %d; %d percent of THIS device's memory is %d", where, minor, T, vec[1], req[2], req[2], want)
			return false
		}
	case req[1] >= 0 && req[2] < 0: // by bytes
		h.Tag("mempair:by-bytes")
		if r := vec[2]; r < 0 || !((r-1)*T < 100*req[1] && 100*req[1] < (r+2)*T) {
			h.Fail("C07:memory-pair-not-of-this-device:by-bytes", "%s: GPU %d (gpu-memory total %d) is charged gpu-memory-ratio %d for gpu-memory %d, which is %d percent of THIS device's memory", where, minor, T, vec[2], req[1], 100*req[1]/T)
			return false
		}
	}
	return true
}

func c07FillObs(h *vHarness, al []c07Alloc, req c07Vec) {
	ms := make([]int, 0, len(al))
	o := strconv.Itoa(len(al))
	for _, a := range al {
		ms = append(ms, a.minor)
		o += fmt.Sprintf(" %d %s", a.minor, a.vec.tok())
	}
	h.Op("fill %s %s", c07IntsTok(ms), req.tok())
	h.Obs("fill %s", o)
}

type c07PathPod struct {
	id    int
	pod   *corev1.Pod
	cs    fwktype.CycleState
	alloc apiext.DeviceAllocations
	g     c07Groups
}

func c07GroupsOf(al apiext.DeviceAllocations) c07Groups {
	g := c07Groups{}
	for t, dt := range c07Types {
		l, ok := al[dt]
		if !ok {
			continue
		}
		es := []c07Alloc{}
		for _, a := range l {
			v := c07Absent
			for k := 0; k < c07D; k++ {
				if q, ok := a.Resources[c07Res[t][k]]; ok {
					v[k] = q.Value()
				}
			}
			es = append(es, c07Alloc{minor: int(a.Minor), vec: v})
		}
		g[t] = es
	}
	return g
}

func TestVerifC07Path(t *testing.T) {
	h := vOpen("C07")
	if h == nil {
		t.Skip("VERIF_OUT not set")
	}
	heteroEnv := os.Getenv("VERIF_C07_HETERO") // "1": every case, "0": never, unset: 1 case in 8 (open known finding)
	stale := os.Getenv("VERIF_C07_STALE") == "1"
	driftEnv := os.Getenv("VERIF_C07_DRIFT") // "1": every case, "0": never, unset: 1 case in 10 runs the directed memory / ratio drift pattern
	mixEnv := os.Getenv("VERIF_C07_MIXMEM") // "1": every case, "0": never, unset: 1 case in 3 has GPUs with DIFFERENT memory sizes (16Gi / 32Gi / 80Gi) on the node
	node := &corev1.Node{ObjectMeta: metav1.ObjectMeta{Name: c07Node}}
	suit := newPluginTestSuit(t, []*corev1.Node{node})
	p, err := suit.proxyNew(context.TODO(), getDefaultArgs(), suit.Framework)
	if err != nil {
		t.Fatalf("plugin: %v", err)
	}
	pl := p.(*Plugin)
	nodeInfo := framework.NewNodeInfo()
	nodeInfo.SetNode(node)

	n := h.N(400, 8000)
	for idx := 0; idx < n; idx++ {
		r := h.Begin(idx)
		if r == nil {
			continue
		}
		hetero := heteroEnv == "1" || (heteroEnv != "0" && r.Chance(1, 8))
		if hetero {
			h.Tag("stream:heterogeneous")
		} else {
			h.Tag("stream:homogeneous")
		}
		pl.nodeDeviceCache = newNodeDeviceCache()
		c := &c07Case{h: h, r: r, cache: pl.nodeDeviceCache, exact: true, histX: true, sched: true, nextPod: 1, cur: &c07Ledger{rows: map[[2]int]*c07Row{}, pods: map[[2]int]map[int]c07Vals{}}}
		for tt := 0; tt < 3; tt++ {
			c.live[tt] = map[int][]c07Alloc{}
		}
		c.inPlay = []int{0}
		c.da[0] = 3
		// inventory: 1-4 GPUs, all exposing gpu-core / gpu-memory (BYTES: 16Gi or 80Gi) / gpu-memory-ratio (what koordlet reports)
		drift := driftEnv == "1" || (driftEnv != "0" && !hetero && r.Chance(1, 10))
		ng := r.Range(1, 4)
		if drift {
			ng = 1
			h.Tag("stream:drift-directed")
		}
		perm := r.Perm(6)
		mem := int64(r.Pick([]int64{16 << 30, 80 << 30}))
		// extension 6: GPUs of DIFFERENT memory sizes on one node (at least two sizes), more multi-GPU pods (by ratio and by bytes)
		mixed := !hetero && !drift && (mixEnv == "1" || (mixEnv != "0" && r.Chance(1, 3)))
		sizes := []int64{16 << 30, 32 << 30, 80 << 30}
		sizeOff := 0
		if mixed {
			h.Tag("stream:mixed-memory-sizes")
			ng = r.Range(2, 4)
			sizeOff = r.Intn(3)
		}
		for i := 0; i < ng; i++ {
			dm := mem
			if mixed {
				if i < 2 {
					dm = sizes[(sizeOff+i)%3]
				} else {
					dm = int64(r.Pick(sizes))
				}
			}
			d := c07Dev{minor: perm[i], healthy: drift || !r.Chance(1, 10), res: c07Vec{100, dm, 100}, numa: -1}
			if mixed && i < 2 && r.Chance(2, 3) {
				d.healthy = true
			}
			if hetero && r.Chance(1, 3) {
				// a device that does not expose gpu-core (or gpu-memory-ratio).  A device without gpu-memory is left out on
				// purpose: a gpu-core+gpu-memory pod lands on it and fillGPUTotalMem then divides by the missing total
				// (memoryBytesToRatio: int64(+Inf) = MinInt64 is committed as gpu-memory-ratio) - reported separately.
				d.res[r.Pick([]int64{0, 0, 2})] = -1
				h.Tag("inventory:heterogeneous")
			}
			c.inv[0] = append(c.inv[0], d)
		}
		sort.Slice(c.inv[0], func(i, j int) bool { return c.inv[0][i].minor < c.inv[0][j].minor })
		c.applyInventory(false)

		var pods []*c07PathPod
		steps := r.Range(3, 9)
		scheduled := 0
		memExact, refreshed := true, false
		schedPod := func(id, cnt int, req c07Vec, podReq corev1.ResourceList) {
			pod := c07Pod(id, nil, "")
			pod.Spec.Containers = []corev1.Container{{Name: "c", Resources: corev1.ResourceRequirements{Requests: podReq, Limits: podReq}}}
			cs := framework.NewCycleState()
			var fst *fwktype.Status
			var result apiext.DeviceAllocations
			reserved := false
			if h.Guard(func() {
				if _, st := pl.PreFilter(context.TODO(), cs, pod, nil); !st.IsSuccess() {
					fst = st
					return
				}
				fst = pl.Filter(context.TODO(), cs, pod, nodeInfo)
				if !fst.IsSuccess() {
					return
				}
				if st := pl.Reserve(context.TODO(), cs, pod, c07Node); !st.IsSuccess() {
					fst = st
					return
				}
				reserved = true
				if state, st := getPreFilterState(cs); st.IsSuccess() {
					result = state.allocationResult
				}
			}) {
				h.Op("alloc 0 1 %d 0 %s 0 0 0 0 0", cnt, req.tok())
				h.Obs("panic")
				return
			}
			h.Tag("entry:Plugin.PreFilter+Filter+Reserve")
			q := &c07Request{t: 0, req: req, desired: cnt}
			res := c07ResultOf(0, result[schedulingv1alpha1.GPU], !reserved)
			h.Op("alloc 0 1 %d 0 %s 0 0 0 %d %s", cnt, req.tok(), vB(res.ok), c07IntsTok(res.minors))
			before := c.cur
			// observation of the verdict: the ledger the allocator read is the one BEFORE Reserve committed
			if !res.ok {
				h.Obs("alloc fail")
				h.Tag("alloc:fail")
			} else {
				ms := append([]int(nil), res.minors...)
				sort.Ints(ms)
				h.Obs("alloc ok %d %s", len(ms), vIntsI(ms))
				cov := true
				for i, m := range res.minors {
					row := before.rows[[2]int{0, m}]
					if row == nil || !row.hasF {
						return
					}
					for k := 0; k < c07D; k++ {
						if req[k] >= 0 && !row.fp[k] {
							cov = false
						}
					}
					_ = i
				}
				h.Obs("cov %d", vB(cov))
				h.Tag("alloc:ok")
			}
			// oracle (the statement, on the value ledger before the commit)
			qual := c07Qualifying(before, q)
			for m := range qual {
				if before.row(0, m).t == (c07Vals{}) {
					delete(qual, m) // unhealthy / zero device
				}
			}
			if !res.ok {
				if len(qual) >= cnt {
					h.Fail("C07:alloc-incomplete", "request %v x%d refused (%v) although GPUs %v qualify", req, cnt, fst, qual)
				}
				return
			}
			seen := map[int]bool{}
			onQuirk := false
			for _, m := range res.minors {
				if seen[m] {
					h.Fail("C07:alloc-unsound:duplicate-minor", "minor %d returned twice", m)
				}
				seen[m] = true
				if !qual[m] {
					row := before.row(0, m)
					// the open known finding, and only it: the device does not expose a requested non-zero resource name
					// and fits in every name it does expose
					rr := before.rows[[2]int{0, m}]
					missing, restFits := false, row.t != (c07Vals{})
					for k := 0; k < c07D; k++ {
						if req.val(k) > 0 && rr != nil && rr.hasF && !rr.fp[k] {
							missing = true
						} else if req.val(k) > row.f[k] {
							restFits = false
						}
					}
					if hetero && missing && restFits {
						onQuirk = true
						h.Fail("C07:missing-dimension-accepted", "GPU %d chosen for per-GPU request %v although it does not expose every requested resource name: free %v total %v used %v", m, req, row.f, row.t, row.u)
					} else {
						h.Fail("C07:alloc-unsound:not-enough-free", "GPU %d chosen for per-GPU request %v: free %v total %v used %v", m, req, row.f, row.t, row.u)
					}
				}
			}
			if len(res.minors) != cnt {
				h.Fail("C07:alloc-unsound:count", "%d GPUs returned, %d requested", len(res.minors), cnt)
			}
			g := c07GroupsOf(result)
			for i, a := range g[0] {
				for k := 0; k < c07D; k++ {
					if req[k] >= 0 && a.vec[k] != req[k] {
						h.Fail("C07:alloc-unsound:amount", "GPU %d allocated %v, per-GPU request %v", a.minor, a.vec, req)
					}
				}
				_ = i
			}
			// extension 6: the dimension the pod did not request is charged from THIS device's own memory size
			for _, a := range g[0] {
				rr := before.rows[[2]int{0, a.minor}]
				if !c07MemPairCheck(h, fmt.Sprintf("pod %d (%d GPU x %v)", id, cnt, req), a.minor, req, a.vec, before.row(0, a.minor).t[1], rr != nil && rr.tp[1] && rr.tp[2]) {
					break
				}
			}
			if mixed && cnt > 1 {
				h.Tag("mixed:multi-gpu-commit")
				ts := map[int64]bool{}
				for _, a := range g[0] {
					ts[before.row(0, a.minor).t[1]] = true
				}
				if len(ts) > 1 {
					h.Tag("mixed:multi-gpu-commit-over-different-sizes")
				}
			}
			// extension 6: the amounts fillGPUTotalMem put into the allocator's answer are MODELLED (fillGPU on the model's own
			// totals of this moment), entry by entry in the allocator's order
			c07FillObs(h, g[0], req)
			// the commit Reserve made
			h.Op("add %d %s", id, g.tok())
			for _, tt := range g.types() {
				c.noteAdd(tt, id, g[tt], before)
			}
			kind := "commit"
			if onQuirk {
				kind = "raw-add" // rests on the known finding: the commit puts an amount on a name the device does not expose
			}
			// hypothesis of derived_ratio_fits / derived_bytes_fits: every committed memory pair is EXACT (100 * bytes = ratio * total)
			for _, a := range g[0] {
				if T := before.row(0, a.minor).t[1]; a.vec[1] >= 0 && a.vec[2] >= 0 && 100*a.vec[1] != a.vec[2]*T {
					memExact = false
				}
			}
			if memExact {
				h.Tag("hyp:memory-pair-exact")
			} else {
				h.Tag("hyp:memory-pair-inexact")
			}
			// the genuine defect of the memory / memory-ratio pair: fillGPUTotalMem adds the dimension the pod did NOT request
			// (derived from the other one) after the fit check; it is committed even if the device has less of it free
			for _, a := range g[0] {
				row := before.row(0, a.minor)
				for k := 1; k < c07D; k++ {
					if req[k] < 0 && a.vec[k] >= 0 && a.vec[k] > row.f[k] && (before.rows[[2]int{0, a.minor}] != nil && before.rows[[2]int{0, a.minor}].tp[k]) {
						if memExact && !refreshed {
							h.Fail("C07:derived-overcommit-with-exact-requests", "GPU %d: every committed memory pair so far was exact (100*bytes = ratio*total) and the inventory never changed, yet the derived dimension %d = %d exceeds free %d", a.minor, k, a.vec[k], row.f[k])
						}
						h.Fail("C07:derived-memory-dimension-overcommit", "GPU %d: per-GPU request %v fits, but the derived dimension %d = %d committed by fillGPUTotalMem exceeds the free amount %d (total %d, used before %d)", a.minor, req, k, a.vec[k], row.f[k], row.t[k], row.u[k])
						kind = "raw-add"
					}
				}
			}
			if hetero {
				// "for every resource it EXPOSES": fillGPUTotalMem adds the derived gpu-memory / gpu-memory-ratio to the
				// allocation; on a device that does not expose that name the amount is not an over-commit of the device
				for _, a := range g[0] {
					if rr := before.rows[[2]int{0, a.minor}]; rr != nil && rr.hasF {
						for k := 0; k < c07D; k++ {
							if a.vec[k] >= 0 && !rr.tp[k] {
								kind = "raw-add"
								h.Tag("hetero:amount-on-unexposed-name")
							}
						}
					}
				}
			}
			c.cur = c.emitLedger()
			c.checkLedger(kind, before, c.cur)
			pods = append(pods, &c07PathPod{id: id, pod: pod, cs: cs, alloc: result, g: g})
			scheduled++
			h.Tag("op:commit")
		}
		if drift {
			// directed: k pods requesting gpu-memory in BYTES with a share that is not a whole percent, then one pod
			// requesting by RATIO everything the cache believes to be left
			k := r.Range(2, 8)
			share := int64(r.Pick([]int64{19, 25, 77, 125})) // tenths of a percent
			for i := 0; i < k; i++ {
				id := c.nextPod
				c.nextPod++
				b := mem * share / 1000
				schedPod(id, 1, c07Vec{-1, b, -1}, corev1.ResourceList{apiext.ResourceGPUMemory: *resource.NewQuantity(b, resource.BinarySI)})
			}
			if left := c.cur.row(0, c.inv[0][0].minor).f[2]; left > 0 {
				id := c.nextPod
				c.nextPod++
				schedPod(id, 1, c07Vec{-1, -1, left}, corev1.ResourceList{apiext.ResourceGPUMemoryRatio: *resource.NewQuantity(left, resource.DecimalSI)})
			}
		}
		memOfSome := func() int64 { // the memory size a byte request is a share of: of some GPU of the node
			if !mixed {
				return mem
			}
			return c.inv[0][r.Intn(len(c.inv[0]))].res[1]
		}
		if mixed && r.Chance(1, 3) {
			// directed: a pod takes 2 whole GPUs (by vendor count, by ratio 200, or by gpu.shared 2 + bytes of the SMALLEST card
			// twice), then byte-only / ratio-only pods ask for what a wrongly sized charge would leave as phantom free memory
			h.Tag("stream:mixed-directed")
			id := c.nextPod
			c.nextPod++
			small := c.inv[0][0].res[1]
			for _, d := range c.inv[0] {
				if d.res[1] < small {
					small = d.res[1]
				}
			}
			switch r.Intn(3) {
			case 0:
				schedPod(id, 2, c07Vec{100, -1, 100}, corev1.ResourceList{apiext.ResourceNvidiaGPU: *resource.NewQuantity(2, resource.DecimalSI)})
			case 1:
				schedPod(id, 2, c07Vec{-1, -1, 100}, corev1.ResourceList{apiext.ResourceGPUMemoryRatio: *resource.NewQuantity(200, resource.DecimalSI)})
			default:
				schedPod(id, 2, c07Vec{-1, small, -1}, corev1.ResourceList{apiext.ResourceGPUShared: *resource.NewQuantity(2, resource.DecimalSI), apiext.ResourceGPUMemory: *resource.NewQuantity(2*small, resource.BinarySI)})
			}
			for i, k := 0, r.Range(1, 2); i < k; i++ {
				id := c.nextPod
				c.nextPod++
				if r.Chance(2, 3) {
					b := int64(r.Pick([]int64{16 << 30, 8 << 30, 48 << 30}))
					schedPod(id, 1, c07Vec{-1, b, -1}, corev1.ResourceList{apiext.ResourceGPUMemory: *resource.NewQuantity(b, resource.BinarySI)})
				} else {
					v := int64(r.Pick([]int64{50, 80}))
					schedPod(id, 1, c07Vec{-1, -1, v}, corev1.ResourceList{apiext.ResourceGPUMemoryRatio: *resource.NewQuantity(v, resource.DecimalSI)})
				}
			}
		}
		nshape := 6
		if mixed {
			nshape = 10
		}
		for s := 0; s < steps; s++ {
			x := r.Intn(100)
			switch {
			case x < 55: // schedule a new pod
				id := c.nextPod
				c.nextPod++
				// the intent: cnt GPUs, each corePer / ratioPer (or memPer units of memory)
				cnt := 1
				req := c07Absent
				podReq := corev1.ResourceList{}
				switch r.Intn(nshape) {
				case 6: // (mixed sizes only) several whole GPUs by memory ratio alone
					cnt = r.Range(2, 3)
					req = c07Vec{-1, -1, 100}
					podReq[apiext.ResourceGPUMemoryRatio] = *resource.NewQuantity(100*int64(cnt), resource.DecimalSI)
					h.Tag("shape:ratio-only-multi")
				case 7: // (mixed sizes only) gpu.shared n + gpu-memory in BYTES: n GPUs, the same bytes on each
					cnt = r.Range(2, 3)
					b := memOfSome() * int64(r.Pick([]int64{250, 500, 125, 77, 1000})) / 1000
					req = c07Vec{-1, b, -1}
					podReq[apiext.ResourceGPUShared] = *resource.NewQuantity(int64(cnt), resource.DecimalSI)
					podReq[apiext.ResourceGPUMemory] = *resource.NewQuantity(b*int64(cnt), resource.BinarySI)
					h.Tag("shape:shared+memory-multi")
				case 8: // (mixed sizes only) gpu.shared n + gpu-core + gpu-memory-ratio: n GPUs, a fraction of each
					cnt = r.Range(2, 3)
					req = c07Vec{int64(r.Pick([]int64{20, 50})), -1, int64(r.Pick([]int64{30, 50, 100}))}
					podReq[apiext.ResourceGPUShared] = *resource.NewQuantity(int64(cnt), resource.DecimalSI)
					podReq[apiext.ResourceGPUCore] = *resource.NewQuantity(req[0]*int64(cnt), resource.DecimalSI)
					podReq[apiext.ResourceGPUMemoryRatio] = *resource.NewQuantity(req[2]*int64(cnt), resource.DecimalSI)
					h.Tag("shape:shared+core+ratio-multi")
				case 9: // (mixed sizes only) gpu.shared n + gpu-core + gpu-memory in BYTES
					cnt = r.Range(2, 3)
					b := memOfSome() * int64(r.Pick([]int64{250, 500, 333})) / 1000
					req = c07Vec{int64(r.Pick([]int64{20, 50})), b, -1}
					podReq[apiext.ResourceGPUShared] = *resource.NewQuantity(int64(cnt), resource.DecimalSI)
					podReq[apiext.ResourceGPUCore] = *resource.NewQuantity(req[0]*int64(cnt), resource.DecimalSI)
					podReq[apiext.ResourceGPUMemory] = *resource.NewQuantity(b*int64(cnt), resource.BinarySI)
					h.Tag("shape:shared+core+memory-multi")
				case 0: // whole GPUs by vendor resource
					cnt = r.Range(1, 3)
					req = c07Vec{100, -1, 100}
					podReq[apiext.ResourceNvidiaGPU] = *resource.NewQuantity(int64(cnt), resource.DecimalSI)
					h.Tag("shape:nvidia-gpu")
				case 1: // koordinator.sh/gpu percentage
					v := int64(r.Pick([]int64{100, 200, 50, 30, 300}))
					if v > 100 {
						cnt = int(v / 100)
						req = c07Vec{100, -1, 100}
					} else {
						req = c07Vec{v, -1, v}
					}
					podReq[apiext.ResourceGPU] = *resource.NewQuantity(v, resource.DecimalSI)
					h.Tag("shape:koord-gpu")
				case 2, 3: // gpu-core + gpu-memory-ratio
					if r.Chance(1, 3) {
						cnt = r.Range(2, 3)
						req = c07Vec{100, -1, 100}
					} else {
						req = c07Vec{int64(r.Pick([]int64{10, 30, 50, 70, 100})), -1, int64(r.Pick([]int64{10, 30, 50, 70, 100}))}
					}
					podReq[apiext.ResourceGPUCore] = *resource.NewQuantity(req[0]*int64(cnt), resource.DecimalSI)
					podReq[apiext.ResourceGPUMemoryRatio] = *resource.NewQuantity(req[2]*int64(cnt), resource.DecimalSI)
					h.Tag("shape:core+ratio")
				case 4: // memory ratio only
					req = c07Vec{-1, -1, int64(r.Pick([]int64{20, 50, 100}))}
					podReq[apiext.ResourceGPUMemoryRatio] = *resource.NewQuantity(req[2], resource.DecimalSI)
					h.Tag("shape:ratio-only")
				default: // gpu-core + gpu-memory (bytes)
					req = c07Vec{int64(r.Pick([]int64{20, 50, 100})), memOfSome() * int64(r.Pick([]int64{19, 77, 125, 250, 333, 500})) / 1000, -1}
					podReq[apiext.ResourceGPUCore] = *resource.NewQuantity(req[0], resource.DecimalSI)
					podReq[apiext.ResourceGPUMemory] = *resource.NewQuantity(req[1], resource.BinarySI)
					h.Tag("shape:core+memory")
				}
				schedPod(id, cnt, req, podReq)
			case x < 70: // the informer confirms the binding: the annotation PreBind wrote appears on the assigned pod
				if len(pods) == 0 {
					continue
				}
				pp := pods[r.Intn(len(pods))]
				ann := pp.g
				if stale && r.Chance(1, 2) && len(ann[0]) > 0 { // a foreign edit: other amounts reach the informer
					ann = c07Groups{0: append([]c07Alloc(nil), ann[0]...)}
					ann[0][0].vec = c07Vec{10, -1, 10}
					h.Tag("stale:foreign-annotation")
					pp.g = ann
				}
				c.doUpdate("dup", pp.id, c07Groups{}, ann, false, true, false)
				h.Tag("op:informer-confirm")
			case x < 82: // binding failed: Unreserve
				if len(pods) == 0 {
					continue
				}
				i := r.Intn(len(pods))
				pp := pods[i]
				g := c07GroupsOf(pp.alloc)
				h.Op("rem %d %s", pp.id, g.tok())
				before := c.cur
				if h.Guard(func() { pl.Unreserve(context.TODO(), pp.cs, pp.pod, c07Node) }) {
					h.Obs("panic")
					continue
				}
				h.Tag("entry:Plugin.Unreserve")
				for _, tt := range g.types() {
					c.noteRemove(tt, pp.id, g[tt])
				}
				c.cur = c.emitLedger()
				c.checkLedger("release", before, c.cur)
				pods = append(pods[:i:i], pods[i+1:]...)
				h.Tag("op:release")
			case x < 94: // the pod is deleted (its last delivered annotation)
				if len(pods) == 0 {
					continue
				}
				i := r.Intn(len(pods))
				pp := pods[i]
				if stale {
					c.exact = true // keep the used = sum-of-live clause armed: this stream is about exactly that
				}
				g := pp.g
				if stale && r.Chance(1, 3) && len(g[0]) > 0 {
					// the annotation changes in the very update that reports the pod terminated: updatePod -> deletePod(NEW object)
					ng := c07Groups{0: append([]c07Alloc(nil), g[0]...)}
					ng[0][0].vec = c07Vec{20, -1, 20}
					if ng[0][0].vec != g[0][0].vec {
						c.staleFP = "C07:caller-supplied-removal"
						h.Tag("stale:terminated-changed")
						c.doUpdate("release", pp.id, g, ng, true, true, true)
						c.exact = true
						pods = append(pods[:i:i], pods[i+1:]...)
						h.Tag("op:release")
						continue
					}
				}
				h.Op("del %d 1 %s", pp.id, g.tok())
				before := c.cur
				if h.Guard(func() { c.cache.onPodDelete(c07Pod(pp.id, g.api(), c07Node)) }) {
					h.Obs("panic")
					continue
				}
				h.Tag("entry:onPodDelete")
				wasExact := c.exact
				for _, tt := range g.types() {
					c.noteRemove(tt, pp.id, g[tt])
				}
				if stale && wasExact && !c.exact {
					c.exact = true
					c.staleFP = "C07:caller-supplied-removal"
				}
				c.cur = c.emitLedger()
				c.checkLedger("release", before, c.cur)
				pods = append(pods[:i:i], pods[i+1:]...)
				h.Tag("op:release")
			default: // inventory refresh: health toggles
				if len(c.inv[0]) > 0 {
					i := r.Intn(len(c.inv[0]))
					c.inv[0][i].healthy = !c.inv[0][i].healthy
				}
				c.applyInventory(false)
				refreshed = true
				h.Tag("op:refresh")
			}
		}
		if scheduled > 0 {
			h.Nontrivial()
		}
		h.End()
	}
	h.Close("real scheduling path on one node with 1-4 GPUs (16/80 units of memory, unhealthy devices): 3-9 steps of PreFilter+Filter+Reserve of a pod whose SPEC requests " +
		"nvidia.com/gpu, koordinator.sh/gpu, gpu-core+gpu-memory-ratio (single, fractional, multi-GPU), gpu-memory-ratio only, gpu-core+gpu-memory; informer confirmation, Unreserve, pod deletion, health refresh; " +
		"VERIF_C07_HETERO / VERIF_C07_STALE add heterogeneous GPUs / foreign annotation edits. " +
		"extension 6: 1 case in 3 (VERIF_C07_MIXMEM) has 2-4 GPUs of at least two of the memory sizes 16Gi / 32Gi / 80Gi, four more multi-GPU shapes (ratio 200 / 300; gpu.shared n + bytes; gpu.shared n + core + ratio; gpu.shared n + core + bytes), " +
		"1 in 3 of those directed (two whole GPUs, then byte-only / ratio-only pods); every committed entry is compared with the model's fillGPU (`fill`) and judged by the memory-pair clause. " +
		"non-trivial = at least one pod was reserved; distinct by op list")
}


// ---------------------------------------------------------------------------------------------------------------
// C07 exhaustive small-scope stream (thorough tier): EVERY history of 1..4 ops over 2 RDMA devices (minors 0, 1),
// 2 pods and amounts {0, 50, 100}:
//   add(pod, minor, amount) 12, remove(pod, minor, amount - caller supplied, anything) 12,
//   refresh(total of minor 0, total of minor 1) 9, allocate(request 50|100, nil scorer)+commit for a pod 4   = 37 ops.
// Every prefix of a history is itself a case, so only the FINAL ledger is observed (one op line, one observation
// line per case) and the ledger oracle runs on the last step (before = ledger before the last op).
// ---------------------------------------------------------------------------------------------------------------

type c07XOp struct{ code, a, b, x int }

func TestVerifC07Exhaustive(t *testing.T) {
	h := vOpen("C07")
	if h == nil {
		t.Skip("VERIF_OUT not set")
	}
	var alphabet []c07XOp
	amounts := []int{0, 50, 100}
	for p := 1; p <= 2; p++ {
		for m := 0; m <= 1; m++ {
			for _, a := range amounts {
				alphabet = append(alphabet, c07XOp{0, p, m, a}, c07XOp{1, p, m, a})
			}
		}
	}
	for _, a := range amounts {
		for _, b := range amounts {
			alphabet = append(alphabet, c07XOp{2, a, b, 0})
		}
	}
	for p := 1; p <= 2; p++ {
		for _, q := range []int{50, 100} {
			alphabet = append(alphabet, c07XOp{3, p, q, 0})
		}
	}
	maxLen := vEnvInt("VERIF_C07_XLEN", 4)
	const T = 1 // rdma
	idx := 0
	run := func(hist []c07XOp) {
		r := h.Begin(idx)
		idx++
		if r == nil {
			return
		}
		c := &c07Case{h: h, r: r, cache: newNodeDeviceCache(), exact: true, histX: true, sched: true, cur: &c07Ledger{rows: map[[2]int]*c07Row{}, pods: map[[2]int]map[int]c07Vals{}}}
		for tt := 0; tt < 3; tt++ {
			c.live[tt] = map[int][]c07Alloc{}
		}
		c.inPlay = []int{T}
		c.da[T] = 1
		toks := make([]string, 0, len(hist))
		var allocs []string
		var before *c07Ledger
		kind := ""
		panicked := false
		for _, op := range hist {
			toks = append(toks, fmt.Sprintf("%d %d %d %d", op.code, op.a, op.b, op.x))
			before = c.cur
			if h.Guard(func() {
				switch op.code {
				case 0, 1:
					g := c07Groups{T: []c07Alloc{{minor: op.b, vec: c07Vec{int64(op.x), -1, -1}}}}
					_, isLive := c.live[T][op.a]
					add := op.code == 0
					switch {
					case add && isLive:
						kind = "dup"
					case add:
						kind = "raw-add"
					case isLive:
						kind = "release"
					default:
						kind = "absent"
					}
					if r.Bool() { // Reserve / Unreserve style
						nd := c.cache.getNodeDevice(c07Node, true)
						nd.lock.Lock()
						nd.updateCacheUsed(g.api(), c07Pod(op.a, nil, c07Node), add)
						nd.lock.Unlock()
					} else if add {
						c.cache.onPodAdd(c07Pod(op.a, g.api(), c07Node))
					} else {
						c.cache.onPodDelete(c07Pod(op.a, g.api(), c07Node))
					}
					if add {
						c.noteAdd(T, op.a, g[T], c.cur)
					} else {
						c.noteRemove(T, op.a, g[T])
					}
				case 2:
					kind = "refresh"
					c.inv[T] = []c07Dev{{minor: 0, healthy: true, res: c07Vec{int64(op.a), -1, -1}, numa: -1}, {minor: 1, healthy: true, res: c07Vec{int64(op.b), -1, -1}, numa: -1}}
					c.noteRefresh(c.cur, false)
					dev := &schedulingv1alpha1.Device{ObjectMeta: metav1.ObjectMeta{Name: c07Node}}
					for _, d := range c.inv[T] {
						minor := int32(d.minor)
						dev.Spec.Devices = append(dev.Spec.Devices, schedulingv1alpha1.DeviceInfo{Type: c07Types[T], Minor: &minor, Health: true, Resources: c07RL(T, d.res), UUID: fmt.Sprintf("u-%d", d.minor)})
					}
					c.cache.updateNodeDevice(c07Node, dev)
				default:
					nd := c.cache.getNodeDevice(c07Node, true)
					q := &c07Request{t: T, req: c07Vec{int64(op.b), -1, -1}, desired: 1}
					reqRL := c07RL(T, q.req)
					ctx := &requestContext{
						pod: c07Pod(900, nil, c07Node), node: &corev1.Node{},
						requestsPerInstance:       map[schedulingv1alpha1.DeviceType]corev1.ResourceList{c07Types[T]: reqRL},
						desiredCountPerDeviceType: map[schedulingv1alpha1.DeviceType]int{c07Types[T]: 1},
						required:                  map[schedulingv1alpha1.DeviceType]sets.Int{}, preferred: map[schedulingv1alpha1.DeviceType]sets.Int{},
						nodeDevice: nd,
					}
					nd.lock.RLock()
					al, st := allocateDevices(ctx, nd, c07Types[T], reqRL, 1, nil)
					nd.lock.RUnlock()
					res := c07ResultOf(T, al, !st.IsSuccess())
					c.checkAlloc(q, res, c07Vals{int64(op.b), 0, 0}, 1, 1, true)
					if !res.ok || len(res.minors) == 0 {
						allocs = append(allocs, "-1")
						kind = "absent" // nothing happens to the ledger
						return
					}
					for _, m := range res.minors {
						allocs = append(allocs, strconv.Itoa(m))
					}
					g := c07Groups{T: c.toCommit(q, res)}
					if _, isLive := c.live[T][op.a]; isLive {
						kind = "dup"
					} else {
						kind = "commit"
					}
					nd.lock.Lock()
					nd.updateCacheUsed(g.api(), c07Pod(op.a, nil, c07Node), true)
					nd.lock.Unlock()
					c.noteAdd(T, op.a, g[T], c.cur)
				}
			}) {
				panicked = true
				break
			}
			c.cur = c07Read(c.nd())
		}
		h.Op("xh %d %s", len(hist), strings.Join(toks, " "))
		if panicked {
			h.Obs("panic")
			h.End()
			return
		}
		dev := func(m int) string {
			row := c.cur.row(T, m)
			return fmt.Sprintf("%d %d %d", row.t[0], row.f[0], row.u[0])
		}
		pod := func(p int) string {
			e, ok := c.cur.pods[[2]int{T, p}]
			if !ok {
				return "-"
			}
			ms := make([]int, 0, len(e))
			for m := range e {
				ms = append(ms, m)
			}
			sort.Ints(ms)
			out := strconv.Itoa(len(ms))
			for _, m := range ms {
				out += fmt.Sprintf(" %d %d", m, e[m][0])
			}
			return out
		}
		h.Obs("xh %s %s | %s %s | 1 %d %d | %s", dev(0), dev(1), pod(1), pod(2), vB(c.histX), vB(c.sched), strings.Join(allocs, " "))
		c.checkLedger(kind, before, c.cur)
		c.checkHyp(c.cur)
		h.Tag("last:" + kind)
		if len(hist) >= 2 {
			h.Nontrivial()
		}
		h.End()
	}
	var rec func(hist []c07XOp, n int)
	rec = func(hist []c07XOp, n int) {
		if len(hist) == n {
			run(hist)
			return
		}
		for _, op := range alphabet {
			rec(append(hist, op), n)
		}
	}
	for n := 1; n <= maxLen; n++ {
		rec(make([]c07XOp, 0, n), n)
	}
	h.Extra("exhaustive", fmt.Sprintf("all histories of 1..%d ops over 2 devices x 2 pods x amounts {0,50,100} (alphabet %d): %d cases", maxLen, len(alphabet), idx))
	h.Close("exhaustive enumeration of every history of 1-4 ops over 2 RDMA devices, 2 pods, amounts {0,50,100}: add / remove (caller-supplied) / refresh / allocate+commit; " +
		"final ledger observed, ledger oracle on the last step; non-trivial = at least 2 ops")
}


// ---------------------------------------------------------------------------------------------------------------
// C07 "events" harness: (1) the REAL informer handlers (onPodAdd / onPodUpdate / onPodDelete and, in front of them,
// the reservation handler NewReservationToPodEventHandler(…, IsObjValidActiveReservation) exactly as
// registerPodEventHandler wires them) are driven with objects in every SHAPE client-go produces - the typed object,
// cache.DeletedFinalStateUnknown{Obj: …} BY VALUE - and, in a malformed stream, shapes it never produces (a pointer
// to a tombstone, a tombstone holding another type, nil, an object of another type);
// (2) between the mutating events READ-ONLY pipeline steps run against the live cache: a preemption dry-run
// (PreFilter of a preemptor, RemovePod over >= 3 victims that share GPUs, Filter, AddPod of reprieved victims, Filter)
// and PreRestoreReservation + RestoreReservation over reservations with >= 2 owner pods on one GPU (+ Filter, +
// RemovePod of owner pods).  After EVERY read-only step the whole book is read again.
//
// Oracle (independent of the model): the harness keeps its own record of who holds what (a well-formed add / delete /
// reservation event changes it, garbage does not);
//   * after every step: every live pod's recorded allocation is exactly what the harness recorded (C07:record-ne-live-allocation),
//     plus all clauses of checkLedger (used = sum of live, free = total - used, allocateSet = live);
//   * after a read-only step the book (totals, used, free, per-pod records, with key presence) is bit-for-bit what it
//     was before (C07:readonly-step-changed-book);
//   * after a delete event in a well-formed shape the pod's / reservation's devices are released (C07:delete-not-released:*).
// Reservation tombstones: the filter IsObjValidActiveReservation stands in front of ReservationToPodEventHandler; it
// has to unwrap a tombstone itself (fixed by c70eb65: before, a reservation delete found on re-list was dropped and the
// reserve pod's devices stayed in use for good - fingerprint C07:delete-not-released:reservation-tombstone).
// ---------------------------------------------------------------------------------------------------------------

const (
	c07ShObj = iota
	c07ShTomb
	c07ShPtrTomb
	c07ShTombOther
	c07ShNil
	c07ShOther
)

// the object handed to a handler for the typed object `o` in the given shape
func c07Shaped(shape int, o interface{}, key string) interface{} {
	switch shape {
	case c07ShObj:
		return o
	case c07ShTomb:
		return cache.DeletedFinalStateUnknown{Key: key, Obj: o}
	case c07ShPtrTomb:
		return &cache.DeletedFinalStateUnknown{Key: key, Obj: o}
	case c07ShTombOther:
		return cache.DeletedFinalStateUnknown{Key: key, Obj: &corev1.Node{ObjectMeta: metav1.ObjectMeta{Name: "x"}}}
	case c07ShNil:
		return nil
	default:
		return &corev1.ConfigMap{ObjectMeta: metav1.ObjectMeta{Name: "x"}}
	}
}

func c07EvPodObj(id int, g c07Groups, nodeName string) *corev1.Pod {
	var al apiext.DeviceAllocations
	if len(g) > 0 {
		al = g.api()
	}
	pod := c07Pod(id, al, nodeName)
	pod.UID = types.UID(fmt.Sprintf("uid-%d", id))
	return pod
}

// a Reservation whose reserve pod is named "p<id>" (NewReservePod: name = UID)
func c07RsvObj(id int, g c07Groups, valid, assigned bool, phase schedulingv1alpha1.ReservationPhase, policy schedulingv1alpha1.ReservationAllocatePolicy) *schedulingv1alpha1.Reservation {
	r := &schedulingv1alpha1.Reservation{ObjectMeta: metav1.ObjectMeta{Name: fmt.Sprintf("r%d", id), UID: types.UID(fmt.Sprintf("p%d", id))}}
	r.Spec.Template = &corev1.PodTemplateSpec{}
	rq := corev1.ResourceList{
		apiext.ResourceGPUCore:        *resource.NewQuantity(50, resource.DecimalSI),
		apiext.ResourceGPUMemoryRatio: *resource.NewQuantity(50, resource.DecimalSI),
	}
	r.Spec.Template.Spec.Containers = []corev1.Container{{Name: "c", Resources: corev1.ResourceRequirements{Requests: rq, Limits: rq}}}
	r.Spec.AllocatePolicy = policy
	if valid {
		r.Spec.Owners = []schedulingv1alpha1.ReservationOwner{{Object: &corev1.ObjectReference{Kind: "Pod", Name: "owner"}}}
		r.Spec.TTL = &metav1.Duration{Duration: 30 * time.Minute}
	}
	if len(g) > 0 {
		_ = apiext.SetDeviceAllocations(r, g.api())
	}
	if assigned {
		r.Status.NodeName = c07Node
	}
	r.Status.Phase = phase
	return r
}

func c07DRTok(t int, dr deviceResources) string {
	ms := make([]int, 0, len(dr))
	for m := range dr {
		ms = append(ms, m)
	}
	sort.Ints(ms)
	s := strconv.Itoa(len(ms))
	for _, m := range ms {
		s += fmt.Sprintf(" %d %s", m, c07ValsOf(t, dr[m]).str())
	}
	return s
}

func c07RLBook(rl corev1.ResourceList) string {
	names := make([]string, 0, len(rl))
	for n := range rl {
		names = append(names, string(n))
	}
	sort.Strings(names)
	var sb strings.Builder
	for _, n := range names {
		q := rl[corev1.ResourceName(n)]
		fmt.Fprintf(&sb, "%s=%d;", n, q.Value())
	}
	return sb.String()
}

// the whole book with key presence: per type and minor total / free / used, per pod the allocation record
func c07Book(nd *nodeDevice) string {
	if nd == nil {
		return ""
	}
	sum := nd.getNodeDeviceSummary()
	var lines []string
	dump := func(tag string, m map[schedulingv1alpha1.DeviceType]deviceResources) {
		for dt, dr := range m {
			for minor, rl := range dr {
				lines = append(lines, fmt.Sprintf("%s %s %03d %s", tag, dt, minor, c07RLBook(rl)))
			}
		}
	}
	dump("total", sum.DeviceTotalDetail)
	dump("free", sum.DeviceFreeDetail)
	dump("used", sum.DeviceUsedDetail)
	for dt, pods := range sum.AllocateSet {
		for name, rec := range pods {
			for minor, rl := range rec {
				lines = append(lines, fmt.Sprintf("pod %s %s %03d %s", dt, name, minor, c07RLBook(rl)))
			}
			if len(rec) == 0 {
				lines = append(lines, fmt.Sprintf("pod %s %s -", dt, name))
			}
		}
	}
	sort.Strings(lines)
	return strings.Join(lines, "\n")
}

type c07EvPod struct {
	id  int
	g   c07Groups
	rsv int     // reservation (reserve-pod id) the pod is an owner of; 0 = none
	na  c07NAnn // extension 3: the annotation BY NAME as it sits in the API (deprecated / current resource names); g = its meaning
}

type c07EvRsv struct {
	id     int
	g      c07Groups
	policy schedulingv1alpha1.ReservationAllocatePolicy
	owners []int // every pod ever assigned to it (the reservation cache's AssignedPods); a deleted one has no record
}

type c07EvCase struct {
	*c07Case
	pl      *Plugin
	podH    cache.ResourceEventHandler
	rsvH    cache.ResourceEventHandler
	devH    cache.ResourceEventHandler
	rcache  *frameworkext.FakeReservationCache
	nomin   *frameworkext.FakeNominator
	node    *corev1.Node
	ni      *framework.NodeInfo
	mem     int64
	pods    []*c07EvPod
	rsvs    []*c07EvRsv
	nextRsv int
	roSteps int
	txf     cache.TransformFunc // extension 3: what SetupTransformers installs on the pod informer (every pod event passes it)
	txDev   cache.TransformFunc // … and on the Device informer
	txInv   bool                // Device objects report some devices under deprecated resource names (an old koordlet): op dvtx
}

// the pod informer applies its transform to every object before a handler sees it
func (c *c07EvCase) deliver(o interface{}) interface{} {
	if c.txf == nil {
		return o
	}
	out, err := c.txf(o)
	if err != nil {
		panic(err)
	}
	return out
}

func (c *c07EvCase) deliverDev(o interface{}) interface{} {
	if c.txDev == nil {
		return o
	}
	out, err := c.txDev(o)
	if err != nil {
		panic(err)
	}
	return out
}

// my own record of every live holder, as minor -> values
func (c *c07EvCase) checkRecords(what string, l *c07Ledger) {
	for id, al := range c.live[0] {
		want := map[int]c07Vals{}
		for _, a := range al {
			var v c07Vals
			for k := 0; k < c07D; k++ {
				v[k] = a.vec.val(k)
			}
			want[a.minor] = v // one entry per minor in this harness
		}
		got, ok := l.pods[[2]int{0, id}]
		if !ok {
			continue // reported by checkLedger (allocset-ne-live)
		}
		same := len(got) == len(want)
		for m, v := range want {
			if got[m] != v {
				same = false
			}
		}
		if !same {
			c.h.Fail("C07:record-ne-live-allocation", "%s: holder %d is recorded with %v but holds %v", what, id, got, want)
			return
		}
	}
}

func (c *c07EvCase) afterMutation(kind, what string, before *c07Ledger) {
	c.cur = c.emitLedger()
	c.checkRecords(what, c.cur)
	c.checkLedger(kind, before, c.cur)
}

// a read-only step: run f, read the whole book again, compare
func (c *c07EvCase) readOnly(what string, f func()) bool {
	h := c.h
	nd := c.nd()
	bookBefore := c07Book(nd)
	before := c.cur
	if h.Guard(f) {
		h.Obs("panic")
		return false
	}
	c.roSteps++
	c.cur = c.emitLedger()
	if bookAfter := c07Book(c.nd()); bookAfter != bookBefore {
		h.Fail("C07:readonly-step-changed-book", "%s changed the book of the live cache:\n--- before\n%s\n--- after\n%s", what, bookBefore, bookAfter)
	}
	c.checkRecords(what, c.cur)
	c.checkLedger("absent", before, c.cur)
	return true
}

func (c *c07EvCase) fracVec(amount int64) c07Vec {
	return c07Vec{amount, amount * c.mem / 100, amount}
}

func (c *c07EvCase) healthyMinors() []int {
	var ms []int
	for _, d := range c.inv[0] {
		if d.healthy {
			ms = append(ms, d.minor)
		}
	}
	return ms
}

func (c *c07EvCase) findRsv(id int) *c07EvRsv {
	for _, rv := range c.rsvs {
		if rv.id == id {
			return rv
		}
	}
	return nil
}

func (c *c07EvCase) dropPod(id int) {
	for i, p := range c.pods {
		if p.id == id {
			c.pods = append(c.pods[:i:i], c.pods[i+1:]...)
			return
		}
	}
}

func (c *c07EvCase) dropRsv(id int) {
	for i, rv := range c.rsvs {
		if rv.id == id {
			c.rsvs = append(c.rsvs[:i:i], c.rsvs[i+1:]...)
			return
		}
	}
}

func (c *c07EvCase) rInfo(rv *c07EvRsv) *frameworkext.ReservationInfo {
	ri := frameworkext.NewReservationInfo(c07RsvObj(rv.id, rv.g, true, true, schedulingv1alpha1.ReservationAvailable, rv.policy))
	for _, o := range rv.owners {
		ri.AddAssignedPod(c07EvPodObj(o, nil, c07Node))
	}
	return ri
}

// fields the handlers must NOT look at: a deleted object usually carries a DeletionTimestamp, a live pod may be
// Pending / Running / terminating, carry labels, a resourceVersion …
func (c *c07EvCase) decorate(pod *corev1.Pod, deleting bool) *corev1.Pod {
	r := c.r
	if r.Chance(1, 2) == deleting || r.Chance(1, 6) {
		now := metav1.NewTime(time.Unix(1700000000, 0))
		pod.DeletionTimestamp = &now
		g := int64(30)
		pod.DeletionGracePeriodSeconds = &g
		c.h.Tag("object:deletion-timestamp")
	}
	switch r.Intn(4) {
	case 0:
		pod.Status.Phase = corev1.PodPending
	case 1:
		pod.Status.Phase = corev1.PodRunning
	case 2:
		if deleting { // deletePod does not care whether the pod had terminated
			if r.Bool() {
				pod.Status.Phase = corev1.PodFailed
			} else {
				pod.Status.Phase = corev1.PodSucceeded
			}
		}
	}
	if r.Bool() {
		pod.Labels = map[string]string{"app": "x"}
		pod.ResourceVersion = strconv.Itoa(r.Range(1, 999))
	}
	return pod
}

func (c *c07EvCase) decorateRsv(rv *schedulingv1alpha1.Reservation, deleting bool) *schedulingv1alpha1.Reservation {
	if c.r.Chance(1, 2) == deleting {
		now := metav1.NewTime(time.Unix(1700000000, 0))
		rv.DeletionTimestamp = &now
	}
	if c.r.Bool() {
		rv.Labels = map[string]string{"app": "x"}
	}
	return rv
}

// ---- mutating events ----

func (c *c07EvCase) evPodAdd(shape int, p *c07EvPod) {
	h := c.h
	if p.na != nil && shape == c07ShObj {
		c.evPodTx(0, shape, p, false)
		return
	}
	h.Op("evadd %d %d 1 0 %s", shape, p.id, p.g.tok())
	before := c.cur
	if h.Guard(func() {
		c.podH.OnAdd(c.deliver(c07Shaped(shape, c.decorate(c07EvPodObj(p.id, p.g, c07Node), false), "default/p")), false)
	}) {
		h.Obs("panic")
		return
	}
	h.Tag(fmt.Sprintf("event:pod-add:shape%d", shape))
	kind := "absent"
	if shape == c07ShObj {
		kind = "raw-add"
		for _, t := range p.g.types() {
			c.noteAdd(t, p.id, p.g[t], before)
		}
		known := false
		for _, q := range c.pods {
			known = known || q.id == p.id
		}
		if !known {
			c.pods = append(c.pods, p)
		}
		if p.rsv != 0 && !known {
			if rv := c.findRsv(p.rsv); rv != nil {
				rv.owners = append(rv.owners, p.id)
			}
		}
	}
	c.afterMutation(kind, "pod add", before)
}

func (c *c07EvCase) evPodUpdate(so, sn int, p *c07EvPod, terminated bool) {
	h := c.h
	if p.na != nil && so == c07ShObj && sn == c07ShObj {
		c.evPodTx(1, c07ShObj, p, terminated)
		return
	}
	h.Op("evupd %d %d %d 1 1 %d %s %s", so, sn, p.id, vB(terminated), p.g.tok(), p.g.tok())
	before := c.cur
	mid := before
	if so == c07ShObj && sn == c07ShObj && !terminated {
		mid = c.midLedger(p.id, p.g.api())
	}
	if h.Guard(func() {
		np := c.decorate(c07EvPodObj(p.id, p.g, c07Node), false)
		if terminated {
			np.Status.Phase = corev1.PodSucceeded
		}
		c.podH.OnUpdate(c.deliver(c07Shaped(so, c.decorate(c07EvPodObj(p.id, p.g, c07Node), false), "default/p")), c.deliver(c07Shaped(sn, np, "default/p")))
	}) {
		h.Obs("panic")
		return
	}
	h.Tag(fmt.Sprintf("event:pod-update:shape%d-%d", so, sn))
	kind := "absent"
	if so == c07ShObj && sn == c07ShObj {
		kind = "release"
		for _, t := range p.g.types() {
			c.noteRemove(t, p.id, p.g[t])
			if !terminated {
				c.noteAdd(t, p.id, p.g[t], mid)
			}
		}
		if terminated {
			c.dropPod(p.id)
		}
	}
	c.afterMutation(kind, "pod update", before)
}

func (c *c07EvCase) evPodDelete(shape int, p *c07EvPod) {
	h := c.h
	if p.na != nil && (shape == c07ShObj || shape == c07ShTomb) {
		c.evPodTx(2, shape, p, false)
		return
	}
	h.Op("evdel %d %d 1 %s", shape, p.id, p.g.tok())
	before := c.cur
	if h.Guard(func() {
		c.podH.OnDelete(c.deliver(c07Shaped(shape, c.decorate(c07EvPodObj(p.id, p.g, c07Node), true), fmt.Sprintf("default/p%d", p.id))))
	}) {
		h.Obs("panic")
		return
	}
	h.Tag(fmt.Sprintf("event:pod-delete:shape%d", shape))
	kind := "absent"
	wellFormed := shape == c07ShObj || shape == c07ShTomb
	_, wasLive := c.live[0][p.id]
	if wellFormed {
		kind = "release"
		for _, t := range p.g.types() {
			c.noteRemove(t, p.id, p.g[t])
		}
		c.dropPod(p.id)
	}
	c.cur = c.emitLedger()
	if wellFormed && wasLive {
		if _, still := c.cur.pods[[2]int{0, p.id}]; still {
			what := "pod-object"
			if shape == c07ShTomb {
				what = "pod-tombstone"
			}
			h.Fail("C07:delete-not-released:"+what, "pod %d was deleted (delivered as %s) but its devices are still recorded as in use", p.id, what)
		}
	}
	c.checkRecords("pod delete", c.cur)
	c.checkLedger(kind, before, c.cur)
}

// an event whose device-allocated annotation is not JSON (kind 0 add, 1 update with a bad NEW annotation, 2 update with
// a bad OLD annotation, 3 delete): the handlers give up before touching the ledger
func (c *c07EvCase) evPodBad(kind int, p *c07EvPod) {
	h := c.h
	h.Op("evbad %d %d", kind, p.id)
	before := c.cur
	good := func() *corev1.Pod { return c.decorate(c07EvPodObj(p.id, p.g, c07Node), kind == 3) }
	bad := func() *corev1.Pod {
		pod := good()
		pod.Annotations[apiext.AnnotationDeviceAllocated] = "{\"gpu\": [ {\"minor\": "
		return pod
	}
	if h.Guard(func() {
		switch kind {
		case 0:
			c.podH.OnAdd(bad(), false)
		case 1:
			c.podH.OnUpdate(good(), bad())
		case 2:
			c.podH.OnUpdate(bad(), good())
		default:
			c.podH.OnDelete(bad())
		}
	}) {
		h.Obs("panic")
		return
	}
	h.Tag(fmt.Sprintf("event:pod-unparsable-annotation:%d", kind))
	c.afterMutation("absent", "unparsable annotation", before)
}

func c07Phase(active, terminated bool) schedulingv1alpha1.ReservationPhase {
	switch {
	case terminated:
		return schedulingv1alpha1.ReservationSucceeded
	case active:
		return schedulingv1alpha1.ReservationAvailable
	default:
		return schedulingv1alpha1.ReservationPending
	}
}

// reservation add: valid / assigned / phase decide whether the filter lets it through
func (c *c07EvCase) evRsvAdd(shape int, rv *c07EvRsv, valid, assigned, available bool) {
	h := c.h
	active := assigned && available
	h.Op("rvadd %d %d %d %d %d 0 %s", shape, rv.id, vB(valid), vB(active), vB(assigned), rv.g.tok())
	before := c.cur
	if h.Guard(func() {
		c.rsvH.OnAdd(c07Shaped(shape, c.decorateRsv(c07RsvObj(rv.id, rv.g, valid, assigned, c07Phase(available, false), rv.policy), false), "r"), false)
	}) {
		h.Obs("panic")
		return
	}
	h.Tag(fmt.Sprintf("event:rsv-add:shape%d", shape))
	kind := "absent"
	if shape == c07ShObj && valid && active {
		kind = "raw-add"
		for _, t := range rv.g.types() {
			c.noteAdd(t, rv.id, rv.g[t], before)
		}
		if c.findRsv(rv.id) == nil {
			c.rsvs = append(c.rsvs, rv)
		}
	} else {
		h.Tag("event:rsv-add:filtered")
	}
	c.afterMutation(kind, "reservation add", before)
}

// reservation update of a live (valid, active) reservation: same object again, or it becomes Succeeded (=> released)
func (c *c07EvCase) evRsvUpdate(rv *c07EvRsv, succeeded bool) {
	h := c.h
	h.Op("rvupd 0 0 %d 1 1 1 0 1 %d 1 %d %s %s", rv.id, vB(!succeeded), vB(succeeded), rv.g.tok(), rv.g.tok())
	before := c.cur
	mid := before
	if !succeeded {
		mid = c.midLedger(rv.id, rv.g.api())
	}
	if h.Guard(func() {
		c.rsvH.OnUpdate(c07RsvObj(rv.id, rv.g, true, true, schedulingv1alpha1.ReservationAvailable, rv.policy),
			c07RsvObj(rv.id, rv.g, true, true, c07Phase(true, succeeded), rv.policy))
	}) {
		h.Obs("panic")
		return
	}
	h.Tag(fmt.Sprintf("event:rsv-update:succeeded%d", vB(succeeded)))
	for _, t := range rv.g.types() {
		c.noteRemove(t, rv.id, rv.g[t])
		if !succeeded {
			c.noteAdd(t, rv.id, rv.g[t], mid)
		}
	}
	if succeeded {
		c.dropRsv(rv.id)
	}
	c.cur = c.emitLedger()
	if succeeded {
		if _, still := c.cur.pods[[2]int{0, rv.id}]; still {
			h.Fail("C07:delete-not-released:reservation-succeeded", "reservation %d became Succeeded but its devices are still recorded as in use", rv.id)
		}
	}
	c.checkRecords("reservation update", c.cur)
	c.checkLedger("release", before, c.cur)
}

func (c *c07EvCase) evRsvDelete(shape int, rv *c07EvRsv) {
	h := c.h
	h.Op("rvdel %d %d 1 1 1 0 %s", shape, rv.id, rv.g.tok())
	before := c.cur
	if h.Guard(func() {
		c.rsvH.OnDelete(c07Shaped(shape, c.decorateRsv(c07RsvObj(rv.id, rv.g, true, true, schedulingv1alpha1.ReservationAvailable, rv.policy), true), fmt.Sprintf("r%d", rv.id)))
	}) {
		h.Obs("panic")
		return
	}
	h.Tag(fmt.Sprintf("event:rsv-delete:shape%d", shape))
	kind := "absent"
	released := false
	switch {
	case shape == c07ShObj:
		released = true
	case shape == c07ShTomb: // a tombstone is a delete
		released = true
	}
	if released {
		kind = "release"
		for _, t := range rv.g.types() {
			c.noteRemove(t, rv.id, rv.g[t])
		}
		c.dropRsv(rv.id)
	}
	c.cur = c.emitLedger()
	if released {
		if _, still := c.cur.pods[[2]int{0, rv.id}]; still {
			what := "reservation-object"
			if shape == c07ShTomb {
				what = "reservation-tombstone"
			}
			h.Fail("C07:delete-not-released:"+what, "reservation %d was deleted (delivered as %s) but its devices are still recorded as in use", rv.id, what)
		}
	}
	c.checkRecords("reservation delete", c.cur)
	c.checkLedger(kind, before, c.cur)
}

// Device informer event (kind 0 add, 1 update, 2 delete) in the given shapes; the API object is c.inv
func (c *c07EvCase) evDevice(kind, sa, sb int) {
	h := c.h
	dev := &schedulingv1alpha1.Device{ObjectMeta: metav1.ObjectMeta{Name: c07Node}}
	invalidate := kind == 2
	var toks []string
	for t := 0; t < 3; t++ {
		for _, d := range c.inv[t] {
			minor := int32(d.minor)
			rl := c07RL(t, d.res)
			leg, cur := c07Absent, d.res
			if c.txInv && c.r.Bool() { // this DeviceInfo is reported with deprecated names (all, or only some dimensions)
				rl, leg, cur = c07LegacyRL(c.r, t, d.res)
				h.Tag("tx:device-info-with-deprecated-names")
			}
			dev.Spec.Devices = append(dev.Spec.Devices, schedulingv1alpha1.DeviceInfo{Type: c07Types[t], Minor: &minor, Health: d.healthy, Resources: rl, UUID: fmt.Sprintf("u-%d-%d", t, d.minor)})
			if !d.healthy || invalidate {
				leg, cur = c07Absent, c07Absent
			}
			if c.txInv {
				toks = append(toks, fmt.Sprintf("%d %d %s %s", t, d.minor, leg.tok(), cur.tok()))
			} else {
				toks = append(toks, fmt.Sprintf("%d %d %s", t, d.minor, cur.tok()))
			}
		}
	}
	decoded := (kind == 0 && sa == c07ShObj) || (kind == 1 && sa == c07ShObj && sb == c07ShObj) || (kind == 2 && (sa == c07ShObj || sa == c07ShTomb))
	if c.txInv {
		h.Op("dvtx %d %d %d %d %s", kind, sa, sb, len(toks), strings.Join(toks, " "))
	} else {
		h.Op("dvref %d %d %d %d %s", kind, sa, sb, len(toks), strings.Join(toks, " "))
	}
	before := c.cur
	if decoded {
		c.noteRefresh(before, invalidate)
	}
	if c.r.Bool() {
		now := metav1.NewTime(time.Unix(1700000000, 0))
		dev.DeletionTimestamp = &now
	}
	if h.Guard(func() {
		switch kind {
		case 0:
			c.devH.OnAdd(c.deliverDev(c07Shaped(sa, dev, c07Node)), false)
		case 1:
			c.devH.OnUpdate(c.deliverDev(c07Shaped(sa, dev.DeepCopy(), c07Node)), c.deliverDev(c07Shaped(sb, dev, c07Node)))
		default:
			c.devH.OnDelete(c.deliverDev(c07Shaped(sa, dev, c07Node)))
		}
	}) {
		h.Obs("panic")
		return
	}
	h.Tag(fmt.Sprintf("event:device:%d:shape%d-%d", kind, sa, sb))
	if decoded && kind != 2 {
		c.infoMin[0] = nil
		for _, d := range c.inv[0] {
			c.infoMin[0] = append(c.infoMin[0], d.minor)
		}
	}
	c.cur = c.emitLedger()
	c.checkRecords("device event", c.cur)
	if !decoded {
		c.checkLedger("absent", before, c.cur)
		return
	}
	c.checkLedger("refresh", before, c.cur)
	for _, d := range c.inv[0] {
		var want c07Vals
		if d.healthy && !invalidate {
			for k := 0; k < c07D; k++ {
				want[k] = d.res.val(k)
			}
		}
		if got := c.cur.row(0, d.minor).t; got != want {
			fp := "C07:refresh-total"
			if invalidate {
				fp = "C07:device-delete-not-invalidated"
			}
			h.Fail(fp, "device event kind %d (shapes %d %d): GPU %d total %v want %v", kind, sa, sb, d.minor, got, want)
		}
	}
}

// ---- read-only cycles ----

type c07Cycle struct {
	cs        fwktype.CycleState
	pod       *corev1.Pod
	req       c07Vec
	cnt       int
	restored  bool
	preFilter bool
}

func (c *c07EvCase) beginCycle() *c07Cycle {
	h, r := c.h, c.r
	cy := &c07Cycle{cs: framework.NewCycleState(), cnt: 1}
	amount := int64(r.Pick([]int64{20, 50, 80, 100, 100}))
	cy.req = c07Vec{amount, -1, amount}
	podReq := corev1.ResourceList{
		apiext.ResourceGPUCore:        *resource.NewQuantity(amount, resource.DecimalSI),
		apiext.ResourceGPUMemoryRatio: *resource.NewQuantity(amount, resource.DecimalSI),
	}
	cy.pod = c07EvPodObj(900, nil, "")
	if r.Chance(1, 5) {
		cy.pod.Labels = map[string]string{apiext.LabelReservationIgnored: "true"}
		h.Tag("ro:preemptor-ignores-reservations")
	}
	cy.pod.Spec.Containers = []corev1.Container{{Name: "c", Resources: corev1.ResourceRequirements{Requests: podReq, Limits: podReq}}}
	h.Op("robegin")
	c.readOnly("PreFilter", func() {
		_, st := c.pl.PreFilter(context.TODO(), cy.cs, cy.pod, nil)
		cy.preFilter = st.IsSuccess()
	})
	h.Tag("ro:PreFilter")
	return cy
}

func (c *c07EvCase) obsDry(cy *c07Cycle) {
	h := c.h
	state, st := getPreFilterState(cy.cs)
	if !st.IsSuccess() {
		h.Obs("q ?")
		return
	}
	h.Obs("q %s", c07DRTok(0, state.preemptibleDevices[c07Node][schedulingv1alpha1.GPU]))
	type ent struct {
		id int
		dr deviceResources
	}
	var es []ent
	for uid, m := range state.preemptibleInRRs[c07Node] {
		id, err := strconv.Atoi(strings.TrimPrefix(string(uid), "p"))
		if err != nil {
			id = 999
		}
		if dr := m[schedulingv1alpha1.GPU]; len(dr) > 0 {
			es = append(es, ent{id, dr})
		}
	}
	sort.Slice(es, func(i, j int) bool { return es[i].id < es[j].id })
	for _, e := range es {
		h.Obs("qr %d %s", e.id, c07DRTok(0, e.dr))
	}
}

// Plugin.RemovePod / AddPod of a (possibly no longer live) pod; rsvID = what the reservation cache answers for it
func (c *c07EvCase) dryPod(cy *c07Cycle, remove bool, id int, rsvID int) {
	h := c.h
	rv := c.findRsv(rsvID)
	if remove {
		h.Op("rorm %d %d %d", id, vB(rv != nil), rsvID)
	} else {
		h.Op("roadd %d %d %d", id, vB(rv != nil), rsvID)
	}
	victim := c07EvPodObj(id, nil, c07Node)
	c.rcache.RInfo = nil
	viaNominator := false
	if rv != nil {
		if c.nomin != nil && c.r.Chance(1, 3) { // the reservation cache does not know the pod, the nominator does
			c.nomin.AddNominatedReservation(victim, c07Node, c.rInfo(rv))
			viaNominator = true
			h.Tag("ro:reservation-from-nominator")
		} else {
			c.rcache.RInfo = c.rInfo(rv)
		}
	}
	pi, _ := framework.NewPodInfo(victim)
	ok := c.readOnly("RemovePod/AddPod", func() {
		if remove {
			c.pl.RemovePod(context.TODO(), cy.cs, cy.pod, pi, c.ni)
		} else {
			c.pl.AddPod(context.TODO(), cy.cs, cy.pod, pi, c.ni)
		}
	})
	c.rcache.RInfo = nil
	if viaNominator {
		c.nomin.RemoveNominatedReservations(victim)
	}
	if !ok {
		return
	}
	if remove {
		h.Tag("ro:RemovePod")
	} else {
		h.Tag("ro:AddPod")
	}
	if rv != nil {
		h.Tag("ro:victim-in-reservation")
	}
	c.obsDry(cy)
}

func (c *c07EvCase) dryFilter(cy *c07Cycle) {
	h := c.h
	if cy.restored {
		// with a restore state Filter goes through tryAllocateFromReusable: run for its (absent) effect on the book only
		h.Op("roany")
		c.readOnly("Filter (restore state)", func() { c.pl.Filter(context.TODO(), cy.cs, cy.pod, c.ni) })
		h.Tag("ro:Filter-with-restore-state")
		return
	}
	h.Op("rofil %d %s %d %s", vB(len(c.infoMin[0]) > 0), c07IntsTok(c.infoMin[0]), cy.cnt, cy.req.tok())
	var st *fwktype.Status
	if !c.readOnly("Filter", func() { st = c.pl.Filter(context.TODO(), cy.cs, cy.pod, c.ni) }) {
		return
	}
	h.Obs("filter %d", vB(st.IsSuccess()))
	h.Tag(fmt.Sprintf("ro:Filter:%d", vB(st.IsSuccess())))
	// oracle: the preemptor fits iff some GPU has request <= total - (used - what the removed victims hold there);
	// evaluated on the implementation's own preemptible map and the value ledger
	state, pst := getPreFilterState(cy.cs)
	if !pst.IsSuccess() {
		return
	}
	pre := state.preemptibleDevices[c07Node][schedulingv1alpha1.GPU]
	// the clause reads "preemptible" as an amount victims give back: armed when no entry is negative (an AddPod that
	// does not mirror an earlier RemovePod drives entries negative; calcFreeWithPreemptible then falls back to the plain
	// free amount when its own result is zero - compared with the model, not judged here)
	for _, rl := range pre {
		for _, q := range rl {
			if q.Sign() < 0 {
				h.Tag("ro:Filter:negative-preemptible")
				return
			}
		}
	}
	fits := false
	for _, d := range c.inv[0] {
		row := c.cur.row(0, d.minor)
		if row.t == (c07Vals{}) {
			continue
		}
		p := c07ValsOf(0, pre[d.minor])
		ok := true
		for k := 0; k < c07D; k++ {
			if cy.req.val(k) > c07Max0(row.t[k]-c07Max0(row.u[k]-p[k])) {
				ok = false
			}
		}
		fits = fits || ok
	}
	if fits != st.IsSuccess() {
		h.Fail("C07:dry-run-filter-verdict", "Filter of a preemptor requesting %v answered %v although fits=%v on total - (used - preemptible)", cy.req, st, fits)
	}
}

// further pipeline steps that read the cache with the cycle's state; their results are not modelled (`roany`), the book
// must come out unchanged: Score, FilterNominateReservation, ScoreReservation
func (c *c07EvCase) dryOther(cy *c07Cycle) {
	h, r := c.h, c.r
	h.Op("roany")
	c.readOnly("Score", func() { c.pl.Score(context.TODO(), cy.cs, cy.pod, c.ni) })
	h.Tag("ro:Score")
	if len(c.rsvs) == 0 {
		return
	}
	ri := c.rInfo(c.rsvs[r.Intn(len(c.rsvs))])
	h.Op("roany")
	c.readOnly("FilterNominateReservation", func() { c.pl.FilterNominateReservation(context.TODO(), cy.cs, cy.pod, ri, c07Node) })
	h.Tag("ro:FilterNominateReservation")
	if r.Bool() {
		h.Op("roany")
		c.readOnly("ScoreReservation", func() { c.pl.ScoreReservation(context.TODO(), cy.cs, cy.pod, ri, c07Node) })
		h.Tag("ro:ScoreReservation")
	}
}

// a pre-allocation cycle: the live pods are the pre-allocatable pods of a reservation being scheduled
func (c *c07EvCase) preAllocationCycle(rv *c07EvRsv) {
	h := c.h
	cy := c.beginCycle()
	if !cy.preFilter {
		return
	}
	ri := c.rInfo(rv)
	var pods []*corev1.Pod
	for _, pp := range c.pods {
		pods = append(pods, c07EvPodObj(pp.id, nil, c07Node))
	}
	h.Op("roany")
	c.readOnly("RestoreReservationPreAllocation", func() {
		c.pl.PreRestoreReservationPreAllocation(context.TODO(), cy.cs, ri)
		c.pl.RestoreReservationPreAllocation(context.TODO(), cy.cs, ri, pods, c.ni)
	})
	h.Tag("ro:RestoreReservationPreAllocation")
	cy.restored = true
	c.dryFilter(cy)
	h.Op("roany")
	c.readOnly("FilterNominateReservation (pre-allocation)", func() {
		c.pl.FilterNominateReservation(context.TODO(), cy.cs, cy.pod, ri, c07Node)
	})
}

func (c *c07EvCase) rsvListTok(l []*c07EvRsv) string {
	s := strconv.Itoa(len(l))
	for _, rv := range l {
		s += fmt.Sprintf(" %d %s", rv.id, c07IntsTok(rv.owners))
	}
	return s
}

func (c *c07EvCase) restore(cy *c07Cycle, matched, unmatched []*c07EvRsv) {
	h := c.h
	h.Op("rorst %s %s", c.rsvListTok(matched), c.rsvListTok(unmatched))
	var ms, us []*frameworkext.ReservationInfo
	for _, rv := range matched {
		ms = append(ms, c.rInfo(rv))
	}
	for _, rv := range unmatched {
		us = append(us, c.rInfo(rv))
	}
	var out interface{}
	if !c.readOnly("RestoreReservation", func() {
		c.pl.PreRestoreReservation(context.TODO(), cy.cs, cy.pod)
		out, _ = c.pl.RestoreReservation(context.TODO(), cy.cs, cy.pod, ms, us, c.ni)
	}) {
		return
	}
	cy.restored = true
	h.Tag("ro:RestoreReservation")
	rs, _ := out.(*nodeReservationRestoreStateData)
	if rs == nil {
		h.Obs("restore nil")
		return
	}
	gpu := schedulingv1alpha1.GPU
	side := func(n int, l []reusableAlloc) {
		for _, a := range l {
			id, err := strconv.Atoi(strings.TrimPrefix(a.rInfo.Pod.Name, "p"))
			if err != nil {
				id = 999
			}
			h.Obs("ra %d %d %s", n, id, c07DRTok(0, a.allocatable[gpu]))
			h.Obs("rb %d %d %s", n, id, c07DRTok(0, a.allocated[gpu]))
			h.Obs("rc %d %d %s", n, id, c07DRTok(0, a.remained[gpu]))
			if len(a.rInfo.AssignedPods) >= 2 {
				h.Tag("ro:restore:owners>=2")
			}
		}
	}
	side(0, rs.matched)
	side(1, rs.unmatched)
	h.Obs("rm 0 %s", c07DRTok(0, rs.mergedMatchedAllocatable[gpu]))
	h.Obs("rm 1 %s", c07DRTok(0, rs.mergedMatchedAllocated[gpu]))
	h.Obs("rm 2 %s", c07DRTok(0, rs.mergedUnmatchedUsed[gpu]))
}

func TestVerifC07Events(t *testing.T) {
	h := vOpen("C07")
	if h == nil {
		t.Skip("VERIF_OUT not set")
	}
	node := &corev1.Node{ObjectMeta: metav1.ObjectMeta{Name: c07Node}}
	suit := newPluginTestSuit(t, []*corev1.Node{node})
	p, err := suit.proxyNew(context.TODO(), getDefaultArgs(), suit.Framework)
	if err != nil {
		t.Fatalf("plugin: %v", err)
	}
	pl := p.(*Plugin)
	rcache, _ := pl.handle.GetReservationCache().(*frameworkext.FakeReservationCache)
	if rcache == nil {
		t.Fatalf("fixture: no FakeReservationCache")
	}
	nodeInfo := framework.NewNodeInfo()
	nodeInfo.SetNode(node)

	n := h.N(500, 10000)
	for idx := 0; idx < n; idx++ {
		r := h.Begin(idx)
		if r == nil {
			continue
		}
		pl.nodeDeviceCache = newNodeDeviceCache()
		rcache.RInfo = nil
		base := &c07Case{h: h, r: r, cache: pl.nodeDeviceCache, exact: true, histX: true, sched: true, nextPod: 1, cur: &c07Ledger{rows: map[[2]int]*c07Row{}, pods: map[[2]int]map[int]c07Vals{}}}
		for tt := 0; tt < 3; tt++ {
			base.live[tt] = map[int][]c07Alloc{}
		}
		base.inPlay = []int{0}
		base.da[0] = 3
		c := &c07EvCase{c07Case: base, pl: pl, rcache: rcache, node: node, ni: nodeInfo, nextRsv: 500}
		c.nomin, _ = pl.handle.GetReservationNominator().(*frameworkext.FakeNominator)
		// the handlers, wired as registerPodEventHandler does (tie_event_wiring checks the source)
		podH := cache.ResourceEventHandlerFuncs{AddFunc: c.cache.onPodAdd, UpdateFunc: c.cache.onPodUpdate, DeleteFunc: c.cache.onPodDelete}
		c.podH = podH
		c.rsvH = reservationutil.NewReservationToPodEventHandler(podH, reservationutil.IsObjValidActiveReservation)
		c.devH = cache.ResourceEventHandlerFuncs{AddFunc: c.cache.onDeviceAdd, UpdateFunc: c.cache.onDeviceUpdate, DeleteFunc: c.cache.onDeviceDelete}
		c.txf, c.txDev = c07Transforms()
		malformed := r.Chance(1, 4)
		// extension 3: 1 case in 3 has pods whose device-allocated annotation was written with DEPRECATED resource names
		// (kubernetes.io/gpu-core …, 1-3 GPU entries, optionally an RDMA entry, mixed with current names); the node then
		// also reports RDMA devices
		txCase := r.Chance(1, 3)
		if txCase {
			h.Tag("stream:deprecated-names")
			c.txInv = true
		}
		if malformed {
			h.Tag("stream:malformed-shapes")
		} else {
			h.Tag("stream:well-formed")
		}
		ng := r.Range(2, 4)
		perm := r.Perm(6)
		c.mem = int64(r.Pick([]int64{16 << 30, 80 << 30}))
		for i := 0; i < ng; i++ {
			c.inv[0] = append(c.inv[0], c07Dev{minor: perm[i], healthy: i < 2 || !r.Chance(1, 8), res: c07Vec{100, c.mem, 100}, numa: -1})
		}
		sort.Slice(c.inv[0], func(i, j int) bool { return c.inv[0][i].minor < c.inv[0][j].minor })
		if txCase {
			for i, k := 0, r.Range(1, 2); i < k; i++ {
				c.inv[1] = append(c.inv[1], c07Dev{minor: i, healthy: true, res: c07Vec{100, -1, -1}, numa: -1})
			}
		}
		early := r.Intn(8) // 0: a pod delete, 1: a pod add arrives before the node's Device object was ever seen
		if early > 1 {
			c.applyInventory(false)
		}

		garbage := func() int { return int(r.Pick([]int64{c07ShPtrTomb, c07ShTombOther, c07ShNil, c07ShOther})) }
		newPod := func(rsvID int) *c07EvPod {
			id := c.nextPod
			c.nextPod++
			ms := c.healthyMinors()
			if len(ms) == 0 { // every GPU is unhealthy right now: the pod lands on one anyway (a raw informer add)
				ms = []int{c.inv[0][0].minor}
			}
			if rv := c.findRsv(rsvID); rv != nil { // an owner pod sits on its reservation's GPUs
				ms = nil
				for _, a := range rv.g[0] {
					ms = append(ms, a.minor)
				}
			}
			g := c07Groups{0: nil}
			k := 1
			if len(ms) > 1 && r.Chance(1, 4) {
				k = 2
			}
			tx := txCase && r.Chance(2, 3)
			if tx { // 1-3 GPU entries, half of the pods also hold an RDMA device
				k = r.Range(1, 3)
				if k > len(ms) {
					k = len(ms)
				}
			}
			pm := r.Perm(len(ms))
			for i := 0; i < k; i++ {
				g[0] = append(g[0], c07Alloc{minor: ms[pm[i]], vec: c.fracVec(int64(r.Pick([]int64{10, 10, 20, 25, 30})))})
			}
			if tx {
				if len(c.inv[1]) > 0 && r.Bool() {
					g[1] = []c07Alloc{{minor: c.inv[1][r.Intn(len(c.inv[1]))].minor, vec: c07Vec{int64(r.Pick([]int64{5, 10, 20})), -1, -1}}}
				}
				// a dimension under BOTH names is generated by the transform-exhaustive harness only: the transformer leaves the
				// deprecated key in place, the handlers book it, and although no observation reads it, it keeps entries that are
				// all-zero under the current names alive in the dry-run / restore arithmetic (seen once in 10,000 thorough cases)
				na := c07GenNAnn(r, g, false, h)
				return &c07EvPod{id: id, g: na.sem(), rsv: rsvID, na: na}
			}
			return &c07EvPod{id: id, g: g, rsv: rsvID}
		}
		newRsv := func() *c07EvRsv {
			id := c.nextRsv
			c.nextRsv++
			ms := c.healthyMinors()
			if len(ms) == 0 {
				ms = []int{c.inv[0][0].minor}
			}
			g := c07Groups{0: nil}
			k := 1
			if len(ms) > 1 && r.Chance(1, 3) {
				k = 2
			}
			pm := r.Perm(len(ms))
			for i := 0; i < k; i++ {
				g[0] = append(g[0], c07Alloc{minor: ms[pm[i]], vec: c.fracVec(int64(r.Pick([]int64{40, 50, 60, 100})))})
			}
			pol := schedulingv1alpha1.ReservationAllocatePolicyDefault
			switch r.Intn(3) {
			case 1:
				pol = schedulingv1alpha1.ReservationAllocatePolicyAligned
			case 2:
				pol = schedulingv1alpha1.ReservationAllocatePolicyRestricted
			}
			return &c07EvRsv{id: id, g: g, policy: pol}
		}
		if early <= 1 {
			np := newPod(0)
			if early == 0 {
				sh := c07ShObj
				if r.Bool() {
					sh = c07ShTomb
				}
				c.evPodDelete(sh, np) // the node is unknown to the cache: nothing to release
				c.nextPod--
				h.Tag("op:pod-delete-before-inventory")
			} else {
				c.evPodAdd(c07ShObj, np)
				h.Tag("op:pod-add-before-inventory")
			}
			c.applyInventory(false)
		}
		// warm-up: a few pods so that read-only cycles have victims that share GPUs
		for i, k := 0, r.Range(2, 4); i < k; i++ {
			c.evPodAdd(c07ShObj, newPod(0))
		}
		if r.Chance(2, 5) { // a reservation with two or three owner pods on its GPUs
			rv := newRsv()
			c.evRsvAdd(c07ShObj, rv, true, true, true)
			for i, k := 0, r.Range(2, 3); i < k; i++ {
				c.evPodAdd(c07ShObj, newPod(rv.id))
			}
			h.Tag("warmup:reservation-with-owners")
		}
		steps := r.Range(5, 11)
		if h.Tier == "thorough" && r.Chance(1, 10) {
			steps = r.Range(11, 24)
		}
		deletes := 0
		for s := 0; s < steps; s++ {
			x := r.Intn(100)
			switch {
			case x < 18: // a pod appears (plain, or an owner of a live reservation)
				rsvID := 0
				if len(c.rsvs) > 0 && r.Chance(2, 3) {
					rsvID = c.rsvs[r.Intn(len(c.rsvs))].id
				}
				np := newPod(rsvID)
				if malformed && r.Chance(1, 4) {
					c.evPodAdd(garbage(), np)
					c.nextPod-- // nothing happened
					continue
				}
				c.evPodAdd(c07ShObj, np)
				if rsvID != 0 {
					h.Tag("op:owner-pod-add")
				}
			case x < 26: // a reservation becomes available (or an event the filter must drop)
				rv := newRsv()
				switch {
				case malformed && r.Chance(1, 4):
					sh := garbage()
					if r.Chance(1, 3) {
						sh = c07ShTomb // passes the (unwrapping) filter, but OnAdd takes the typed object only
					}
					c.evRsvAdd(sh, rv, true, true, true)
				case r.Chance(1, 6):
					c.evRsvAdd(c07ShObj, rv, r.Bool(), r.Bool(), r.Bool())
				default:
					c.evRsvAdd(c07ShObj, rv, true, true, true)
				}
			case x < 33: // pod update: resync with the same annotation, or the pod terminated
				if len(c.pods) == 0 {
					continue
				}
				pp := c.pods[r.Intn(len(c.pods))]
				if malformed && r.Chance(1, 2) {
					c.evPodBad(r.Intn(4), pp)
					continue
				}
				if malformed && r.Chance(1, 3) {
					so, sn := c07ShObj, garbage()
					if r.Bool() {
						so, sn = sn, so
					}
					c.evPodUpdate(so, sn, pp, r.Bool())
					continue
				}
				term := r.Chance(1, 3)
				c.evPodUpdate(c07ShObj, c07ShObj, pp, term)
				if term {
					deletes++
				}
			case x < 48: // pod delete in one of the delivery shapes
				if len(c.pods) == 0 {
					continue
				}
				pp := c.pods[r.Intn(len(c.pods))]
				if malformed && r.Chance(1, 2) {
					c.evPodDelete(garbage(), pp) // ignored; the well-formed delete may follow
					if r.Bool() {
						continue
					}
				}
				shape := c07ShObj
				if r.Chance(2, 5) {
					shape = c07ShTomb
				}
				c.evPodDelete(shape, pp)
				deletes++
				if pp.rsv != 0 {
					h.Tag("op:owner-pod-delete")
				}
			case x < 56: // reservation update / delete
				if len(c.rsvs) == 0 {
					continue
				}
				rv := c.rsvs[r.Intn(len(c.rsvs))]
				switch y := r.Intn(10); {
				case y < 2:
					c.evRsvUpdate(rv, false)
				case y < 4:
					c.evRsvUpdate(rv, true)
					deletes++
				case y < 7:
					c.evRsvDelete(c07ShObj, rv)
					deletes++
				case y < 9:
					c.evRsvDelete(c07ShTomb, rv)
					deletes++
				default:
					if malformed {
						c.evRsvDelete(garbage(), rv)
					}
				}
			case x < 63: // Device informer event: resync, health toggle, delete (object / tombstone / garbage), re-add
				switch y := r.Intn(10); {
				case y < 2:
					c.evDevice(0, c07ShObj, 0)
				case y < 5:
					if r.Bool() && len(c.inv[0]) > 0 {
						i := r.Intn(len(c.inv[0]))
						c.inv[0][i].healthy = !c.inv[0][i].healthy
					}
					c.evDevice(1, c07ShObj, c07ShObj)
				case y < 8:
					sh := c07ShObj
					if r.Bool() {
						sh = c07ShTomb
					}
					c.evDevice(2, sh, 0)
					if r.Chance(2, 3) { // koordlet re-creates the Device object
						c.evDevice(0, c07ShObj, 0)
					}
				default:
					if malformed {
						switch r.Intn(3) {
						case 0:
							c.evDevice(0, garbage(), 0)
						case 1:
							c.evDevice(1, c07ShObj, garbage())
						default:
							c.evDevice(2, garbage(), 0)
						}
					}
				}
			case x < 82: // preemption dry-run over the live pods (>= 3 victims when there are that many)
				if len(c.pods) == 0 {
					continue
				}
				cy := c.beginCycle()
				if !cy.preFilter {
					continue
				}
				if r.Bool() { // the preemption evaluator works on a clone of the cycle state (one per candidate node)
					cy.cs = cy.cs.Clone()
					h.Tag("ro:cycle-state-cloned")
				}
				pm := r.Perm(len(c.pods))
				k := len(pm)
				if k > 3 && r.Bool() {
					k = r.Range(3, k)
				}
				type victim struct{ id, rsv int }
				var removed []victim
				for _, i := range pm[:k] {
					pp := c.pods[i]
					rsvID := pp.rsv
					if rsvID == 0 && len(c.rsvs) > 0 && r.Chance(1, 8) {
						rsvID = c.rsvs[r.Intn(len(c.rsvs))].id // the cache names a reservation the pod is not recorded in
					}
					c.dryPod(cy, true, pp.id, rsvID)
					removed = append(removed, victim{pp.id, rsvID})
				}
				if len(c.rsvs) > 0 && r.Chance(1, 4) { // a reservation itself is a victim (its reserve pod)
					rv := c.rsvs[r.Intn(len(c.rsvs))]
					c.dryPod(cy, true, rv.id, 0)
					removed = append(removed, victim{rv.id, 0})
					h.Tag("ro:victim-is-reserve-pod")
				}
				if r.Chance(1, 6) {
					c.dryPod(cy, true, 70+r.Intn(5), 0) // a victim the cache does not know
				}
				c.dryFilter(cy)
				if r.Chance(1, 3) { // … and clones it again with the victims' amounts in it
					cy.cs = cy.cs.Clone()
					h.Tag("ro:cycle-state-cloned-with-victims")
				}
				// reprieve some victims (the reservation cache answers as it did at the removal; 1 in 12: it does not, or the
				// pod was never removed - a nominated pod - which drives the preemptible amounts negative)
				for _, v := range removed {
					if r.Chance(1, 3) {
						rsvID := v.rsv
						if r.Chance(1, 12) {
							rsvID = 0
							h.Tag("ro:AddPod-mismatched")
						}
						c.dryPod(cy, false, v.id, rsvID)
					}
				}
				if len(c.pods) > k && r.Chance(1, 12) {
					c.dryPod(cy, false, c.pods[pm[k]].id, 0)
					h.Tag("ro:AddPod-never-removed")
				}
				if r.Bool() {
					c.dryFilter(cy)
				}
				if r.Chance(1, 3) {
					c.dryOther(cy)
				}
				h.Tag(fmt.Sprintf("ro:victims:%d", k))
			default: // reservation restore (+ Filter, + dry-run removal of owner pods)
				if len(c.rsvs) == 0 {
					continue
				}
				if r.Chance(1, 5) && len(c.pods) > 0 {
					c.preAllocationCycle(c.rsvs[r.Intn(len(c.rsvs))])
					continue
				}
				cy := c.beginCycle()
				if !cy.preFilter {
					continue
				}
				var matched, unmatched []*c07EvRsv
				for _, rv := range c.rsvs {
					if r.Chance(2, 3) {
						matched = append(matched, rv)
					} else {
						unmatched = append(unmatched, rv)
					}
				}
				if r.Chance(1, 3) { // owner pods are removed first (preemption inside a reservation)
					for _, pp := range c.pods {
						if pp.rsv != 0 && r.Bool() {
							c.dryPod(cy, true, pp.id, pp.rsv)
						}
					}
				}
				c.restore(cy, matched, unmatched)
				c.dryFilter(cy)
				if r.Chance(1, 2) {
					c.dryOther(cy)
				}
				if r.Chance(1, 3) {
					for _, pp := range c.pods {
						if pp.rsv != 0 && r.Bool() {
							c.dryPod(cy, true, pp.id, pp.rsv)
						}
					}
					c.dryFilter(cy)
				}
			}
		}
		if c.roSteps > 0 && deletes > 0 {
			h.Nontrivial()
		}
		h.End()
	}
	h.Close("one history per case on one node with 2-4 GPUs through the real informer handlers (pod and reservation, wired as registerPodEventHandler does): " +
		"pod add / resync / terminated / delete delivered as *Pod or as cache.DeletedFinalStateUnknown by value, reservation add (valid/invalid, active/inactive) / update / Succeeded / delete (object, tombstone), " +
		"1 case in 4 with shapes client-go never delivers (pointer tombstone, tombstone of another type, nil, other object); in between read-only cycles: PreFilter + RemovePod over all or >= 3 live pods sharing GPUs + Filter + AddPod + Filter, " +
		"PreRestoreReservation + RestoreReservation over the live reservations with their owner pods + Filter + RemovePod of owner pods, Score / ScoreReservation / FilterNominateReservation / RestoreReservationPreAllocation / CycleState.Clone; " +
		"Device informer events (resync, health toggle, delete as object / tombstone / garbage, re-creation), unparsable annotations, events before the first inventory, objects with DeletionTimestamp / phases / labels; the whole book is re-read after every read-only step. " +
		"non-trivial = at least one read-only step and one delete; distinct by op list")
}


// ---------------------------------------------------------------------------------------------------------------
// C07 events, exhaustive small scope (thorough tier): EVERY sequence of 1..3 steps over
//   pod add (typed object) of pod 1 (GPU 0, 30 %), pod 2 (GPU 0, 20 %) - both owners of reservation 500 - and pod 3 (GPU 1, 20 %)   3
//   pod delete of pod 1 / pod 2 in each of the SIX shapes, of pod 3 as object / tombstone                                          14
//   reservation 500 (GPU 0, 50 %) add as object / as tombstone, delete in each of the six shapes, update to Succeeded               9
//   a preemption dry-run over the victims 3, 1, 2 in this order (first on its own GPU, second and third share one) + Filter         1
//   a reservation restore (500 matched, owners 1 and 2) + Filter                                                                   1
//   Device informer: add (re-creation), delete in each of the six shapes                                                           7
// on a node with two GPUs; full observation after every step, all oracle clauses of the events harness.
// ---------------------------------------------------------------------------------------------------------------
func TestVerifC07EventsExhaustive(t *testing.T) {
	h := vOpen("C07")
	if h == nil {
		t.Skip("VERIF_OUT not set")
	}
	node := &corev1.Node{ObjectMeta: metav1.ObjectMeta{Name: c07Node}}
	suit := newPluginTestSuit(t, []*corev1.Node{node})
	p, err := suit.proxyNew(context.TODO(), getDefaultArgs(), suit.Framework)
	if err != nil {
		t.Fatalf("plugin: %v", err)
	}
	pl := p.(*Plugin)
	rcache, _ := pl.handle.GetReservationCache().(*frameworkext.FakeReservationCache)
	if rcache == nil {
		t.Fatalf("fixture: no FakeReservationCache")
	}
	nodeInfo := framework.NewNodeInfo()
	nodeInfo.SetNode(node)
	type xop struct{ kind, who, shape int } // kind 0 pod add, 1 pod delete, 2 rsv add, 3 rsv delete, 4 rsv succeeded, 5 dry-run, 6 restore, 7 device event (who = 0 add | 2 delete)
	var alphabet []xop
	for who := 1; who <= 3; who++ {
		alphabet = append(alphabet, xop{0, who, c07ShObj})
	}
	for who := 1; who <= 2; who++ {
		for sh := c07ShObj; sh <= c07ShOther; sh++ {
			alphabet = append(alphabet, xop{1, who, sh})
		}
	}
	alphabet = append(alphabet, xop{1, 3, c07ShObj}, xop{1, 3, c07ShTomb}, xop{2, 500, c07ShObj}, xop{2, 500, c07ShTomb})
	for sh := c07ShObj; sh <= c07ShOther; sh++ {
		alphabet = append(alphabet, xop{3, 500, sh})
	}
	alphabet = append(alphabet, xop{4, 500, 0}, xop{5, 0, 0}, xop{6, 0, 0}, xop{7, 0, c07ShObj})
	for sh := c07ShObj; sh <= c07ShOther; sh++ {
		alphabet = append(alphabet, xop{7, 2, sh})
	}
	maxLen := vEnvInt("VERIF_C07_EVXLEN", 3)
	idx := 0
	run := func(hist []xop) {
		r := h.Begin(idx)
		idx++
		if r == nil {
			return
		}
		pl.nodeDeviceCache = newNodeDeviceCache()
		rcache.RInfo = nil
		base := &c07Case{h: h, r: r, cache: pl.nodeDeviceCache, exact: true, histX: true, sched: true, nextPod: 1, cur: &c07Ledger{rows: map[[2]int]*c07Row{}, pods: map[[2]int]map[int]c07Vals{}}}
		for tt := 0; tt < 3; tt++ {
			base.live[tt] = map[int][]c07Alloc{}
		}
		base.inPlay = []int{0}
		base.da[0] = 3
		c := &c07EvCase{c07Case: base, pl: pl, rcache: rcache, node: node, ni: nodeInfo, nextRsv: 500, mem: 16 << 30}
		c.nomin, _ = pl.handle.GetReservationNominator().(*frameworkext.FakeNominator)
		podH := cache.ResourceEventHandlerFuncs{AddFunc: c.cache.onPodAdd, UpdateFunc: c.cache.onPodUpdate, DeleteFunc: c.cache.onPodDelete}
		c.podH = podH
		c.rsvH = reservationutil.NewReservationToPodEventHandler(podH, reservationutil.IsObjValidActiveReservation)
		c.devH = cache.ResourceEventHandlerFuncs{AddFunc: c.cache.onDeviceAdd, UpdateFunc: c.cache.onDeviceUpdate, DeleteFunc: c.cache.onDeviceDelete}
		c.inv[0] = []c07Dev{{minor: 0, healthy: true, res: c07Vec{100, c.mem, 100}, numa: -1}, {minor: 1, healthy: true, res: c07Vec{100, c.mem, 100}, numa: -1}}
		c.applyInventory(false)
		pods := map[int]*c07EvPod{
			1: {id: 1, g: c07Groups{0: {{minor: 0, vec: c.fracVec(30)}}}, rsv: 500},
			2: {id: 2, g: c07Groups{0: {{minor: 0, vec: c.fracVec(20)}}}, rsv: 500},
			3: {id: 3, g: c07Groups{0: {{minor: 1, vec: c.fracVec(20)}}}},
		}
		rv := &c07EvRsv{id: 500, g: c07Groups{0: {{minor: 0, vec: c.fracVec(50)}}}, policy: schedulingv1alpha1.ReservationAllocatePolicyDefault, owners: []int{1, 2}}
		for _, op := range hist {
			switch op.kind {
			case 0:
				c.evPodAdd(op.shape, pods[op.who])
				rv.owners = []int{1, 2}
			case 1:
				c.evPodDelete(op.shape, pods[op.who])
			case 2:
				c.evRsvAdd(op.shape, rv, true, true, true)
			case 3:
				c.evRsvDelete(op.shape, rv)
			case 4:
				if c.findRsv(500) != nil {
					c.evRsvUpdate(rv, true)
				}
			case 7:
				c.evDevice(op.who, op.shape, 0)
			case 5:
				cy := c.beginCycle()
				for _, id := range []int{3, 1, 2} {
					c.dryPod(cy, true, id, pods[id].rsv)
				}
				c.dryFilter(cy)
			default:
				cy := c.beginCycle()
				if c.findRsv(500) != nil {
					c.restore(cy, []*c07EvRsv{rv}, nil)
				} else {
					c.restore(cy, nil, []*c07EvRsv{rv})
				}
				c.dryFilter(cy)
			}
		}
		if len(hist) >= 2 {
			h.Nontrivial()
		}
		h.End()
	}
	var rec func(hist []xop, n int)
	rec = func(hist []xop, n int) {
		if len(hist) == n {
			run(hist)
			return
		}
		for _, op := range alphabet {
			rec(append(hist, op), n)
		}
	}
	for n := 1; n <= maxLen; n++ {
		rec(make([]xop, 0, n), n)
	}
	h.Extra("exhaustive", fmt.Sprintf("all sequences of 1..%d steps over an alphabet of %d event / read-only steps: %d cases", maxLen, len(alphabet), idx))
	h.Close("exhaustive enumeration of every sequence of 1-3 steps over: pod add (3 pods, two sharing a GPU and owned by a reservation), pod delete in all six delivery shapes, " +
		"reservation add (object / tombstone) / delete in all six shapes / Succeeded, a 3-victim preemption dry-run + Filter, a reservation restore + Filter, Device add / delete in all six shapes; 2 GPUs; " +
		"full book observed after every step; non-trivial = at least 2 steps")
}


// ---------------------------------------------------------------------------------------------------------------
// C07 "shape" harness: how a pod SPEC becomes "n GPUs, each with this much" - preparePod (GetPodDeviceRequests:
// RemoveZeros, Mask, ValidateDeviceRequest, ConvertDeviceRequest; parseGPURequirements ->
// calcDesiredRequestsAndCountForGPU) on pods requesting any combination of nvidia.com/gpu, koordinator.sh/gpu,
// gpu-shared, gpu-core, gpu-memory, gpu-memory-ratio, spread over one or two containers.
// Model: Model/C07Shape.lean podShape.  Oracle (the statement's reading of a request): an accepted pod is asked
// count >= 1 devices; per dimension count x per-device amount <= requested total < count x per-device + count (floor
// split, never more than requested), the ratio dimension exactly; vendor GPUs n => n whole devices; koordinator.sh/gpu
// v <= 100 => one device with v/v, 100k => k whole devices; a requested dimension is not dropped.
// ---------------------------------------------------------------------------------------------------------------

var c07ShapeNames = [6]corev1.ResourceName{apiext.ResourceNvidiaGPU, apiext.ResourceGPU, apiext.ResourceGPUShared, apiext.ResourceGPUCore, apiext.ResourceGPUMemory, apiext.ResourceGPUMemoryRatio}

func c07OptTok(v int64) string {
	if v < 0 {
		return "_"
	}
	return strconv.FormatInt(v, 10)
}

func c07ShapeCase(h *vHarness, r *vRand, vals [6]int64) {
	toks := make([]string, 6)
	for i, v := range vals {
		toks[i] = c07OptTok(v)
	}
	h.Op("shape %s", strings.Join(toks, " "))
	// spread the request over one or two containers (PodRequests sums them)
	c1, c2 := corev1.ResourceList{}, corev1.ResourceList{}
	two := r.Chance(1, 3)
	for i, v := range vals {
		if v < 0 {
			continue
		}
		a := v
		if two && v > 1 && r.Bool() {
			a = int64(r.Range(1, int(v)-1))
			c2[c07ShapeNames[i]] = *resource.NewQuantity(v-a, resource.DecimalSI)
		}
		c1[c07ShapeNames[i]] = *resource.NewQuantity(a, resource.DecimalSI)
	}
	pod := c07Pod(1, nil, "")
	pod.Spec.Containers = []corev1.Container{{Name: "a", Resources: corev1.ResourceRequirements{Requests: c1, Limits: c1}}}
	if len(c2) > 0 {
		pod.Spec.Containers = append(pod.Spec.Containers, corev1.Container{Name: "b", Resources: corev1.ResourceRequirements{Requests: c2, Limits: c2}})
		h.Tag("shape:two-containers")
	}
	var state *preFilterState
	var st *fwktype.Status
	if h.Guard(func() { state, st = preparePod(pod, nil, nil) }) {
		h.Obs("panic")
		return
	}
	switch {
	case !st.IsSuccess():
		h.Obs("shape err")
		h.Tag("shape:err")
		return
	case state.skip:
		h.Obs("shape skip")
		h.Tag("shape:skip")
		for _, v := range vals {
			if v > 0 {
				h.Fail("C07:shape-skip-with-request", "pod requesting %v is skipped by the plugin", vals)
				break
			}
		}
		return
	case state.gpuRequirements == nil:
		h.Obs("shape nogpu")
		return
	}
	g := state.gpuRequirements
	per := [3]int64{-1, -1, -1}
	for k, name := range c07Res[0] {
		if q, ok := g.requestsPerGPU[name]; ok {
			per[k] = q.Value()
		}
	}
	extra := 0
	for name := range g.requestsPerGPU {
		if name != c07Res[0][0] && name != c07Res[0][1] && name != c07Res[0][2] {
			extra++
		}
	}
	h.Obs("shape %d %d %s %s %s %d", g.numberOfGPUs, vB(g.gpuShared), c07OptTok(per[0]), c07OptTok(per[1]), c07OptTok(per[2]), extra)
	h.Tag(fmt.Sprintf("shape:ok:count%d", c07Min(int64(g.numberOfGPUs), 4)))
	h.Nontrivial()
	// ---- oracle ----
	n := int64(g.numberOfGPUs)
	if n < 1 {
		h.Fail("C07:shape-count", "pod requesting %v is asked %d devices", vals, n)
		return
	}
	// requested totals per dimension in device units (gpu-core, gpu-memory, gpu-memory-ratio)
	nz := func(v int64) int64 {
		if v <= 0 {
			return -1
		}
		return v
	}
	nv, kg, co, me, ra := nz(vals[0]), nz(vals[1]), nz(vals[3]), nz(vals[4]), nz(vals[5])
	total := [3]int64{co, me, ra}
	switch {
	case nv > 0:
		total = [3]int64{nv * 100, -1, nv * 100}
		if n != nv || per[0] != 100 || per[2] != 100 {
			h.Fail("C07:shape-vendor", "nvidia.com/gpu=%d is asked %d devices with %v each", nv, n, per)
		}
	case kg > 0:
		total = [3]int64{kg, -1, kg}
		wantN := int64(1)
		if kg > 100 {
			wantN = kg / 100
		}
		if n != wantN {
			h.Fail("C07:shape-koord-gpu", "koordinator.sh/gpu=%d is asked %d devices", kg, n)
		}
	}
	for k := 0; k < 3; k++ {
		if total[k] < 0 {
			if per[k] >= 0 {
				h.Fail("C07:shape-invented-dimension", "pod requesting %v is asked dimension %d = %d per device although it did not request it", vals, k, per[k])
			}
			continue
		}
		if per[k] < 0 {
			h.Fail("C07:shape-dropped-dimension", "pod requesting %v: dimension %d (total %d) is not part of the per-device request", vals, k, total[k])
			continue
		}
		if n*per[k] > total[k] || total[k] >= n*per[k]+n {
			h.Fail("C07:shape-split", "pod requesting %v: %d devices x %d != requested %d in dimension %d (beyond floor rounding)", vals, n, per[k], total[k], k)
		}
		if k == 2 && n*per[k] != total[k] {
			h.Fail("C07:shape-ratio-rounded", "pod requesting %v: %d devices x ratio %d != requested ratio %d", vals, n, per[k], total[k])
		}
		if n*per[k] != total[k] {
			h.Tag("shape:floor-rounded")
		}
	}
}

func TestVerifC07Shape(t *testing.T) {
	h := vOpen("C07")
	if h == nil {
		t.Skip("VERIF_OUT not set")
	}
	n := h.N(3000, 60000)
	for idx := 0; idx < n; idx++ {
		r := h.Begin(idx)
		if r == nil {
			continue
		}
		vals := [6]int64{-1, -1, -1, -1, -1, -1}
		val := func() int64 {
			return r.Pick([]int64{0, 1, 2, 3, 30, 50, 99, 100, 100, 101, 150, 200, 200, 300, 400, int64(r.Range(1, 450))})
		}
		switch r.Intn(10) {
		case 0: // vendor GPUs
			vals[0] = int64(r.Range(0, 4))
		case 1: // koordinator.sh/gpu
			vals[1] = val()
		case 2, 3: // gpu-core + gpu-memory-ratio
			vals[3], vals[5] = val(), val()
		case 4: // gpu-core + gpu-memory
			vals[3], vals[4] = val(), int64(r.Range(0, 1<<20))
		case 5: // memory only / ratio only
			if r.Bool() {
				vals[4] = int64(r.Range(0, 1<<20))
			} else {
				vals[5] = val()
			}
		case 6, 7: // gpu-shared + …
			vals[2] = int64(r.Pick([]int64{0, 1, 2, 2, 3, 4}))
			if r.Bool() {
				vals[3] = val()
			}
			if r.Bool() {
				vals[4] = int64(r.Range(0, 1<<20))
			} else {
				vals[5] = val()
			}
			if vals[2] > 0 && r.Chance(2, 3) { // mostly valid: multiples of the share count
				if vals[3] > 0 {
					vals[3] = vals[2] * int64(r.Pick([]int64{10, 50, 100, 101}))
				}
				if vals[5] > 0 {
					vals[5] = vals[2] * int64(r.Pick([]int64{10, 50, 100, 101}))
				}
			}
		default: // any presence pattern
			for i := range vals {
				if r.Chance(1, 3) {
					vals[i] = val()
				}
			}
		}
		c07ShapeCase(h, r, vals)
		h.End()
	}
	h.Close("one pod spec per case: nvidia.com/gpu / koordinator.sh/gpu / gpu-shared / gpu-core / gpu-memory / gpu-memory-ratio in the documented combinations (whole, fractional, multi-device, shared, zero entries) " +
		"and 1 case in 10 an arbitrary presence pattern, spread over one or two containers; non-trivial = the pod is accepted; distinct by op")
}

// every presence / value pattern over a small value set (thorough tier)
func TestVerifC07ShapeExhaustive(t *testing.T) {
	h := vOpen("C07")
	if h == nil {
		t.Skip("VERIF_OUT not set")
	}
	domain := []int64{-1, 0, 1, 2, 50, 100, 150, 200}
	idx := 0
	var vals [6]int64
	var rec func(i int)
	rec = func(i int) {
		if i == 6 {
			r := h.Begin(idx)
			idx++
			if r == nil {
				return
			}
			c07ShapeCase(h, r, vals)
			h.End()
			return
		}
		for _, v := range domain {
			vals[i] = v
			rec(i + 1)
		}
	}
	rec(0)
	h.Extra("exhaustive", fmt.Sprintf("all %d assignments of {absent, 0, 1, 2, 50, 100, 150, 200} to the six GPU resource names", idx))
	h.Close("exhaustive: every assignment of {absent, 0, 1, 2, 50, 100, 150, 200} to the six GPU resource names (262,144 pod specs); non-trivial = the pod is accepted")
}
