//go:build verif

package deviceshare

import (
	"context"
	"fmt"
	"sort"
	"testing"

	corev1 "k8s.io/api/core/v1"
	"k8s.io/apimachinery/pkg/api/resource"
	metav1 "k8s.io/apimachinery/pkg/apis/meta/v1"
	"k8s.io/apimachinery/pkg/types"
	k8sfeature "k8s.io/apiserver/pkg/util/feature"
	fwktype "k8s.io/kube-scheduler/framework"
	"k8s.io/kubernetes/pkg/scheduler/framework"

	apiext "github.com/koordinator-sh/koordinator/apis/extension"
	schedulingv1alpha1 "github.com/koordinator-sh/koordinator/apis/scheduling/v1alpha1"
	koordfeatures "github.com/koordinator-sh/koordinator/pkg/features"
	reservationutil "github.com/koordinator-sh/koordinator/pkg/util/reservation"
)

// C19 (device part, extension 5) harness `devadapt`: the WRITE side of the device-allocated annotation.
//
// One case = one history on one node of a REAL Plugin (built by New through the frameworkext proxy), driven through
// the real Reserve -> PreBind (-> Unreserve when PreBind or Bind fails), with the feature gate DevicePluginAdaption
// ON (5/6 of the cases) and the node's Device labelled with one of the GPU vendors device_plugin_adapter.go knows
// (huawei incl. the Ascend-310P3-300I-DUO model, cambricon, metax), an unknown vendor or none.  gpu-memory amounts are
// NOT aligned to any vendor unit (cambricon 256Mi sMLU, metax 1Mi).  The adapters read the allocation and write
// vendor annotations / a node lock; what is persisted must be what Reserve accounted:
//   - oracle (persist): the device-allocated annotation PreBind left on the object decodes to exactly the allocation
//     Reserve put into the live ledger (also after a PreBind that failed inside an adapter: the annotation is written
//     first), and the adapters leave state.allocationResult (what Unreserve gives back) untouched;
//   - oracle (rebuild): a fresh cache fed the surviving annotated pods (shuffled, duplicates) equals the live cache,
//     nothing held is free, the order does not matter.
// To the model (Model/C19Dev.lean) Reserve is `dev add p 0`, Unreserve `dev del p 0`; the ledger block is compared
// after every op.  The informers are not started: Node, Pod and Device listers are fed through their indexers (the
// harness plays the informer: after every PreBind the node object of the fake clientset is copied to the lister).

var c19aVendors = []struct{ name, vendor, model string }{
	{"none", "", ""},
	{"unknown", apiext.GPUVendorNVIDIA, "A100"},
	{"huawei", apiext.GPUVendorHuawei, "Ascend-910B"},
	{"huawei-310p", apiext.GPUVendorHuawei, "Ascend-310P3-300I-DUO"},
	{"cambricon", apiext.GPUVendorCambricon, "MLU370"},
	{"metax", apiext.GPUVendorMetaX, "C500"},
}

func c19aUUID(ty, minor int) string { return fmt.Sprintf("uuid-%d-%d", ty, minor) }

func TestVerifC19DevAdapt(t *testing.T) {
	h := vOpen("C19")
	if h == nil {
		t.Skip("VERIF_OUT not set")
	}
	setGate := func(on bool) {
		if err := k8sfeature.DefaultMutableFeatureGate.SetFromMap(map[string]bool{string(koordfeatures.DevicePluginAdaption): on}); err != nil {
			t.Fatal(err)
		}
	}
	defer setGate(false)
	nodeName := c19NodeName(0)
	suit := newPluginTestSuit(t, []*corev1.Node{{ObjectMeta: metav1.ObjectMeta{Name: nodeName}}})
	pl, err := suit.proxyNew(context.TODO(), getDefaultArgs(), suit.Framework)
	if err != nil {
		t.Fatal(err)
	}
	plg := pl.(*Plugin)
	nodeIdx := suit.Framework.SharedInformerFactory().Core().V1().Nodes().Informer().GetIndexer()
	podIdx := suit.Framework.SharedInformerFactory().Core().V1().Pods().Informer().GetIndexer()
	devIdx := suit.koordinatorSharedInformerFactory.Scheduling().V1alpha1().Devices().Informer().GetIndexer()
	cs := suit.Framework.ClientSet()
	// the harness plays the node informer
	syncNode := func() *corev1.Node {
		n, err := cs.CoreV1().Nodes().Get(context.TODO(), nodeName, metav1.GetOptions{})
		if err != nil {
			t.Fatal(err)
		}
		_ = nodeIdx.Add(n.DeepCopy())
		return n
	}
	clearLocks := func() {
		n := syncNode()
		if len(n.Annotations) == 0 {
			return
		}
		n = n.DeepCopy()
		n.Annotations = nil
		if _, err := cs.CoreV1().Nodes().Update(context.TODO(), n, metav1.UpdateOptions{}); err != nil {
			t.Fatal(err)
		}
		syncNode()
	}

	n := h.N(300, 6000)
	for idx := 0; idx < n; idx++ {
		r := h.Begin(idx)
		if r == nil {
			continue
		}
		gate := !r.Chance(1, 6)
		setGate(gate)
		vd := c19aVendors[r.Intn(len(c19aVendors))]
		h.Tag("vendor:" + vd.name)
		h.Tag(fmt.Sprintf("gate:%v", gate))

		// 1. inventory: one node, 1-4 GPUs, 0-1 RDMA
		inv := &c19Inventory{nNodes: 1, totals: map[[3]int][3]int64{}, busIdx: map[string]int{}}
		inv.counts[0] = [3]int{r.Range(1, 4), r.Range(0, 1), 0}
		remaining := map[[2]int]int64{} // (ty, minor) -> dim-1 amount left
		for ty := 0; ty < 2; ty++ {
			for m := 0; m < inv.counts[0][ty]; m++ {
				tot := [3]int64{100, r.Pick([]int64{4096, 8192, 16384}) << 20, 100}
				if ty == 1 {
					tot = [3]int64{100, 0, 0}
				}
				inv.totals[[3]int{0, ty, m}] = tot
				remaining[[2]int{ty, m}] = tot[1]
				h.Op("dev inv %d %d %d %d %d %d", 0, ty, m, tot[0], tot[1], tot[2])
			}
		}
		dev := c19Device(inv, 0)
		dev.Labels = map[string]string{}
		if vd.vendor != "" {
			dev.Labels[apiext.LabelGPUVendor] = vd.vendor
			dev.Labels[apiext.LabelGPUModel] = vd.model
		}
		for i := range dev.Spec.Devices {
			dev.Spec.Devices[i].UUID = c19aUUID(c19TypeIndex(dev.Spec.Devices[i].Type), int(*dev.Spec.Devices[i].Minor))
		}
		_ = devIdx.Add(dev)
		for _, o := range podIdx.List() {
			_ = podIdx.Delete(o)
		}
		clearLocks()

		// 2. pods: GPU shares with gpu-memory amounts aligned to nothing
		genItems := func(p *c19PodDef) {
			p.items = nil
			nGPU := 1
			if r.Chance(1, 4) {
				nGPU = 2 // cambricon: "multiple gpu share is not supported" -> PreBind fails after the annotation was written
			}
			if nGPU > inv.counts[0][0] {
				nGPU = inv.counts[0][0]
			}
			for _, m := range r.Perm(inv.counts[0][0])[:nGPU] {
				it := c19Item{ty: 0, minor: m, binary: r.Bool(), id: c19aUUID(0, m)}
				tot := inv.totals[[3]int{0, 0, m}]
				var mem int64
				switch r.Intn(8) {
				case 0: // below every vendor's unit but cambricon's: 1Mi..255Mi + odd bytes
					mem = int64(r.Range(1, 255))<<20 + int64(r.Range(0, 1<<20-1))
				case 1: // below 1Mi: also metax refuses
					mem = int64(r.Range(1, 1<<20-1))
				case 2: // aligned, for contrast
					mem = int64(r.Range(1, 8)) * (256 << 20)
				default: // un-aligned: MiB granularity or odd bytes
					mem = int64(r.Range(256, 3000)) << 20
					if r.Bool() {
						mem += int64(r.Range(1, 1<<20-1))
					}
				}
				if rem := remaining[[2]int{0, m}]; mem > rem && !r.Chance(1, 10) {
					mem = rem - rem/7
				}
				if mem < 0 {
					mem = 0
				}
				remaining[[2]int{0, m}] -= mem
				if remaining[[2]int{0, m}] < 0 {
					remaining[[2]int{0, m}] = 0
				}
				core := int64(r.Range(1, 100))
				ratio := mem * 100 / tot[1]
				switch r.Intn(10) {
				case 0: // no gpu-core: cambricon / metax refuse
					it.dims, it.amts = []int{1, 2}, []int64{mem, ratio}
					h.Tag("pod:no-gpu-core")
				case 1:
					it.dims, it.amts = []int{0, 1}, []int64{core, mem}
				default:
					it.dims, it.amts = []int{0, 1, 2}, []int64{core, mem, ratio}
				}
				if mem%(256<<20) != 0 {
					h.Tag("mem:unaligned-256Mi")
				} else {
					h.Tag("mem:aligned-256Mi")
				}
				if r.Chance(1, 6) {
					it.ext = &apiext.DeviceAllocationExtension{GPUSharedResourceTemplate: "tpl-a"} // huawei: vNPU
				}
				p.items = append(p.items, it)
			}
			if inv.counts[0][1] > 0 && r.Chance(1, 3) {
				p.items = append(p.items, c19Item{ty: 1, minor: 0, dims: []int{0}, amts: []int64{int64(r.Range(1, 4)) * 25}, id: c19aUUID(1, 0)})
			}
		}
		nPods := r.Range(2, 5)
		pods := make([]*c19PodDef, nPods)
		for id := 0; id < nPods; id++ {
			name := c19PodName(id)
			p := &c19PodDef{id: id, node: 0}
			p.base = &corev1.Pod{
				ObjectMeta: metav1.ObjectMeta{Namespace: "default", Name: name, UID: types.UID("uid-" + name)},
				Spec:       corev1.PodSpec{Containers: []corev1.Container{{Name: "c", Image: "i"}}},
			}
			if r.Chance(1, 4) {
				p.base.Labels = map[string]string{apiext.LabelGPUIsolationProvider: string(apiext.GPUIsolationProviderHAMICore)}
				h.Tag("pod:hami-core")
			}
			genItems(p)
			if r.Chance(1, 4) {
				p.isResv = true // the holder is a Reservation: Reserve(reserve pod) + PreBindReservation write on the Reservation object
				h.Tag("holder:reservation")
			}
			pods[id] = p
			h.Op("%s", p.opLine(inv.busIdx))
		}

		// 3. live history through the real plugin
		live := c19NewCache(h, inv)
		plg.nodeDeviceCache = live
		apiServer := map[int]*corev1.Pod{}
		carried := map[int]*corev1.Pod{} // the object of a pod whose earlier attempt failed: it re-enters annotated
		carriedResv := map[int]*schedulingv1alpha1.Reservation{}
		w := &c19World{resv: map[int]*schedulingv1alpha1.Reservation{}, goneResv: map[int]*schedulingv1alpha1.Reservation{},
			termResv: map[int]*schedulingv1alpha1.Reservation{}}
		gone := map[int]*corev1.Pod{}
		var liveSnap *c19Snap
		inSet := func(in bool) []int {
			var out []int
			for id := 0; id < nPods; id++ {
				if _, ok := apiServer[id]; ok == in {
					out = append(out, id)
				}
			}
			return out
		}
		steps := r.Range(3, 10)
		for step := 0; step < steps; step++ {
			present, absent := inSet(true), inSet(false)
			if r.Chance(1, 2) {
				clearLocks() // the vendor's device plugin has allocated the previous pod and removed its node lock
				h.Tag("lock:cleared")
			}
			k := r.Intn(10)
			switch {
			case (k < 6 || len(present) == 0) && len(absent) > 0: // ---- a scheduling cycle for an absent pod
				id := absent[r.Intn(len(absent))]
				p := pods[id]
				var obj *corev1.Pod                    // the pod the cycle schedules (for a Reservation: its reserve pod)
				var rv *schedulingv1alpha1.Reservation // non-nil: the object PreBindReservation writes on
				retried := false
				if p.isResv {
					if rv = carriedResv[id]; rv == nil {
						rv = c19PersistResv(h, p, false) // Pending, not annotated
					} else {
						retried = true
					}
				} else if obj = carried[id]; obj == nil {
					obj = p.base.DeepCopy()
				} else {
					retried = true
				}
				if retried {
					h.Tag("bind:object-already-annotated")
					if r.Chance(2, 3) {
						// the retry allocates something else (another GPU, another amount): the object still carries the
						// annotation of the cycle that was unreserved
						before := c19aShow(p.allocs())
						genItems(p)
						h.Op("%s", "dev repod"+p.opLine(inv.busIdx)[len("dev pod"):])
						if c19aShow(p.allocs()) != before {
							h.Tag("bind:retry-allocates-elsewhere")
						}
					}
				}
				var holder metav1.Object = obj
				if rv != nil {
					h.Guard(func() { obj = reservationutil.NewReservePod(rv) })
					if obj == nil || obj.Name != c19PodName(p.id) || obj.Namespace != "default" {
						h.Fail("C19:dev-harness-reserve-pod", "reserve pod of reservation %d is not default/%s", p.id, c19PodName(p.id))
						continue
					}
					holder = rv
				}
				state := &preFilterState{allocationResult: p.allocs()}
				cycle := framework.NewCycleState()
				cycle.Write(stateKey, state)
				h.Op("dev add %d 0", id)
				var st1, st2 *fwktype.Status
				panicked := h.Guard(func() { st1 = plg.Reserve(context.TODO(), cycle, obj, nodeName) })
				if panicked || !st1.IsSuccess() {
					h.Fail("C19:dev-adapt-reserve-failed", "Reserve failed for pod %d (panic=%v)", id, panicked)
				}
				liveSnap = c19Observe(h, live, inv, true)
				panicked = h.Guard(func() {
					if rv != nil {
						st2 = plg.PreBindReservation(context.TODO(), cycle, rv, nodeName)
					} else {
						st2 = plg.PreBind(context.TODO(), cycle, obj, nodeName)
					}
				})
				syncNode()
				preBound := !panicked && st2.IsSuccess()
				if panicked {
					h.Fail("C19:dev-adapt-prebind-panic", "PreBind panicked for pod %d (vendor %s, gate %v)", id, vd.name, gate)
				}
				// ---- oracle (persist): what PreBind left on the object decodes to exactly what Reserve accounted; the
				// adapters did not touch what Unreserve will give back
				want := p.allocs()
				if preBound { // only an object whose PreBind succeeded can get bound
					got, gerr := apiext.GetDeviceAllocations(holder.GetAnnotations())
					if gerr != nil {
						h.Fail("C19:dev-prebind-persisted-differs", "pod %d: device-allocated annotation unreadable after PreBind", id)
					} else if d := c19AllocsDiff(want, got); d != "" {
						h.Fail("C19:dev-prebind-persisted-differs", "pod %d (vendor %s, gate %v): Reserve accounted %s but PreBind persisted %q: %s",
							id, vd.name, gate, c19aShow(want), holder.GetAnnotations()[apiext.AnnotationDeviceAllocated], d)
					}
				}
				if d := c19AllocsDiff(want, state.allocationResult); d != "" && !panicked {
					h.Fail("C19:dev-adapter-rewrote-allocation", "pod %d (vendor %s, gate %v): the cycle's allocation result was changed during PreBind (Reserve accounted %s, Unreserve would give back %s): %s",
						id, vd.name, gate, c19aShow(want), c19aShow(state.allocationResult), d)
				}
				bindFails := preBound && r.Chance(1, 6)
				switch {
				case !preBound:
					h.Tag("prebind:failed")
					h.Tag("prebind:failed:" + vd.name)
				case bindFails:
					h.Tag("bind:failed-after-prebind")
				default:
					h.Tag("prebind:ok")
					h.Tag("prebind:ok:" + vd.name)
				}
				if !preBound || bindFails {
					// the cycle is unreserved; the object keeps whatever PreBind wrote and re-enters later
					h.Op("dev del %d 0", id)
					if h.Guard(func() { plg.Unreserve(context.TODO(), cycle, obj, nodeName) }) {
						h.Obs("panic")
						liveSnap = &c19Snap{panicked: true, lines: []string{"panic"}}
					} else {
						liveSnap = c19Observe(h, live, inv, true)
					}
					if rv != nil {
						carriedResv[id] = rv
					} else {
						carried[id] = obj
					}
					continue
				}
				delete(gone, id)
				if rv != nil {
					rv.Status.NodeName = nodeName
					rv.Status.Phase = schedulingv1alpha1.ReservationAvailable
					w.resv[id] = rv.DeepCopy()
					delete(w.goneResv, id)
					delete(carriedResv, id)
					h.Guard(func() { apiServer[id] = reservationutil.NewReservePod(rv) })
					if apiServer[id] == nil {
						apiServer[id] = obj
					}
					continue
				}
				obj.Spec.NodeName = nodeName
				obj.Status.Phase = corev1.PodRunning
				apiServer[id] = obj.DeepCopy()
				delete(carried, id)
				delete(gone, id)
				_ = podIdx.Add(obj.DeepCopy())
			case k < 8 && len(present) > 0: // ---- delete event
				id := present[r.Intn(len(present))]
				obj := apiServer[id].DeepCopy()
				rv := w.resv[id]
				var delObj interface{}
				var tomb bool
				if rv != nil {
					delObj, tomb = c19ResvDeleteObj(h, r, rv.DeepCopy())
				} else {
					delObj, tomb = c19DeleteObj(h, r, obj)
				}
				via := 1
				if tomb {
					via = 3
				}
				h.Op("dev del %d %d", id, via)
				if h.Guard(func() {
					if rv != nil {
						c19Chain(live).OnDelete(delObj)
					} else {
						c19Handler(live).OnDelete(delObj)
					}
				}) {
					h.Obs("panic")
					liveSnap = &c19Snap{panicked: true, lines: []string{"panic"}}
				} else {
					liveSnap = c19Observe(h, live, inv, true)
				}
				gone[id] = obj
				delete(apiServer, id)
				if rv != nil {
					w.goneResv[id] = rv.DeepCopy()
					delete(w.resv, id)
				} else {
					_ = podIdx.Delete(obj)
				}
			case len(present) > 0: // ---- the bound pod's own update event (the live scheduler sees its patch + bind)
				id := present[r.Intn(len(present))]
				h.Op("dev upd %d", id)
				old, cur := apiServer[id].DeepCopy(), apiServer[id].DeepCopy()
				if h.Guard(func() {
					if rv := w.resv[id]; rv != nil {
						c19Chain(live).OnUpdate(rv.DeepCopy(), rv.DeepCopy())
					} else {
						live.onPodUpdate(old, cur)
					}
				}) {
					h.Obs("panic")
					liveSnap = &c19Snap{panicked: true, lines: []string{"panic"}}
				} else {
					liveSnap = c19Observe(h, live, inv, true)
				}
			}
		}
		if liveSnap == nil {
			h.Op("dev upd %d", 0) // no op was possible (cannot happen: absent pods exist at step 0); keep the block aligned
			liveSnap = c19Observe(h, live, inv, true)
		}

		// 4. the restart
		survivors := inSet(true)
		h.Tag(fmt.Sprintf("survivors:%d", len(survivors)))
		expected := map[[4]int]int64{}
		for _, id := range survivors {
			for _, it := range pods[id].items {
				for i, d := range it.dims {
					expected[[4]int{0, it.ty, it.minor, d}] += it.amts[i]
				}
			}
		}
		if len(survivors) >= 2 {
			h.Nontrivial()
		}
		fresh1 := c19Replay(h, r, inv, apiServer, survivors, gone, w)
		fresh2 := c19Replay(h, r, inv, apiServer, survivors, gone, w)
		if d := c19FirstDiff(liveSnap.lines, fresh1.lines); d != "" {
			h.Fail("C19:dev-rebuilt-differs", "live vs rebuilt (vendor %s, gate %v): %s", vd.name, gate, d)
		}
		if !fresh1.panicked {
			keys := make([][4]int, 0, len(expected))
			for k := range expected {
				keys = append(keys, k)
			}
			sort.Slice(keys, func(i, j int) bool {
				for x := 0; x < 4; x++ {
					if keys[i][x] != keys[j][x] {
						return keys[i][x] < keys[j][x]
					}
				}
				return false
			})
			for _, k := range keys {
				tot := inv.totals[[3]int{k[0], k[1], k[2]}][k[3]]
				maxFree := tot - expected[k]
				if maxFree < 0 {
					maxFree = 0
				}
				if fresh1.used[k] < expected[k] || fresh1.free[k] > maxFree {
					h.Fail("C19:dev-taken-considered-free", "vendor %s gate %v: type %d minor %d dim %d: survivors hold %d of %d (live scheduler), rebuilt cache has used %d free %d",
						vd.name, gate, k[1], k[2], k[3], expected[k], tot, fresh1.used[k], fresh1.free[k])
					break
				}
			}
		}
		if d := c19FirstDiff(fresh1.lines, fresh2.lines); d != "" {
			h.Fail("C19:dev-order-dependent", "replay 1 vs replay 2: %s", d)
		}
		h.End()
	}
	h.Close("one node (1-4 GPUs of 4/8/16Gi, 0-1 RDMA), Device labelled with a GPU vendor in {none, unknown, huawei, huawei Ascend-310P3-300I-DUO, cambricon, metax}, " +
		"feature gate DevicePluginAdaption on in 5/6 of the cases; 2-5 pods holding 1-2 GPU shares whose gpu-memory is un-aligned (MiB / odd bytes, below 256Mi, below 1Mi, rarely aligned), " +
		"sometimes without gpu-core, with a GPUSharedResourceTemplate, with the HAMi-core label, plus an RDMA share; 1/4 of the holders are Reservations (Reserve of the reserve pod, PreBindReservation writes on the Reservation object, events through the Reservation -> pod adapter); history of 3-10 steps on a REAL Plugin: " +
		"Reserve + PreBind (adapters run; a refusing adapter or a still locked node makes PreBind fail AFTER the annotation was written -> Unreserve, the annotated object is retried later), " +
		"Bind failure after PreBind (1/6), pod delete events (2/5 tombstones), own update events, the device plugin clearing the node lock; then two shuffled replays with duplicates into fresh caches. " +
		"Oracle: persisted annotation == what Reserve accounted == what Unreserve gives back; rebuilt == live; nothing held is free; order irrelevant. non-trivial = >= 2 survivors")
}

func c19aShow(a apiext.DeviceAllocations) string {
	var ts []string
	for t := range a {
		ts = append(ts, string(t))
	}
	sort.Strings(ts)
	out := ""
	for _, t := range ts {
		for _, x := range a[schedulingv1alpha1.DeviceType(t)] {
			out += fmt.Sprintf("%s/%d{", t, x.Minor)
			var ns []string
			for n := range x.Resources {
				ns = append(ns, string(n))
			}
			sort.Strings(ns)
			for _, n := range ns {
				q := x.Resources[corev1.ResourceName(n)]
				out += fmt.Sprintf("%s=%d ", n, q.Value())
			}
			out += "} "
		}
	}
	return out
}

var _ = resource.DecimalSI
