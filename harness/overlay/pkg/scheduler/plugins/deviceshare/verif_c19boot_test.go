//go:build verif

package deviceshare

import (
	"context"
	"fmt"
	"sort"
	"strings"
	"testing"
	"time"

	corev1 "k8s.io/api/core/v1"
	metav1 "k8s.io/apimachinery/pkg/apis/meta/v1"
	"k8s.io/apimachinery/pkg/runtime"
	"k8s.io/client-go/informers"
	coreinformers "k8s.io/client-go/informers/core/v1"
	"k8s.io/client-go/kubernetes"
	kubefake "k8s.io/client-go/kubernetes/fake"
	"k8s.io/client-go/tools/cache"

	schedulingv1alpha1 "github.com/koordinator-sh/koordinator/apis/scheduling/v1alpha1"
	koordclientset "github.com/koordinator-sh/koordinator/pkg/client/clientset/versioned"
	koordfake "github.com/koordinator-sh/koordinator/pkg/client/clientset/versioned/fake"
	koordinatorinformers "github.com/koordinator-sh/koordinator/pkg/client/informers/externalversions"
	schedinformers "github.com/koordinator-sh/koordinator/pkg/client/informers/externalversions/scheduling/v1alpha1"
	frameworkexthelper "github.com/koordinator-sh/koordinator/pkg/scheduler/frameworkext/helper"
)

// C19 harness `devboot` (ext2): START-UP ORDER of a restarted scheduler's deviceshare cache.
//
// One case = the objects the API server holds after a cut (Devices, bound pods with a device-allocated annotation,
// Available Reservations with the annotation on the Reservation object, some with a stale copy on spec.template) and
// one start-up of a fresh nodeDeviceCache wired with the REAL registration functions (registerDeviceEventHandler,
// registerPodEventHandler) on real shared informer factories over fake clientsets, in the production wiring (the kube
// factory behind frameworkexthelper.NewForceSyncSharedInformerFactory, the koordinator factory plain):
//
//	factories start -> stores sync (WaitForCacheSync) -> frameworkexthelper.WaitForHandlersSync returns -> first cycle
//
// A lagging listener is pinned: the informer the registration function obtains from the factory for pods (gated 0) or
// Reservations (gated 1) is a thin wrapper (pre-registered with factory.InformerFor) whose AddEventHandler* put a
// gate in front of the handler they are given and pass everything else through; while the gate is closed that listener
// cannot deliver.  The barrier (the REAL WaitForHandlersSync) is consulted with a deadline once every other collected
// registration has synced: if it is still closed the gate opens and the barrier is awaited again.  The state the first
// scheduling cycle would read is observed the moment the barrier has opened.
//
//	op   dev boot <gated> <k0> <p>^k0 <k1> <p>^k1      (after the dev inv / dev pod lines of the case)
//	obs  held <0|1>  opened <0|1>  + ledger block at barrier-open
//
// Oracle: at barrier-open the ledger (used / free / allocate set / VFs) equals the ledger of the scheduler that made
// the allocations (a cache fed every holder directly), and nothing a holder holds is free.

type c19GateInformer struct {
	cache.SharedIndexInformer
	gate chan struct{} // closed channel = gate open
	regs []cache.ResourceEventHandlerRegistration
}

type c19GatedHandler struct {
	inner cache.ResourceEventHandler
	gate  chan struct{}
}

func (g c19GatedHandler) OnAdd(obj interface{}, isInInitialList bool) {
	<-g.gate
	g.inner.OnAdd(obj, isInInitialList)
}
func (g c19GatedHandler) OnUpdate(oldObj, newObj interface{}) {
	<-g.gate
	g.inner.OnUpdate(oldObj, newObj)
}
func (g c19GatedHandler) OnDelete(obj interface{}) {
	<-g.gate
	g.inner.OnDelete(obj)
}

func (g *c19GateInformer) AddEventHandler(handler cache.ResourceEventHandler) (cache.ResourceEventHandlerRegistration, error) {
	reg, err := g.SharedIndexInformer.AddEventHandler(c19GatedHandler{handler, g.gate})
	g.regs = append(g.regs, reg)
	return reg, err
}

func (g *c19GateInformer) AddEventHandlerWithResyncPeriod(handler cache.ResourceEventHandler, resyncPeriod time.Duration) (cache.ResourceEventHandlerRegistration, error) {
	reg, err := g.SharedIndexInformer.AddEventHandlerWithResyncPeriod(c19GatedHandler{handler, g.gate}, resyncPeriod)
	g.regs = append(g.regs, reg)
	return reg, err
}

func TestVerifC19DevBoot(t *testing.T) {
	h := vOpen("C19")
	if h == nil {
		t.Skip("VERIF_OUT not set")
	}
	n := h.N(36, 200)
	for idx := 0; idx < n; idx++ {
		r := h.Begin(idx)
		if r == nil {
			continue
		}
		// 1. inventory and holder definitions (as in TestVerifC19Dev)
		inv := &c19Inventory{nNodes: r.Range(1, 2), totals: map[[3]int][3]int64{}}
		remaining := map[[4]int]int64{}
		for nd := 0; nd < inv.nNodes; nd++ {
			inv.counts[nd] = [3]int{r.Range(1, 4), r.Range(0, 2), r.Range(0, 1)}
			for ty := 0; ty < 3; ty++ {
				for m := 0; m < inv.counts[nd][ty]; m++ {
					var tot [3]int64
					if ty == 0 {
						tot = [3]int64{100, r.Pick([]int64{8, 16, 32}) << 20, 100}
					} else {
						tot = [3]int64{100, r.Pick([]int64{0, 4, 100}), r.Pick([]int64{0, 2, 50})}
					}
					inv.totals[[3]int{nd, ty, m}] = tot
					for d := 0; d < 3; d++ {
						remaining[[4]int{nd, ty, m, d}] = tot[d]
					}
					h.Op("dev inv %d %d %d %d %d %d", nd, ty, m, tot[0], tot[1], tot[2])
				}
			}
		}
		nPods := r.Range(2, 6)
		pods := make([]*c19PodDef, nPods)
		for id := 0; id < nPods; id++ {
			pods[id] = c19GenPod(h, r, id, r.Intn(inv.nNodes), inv, remaining)
		}
		var buses []string
		inv.busIdx = map[string]int{}
		for _, p := range pods {
			for _, it := range p.items {
				for _, vf := range c19ExtVFs(it.ext) {
					if _, ok := inv.busIdx[vf.BusID]; !ok {
						inv.busIdx[vf.BusID] = 0
						buses = append(buses, vf.BusID)
					}
				}
			}
		}
		sort.Strings(buses)
		for i, b := range buses {
			inv.busIdx[b] = i
		}
		for id := 0; id < nPods; id++ {
			h.Op("%s", pods[id].opLine(inv.busIdx))
		}
		// 2. what the API server holds at the cut: holders with pairwise disjoint VFs (allocateVF guarantees it);
		// every holder is a pod or (1/2) a Reservation; at least one device-holding Reservation when possible
		var holders []int
		for _, id := range r.Perm(nPods) {
			ok := !r.Chance(1, 6)
			for _, q := range holders {
				if c19VFConflict(pods[id], pods[q]) != "" {
					ok = false
				}
			}
			if ok {
				holders = append(holders, id)
			}
		}
		sort.Ints(holders)
		var podIDs, resvIDs []int
		for _, id := range holders {
			p := pods[id]
			p.isResv = r.Bool()
			if p.isResv {
				resvIDs = append(resvIDs, id)
			} else {
				podIDs = append(podIDs, id)
			}
		}
		if len(resvIDs) == 0 && len(podIDs) > 0 { // the stream is about Reservations held across a restart
			for i, id := range podIDs {
				if pods[id].allocs() != nil {
					pods[id].isResv = true
					resvIDs = append(resvIDs, id)
					podIDs = append(podIDs[:i], podIDs[i+1:]...)
					break
				}
			}
		}
		for _, id := range resvIDs {
			p := pods[id]
			if r.Chance(1, 5) {
				p.waiting = true // phase Waiting: scheduled and still active
				h.Tag("resv:waiting")
			}
			if p.allocs() != nil && r.Bool() {
				other := pods[(id+1+r.Intn(nPods-1))%nPods]
				p.staleTpl = other.allocs()
				if p.staleTpl == nil || c19AllocsDiff(p.allocs(), p.staleTpl) == "" {
					p.staleTpl = nil
				} else {
					h.Tag("resv:stale-template")
				}
			}
		}
		gated := 1
		switch x := r.Intn(8); {
		case x < 2:
			gated = 0
		case x < 3:
			gated = 2
		}
		h.Tag(fmt.Sprintf("gated:%d", gated))
		h.Tag(fmt.Sprintf("boot:pods=%d", len(podIDs)))
		h.Tag(fmt.Sprintf("boot:resvs=%d", len(resvIDs)))

		var kubeObjs, koordObjs []runtime.Object
		for nd := 0; nd < inv.nNodes; nd++ {
			koordObjs = append(koordObjs, c19Device(inv, nd))
		}
		// the scheduler that made the allocations: every holder fed directly
		live := c19NewCache(h, inv)
		for _, id := range podIDs {
			obj := c19Persist(h, pods[id])
			kubeObjs = append(kubeObjs, obj.DeepCopy())
			if live != nil {
				h.Guard(func() { live.onPodAdd(obj.DeepCopy()) })
			}
		}
		for _, id := range resvIDs {
			rv := c19PersistResv(h, pods[id], true)
			koordObjs = append(koordObjs, rv.DeepCopy())
			if live != nil {
				p := pods[id]
				h.Guard(func() { // Reserve of the reserve pod: the amounts the scheduler decided, not read from any annotation
					nd := live.getNodeDevice(c19NodeName(p.node), false)
					nd.lock.Lock()
					defer nd.lock.Unlock()
					rp := p.base.DeepCopy()
					nd.updateCacheUsed(p.allocs(), rp, true)
				})
			}
		}
		if len(resvIDs) > 0 && len(holders) < nPods && r.Chance(1, 3) {
			// a Succeeded Reservation still listed: dropped by the adapter's filter
			for id := 0; id < nPods; id++ {
				used := false
				for _, q := range holders {
					used = used || q == id
				}
				if !used {
					pods[id].isResv = true
					rv := c19PersistResv(h, pods[id], true)
					rv.Status.Phase = schedulingv1alpha1.ReservationSucceeded
					koordObjs = append(koordObjs, rv)
					h.Tag("resv:inactive")
					break
				}
			}
		}
		h.Op("dev boot %d %d %s", gated, len(podIDs), strings.TrimSpace(vIntsI(podIDs)+fmt.Sprintf(" %d ", len(resvIDs))+vIntsI(resvIDs)))
		liveSnap := c19Observe(h, live, inv, false)

		// 3. the restarted scheduler
		held, opened := false, false
		var bootSnap *c19Snap
		collected, gatedCollected := 0, 0
		if h.Guard(func() {
			frameworkexthelper.ResetRegistrations()
			kubeClient := kubefake.NewSimpleClientset(kubeObjs...)
			koordClient := koordfake.NewSimpleClientset(koordObjs...)
			inner := informers.NewSharedInformerFactory(kubeClient, 0)
			koordFactory := koordinatorinformers.NewSharedInformerFactory(koordClient, 0)
			gate := make(chan struct{})
			gateOpen := false
			openGate := func() {
				if !gateOpen {
					gateOpen = true
					close(gate)
				}
			}
			var gi *c19GateInformer
			switch gated {
			case 0:
				inner.InformerFor(&corev1.Pod{}, func(client kubernetes.Interface, resync time.Duration) cache.SharedIndexInformer {
					gi = &c19GateInformer{SharedIndexInformer: coreinformers.NewPodInformer(client, metav1.NamespaceAll, resync,
						cache.Indexers{cache.NamespaceIndex: cache.MetaNamespaceIndexFunc}), gate: gate}
					return gi
				})
			case 1:
				koordFactory.InformerFor(&schedulingv1alpha1.Reservation{}, func(client koordclientset.Interface, resync time.Duration) cache.SharedIndexInformer {
					gi = &c19GateInformer{SharedIndexInformer: schedinformers.NewReservationInformer(client, resync,
						cache.Indexers{cache.NamespaceIndex: cache.MetaNamespaceIndexFunc}), gate: gate}
					return gi
				})
			default:
				openGate()
			}
			kubeFactory := frameworkexthelper.NewForceSyncSharedInformerFactory(inner) // cmd/koord-scheduler/app/options: config.InformerFactory
			ctx, cancel := context.WithCancel(context.Background())
			defer func() {
				openGate()
				cancel()
				inner.Shutdown()
				koordFactory.Shutdown()
			}()
			fresh := newNodeDeviceCache()
			// the Device listener is the fast one: its registration is made and synced first (one legal schedule; keeps
			// the Device-before-holder order the rest of the C19 device harness uses)
			registerDeviceEventHandler(fresh, koordFactory)
			koordFactory.Start(ctx.Done())
			koordFactory.WaitForCacheSync(ctx.Done())
			c1, cc1 := context.WithTimeout(ctx, 10*time.Second)
			if err := frameworkexthelper.WaitForHandlersSync(c1); err != nil {
				cc1()
				panic("device registration never synced")
			}
			cc1()
			registerPodEventHandler(fresh, kubeFactory, koordFactory)
			kubeFactory.Start(ctx.Done())
			koordFactory.Start(ctx.Done())
			kubeFactory.WaitForCacheSync(ctx.Done())
			koordFactory.WaitForCacheSync(ctx.Done())
			// every collected registration except the pinned listener's has delivered its initial list
			mine := map[cache.ResourceEventHandlerRegistration]bool{}
			if gi != nil {
				for _, reg := range gi.regs {
					mine[reg] = true
				}
			}
			deadline := time.Now().Add(10 * time.Second)
			for {
				all := true
				collected, gatedCollected = 0, 0
				for _, reg := range frameworkexthelper.GetRegistrations() {
					collected++
					if mine[reg] {
						gatedCollected++
						continue
					}
					if !reg.HasSynced() {
						all = false
					}
				}
				if all {
					break
				}
				if time.Now().After(deadline) {
					panic("the listeners that are not pinned never synced")
				}
				time.Sleep(2 * time.Millisecond)
			}
			// the barrier the scheduler waits on before its first cycle (cmd/koord-scheduler/app/server.go)
			c2, cc2 := context.WithTimeout(ctx, 150*time.Millisecond)
			err := frameworkexthelper.WaitForHandlersSync(c2)
			cc2()
			if err != nil {
				held = true
				openGate() // the lagging listener catches up
				c3, cc3 := context.WithTimeout(ctx, 10*time.Second)
				opened = frameworkexthelper.WaitForHandlersSync(c3) == nil
				cc3()
			} else {
				opened = true
			}
			h.Obs("held %d", vB(held))
			h.Obs("opened %d", vB(opened))
			bootSnap = c19Observe(h, fresh, inv, true) // what the first Filter / Reserve reads
		}) {
			h.Obs("panic")
			h.Fail("C19:dev-boot-panic", "the start-up emulation panicked")
			h.End()
			continue
		}
		h.Tag(fmt.Sprintf("boot:collected=%d", collected))
		h.Tag(fmt.Sprintf("boot:held=%d", vB(held)))

		// ---- oracle
		if !opened {
			h.Fail("C19:dev-boot-barrier-never-opens", "WaitForHandlersSync did not return within 10 s after every listener could run")
		}
		if gated != 2 && gatedCollected == 0 {
			// not a violation by itself (the listener may have been registered some other way that the barrier covers);
			// the state comparison below decides
			h.Tag("boot:pinned-registration-not-collected")
		}
		if d := c19FirstDiff(liveSnap.lines, bootSnap.lines); d != "" {
			h.Fail("C19:dev-boot-first-cycle-before-rebuild", "when the handlers-sync barrier opened (gated listener %d, barrier held=%v, %d registrations collected, %d of them the pinned listener's) the rebuilt device ledger differs from the ledger of the scheduler that made the allocations: %s; pods %v reservations %v",
				gated, held, collected, gatedCollected, d, podIDs, resvIDs)
		}
		expected := map[[4]int]int64{}
		for _, id := range holders {
			p := pods[id]
			for _, it := range p.items {
				for i, d := range it.dims {
					expected[[4]int{p.node, it.ty, it.minor, d}] += it.amts[i]
				}
			}
		}
		keys := make([][4]int, 0, len(expected))
		for k := range expected {
			keys = append(keys, k)
		}
		sort.Slice(keys, func(i, j int) bool {
			for x := 0; x < 4; x++ {
				if keys[i][x] != keys[j][x] {
					return keys[i][x] < keys[j][x]
				}
			}
			return false
		})
		for _, k := range keys {
			var tot int64
			if tv, ok := inv.totals[[3]int{k[0], k[1], k[2]}]; ok {
				tot = tv[k[3]]
			}
			maxFree := tot - expected[k]
			if maxFree < 0 {
				maxFree = 0
			}
			if !bootSnap.panicked && (bootSnap.used[k] < expected[k] || bootSnap.free[k] > maxFree) {
				h.Fail("C19:dev-boot-taken-considered-free", "node %d type %d minor %d dim %d: holders hold %d of %d, at the first cycle the cache has used %d free %d",
					k[0], k[1], k[2], k[3], expected[k], tot, bootSnap.used[k], bootSnap.free[k])
				break
			}
		}
		if len(resvIDs) > 0 && len(podIDs) > 0 {
			h.Nontrivial()
		}
		h.End()
	}
	h.Close("one case = 1-2 nodes, 2-6 holder definitions as in the dev harness; the API server holds Devices, bound annotated pods and Available Reservations (>= 1 when possible; ~1/2 of the device-holding ones with a stale device-allocated annotation on spec.template; 1/3 an extra Succeeded Reservation). A fresh nodeDeviceCache is wired with the real registerDeviceEventHandler / registerPodEventHandler on real informer factories over fake clientsets (kube factory behind NewForceSyncSharedInformerFactory), the Reservation (5/8) or pod (2/8) listener pinned by a gate in front of the handler (1/8 none), start-up order factory start -> WaitForCacheSync -> real WaitForHandlersSync (150 ms deadline; gate opens if it held) -> observe. Non-trivial = pods and Reservations both hold devices")
}
