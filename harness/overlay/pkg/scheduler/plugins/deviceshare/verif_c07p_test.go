//go:build verif

package deviceshare

import (
	"context"
	"encoding/json"
	"fmt"
	"sort"
	"time"

	corev1 "k8s.io/api/core/v1"
	"k8s.io/apimachinery/pkg/api/resource"
	metav1 "k8s.io/apimachinery/pkg/apis/meta/v1"
	fwktype "k8s.io/kube-scheduler/framework"
	"k8s.io/kubernetes/pkg/scheduler/framework"

	"testing"

	apiext "github.com/koordinator-sh/koordinator/apis/extension"
	schedulingv1alpha1 "github.com/koordinator-sh/koordinator/apis/scheduling/v1alpha1"
)

// ---------------------------------------------------------------------------------------------------------------
// C07 extension 8: the GPU-PARTITION path of the GPU allocator (allocator_gpu.go allocateByPartition) on the real
// PreFilter -> Filter -> Reserve path.  The Device object carries a GPU partition table (annotation gpu-partitions:
// partitions of sizes 1 / 2 / 4 (/ 8) over 4-8 GPUs, aligned blocks plus random subsets, possibly naming a minor the
// node does not report at all) and, in half of the cases, the label gpu-partition-policy=Honor; pods request WHOLE GPUs
// (nvidia.com/gpu n, koordinator.sh/gpu 100n, gpu-core + gpu-memory-ratio 100n), half of them with the pod annotation
// gpu-partition-spec ({} / BestEffort / Restricted), or a FRACTION of one GPU (which leaves a partially used GPU behind);
// some GPUs are unhealthy (zero total) from the start or become so / recover by a health refresh, pods are released by
// Unreserve / deleted.  The partition path never reads deviceFree: whatever partition it picks is committed.
// Oracle (the existing clauses of the path stream, on the value ledger BEFORE the commit): every allocated minor is
// healthy and had the whole per-GPU amount free, the minors are distinct and as many as requested, the commit does not
// raise used above total (checkLedger "commit", sched_no_overcommit), and a refusal is justified: with the partition
// table honoured (node label or pod annotation) and whole GPUs requested, no partition of that size consists of healthy,
// completely unused GPUs; otherwise fewer GPUs qualify than requested.
// Correspondence: the verdict is replayed by the Lean model (`alloc` mode 1: sound / complete) except for a refusal the
// partition table alone explains (more GPUs qualify than requested but no partition is feasible) - the model has no
// partition table, that refusal is judged by the Go oracle only (tag partition:refused-by-table).
// ---------------------------------------------------------------------------------------------------------------

func TestVerifC07Partition(t *testing.T) {
	h := vOpen("C07")
	if h == nil {
		t.Skip("VERIF_OUT not set")
	}
	node := &corev1.Node{ObjectMeta: metav1.ObjectMeta{Name: c07Node}}
	suit := newPluginTestSuit(t, []*corev1.Node{node})
	p, err := suit.proxyNew(context.TODO(), getDefaultArgs(), suit.Framework)
	if err != nil {
		t.Fatalf("plugin: %v", err)
	}
	pl := p.(*Plugin)
	nodeInfo := framework.NewNodeInfo()
	nodeInfo.SetNode(node)

	n := h.N(300, 6000)
	lockProbes := 0 // the first 8 Unreserve steps of the run carry the lock witness (40 ms each)
	for idx := 0; idx < n; idx++ {
		r := h.Begin(idx)
		if r == nil {
			continue
		}
		pl.nodeDeviceCache = newNodeDeviceCache()
		c := &c07Case{h: h, r: r, cache: pl.nodeDeviceCache, exact: true, histX: true, sched: true, nextPod: 1, cur: &c07Ledger{rows: map[[2]int]*c07Row{}, pods: map[[2]int]map[int]c07Vals{}}}
		for tt := 0; tt < 3; tt++ {
			c.live[tt] = map[int][]c07Alloc{}
		}
		c.inPlay = []int{0}
		c.da[0] = 3
		ng := r.Range(4, 8)
		mem := int64(r.Pick([]int64{16 << 30, 80 << 30}))
		for i := 0; i < ng; i++ {
			c.inv[0] = append(c.inv[0], c07Dev{minor: i, healthy: !r.Chance(1, 5), res: c07Vec{100, mem, 100}, numa: -1})
		}
		// the partition table: per size aligned blocks (a block may reach beyond the GPUs the node reports) plus random subsets
		table := apiext.GPUPartitionTable{}
		sizes := []int{1, 2, 4}
		if ng == 8 && r.Chance(1, 2) {
			sizes = append(sizes, 8)
		}
		for _, sz := range sizes {
			if r.Chance(1, 8) {
				h.Tag("partition:table-lacks-a-size")
				continue
			}
			var ps []apiext.GPUPartition
			for b := 0; b < 8 && b < ng; b += sz {
				if r.Chance(1, 6) {
					continue
				}
				var ms []int
				for m := b; m < b+sz; m++ {
					ms = append(ms, m)
				}
				ps = append(ps, apiext.GPUPartition{Minors: ms, GPULinkType: apiext.GPUNVLink})
			}
			if sz > 1 && sz < 8 {
				for k, extra := 0, r.Range(0, 2); k < extra; k++ {
					perm := r.Perm(ng)
					ms := append([]int(nil), perm[:sz]...)
					sort.Ints(ms)
					ps = append(ps, apiext.GPUPartition{Minors: ms, GPULinkType: apiext.GPUNVLink})
				}
			}
			if len(ps) > 0 {
				table[sz] = ps
			}
		}
		raw, _ := json.Marshal(table)
		c.devAnn = map[string]string{apiext.AnnotationGPUPartitions: string(raw)}
		nodeHonor := r.Chance(1, 2)
		if nodeHonor {
			c.devLbl = map[string]string{apiext.LabelGPUPartitionPolicy: string(apiext.GPUPartitionPolicyHonor)}
			h.Tag("partition:node-policy-honor")
		} else {
			h.Tag("partition:node-policy-prefer")
		}
		c.applyInventory(false)

		var pods []*c07PathPod
		scheduled := 0
		schedPod := func(id, cnt int, req c07Vec, podReq corev1.ResourceList, spec string, perm []int) {
			pod := c07Pod(id, nil, "")
			if spec != "" {
				pod.Annotations = map[string]string{apiext.AnnotationGPUPartitionSpec: spec}
			}
			if perm != nil { // device hint: only the GPUs whose label is selected may be used
				var vals []string
				for _, m := range perm {
					vals = append(vals, fmt.Sprintf("m%d", m))
				}
				_ = apiext.SetDeviceAllocateHints(pod, apiext.DeviceAllocateHints{schedulingv1alpha1.GPU: &apiext.DeviceHint{Selector: &metav1.LabelSelector{
					MatchExpressions: []metav1.LabelSelectorRequirement{{Key: "verif-minor", Operator: metav1.LabelSelectorOpIn, Values: vals}}}}})
				h.Tag("partition:pod-device-hint-selector")
			}
			pod.Spec.Containers = []corev1.Container{{Name: "c", Resources: corev1.ResourceRequirements{Requests: podReq, Limits: podReq}}}
			cs := framework.NewCycleState()
			var fst *fwktype.Status
			var result apiext.DeviceAllocations
			reserved := false
			if h.Guard(func() {
				if _, st := pl.PreFilter(context.TODO(), cs, pod, nil); !st.IsSuccess() {
					fst = st
					return
				}
				fst = pl.Filter(context.TODO(), cs, pod, nodeInfo)
				if !fst.IsSuccess() {
					return
				}
				if st := pl.Reserve(context.TODO(), cs, pod, c07Node); !st.IsSuccess() {
					fst = st
					return
				}
				reserved = true
				if state, st := getPreFilterState(cs); st.IsSuccess() {
					result = state.allocationResult
				}
			}) {
				h.Op("alloc 0 1 %d 0 %s %s 0 0 0 0", cnt, req.tok(), c07IntsTok(perm))
				h.Obs("panic")
				return
			}
			h.Tag("entry:Plugin.PreFilter+Filter+Reserve")
			whole := req == c07Vec{100, -1, 100}
			honor := nodeHonor || spec != ""
			q := &c07Request{t: 0, req: req, desired: cnt, required: perm}
			res := c07ResultOf(0, result[schedulingv1alpha1.GPU], !reserved)
			before := c.cur
			qual := c07Qualifying(before, q)
			for m := range qual {
				if before.row(0, m).t == (c07Vals{}) {
					delete(qual, m) // unhealthy / zero device
				}
			}
			// a feasible partition: every minor healthy and completely unused
			var feasible []int
			hasSize := false
			if ps, ok := table[cnt]; ok {
				hasSize = true
				for _, pt := range ps {
					good := true
					for _, m := range pt.Minors {
						row := before.row(0, m)
						if row.t == (c07Vals{}) || row.u != (c07Vals{}) {
							good = false
						}
						if perm != nil {
							in := false
							for _, x := range perm {
								in = in || x == m
							}
							good = good && in
						}
					}
					if good && feasible == nil {
						feasible = pt.Minors
					}
				}
			}
			if whole && honor {
				h.Tag("partition:honoured-whole-gpu-request")
			} else if whole {
				h.Tag("partition:preferred-whole-gpu-request")
			} else {
				h.Tag("partition:shared-request-general-path")
			}
			byTable := !res.ok && whole && honor && len(qual) >= cnt
			if byTable {
				// the model has no partition table: this refusal is judged by the Go oracle alone
				h.Tag("partition:refused-by-table")
				if !hasSize {
					h.Tag("partition:refused-size-not-in-table")
				}
				if feasible != nil {
					h.Fail("C07:alloc-incomplete", "request %v x%d refused (%v) although partition %v of the honoured table consists of healthy, unused GPUs", req, cnt, fst, feasible)
				}
				h.Tag("alloc:fail")
				return
			}
			h.Op("alloc 0 1 %d 0 %s %s 0 0 %d %s", cnt, req.tok(), c07IntsTok(perm), vB(res.ok), c07IntsTok(res.minors))
			if !res.ok {
				h.Obs("alloc fail")
				h.Tag("alloc:fail")
				if len(qual) >= cnt {
					h.Fail("C07:alloc-incomplete", "request %v x%d refused (%v) although GPUs %v qualify", req, cnt, fst, qual)
				}
				return
			}
			ms := append([]int(nil), res.minors...)
			sort.Ints(ms)
			h.Obs("alloc ok %d %s", len(ms), vIntsI(ms))
			cov := true
			for _, m := range res.minors {
				row := before.rows[[2]int{0, m}]
				if row == nil || !row.hasF {
					cov = false
					continue
				}
				for k := 0; k < c07D; k++ {
					if req[k] >= 0 && !row.fp[k] {
						cov = false
					}
				}
			}
			h.Obs("cov %d", vB(cov))
			h.Tag("alloc:ok")
			if whole {
				inTable := false
				for _, pt := range table[cnt] {
					x := append([]int(nil), pt.Minors...)
					sort.Ints(x)
					if fmt.Sprint(x) == fmt.Sprint(ms) {
						inTable = true
					}
				}
				if inTable {
					h.Tag("partition:allocated-a-table-entry")
				} else if honor {
					h.Tag("partition:honoured-but-not-a-table-entry")
				} else {
					h.Tag("partition:fell-back-to-general-allocation")
				}
			}
			seen := map[int]bool{}
			for _, m := range res.minors {
				if seen[m] {
					h.Fail("C07:alloc-unsound:duplicate-minor", "minor %d returned twice", m)
				}
				seen[m] = true
				if !qual[m] {
					row := before.row(0, m)
					if perm != nil && row.t != (c07Vals{}) && req.val(0) <= row.f[0] && req.val(2) <= row.f[2] {
						h.Fail("C07:alloc-unsound:minor-not-permitted", "GPU %d chosen (partition path, honour=%v) for per-GPU request %v although the pod's device hint admits only GPUs %v", m, honor, req, perm)
						continue
					}
					h.Fail("C07:alloc-unsound:not-enough-free", "GPU %d chosen (partition path, honour=%v, GPUs the pod's device hint admits: %v (nil = all)) for per-GPU request %v: free %v total %v used %v", m, honor, perm, req, row.f, row.t, row.u)
				}
			}
			if len(res.minors) != cnt {
				h.Fail("C07:alloc-unsound:count", "%d GPUs returned, %d requested", len(res.minors), cnt)
			}
			g := c07GroupsOf(result)
			for _, a := range g[0] {
				for k := 0; k < c07D; k++ {
					if req[k] >= 0 && a.vec[k] != req[k] {
						h.Fail("C07:alloc-unsound:amount", "GPU %d allocated %v, per-GPU request %v", a.minor, a.vec, req)
					}
				}
			}
			for _, a := range g[0] {
				rr := before.rows[[2]int{0, a.minor}]
				if !c07MemPairCheck(h, fmt.Sprintf("pod %d (%d GPU x %v)", id, cnt, req), a.minor, req, a.vec, before.row(0, a.minor).t[1], rr != nil && rr.tp[1] && rr.tp[2]) {
					break
				}
			}
			c07FillObs(h, g[0], req)
			h.Op("add %d %s", id, g.tok())
			for _, tt := range g.types() {
				c.noteAdd(tt, id, g[tt], before)
			}
			c.cur = c.emitLedger()
			c.checkLedger("commit", before, c.cur)
			pods = append(pods, &c07PathPod{id: id, pod: pod, cs: cs, alloc: result, g: g})
			scheduled++
			h.Tag("op:commit")
		}

		steps := r.Range(4, 10)
		for s := 0; s < steps; s++ {
			x := r.Intn(100)
			switch {
			case x < 62: // schedule a new pod
				id := c.nextPod
				c.nextPod++
				spec := ""
				if r.Chance(1, 2) {
					spec = []string{`{}`, `{"allocatePolicy":"BestEffort"}`, `{"allocatePolicy":"Restricted"}`}[r.Intn(3)]
					h.Tag("partition:pod-spec-annotation")
				}
				var perm []int
				if r.Chance(1, 4) { // a device hint admits only some of the reported GPUs
					pm := r.Perm(ng)
					perm = append([]int(nil), pm[:r.Range(1, ng-1)]...)
					sort.Ints(perm)
				}
				podReq := corev1.ResourceList{}
				if r.Chance(1, 5) { // a fraction of one GPU: leaves a partially used GPU behind (shared request: general path)
					v := int64(r.Pick([]int64{30, 50}))
					podReq[apiext.ResourceGPUCore] = *resource.NewQuantity(v, resource.DecimalSI)
					podReq[apiext.ResourceGPUMemoryRatio] = *resource.NewQuantity(v, resource.DecimalSI)
					h.Tag("shape:core+ratio-fraction")
					schedPod(id, 1, c07Vec{v, -1, v}, podReq, spec, perm)
					continue
				}
				cnt := int(r.Pick([]int64{1, 2, 2, 4, 1, 2, 3}))
				if ng == 8 && r.Chance(1, 10) {
					cnt = 8
				}
				switch r.Intn(3) {
				case 0:
					podReq[apiext.ResourceNvidiaGPU] = *resource.NewQuantity(int64(cnt), resource.DecimalSI)
					h.Tag("shape:nvidia-gpu")
				case 1:
					podReq[apiext.ResourceGPU] = *resource.NewQuantity(100*int64(cnt), resource.DecimalSI)
					h.Tag("shape:koord-gpu")
				default:
					podReq[apiext.ResourceGPUCore] = *resource.NewQuantity(100*int64(cnt), resource.DecimalSI)
					podReq[apiext.ResourceGPUMemoryRatio] = *resource.NewQuantity(100*int64(cnt), resource.DecimalSI)
					h.Tag("shape:core+ratio")
				}
				h.Tag(fmt.Sprintf("partition:request-%d-gpus", cnt))
				schedPod(id, cnt, c07Vec{100, -1, 100}, podReq, spec, perm)
			case x < 74: // binding failed: Unreserve
				if len(pods) == 0 {
					continue
				}
				i := r.Intn(len(pods))
				pp := pods[i]
				g := c07GroupsOf(pp.alloc)
				h.Op("rem %d %s", pp.id, g.tok())
				before := c.cur
				panicked := false
				if nd := c.nd(); nd != nil && lockProbes < 8 {
					// lock witness (deterministic): Unreserve mutates the ledger, so it must exclude readers.  The test HOLDS the
					// node device's read lock, starts Unreserve and waits 40 ms: with the write lock Unreserve cannot return
					// before the read lock is released; if it does, the ledger was changed under a reader's eyes.
					lockProbes++
					nd.lock.RLock()
					done := make(chan bool, 1)
					go func() { done <- h.Guard(func() { pl.Unreserve(context.TODO(), pp.cs, pp.pod, c07Node) }) }()
					early := false
					select {
					case panicked = <-done:
						early = true
					case <-time.After(40 * time.Millisecond):
					}
					nd.lock.RUnlock()
					if !early {
						panicked = <-done
					}
					h.Tag("lock:unreserve-probed-under-held-read-lock")
					if early && !panicked {
						h.Fail("C07:unreserve-under-read-lock", "Plugin.Unreserve of pod %d (%s) returned while the test held nodeDevice.lock.RLock(): the in-use ledger is modified without excluding readers", pp.id, g.tok())
					}
				} else {
					panicked = h.Guard(func() { pl.Unreserve(context.TODO(), pp.cs, pp.pod, c07Node) })
				}
				if panicked {
					h.Obs("panic")
					continue
				}
				h.Tag("entry:Plugin.Unreserve")
				for _, tt := range g.types() {
					c.noteRemove(tt, pp.id, g[tt])
				}
				c.cur = c.emitLedger()
				c.checkLedger("release", before, c.cur)
				pods = append(pods[:i:i], pods[i+1:]...)
				h.Tag("op:release")
			case x < 84: // the pod is deleted (the annotation PreBind would have written)
				if len(pods) == 0 {
					continue
				}
				i := r.Intn(len(pods))
				pp := pods[i]
				g := pp.g
				h.Op("del %d 1 %s", pp.id, g.tok())
				before := c.cur
				if h.Guard(func() { c.cache.onPodDelete(c07Pod(pp.id, g.api(), c07Node)) }) {
					h.Obs("panic")
					continue
				}
				h.Tag("entry:onPodDelete")
				for _, tt := range g.types() {
					c.noteRemove(tt, pp.id, g[tt])
				}
				c.cur = c.emitLedger()
				c.checkLedger("release", before, c.cur)
				pods = append(pods[:i:i], pods[i+1:]...)
				h.Tag("op:release")
			default: // inventory refresh: a GPU turns unhealthy / recovers (the table and the policy stay)
				i := r.Intn(len(c.inv[0]))
				c.inv[0][i].healthy = !c.inv[0][i].healthy
				c.applyInventory(false)
				h.Tag("op:refresh")
			}
		}
		if scheduled > 0 {
			h.Nontrivial()
		}
		h.End()
	}
	h.Close("extension 8, GPU-partition path on the real scheduling path: one node with 4-8 GPUs (1 in 5 unhealthy), a GPU partition table on the Device (sizes 1/2/4(/8): aligned blocks, " +
		"random subsets, blocks naming unreported minors, sizes missing), node policy Honor in half of the cases, pods requesting 1/2/3/4/8 WHOLE GPUs (three spec shapes, half with the gpu-partition-spec annotation) " +
		"or a fraction of one GPU, 1 pod in 4 with a device-hint selector admitting only some GPUs; 4-10 steps of PreFilter+Filter+Reserve, Unreserve, pod deletion, health refresh. Oracle: every allocated minor healthy with the whole amount free, distinct, counted, " +
		"no over-commit by the commit; a refusal is justified by the honoured table (no partition of healthy unused GPUs) or by too few qualifying GPUs. The first 8 Unreserve steps run while the test holds the node device's READ lock (Unreserve must not return before it is released). non-trivial = at least one pod was reserved; distinct by op list")
}
