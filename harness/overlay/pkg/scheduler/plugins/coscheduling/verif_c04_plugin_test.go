//go:build verif

package coscheduling

import (
	"context"
	"fmt"
	"sort"
	"strconv"
	"strings"
	"sync"
	"testing"
	"time"

	corev1 "k8s.io/api/core/v1"
	metav1 "k8s.io/apimachinery/pkg/apis/meta/v1"
	apiruntime "k8s.io/apimachinery/pkg/runtime"
	"k8s.io/apimachinery/pkg/types"
	"k8s.io/client-go/informers"
	coreinformers "k8s.io/client-go/informers/core/v1"
	"k8s.io/client-go/kubernetes"
	kubefake "k8s.io/client-go/kubernetes/fake"
	k8scache "k8s.io/client-go/tools/cache"
	"k8s.io/client-go/tools/record"
	fwktype "k8s.io/kube-scheduler/framework"
	"k8s.io/kubernetes/pkg/scheduler/framework"
	"k8s.io/kubernetes/pkg/scheduler/framework/plugins/defaultbinder"
	"k8s.io/kubernetes/pkg/scheduler/framework/plugins/queuesort"
	"k8s.io/kubernetes/pkg/scheduler/framework/runtime"
	schedulertesting "k8s.io/kubernetes/pkg/scheduler/testing/framework"

	"github.com/koordinator-sh/koordinator/apis/extension"
	"github.com/koordinator-sh/koordinator/apis/thirdparty/scheduler-plugins/pkg/apis/scheduling/v1alpha1"
	pgclientset "github.com/koordinator-sh/koordinator/apis/thirdparty/scheduler-plugins/pkg/generated/clientset/versioned"
	fakepgclientset "github.com/koordinator-sh/koordinator/apis/thirdparty/scheduler-plugins/pkg/generated/clientset/versioned/fake"
	koordfake "github.com/koordinator-sh/koordinator/pkg/client/clientset/versioned/fake"
	koordinatorinformers "github.com/koordinator-sh/koordinator/pkg/client/informers/externalversions"
	schedconfig "github.com/koordinator-sh/koordinator/pkg/scheduler/apis/config"
	schedconfigv1 "github.com/koordinator-sh/koordinator/pkg/scheduler/apis/config/v1"
	"github.com/koordinator-sh/koordinator/pkg/scheduler/frameworkext"
	frameworkexthelper "github.com/koordinator-sh/koordinator/pkg/scheduler/frameworkext/helper"
	"github.com/koordinator-sh/koordinator/pkg/scheduler/plugins/coscheduling/core"
)

// C04 plugin harness.  The SAME model and the SAME property as the core harness, but nothing is faked on the way:
//   * the plugin is built by New() inside a real scheduler framework (k8s.io/kubernetes/pkg/scheduler/framework/runtime)
//     with the framework's own waiting-pod map; Permit / Unreserve / PostBind run through RunPermitPlugins /
//     RunReservePluginsUnreserve / RunPostBindPlugins, i.e. through the glue of coscheduling.go (Permit's switch with
//     AllowGangGroup on Success, the delegating Unreserve / PostBind / AfterPostFilter);
//   * pod and PodGroup events are written to fake clientsets and reach the GangCache through the informers wired by
//     core.NewPodGroupManager (the harness waits until the cache shows the event's revision before the next op).
// The only instrumentation is a handle wrapper that records which waiting pods the plugin Allows / Rejects.
// After Allow / Reject the harness plays the pod's binding goroutine: WaitOnPermit returns and takes the pod out
// of the waiting map.

type c04pRec struct{ allowed, rejected []int }

type c04pWP struct {
	fwktype.WaitingPod
	rec *c04pRec
}

func c04pPodIdx(pod *corev1.Pod) int {
	n, err := strconv.Atoi(strings.TrimPrefix(pod.Name, "p"))
	if err != nil {
		return -1
	}
	return n
}

func (w *c04pWP) Allow(pluginName string) {
	w.rec.allowed = append(w.rec.allowed, c04pPodIdx(w.GetPod()))
	w.WaitingPod.Allow(pluginName)
}
func (w *c04pWP) Reject(pluginName, msg string) {
	w.rec.rejected = append(w.rec.rejected, c04pPodIdx(w.GetPod()))
	w.WaitingPod.Reject(pluginName, msg)
}

type c04pHandle struct {
	frameworkext.ExtendedHandle
	pgclientset.Interface
	koordInformerFactory koordinatorinformers.SharedInformerFactory
	rec                  *c04pRec
}

func (h *c04pHandle) KoordinatorSharedInformerFactory() koordinatorinformers.SharedInformerFactory {
	return h.koordInformerFactory
}
func (h *c04pHandle) IterateOverWaitingPods(cb func(fwktype.WaitingPod)) {
	h.ExtendedHandle.IterateOverWaitingPods(func(wp fwktype.WaitingPod) { cb(&c04pWP{WaitingPod: wp, rec: h.rec}) })
}

// The pod informer of the framework's factory is a capture wrapper around the ordinary (running) pod informer,
// pre-registered through InformerFor: events flow as usual, and every handler anybody registers on it — in particular the
// one core.NewPodGroupManager registers — is recorded, so that the tombstone stream can hand a delete to the registered
// handlers in the shape a re-list produces (cache.DeletedFinalStateUnknown by value), which a fake clientset never does.
type c04pCapInformer struct {
	k8scache.SharedIndexInformer
	mu  sync.Mutex
	got []k8scache.ResourceEventHandler
}

func (c *c04pCapInformer) record(h k8scache.ResourceEventHandler) {
	c.mu.Lock()
	c.got = append(c.got, h)
	c.mu.Unlock()
}
func (c *c04pCapInformer) AddEventHandler(h k8scache.ResourceEventHandler) (k8scache.ResourceEventHandlerRegistration, error) {
	c.record(h)
	return c.SharedIndexInformer.AddEventHandler(h)
}
func (c *c04pCapInformer) AddEventHandlerWithResyncPeriod(h k8scache.ResourceEventHandler, d time.Duration) (k8scache.ResourceEventHandlerRegistration, error) {
	c.record(h)
	return c.SharedIndexInformer.AddEventHandlerWithResyncPeriod(h, d)
}
func (c *c04pCapInformer) AddEventHandlerWithOptions(h k8scache.ResourceEventHandler, o k8scache.HandlerOptions) (k8scache.ResourceEventHandlerRegistration, error) {
	c.record(h)
	return c.SharedIndexInformer.AddEventHandlerWithOptions(h, o)
}
func (c *c04pCapInformer) handlers() []k8scache.ResourceEventHandler {
	c.mu.Lock()
	defer c.mu.Unlock()
	return append([]k8scache.ResourceEventHandler(nil), c.got...)
}

// what client-go hands to OnDelete for an object whose deletion is noticed on re-list: produced by a real cache.DeltaFIFO
// (known-objects store holding `obj`, Replace with the empty list)
func c04pTombstone(obj interface{}) interface{} {
	store := k8scache.NewStore(k8scache.MetaNamespaceKeyFunc)
	if err := store.Add(obj); err != nil {
		return nil
	}
	fifo := k8scache.NewDeltaFIFOWithOptions(k8scache.DeltaFIFOOptions{KeyFunction: k8scache.MetaNamespaceKeyFunc, KnownObjects: store})
	if err := fifo.Replace(nil, "2"); err != nil {
		return nil
	}
	fifo.Close() // Pop must not block when nothing was queued
	var out interface{}
	_, _ = fifo.Pop(func(d interface{}, _ bool) error {
		if ds, ok := d.(k8scache.Deltas); ok {
			for _, delta := range ds {
				if delta.Type == k8scache.Deleted {
					out = delta.Object
				}
			}
		}
		return nil
	})
	return out
}

type c04pSuit struct {
	podCap *c04pCapInformer
	fh     framework.Framework
	plugin *Coscheduling
	cs     *kubefake.Clientset
	pgcs   *fakepgclientset.Clientset
	rec    *c04pRec
	stop   chan struct{}
}

func c04pDfltStr(d int) string {
	switch d {
	case 0:
		return extension.GangMatchPolicyOnlyWaiting
	case 1:
		return extension.GangMatchPolicyWaitingAndRunning
	case 2:
		return extension.GangMatchPolicyOnceSatisfied
	}
	return ""
}

// c04pArgs: the plugin's arguments as a scheduler configuration file yields them — a v1 CoschedulingArgs with
// `defaultMatchPolicy: <d>` (d = 2: the key is left out, so v1 defaulting has to supply once-satisfied; d = 3: the key is
// written with the empty string), run through SetDefaults_CoschedulingArgs and converted to the internal type.
func c04pArgs(dflt int) (*schedconfig.CoschedulingArgs, error) {
	var v1args schedconfigv1.CoschedulingArgs
	if dflt != 2 {
		s := c04pDfltStr(dflt)
		v1args.DefaultMatchPolicy = &s
	}
	schedconfigv1.SetDefaults_CoschedulingArgs(&v1args)
	var args schedconfig.CoschedulingArgs
	if err := schedconfigv1.Convert_v1_CoschedulingArgs_To_config_CoschedulingArgs(&v1args, &args, nil); err != nil {
		return nil, err
	}
	return &args, nil
}

func c04pNewSuit(dflt int) (*c04pSuit, error) {
	frameworkexthelper.ResetRegistrations()
	su := &c04pSuit{cs: kubefake.NewSimpleClientset(), pgcs: fakepgclientset.NewSimpleClientset(), rec: &c04pRec{}, stop: make(chan struct{})}
	var plugin fwktype.Plugin
	proxyNew := func(_ context.Context, _ apiruntime.Object, handle fwktype.Handle) (fwktype.Plugin, error) {
		args, err := c04pArgs(dflt)
		if err != nil {
			return nil, err
		}
		koordClient := koordfake.NewSimpleClientset()
		koordInformerFactory := koordinatorinformers.NewSharedInformerFactory(koordClient, 0)
		extenderFactory, err := frameworkext.NewFrameworkExtenderFactory(
			frameworkext.WithKoordinatorClientSet(koordClient),
			frameworkext.WithKoordinatorSharedInformerFactory(koordInformerFactory))
		if err != nil {
			return nil, err
		}
		extender := extenderFactory.NewFrameworkExtender(handle.(framework.Framework))
		p, err := New(context.Background(), args, &c04pHandle{ExtendedHandle: extender, Interface: su.pgcs,
			koordInformerFactory: koordInformerFactory, rec: su.rec})
		plugin = p
		return p, err
	}
	registered := []schedulertesting.RegisterPluginFunc{
		schedulertesting.RegisterBindPlugin(defaultbinder.Name, defaultbinder.New),
		schedulertesting.RegisterQueueSortPlugin(queuesort.Name, queuesort.New),
		schedulertesting.RegisterPluginAsExtensions(Name, proxyNew, "PreEnqueue", "PreFilter", "Reserve", "Permit", "PostBind"),
	}
	informerFactory := informers.NewSharedInformerFactory(su.cs, 0)
	informerFactory.InformerFor(&corev1.Pod{}, func(client kubernetes.Interface, resync time.Duration) k8scache.SharedIndexInformer {
		su.podCap = &c04pCapInformer{SharedIndexInformer: coreinformers.NewFilteredPodInformer(client, metav1.NamespaceAll, resync,
			k8scache.Indexers{k8scache.NamespaceIndex: k8scache.MetaNamespaceIndexFunc}, nil)}
		return su.podCap
	})
	fh, err := schedulertesting.NewFramework(context.TODO(), registered, "koord-scheduler",
		runtime.WithClientSet(su.cs),
		runtime.WithInformerFactory(informerFactory),
		runtime.WithSnapshotSharedLister(newTestSharedLister(nil, nil)),
		runtime.WithEventRecorder(record.NewEventRecorderAdapter(record.NewFakeRecorder(1024))),
		runtime.WithWaitingPods(runtime.NewWaitingPodsMap()),
	)
	if err != nil {
		return nil, err
	}
	gp, ok := plugin.(*Coscheduling)
	if !ok {
		return nil, fmt.Errorf("plugin is %T", plugin)
	}
	su.fh, su.plugin = fh, gp
	if su.podCap == nil || len(su.podCap.handlers()) == 0 {
		return nil, fmt.Errorf("no event handler was registered on the pod informer of the framework's informer factory")
	}
	fh.SharedInformerFactory().Start(su.stop)
	fh.SharedInformerFactory().WaitForCacheSync(su.stop)
	gp.pgInformerFactory.Start(su.stop)
	gp.pgInformerFactory.WaitForCacheSync(su.stop)
	if eh, ok := gp.frameworkHandler.(frameworkext.ExtendedHandle); ok {
		eh.KoordinatorSharedInformerFactory().Start(su.stop)
		eh.KoordinatorSharedInformerFactory().WaitForCacheSync(su.stop)
	}
	ctx, cancel := context.WithTimeout(context.Background(), 30*time.Second)
	defer cancel()
	if err := frameworkexthelper.WaitForHandlersSync(ctx); err != nil {
		return nil, err
	}
	return su, nil
}

type c04pCfg struct {
	// pol (the match-policy annotation): 0 only-waiting 1 waiting-and-running 2 once-satisfied 3 absent 4 illegal 5 "" (present, empty)
	// mode: 0 NonStrict 1 Strict (spelled exactly) 2 absent 3 another string 4 "" 5 Strict in another letter case 6 NonStrict in another letter case
	min, pol, mode int
	al             int // the ALIAS match-policy annotation: 0 absent, 1 + a pol token otherwise
	group          []int
	gshape         int // 0 absent 1 "" 2 null 3 [] 4 list 5 not JSON
}

func (c c04pCfg) aliasTok() int {
	if c.al == 0 {
		return 3
	}
	return c.al - 1
}

// the match policy the configuration DECLARES (harness' own reading): the annotation, or its alias when the annotation is
// missing or empty; -1 = no legal policy declared; ambiguous = both carry a value and disagree (not judged by the oracle)
func (c c04pCfg) declaredPol() (int, bool) {
	a, b := c.pol, c.aliasTok()
	none := func(t int) bool { return t == 3 || t == 5 }
	switch {
	case none(a) && none(b):
		return -1, false
	case none(a):
		a = b
	case !none(b) && a != b:
		return -1, true
	}
	if a <= 2 {
		return a, false
	}
	return -1, false
}

// the policy in force: the declared one, else the scheduler's CONFIGURED default (nothing configured: once-satisfied)
func (c c04pCfg) effPol(dflt int) (int, bool) {
	pol, amb := c.declaredPol()
	if pol < 0 {
		pol = dflt
		if pol > 2 {
			pol = 2
		}
	}
	return pol, amb
}

func (c c04pCfg) respell(r *vRand) c04pCfg {
	c.al = 0
	switch {
	case c.pol <= 2 && r.Chance(1, 4):
		c.al, c.pol = c.pol+1, []int{3, 3, 3, 5}[r.Intn(4)]
	case c.pol == 3 && r.Chance(1, 5):
		switch r.Intn(3) {
		case 0:
			c.pol = 5
		case 1:
			c.al = 6
		default:
			c.pol, c.al = 5, 6
		}
	case c.pol == 4 && r.Chance(1, 5):
		c.pol, c.al = []int{3, 5}[r.Intn(2)], 5
	case c.pol != 3 && r.Chance(1, 16):
		c.al = []int{1, 2, 3, 5}[r.Intn(4)]
	}
	return c
}

func c04pPolStr(t int) (string, bool) {
	switch t {
	case 0:
		return extension.GangMatchPolicyOnlyWaiting, true
	case 1:
		return extension.GangMatchPolicyWaitingAndRunning, true
	case 2:
		return extension.GangMatchPolicyOnceSatisfied, true
	case 3:
		return "", false
	case 5:
		return "", true
	}
	return "sometimes", true
}

func (c c04pCfg) declaredGroup(self int) []int {
	if c.gshape == 4 && len(c.group) > 0 {
		return append([]int(nil), c.group...)
	}
	return []int{self}
}

func (c c04pCfg) toks() string {
	grp := c.group
	if c.gshape != 4 {
		grp = nil
	}
	return fmt.Sprintf("%d %d %d %d %d %d %s", c.min, c.pol, c.aliasTok(), c.mode, c.gshape, len(grp), vIntsI(grp))
}

func (c c04pCfg) annotate(ann map[string]string, ns string, r *vRand) {
	if s, ok := c04pPolStr(c.pol); ok {
		ann[extension.AnnotationGangMatchPolicy] = s
	}
	if s, ok := c04pPolStr(c.aliasTok()); ok {
		ann[extension.AnnotationAliasGangMatchPolicy] = s
	}
	switch c.mode {
	case 0:
		ann[extension.AnnotationGangMode] = extension.GangModeNonStrict
	case 1:
		ann[extension.AnnotationGangMode] = extension.GangModeStrict
	case 3:
		ann[extension.AnnotationGangMode] = []string{"Lenient", "Strict ", "non-strict", "0"}[r.Intn(4)]
	case 4:
		ann[extension.AnnotationGangMode] = ""
	case 5:
		ann[extension.AnnotationGangMode] = []string{"strict", "STRICT", "sTRICT"}[r.Intn(3)]
	case 6:
		ann[extension.AnnotationGangMode] = []string{"nonstrict", "NONSTRICT", "nonStrict"}[r.Intn(3)]
	}
	switch c.gshape {
	case 1:
		ann[extension.AnnotationGangGroups] = ""
	case 2:
		ann[extension.AnnotationGangGroups] = "null"
	case 3:
		ann[extension.AnnotationGangGroups] = "[]"
	case 4:
		ids := make([]string, len(c.group))
		for i, g := range c.group {
			ids[i] = strconv.Quote(fmt.Sprintf("%s/g%d", ns, g))
		}
		ann[extension.AnnotationGangGroups] = "[" + strings.Join(ids, ",") + "]"
	case 5:
		ann[extension.AnnotationGangGroups] = []string{"[\"x/g0\",", "{}", "x/g0"}[r.Intn(3)]
	}
}

type c04pSum struct {
	init, strict, sat   bool
	min, pol            int
	grp, ch, pe, wa, bo []int
}

func c04pInts(keys []string, prefix string) []int {
	out := make([]int, 0, len(keys))
	for _, k := range keys {
		n, err := strconv.Atoi(strings.TrimPrefix(k, prefix))
		if err != nil || !strings.HasPrefix(k, prefix) {
			n = -1
		}
		out = append(out, n)
	}
	sort.Ints(out)
	return out
}

func c04pShow(tag string, xs []int) string {
	if len(xs) == 0 {
		return tag + " 0"
	}
	return fmt.Sprintf("%s %d %s", tag, len(xs), vIntsI(xs))
}

func c04pHas(xs []int, x int) bool {
	for _, y := range xs {
		if x == y {
			return true
		}
	}
	return false
}

type c04pPod struct {
	id, g    int
	added    bool
	bound    bool // harness view: PostBind ran or a node name was shown since the last delete
	seenNode bool
	flight   int // 0 none 1 parked 2 released 3 rejected
	rev      int
	inAPI    bool // the pod object exists in the (fake) API server
	gone     bool // the pod's delete event was delivered (object or tombstone) and nothing has named the pod since
}

func TestVerifC04Plugin(t *testing.T) {
	h := vOpen("C04")
	if h == nil {
		t.Skip("VERIF_OUT not set")
	}
	ctx := context.TODO()
	n := h.N(1500, 20000)
	// tombstone stream (the last nTomb cases): members that hold resources vanish more often, and two deletes out of three
	// reach the handlers registered on the pod informer as a re-list tombstone (DeletedFinalStateUnknown by value around
	// the API's last object) instead of through the watch; the API object itself is removed later (a plain delete event
	// for a pod the cache has already forgotten) or at the end of the case.
	nTomb := n / 5
	if v := vEnvInt("VERIF_C04_NTOMB", -1); v >= 0 {
		nTomb = v
	}
	lost := 0
	var awaitDur time.Duration
	// one framework + plugin + informers per configured DefaultMatchPolicy for the whole run (building one costs ~0.3 s,
	// built when first needed); every case lives in its own namespace (gang ids, pod keys and the gang-group annotation
	// carry it) and removes its objects at the end
	suits := map[int]*c04pSuit{}
	defer func() {
		for _, x := range suits {
			close(x.stop)
		}
	}()
	for idx := 0; idx < n+nTomb; idx++ {
		tomb := idx >= n
		if lost >= 3 {
			break // the informer path is broken (reported above): every further event would only wait for its timeout
		}
		r := h.Begin(idx)
		if r == nil {
			continue
		}
		// the scheduler's configuration: defaultMatchPolicy of the CoschedulingArgs (3 = the empty string)
		dflt := []int{2, 2, 0, 1, 3}[r.Intn(5)]
		su := suits[dflt]
		if su == nil {
			var err error
			if su, err = c04pNewSuit(dflt); err != nil {
				t.Fatalf("fixture (defaultMatchPolicy %d): %v", dflt, err)
			}
			suits[dflt] = su
		}
		h.Tag(fmt.Sprintf("configured-default-policy:%d", dflt))
		h.Op("args %d", dflt)
		ns := fmt.Sprintf("c%d", idx)
		mgr := su.plugin.pgMgr
		gid := func(g int) string { return fmt.Sprintf("%s/g%d", ns, g) }

		// ---------- universe ----------
		nG := r.Range(1, 3)
		cfgs := make([]c04pCfg, nG)
		ways := make([]int, nG) // 0 PodGroup, 1 pod annotations
		var all []int
		for g := 0; g < nG; g++ {
			all = append(all, g)
		}
		oneGroup := nG > 1 && r.Chance(3, 4)
		for g := 0; g < nG; g++ {
			c := c04pCfg{min: r.Range(1, 3), pol: r.Intn(4), mode: 1, gshape: []int{0, 0, 1, 2, 3, 5}[r.Intn(6)]}
			if r.Chance(1, 3) {
				c.mode = r.Intn(7)
			}
			if r.Chance(1, 12) {
				c.pol = 4
			}
			c = c.respell(r)
			if oneGroup {
				c.gshape, c.group = 4, append([]int(nil), all...)
				for i, j := range r.Perm(len(c.group)) {
					c.group[i], c.group[j] = c.group[j], c.group[i]
				}
			} else if r.Chance(1, 4) {
				c.gshape, c.group = 4, []int{g}
			}
			cfgs[g] = c
			if r.Chance(1, 3) {
				ways[g] = 1
			}
		}
		// resolution script (one case in six): ONE gang of min 2 that declares no group, any spelling of policy and mode,
		// two scheduling rounds (see below)
		resScript := r.Chance(1, 6)
		if resScript {
			nG, cfgs, ways = 1, cfgs[:1], ways[:1]
			c := c04pCfg{min: 2, pol: []int{3, 3, 3, 5, 4, 0, 1, 2}[r.Intn(8)], mode: r.Intn(7), gshape: 0}
			cfgs[0] = c.respell(r)
			h.Tag("resolution-script")
		}
		var pods []*c04pPod
		for g := 0; g < nG; g++ {
			k := cfgs[g].min + r.Intn(2)
			if resScript {
				k = 4
			}
			for i := 0; i < k; i++ {
				pods = append(pods, &c04pPod{id: g*10 + i, g: g})
			}
		}
		h.Tag(fmt.Sprintf("gangs:%d", nG))

		// ---------- declared configuration (harness bookkeeping, never read back from the cache) ----------
		type declT struct {
			min, pol int
			amb      bool // the match-policy annotation and its alias disagree: policy-dependent clauses not judged
			strict   bool
			group    []int
		}
		decl := make([]*declT, nG)
		everBound := make([]bool, nG)
		declare := func(g int, c c04pCfg) {
			// policy in force = the declared one if legal, else what the scheduler was CONFIGURED with; mode = NonStrict only
			// when spelled exactly so
			pol, amb := c.effPol(dflt)
			if dp, _ := c.declaredPol(); dp < 0 {
				h.Tag(fmt.Sprintf("declared:no legal policy, configured default %d in force", dflt))
			}
			h.Tag(fmt.Sprintf("declared:mode-spelling=%d", c.mode))
			decl[g] = &declT{min: c.min, pol: pol, amb: amb, strict: c.mode != 0, group: c.declaredGroup(g)}
		}
		declGroupOf := func(g int) []int {
			if decl[g] != nil {
				return decl[g].group
			}
			return []int{g}
		}
		groupSatisfied := func(g int) bool {
			for x := 0; x < nG; x++ {
				if everBound[x] && (x == g || c04pHas(cfgs[g].declaredGroup(g), x) || c04pHas(cfgs[x].declaredGroup(x), g)) {
					return true
				}
			}
			return false
		}

		// ---------- observation ----------
		summaries := func() (map[int]c04pSum, []int) {
			sums := map[int]c04pSum{}
			var ids []int
			for name, s := range mgr.GetGangSummaries() {
				if !strings.HasPrefix(name, ns+"/") {
					continue // a leftover of another case would be a different gang id anyway
				}
				id, err := strconv.Atoi(strings.TrimPrefix(name, ns+"/g"))
				if err != nil {
					id = -1
				}
				o := c04pSum{init: s.HasGangInit, strict: s.Mode == extension.GangModeStrict, sat: s.OnceResourceSatisfied, min: s.MinRequiredNumber}
				switch s.GangMatchPolicy {
				case extension.GangMatchPolicyOnlyWaiting:
					o.pol = 0
				case extension.GangMatchPolicyWaitingAndRunning:
					o.pol = 1
				case extension.GangMatchPolicyOnceSatisfied:
					o.pol = 2
				case "":
					o.pol = 3 // only as the copy of an empty configured default
				default:
					o.pol = 7
				}
				if s.Mode != extension.GangModeStrict && s.Mode != extension.GangModeNonStrict {
					o.pol += 100 // unexpected mode string: make it visible
				}
				o.grp = c04pInts(s.GangGroup, ns+"/g")
				o.ch = c04pInts(s.Children.UnsortedList(), ns+"/p")
				o.pe = c04pInts(s.PendingChildren.UnsortedList(), ns+"/p")
				o.wa = c04pInts(s.WaitingForBindChildren.UnsortedList(), ns+"/p")
				o.bo = c04pInts(s.BoundChildren.UnsortedList(), ns+"/p")
				sums[id] = o
				ids = append(ids, id)
			}
			sort.Ints(ids)
			return sums, ids
		}
		fwNow := func() map[int]int {
			m := map[int]int{}
			su.fh.IterateOverWaitingPods(func(wp fwktype.WaitingPod) {
				if wp.GetPod().Namespace != ns {
					return
				}
				p := c04pPodIdx(wp.GetPod())
				m[p] = p / 10
			})
			return m
		}
		prev, _ := summaries()
		released, strictRejects := 0, 0
		if tomb {
			h.Tag("tombstone-stream")
		}
		live := func(xs []int) int { // members whose delete event the harness has not delivered
			k := 0
			for _, q := range xs {
				isGone := false
				for _, x := range pods {
					if x.id == q && x.gone {
						isGone = true
					}
				}
				if !isGone {
					k++
				}
			}
			return k
		}
		begin := func() map[int]int {
			su.rec.allowed, su.rec.rejected = nil, nil
			return fwNow()
		}
		podObjs := map[int]*corev1.Pod{}
		// kind: 0 other 1 permit 2 unreserve 3 postfilter
		finish := func(kind int, ps *c04pPod, verdict int, fwBefore map[int]int, panicked bool) {
			if panicked {
				h.Obs("panic")
				h.Fail("C04:panic", "entry point panicked (plugin harness)")
				return
			}
			// the binding goroutines of the allowed / rejected pods wake up: WaitOnPermit returns and unparks them
			dedup := func(xs []int) []int {
				sort.Ints(xs)
				var out []int
				for i, x := range xs {
					if i == 0 || x != xs[i-1] {
						out = append(out, x)
					}
				}
				return out
			}
			allowed, rejected := dedup(su.rec.allowed), dedup(su.rec.rejected)
			for _, q := range append(append([]int(nil), allowed...), rejected...) {
				if pod := podObjs[q]; pod != nil {
					su.fh.WaitOnPermit(ctx, pod)
				}
				for _, x := range pods {
					if x.id == q {
						x.flight = 2
						if c04pHas(rejected, q) {
							x.flight = 3
						}
					}
				}
			}
			h.Obs("out %d %s %s", verdict, c04pShow("a", allowed), c04pShow("r", rejected))
			sums, ids := summaries()
			for _, id := range ids {
				s := sums[id]
				h.Obs("g %d %d %d %d %d %d %s %s %s %s %s", id, vB(s.init), s.min, s.pol, vB(s.strict), vB(s.sat),
					c04pShow("grp", s.grp), c04pShow("ch", s.ch), c04pShow("pe", s.pe), c04pShow("wa", s.wa), c04pShow("bo", s.bo))
			}
			fw := fwNow()
			var fwKeys []int
			for k := range fw {
				fwKeys = append(fwKeys, k)
			}
			sort.Ints(fwKeys)
			line := fmt.Sprintf("fw %d", len(fwKeys))
			for _, k := range fwKeys {
				line += fmt.Sprintf(" %d %d", k, fw[k])
			}
			h.Obs("%s", line)
			// ---- oracle (the property's statement on the observations; configuration = what was DECLARED) ----
			rel := append([]int(nil), allowed...)
			if kind == 1 && verdict == 0 {
				rel = append(rel, ps.id)
			}
			for _, q := range rel {
				gq := q / 10
				if gq >= nG {
					continue
				}
				for _, x := range declGroupOf(gq) {
					s, ok := sums[x]
					var d *declT
					if x < nG {
						d = decl[x]
					}
					switch {
					case !ok:
						h.Fail("C04:released-while-group-unsatisfied", "plugin: pod %d released but gang %d of its declared group is not in the cache", q, x)
					case d == nil:
						h.Fail("C04:released-while-group-unsatisfied", "plugin: pod %d released but gang %d of its declared group has no valid declaration", q, x)
					case d.amb:
					default:
						cnt := live(s.wa)
						if d.pol == 1 {
							cnt += live(s.bo)
						}
						if cnt < d.min && !(d.pol == 2 && (groupSatisfied(gq) || groupSatisfied(x))) {
							h.Fail("C04:released-while-group-unsatisfied", "plugin: pod %d released but gang %d holds %d < declared min %d (policy in force %d; configured default %d)", q, x, cnt, d.min, d.pol, dflt)
						}
					}
				}
			}
			if len(rel) > 0 {
				released += len(rel)
				h.Tag(fmt.Sprintf("release:%d", len(rel)))
			}
			if kind == 1 && verdict == 0 {
				for q, gq := range fwBefore {
					if c04pHas(declGroupOf(ps.g), gq) && !c04pHas(allowed, q) {
						h.Fail("C04:waiting-member-not-released", "plugin: pod %d succeeded at Permit but waiting member %d of gang %d stays parked", ps.id, q, gq)
					}
				}
			}
			if kind == 2 || kind == 3 {
				if _, ok := prev[ps.g]; ok && decl[ps.g] != nil && decl[ps.g].strict && !decl[ps.g].amb && !(decl[ps.g].pol == 2 && groupSatisfied(ps.g)) {
					for q, gq := range fwBefore {
						if q == ps.id || !c04pHas(declGroupOf(ps.g), gq) {
							continue
						}
						if !c04pHas(rejected, q) {
							h.Fail("C04:strict-failure-left-member-waiting", "plugin: member %d failed (op kind %d) in strict gang %d but waiting pod %d of gang %d was not rejected", ps.id, kind, ps.g, q, gq)
						}
					}
					if len(rejected) > 0 {
						strictRejects++
						h.Tag("strict-reject")
					}
				}
			}
			for _, id := range ids {
				s := sums[id]
				for _, p := range s.ch {
					cnt := vB(c04pHas(s.pe, p)) + vB(c04pHas(s.wa, p)) + vB(c04pHas(s.bo, p))
					if cnt == 0 {
						h.Fail("C04:member-in-no-set", "plugin: pod %d is a child of gang %d but in none of pending/waiting/bound", p, id)
					}
					if cnt > 1 {
						h.Fail("C04:pod-in-two-sets", "plugin: pod %d of gang %d: pending=%v waiting=%v bound=%v", p, id, c04pHas(s.pe, p), c04pHas(s.wa, p), c04pHas(s.bo, p))
					}
				}
			}
			for g := 0; g < nG; g++ {
				if _, ok := sums[g]; !ok {
					decl[g] = nil
				}
			}
			prev = sums
		}
		// wait until the informer has delivered the event to the gang cache
		await := func(what string, f func() bool) bool {
			if lost >= 3 {
				return false // already reported; do not wait for every further timeout
			}
			t0 := time.Now()
			defer func() { awaitDur += time.Since(t0) }()
			deadline := time.Now().Add(10 * time.Second)
			for i := 0; ; i++ {
				if f() {
					return true
				}
				if time.Now().After(deadline) {
					lost++
					h.Fail("C04:plugin-informer-event-not-applied", "%s did not reach the gang cache through the informer within 10s", what)
					return false
				}
				if i < 200 {
					time.Sleep(20 * time.Microsecond)
				} else {
					time.Sleep(time.Millisecond)
				}
			}
		}

		// A handler has several steps after the one the harness can see (SetGangGroupInfo after tryInitByPodGroup,
		// addBoundPod / setResourceSatisfied after setChild, dropping the gang and its group info after deletePod).
		// Each informer delivers its events one after the other on one goroutine, so once a LATER event of the same
		// informer is visible in the cache the earlier handler has returned: a sentinel object in a namespace of its own.
		zns := ns + "z"
		barrierPods := func() {
			z := &corev1.Pod{ObjectMeta: metav1.ObjectMeta{Name: "pz", Namespace: zns, UID: types.UID("uid-" + zns),
				Annotations: map[string]string{extension.AnnotationGangName: "gz", extension.AnnotationGangMinNum: "1"}}}
			if _, err := su.cs.CoreV1().Pods(zns).Create(ctx, z, metav1.CreateOptions{}); err != nil {
				panic(err)
			}
			await("sentinel pod", func() bool { return len(mgr.GetAllPodsFromGang(zns+"/gz")) == 1 })
			if err := su.cs.CoreV1().Pods(zns).Delete(ctx, "pz", metav1.DeleteOptions{}); err != nil {
				panic(err)
			}
			await("sentinel pod delete", func() bool { _, ok := mgr.GetGangSummary(zns + "/gz"); return !ok })
		}
		barrierPG := func() {
			ti := int32(999)
			z := &v1alpha1.PodGroup{ObjectMeta: metav1.ObjectMeta{Name: "gzz", Namespace: zns}, Spec: v1alpha1.PodGroupSpec{MinMember: 1, ScheduleTimeoutSeconds: &ti}}
			if _, err := su.pgcs.SchedulingV1alpha1().PodGroups(zns).Create(ctx, z, metav1.CreateOptions{}); err != nil {
				panic(err)
			}
			await("sentinel PodGroup", func() bool { _, ok := mgr.GetGangSummary(zns + "/gzz"); return ok })
			if err := su.pgcs.SchedulingV1alpha1().PodGroups(zns).Delete(ctx, "gzz", metav1.DeleteOptions{}); err != nil {
				panic(err)
			}
			await("sentinel PodGroup delete", func() bool { _, ok := mgr.GetGangSummary(zns + "/gzz"); return !ok })
		}

		// ---------- operations ----------
		pgRev := 1000
		pgExists := make([]bool, nG)
		doPG := func(g int, update bool) {
			c := cfgs[g]
			if update {
				switch v := r.Intn(3); v {
				case 0: // annotation-only
					c.pol, c.mode = r.Intn(5), r.Intn(7)
					c = c.respell(r)
				case 1:
					c.min, c.pol, c.mode = r.Range(0, 3), r.Intn(5), r.Intn(7)
					c = c.respell(r)
				}
				cfgs[g] = c
			}
			pgRev++
			ti := int32(pgRev)
			pg := &v1alpha1.PodGroup{ObjectMeta: metav1.ObjectMeta{Name: fmt.Sprintf("g%d", g), Namespace: ns, Annotations: map[string]string{}},
				Spec: v1alpha1.PodGroupSpec{MinMember: int32(c.min), ScheduleTimeoutSeconds: &ti}}
			c.annotate(pg.Annotations, ns, r)
			fwB := begin()
			kindS := "pgadd"
			if update {
				kindS = "pgupd"
			}
			h.Op("%s %d %s", kindS, g, c.toks())
			pan := h.Guard(func() {
				var err error
				if update {
					_, err = su.pgcs.SchedulingV1alpha1().PodGroups(ns).Update(ctx, pg, metav1.UpdateOptions{})
				} else {
					_, err = su.pgcs.SchedulingV1alpha1().PodGroups(ns).Create(ctx, pg, metav1.CreateOptions{})
				}
				if err != nil {
					panic(err)
				}
				await(kindS, func() bool {
					s, ok := mgr.GetGangSummary(gid(g))
					return ok && s.WaitTime == time.Duration(pgRev)*time.Second
				})
				barrierPG()
			})
			pgExists[g] = true
			declare(g, c)
			h.Tag("op:" + kindS)
			finish(0, nil, 9, fwB, pan)
		}
		doPGDel := func(g int) {
			fwB := begin()
			h.Op("pgdel %d", g)
			pan := h.Guard(func() {
				if err := su.pgcs.SchedulingV1alpha1().PodGroups(ns).Delete(ctx, fmt.Sprintf("g%d", g), metav1.DeleteOptions{}); err != nil {
					panic(err)
				}
				await("pgdel", func() bool { _, ok := mgr.GetGangSummary(gid(g)); return !ok })
				barrierPG()
			})
			pgExists[g] = false
			h.Tag("op:pgdel")
			finish(0, nil, 9, fwB, pan)
		}
		mkPod := func(ps *c04pPod, node bool) (*corev1.Pod, string) {
			ps.rev++
			pod := &corev1.Pod{ObjectMeta: metav1.ObjectMeta{Name: fmt.Sprintf("p%d", ps.id), Namespace: ns, UID: types.UID(fmt.Sprintf("uid-%s-p%d", ns, ps.id)),
				Labels: map[string]string{"rev": strconv.Itoa(ps.rev)}, Annotations: map[string]string{}}}
			if node {
				pod.Spec.NodeName = "n1"
			}
			if ways[ps.g] == 0 {
				pod.Labels[v1alpha1.PodGroupLabel] = fmt.Sprintf("g%d", ps.g)
				return pod, "0"
			}
			c := cfgs[ps.g]
			pod.Annotations[extension.AnnotationGangName] = fmt.Sprintf("g%d", ps.g)
			pod.Annotations[extension.AnnotationGangMinNum] = strconv.Itoa(c.min)
			c.annotate(pod.Annotations, ns, r)
			return pod, "1 1 " + c.toks()
		}
		hasRev := func(ps *c04pPod) bool {
			for _, p := range mgr.GetAllPodsFromGang(gid(ps.g)) {
				if p.Name == fmt.Sprintf("p%d", ps.id) && p.Labels["rev"] == strconv.Itoa(ps.rev) {
					return true
				}
			}
			return false
		}
		doPodEvt := func(ps *c04pPod, update, node bool) {
			pod, tail := mkPod(ps, node)
			podObjs[ps.id] = pod
			fwB := begin()
			if update {
				h.Op("podupd %d %d %d 0 %s", ps.id, ps.g, vB(node), tail)
			} else {
				h.Op("podadd %d %d %d 0 %s", ps.id, ps.g, vB(node), tail)
			}
			pan := h.Guard(func() {
				var err error
				if update {
					_, err = su.cs.CoreV1().Pods(ns).Update(ctx, pod, metav1.UpdateOptions{})
				} else {
					_, err = su.cs.CoreV1().Pods(ns).Create(ctx, pod, metav1.CreateOptions{})
				}
				if err != nil {
					panic(err)
				}
				await("pod event", func() bool { return hasRev(ps) })
				barrierPods()
			})
			if ways[ps.g] != 0 && decl[ps.g] == nil {
				declare(ps.g, cfgs[ps.g])
			}
			ps.added, ps.inAPI, ps.gone = true, true, false
			if node {
				ps.bound, ps.seenNode = true, true
				everBound[ps.g] = true
			}
			h.Tag(fmt.Sprintf("op:pod-event update=%d node=%d", vB(update), vB(node)))
			finish(0, ps, 9, fwB, pan)
		}
		doPodDel := func(ps *c04pPod) {
			fwB := begin()
			h.Op("poddel %d %d", ps.id, ps.g)
			pan := h.Guard(func() {
				if err := su.cs.CoreV1().Pods(ns).Delete(ctx, fmt.Sprintf("p%d", ps.id), metav1.DeleteOptions{}); err != nil {
					panic(err)
				}
				await("pod delete", func() bool {
					for _, p := range mgr.GetAllPodsFromGang(gid(ps.g)) {
						if p.Name == fmt.Sprintf("p%d", ps.id) {
							return false
						}
					}
					return true
				})
				barrierPods()
			})
			ps.added, ps.bound, ps.seenNode, ps.inAPI, ps.gone = false, false, false, false, true
			h.Tag("op:poddel")
			finish(0, ps, 9, fwB, pan)
		}
		// the delete as a re-list would deliver it: every handler registered on the pod informer gets
		// OnDelete(DeletedFinalStateUnknown{Key, Obj: the API's last object}); the API object stays for now
		doPodTomb := func(ps *c04pPod) {
			fwB := begin()
			h.Op("poddel %d %d 1", ps.id, ps.g)
			pan := h.Guard(func() {
				last, err := su.cs.CoreV1().Pods(ns).Get(ctx, fmt.Sprintf("p%d", ps.id), metav1.GetOptions{})
				if err != nil {
					panic(err)
				}
				tombstone := c04pTombstone(last)
				if tombstone == nil {
					tombstone = k8scache.DeletedFinalStateUnknown{Key: ns + "/" + last.Name, Obj: last}
					h.Tag("tombstone:built by hand")
				}
				for _, eh := range su.podCap.handlers() {
					eh.OnDelete(tombstone)
				}
			})
			ps.added, ps.bound, ps.seenNode, ps.gone = false, false, false, true
			h.Tag("op:poddel-tombstone")
			finish(0, ps, 9, fwB, pan)
		}
		schedPod := func(ps *c04pPod) *corev1.Pod {
			if pod := podObjs[ps.id]; pod != nil {
				return pod
			}
			pod, _ := mkPod(ps, false)
			podObjs[ps.id] = pod
			return pod
		}
		doPermit := func(ps *c04pPod) {
			pod := schedPod(ps)
			ps.gone = false
			fwB := begin()
			h.Op("permit %d %d", ps.id, ps.g)
			verdict := -1
			pan := h.Guard(func() {
				st := su.fh.RunPermitPlugins(ctx, framework.NewCycleState(), pod, "n1")
				switch {
				case st.IsSuccess():
					verdict = 0
				case st.IsWait():
					verdict = 1
				case st.Code() == fwktype.Unschedulable:
					verdict = 2
				default:
					verdict = 8
				}
			})
			switch verdict {
			case 0:
				ps.flight = 2
			case 1:
				ps.flight = 1
			default:
				ps.flight = 3
			}
			h.Tag(fmt.Sprintf("op:permit verdict=%d", verdict))
			finish(1, ps, verdict, fwB, pan)
		}
		doUnreserve := func(ps *c04pPod) {
			pod := schedPod(ps)
			ps.gone = false
			fwB := begin()
			// the framework: WaitOnPermit of this pod returned (timeout / rejection) before Unreserve runs
			if su.fh.GetWaitingPod(pod.UID) != nil {
				su.fh.RejectWaitingPod(pod.UID)
				su.fh.WaitOnPermit(ctx, pod)
			}
			h.Op("unres %d %d", ps.id, ps.g)
			pan := h.Guard(func() { su.fh.RunReservePluginsUnreserve(ctx, framework.NewCycleState(), pod, "n1") })
			ps.flight = 0
			h.Tag("op:unres")
			finish(2, ps, 9, fwB, pan)
		}
		doPostBind := func(ps *c04pPod) {
			pod := schedPod(ps)
			ps.gone = false
			fwB := begin()
			h.Op("postbind %d %d", ps.id, ps.g)
			_, present := prev[ps.g]
			pan := h.Guard(func() { su.fh.RunPostBindPlugins(ctx, framework.NewCycleState(), pod, "n1") })
			ps.flight, ps.bound = 0, true
			if present {
				everBound[ps.g] = true
			}
			h.Tag("op:postbind")
			finish(0, ps, 9, fwB, pan)
		}
		doPostFilter := func(ps *c04pPod) {
			pod := schedPod(ps)
			ps.gone = false
			fwB := begin()
			h.Op("postfilter %d %d", ps.id, ps.g)
			pan := h.Guard(func() { su.plugin.AfterPostFilter(ctx, framework.NewCycleState(), pod, nil, nil) })
			h.Tag("op:postfilter")
			finish(3, ps, 9, fwB, pan)
		}
		pick := func(f func(*c04pPod) bool) *c04pPod {
			var c []*c04pPod
			for _, x := range pods {
				if f(x) {
					c = append(c, x)
				}
			}
			if len(c) == 0 {
				return nil
			}
			return c[r.Intn(len(c))]
		}
		isChild := func(ps *c04pPod) bool {
			s, ok := prev[ps.g]
			return ok && c04pHas(s.ch, ps.id)
		}

		// ---------- history: everything arrives, then scheduling / binding cycles and informer events in protocol order ----------
		for g := 0; g < nG; g++ {
			if ways[g] == 0 {
				doPG(g, false)
			}
		}
		nOps := r.Range(6, 22)
		if resScript {
			// round 1: member 0 parks (1 < min 2), member 1 finds no node (strict => 0 is rejected), then both are released
			// and bound; round 2: a replacement member 2 comes to Permit alone (waits unless the policy in force counts the
			// bound members or is once-satisfied), member 3 finds no node (strict and not once-satisfied => 2 is rejected)
			nOps = r.Range(0, 6)
			doPodEvt(pods[0], false, false)
			doPodEvt(pods[1], false, false)
			doPermit(pods[0])
			doPostFilter(pods[1])
			if pods[0].flight == 3 {
				doUnreserve(pods[0])
			}
			if pods[0].flight == 0 {
				doPermit(pods[0])
			}
			doPermit(pods[1])
			if pods[0].flight == 2 {
				doPostBind(pods[0])
			}
			if pods[1].flight == 2 {
				doPostBind(pods[1])
			}
			doPodEvt(pods[2], false, false)
			doPermit(pods[2])
			doPodEvt(pods[3], false, false)
			doPostFilter(pods[3])
			switch pods[2].flight {
			case 2:
				doPostBind(pods[2])
			case 1, 3:
				doUnreserve(pods[2])
			}
		} else {
			for _, i := range r.Perm(len(pods)) {
				if r.Chance(9, 10) {
					doPodEvt(pods[i], false, false)
				}
			}
		}
		for step := 0; step < nOps; step++ {
			if tomb && r.Chance(1, 5) {
				// a member that holds resources (parked, released or bound) vanishes; mostly noticed on re-list
				ps := pick(func(x *c04pPod) bool { return x.added && isChild(x) && (x.flight == 1 || x.flight == 2 || x.bound) })
				if ps == nil {
					ps = pick(func(x *c04pPod) bool { return x.added && isChild(x) })
				}
				switch {
				case ps == nil:
				case r.Chance(2, 3):
					doPodTomb(ps)
				default:
					doPodDel(ps)
				}
				continue
			}
			switch w := r.Intn(100); {
			case w < 8:
				g := r.Intn(nG)
				switch {
				case ways[g] == 0 && !pgExists[g]:
					doPG(g, false)
				case pgExists[g] && r.Chance(1, 6):
					doPGDel(g)
				case pgExists[g]:
					doPG(g, true)
				}
			case w < 18:
				if ps := pick(func(x *c04pPod) bool { return !x.added }); ps != nil {
					if ps.inAPI {
						doPodDel(ps) // the object of a pod whose delete was noticed on re-list finally leaves the API: a plain delete event
					} else {
						doPodEvt(ps, false, false)
					}
				}
			case w < 55:
				ps := pick(func(x *c04pPod) bool { return x.added && !x.bound && x.flight == 0 && isChild(x) })
				if ps == nil {
					continue
				}
				switch v := r.Intn(10); {
				case v < 8:
					doPermit(ps)
				case v < 9:
					doPostFilter(ps)
				default:
					doUnreserve(ps)
				}
			case w < 75:
				ps := pick(func(x *c04pPod) bool { return x.flight >= 2 })
				if ps == nil {
					continue
				}
				switch {
				case ps.flight == 3 || r.Chance(1, 6):
					doUnreserve(ps)
				default:
					doPostBind(ps)
				}
			case w < 79:
				if ps := pick(func(x *c04pPod) bool { return x.flight == 1 }); ps != nil {
					doUnreserve(ps) // a parked pod times out
				}
			case w < 93:
				ps := pick(func(x *c04pPod) bool { return x.added })
				if ps == nil {
					continue
				}
				// NodeName is immutable once shown; an update without it after PostBind is the stale update of fix bbde960
				doPodEvt(ps, true, ps.seenNode || (ps.bound && r.Bool()))
			default:
				if ps := pick(func(x *c04pPod) bool { return x.added && isChild(x) }); ps != nil {
					doPodDel(ps)
				}
			}
		}
		if released >= 2 || strictRejects >= 1 {
			h.Nontrivial()
		}
		// end of case: wake every pod that is still parked, remove the case's objects and wait until its gangs are gone
		for _, pod := range podObjs {
			if su.fh.GetWaitingPod(pod.UID) != nil {
				su.fh.RejectWaitingPod(pod.UID)
				su.fh.WaitOnPermit(ctx, pod)
			}
		}
		for _, x := range pods {
			if x.added || x.inAPI {
				_ = su.cs.CoreV1().Pods(ns).Delete(ctx, fmt.Sprintf("p%d", x.id), metav1.DeleteOptions{})
			}
		}
		for g := 0; g < nG; g++ {
			if pgExists[g] {
				_ = su.pgcs.SchedulingV1alpha1().PodGroups(ns).Delete(ctx, fmt.Sprintf("g%d", g), metav1.DeleteOptions{})
			}
		}
		for end := time.Now().Add(2 * time.Second); time.Now().Before(end); time.Sleep(50 * time.Microsecond) {
			if _, ids := summaries(); len(ids) == 0 {
				break
			}
		}
		h.End()
	}
	h.Extra("informer_events_lost", lost)
	h.Extra("await_ms", awaitDur.Milliseconds())
	h.Close("plugin harness: New() inside a real scheduler framework runtime (its own waiting-pod map), one per configured defaultMatchPolicy (only-waiting / waiting-and-running / left out / empty; " +
		"the args go through v1 defaulting + conversion), match policy through the annotation or its alias (legal / absent / empty / illegal), mode in 7 spellings incl. other letter cases; " +
		"one case in six is a two-round script on one gang of min 2 (park + failure, release + bind, lone replacement member + failure); events through fake clientsets + the informers " +
		"wired by NewPodGroupManager; history = arrival of 1-3 gangs (PodGroup or pod-annotation way, all shapes of the groups annotation) then 6-22 " +
		"protocol-respecting informer events and Permit / Unreserve / PostBind / AfterPostFilter calls through the framework; " +
		fmt.Sprintf("plus a tombstone stream of %d cases: members that hold resources vanish more often and two deletes out of three are handed to the handlers registered on the "+
			"(captured, running) pod informer as a re-list tombstone (DeletedFinalStateUnknown by value around the API's last object), the API object leaving later; ", nTomb) +
		"non-trivial = at least two members released or one strict-mode rejection that hit a waiting pod")
	_ = core.Name
}
