//go:build verif

package core

import (
	"context"
	"fmt"
	"runtime"
	"sort"
	"strconv"
	"strings"
	"sync"
	"sync/atomic"
	"testing"
	"time"

	corev1 "k8s.io/api/core/v1"
	metav1 "k8s.io/apimachinery/pkg/apis/meta/v1"
	"k8s.io/apimachinery/pkg/types"
	"k8s.io/client-go/informers"
	"k8s.io/client-go/kubernetes"
	kubefake "k8s.io/client-go/kubernetes/fake"
	k8scache "k8s.io/client-go/tools/cache"
	fwktype "k8s.io/kube-scheduler/framework"
	"k8s.io/kubernetes/pkg/scheduler/framework"

	"github.com/koordinator-sh/koordinator/apis/extension"
	schedulingv1alpha1 "github.com/koordinator-sh/koordinator/apis/scheduling/v1alpha1"
	"github.com/koordinator-sh/koordinator/apis/thirdparty/scheduler-plugins/pkg/apis/scheduling/v1alpha1"
	pgversioned "github.com/koordinator-sh/koordinator/apis/thirdparty/scheduler-plugins/pkg/generated/clientset/versioned"
	pgfake "github.com/koordinator-sh/koordinator/apis/thirdparty/scheduler-plugins/pkg/generated/clientset/versioned/fake"
	pgformers "github.com/koordinator-sh/koordinator/apis/thirdparty/scheduler-plugins/pkg/generated/informers/externalversions"
	koordversioned "github.com/koordinator-sh/koordinator/pkg/client/clientset/versioned"
	koordfake "github.com/koordinator-sh/koordinator/pkg/client/clientset/versioned/fake"
	koordinatorinformers "github.com/koordinator-sh/koordinator/pkg/client/informers/externalversions"
	"github.com/koordinator-sh/koordinator/pkg/scheduler/apis/config"
	"github.com/koordinator-sh/koordinator/pkg/scheduler/frameworkext"
	frameworkexthelper "github.com/koordinator-sh/koordinator/pkg/scheduler/frameworkext/helper"
	"github.com/koordinator-sh/koordinator/pkg/scheduler/frameworkext/workloadauditor"
	reservationutil "github.com/koordinator-sh/koordinator/pkg/util/reservation"
)

// ---- "wired" stream: the event handlers NewPodGroupManager REGISTERS on its informers ----
// The informers handed to NewPodGroupManager are capture wrappers (pre-registered in the factories through
// InformerFor, so `factory.Core().V1().Pods().Informer()` returns them): whatever handler the code registers with
// AddEventHandler* is recorded, and the harness delivers every informer event of the case to that recorded handler —
// OnAdd / OnUpdate / OnDelete exactly as client-go's sharedIndexInformer would, deletes also in the shape a re-list
// produces (cache.DeletedFinalStateUnknown by value around the last known object).  The informers are never started.

type c04CapInformer struct {
	k8scache.SharedIndexInformer
	got []k8scache.ResourceEventHandler
}

func (c *c04CapInformer) AddEventHandler(h k8scache.ResourceEventHandler) (k8scache.ResourceEventHandlerRegistration, error) {
	c.got = append(c.got, h)
	return c.SharedIndexInformer.AddEventHandler(h)
}
func (c *c04CapInformer) AddEventHandlerWithResyncPeriod(h k8scache.ResourceEventHandler, d time.Duration) (k8scache.ResourceEventHandlerRegistration, error) {
	c.got = append(c.got, h)
	return c.SharedIndexInformer.AddEventHandlerWithResyncPeriod(h, d)
}
func (c *c04CapInformer) AddEventHandlerWithOptions(h k8scache.ResourceEventHandler, o k8scache.HandlerOptions) (k8scache.ResourceEventHandlerRegistration, error) {
	c.got = append(c.got, h)
	return c.SharedIndexInformer.AddEventHandlerWithOptions(h, o)
}

// c04Tombstone returns what client-go itself hands to OnDelete for an object whose deletion is noticed on re-list: a real
// cache.DeltaFIFO whose known-objects store holds `obj` gets Replace(empty list); the Deleted delta it queues carries the
// tombstone.  (nil if client-go queued nothing: the caller then builds the tombstone by hand.)
func c04Tombstone(obj interface{}) interface{} {
	store := k8scache.NewStore(k8scache.MetaNamespaceKeyFunc)
	if err := store.Add(obj); err != nil {
		return nil
	}
	fifo := k8scache.NewDeltaFIFOWithOptions(k8scache.DeltaFIFOOptions{KeyFunction: k8scache.MetaNamespaceKeyFunc, KnownObjects: store})
	if err := fifo.Replace(nil, "2"); err != nil {
		return nil
	}
	fifo.Close() // Pop must not block when nothing was queued
	var out interface{}
	_, _ = fifo.Pop(func(d interface{}, _ bool) error {
		if ds, ok := d.(k8scache.Deltas); ok {
			for _, delta := range ds {
				if delta.Type == k8scache.Deleted {
					out = delta.Object
				}
			}
		}
		return nil
	})
	return out
}

type c04Wired struct {
	mgr       *PodGroupManager
	podH, pgH []k8scache.ResourceEventHandler // in registration order (the code registers one each)
	rsvH      []k8scache.ResourceEventHandler // what it registered on the Reservation informer (the reservation -> pod adapter)
}

type c04WireClients struct {
	cs    kubernetes.Interface
	pgcs  pgversioned.Interface
	koord *koordfake.Clientset
}

func c04NewWireClients() *c04WireClients {
	return &c04WireClients{cs: kubefake.NewSimpleClientset(), pgcs: pgfake.NewSimpleClientset(), koord: koordfake.NewSimpleClientset()}
}

// c04Wire builds the PodGroupManager the way the plugin's New() does (core.NewPodGroupManager) and returns the
// handlers it registered on the pod and the PodGroup informer.
func c04Wire(fh fwktype.Handle, args *config.CoschedulingArgs, cl *c04WireClients) (*c04Wired, error) {
	frameworkexthelper.ResetRegistrations()
	idx := k8scache.Indexers{k8scache.NamespaceIndex: k8scache.MetaNamespaceIndexFunc}
	podCap := &c04CapInformer{SharedIndexInformer: k8scache.NewSharedIndexInformer(&k8scache.ListWatch{}, &corev1.Pod{}, 0, idx)}
	pgCap := &c04CapInformer{SharedIndexInformer: k8scache.NewSharedIndexInformer(&k8scache.ListWatch{}, &v1alpha1.PodGroup{}, 0, idx)}
	factory := informers.NewSharedInformerFactory(cl.cs, 0)
	factory.InformerFor(&corev1.Pod{}, func(kubernetes.Interface, time.Duration) k8scache.SharedIndexInformer { return podCap })
	pgFactory := pgformers.NewSharedInformerFactory(cl.pgcs, 0)
	pgFactory.InformerFor(&v1alpha1.PodGroup{}, func(pgversioned.Interface, time.Duration) k8scache.SharedIndexInformer { return pgCap })
	koordFactory := koordinatorinformers.NewSharedInformerFactory(cl.koord, 0)
	rsvCap := &c04CapInformer{SharedIndexInformer: k8scache.NewSharedIndexInformer(&k8scache.ListWatch{}, &schedulingv1alpha1.Reservation{}, 0, idx)}
	koordFactory.InformerFor(&schedulingv1alpha1.Reservation{}, func(koordversioned.Interface, time.Duration) k8scache.SharedIndexInformer { return rsvCap })
	mgr := NewPodGroupManager(fh, args, cl.pgcs, pgFactory, factory, koordFactory)
	if len(podCap.got) == 0 || len(pgCap.got) == 0 {
		return nil, fmt.Errorf("NewPodGroupManager registered %d pod handlers and %d PodGroup handlers on its informers", len(podCap.got), len(pgCap.got))
	}
	return &c04Wired{mgr: mgr, podH: podCap.got, pgH: pgCap.got, rsvH: rsvCap.got}, nil
}

// C04 harness.  One case = one history of informer events (pod / PodGroup add, update, delete)
// and scheduling-cycle calls (Permit, Unreserve, PostBind, AfterPostFilter) on ONE real GangCache +
// PodGroupManager.  The framework is a fake handle that keeps the waiting-pod map and records
// WaitingPod.Allow / Reject calls.  After every op the harness prints the Permit verdict, the
// Allow/Reject sets and GetGangSummaries(); the oracle evaluates the property's statement on them.

// ---- fake framework handle: waiting-pod map + call log ----

type c04WP struct {
	h    *c04Handle
	pod  *corev1.Pod
	p, g int
}

func (w *c04WP) GetPod() *corev1.Pod         { return w.pod }
func (w *c04WP) GetPendingPlugins() []string { return []string{Name} }
func (w *c04WP) Allow(pluginName string) {
	w.h.allowed = append(w.h.allowed, w.p)
	delete(w.h.waiting, w.p)
}
func (w *c04WP) Reject(pluginName, msg string) {
	w.h.rejected = append(w.h.rejected, w.p)
	delete(w.h.waiting, w.p)
}

type c04Handle struct {
	frameworkext.ExtendedHandle // nil: any other method would panic (and be reported as such)
	waiting                     map[int]*c04WP
	allowed, rejected           []int
}

func (h *c04Handle) Scheduler() frameworkext.Scheduler                   { return nil }
func (h *c04Handle) GetWorkloadAuditor() workloadauditor.WorkloadAuditor { return nil }
func (h *c04Handle) IterateOverWaitingPods(cb func(fwktype.WaitingPod)) {
	keys := make([]int, 0, len(h.waiting))
	for k := range h.waiting {
		keys = append(keys, k)
	}
	sort.Ints(keys)
	for _, k := range keys {
		if w, ok := h.waiting[k]; ok {
			cb(w)
		}
	}
}

// ---- declared configuration of a gang (what the harness writes into the API objects) ----

type c04Cfg struct {
	min int
	pol int // the match-policy annotation: 0 only-waiting 1 waiting-and-running 2 once-satisfied 3 absent 4 illegal 5 "" (present, empty)
	al  int // the ALIAS match-policy annotation: 0 absent, 1 + a pol token otherwise (1 only-waiting .. 3 once-satisfied, 5 illegal, 6 "")
	// the mode annotation: 0 NonStrict 1 Strict (both spelled exactly) 2 absent 3 another string 4 "" (present, empty)
	// 5 Strict in another letter case (strict, STRICT, ..) 6 NonStrict in another letter case
	mode  int
	group []int
	// shape of the groups annotation: 0 absent, 1 "" (empty string), 2 null, 3 [], 4 JSON list of `group`, 5 not JSON
	gshape int
}

// the gang group a configuration DECLARES, read off the annotation by the harness itself: a JSON list is taken
// literally, every other shape (nothing / empty / null / [] / garbage) means "the gang is a group of its own"
func (c c04Cfg) declaredGroup(self int) []int {
	if c.gshape == 4 && len(c.group) > 0 {
		return append([]int(nil), c.group...)
	}
	return []int{self}
}

// the alias annotation as a pol token (3 = absent)
func (c c04Cfg) aliasTok() int {
	if c.al == 0 {
		return 3
	}
	return c.al - 1
}

// The match policy a configuration DECLARES, read by the harness itself: the value of the match-policy annotation, or of
// its alias when the annotation is missing or empty.  -1 = nothing (legal) declared.  ambiguous: both annotations carry a
// value and the two differ, or one is illegal while the other one is legal — the property does not say which one counts;
// the oracle then skips the clauses that depend on the policy (the model still follows the code's precedence).
func (c c04Cfg) declaredPol() (pol int, ambiguous bool) {
	a, b := c.pol, c.aliasTok()
	none := func(t int) bool { return t == 3 || t == 5 }
	switch {
	case none(a) && none(b):
		return -1, false
	case none(a):
		a = b
	case !none(b) && a != b:
		return -1, true
	}
	if a <= 2 {
		return a, false
	}
	return -1, false
}

// the policy in force for a gang with this configuration on a scheduler configured with default `dflt` (0..2; 3 = the
// empty string, i.e. nothing configured: the documented default once-satisfied)
func (c c04Cfg) effPol(dflt int) (int, bool) {
	pol, amb := c.declaredPol()
	if pol < 0 {
		pol = dflt
		if pol > 2 {
			pol = 2
		}
	}
	return pol, amb
}

// spellings: now and then the policy comes through the alias annotation, as an empty value, or (rarely) both
// annotations are written and disagree
func (c c04Cfg) respell(r *vRand) c04Cfg {
	c.al = 0
	switch {
	case c.pol <= 2 && r.Chance(1, 4):
		c.al, c.pol = c.pol+1, []int{3, 3, 3, 5}[r.Intn(4)]
	case c.pol == 3 && r.Chance(1, 5):
		switch r.Intn(3) {
		case 0:
			c.pol = 5
		case 1:
			c.al = 6
		default:
			c.pol, c.al = 5, 6
		}
	case c.pol == 4 && r.Chance(1, 5):
		c.pol, c.al = []int{3, 5}[r.Intn(2)], 5
	case c.pol != 3 && r.Chance(1, 16):
		c.al = []int{1, 2, 3, 5}[r.Intn(4)]
	}
	return c
}

func c04DfltStr(d int) string {
	switch d {
	case 0:
		return extension.GangMatchPolicyOnlyWaiting
	case 1:
		return extension.GangMatchPolicyWaitingAndRunning
	case 2:
		return extension.GangMatchPolicyOnceSatisfied
	}
	return ""
}

func c04PolStr(p int) (string, bool) {
	switch p {
	case 5:
		return "", true
	case 0:
		return extension.GangMatchPolicyOnlyWaiting, true
	case 1:
		return extension.GangMatchPolicyWaitingAndRunning, true
	case 2:
		return extension.GangMatchPolicyOnceSatisfied, true
	case 3:
		return "", false
	}
	return "sometimes", true
}

func c04ModeStr(m int, r *vRand) (string, bool) {
	switch m {
	case 0:
		return extension.GangModeNonStrict, true
	case 1:
		return extension.GangModeStrict, true
	case 2:
		return "", false
	case 4:
		return "", true
	case 5:
		return []string{"strict", "STRICT", "sTRICT", "StricT"}[r.Intn(4)], true
	case 6:
		return []string{"nonstrict", "NONSTRICT", "nonStrict", "Nonstrict"}[r.Intn(4)], true
	}
	return []string{"Lenient", "Strict ", "non-strict", "Strictly", "1"}[r.Intn(5)], true
}

func c04GangName(g int) string { return fmt.Sprintf("g%d", g) }
func c04GangID(g int) string   { return "ns/" + c04GangName(g) }

func (c c04Cfg) annotations(ann map[string]string, r *vRand) {
	if s, ok := c04PolStr(c.pol); ok {
		ann[extension.AnnotationGangMatchPolicy] = s
	}
	if s, ok := c04PolStr(c.aliasTok()); ok {
		ann[extension.AnnotationAliasGangMatchPolicy] = s
	}
	if s, ok := c04ModeStr(c.mode, r); ok {
		ann[extension.AnnotationGangMode] = s
	}
	switch c.gshape {
	case 1:
		ann[extension.AnnotationGangGroups] = ""
	case 2:
		ann[extension.AnnotationGangGroups] = "null"
	case 3:
		ann[extension.AnnotationGangGroups] = "[]"
		if r.Bool() {
			ann[extension.AnnotationGangGroups] = " [ ] "
		}
	case 4:
		ids := make([]string, len(c.group))
		for i, g := range c.group {
			ids[i] = strconv.Quote(c04GangID(g))
		}
		ann[extension.AnnotationGangGroups] = "[" + strings.Join(ids, ",") + "]"
	case 5:
		ann[extension.AnnotationGangGroups] = []string{"[\"ns/g0\",", "ns/g0", "[\"ns/g0\"", "{", "{}", "7"}[r.Intn(6)]
	}
}

// tokens of a config as the model reads it
func (c c04Cfg) toks() string {
	grp := c.group
	if c.gshape != 4 {
		grp = nil
	}
	return fmt.Sprintf("%d %d %d %d %d %d %s", c.min, c.pol, c.aliasTok(), c.mode, c.gshape, len(grp), vIntsI(grp))
}

func c04PG(g int, c c04Cfg, r *vRand) *v1alpha1.PodGroup {
	ti := int32(10)
	pg := &v1alpha1.PodGroup{
		ObjectMeta: metav1.ObjectMeta{Name: c04GangName(g), Namespace: "ns", Annotations: map[string]string{}},
		Spec:       v1alpha1.PodGroupSpec{MinMember: int32(c.min), ScheduleTimeoutSeconds: &ti},
	}
	c.annotations(pg.Annotations, r)
	if len(pg.Annotations) == 0 && r.Bool() {
		pg.Annotations = nil
	}
	return pg
}

// way: 0 PodGroup label (CRD way), 1 annotations, 2 lightweight labels
func c04Pod(p, g, way int, node string, c c04Cfg, minOK int, r *vRand) *corev1.Pod {
	pod := &corev1.Pod{ObjectMeta: metav1.ObjectMeta{Name: fmt.Sprintf("p%d", p), Namespace: "ns",
		UID: types.UID(fmt.Sprintf("uid-p%d", p)), Labels: map[string]string{}, Annotations: map[string]string{}}}
	pod.Spec.NodeName = node
	switch way {
	case 0:
		pod.Labels[v1alpha1.PodGroupLabel] = c04GangName(g)
	case 1:
		pod.Annotations[extension.AnnotationGangName] = c04GangName(g)
		switch minOK {
		case 1:
			pod.Annotations[extension.AnnotationGangMinNum] = strconv.Itoa(c.min)
		case 0:
			pod.Annotations[extension.AnnotationGangMinNum] = "many"
		} // 2: annotation missing
		c.annotations(pod.Annotations, r)
	case 2:
		// nolint:staticcheck
		pod.Labels[extension.LabelLightweightCoschedulingPodGroupName] = c04GangName(g)
		switch minOK {
		case 1:
			// nolint:staticcheck
			pod.Labels[extension.LabelLightweightCoschedulingPodGroupMinAvailable] = strconv.Itoa(c.min)
		case 0:
			// nolint:staticcheck
			pod.Labels[extension.LabelLightweightCoschedulingPodGroupMinAvailable] = "1.5"
		}
		c.annotations(pod.Annotations, r)
	}
	return pod
}

// c04Rsv: a Reservation that is a gang member.  The gang labels / annotations of `pod` go into spec.template (or, own =
// true, onto the Reservation itself: NewReservePod lets the object's metadata overwrite the template's); the UID is the
// pod's name, so that the reserve pod NewReservePod builds is ns/p<id>.  reqNode = spec.template.spec.nodeName (the node
// the user REQUESTS), schedNode = status.nodeName (the scheduling RESULT).
func c04Rsv(pod *corev1.Pod, own bool, reqNode, schedNode string) *schedulingv1alpha1.Reservation {
	rsv := &schedulingv1alpha1.Reservation{ObjectMeta: metav1.ObjectMeta{Name: "r-" + pod.Name, UID: types.UID(pod.Name)}}
	tmpl := &corev1.PodTemplateSpec{ObjectMeta: metav1.ObjectMeta{Namespace: pod.Namespace}}
	if own {
		rsv.Labels, rsv.Annotations = pod.Labels, pod.Annotations
	} else {
		tmpl.Labels, tmpl.Annotations = pod.Labels, pod.Annotations
	}
	tmpl.Spec.NodeName = reqNode
	rsv.Spec.Template = tmpl
	rsv.Status.NodeName = schedNode
	return rsv
}

func c04ParseID(s, prefix string) int {
	if !strings.HasPrefix(s, prefix) {
		return -1
	}
	n, err := strconv.Atoi(s[len(prefix):])
	if err != nil {
		return -1
	}
	return n
}

func c04SetInts(keys []string, prefix string) []int {
	out := make([]int, 0, len(keys))
	for _, k := range keys {
		out = append(out, c04ParseID(k, prefix))
	}
	sort.Ints(out)
	return out
}

func c04ShowSet(tag string, xs []int) string {
	if len(xs) == 0 {
		return fmt.Sprintf("%s 0", tag)
	}
	return fmt.Sprintf("%s %d %s", tag, len(xs), vIntsI(xs))
}

func c04Has(xs []int, x int) bool {
	for _, y := range xs {
		if x == y {
			return true
		}
	}
	return false
}

// canonical projection of one GangSummary
type c04Sum struct {
	init, strict, sat   bool
	min, pol            int
	grp, ch, pe, wa, bo []int
}

func c04Project(s *GangSummary) c04Sum {
	out := c04Sum{init: s.HasGangInit, strict: s.Mode == extension.GangModeStrict, sat: s.OnceResourceSatisfied,
		min: s.MinRequiredNumber}
	switch s.GangMatchPolicy {
	case extension.GangMatchPolicyOnlyWaiting:
		out.pol = 0
	case extension.GangMatchPolicyWaitingAndRunning:
		out.pol = 1
	case extension.GangMatchPolicyOnceSatisfied:
		out.pol = 2
	case "":
		out.pol = 3 // only as the copy of an empty configured default
	default:
		out.pol = 7
	}
	if s.Mode != extension.GangModeStrict && s.Mode != extension.GangModeNonStrict {
		out.pol += 100 // unexpected mode string: make it visible
	}
	out.grp = c04SetInts(s.GangGroup, "ns/g")
	out.ch = c04SetInts(s.Children.UnsortedList(), "ns/p")
	out.pe = c04SetInts(s.PendingChildren.UnsortedList(), "ns/p")
	out.wa = c04SetInts(s.WaitingForBindChildren.UnsortedList(), "ns/p")
	out.bo = c04SetInts(s.BoundChildren.UnsortedList(), "ns/p")
	return out
}

type c04PodSt struct {
	id, g    int
	added    bool // the cache has seen an add that was not followed by a delete
	bound    bool // harness view: bound since the last delete (superset of the gang's BoundChildren)
	flight   int  // 0 none, 1 parked at Permit (framework waiting map), 2 released (bind pending), 3 rejected (unreserve pending)
	seenNode bool // an informer event of this pod incarnation carried a node name (it can never be empty again)
	gone     bool // the delete event of the pod was delivered (object or tombstone) and no event / call has named the pod since
	rsv      bool // the member is a Reservation: its events come through the reservation -> pod adapter, calls get the reserve pod
	rsvReq   bool // ... whose template pins a node (spec.template.spec.nodeName): a REQUEST, not a scheduling result
	rsvOwn   bool // ... with the gang labels / annotations on the Reservation itself instead of in the template
	tainted  bool // the pod got a call outside the framework / informer contract (Permit while bound, PostBind without release, node name going back to empty); such a pod is exempt from the two-sets clause (not from member-in-no-set)
}

// ---- new-gang race stream ----
// Two informers feed one GangCache, each on a goroutine of its own: the pod informer (onPodAdd) and the PodGroup
// informer (onPodGroupAdd).  For a brand-new gang the first pod event and the PodGroup event both go through
// getGangFromCacheByGangId(id, createIfNotExist=true); whichever comes first creates THE Gang object, the other must
// find it.  One case = a few rounds; in a round the two goroutines walk the same list of fresh gang ids and meet at a
// spin barrier before every id, so that both lookups of one id start within a fraction of a microsecond (one side is
// delayed by a random number of spins to sweep the window).  At the barrier that ends the round the oracle demands
// what holds under EVERY interleaving on the unchanged tree (Lean: getOrCreate_atomic_unique):
//   * every pod whose add event was delivered is a child of the cached gang and in exactly one of pending / waiting / bound;
//   * every gang whose PodGroup add event was delivered is cached and initialised with what the PodGroup declares.
// The model does not follow (no deterministic input): '#' lines only.

type c04RaceStats struct{ cases, rounds, gangs int }

func c04RaceCase(h *vHarness, r *vRand, st *c04RaceStats, cl *c04WireClients) {
	h.Tag("newgang-race")
	h.Op("# new-gang race: pod informer goroutine vs PodGroup informer goroutine")
	fh := &c04Handle{waiting: map[int]*c04WP{}}
	dflt := []int{2, 2, 0, 1, 3}[r.Intn(5)]
	h.Op("# the manager's CoschedulingArgs.DefaultMatchPolicy = %q", c04DfltStr(dflt))
	args := &config.CoschedulingArgs{DefaultTimeout: metav1.Duration{Duration: 300 * time.Second},
		DefaultMatchPolicy: c04DfltStr(dflt)}
	cache := NewGangCache(args, nil, nil, nil, fh)
	mgr := &PodGroupManager{handle: fh, args: args, cache: cache}
	podAdd := func(pod *corev1.Pod) { cache.onPodAdd(pod) }
	pgAdd := func(pg *v1alpha1.PodGroup) { cache.onPodGroupAdd(pg) }
	if r.Bool() {
		// every other case: the manager of NewPodGroupManager, each goroutine calls the handler registered on ITS informer
		if w, err := c04Wire(fh, args, cl); err == nil {
			h.Tag("newgang-race:through the registered handlers")
			mgr = w.mgr
			podAdd = func(pod *corev1.Pod) {
				for _, eh := range w.podH {
					eh.OnAdd(pod, false)
				}
			}
			pgAdd = func(pg *v1alpha1.PodGroup) {
				for _, eh := range w.pgH {
					eh.OnAdd(pg, false)
				}
			}
		}
	}
	type rg struct {
		id   int
		cfg  c04Cfg
		way  int // of its pods: 0 PodGroup label, 1 annotations (the PodGroup object still wins)
		pg   *v1alpha1.PodGroup
		pods []*corev1.Pod
		pids []int
		skew int // >0: the pod side spins that long after the barrier, <0: the PodGroup side
	}
	st.cases++
	next := 0
	var all []*rg
	rounds := r.Range(2, 5)
	failed := false
	for round := 0; round < rounds && !failed; round++ {
		k := r.Range(8, 40)
		batch := make([]*rg, k)
		for i := range batch {
			g := &rg{id: next, cfg: c04Cfg{min: r.Range(1, 3), pol: r.Intn(5), mode: r.Intn(7)}.respell(r)}
			next++
			if r.Chance(1, 5) {
				g.way = 1
			}
			g.pg = &v1alpha1.PodGroup{ObjectMeta: metav1.ObjectMeta{Name: fmt.Sprintf("r%d", g.id), Namespace: "ns", Annotations: map[string]string{}},
				Spec: v1alpha1.PodGroupSpec{MinMember: int32(g.cfg.min)}}
			g.cfg.annotations(g.pg.Annotations, r)
			for j, np := 0, r.Range(1, 2); j < np; j++ {
				pid := g.id*10 + j
				pod := &corev1.Pod{ObjectMeta: metav1.ObjectMeta{Name: fmt.Sprintf("q%d", pid), Namespace: "ns", UID: types.UID(fmt.Sprintf("uid-q%d", pid)),
					Labels: map[string]string{}, Annotations: map[string]string{}}}
				if g.way == 0 {
					pod.Labels[v1alpha1.PodGroupLabel] = g.pg.Name
				} else {
					pod.Annotations[extension.AnnotationGangName] = g.pg.Name
					pod.Annotations[extension.AnnotationGangMinNum] = strconv.Itoa(g.cfg.min)
					g.cfg.annotations(pod.Annotations, r)
				}
				g.pods = append(g.pods, pod)
				g.pids = append(g.pids, pid)
			}
			g.skew = r.Range(-60, 60)
			if r.Chance(1, 4) {
				g.skew = r.Range(-400, 400)
			}
			batch[i] = g
		}
		arrive := make([]atomic.Int32, k)
		var panicked atomic.Bool
		var sink atomic.Int64
		meet := func(i, skew int) {
			arrive[i].Add(1)
			for spins := 0; arrive[i].Load() < 2 && !panicked.Load(); spins++ {
				if spins > 1<<16 {
					runtime.Gosched()
				}
			}
			x := int64(0)
			for j := 0; j < skew; j++ {
				x += int64(j)
			}
			sink.Add(x)
		}
		var wg sync.WaitGroup
		wg.Add(2)
		go func() { // the pod informer's goroutine
			defer wg.Done()
			defer func() {
				if recover() != nil {
					panicked.Store(true)
				}
			}()
			for i, g := range batch {
				meet(i, g.skew)
				for _, pod := range g.pods {
					podAdd(pod)
				}
			}
		}()
		go func() { // the PodGroup informer's goroutine
			defer wg.Done()
			defer func() {
				if recover() != nil {
					panicked.Store(true)
				}
			}()
			for i, g := range batch {
				meet(i, -g.skew)
				pgAdd(g.pg)
			}
		}()
		wg.Wait()
		st.rounds++
		st.gangs += k
		all = append(all, batch...)
		var cur *rg
		traced := map[int]bool{}
		fail := func(fp, format string, a ...interface{}) {
			if !failed {
				h.Op("# round %d: %d brand-new gangs; for each, goroutine P calls onPodAdd for its first member(s) while goroutine G calls onPodGroupAdd for its PodGroup (started together)", round, k)
			}
			if cur != nil && !traced[cur.id] {
				traced[cur.id] = true
				h.Op("# gang r%d: G pgadd %s | P podadd %s (pods carry the gang by %s)", cur.id, cur.cfg.toks(), vIntsI(cur.pids),
					[]string{"PodGroup label", "annotations"}[cur.way])
			}
			failed = true
			h.Fail(fp, "new-gang race round %d: %s", round, fmt.Sprintf(format, a...))
		}
		if panicked.Load() {
			fail("C04:panic", "an informer handler panicked")
		}
		sums := mgr.GetGangSummaries()
		for _, g := range all {
			cur = g
			s, ok := sums["ns/"+g.pg.Name]
			if !ok {
				fail("C04:member-in-no-set", "gang r%d got its PodGroup add and %d pod adds (racing informer goroutines) but is not in the cache", g.id, len(g.pods))
				continue
			}
			for j, pod := range g.pods {
				key := "ns/" + pod.Name
				cnt := vB(s.PendingChildren.Has(key)) + vB(s.WaitingForBindChildren.Has(key)) + vB(s.BoundChildren.Has(key))
				switch {
				case cnt == 0 || !s.Children.Has(key):
					fail("C04:member-in-no-set", "pod %d of new gang r%d was added while the gang's PodGroup add ran on the other informer goroutine: child=%v, in %d of pending/waiting/bound of the cached gang",
						g.pids[j], g.id, s.Children.Has(key), cnt)
				case cnt > 1:
					fail("C04:pod-in-two-sets", "pod %d of new gang r%d is in %d of pending/waiting/bound", g.pids[j], g.id, cnt)
				}
			}
			// declared policy if a legal one is declared, else the CONFIGURED default (an empty configured default may show
			// up as "" or as the documented default once-satisfied); two annotations that disagree: not judged
			ep, amb := g.cfg.effPol(dflt)
			wantPol := c04DfltStr(ep)
			polOK := s.GangMatchPolicy == wantPol || amb
			if dp, _ := g.cfg.declaredPol(); dp < 0 && dflt == 3 && s.GangMatchPolicy == "" {
				polOK = true
			}
			wantMode := extension.GangModeStrict
			if g.cfg.mode == 0 {
				wantMode = extension.GangModeNonStrict
			}
			if !s.HasGangInit || s.MinRequiredNumber != g.cfg.min || !polOK || s.Mode != wantMode || s.GangFrom != GangFromPodGroupCrd {
				fail("C04:gang-not-initialised-by-podgroup", "new gang r%d: its PodGroup (min %d, policy %q, mode %q) was added while its first pod was added on the other informer goroutine, "+
					"but the cached gang has init=%v min=%d policy=%q mode=%q from=%q", g.id, g.cfg.min, wantPol, wantMode, s.HasGangInit, s.MinRequiredNumber, s.GangMatchPolicy, s.Mode, s.GangFrom)
			}
		}
	}
	if !failed {
		h.Nontrivial()
	}
}

func TestVerifC04(t *testing.T) {
	h := vOpen("C04")
	if h == nil {
		t.Skip("VERIF_OUT not set")
	}
	oldNow := timeNowFn
	timeNowFn = func() time.Time { return time.Unix(1700000000, 0) }
	defer func() { timeNowFn = oldNow }()
	ctx := context.TODO()
	n := h.N(5000, 120000)
	// exhaustive small-scope stream (cases n .. n+nExh-1): two PodGroup gangs (min 1) in one gang group, one pod
	// each, everything has arrived; then EVERY sequence of exhLen calls out of
	// {Permit, Unreserve, PostBind, AfterPostFilter, update without node, update with node, delete} x {pod 0, pod 10},
	// for every (match policy, mode) of exhCfgs.  Prefixes are covered because the oracle runs after every op.
	exhLen, exhCfgs := 3, [][2]int{{0, 1}, {2, 1}}
	if h.Tier == "thorough" {
		exhLen, exhCfgs = 4, [][2]int{{0, 1}, {1, 1}, {2, 1}, {0, 0}, {1, 0}, {2, 0}}
	}
	exhPer := 1
	for i := 0; i < exhLen; i++ {
		exhPer *= 14
	}
	nExh := exhPer * len(exhCfgs)
	if vEnvInt("VERIF_C04_NOEXH", 0) != 0 {
		nExh = 0
	}
	// concurrency stream (cases n+nExh .. n+nExh+nConc-1): after a sequential prefix the informer goroutine and the
	// scheduling goroutine really race on the same pods; see "concurrent phase" below.
	nConc := n / 10
	if v := vEnvInt("VERIF_C04_NCONC", -1); v >= 0 {
		nConc = v
	}
	concRounds, concOverlaps, concCalls := 0, 0, 0
	// shapes stream (the last nShp cases), exhaustive in both tiers: gang 0 is declared on every path (PodGroup /
	// pod annotations / lightweight labels) x every shape of the groups annotation (absent, "", null, [], [self],
	// [other, self], not JSON) x min 1..3 x 5 policy tokens x 2 modes; gang 1 (min 1) is in its group only for the
	// [other, self] shape.  All members arrive, then each goes through Permit in turn, then bind / roll-back.
	nShp := 3 * 7 * 3 * 5 * 2
	if vEnvInt("VERIF_C04_NOEXH", 0) != 0 {
		nShp = 0
	}
	// resolution stream (the next nRes cases), exhaustive in both tiers: the configured DefaultMatchPolicy (only-waiting /
	// waiting-and-running / once-satisfied / "") x path (PodGroup / pod annotations / lightweight labels) x 10 spellings of
	// the match policy (three legal, absent, "", illegal, through the alias annotation, alias "" / illegal) x 7 spellings of
	// the mode (NonStrict, Strict, absent, garbage, "", strict / nonstrict in another letter case) for ONE gang of min 2 that
	// is a group of its own, over two scheduling rounds: member 0 parks at Permit and member 1 fails (strict => 0 is
	// rejected); both are released and bound; a replacement member 2 comes to Permit alone (waits unless the policy in force
	// counts the bound ones or is once-satisfied) and member 3 fails (strict and not once-satisfied => 2 is rejected).
	resPol := [][2]int{{0, 0}, {1, 0}, {2, 0}, {3, 0}, {5, 0}, {4, 0}, {3, 1}, {5, 2}, {3, 5}, {3, 6}}
	nRes := 4 * 3 * len(resPol) * 7
	if vEnvInt("VERIF_C04_NOEXH", 0) != 0 {
		nRes = 0
	}
	// wired stream (the next nWired cases): the system under test is built by the real NewPodGroupManager and every
	// informer event goes to the handler it REGISTERED on the (captured) pod / PodGroup informer; deletes arrive as the
	// object, as a re-list tombstone (cache.DeletedFinalStateUnknown by value) or in a shape onPodDelete ignores.
	nWired := n / 5
	if v := vEnvInt("VERIF_C04_NWIRED", -1); v >= 0 {
		nWired = v
	}
	var wireClients *c04WireClients
	// new-gang race stream (the last nRace cases): the pod informer goroutine and the PodGroup informer goroutine
	// deliver the FIRST events of many brand-new gangs at the same time; see c04RaceCase.
	nRace := n / 25
	if v := vEnvInt("VERIF_C04_NRACE", -1); v >= 0 {
		nRace = v
	}
	raceStats := &c04RaceStats{}
	// wired exhaustive stream (the very last cases): the exhaustive stream once more for the strict only-waiting and
	// waiting-and-running configurations, on a manager built by NewPodGroupManager, every event through the registered
	// handlers and every delete as a re-list tombstone.
	wexhCfgs := [][2]int{{0, 1}, {1, 1}}
	nWexh := exhPer * len(wexhCfgs)
	if vEnvInt("VERIF_C04_NOEXH", 0) != 0 {
		nWexh = 0
	}
	// reservation stream (after everything else): some members of the gangs are RESERVATIONS (gang labels / annotations
	// in spec.template or on the object).  Their informer events go through the reservation -> pod adapter: two cases out
	// of three the handler NewPodGroupManager REGISTERED on the (captured) Reservation informer, else
	// reservationutil.NewReservationToPodEventHandler around the GangCache's pod handlers; the scheduling calls get the
	// reserve pod (reservationutil.NewReservePod).  A Reservation is shown pending, pending with a REQUESTED node
	// (spec.template.spec.nodeName), scheduled (status.nodeName; Available / Waiting) or succeeded / failed; deletes as the
	// object, a re-list tombstone or an ignored shape.
	nRsv := n / 5
	if v := vEnvInt("VERIF_C04_NRSV", -1); v >= 0 {
		nRsv = v
	}
	// reservation states stream (the very last cases), exhaustive in both tiers: ONE gang of min 2 (a group of its own,
	// strict) whose member 0 is a Reservation, members 1 and 2 ordinary pods; match policy (3) x path (PodGroup / pod
	// annotations / lightweight labels) x the state the Reservation is ADDED in (requested node y/n x status.nodeName y/n x
	// active / succeeded / failed) x the state a later UPDATE shows (status.nodeName y/n x active / succeeded / failed):
	// add, member 1 arrives and comes to Permit (+ bind or stays parked), update, member 2 arrives and comes to Permit,
	// then the Reservation's own scheduling cycle if it still needs one.
	nRsvX := 3 * 3 * 12 * 6
	if vEnvInt("VERIF_C04_NOEXH", 0) != 0 {
		nRsvX = 0
	}
	resBase := n + nExh + nConc + nShp
	wexhBase := resBase + nRes + nWired + nRace
	rsvBase := wexhBase + nWexh
	for idx := 0; idx < rsvBase+nRsv+nRsvX; idx++ {
		r := h.Begin(idx)
		if r == nil {
			continue
		}
		exh := idx >= n && idx < n+nExh
		conc := idx >= n+nExh && idx < n+nExh+nConc
		shp := idx >= n+nExh+nConc && idx < n+nExh+nConc+nShp
		res := idx >= resBase && idx < resBase+nRes
		wired := idx >= resBase+nRes && idx < resBase+nRes+nWired
		if idx >= resBase+nRes+nWired && idx < wexhBase {
			if wireClients == nil {
				wireClients = c04NewWireClients()
			}
			c04RaceCase(h, r, raceStats, wireClients)
			h.End()
			continue
		}
		wexh := idx >= wexhBase && idx < rsvBase
		rsvS := idx >= rsvBase
		rsvX := idx >= rsvBase+nRsv
		if rsvS {
			wired = idx%3 != 0
		}
		exhIdx, exhC := idx-n, exhCfgs
		if wexh {
			exh, wired, exhIdx, exhC = true, true, idx-wexhBase, wexhCfgs
		}
		// ---------- the case's universe ----------
		nG := r.Range(1, 3)
		if exh || shp {
			nG = 2
		}
		if res || rsvX {
			nG = 1
		}
		// the scheduler's configuration: CoschedulingArgs.DefaultMatchPolicy (3 = the empty string)
		dflt := []int{2, 2, 0, 1, 3}[r.Intn(5)]
		if exh {
			dflt = 2
		}
		// partition of the gangs into gang groups
		groupOf := make([][]int, nG)
		switch {
		case nG == 1 || r.Chance(1, 5):
			for g := 0; g < nG; g++ {
				groupOf[g] = []int{g}
			}
		case nG == 3 && r.Chance(1, 3):
			groupOf[0], groupOf[1], groupOf[2] = []int{0, 1}, []int{0, 1}, []int{2}
		default:
			all := make([]int, nG)
			for g := range all {
				all[g] = g
			}
			for g := 0; g < nG; g++ {
				groupOf[g] = all
			}
		}
		cfgs := make([]c04Cfg, nG)
		ways := make([]int, nG)
		linkCfg := make([][]int, nG) // late linking: the group a later annotation-only PodGroup update declares (nil: none)
		strictBias := r.Chance(2, 3)
		// "the gang is a group of its own", said in every shape the annotation can have
		emptyShape := func() int { return []int{0, 0, 1, 2, 3, 3, 5}[r.Intn(7)] }
		// late linking: the PodGroups are created without a groups annotation and linked into one gang group by a later
		// annotation-only update;  others-only: gang 0 names only gang 1, gang 1 is a group of its own
		lateLink := !exh && !shp && nG > 1 && len(groupOf[0]) > 1 && r.Chance(1, 6)
		othersOnly := !exh && !shp && !lateLink && nG > 1 && r.Chance(1, 30)
		for g := 0; g < nG; g++ {
			c := c04Cfg{min: r.Range(1, 3), pol: r.Intn(4), mode: 1, gshape: 4}
			if r.Chance(1, 12) {
				c.min = r.Range(-1, 0)
			}
			if r.Chance(1, 12) {
				c.pol = 4
			}
			c = c.respell(r)
			if !strictBias || r.Chance(1, 4) {
				c.mode = r.Intn(7)
			}
			// the declared group, written in a random order; a single-gang group is usually left out
			grp := append([]int(nil), groupOf[g]...)
			for i, j := range r.Perm(len(grp)) {
				grp[i], grp[j] = grp[j], grp[i]
			}
			c.group = grp
			switch {
			case len(grp) == 1 && r.Chance(2, 3):
				c.gshape, c.group = emptyShape(), nil
			case len(grp) > 1 && r.Chance(1, 15):
				// inconsistent declaration: this gang forgets / garbles its groups annotation
				c.gshape, c.group = emptyShape(), nil
			}
			if r.Chance(2, 5) {
				ways[g] = r.Range(1, 2)
			}
			if lateLink && len(grp) > 1 {
				ways[g], linkCfg[g] = 0, grp
				c.gshape, c.group = emptyShape(), nil
			}
			cfgs[g] = c
		}
		if othersOnly {
			cfgs[0].gshape, cfgs[0].group = 4, []int{1}
			cfgs[1].gshape, cfgs[1].group = emptyShape(), nil
			h.Tag("stream:others-only-group")
		}
		if lateLink {
			h.Tag("stream:late-link")
		}
		var pods []*c04PodSt
		for g := 0; g < nG; g++ {
			m := cfgs[g].min
			if m < 1 {
				m = 1
			}
			k := m + r.Intn(2)
			for i := 0; i < k; i++ {
				pods = append(pods, &c04PodSt{id: g*10 + i, g: g})
			}
		}
		if exh {
			ec := exhC[exhIdx/exhPer]
			for g := 0; g < 2; g++ {
				groupOf[g], ways[g] = []int{0, 1}, 0
				cfgs[g] = c04Cfg{min: 1, pol: ec[0], mode: ec[1], group: []int{0, 1}, gshape: 4}
			}
			pods = []*c04PodSt{{id: 0, g: 0}, {id: 10, g: 1}}
			h.Tag("exhaustive")
			if wexh {
				h.Tag("exhaustive:wired, deletes as tombstones")
			}
		}
		if shp {
			code := idx - (n + nExh + nConc)
			path := code % 3
			code /= 3
			sv := code % 7
			code /= 7
			mn := 1 + code%3
			code /= 3
			pol := code % 5
			code /= 5
			mode := code % 2
			shape, grp, g1grp := sv, []int(nil), []int{1}
			switch sv {
			case 4:
				grp = []int{0}
			case 6:
				shape, grp, g1grp = 4, []int{1, 0}, []int{0, 1}
			}
			cfgs[0], ways[0] = c04Cfg{min: mn, pol: pol, mode: mode, gshape: shape, group: grp}, path
			cfgs[1], ways[1] = c04Cfg{min: 1, pol: pol, mode: 1, gshape: 4, group: g1grp}, 0
			pods = nil
			for i := 0; i < mn; i++ {
				pods = append(pods, &c04PodSt{id: i, g: 0})
			}
			pods = append(pods, &c04PodSt{id: 10, g: 1})
			h.Tag("shapes-exhaustive")
		}
		if res {
			code := idx - resBase
			dflt = code % 4
			code /= 4
			path := code % 3
			code /= 3
			pv := resPol[code%len(resPol)]
			code /= len(resPol)
			mode := code % 7
			cfgs[0], ways[0] = c04Cfg{min: 2, pol: pv[0], al: pv[1], mode: mode, gshape: 0}, path
			groupOf[0] = []int{0}
			pods = nil
			for i := 0; i < 4; i++ {
				pods = append(pods, &c04PodSt{id: i, g: 0})
			}
			h.Tag("resolution-exhaustive")
		}
		rsvXA, rsvXB := 0, 0 // reservation states stream: the state added / the state updated to (req*6 + sched*3 + phase)
		if rsvX {
			code := idx - (rsvBase + nRsv)
			pol := code % 3
			code /= 3
			path := code % 3
			code /= 3
			rsvXA = code % 12
			code /= 12
			rsvXB = code % 6
			cfgs[0], ways[0] = c04Cfg{min: 2, pol: pol, mode: 1, gshape: 0}, path
			groupOf[0] = []int{0}
			pods = []*c04PodSt{{id: 0, g: 0, rsv: true, rsvReq: rsvXA >= 6, rsvOwn: r.Chance(1, 4)}, {id: 1, g: 0}, {id: 2, g: 0}}
			h.Tag("reservation-states-exhaustive")
		}
		if rsvS && !rsvX {
			h.Tag("reservation-members")
			k := 0
			for _, ps := range pods {
				if r.Chance(1, 3) {
					ps.rsv = true
					k++
				}
			}
			if k == 0 {
				pods[r.Intn(len(pods))].rsv = true
			}
			for _, ps := range pods {
				if ps.rsv {
					ps.rsvReq, ps.rsvOwn = r.Bool(), r.Chance(1, 4)
				}
			}
		}
		h.Tag(fmt.Sprintf("gangs:%d", nG))
		h.Tag(fmt.Sprintf("configured-default-policy:%d", dflt))

		// ---------- the system under test ----------
		fh := &c04Handle{waiting: map[int]*c04WP{}}
		h.Op("args %d", dflt)
		args := &config.CoschedulingArgs{DefaultTimeout: metav1.Duration{Duration: 300 * time.Second},
			DefaultMatchPolicy: c04DfltStr(dflt)}
		cache := NewGangCache(args, nil, nil, nil, fh)
		mgr := &PodGroupManager{handle: fh, args: args, cache: cache}
		// informer event delivery: straight into the GangCache methods, or (wired stream) into the registered handlers
		evPodAdd := func(pod *corev1.Pod) { cache.onPodAdd(pod) }
		evPodUpd := func(o, nw *corev1.Pod) { cache.onPodUpdate(o, nw) }
		evPodDel := func(obj interface{}) { cache.onPodDelete(obj) }
		evPGAdd := func(pg *v1alpha1.PodGroup) { cache.onPodGroupAdd(pg) }
		evPGUpd := func(o, nw *v1alpha1.PodGroup) { cache.onPodGroupUpdate(o, nw) }
		evPGDel := func(obj interface{}) { cache.onPodGroupDelete(obj) }
		var wiredRsvH []k8scache.ResourceEventHandler
		if wired {
			h.Tag("wired")
			if wireClients == nil {
				wireClients = c04NewWireClients()
			}
			w, err := c04Wire(fh, args, wireClients)
			if err != nil {
				h.Op("# wired fixture")
				h.Fail("C04:no-informer-handler-registered", "%v", err)
				h.End()
				continue
			}
			mgr, cache = w.mgr, w.mgr.cache
			wiredRsvH = w.rsvH
			evPodAdd = func(pod *corev1.Pod) {
				for _, eh := range w.podH {
					eh.OnAdd(pod, false)
				}
			}
			evPodUpd = func(o, nw *corev1.Pod) {
				for _, eh := range w.podH {
					eh.OnUpdate(o, nw)
				}
			}
			evPodDel = func(obj interface{}) {
				for _, eh := range w.podH {
					eh.OnDelete(obj)
				}
			}
			evPGAdd = func(pg *v1alpha1.PodGroup) {
				for _, eh := range w.pgH {
					eh.OnAdd(pg, false)
				}
			}
			evPGUpd = func(o, nw *v1alpha1.PodGroup) {
				for _, eh := range w.pgH {
					eh.OnUpdate(o, nw)
				}
			}
			evPGDel = func(obj interface{}) {
				for _, eh := range w.pgH {
					eh.OnDelete(obj)
				}
			}
		}
		// Reservation events: through the adapter the manager registered on the Reservation informer (wired), or through
		// the same adapter built by hand around the GangCache's pod handlers
		rsvHandlers := []k8scache.ResourceEventHandler{reservationutil.NewReservationToPodEventHandler(k8scache.ResourceEventHandlerFuncs{
			AddFunc: cache.onPodAdd, UpdateFunc: cache.onPodUpdate, DeleteFunc: cache.onPodDelete})}
		if wired {
			rsvHandlers = wiredRsvH
		}
		if rsvS && len(rsvHandlers) == 0 {
			h.Op("# wired fixture")
			h.Fail("C04:no-informer-handler-registered", "NewPodGroupManager registered no handler on the Reservation informer")
			h.End()
			continue
		}
		evRsvAdd := func(x *schedulingv1alpha1.Reservation) {
			for _, eh := range rsvHandlers {
				eh.OnAdd(x, false)
			}
		}
		evRsvUpd := func(o, nw *schedulingv1alpha1.Reservation) {
			for _, eh := range rsvHandlers {
				eh.OnUpdate(o, nw)
			}
		}
		evRsvDel := func(obj interface{}) {
			for _, eh := range rsvHandlers {
				eh.OnDelete(obj)
			}
		}
		// gone(p): the delete event of pod p was delivered (in a shape onPodDelete understands) and nothing has named p since
		gone := func(p int) bool {
			for _, x := range pods {
				if x.id == p {
					return x.gone
				}
			}
			return false
		}
		unscheduledRsv := func(xs []int) int { // live reserve-pod members whose Reservation the harness never saw scheduled / bound
			k := 0
			for _, q := range xs {
				for _, x := range pods {
					if x.id == q && x.rsv && !x.gone && !x.bound {
						k++
						h.Tag("oracle:unscheduled reservation in the bound set not counted")
					}
				}
			}
			return k
		}
		live := func(xs []int) int { // members the harness has not seen deleted
			k := 0
			for _, q := range xs {
				if !gone(q) {
					k++
				}
			}
			return k
		}

		// ---------- harness-side bookkeeping for the oracle ----------
		everBound := make([]bool, nG) // some pod of the gang was bound at some time ("group once satisfied")
		pgExists := make([]bool, nG)
		prev := map[int]c04Sum{}
		released, strictRejects := 0, 0
		// What the gangs DECLARE, kept by the harness from the objects it sent (never read back from the cache): the
		// latest PodGroup object that reached a cached gang, or the first valid annotated pod of a gang that had nothing
		// declared.  Absent / illegal policy = the configured default once-satisfied; absent / illegal mode = Strict.
		type c04Decl struct {
			min, pol int
			amb      bool // two match-policy annotations that disagree: the policy-dependent clauses are not judged
			strict   bool
			group    []int
		}
		decl := make([]*c04Decl, nG) // nil: nothing valid declared yet, or the gang left the cache
		scope := make([]map[int]bool, nG)
		declare := func(g int, c c04Cfg, path string) {
			// policy in force = the declared one if a legal one is declared, else what the scheduler was CONFIGURED with;
			// mode = NonStrict only when spelled exactly so, Strict for everything else
			pol, amb := c.effPol(dflt)
			if dp, _ := c.declaredPol(); dp < 0 {
				h.Tag(fmt.Sprintf("declared:no legal policy, configured default %d in force", dflt))
			}
			if amb {
				h.Tag("declared:match-policy annotation and alias disagree")
			}
			h.Tag(fmt.Sprintf("declared:mode-spelling=%d", c.mode))
			decl[g] = &c04Decl{min: c.min, pol: pol, amb: amb, strict: c.mode != 0, group: c.declaredGroup(g)}
			if scope[g] == nil {
				scope[g] = map[int]bool{}
			}
			for _, x := range decl[g].group {
				scope[g][x] = true
			}
			h.Tag(fmt.Sprintf("declared:%s groups-shape=%d", path, c.gshape))
		}
		declGroupOf := func(g int) []int {
			if decl[g] != nil {
				return decl[g].group
			}
			return []int{g}
		}
		// "the group was satisfied before": some member of a gang this gang was ever declared in one group with was bound
		groupSatisfied := func(g int) bool {
			for x := 0; x < nG; x++ {
				if everBound[x] && (x == g || scope[g][x] || scope[x][g]) {
					return true
				}
			}
			return false
		}
		markBound := func(ps *c04PodSt) {
			ps.bound = true
			everBound[ps.g] = true
		}

		// emit observations + evaluate the oracle after one op
		// kind: 0 other, 1 permit, 2 unreserve, 3 postfilter;  ps: the op's pod
		finish := func(kind int, ps *c04PodSt, verdict int, fwBefore map[int]int, panicked bool) {
			if panicked {
				h.Obs("panic")
				h.Fail("C04:panic", "entry point panicked")
				return
			}
			sort.Ints(fh.allowed)
			sort.Ints(fh.rejected)
			h.Obs("out %d %s %s", verdict, c04ShowSet("a", fh.allowed), c04ShowSet("r", fh.rejected))
			sums := map[int]c04Sum{}
			var ids []int
			for name, s := range mgr.GetGangSummaries() {
				id := c04ParseID(name, "ns/g")
				sums[id] = c04Project(s)
				ids = append(ids, id)
			}
			sort.Ints(ids)
			for _, id := range ids {
				s := sums[id]
				h.Obs("g %d %d %d %d %d %d %s %s %s %s %s", id, vB(s.init), s.min, s.pol, vB(s.strict), vB(s.sat),
					c04ShowSet("grp", s.grp), c04ShowSet("ch", s.ch), c04ShowSet("pe", s.pe), c04ShowSet("wa", s.wa), c04ShowSet("bo", s.bo))
			}
			var fwKeys []int
			for k := range fh.waiting {
				fwKeys = append(fwKeys, k)
			}
			sort.Ints(fwKeys)
			fw := fmt.Sprintf("fw %d", len(fwKeys))
			for _, k := range fwKeys {
				fw += fmt.Sprintf(" %d %d", k, fh.waiting[k].g)
			}
			h.Obs("%s", fw)

			// ---- oracle clause 1: a release happens only when every gang of the pod's group holds its minimum ----
			rel := append([]int(nil), fh.allowed...)
			if kind == 1 && verdict == 0 {
				rel = append(rel, ps.id)
			}
			for _, q := range rel {
				gq := q / 10
				if gq >= nG {
					continue
				}
				for _, x := range declGroupOf(gq) {
					s, ok := sums[x]
					var d *c04Decl
					if x < nG {
						d = decl[x]
					}
					switch {
					case !ok:
						h.Fail("C04:released-while-group-unsatisfied", "pod %d released but gang %d of its declared group is not in the cache", q, x)
					case d == nil:
						h.Fail("C04:released-while-group-unsatisfied", "pod %d released but gang %d of its declared group has no valid declaration (not initialised)", q, x)
					case d.amb:
					default:
						// the sets are the cache's state (minus pods whose delete event the harness has delivered: a pod that is
						// gone holds nothing); minimum, policy and group are what was DECLARED
						cnt := live(s.wa)
						if d.pol == 1 {
							// a reserve pod holds resources as a bound member only when its Reservation is actually scheduled
							// (status.nodeName was shown, or PostBind ran) — harness view, not the cache's
							cnt += live(s.bo) - unscheduledRsv(s.bo)
						}
						// under the once-satisfied policy a group that was satisfied before is no longer constrained
						onceOK := d.pol == 2 && (groupSatisfied(gq) || groupSatisfied(x))
						if cnt < d.min && !onceOK {
							h.Fail("C04:released-while-group-unsatisfied", "pod %d released but gang %d holds %d < declared min %d (policy in force %d; configured default %d)", q, x, cnt, d.min, d.pol, dflt)
						}
					}
				}
			}
			if len(rel) > 0 {
				h.Tag(fmt.Sprintf("release:%d", len(rel)))
				released += len(rel)
			}
			// ---- clause 1b: on release every member parked at Permit is released with it (all, not some) ----
			if kind == 1 && verdict == 0 {
				for q, gq := range fwBefore {
					if c04Has(declGroupOf(ps.g), gq) && !c04Has(fh.allowed, q) {
						h.Fail("C04:waiting-member-not-released", "pod %d succeeded at Permit but waiting member %d of gang %d stays parked", ps.id, q, gq)
					}
				}
			}
			// ---- clause 2: strict mode, failed / rolled-back member => every waiting member of the group rejected ----
			if kind == 2 || kind == 3 {
				if _, ok := prev[ps.g]; ok && decl[ps.g] != nil && decl[ps.g].strict && !decl[ps.g].amb && !(decl[ps.g].pol == 2 && groupSatisfied(ps.g)) {
					for q, gq := range fwBefore {
						if q == ps.id || !c04Has(declGroupOf(ps.g), gq) {
							continue
						}
						if !c04Has(fh.rejected, q) {
							h.Fail("C04:strict-failure-left-member-waiting", "member %d failed (op kind %d) in strict gang %d but waiting pod %d of gang %d was not rejected", ps.id, kind, ps.g, q, gq)
						}
					}
					if len(fh.rejected) > 0 {
						strictRejects++
						h.Tag("strict-reject")
					}
				}
			}
			// ---- clause 3: a member is in exactly one of pending / waiting / bound ----
			for _, id := range ids {
				s := sums[id]
				for _, p := range s.ch {
					cnt := vB(c04Has(s.pe, p)) + vB(c04Has(s.wa, p)) + vB(c04Has(s.bo, p))
					if cnt == 0 {
						h.Fail("C04:member-in-no-set", "pod %d is a child of gang %d but in none of pending/waiting/bound", p, id)
					}
					if cnt > 1 {
						taint := false
						for _, x := range pods {
							if x.id == p && x.tainted {
								taint = true
							}
						}
						if taint {
							h.Tag("two-sets-after-contract-breach")
							continue
						}
						h.Fail("C04:pod-in-two-sets", "pod %d of gang %d: pending=%v waiting=%v bound=%v", p, id, c04Has(s.pe, p), c04Has(s.wa, p), c04Has(s.bo, p))
					}
				}
			}
			for g := 0; g < nG; g++ {
				if _, ok := sums[g]; !ok {
					decl[g] = nil // the gang object is gone: whatever comes next starts from nothing
				}
			}
			prev = sums
		}

		fwSnapshot := func() map[int]int {
			m := map[int]int{}
			for k, w := range fh.waiting {
				m[k] = w.g
			}
			return m
		}
		settle := func() { // allowed / rejected pods leave the waiting map: the binding goroutines take over
			for _, q := range fh.allowed {
				for _, x := range pods {
					if x.id == q {
						x.flight = 2
					}
				}
			}
			for _, q := range fh.rejected {
				for _, x := range pods {
					if x.id == q {
						x.flight = 3
					}
				}
			}
		}
		begin := func() map[int]int {
			fh.allowed, fh.rejected = nil, nil
			return fwSnapshot()
		}

		// pod object of the moment (annotations are per pod event: the first valid one initialises the gang)
		var mkC c04Cfg // the configuration and min-validity the last mkPod wrote into the pod
		mkMinOK := 1
		var mkRsv *schedulingv1alpha1.Reservation // the Reservation behind the reserve pod the last mkPod returned
		mkPod := func(ps *c04PodSt, node string) (*corev1.Pod, string) {
			way := ways[ps.g]
			c := cfgs[ps.g]
			minOK := 1
			if way != 0 && !shp && !res {
				if r.Chance(1, 10) {
					minOK = r.Intn(2) * 2 // 0 illegal, 2 missing
				}
				if r.Chance(1, 12) { // a pod that disagrees with its siblings: only the first valid one counts
					c.min = r.Range(1, 3)
					c.pol = r.Intn(3)
					c = c.respell(r)
				}
			}
			podNode := node
			if ps.rsv {
				podNode = ""
			}
			pod := c04Pod(ps.id, ps.g, way, podNode, c, minOK, r)
			mkC, mkMinOK = c, minOK
			if ps.rsv {
				// the member is a Reservation: `node` is its status.nodeName; what the code gets is the reserve pod
				req := ""
				if ps.rsvReq {
					req = "n1"
				}
				mkRsv = c04Rsv(pod, ps.rsvOwn, req, node)
				pod = reservationutil.NewReservePod(mkRsv)
			}
			if way == 0 {
				return pod, "0"
			}
			return pod, fmt.Sprintf("1 %d %s", vB(minOK == 1), c.toks())
		}
		nodeOf := func(b bool) string {
			if b {
				return "n1"
			}
			return ""
		}

		lastPG := make([]*v1alpha1.PodGroup, nG)
		doPGAdd := func(g int, update bool) {
			c := cfgs[g]
			if update {
				switch v := r.Intn(6); {
				case v < 2: // annotation-only update: policy / mode change, the spec does not
					c.pol = r.Intn(5)
					c = c.respell(r)
					c.mode = r.Intn(7)
					h.Tag("pgupd:annotation-only")
				case v < 4: // spec (min) and annotations change
					c.min = r.Range(0, 3)
					c.pol = r.Intn(5)
					c = c.respell(r)
					c.mode = r.Intn(7)
					h.Tag("pgupd:spec-and-annotations")
				default: // the object is re-sent unchanged (resync)
					h.Tag("pgupd:unchanged")
				}
				if linkCfg[g] != nil && c.gshape != 4 && r.Chance(2, 3) {
					// late linking: the groups annotation is added by an update (the only way the declared group changes)
					c.gshape, c.group = 4, linkCfg[g]
					h.Tag("pgupd:links-group")
				}
				cfgs[g] = c
			}
			pg := c04PG(g, c, r)
			old := lastPG[g]
			if old == nil {
				old = pg
			}
			fwB := begin()
			kindS := "pgadd"
			if update {
				kindS = "pgupd"
			}
			h.Op("%s %d %s", kindS, g, c.toks())
			pan := h.Guard(func() {
				if update {
					evPGUpd(old, pg)
				} else {
					evPGAdd(pg)
				}
			})
			pgExists[g] = pgExists[g] || !update
			lastPG[g] = pg
			if _, cached := prev[g]; !update || cached {
				declare(g, c, "podgroup") // an update for a gang that is not cached is dropped
			}
			h.Tag("op:" + kindS)
			finish(0, nil, 9, fwB, pan)
		}
		doPGDel := func(g int) {
			fwB := begin()
			pg := c04PG(g, cfgs[g], r)
			var obj interface{} = pg
			shape := 0
			if wired {
				switch v := r.Intn(20); {
				case v < 11:
					shape = 1
					if obj = c04Tombstone(pg); obj == nil {
						obj = k8scache.DeletedFinalStateUnknown{Key: "ns/" + pg.Name, Obj: pg}
						h.Tag("tombstone:built by hand")
					}
				case v < 13:
					shape = 2
					if r.Bool() {
						obj = &k8scache.DeletedFinalStateUnknown{Key: "ns/" + pg.Name, Obj: pg}
					} else {
						obj = k8scache.DeletedFinalStateUnknown{Key: "ns/" + pg.Name, Obj: &corev1.Pod{}}
					}
				}
				h.Op("pgdel %d %d", g, shape)
				h.Tag(fmt.Sprintf("pgdel:shape=%d", shape))
			} else {
				h.Op("pgdel %d", g)
			}
			pan := h.Guard(func() { evPGDel(obj) })
			if shape != 2 {
				pgExists[g] = false
				lastPG[g] = nil
				decl[g] = nil // the PodGroup is gone: the gang declares nothing until an object declares it again
			}
			h.Tag("op:pgdel")
			finish(0, nil, 9, fwB, pan)
		}
		forcePhase := 0 // reservation states stream: the phase of a terminated Reservation is given, not drawn
		doPodEvt := func(ps *c04PodSt, update bool, node bool, term bool) {
			pod, tail := mkPod(ps, nodeOf(node))
			rsvPhase := 0
			if term {
				rsvPhase = 1 + r.Intn(2)
				if forcePhase != 0 {
					rsvPhase = forcePhase
				}
				pod.Status.Phase = []corev1.PodPhase{corev1.PodSucceeded, corev1.PodFailed}[rsvPhase-1]
			}
			if ps.rsv {
				switch {
				case rsvPhase == 1:
					mkRsv.Status.Phase = schedulingv1alpha1.ReservationSucceeded
				case rsvPhase == 2:
					mkRsv.Status.Phase = schedulingv1alpha1.ReservationFailed
				case node:
					mkRsv.Status.Phase = []schedulingv1alpha1.ReservationPhase{schedulingv1alpha1.ReservationAvailable, schedulingv1alpha1.ReservationWaiting}[r.Intn(2)]
				case r.Bool():
					mkRsv.Status.Phase = schedulingv1alpha1.ReservationPending
				}
			}
			// an ADD is not filtered by the phase (onPodAdd does not look at it): a terminated Reservation that is added counts
			counted := !term || (ps.rsv && !update)
			ps.gone = false
			if counted && !node && ps.seenNode {
				ps.tainted = true // an informer never shows a node name and then an empty one for the same pod
				h.Tag("out-of-order:node-name-unset")
			}
			fwB := begin()
			switch {
			case ps.rsv && update:
				h.Op("rsvupd %d %d %d %d %d %s", ps.id, ps.g, vB(ps.rsvReq), vB(node), rsvPhase, tail)
			case ps.rsv:
				h.Op("rsvadd %d %d %d %d %d %s", ps.id, ps.g, vB(ps.rsvReq), vB(node), rsvPhase, tail)
			case update:
				h.Op("podupd %d %d %d %d %s", ps.id, ps.g, vB(node), vB(term), tail)
			default:
				h.Op("podadd %d %d %d 0 %s", ps.id, ps.g, vB(node), tail)
			}
			pan := h.Guard(func() {
				switch {
				case ps.rsv && update:
					evRsvUpd(mkRsv, mkRsv)
				case ps.rsv:
					evRsvAdd(mkRsv)
				case update:
					evPodUpd(pod, pod)
				default:
					evPodAdd(pod)
				}
			})
			if ps.rsv {
				h.Tag(fmt.Sprintf("reservation-event:update=%d requested-node=%d scheduled=%d phase=%d", vB(update), vB(ps.rsvReq), vB(node), rsvPhase))
			}
			if counted && ways[ps.g] != 0 && decl[ps.g] == nil && mkMinOK == 1 {
				declare(ps.g, mkC, "pod") // the first valid annotated pod initialises a gang that has nothing declared
			}
			if counted {
				ps.added = true
				if node {
					markBound(ps)
					ps.seenNode = true
				}
			}
			if update {
				h.Tag(fmt.Sprintf("op:podupd node=%d bound=%d", vB(node), vB(ps.bound)))
			} else {
				h.Tag("op:podadd")
			}
			finish(0, ps, 9, fwB, pan)
		}
		// the Reservation behind a reserve-pod member is deleted: OnDelete of the adapter gets the object, a re-list tombstone
		// (by value, around the Reservation) or a shape it ignores (pointer to a tombstone, tombstone around a Pod / nil)
		doRsvDel := func(ps *c04PodSt) {
			pod, _ := mkPod(ps, nodeOf(ps.bound))
			rsv := mkRsv
			fwB := begin()
			var obj interface{} = rsv
			shape := 0
			switch v := r.Intn(20); {
			case v < 9:
				shape = 1
				if obj = c04Tombstone(rsv); obj == nil {
					obj = k8scache.DeletedFinalStateUnknown{Key: rsv.Name, Obj: rsv}
					h.Tag("tombstone:built by hand")
				}
			case v < 12:
				shape = 2
				switch r.Intn(3) {
				case 0:
					obj = &k8scache.DeletedFinalStateUnknown{Key: rsv.Name, Obj: rsv}
				case 1:
					obj = k8scache.DeletedFinalStateUnknown{Key: rsv.Name, Obj: pod}
				default:
					obj = k8scache.DeletedFinalStateUnknown{Key: rsv.Name, Obj: nil}
				}
			}
			h.Op("rsvdel %d %d %d", ps.id, ps.g, shape)
			h.Tag(fmt.Sprintf("rsvdel:shape=%d", shape))
			if sp, ok := prev[ps.g]; ok && (c04Has(sp.wa, ps.id) || c04Has(sp.bo, ps.id)) {
				h.Tag(fmt.Sprintf("rsvdel:of a member that holds resources, shape=%d", shape))
			}
			pan := h.Guard(func() { evRsvDel(obj) })
			if shape != 2 {
				ps.added, ps.bound, ps.tainted, ps.seenNode = false, false, false, false
				ps.gone = true
			}
			h.Tag("op:rsvdel")
			finish(0, ps, 9, fwB, pan)
		}
		// a member arrives: a pod without node (or, node = true, already assigned); a Reservation pending (its template may
		// pin a node: rsvReq), scheduled, or already succeeded / failed
		arrive := func(ps *c04PodSt, node bool) {
			term := false
			if ps.rsv {
				switch v := r.Intn(8); {
				case v < 5:
				case v < 7:
					node = true
				default:
					node, term = r.Bool(), true
				}
			}
			doPodEvt(ps, false, node, term)
		}
		doPodDel := func(ps *c04PodSt) {
			if ps.rsv {
				doRsvDel(ps)
				return
			}
			pod, _ := mkPod(ps, nodeOf(ps.bound))
			fwB := begin()
			// what the informer hands to OnDelete: 0 the object, 1 a re-list tombstone (DeletedFinalStateUnknown by value)
			// around the last known object, 2 a shape onPodDelete does not understand (ignored, the pod stays)
			var obj interface{} = pod
			shape := 0
			if wired {
				v := 0 // wired exhaustive stream: always the tombstone
				if !wexh {
					v = r.Intn(20)
				}
				switch {
				case v < 11:
					shape = 1
					if obj = c04Tombstone(pod); obj == nil {
						obj = k8scache.DeletedFinalStateUnknown{Key: "ns/" + pod.Name, Obj: pod}
						h.Tag("tombstone:built by hand")
					}
				case v < 13:
					shape = 2
					switch r.Intn(3) {
					case 0:
						obj = &k8scache.DeletedFinalStateUnknown{Key: "ns/" + pod.Name, Obj: pod}
					case 1:
						obj = k8scache.DeletedFinalStateUnknown{Key: "ns/" + pod.Name, Obj: c04PG(ps.g, cfgs[ps.g], r)}
					default:
						obj = k8scache.DeletedFinalStateUnknown{Key: "ns/" + pod.Name, Obj: nil}
					}
				}
				h.Op("poddel %d %d %d", ps.id, ps.g, shape)
				h.Tag(fmt.Sprintf("poddel:shape=%d", shape))
				if sp, ok := prev[ps.g]; ok && (c04Has(sp.wa, ps.id) || c04Has(sp.bo, ps.id)) {
					h.Tag(fmt.Sprintf("poddel:of a member that holds resources, shape=%d", shape))
				}
			} else {
				h.Op("poddel %d %d", ps.id, ps.g)
			}
			pan := h.Guard(func() { evPodDel(obj) })
			if shape != 2 {
				ps.added, ps.bound, ps.tainted, ps.seenNode = false, false, false, false
				ps.gone = true
			}
			// a pod parked at Permit stays in the framework's waiting map until the framework rejects it
			// (flight stays 1: the "times out" branch issues its Unreserve later)
			h.Tag("op:poddel")
			finish(0, ps, 9, fwB, pan)
		}
		doPermit := func(ps *c04PodSt) {
			pod, _ := mkPod(ps, "")
			ps.gone = false
			if ps.bound {
				ps.tainted = true
				h.Tag("contract-breach:permit-on-bound")
			}
			fwB := begin()
			h.Op("permit %d %d", ps.id, ps.g)
			verdict := -1
			pan := h.Guard(func() {
				// coscheduling.go Permit
				_, s := mgr.Permit(ctx, pod)
				switch s {
				case PodGroupNotSpecified:
					verdict = 3
				case PodGroupNotFound:
					verdict = 2
				case Wait:
					verdict = 1
					// the framework parks the pod
					fh.waiting[ps.id] = &c04WP{h: fh, pod: pod, p: ps.id, g: ps.g}
				case Success:
					verdict = 0
					mgr.AllowGangGroup(pod, fh, Name)
					mgr.SucceedGangScheduling()
				}
			})
			switch verdict {
			case 0:
				ps.flight = 2
			case 1:
				ps.flight = 1
			case 2:
				ps.flight = 3
			}
			settle()
			h.Tag(fmt.Sprintf("op:permit verdict=%d", verdict))
			finish(1, ps, verdict, fwB, pan)
		}
		doUnreserve := func(ps *c04PodSt) {
			pod, _ := mkPod(ps, "")
			ps.gone = false
			fwB := begin()
			delete(fh.waiting, ps.id) // framework: WaitOnPermit returned / timed out before Unreserve runs
			h.Op("unres %d %d", ps.id, ps.g)
			pan := h.Guard(func() {
				mgr.Unreserve(ctx, framework.NewCycleState(), pod, "n1", fh, Name)
			})
			ps.flight = 0
			settle()
			h.Tag("op:unres")
			finish(2, ps, 9, fwB, pan)
		}
		doPostBind := func(ps *c04PodSt) {
			pod, _ := mkPod(ps, "")
			ps.gone = false
			if ps.flight != 2 {
				ps.tainted = true // the framework calls PostBind only for a pod that left Permit with Success / Allow
				h.Tag("out-of-order:postbind-without-release")
			}
			fwB := begin()
			delete(fh.waiting, ps.id)
			h.Op("postbind %d %d", ps.id, ps.g)
			present := false
			if _, ok := prev[ps.g]; ok {
				present = true
			}
			pan := h.Guard(func() { mgr.PostBind(ctx, pod, "n1") })
			ps.flight = 0
			if present {
				markBound(ps)
			} else {
				ps.bound = true
			}
			h.Tag("op:postbind")
			finish(0, ps, 9, fwB, pan)
		}
		doPostFilter := func(ps *c04PodSt) {
			pod, _ := mkPod(ps, "")
			ps.gone = false
			fwB := begin()
			h.Op("postfilter %d %d", ps.id, ps.g)
			pan := h.Guard(func() {
				mgr.AfterPostFilter(ctx, framework.NewCycleState(), pod, fh, Name, nil, nil)
			})
			settle()
			h.Tag("op:postfilter")
			finish(3, ps, 9, fwB, pan)
		}
		doNoGang := func() {
			pod := &corev1.Pod{ObjectMeta: metav1.ObjectMeta{Name: "p99", Namespace: "ns", UID: "uid-p99"}}
			k := r.Intn(4)
			fwB := begin()
			h.Op("nogang %d 99", k)
			verdict := 9
			pan := h.Guard(func() {
				switch k {
				case 0:
					_, s := mgr.Permit(ctx, pod)
					if s == PodGroupNotSpecified {
						verdict = 3
					} else {
						verdict = 8
					}
				case 1:
					mgr.Unreserve(ctx, framework.NewCycleState(), pod, "n1", fh, Name)
				case 2:
					mgr.PostBind(ctx, pod, "n1")
				default:
					evPodAdd(pod)
					evPodDel(pod)
				}
			})
			h.Tag("op:nogang")
			finish(0, nil, verdict, fwB, pan)
		}

		pick := func(f func(*c04PodSt) bool) *c04PodSt {
			var c []*c04PodSt
			for _, x := range pods {
				if f(x) {
					c = append(c, x)
				}
			}
			if len(c) == 0 {
				return nil
			}
			return c[r.Intn(len(c))]
		}

		// ---------- history ----------
		nOps := r.Range(6, 30)
		scripted := r.Chance(1, 2) // half of the histories start with "everything arrives, then members are scheduled"
		if conc {
			nOps, scripted = r.Range(0, 8), true
		}
		if wired && !scripted {
			scripted = r.Chance(1, 2)
		}
		if rsvS && !scripted {
			scripted = r.Chance(1, 2)
		}
		if shp {
			nOps, scripted = 0, false
			doPGAdd(1, false)
			if ways[0] == 0 {
				doPGAdd(0, false)
			}
			for _, ps := range pods {
				doPodEvt(ps, false, false, false)
			}
			for _, ps := range pods {
				doPermit(ps)
			}
			for _, ps := range pods {
				switch ps.flight {
				case 2:
					doPostBind(ps)
				case 1, 3:
					doUnreserve(ps)
				}
			}
		}
		if res {
			nOps, scripted = 0, false
			if ways[0] == 0 {
				doPGAdd(0, false)
			}
			doPodEvt(pods[0], false, false, false)
			doPodEvt(pods[1], false, false, false)
			doPermit(pods[0])     // parks: 1 < min 2
			doPostFilter(pods[1]) // member 1 finds no node: strict => 0 is rejected
			if pods[0].flight == 3 {
				doUnreserve(pods[0])
			}
			if pods[0].flight == 0 {
				doPermit(pods[0])
			}
			doPermit(pods[1]) // both released
			doPostBind(pods[0])
			doPostBind(pods[1])
			doPodEvt(pods[2], false, false, false) // second round: a replacement member, alone
			doPermit(pods[2])
			doPodEvt(pods[3], false, false, false)
			doPostFilter(pods[3])
			switch pods[2].flight {
			case 2:
				doPostBind(pods[2])
			case 1, 3:
				doUnreserve(pods[2])
			}
		}
		if rsvX {
			nOps, scripted = 0, false
			if ways[0] == 0 {
				doPGAdd(0, false)
			}
			resolve := func(ps *c04PodSt) {
				if ps.flight == 2 {
					doPostBind(ps)
				}
			}
			forcePhase = rsvXA % 3
			doPodEvt(pods[0], false, rsvXA%6 >= 3, forcePhase != 0)
			doPodEvt(pods[1], false, false, false)
			doPermit(pods[1])
			resolve(pods[1])
			forcePhase = rsvXB % 3
			doPodEvt(pods[0], true, rsvXB >= 3, forcePhase != 0)
			forcePhase = 0
			doPodEvt(pods[2], false, false, false)
			doPermit(pods[2])
			resolve(pods[1])
			resolve(pods[2])
			if !pods[0].bound && pods[0].flight == 0 {
				doPermit(pods[0]) // the Reservation's own scheduling cycle
				for _, ps := range pods {
					resolve(ps)
				}
			}
		}
		if exh {
			nOps, scripted = 0, false
			doPGAdd(0, false)
			doPGAdd(1, false)
			doPodEvt(pods[0], false, false, false)
			doPodEvt(pods[1], false, false, false)
			code := exhIdx % exhPer
			for i := 0; i < exhLen; i++ {
				d := code % 14
				code /= 14
				ps := pods[d%2]
				switch d / 2 {
				case 0:
					doPermit(ps)
				case 1:
					doUnreserve(ps)
				case 2:
					doPostBind(ps)
				case 3:
					doPostFilter(ps)
				case 4:
					doPodEvt(ps, true, false, false)
				case 5:
					doPodEvt(ps, true, true, false)
				default:
					doPodDel(ps)
				}
			}
		}
		if scripted {
			for g := 0; g < nG; g++ {
				if ways[g] == 0 {
					doPGAdd(g, false)
				}
			}
			for g := 0; g < nG; g++ {
				if linkCfg[g] != nil && r.Chance(3, 4) {
					doPGAdd(g, true)
				}
			}
			for _, i := range r.Perm(len(pods)) {
				if r.Chance(9, 10) {
					arrive(pods[i], false)
				}
			}
		}
		for step := 0; step < nOps; step++ {
			if wired && r.Chance(1, 6) {
				// a member that holds resources (parked at Permit, released, or bound) vanishes: where a lost delete matters
				ps := pick(func(x *c04PodSt) bool { return x.added && (x.flight == 1 || x.flight == 2 || x.bound) })
				if ps == nil {
					ps = pick(func(x *c04PodSt) bool { return x.added })
				}
				if ps != nil {
					doPodDel(ps)
				}
				continue
			}
			if wired && r.Chance(1, 16) {
				var have []int
				for g := 0; g < nG; g++ {
					if pgExists[g] {
						have = append(have, g)
					}
				}
				if len(have) > 0 {
					doPGDel(have[r.Intn(len(have))])
					continue
				}
			}
			w := r.Intn(100)
			switch {
			case w < 8: // PodGroup events
				g := r.Intn(nG)
				switch {
				case ways[g] == 0 && !pgExists[g]:
					doPGAdd(g, false)
				case r.Chance(1, 6):
					doPGDel(g)
				case r.Chance(1, 8):
					doPGAdd(g, false) // PodGroup (re-)added, also on an annotation gang
				default:
					doPGAdd(g, true)
				}
			case w < 22: // a pod arrives
				if ps := pick(func(x *c04PodSt) bool { return !x.added }); ps != nil {
					arrive(ps, r.Chance(1, 8))
				}
			case w < 52: // a scheduling cycle for a schedulable member
				ps := pick(func(x *c04PodSt) bool { return x.added && !x.bound && x.flight == 0 })
				if ps == nil {
					continue
				}
				switch v := r.Intn(10); {
				case v < 8:
					doPermit(ps)
				case v < 9:
					doPostFilter(ps)
				default:
					doUnreserve(ps) // Reserve / Permit of another plugin failed
				}
			case w < 70: // binding cycles make progress
				ps := pick(func(x *c04PodSt) bool { return x.flight >= 2 })
				if ps == nil {
					continue
				}
				if ps.flight == 3 {
					doUnreserve(ps)
				} else {
					switch v := r.Intn(20); {
					case v < 15:
						doPostBind(ps)
					case v < 18:
						doUnreserve(ps) // PreBind / Bind failed
					default:
						doPodEvt(ps, true, true, false) // the informer reports the binding before PostBind runs
					}
				}
			case w < 73: // a parked pod times out
				if ps := pick(func(x *c04PodSt) bool { return x.flight == 1 }); ps != nil {
					doUnreserve(ps)
				}
			case w < 86: // pod updates: label / status changes, possibly stale (no node name yet), bind notifications
				ps := pick(func(x *c04PodSt) bool { return x.added })
				if ps == nil {
					continue
				}
				switch v := r.Intn(10); {
				case v < 1:
					doPodEvt(ps, true, ps.seenNode, true)
				case ps.seenNode || (v < 6 && ps.bound):
					doPodEvt(ps, true, true, false) // NodeName is immutable once the informer has shown it
				default:
					doPodEvt(ps, true, false, false) // possibly stale w.r.t. a PostBind that already ran
				}
			case w < 92: // deletion
				if ps := pick(func(x *c04PodSt) bool { return x.added }); ps != nil {
					doPodDel(ps)
				}
			case w < 94:
				doNoGang()
			default: // out-of-protocol calls: any entry point on any pod
				ps := pods[r.Intn(len(pods))]
				switch r.Intn(6) {
				case 0:
					doPermit(ps)
				case 1:
					doPostBind(ps)
				case 2:
					doUnreserve(ps)
				case 3:
					doPostFilter(ps)
				case 4:
					doPodDel(ps)
				default:
					doPodEvt(ps, true, r.Bool(), false)
				}
			}
		}

		// ---------- concurrent phase ----------
		// Two goroutines race on the same real GangCache: I replays informer events (onPodAdd / onPodUpdate /
		// onPodDelete) for the pods of the gangs, S runs the scheduling calls (Permit [+AllowGangGroup] / Unreserve /
		// PostBind) for the same pods in protocol order.  A round ends when both are parked (barrier); only then are the
		// summaries read.  The model does not follow this phase (the interleaving is not an input): the lines written
		// here start with '#'.  The oracle demands only what holds under EVERY interleaving of the critical sections on
		// the unchanged tree (Lean: setChild_atomic_safe, permit_race_bound):
		//   * exactly-one-set for every member that got no out-of-contract call;
		//   * a successful Permit releases every member parked before it (scheduling goroutine only);
		//   * after a successful Permit every gang of the group holds, at the barrier, its minimum minus the number of
		//     racing removals (delete / unreserve / bind of a waiting member) that completed after the Permit began.
		// All calls of this phase are inside the framework / informer contract: Permit only for a pod that is a member
		// and not bound at the last barrier and not in flight; a node name is shown only for a pod that was bound at
		// the last barrier and never taken back.
		if conc {
			h.Tag("concurrent")
			h.Op("# concurrent phase")
			type iEv struct {
				kind string // add0 upd0 updN del
				ps   *c04PodSt
				pod  *corev1.Pod
			}
			type iBlock struct {
				once bool
				evs  []iEv
			}
			type sCyc struct {
				ps     *c04PodSt
				act    int // 0 permit, 1 unreserve, 2 postbind
				follow int // after Permit: Success -> 0 stay released, 1 PostBind, 2 Unreserve; Wait -> 0/1 stay parked, 2 Unreserve
				pod    *corev1.Pod
			}
			type done struct {
				seq0, seq         int64
				who               byte
				kind              string
				p, g, verdict     int
				allowed, rejected []int
				fwBefore          map[int]int
			}
			snap := func() map[int]c04Sum {
				sums := map[int]c04Sum{}
				for name, s := range mgr.GetGangSummaries() {
					sums[c04ParseID(name, "ns/g")] = c04Project(s)
				}
				return sums
			}
			rounds := r.Range(6, 20)
			deadline := time.Now().Add(time.Duration(vEnvInt("VERIF_C04_CONC_MS", 250)) * time.Millisecond)
			failed := false
			for round := 0; round < rounds && !failed && time.Now().Before(deadline); round++ {
				start := snap()
				in := func(ps *c04PodSt, f func(c04Sum) []int) bool {
					s, ok := start[ps.g]
					return ok && c04Has(f(s), ps.id)
				}
				isChild := func(ps *c04PodSt) bool { return in(ps, func(s c04Sum) []int { return s.ch }) }
				isBound := func(ps *c04PodSt) bool { return in(ps, func(s c04Sum) []int { return s.bo }) }
				// ---- plan of the scheduling goroutine ----
				var plan []sCyc
				used := map[int]bool{}
				for c, nCyc := 0, r.Range(1, 2); c < nCyc; c++ {
					var cands []*c04PodSt
					for _, x := range pods {
						switch {
						case used[x.id]:
						case x.flight >= 2 || (x.flight == 1 && r.Chance(1, 3)):
							cands = append(cands, x)
						case x.flight == 0 && x.added && isChild(x) && !isBound(x) && !x.bound:
							cands = append(cands, x, x)
						}
					}
					if len(cands) == 0 {
						break
					}
					x := cands[r.Intn(len(cands))]
					used[x.id] = true
					cy := sCyc{ps: x}
					cy.pod, _ = mkPod(x, "")
					switch x.flight {
					case 3, 1:
						cy.act = 1
					case 2:
						cy.act = 2
						if r.Chance(1, 5) {
							cy.act = 1
						}
					default:
						cy.act, cy.follow = 0, r.Intn(3)
					}
					plan = append(plan, cy)
				}
				// ---- plan of the informer goroutine: blocks that may be repeated while S runs ----
				var blocks []iBlock
				ev := func(kind string, x *c04PodSt) iEv {
					node := kind == "updN" || (kind == "del" && x.seenNode)
					pod, _ := mkPod(x, nodeOf(node))
					return iEv{kind: kind, ps: x, pod: pod}
				}
				planned := map[int]bool{}
				for _, cy := range plan {
					x := cy.ps
					switch {
					case !x.added:
					case r.Chance(1, 8):
						blocks = append(blocks, iBlock{evs: []iEv{ev("del", x), ev("add0", x)}}) // delete + re-create racing the cycle
						planned[x.id] = true
					case !x.seenNode && r.Chance(5, 6):
						blocks = append(blocks, iBlock{evs: []iEv{ev("upd0", x)}}) // the update that races setChild against addAssumedPod / addBoundPod
						planned[x.id] = true
					}
				}
				for _, i := range r.Perm(len(pods)) {
					x := pods[i]
					if planned[x.id] || len(blocks) >= 4 || r.Chance(1, 2) {
						continue
					}
					switch {
					case !x.added:
						if r.Chance(1, 2) {
							blocks = append(blocks, iBlock{once: true, evs: []iEv{ev("add0", x)}})
						}
					case r.Chance(1, 10):
						blocks = append(blocks, iBlock{once: true, evs: []iEv{ev("del", x)}})
					case r.Chance(1, 6):
						blocks = append(blocks, iBlock{evs: []iEv{ev("del", x), ev("add0", x)}})
					case isBound(x) && x.bound && (x.seenNode || r.Chance(1, 2)):
						blocks = append(blocks, iBlock{evs: []iEv{ev("updN", x)}})
					case !x.seenNode:
						blocks = append(blocks, iBlock{evs: []iEv{ev("upd0", x)}})
					}
				}
				if len(plan) == 0 && len(blocks) == 0 {
					continue
				}
				// ---- run ----
				var ctr atomic.Int64
				var started, sDone, panicked atomic.Bool
				var iLog, sLog []done
				var wg sync.WaitGroup
				maxIt := r.Range(4, 120) // I keeps delivering until S is done (or this cap)
				drift := r.Intn(8)
				wg.Add(2)
				go func() { // I: the informer goroutine
					defer wg.Done()
					defer func() {
						if recover() != nil {
							panicked.Store(true)
						}
						started.Store(true)
					}()
					for it := 0; it < maxIt; it++ {
						ran := false
						for _, b := range blocks {
							if b.once && it > 0 {
								continue
							}
							ran = true
							for _, e := range b.evs {
								s0 := ctr.Load()
								switch e.kind {
								case "add0":
									cache.onPodAdd(e.pod)
								case "del":
									cache.onPodDelete(e.pod)
								default:
									cache.onPodUpdate(e.pod, e.pod)
								}
								iLog = append(iLog, done{seq0: s0, seq: ctr.Add(1), who: 'I', kind: e.kind, p: e.ps.id, g: e.ps.g, verdict: 9})
							}
						}
						started.Store(true)
						if !ran || sDone.Load() {
							break
						}
					}
				}()
				go func() { // S: the scheduling goroutine
					defer wg.Done()
					defer func() {
						if recover() != nil {
							panicked.Store(true)
						}
						sDone.Store(true)
					}()
					for i := 0; i < 2000 && !started.Load(); i++ {
						runtime.Gosched()
					}
					for i := 0; i < drift; i++ {
						runtime.Gosched()
					}
					call := func(kind string, cy sCyc, f func() int) int {
						fh.allowed, fh.rejected = nil, nil
						fwB := fwSnapshot()
						s0 := ctr.Load()
						v := f()
						d := done{seq0: s0, seq: ctr.Add(1), who: 'S', kind: kind, p: cy.ps.id, g: cy.ps.g, verdict: v, fwBefore: fwB,
							allowed: append([]int(nil), fh.allowed...), rejected: append([]int(nil), fh.rejected...)}
						sort.Ints(d.allowed)
						sort.Ints(d.rejected)
						sLog = append(sLog, d)
						settle()
						return v
					}
					unres := func(cy sCyc) {
						delete(fh.waiting, cy.ps.id)
						call("unres", cy, func() int {
							mgr.Unreserve(ctx, framework.NewCycleState(), cy.pod, "n1", fh, Name)
							return 9
						})
						cy.ps.flight = 0
					}
					postbind := func(cy sCyc) {
						delete(fh.waiting, cy.ps.id)
						call("postbind", cy, func() int {
							mgr.PostBind(ctx, cy.pod, "n1")
							return 9
						})
						cy.ps.flight = 0
						cy.ps.bound = true
					}
					for _, cy := range plan {
						switch cy.act {
						case 1:
							unres(cy)
						case 2:
							postbind(cy)
						default:
							v := call("permit", cy, func() int {
								_, st := mgr.Permit(ctx, cy.pod)
								switch st {
								case Wait:
									fh.waiting[cy.ps.id] = &c04WP{h: fh, pod: cy.pod, p: cy.ps.id, g: cy.ps.g}
									return 1
								case Success:
									mgr.AllowGangGroup(cy.pod, fh, Name)
									mgr.SucceedGangScheduling()
									return 0
								case PodGroupNotFound:
									return 2
								}
								return 3
							})
							switch v {
							case 0:
								cy.ps.flight = 2
								if cy.follow == 1 {
									postbind(cy)
								} else if cy.follow == 2 {
									unres(cy)
								}
							case 1:
								cy.ps.flight = 1
								if cy.follow == 2 {
									unres(cy)
								}
							default:
								cy.ps.flight = 3
								if cy.follow == 2 {
									unres(cy)
								}
							}
						}
					}
				}()
				wg.Wait()
				// ---- barrier: both goroutines are parked ----
				concRounds++
				all := append(append([]done(nil), iLog...), sLog...)
				sort.Slice(all, func(a, b int) bool { return all[a].seq < all[b].seq })
				concCalls += len(all)
				overlaps := 0
				for _, sc := range sLog {
					for _, ic := range iLog {
						if ic.seq > sc.seq0 && ic.seq0 < sc.seq {
							overlaps++
						}
					}
				}
				if overlaps > 0 {
					concOverlaps++
					h.Tag("conc:round-with-overlapping-calls")
					h.Nontrivial()
				} else {
					h.Tag("conc:round-without-overlap")
				}
				for _, d := range all { // harness view of the informer side, in completion order
					if d.who != 'I' {
						continue
					}
					for _, x := range pods {
						if x.id != d.p {
							continue
						}
						switch d.kind {
						case "add0":
							x.added = true
						case "updN":
							x.seenNode = true
							everBound[x.g] = true
						case "del":
							x.added, x.bound, x.tainted, x.seenNode = false, false, false, false
						}
					}
				}
				for _, d := range sLog {
					if d.kind == "postbind" && d.g < nG {
						everBound[d.g] = true
					}
				}
				trace := func() {
					h.Op("# round %d: observed order of completed calls (I informer goroutine, S scheduling goroutine; xN = N times in a row)", round)
					for i := 0; i < len(all); {
						j := i
						for j+1 < len(all) && all[j+1].who == 'I' && all[i].who == 'I' && all[j+1].kind == all[i].kind && all[j+1].p == all[i].p {
							j++
						}
						d := all[i]
						line := fmt.Sprintf("# %c %s %d %d", d.who, d.kind, d.p, d.g)
						if d.kind == "permit" {
							line += fmt.Sprintf(" -> %d", d.verdict)
						}
						if len(d.allowed) > 0 {
							line += " allowed " + vIntsI(d.allowed)
						}
						if len(d.rejected) > 0 {
							line += " rejected " + vIntsI(d.rejected)
						}
						if j > i {
							line += fmt.Sprintf(" x%d", j-i+1)
						}
						h.Op("%s", line)
						i = j + 1
					}
				}
				traced := false
				fail := func(fp, format string, a ...interface{}) {
					if !traced {
						trace()
						traced = true
					}
					failed = true
					h.Fail(fp, "round %d: %s", round, fmt.Sprintf(format, a...))
				}
				if panicked.Load() {
					fail("C04:panic", "an entry point panicked in the concurrent phase")
				}
				end := snap()
				var ids []int
				for id := range end {
					ids = append(ids, id)
				}
				sort.Ints(ids)
				// (a) exactly one of pending / waiting / bound
				for _, id := range ids {
					s := end[id]
					for _, p := range s.ch {
						cnt := vB(c04Has(s.pe, p)) + vB(c04Has(s.wa, p)) + vB(c04Has(s.bo, p))
						taint := false
						for _, x := range pods {
							if x.id == p && x.tainted {
								taint = true
							}
						}
						if cnt == 0 {
							fail("C04:member-in-no-set", "pod %d is a child of gang %d but in none of pending/waiting/bound at the barrier", p, id)
						}
						if cnt > 1 && !taint {
							fail("C04:pod-in-two-sets", "concurrent informer / scheduling calls left pod %d of gang %d in pending=%v waiting=%v bound=%v at the barrier",
								p, id, c04Has(s.pe, p), c04Has(s.wa, p), c04Has(s.bo, p))
						}
					}
				}
				for _, d := range sLog {
					if d.kind != "permit" {
						continue
					}
					h.Tag(fmt.Sprintf("conc:permit verdict=%d", d.verdict))
					if d.verdict != 0 {
						continue
					}
					// (b) all, not some (the waiting map belongs to the scheduling goroutine).  Not demanded when the pod's own
					// annotation gang may have been dropped by a racing delete of its last member between Permit's return
					// and AllowGangGroup's second lookup (the plugin then releases nobody; the deleted pod's cycle fails later).
					ownGangRaced := false
					for _, e := range all {
						if e.kind == "del" && e.g == d.g && e.seq > d.seq0 && ways[d.g] != 0 {
							ownGangRaced = true
						}
					}
					if ownGangRaced {
						h.Tag("conc:release own gang raced by delete")
					}
					for q, gq := range d.fwBefore {
						if ownGangRaced {
							break
						}
						if c04Has(cfgs[d.g].declaredGroup(d.g), gq) && !c04Has(d.allowed, q) {
							fail("C04:waiting-member-not-released", "pod %d succeeded at Permit but waiting member %d of gang %d stays parked", d.p, q, gq)
						}
					}
					// (c) each gang was valid when inspected: at the barrier it still holds min minus the racing removals
					for _, x := range cfgs[d.g].declaredGroup(d.g) {
						removals, deleted := 0, false
						for _, e := range all {
							if e.g != x || e.seq <= d.seq0 {
								continue
							}
							switch e.kind {
							case "del":
								removals++
								if se, ok := end[x]; ok && se.pol == 1 {
									removals++ // waiting-and-running: a deleted pod may have counted as waiting and as bound (permit_race_bound: 2k)
								}
								deleted = true
							case "unres":
								removals++
							case "postbind":
								if se, ok := end[x]; !ok || se.pol != 1 {
									removals++
								}
							}
						}
						if deleted && ways[x] != 0 {
							h.Tag("conc:racy-release gang re-created")
							continue // an annotation gang may have been dropped and re-created with another pod's parameters
						}
						se, ok := end[x]
						if !ok {
							fail("C04:racy-release-gang-missing", "pod %d released but gang %d of its group is not in the cache and no racing delete explains it", d.p, x)
							continue
						}
						cnt := len(se.wa)
						if se.pol == 1 {
							cnt += len(se.bo)
						}
						// once-satisfied exemption: possible whenever a member of the group was bound at some time (harness view:
						// PostBind ran or the informer showed a node name), not only when the flag is still visible at the barrier —
						// a PostBind racing the re-creation of a gang sets the flag on the new gang's private GangGroupInfo, Permit
						// may read it there, and SetGangGroupInfo then swaps in the shared info without it
						boundInRound := false
						for _, e := range all {
							if (e.kind == "postbind" || e.kind == "updN") && (c04Has(cfgs[d.g].declaredGroup(d.g), e.g) || e.g == x) {
								boundInRound = true
							}
						}
						if se.pol != 0 && se.pol != 1 && (se.sat || boundInRound || groupSatisfied(x) || groupSatisfied(d.g)) {
							h.Tag("conc:racy-release exempt")
							continue
						}
						h.Tag(fmt.Sprintf("conc:racy-release removals=%d", removals))
						if !se.init || cnt+removals < se.min {
							fail("C04:racy-release-below-min", "pod %d released but gang %d (init %v) holds %d at the barrier with only %d racing removals < min %d (policy %d)",
								d.p, x, se.init, cnt, removals, se.min, se.pol)
						}
					}
				}
			}
		}
		if released >= 2 || strictRejects >= 1 {
			h.Nontrivial()
		}
		h.End()
	}
	h.Extra("concurrent_rounds", concRounds)
	h.Extra("concurrent_rounds_with_overlapping_calls", concOverlaps)
	h.Extra("concurrent_completed_calls", concCalls)
	h.Extra("newgang_race_rounds", raceStats.rounds)
	h.Extra("newgang_race_gangs", raceStats.gangs)
	h.Close("history of 6-30 (+scripted prefix) informer events and scheduling-cycle calls over 1-3 gangs in 1-3 gang groups, " +
		"1-4 pods each, 3 match policies x 2 modes (+absent/illegal values), PodGroup / annotation / lightweight-label gangs; " +
		"non-trivial = at least two members released from Permit or at least one strict-mode group rejection that hit a waiting pod; " +
		fmt.Sprintf("plus an exhaustive stream: all 14^%d call sequences after a fixed arrival prefix on 2 gangs x 1 pod for %d (policy, mode) pairs; ", exhLen, len(exhCfgs)) +
		fmt.Sprintf("plus %d cases exhausting path x groups-annotation shape x min x policy x mode for one gang (+ a partner gang); ", nShp) +
		fmt.Sprintf("plus %d cases exhausting configured DefaultMatchPolicy (4) x path (3) x match-policy spelling (10, incl. absent / empty / illegal / alias) x mode spelling (7, incl. other letter cases) "+
			"for one gang of min 2 over two scheduling rounds (park + failure, release + bind, lone replacement member + failure); every other stream draws the configured default from the same 4 values "+
			"and the mode / policy spellings from the same tokens; ", nRes) +
		fmt.Sprintf("plus a concurrency stream of %d cases: after a sequential prefix an informer goroutine (pod add / update / delete, repeated) races a scheduling goroutine "+
			"(Permit / Unreserve / PostBind in protocol order) on the same pods for 6-20 rounds, oracle at every barrier; non-trivial there = a round in which calls of the two goroutines overlapped in time; ", nConc) +
		fmt.Sprintf("plus a wired stream of %d cases: the same histories on a PodGroupManager built by the real NewPodGroupManager, every informer event handed to the handler it registered on the "+
			"(captured) pod / PodGroup informer, deletes as the object, as a re-list tombstone (DeletedFinalStateUnknown by value) or in a shape the code ignores, members that hold resources deleted more often; ", nWired) +
		fmt.Sprintf("plus the exhaustive stream once more (%d cases, 2 strict configurations) on a NewPodGroupManager-built manager through the registered handlers with every delete as a tombstone; ", nWexh) +
		fmt.Sprintf("plus a new-gang race stream of %d cases: the pod informer goroutine (onPodAdd of the first members) and the PodGroup informer goroutine (onPodGroupAdd) meet at a spin barrier "+
			"before each of 8-40 brand-new gang ids per round, 2-5 rounds, oracle at the barrier (every added pod in exactly one set of the CACHED gang, gang initialised from its PodGroup); non-trivial there = all rounds ran; ", nRace) +
		fmt.Sprintf("plus a reservation stream of %d cases: the same histories with one or more members of the gangs being Reservations (gang labels / annotations in spec.template or on the object), their events through the "+
			"reservation -> pod adapter (2 of 3 cases the handler NewPodGroupManager registered on the captured Reservation informer, else NewReservationToPodEventHandler around the GangCache's pod handlers), shown pending / pending with a "+
			"requested node (spec.template.spec.nodeName) / scheduled (status.nodeName, Available or Waiting) / succeeded / failed, deleted as object / tombstone / ignored shape, scheduling calls on the reserve pod (NewReservePod); ", nRsv) +
		fmt.Sprintf("plus %d cases exhausting match policy (3) x path (3) x the state a Reservation member of a gang of min 2 is added in (requested node x status.nodeName x active / succeeded / failed) x the state "+
			"a later update shows (status.nodeName x active / succeeded / failed), two ordinary members coming to Permit in between", nRsvX))
}
