//go:build verif

package reservation

import (
	"context"
	"encoding/json"
	"fmt"
	"sort"
	"strconv"
	"testing"

	corev1 "k8s.io/api/core/v1"
	"k8s.io/apimachinery/pkg/api/resource"
	metav1 "k8s.io/apimachinery/pkg/apis/meta/v1"
	"k8s.io/apimachinery/pkg/types"
	fwktype "k8s.io/kube-scheduler/framework"
	"k8s.io/kubernetes/pkg/scheduler/framework"

	apiext "github.com/koordinator-sh/koordinator/apis/extension"
	schedulingv1alpha1 "github.com/koordinator-sh/koordinator/apis/scheduling/v1alpha1"
	"github.com/koordinator-sh/koordinator/pkg/scheduler/frameworkext"
	reservationutil "github.com/koordinator-sh/koordinator/pkg/util/reservation"
)

// C05 harness "pipeline": one case = one history of reservation events and SCHEDULING CYCLES of normal pods on
// one node, driven through the real Plugin: BeforePreFilter -> PreFilter -> Filter -> (PostFilter) ->
// RunNominateReservationFilterPlugins per candidate -> NominateReservation -> Reserve -> (Unreserve), on the
// package's plugin test fixture (fake framework handle + fake snapshot lister whose NodeInfo is rebuilt before
// every cycle from the harness' own bookkeeping).  ORACLE at Reserve time, from the harness' own truth: the
// reservation the pod was assumed into has an owner entry the pod satisfies, is not an allocate-once reservation
// that already holds a pod, and, if Restricted, keeps sum(assigned) + request <= allocatable - inner reserved.

var c05Apps = []string{"", "a", "b"}

type c05PipeRsv struct {
	o        *c05RObj
	ownerApp int // 1 = app=a, 2 = app=b
	zone     int // label zone=a|b on the reservation
}

func (p *c05PipeRsv) build() *schedulingv1alpha1.Reservation {
	r := p.o.build()
	r.Labels = map[string]string{"zone": c05Apps[p.zone]}
	r.Spec.Owners = []schedulingv1alpha1.ReservationOwner{{LabelSelector: &metav1.LabelSelector{MatchLabels: map[string]string{"app": c05Apps[p.ownerApp]}}}}
	return r
}

func c05CodeOf(st *fwktype.Status) int {
	switch {
	case st == nil || st.IsSuccess():
		return 0
	case st.Code() == fwktype.Skip:
		return 1
	case st.Code() == fwktype.UnschedulableAndUnresolvable:
		return 2
	case st.Code() == fwktype.Unschedulable:
		return 1
	case st.Code() == fwktype.Error:
		return 3
	}
	return 9
}

func TestVerifC05Pipeline(t *testing.T) {
	h := vOpen("C05")
	if h == nil {
		t.Skip("VERIF_OUT not set")
	}
	// The sub-stream "pod WITH reservation affinity meets an allocate-once reservation that already holds a pod and
	// has not seen a reservation event since" found C05:pipeline-allocate-once-renominated-affinity on the snapshot
	// (NominateReservation's single-candidate shortcut; repaired by fb4a3dc); it is part of the default stream.

	baseNode := &corev1.Node{ObjectMeta: metav1.ObjectMeta{Name: "n1"}}
	suit := newPluginTestSuitWith(t, nil, []*corev1.Node{baseNode})
	plg, err := suit.pluginFactory()
	if err != nil {
		t.Fatal(err)
	}
	pl := plg.(*Plugin)
	lister, ok := suit.fw.SnapshotSharedLister().(*fakeSharedLister)
	if !ok {
		t.Fatal("unexpected snapshot lister of the fixture")
	}
	extender, ok := pl.handle.(frameworkext.FrameworkExtender)
	if !ok {
		t.Fatal("fixture handle is no FrameworkExtender")
	}
	ctx := context.TODO()

	n := h.N(1500, 30000)
	for idx := 0; idx < n; idx++ {
		r := h.Begin(idx)
		if r == nil {
			continue
		}
		pl.reservationCache = newReservationCache(pl.rLister)
		pl.nominator = newNominator(nil, nil)
		cache := pl.reservationCache
		reh := &reservationEventHandler{cache: cache, rrNominator: pl.nominator}

		rsvs := map[int]*c05PipeRsv{}
		objs := map[int]*c05RObj{}
		bound := map[int]int{}        // TRUTH: pod uid -> reservation it was assumed into
		reqs := map[int][c05D]int64{} // pod uid -> requests (absent = -1)
		stale := map[int]bool{}       // allocate-once reservation got its first pod and no reservation event since
		nextPod := 10

		nR := []int{0, 1, 1, 1, 2, 2, 3}[r.Intn(7)]
		regime := r.Intn(4) // 0,1 roomy; 2 tight; 3 no room at all
		h.Tag(fmt.Sprintf("pipe:reservations:%d", nR))
		h.Tag(fmt.Sprintf("pipe:node-regime:%d", regime))
		majority := 1 + r.Intn(2)

		deliver := func(u int, add bool) {
			p := rsvs[u]
			if add {
				h.Op("eadd %s", p.o.line())
				reh.OnAdd(p.build(), false)
			} else {
				h.Op("eupd %s", p.o.line())
				reh.OnUpdate(p.build(), p.build())
			}
			delete(stale, u)
			c05DumpAndCheck(h, cache, objs)
		}
		for u := 1; u <= nR; u++ {
			o := c05GenRObj(r, u)
			o.node, o.phase = 1, 1
			o.once = r.Chance(2, 5)
			o.policy = []int{0, 1, 2, 2}[r.Intn(4)]
			if o.optKind == 1 && r.Bool() {
				o.optKind, o.opt = 0, [c05D]bool{}
			}
			p := &c05PipeRsv{o: o, ownerApp: majority, zone: 1 + r.Intn(2)}
			if r.Chance(1, 4) {
				p.ownerApp = 3 - majority
			}
			rsvs[u], objs[u] = p, o
			deliver(u, true)
		}

		steps := r.Range(2, 8)
		for s := 0; s < steps; s++ {
			k := r.Intn(100)
			switch {
			case k < 12 && nR > 0: // reservation event: refresh, or the controller marks it Succeeded / it comes back
				u := r.Range(1, nR)
				o := rsvs[u].o
				switch r.Intn(4) {
				case 0:
					if o.phase == 1 {
						o.phase = 3
					} else {
						o.phase = 1
					}
				case 1:
					o.once = !o.once
				}
				h.Tag("pipe:op:eupd")
				deliver(u, false)
			case k < 22: // a bound pod goes away
				var ps []int
				for pu := range bound {
					ps = append(ps, pu)
				}
				if len(ps) == 0 {
					break
				}
				sort.Ints(ps)
				pu := ps[r.Intn(len(ps))]
				ru := bound[pu]
				pod := c05Pod{uid: pu, req: reqs[pu]}
				h.Op("pdel %d 1 %d", ru, pu)
				h.Tag("pipe:op:pdel")
				cache.deletePods(types.UID(strconv.Itoa(ru)), []*corev1.Pod{pod.build()})
				delete(bound, pu)
				c05DumpAndCheck(h, cache, objs)
			default: // one scheduling cycle
				pu := nextPod
				nextPod++
				app := majority
				if r.Chance(1, 5) {
					app = 3 - majority
				}
				hasAff, hasName, affName, affZone := false, false, 0, 0
				switch r.Intn(20) {
				case 0, 1, 2, 3, 4, 5, 6, 7, 8:
				case 9, 10, 11, 12, 13, 14, 15:
					hasAff, affZone = true, 1+r.Intn(2)
					if nR > 0 && r.Chance(2, 3) {
						affZone = rsvs[r.Range(1, nR)].zone
					}
				case 16:
					hasAff = true // affinity without selector: every reservation is eligible
				default:
					hasAff, hasName, affName = true, true, r.Range(1, 4)
					if nR > 0 && r.Chance(3, 4) {
						affName = r.Range(1, nR)
					}
				}
				if hasAff {
					for u := range stale {
						for _, r2 := range bound {
							if r2 == u {
								h.Tag("pipe:affinity-pod-meets-stale-allocate-once")
							}
						}
					}
				}
				// requests: around the remainder of a target reservation, small, or larger than any reservation
				var q [c05D]int64
				var target *c05RObj
				if nR > 0 {
					target = rsvs[r.Range(1, nR)].o
				}
				usedBy := func(ru int) (used [c05D]int64, cnt int) {
					for p2, r2 := range bound {
						if r2 != ru {
							continue
						}
						cnt++
						for d := 0; d < c05D; d++ {
							if v := reqs[p2][d]; v > 0 {
								used[d] += v
							}
						}
					}
					return
				}
				for d := 0; d < c05D; d++ {
					switch r.Intn(8) {
					case 0:
						q[d] = -1
					case 1:
						q[d] = 0
					case 2, 3, 4:
						if target != nil && target.st[d] > 0 {
							used, _ := usedBy(target.uid)
							rem := target.st[d] - target.reserved[d] - used[d]
							switch r.Intn(4) {
							case 0:
								q[d] = rem
							case 1:
								q[d] = rem + 1
							case 2:
								q[d] = rem/2 + 1
							default:
								q[d] = target.st[d]/3 + 1
							}
							if q[d] <= 0 {
								q[d] = 1
							}
							break
						}
						q[d] = c05Amount(r, d, false)
					default:
						q[d] = c05Amount(r, d, false)/4 + 1
					}
				}
				pod := c05Pod{uid: pu, req: q, split: r.Chance(1, 4)}
				if q == [c05D]int64{-1, -1, -1} && r.Bool() {
					pod.empty = true
				}
				kpod := pod.build()
				kpod.Labels = map[string]string{"app": c05Apps[app]}
				if hasAff {
					aff := apiext.ReservationAffinity{}
					if hasName {
						aff.Name = "r" + strconv.Itoa(affName)
					} else if affZone != 0 {
						aff.ReservationSelector = map[string]string{"zone": c05Apps[affZone]}
					}
					b, _ := json.Marshal(aff)
					kpod.Annotations = map[string]string{apiext.AnnotationReservationAffinity: string(b)}
				}

				// the node as the snapshot shows it: reserve pods of the available reservations, the pods assumed so
				// far, one filler pod; allocatable by regime
				var total [c05D]int64
				ni := framework.NewNodeInfo()
				addTo := func(p *corev1.Pod, req [c05D]int64) {
					p.Spec.NodeName = "n1"
					ni.AddPod(p)
					for d := 0; d < c05D; d++ {
						if req[d] > 0 {
							total[d] += req[d]
						}
					}
				}
				for u := 1; u <= nR; u++ {
					if rsvs[u].o.available() {
						addTo(reservationutil.NewReservePod(rsvs[u].build()), rsvs[u].o.tmpl)
					}
				}
				var bs []int
				for p2 := range bound {
					bs = append(bs, p2)
				}
				sort.Ints(bs)
				for _, p2 := range bs {
					bp := c05Pod{uid: p2, req: reqs[p2]}
					addTo(bp.build(), reqs[p2])
				}
				filler := c05Pod{uid: 9, req: [c05D]int64{int64(r.Range(0, 3000)), int64(r.Range(0, 1<<22)), int64(r.Range(0, 3))}}
				addTo(filler.build(), filler.req)
				var alloc [c05D]int64
				for d := 0; d < c05D; d++ {
					switch regime {
					case 0, 1:
						alloc[d] = total[d] + []int64{64000, 1 << 36, 100}[d]
					case 2: // tight: exactly full, or a little free room outside the reservations
						alloc[d] = total[d]
						if r.Chance(1, 3) {
							alloc[d] += c05Amount(r, d, false) / 2
						}
					default:
						alloc[d] = 0
					}
				}
				nodeObj := baseNode.DeepCopy()
				nodeObj.Status.Allocatable = c05List(alloc, -1)
				nodeObj.Status.Allocatable[corev1.ResourcePods] = *resource.NewQuantity(1000, resource.DecimalSI)
				ni.SetNode(nodeObj)
				lister.nodeInfoMap["n1"] = ni
				lister.nodeInfos = []fwktype.NodeInfo{ni}

				// the harness' own evaluation of owner / name / affinity per reservation
				var cands []int64
				nc := 0
				for u := 1; u <= nR; u++ {
					p := rsvs[u]
					ownerOK := p.ownerApp == app
					nameMatch := hasName && affName == u
					affOK := !hasAff || hasName || affZone == 0 || affZone == p.zone
					cands = append(cands, int64(u), int64(vB(ownerOK)), int64(vB(nameMatch)), int64(vB(affOK)))
					nc++
				}
				unreserve := r.Chance(1, 5)

				// ---- run the real pipeline, collecting observations ----
				var obs []string
				type failT struct{ fp, msg string }
				var fails []failT
				chosen := 0
				assumedInto := 0
				dumpAfter, doUnreserve := false, false
				cs := framework.NewCycleState()
				panicked := h.Guard(func() {
					_, _, st := pl.BeforePreFilter(ctx, cs, kpod)
					if !st.IsSuccess() {
						obs = append(obs, "bpf-error")
						return
					}
					state := getStateData(cs)
					var matched []*frameworkext.ReservationInfo
					if ns := state.nodeReservationStates["n1"]; ns != nil {
						matched = append(matched, ns.matchedOrIgnored...)
					}
					sort.Slice(matched, func(i, j int) bool { return c05UID(matched[i].UID()) < c05UID(matched[j].UID()) })
					line := "matched"
					for _, m := range matched {
						line += " " + strconv.Itoa(c05UID(m.UID()))
					}
					obs = append(obs, line)
					h.Tag(fmt.Sprintf("pipe:matched:%d:aff=%v", len(matched), hasAff))
					_, pst := pl.PreFilter(ctx, cs, kpod, nil)
					pre := c05CodeOf(pst)
					obs = append(obs, fmt.Sprintf("pre %d", pre))
					h.Tag(fmt.Sprintf("pipe:pre:%d", pre))
					if pre == 2 {
						return
					}
					if pre == 0 {
						fst := pl.Filter(ctx, cs, kpod, ni)
						flt := c05CodeOf(fst)
						obs = append(obs, fmt.Sprintf("flt %d", flt))
						h.Tag(fmt.Sprintf("pipe:flt:%d", flt))
						if flt != 0 {
							// PostFilter only aggregates reasons here (no preemption manager); exercised, not observed
							pl.PostFilter(ctx, cs, kpod, framework.NewNodeToStatus(map[string]*fwktype.Status{"n1": fst},
								fwktype.NewStatus(fwktype.UnschedulableAndUnresolvable)))
							return
						}
					}
					var passing []int
					for _, m := range matched {
						nst := extender.RunNominateReservationFilterPlugins(ctx, cs, kpod, m, "n1")
						obs = append(obs, fmt.Sprintf("nf %d %d", c05UID(m.UID()), vB(nst.IsSuccess())))
						if nst.IsSuccess() {
							passing = append(passing, c05UID(m.UID()))
						}
					}
					nominated, nst := pl.NominateReservation(ctx, cs, kpod, "n1")
					if !nst.IsSuccess() {
						obs = append(obs, "nom error")
						return
					}
					if nominated != nil {
						chosen = c05UID(nominated.UID())
					}
					if len(matched) >= 2 && len(passing) >= 2 {
						line := "nom among"
						member := false
						for _, u := range passing {
							line += " " + strconv.Itoa(u)
							member = member || u == chosen
						}
						obs = append(obs, fmt.Sprintf("%s %d", line, vB(member)))
						h.Tag("pipe:nom:among")
					} else {
						obs = append(obs, fmt.Sprintf("nom %d", chosen))
						switch {
						case chosen == 0:
							h.Tag("pipe:nom:none")
						case len(matched) == 1 && hasAff:
							h.Tag("pipe:nom:shortcut")
						default:
							h.Tag("pipe:nom:filtered-single")
						}
					}
					rst := pl.Reserve(ctx, cs, kpod, "n1")
					rc := c05CodeOf(rst)
					obs = append(obs, fmt.Sprintf("rsv %d", rc))
					h.Tag(fmt.Sprintf("pipe:rsv:%d", rc))
					dumpAfter = true
					for uid, ri := range cache.reservationInfos {
						if _, ok := ri.AssignedPods[kpod.UID]; ok {
							assumedInto = c05UID(uid)
						}
					}
					// ---- ORACLE at Reserve time, on the harness' own truth ----
					if assumedInto != 0 {
						h.Nontrivial()
						p := rsvs[assumedInto]
						used, cnt := usedBy(assumedInto)
						if p.ownerApp != app {
							fails = append(fails, failT{"C05:pipeline-owner-mismatch", fmt.Sprintf("pod %d (app=%s) was assumed into reservation %d whose only owner entry selects app=%s",
								pu, c05Apps[app], assumedInto, c05Apps[p.ownerApp])})
						}
						if p.o.once && cnt > 0 {
							fp := "C05:pipeline-allocate-once-renominated"
							if hasAff {
								fp = "C05:pipeline-allocate-once-renominated-affinity"
							}
							fails = append(fails, failT{fp, fmt.Sprintf("pod %d (reservation affinity: %v) was assumed into allocate-once reservation %d which already holds %d pod(s)",
								pu, hasAff, assumedInto, cnt)})
						}
						if p.o.policy == 2 {
							ri := cache.reservationInfos[types.UID(strconv.Itoa(assumedInto))]
							for d := 0; d < c05D; d++ {
								if !c05HasName(ri, d) || q[d] <= 0 {
									continue
								}
								capa := p.o.st[d]
								if capa < 0 {
									capa = 0
								}
								if used[d]+q[d] > capa-p.o.reserved[d] {
									fails = append(fails, failT{"C05:pipeline-fit-overcommit", fmt.Sprintf("pod %d (reservation affinity: %v) requesting %d of dim %d was assumed into Restricted reservation %d: assigned %d + %d > allocatable %d - reserved %d",
										pu, hasAff, q[d], d, assumedInto, used[d], q[d], capa, p.o.reserved[d])})
								}
							}
							if p.o.maxPods >= 0 && int64(cnt)+1 > p.o.maxPods {
								fails = append(fails, failT{"C05:pipeline-fit-too-many-pods", fmt.Sprintf("pod %d was assumed into Restricted reservation %d as pod number %d of %d reserved",
									pu, assumedInto, cnt+1, p.o.maxPods)})
							}
						}
						if p.o.once && cnt == 0 {
							stale[assumedInto] = true
						}
						bound[pu], reqs[pu] = assumedInto, q
						if pod.empty {
							reqs[pu] = [c05D]int64{-1, -1, -1}
						}
					}
					doUnreserve = unreserve && rc == 0
				})
				h.Op("cyc %s %d %d 1 %s %s %d %d %d%s", pod.line(), vB(hasAff), vB(hasName), vInts(alloc[:]), vInts(total[:]), chosen, vB(unreserve), nc,
					func() string {
						if nc == 0 {
							return ""
						}
						return " " + vInts(cands)
					}())
				h.Tag("pipe:op:cyc")
				for _, o := range obs {
					h.Obs("%s", o)
				}
				if panicked {
					h.Obs("panic")
					break
				}
				for _, f := range fails {
					h.Fail(f.fp, "%s", f.msg)
				}
				if dumpAfter {
					c05DumpAndCheck(h, cache, objs)
				}
				if doUnreserve {
					if h.Guard(func() { pl.Unreserve(ctx, cs, kpod, "n1") }) {
						h.Obs("panic")
						break
					}
					h.Tag("pipe:unreserve")
					h.Obs("unr")
					c05DumpAndCheck(h, cache, objs)
					delete(bound, pu)
				}
			}
		}
		h.End()
	}
	h.Close("one history of 0-3 reservations on one node (allocate-once / re-usable, Default / Aligned / Restricted, owner label a|b, zone label, inner reserved, " +
		"reserved pod count, restricted options) and 2-8 steps: scheduling cycles of fresh pods through the real Plugin (with / without reservation affinity by selector or " +
		"name, owner-matching or not, requests steered to the remainder of a reservation / small / too large, declared-zero and absent keys, node roomy / exactly full / " +
		"without any room), reservation refresh / Succeeded / allocate-once flips, deletion of bound pods, Unreserve of 1 in 5 reserved pods; " +
		"non-trivial = a pod was assumed into a reservation; distinct by op lines")
}
