//go:build verif

package reservation

import (
	"context"
	"encoding/json"
	"fmt"
	"sort"
	"strconv"
	"testing"

	corev1 "k8s.io/api/core/v1"
	"k8s.io/apimachinery/pkg/api/resource"
	metav1 "k8s.io/apimachinery/pkg/apis/meta/v1"
	"k8s.io/apimachinery/pkg/runtime"
	"k8s.io/apimachinery/pkg/types"
	"k8s.io/client-go/tools/record"
	fwktype "k8s.io/kube-scheduler/framework"
	"k8s.io/kubernetes/pkg/scheduler/framework"
	"k8s.io/kubernetes/pkg/scheduler/framework/plugins/defaultbinder"
	"k8s.io/kubernetes/pkg/scheduler/framework/plugins/queuesort"
	frameworkruntime "k8s.io/kubernetes/pkg/scheduler/framework/runtime"
	schedulertesting "k8s.io/kubernetes/pkg/scheduler/testing/framework"

	apiext "github.com/koordinator-sh/koordinator/apis/extension"
	schedulingv1alpha1 "github.com/koordinator-sh/koordinator/apis/scheduling/v1alpha1"
	"github.com/koordinator-sh/koordinator/pkg/scheduler/frameworkext"
	reservationutil "github.com/koordinator-sh/koordinator/pkg/util/reservation"
)

// C05 harness "pipeline": one case = one history of reservation events and SCHEDULING CYCLES of normal pods on
// one node, driven through the real Plugin: BeforePreFilter -> PreFilter -> Filter -> (PostFilter) ->
// RunNominateReservationFilterPlugins per candidate -> NominateReservation -> Reserve -> (Unreserve), on the
// package's plugin test fixture (fake framework handle + fake snapshot lister whose NodeInfo is rebuilt before
// every cycle from the harness' own bookkeeping).  ORACLE at Reserve time, from the harness' own truth: the
// reservation the pod was assumed into has an owner entry the pod satisfies, is not an allocate-once reservation
// that already holds a pod, and, if Restricted, keeps sum(assigned) + request <= allocatable - inner reserved.
// ROLL-BACKS at every stage of a cycle (Unreserve right after Reserve = Permit reject / later Reserve plugin failed;
// PreBind then Unreserve = a later PreBind plugin or Bind failed; Unreserve after a failed Reserve) with the ORACLE
// "after every step each cached reservation holds exactly the pods the harness knows to be assumed / assigned to it
// and reports exactly their summed requests" (harness' own book-keeping, NOT the implementation's AssignedPods), plus
// a restricted-fit question for a further owner right after every roll-back.  RESERVE-POD cycles (the reservation's
// own scheduling cycle) of late, still unscheduled reservations: Reserve(reserve pod, node n) -> Unreserve (lister
// still has the reservation / lost it) | bound (Available on n) -> ... -> Delete, on nodes n1..n3; the per-node
// indexes are dumped and checked by the index clauses after every step.

var c05Apps = []string{"", "a", "b"}

type c05PipeRsv struct {
	o        *c05RObj
	ownerApp int // 1 = app=a, 2 = app=b
	zone     int // label zone=a|b on the reservation
	expr     int // 0 = matchLabels only; else the owner selector ALSO carries c05TierExpr(expr) (6 = invalid operator: o.ownBad)
}

func (p *c05PipeRsv) ownerSelector() *metav1.LabelSelector {
	return &metav1.LabelSelector{MatchLabels: map[string]string{"app": c05Apps[p.ownerApp]}, MatchExpressions: c05TierExpr(p.expr)}
}

func (p *c05PipeRsv) setExpr(kind int) {
	p.expr = kind
	p.o.ownBad = kind == 6
}

func c05DrawExpr(r *vRand) int {
	if r.Chance(3, 5) {
		return 0
	}
	return []int{1, 1, 1, 2, 2, 3, 4, 4, 5, 6}[r.Intn(10)]
}

func (p *c05PipeRsv) build() *schedulingv1alpha1.Reservation {
	r := p.o.build()
	r.Labels = map[string]string{"zone": c05Apps[p.zone]}
	r.Spec.Owners = []schedulingv1alpha1.ReservationOwner{{LabelSelector: p.ownerSelector()}}
	return r
}

func c05CodeOf(st *fwktype.Status) int {
	switch {
	case st == nil || st.IsSuccess():
		return 0
	case st.Code() == fwktype.Skip:
		return 1
	case st.Code() == fwktype.UnschedulableAndUnresolvable:
		return 2
	case st.Code() == fwktype.Unschedulable:
		return 1
	case st.Code() == fwktype.Error:
		return 3
	}
	return 9
}

func TestVerifC05Pipeline(t *testing.T) {
	h := vOpen("C05")
	if h == nil {
		t.Skip("VERIF_OUT not set")
	}
	// The sub-stream "pod WITH reservation affinity meets an allocate-once reservation that already holds a pod and
	// has not seen a reservation event since" found C05:pipeline-allocate-once-renominated-affinity on the snapshot
	// (NominateReservation's single-candidate shortcut; repaired by fb4a3dc); it is part of the default stream.

	baseNode := &corev1.Node{ObjectMeta: metav1.ObjectMeta{Name: "n1"}}
	suit := newPluginTestSuitWith(t, nil, []*corev1.Node{baseNode})
	plg, err := suit.pluginFactory()
	if err != nil {
		t.Fatal(err)
	}
	pl := plg.(*Plugin)
	lister, ok := suit.fw.SnapshotSharedLister().(*fakeSharedLister)
	if !ok {
		t.Fatal("unexpected snapshot lister of the fixture")
	}
	extender, ok := pl.handle.(frameworkext.FrameworkExtender)
	if !ok {
		t.Fatal("fixture handle is no FrameworkExtender")
	}
	ctx := context.TODO()
	// Reserve of a normal pod goes through the REAL frameworkext extender's RunReservePluginsReserve (round 8): a second
	// framework over the fixture's client set / informers / snapshot whose only Reserve plugin is the plugin under test,
	// wrapped by an extender whose reservation nominator is that plugin (what PluginFactoryProxy registers).  Whatever the
	// extender does with the pod's nomination after the Reserve plugins (it drops it, success or failure) is the
	// implementation's, not the harness'.
	rsvFactory, err := frameworkext.NewFrameworkExtenderFactory(
		frameworkext.WithKoordinatorClientSet(suit.extenderFactory.KoordinatorClientSet()),
		frameworkext.WithKoordinatorSharedInformerFactory(suit.extenderFactory.KoordinatorSharedInformerFactory()),
		frameworkext.WithReservationNominator(pl),
	)
	if err != nil {
		t.Fatal(err)
	}
	rsvFactory.InitScheduler(frameworkext.NewFakeScheduler())
	rsvFw, err := schedulertesting.NewFramework(ctx,
		[]schedulertesting.RegisterPluginFunc{
			schedulertesting.RegisterBindPlugin(defaultbinder.Name, defaultbinder.New),
			schedulertesting.RegisterQueueSortPlugin(queuesort.Name, queuesort.New),
			schedulertesting.RegisterReservePlugin(Name, func(context.Context, runtime.Object, fwktype.Handle) (fwktype.Plugin, error) { return pl, nil }),
		},
		"koord-scheduler",
		frameworkruntime.WithClientSet(suit.fw.ClientSet()),
		frameworkruntime.WithInformerFactory(suit.fw.SharedInformerFactory()),
		frameworkruntime.WithSnapshotSharedLister(suit.fw.SnapshotSharedLister()),
		frameworkruntime.WithEventRecorder(record.NewEventRecorderAdapter(record.NewFakeRecorder(1024))),
	)
	if err != nil {
		t.Fatal(err)
	}
	rsvExtender := rsvFactory.NewFrameworkExtender(rsvFw)
	if rsvExtender.GetReservationNominator() != frameworkext.ReservationNominator(pl) {
		t.Fatal("harness: the Reserve extender's reservation nominator is not the plugin under test")
	}
	// the listers the plugin reads (rLister: Reserve / Unreserve of a reserve pod, name affinity; podLister:
	// unreservePod) are the informers' stores; the informers are not started, the harness fills the stores
	rIdx := suit.extenderFactory.KoordinatorSharedInformerFactory().Scheduling().V1alpha1().Reservations().Informer().GetIndexer()
	pIdx := suit.fw.SharedInformerFactory().Core().V1().Pods().Informer().GetIndexer()

	n := h.N(1700, 32000)
	for idx := 0; idx < n; idx++ {
		r := h.Begin(idx)
		c05DeclReset(h) // round 9: registry of the pod objects declared in this case
		if r == nil {
			continue
		}
		pl.reservationCache = newReservationCache(pl.rLister)
		pl.nominator = newNominator(nil, nil)
		cache := pl.reservationCache
		reh := &reservationEventHandler{cache: cache, rrNominator: pl.nominator}
		peh := &podEventHandler{cache: cache, nominator: pl.nominator}
		_ = rIdx.Replace(nil, "")
		_ = pIdx.Replace(nil, "")

		rsvs := map[int]*c05PipeRsv{}
		objs := map[int]*c05RObj{}
		bound := map[int]int{}        // TRUTH: pod uid -> reservation it was assumed into
		reqs := map[int][c05D]int64{} // pod uid -> requests (absent = -1)
		stale := map[int]bool{}       // allocate-once reservation got its first pod and no reservation event since
		gone := map[int]bool{}        // late reservation deleted (or lost from the lister): no further steps
		var retry []int               // rolled-back pods waiting in the queue for their next cycle (same uid)
		nextPod := 10

		// ORACLE on the harness' own truth (bound / reqs), after every step: a cached reservation holds exactly the
		// pods assumed / assigned to it and not rolled back or deleted since, and reports their summed requests
		truthCheck := func(when string) {
			us := make([]int, 0, len(cache.reservationInfos))
			for uid := range cache.reservationInfos {
				us = append(us, c05UID(uid))
			}
			sort.Ints(us)
			for _, u := range us {
				ri := cache.reservationInfos[types.UID(strconv.Itoa(u))]
				var ps []int
				for pu := range ri.AssignedPods {
					ps = append(ps, c05UID(pu))
				}
				sort.Ints(ps)
				for _, pu := range ps {
					if ru, ok := bound[pu]; !ok || ru != u {
						h.Fail("C05:pipeline-rollback-leak", "%s: reservation %d still holds pod %d which is not assumed / assigned to it any more (rolled back or deleted); it reports cpu %d mem %d allocated",
							when, u, pu, c05Val(0, ri.Allocated), c05Val(1, ri.Allocated))
					}
				}
				var sum [c05D]int64
				var bs []int
				for pu, ru := range bound {
					if ru == u {
						bs = append(bs, pu)
					}
				}
				sort.Ints(bs)
				for _, pu := range bs {
					if _, ok := ri.AssignedPods[types.UID(strconv.Itoa(pu))]; !ok {
						h.Fail("C05:pipeline-assigned-lost", "%s: pod %d is assumed into reservation %d but the reservation does not hold it", when, pu, u)
					}
					for d := 0; d < c05D; d++ {
						if v := reqs[pu][d]; v > 0 && c05HasName(ri, d) {
							sum[d] += v
						}
					}
				}
				for d := 0; d < c05D; d++ {
					if got := c05Val(d, ri.Allocated); got != sum[d] {
						h.Fail("C05:pipeline-ledger-truth", "%s: reservation %d dim %d reports %d allocated but the pods assumed / assigned to it (%v) request %d",
							when, u, d, got, bs, sum[d])
					}
				}
			}
		}

		nR := []int{0, 1, 1, 1, 2, 2, 3}[r.Intn(7)]
		regime := r.Intn(4) // 0,1 roomy; 2 tight; 3 no room at all
		h.Tag(fmt.Sprintf("pipe:reservations:%d", nR))
		h.Tag(fmt.Sprintf("pipe:node-regime:%d", regime))
		majority := 1 + r.Intn(2)

		deliver := func(u int, add bool) {
			p := rsvs[u]
			_ = rIdx.Add(p.build())
			if add {
				h.Op("eadd %s", p.o.line())
				reh.OnAdd(p.build(), false)
			} else {
				h.Op("eupd %s", p.o.line())
				reh.OnUpdate(p.build(), p.build())
			}
			delete(stale, u)
			c05DumpAndCheck(h, cache, objs)
			truthCheck("after a reservation event")
		}
		for u := 1; u <= nR; u++ {
			o := c05GenRObj(r, u)
			o.node, o.phase = 1, 1
			o.once = r.Chance(2, 5)
			o.policy = []int{0, 1, 2, 2}[r.Intn(4)]
			if o.optKind == 1 && r.Bool() {
				o.optKind, o.opt = 0, [c05D]bool{}
			}
			p := &c05PipeRsv{o: o, ownerApp: majority, zone: 1 + r.Intn(2)}
			if r.Chance(1, 4) {
				p.ownerApp = 3 - majority
			}
			p.setExpr(c05DrawExpr(r))
			h.Tag(fmt.Sprintf("pipe:owner-expr:%d", p.expr))
			rsvs[u], objs[u] = p, o
			deliver(u, true)
		}
		// late reservations: created unscheduled (Pending, no node), scheduled by their own reserve-pod cycle
		nL := []int{0, 0, 1, 1, 2}[r.Intn(5)]
		h.Tag(fmt.Sprintf("pipe:late-reservations:%d", nL))
		for u := 5; u < 5+nL; u++ {
			o := c05GenRObj(r, u)
			o.node, o.phase = 0, 0
			o.once = r.Chance(2, 5)
			o.policy = []int{0, 1, 2, 2}[r.Intn(4)]
			p := &c05PipeRsv{o: o, ownerApp: majority, zone: 1 + r.Intn(2)}
			if k := c05DrawExpr(r); k != 6 {
				p.setExpr(k)
			}
			rsvs[u], objs[u] = p, o
			deliver(u, true)
		}
		apiPodOf := func(p c05Pod, k *corev1.Pod) *corev1.Pod { // the pod as the API server has it: unbound, no annotation
			ap := p.build()
			ap.Labels = k.Labels
			return ap
		}
		liveU := func() []int { // every reservation object that still exists, by uid
			var us []int
			for u := range rsvs {
				if !gone[u] {
					us = append(us, u)
				}
			}
			sort.Ints(us)
			return us
		}

		steps := r.Range(2, 8)
		if nL > 0 {
			steps += 2
		}
		for s := 0; s < steps; s++ {
			k := r.Intn(100)
			lateU := 0
			if nL > 0 {
				var ls []int
				for u := 5; u < 5+nL; u++ {
					if !gone[u] {
						ls = append(ls, u)
					}
				}
				if len(ls) > 0 {
					lateU = ls[r.Intn(len(ls))]
				}
			}
			switch {
			case k >= 74 && lateU != 0: // a late reservation: its own reserve-pod cycle (with roll-back), or its deletion
				u := lateU
				p := rsvs[u]
				o := p.o
				if o.node != 0 { // already scheduled: the object is deleted, or a refresh event
					if r.Bool() {
						deliver(u, false)
						h.Tag("pipe:late:refresh")
						break
					}
					robj := p.build()
					h.Op("edel %s", o.line())
					reh.OnDelete(robj) // the plugin's listener marks it unavailable ...
					c05DumpAndCheck(h, cache, objs)
					h.Op("rdel %d %d", u, o.node)
					cache.DeleteReservation(robj) // ... the scheduler-wide handler removes it from the cache
					_ = rIdx.Delete(robj)
					gone[u] = true
					for pu, ru := range bound {
						if ru == u {
							delete(bound, pu)
						}
					}
					c05DumpAndCheck(h, cache, objs)
					truthCheck("after the deletion of a reservation")
					h.Tag(fmt.Sprintf("pipe:late:deleted:n%d", o.node))
					break
				}
				node := []int{1, 1, 2, 2, 3}[r.Intn(5)]
				nodeName := c05NodeName(node)
				lostBefore := r.Chance(1, 10) // the reservation is deleted before Reserve reads the lister
				outcome := r.Intn(5)          // 0,1: rolled back, lister still has it; 2: rolled back, object deleted meanwhile; 3,4: bound
				robj := p.build()
				rp := reservationutil.NewReservePod(robj)
				cs := framework.NewCycleState()
				prepared := false
				if h.Guard(func() { // BeforePreFilter of the reserve pod: exercised (it writes the cycle state), not observed
					if _, _, st := pl.BeforePreFilter(ctx, cs, rp); st.IsSuccess() {
						prepared = true
					}
				}) {
					h.Op("rres 1 %d %s", node, o.line())
					h.Obs("panic")
					break
				}
				if !prepared {
					cs.Write(stateKey, &stateData{})
				}
				h.Tag(fmt.Sprintf("pipe:late:before-prefilter-ok:%v", prepared))
				if lostBefore {
					_ = rIdx.Delete(robj)
				}
				h.Op("rres %d %d %s", vB(!lostBefore), node, o.line())
				h.Tag("pipe:op:rres")
				rc := 0
				if h.Guard(func() { rc = c05CodeOf(pl.Reserve(ctx, cs, rp, nodeName)) }) {
					h.Obs("panic")
					break
				}
				h.Obs("rsv %d", rc)
				h.Tag(fmt.Sprintf("pipe:late:rsv:%d", rc))
				c05DumpAndCheck(h, cache, objs)
				truthCheck("after Reserve of a reserve pod")
				if rc == 0 { // ORACLE completeness on the harness' truth: the reservation is now placed on `node`
					if _, ok := cache.reservationsOnNode[nodeName][types.UID(strconv.Itoa(u))]; !ok {
						h.Fail("C05:index-missing", "the reserve pod of reservation %d was reserved on %s but reservationsOnNode[%s] does not list it", u, nodeName, nodeName)
					}
				}
				if rc == 0 && outcome >= 3 { // Bind wrote Status.NodeName / Available; the informer delivers the update
					o.node, o.phase = node, 1
					deliver(u, false)
					h.Nontrivial()
					h.Tag(fmt.Sprintf("pipe:late:bound:n%d", node))
					break
				}
				// roll-back: Permit / PreBind / Bind (UpdateStatus) failed, or Reserve itself failed
				listed := !lostBefore && outcome != 2
				if !listed && !lostBefore {
					_ = rIdx.Delete(robj)
				}
				h.Op("runr %d %d %d %s", vB(listed), node, u, o.line())
				h.Tag("pipe:op:runr")
				if h.Guard(func() { pl.Unreserve(ctx, cs, rp, nodeName) }) {
					h.Obs("panic")
					break
				}
				h.Obs("unr")
				c05DumpAndCheck(h, cache, objs)
				truthCheck("after Unreserve of a reserve pod")
				h.Nontrivial()
				h.Tag(fmt.Sprintf("pipe:late:unreserve:listed=%v:n%d", listed, node))
				if !listed {
					gone[u] = true
				}
			case k < 12 && nR > 0: // reservation event: refresh, or the controller marks it Succeeded / it comes back
				u := r.Range(1, nR)
				o := rsvs[u].o
				switch r.Intn(4) {
				case 0:
					if o.phase == 1 {
						o.phase = 3
					} else {
						o.phase = 1
					}
				case 1:
					o.once = !o.once
				case 2: // the object is being deleted (finalizer pending) / the deletion is ... not undone, but a later object may lack it
					if r.Bool() {
						o.term = !o.term
						h.Tag("pipe:rsv-terminating-flip")
					}
				case 3: // the owner selector is edited (update path of the owner parse): expressions added / changed / dropped
					if r.Bool() {
						rsvs[u].setExpr(c05DrawExpr(r))
						h.Tag(fmt.Sprintf("pipe:owner-expr-edited:%d", rsvs[u].expr))
					}
				}
				h.Tag("pipe:op:eupd")
				deliver(u, false)
			case k < 22: // a bound pod goes away
				var ps []int
				for pu := range bound {
					ps = append(ps, pu)
				}
				if len(ps) == 0 {
					break
				}
				sort.Ints(ps)
				pu := ps[r.Intn(len(ps))]
				ru := bound[pu]
				pod := c05Pod{uid: pu, req: reqs[pu]}
				h.Op("pdel %d 1 %d", ru, pu)
				h.Tag("pipe:op:pdel")
				cache.deletePods(types.UID(strconv.Itoa(ru)), []*corev1.Pod{pod.build()})
				delete(bound, pu)
				c05DumpAndCheck(h, cache, objs)
				truthCheck("after the deletion of an assigned pod")
			default: // one scheduling cycle
				pu := nextPod
				if len(retry) > 0 && r.Chance(1, 2) { // a rolled-back pod comes back from the queue
					pu, retry = retry[0], retry[1:]
					h.Tag("pipe:cycle-of-rolled-back-pod")
				} else {
					nextPod++
				}
				app := majority
				if r.Chance(1, 5) {
					app = 3 - majority
				}
				hasAff, hasName, affName, affZone := false, false, 0, 0
				switch r.Intn(20) {
				case 0, 1, 2, 3, 4, 5, 6, 7, 8:
				case 9, 10, 11, 12, 13, 14, 15:
					hasAff, affZone = true, 1+r.Intn(2)
					if nR > 0 && r.Chance(2, 3) {
						affZone = rsvs[r.Range(1, nR)].zone
					}
				case 16:
					hasAff = true // affinity without selector: every reservation is eligible
				default:
					hasAff, hasName, affName = true, true, r.Range(1, 4)
					if nR > 0 && r.Chance(3, 4) {
						affName = r.Range(1, nR)
					}
					if nL > 0 && r.Chance(1, 4) {
						affName = 5 + r.Intn(nL)
					}
				}
				for _, u := range liveU() { // a terminating reservation is only reachable by NAME (the name path skips IsUnschedulable)
					if rsvs[u].o.term && rsvs[u].o.node == 1 && r.Chance(1, 2) {
						hasAff, hasName, affName, affZone = true, true, u, 0
						h.Tag("pipe:name-affinity-to-terminating")
						break
					}
				}
				if hasAff {
					for u := range stale {
						for _, r2 := range bound {
							if r2 == u {
								h.Tag("pipe:affinity-pod-meets-stale-allocate-once")
							}
						}
					}
				}
				// requests: around the remainder of a target reservation, small, or larger than any reservation
				var q [c05D]int64
				var target *c05RObj
				if nR > 0 {
					target = rsvs[r.Range(1, nR)].o
				}
				usedBy := func(ru int) (used [c05D]int64, cnt int) {
					for p2, r2 := range bound {
						if r2 != ru {
							continue
						}
						cnt++
						for d := 0; d < c05D; d++ {
							if v := reqs[p2][d]; v > 0 {
								used[d] += v
							}
						}
					}
					return
				}
				for d := 0; d < c05D; d++ {
					switch r.Intn(8) {
					case 0:
						q[d] = -1
					case 1:
						q[d] = 0
					case 2, 3, 4:
						if target != nil && target.st[d] > 0 {
							used, _ := usedBy(target.uid)
							rem := target.st[d] - target.reserved[d] - used[d]
							switch r.Intn(4) {
							case 0:
								q[d] = rem
							case 1:
								q[d] = rem + 1
							case 2:
								q[d] = rem/2 + 1
							default:
								q[d] = target.st[d]/3 + 1
							}
							if q[d] <= 0 {
								q[d] = 1
							}
							break
						}
						q[d] = c05Amount(r, d, false)
					default:
						q[d] = c05Amount(r, d, false)/4 + 1
					}
				}
				pod := c05Pod{uid: pu, req: q, split: r.Chance(1, 4)}
				if q == [c05D]int64{-1, -1, -1} && r.Bool() {
					pod.empty = true
				}
				pod.ovh = c05GenOvh(r, q) // round 9: part of the request q is declared as spec.overhead (~30% of the pods)
				if pod.ovh != [c05D]int64{} {
					h.Tag("pod:with-overhead")
				}
				kpod := pod.build()
				kpod.Labels = map[string]string{"app": c05Apps[app]}
				tierIdx := []int{0, 1, 1, 2, 2}[r.Intn(5)]
				if nR > 0 && r.Chance(1, 2) { // half of the pods: a tier that satisfies the expressions of one of the reservations, if there is one
					tp := rsvs[r.Range(1, nR)]
					for _, ti := range r.Perm(3) {
						lb := map[string]string{"app": c05Apps[tp.ownerApp]}
						if ti != 0 {
							lb["tier"] = c05Tiers[ti]
						}
						if _, e, _ := c05EvalSelector(tp.ownerSelector(), lb); e {
							tierIdx = ti
							break
						}
					}
				}
				if tierIdx != 0 {
					kpod.Labels["tier"] = c05Tiers[tierIdx]
				}
				if hasAff {
					aff := apiext.ReservationAffinity{}
					if hasName {
						aff.Name = "r" + strconv.Itoa(affName)
					} else if affZone != 0 {
						aff.ReservationSelector = map[string]string{"zone": c05Apps[affZone]}
					}
					b, _ := json.Marshal(aff)
					kpod.Annotations = map[string]string{apiext.AnnotationReservationAffinity: string(b)}
				}

				// the node as the snapshot shows it: reserve pods of the available reservations, the pods assumed so
				// far, one filler pod; allocatable by regime
				var total [c05D]int64
				ni := framework.NewNodeInfo()
				addTo := func(p *corev1.Pod, req [c05D]int64) {
					p.Spec.NodeName = "n1"
					ni.AddPod(p)
					for d := 0; d < c05D; d++ {
						if req[d] > 0 {
							total[d] += req[d]
						}
					}
				}
				for _, u := range liveU() {
					if rsvs[u].o.available() && rsvs[u].o.node == 1 {
						addTo(reservationutil.NewReservePod(rsvs[u].build()), rsvs[u].o.tmpl)
					}
				}
				var bs []int
				for p2 := range bound {
					bs = append(bs, p2)
				}
				sort.Ints(bs)
				for _, p2 := range bs {
					bp := c05Pod{uid: p2, req: reqs[p2]}
					addTo(bp.build(), reqs[p2])
				}
				filler := c05Pod{uid: 9, req: [c05D]int64{int64(r.Range(0, 3000)), int64(r.Range(0, 1<<22)), int64(r.Range(0, 3))}}
				addTo(filler.build(), filler.req)
				var alloc [c05D]int64
				for d := 0; d < c05D; d++ {
					switch regime {
					case 0, 1:
						alloc[d] = total[d] + []int64{64000, 1 << 36, 100}[d]
					case 2: // tight: exactly full, or a little free room outside the reservations
						alloc[d] = total[d]
						if r.Chance(1, 3) {
							alloc[d] += c05Amount(r, d, false) / 2
						}
					default:
						alloc[d] = 0
					}
				}
				nodeObj := baseNode.DeepCopy()
				nodeObj.Status.Allocatable = c05List(alloc, -1)
				nodeObj.Status.Allocatable[corev1.ResourcePods] = *resource.NewQuantity(1000, resource.DecimalSI)
				ni.SetNode(nodeObj)
				lister.nodeInfoMap["n1"] = ni
				lister.nodeInfos = []fwktype.NodeInfo{ni}

				// the harness' own evaluation of owner / name / affinity per reservation
				var cands []int64
				nc := 0
				for _, u := range liveU() {
					p := rsvs[u]
					// the harness' own reading of the owner selector: all of matchLabels AND all of matchExpressions; invalid selects nobody
					selL, selE, _ := c05EvalSelector(p.ownerSelector(), kpod.Labels)
					ownerOK := selL && selE
					if selL && !selE {
						h.Tag("pipe:owner-labels-hold-expressions-violated")
					}
					nameMatch := hasName && affName == u
					affOK := !hasAff || hasName || affZone == 0 || affZone == p.zone
					cands = append(cands, int64(u), int64(vB(ownerOK)), int64(vB(nameMatch)), int64(vB(affOK)))
					nc++
				}
				// roll-back stage: 0 none, 1 Unreserve right after Reserve (Permit reject / a later Reserve plugin failed /
				// Reserve itself failed), 2 PreBind then Unreserve (a later PreBind plugin or Bind failed), 3 PreBind only
				stage := []int{1, 1, 1, 2, 2, 2, 3, 3, 3, 3, 3, 3, 0, 0, 0, 0, 0, 0, 0, 0}[r.Intn(20)]
				apiPodKind := r.Intn(3) // what the pod lister shows at Unreserve: 0 nothing, 1 the unbound pod, 2 the pod annotated and on the node

				// ---- run the real pipeline, collecting observations ----
				var obs []string
				type failT struct{ fp, msg string }
				var fails []failT
				chosen := 0
				assumedInto := 0
				dumpAfter, doUnreserve, doPreBind := false, false, false
				cs := framework.NewCycleState()
				panicked := h.Guard(func() {
					_, _, st := pl.BeforePreFilter(ctx, cs, kpod)
					if !st.IsSuccess() {
						obs = append(obs, "bpf-error")
						return
					}
					state := getStateData(cs)
					var matched []*frameworkext.ReservationInfo
					if ns := state.nodeReservationStates["n1"]; ns != nil {
						matched = append(matched, ns.matchedOrIgnored...)
					}
					sort.Slice(matched, func(i, j int) bool { return c05UID(matched[i].UID()) < c05UID(matched[j].UID()) })
					line := "matched"
					for _, m := range matched {
						line += " " + strconv.Itoa(c05UID(m.UID()))
					}
					obs = append(obs, line)
					h.Tag(fmt.Sprintf("pipe:matched:%d:aff=%v", len(matched), hasAff))
					_, pst := pl.PreFilter(ctx, cs, kpod, nil)
					pre := c05CodeOf(pst)
					obs = append(obs, fmt.Sprintf("pre %d", pre))
					h.Tag(fmt.Sprintf("pipe:pre:%d", pre))
					if pre == 2 {
						return
					}
					if pre == 0 {
						fst := pl.Filter(ctx, cs, kpod, ni)
						flt := c05CodeOf(fst)
						obs = append(obs, fmt.Sprintf("flt %d", flt))
						h.Tag(fmt.Sprintf("pipe:flt:%d", flt))
						if flt != 0 {
							// PostFilter only aggregates reasons here (no preemption manager); exercised, not observed
							pl.PostFilter(ctx, cs, kpod, framework.NewNodeToStatus(map[string]*fwktype.Status{"n1": fst},
								fwktype.NewStatus(fwktype.UnschedulableAndUnresolvable)))
							return
						}
					}
					var passing []int
					for _, m := range matched {
						nst := extender.RunNominateReservationFilterPlugins(ctx, cs, kpod, m, "n1")
						obs = append(obs, fmt.Sprintf("nf %d %d", c05UID(m.UID()), vB(nst.IsSuccess())))
						if nst.IsSuccess() {
							passing = append(passing, c05UID(m.UID()))
						}
					}
					nominated, nst := pl.NominateReservation(ctx, cs, kpod, "n1")
					if !nst.IsSuccess() {
						obs = append(obs, "nom error")
						return
					}
					if nominated != nil {
						chosen = c05UID(nominated.UID())
					}
					if len(matched) >= 2 && len(passing) >= 2 {
						line := "nom among"
						member := false
						for _, u := range passing {
							line += " " + strconv.Itoa(u)
							member = member || u == chosen
						}
						obs = append(obs, fmt.Sprintf("%s %d", line, vB(member)))
						h.Tag("pipe:nom:among")
					} else {
						obs = append(obs, fmt.Sprintf("nom %d", chosen))
						switch {
						case chosen == 0:
							h.Tag("pipe:nom:none")
						case len(matched) == 1 && hasAff:
							h.Tag("pipe:nom:shortcut")
						default:
							h.Tag("pipe:nom:filtered-single")
						}
					}
					// the real frameworkExtenderImpl.RunReservePluginsReserve: Plugin.Reserve as the framework's Reserve plugin, then
					// whatever the extender does with the pod's nomination (a nomination that outlives the cycle would be read by
					// the pod's NEXT Reserve before the cycle state: GetNominatedReservation comes first in Plugin.Reserve)
					rst := rsvExtender.RunReservePluginsReserve(ctx, cs, kpod, "n1")
					rc := c05CodeOf(rst)
					obs = append(obs, fmt.Sprintf("rsv %d", rc))
					h.Tag(fmt.Sprintf("pipe:rsv:%d", rc))
					dumpAfter = true
					for uid, ri := range cache.reservationInfos {
						if _, ok := ri.AssignedPods[kpod.UID]; ok {
							assumedInto = c05UID(uid)
						}
					}
					// ---- ORACLE at Reserve time, on the harness' own truth ----
					if assumedInto != 0 {
						h.Nontrivial()
						p := rsvs[assumedInto]
						used, cnt := usedBy(assumedInto)
						if selL, selE, inv := c05EvalSelector(p.ownerSelector(), kpod.Labels); !(selL && selE) {
							fp := "C05:pipeline-owner-mismatch"
							if selL {
								fp = "C05:pipeline-owner-mismatch:labels-and-expressions"
							}
							fails = append(fails, failT{fp, fmt.Sprintf("pod %d (labels %v) was assumed into reservation %d whose only owner entry selects matchLabels app=%s AND matchExpressions %v (invalid selector: %v)",
								pu, kpod.Labels, assumedInto, c05Apps[p.ownerApp], p.ownerSelector().MatchExpressions, inv)})
						}
						if p.o.once && cnt > 0 {
							fp := "C05:pipeline-allocate-once-renominated"
							if hasAff {
								fp = "C05:pipeline-allocate-once-renominated-affinity"
							}
							fails = append(fails, failT{fp, fmt.Sprintf("pod %d (reservation affinity: %v) was assumed into allocate-once reservation %d which already holds %d pod(s)",
								pu, hasAff, assumedInto, cnt)})
						}
						if p.o.policy == 2 {
							ri := cache.reservationInfos[types.UID(strconv.Itoa(assumedInto))]
							for d := 0; d < c05D; d++ {
								if !c05HasName(ri, d) || q[d] <= 0 {
									continue
								}
								capa := p.o.st[d]
								if capa < 0 {
									capa = 0
								}
								if used[d]+q[d] > capa-p.o.reserved[d] {
									fails = append(fails, failT{"C05:pipeline-fit-overcommit", fmt.Sprintf("pod %d (reservation affinity: %v) requesting %d of dim %d was assumed into Restricted reservation %d: assigned %d + %d > allocatable %d - reserved %d",
										pu, hasAff, q[d], d, assumedInto, used[d], q[d], capa, p.o.reserved[d])})
								}
							}
							if p.o.maxPods >= 0 && int64(cnt)+1 > p.o.maxPods {
								fails = append(fails, failT{"C05:pipeline-fit-too-many-pods", fmt.Sprintf("pod %d was assumed into Restricted reservation %d as pod number %d of %d reserved",
									pu, assumedInto, cnt+1, p.o.maxPods)})
							}
						}
						if p.o.once && cnt == 0 {
							stale[assumedInto] = true
						}
						bound[pu], reqs[pu] = assumedInto, q
						if pod.empty {
							reqs[pu] = [c05D]int64{-1, -1, -1}
						}
					}
					doUnreserve = stage == 1 || stage == 2
					doPreBind = (stage == 2 || stage == 3) && rc == 0
				})
				h.Op("cyc %s %d %d 1 %s %s %d %d %d%s", pod.line(), vB(hasAff), vB(hasName), vInts(alloc[:]), vInts(total[:]), chosen, stage, nc,
					func() string {
						if nc == 0 {
							return ""
						}
						return " " + vInts(cands)
					}())
				h.Tag("pipe:op:cyc")
				for _, o := range obs {
					h.Obs("%s", o)
				}
				if panicked {
					h.Obs("panic")
					break
				}
				for _, f := range fails {
					h.Fail(f.fp, "%s", f.msg)
				}
				if dumpAfter {
					c05DumpAndCheck(h, cache, objs)
					truthCheck("after Reserve")
				}
				if doPreBind {
					pc, ann := 0, 0
					if h.Guard(func() {
						pc = c05CodeOf(pl.PreBind(ctx, cs, kpod, "n1"))
						if ra, err := apiext.GetReservationAllocated(kpod); err == nil && ra != nil {
							ann = c05UID(ra.UID)
						}
					}) {
						h.Obs("panic")
						break
					}
					h.Obs("pb %d %d", pc, ann)
					h.Tag(fmt.Sprintf("pipe:prebind:annotated=%v", ann != 0))
				}
				if doUnreserve {
					apiPod := pod.build()
					apiPod.Labels = kpod.Labels
					switch apiPodKind {
					case 1:
						_ = pIdx.Add(apiPod)
					case 2:
						apiPod.Spec.NodeName = "n1"
						apiPod.Annotations = kpod.Annotations
						_ = pIdx.Add(apiPod)
					}
					panicked := h.Guard(func() { pl.Unreserve(ctx, cs, kpod, "n1") })
					_ = pIdx.Delete(apiPod)
					if panicked {
						h.Obs("panic")
						break
					}
					h.Tag("pipe:unreserve")
					h.Tag(fmt.Sprintf("pipe:unreserve:assumed=%v:prebound=%v", assumedInto != 0, doPreBind))
					h.Obs("unr")
					c05DumpAndCheck(h, cache, objs)
					delete(bound, pu)
					truthCheck(fmt.Sprintf("after Unreserve of pod %d (PreBind ran: %v)", pu, doPreBind))
					switch r.Intn(3) {
					case 0: // the pod is retried later
						retry = append(retry, pu)
					case 1: // the pod is deleted: its informer object was never bound and carries no annotation
						hp := c05HPod{p: pod}
						h.Op("hdel %s", hp.line())
						h.Tag("pipe:op:hdel-after-rollback")
						peh.OnDelete(apiPodOf(pod, kpod))
						c05DumpAndCheck(h, cache, objs)
						truthCheck(fmt.Sprintf("after the Delete event of rolled-back pod %d", pu))
					}
					if assumedInto != 0 {
						// a further owner asks for what the rolled-back pod had asked for: restricted fit on the live entry
						// (or, half of the time, for exactly the remainder by the harness' own books / one above it)
						ru := assumedInto
						if po := rsvs[ru].o; r.Bool() && !pod.empty {
							used, _ := usedBy(ru)
							for d := 0; d < c05D; d++ {
								if rem := po.st[d] - po.reserved[d] - used[d]; po.st[d] > 0 && rem > 0 {
									q[d] = rem + int64(r.Intn(2))
								}
							}
							h.Tag("pipe:fit-after-rollback:boundary")
						}
						h.Op("fit %d %s 0 0 0 0", ru, vInts(q[:]))
						h.Tag("pipe:op:fit-after-rollback")
						ri := cache.reservationInfos[types.UID(strconv.Itoa(ru))]
						if ri == nil {
							h.Obs("fit none")
							break
						}
						podReq := c05List(q, -1)
						if pod.empty {
							podReq = corev1.ResourceList{}
						}
						_, reasons := fitsNodeAndReservation(framework.NewResource(podReq), nil, nil, nil, nil, podReq, nil,
							&corev1.Pod{}, ri, nil, 1, true, true, nil, nil)
						flags, unknown := c05FitFlags(reasons)
						if unknown {
							h.Obs("fit unknown-reason")
						} else {
							h.Obs("fit %d %d %d %d", vB(flags[0]), vB(flags[1]), vB(flags[2]), vB(flags[3]))
						}
						h.Tag(fmt.Sprintf("pipe:fit-after-rollback:%v", len(reasons) == 0))
						if po := rsvs[ru].o; len(reasons) == 0 && po.policy == 2 && !pod.empty {
							used, cnt := usedBy(ru)
							for d := 0; d < c05D; d++ {
								if !c05HasName(ri, d) || q[d] <= 0 {
									continue
								}
								capa := po.st[d]
								if capa < 0 {
									capa = 0
								}
								if used[d]+q[d] > capa-po.reserved[d] {
									h.Fail("C05:pipeline-fit-overcommit", "after the roll-back of pod %d a pod requesting %d of dim %d passes the fit of Restricted reservation %d: assigned %d + %d > allocatable %d - reserved %d",
										pu, q[d], d, ru, used[d], q[d], capa, po.reserved[d])
								}
							}
							if po.maxPods >= 0 && int64(cnt)+1 > po.maxPods {
								h.Fail("C05:pipeline-fit-too-many-pods", "after the roll-back of pod %d a pod passes the fit of Restricted reservation %d as pod number %d of %d reserved",
									pu, ru, cnt+1, po.maxPods)
							}
						}
					}
				}
			}
		}
		h.End()
	}
	h.Close("one history of 0-3 reservations on one node (allocate-once / re-usable, Default / Aligned / Restricted, owner label a|b, zone label, inner reserved, " +
		"reserved pod count, restricted options; 2 of 5 owner selectors carry matchExpressions on the pod's tier label NEXT TO the matchLabels: NotIn / In / Exists / " +
		"DoesNotExist / two expressions / an invalid operator, edited by update events) and 2-8 steps: scheduling cycles of fresh pods through the real Plugin (with / without reservation affinity by selector or " +
		"name, owner-matching or not, requests steered to the remainder of a reservation / small / too large, declared-zero and absent keys, node roomy / exactly full / " +
		"without any room), reservation refresh / Succeeded / allocate-once flips, deletion of bound pods; roll-back stage per cycle: none / Unreserve right after Reserve " +
		"(also after a failed Reserve) / PreBind then Unreserve (pod lister shows nothing / the unbound pod / the pod on the node) / PreBind only, each roll-back " +
		"followed by a restricted-fit question for a further owner; 0-2 late reservations created unscheduled whose own reserve-pod cycle runs Reserve on n1..n3 -> " +
		"Unreserve (lister still has the object / lost it / lost it before Reserve) or bound -> refresh / Delete; " +
		"non-trivial = a pod was assumed into a reservation or a reserve-pod cycle ran; distinct by op lines")
}
