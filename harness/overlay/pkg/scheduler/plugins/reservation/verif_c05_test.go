//go:build verif

package reservation

import (
	"context"
	"encoding/json"
	"fmt"
	"sort"
	"strconv"
	"strings"
	"testing"

	corev1 "k8s.io/api/core/v1"
	"k8s.io/apimachinery/pkg/api/resource"
	metav1 "k8s.io/apimachinery/pkg/apis/meta/v1"
	"k8s.io/apimachinery/pkg/types"
	fwktype "k8s.io/kube-scheduler/framework"
	"k8s.io/kubernetes/pkg/scheduler/framework"
	"k8s.io/utils/ptr"

	apiext "github.com/koordinator-sh/koordinator/apis/extension"
	schedulingv1alpha1 "github.com/koordinator-sh/koordinator/apis/scheduling/v1alpha1"
	"github.com/koordinator-sh/koordinator/pkg/scheduler/frameworkext"
	reservationutil "github.com/koordinator-sh/koordinator/pkg/util/reservation"
)

// C05 harness.  "cache": one case = one history of reservation / pod events and fit / nominate queries
// against ONE real reservationCache (raw cache methods and the event-handler entry points); after every
// mutating op the whole cache (ledgers + the three per-node indexes) is dumped.  "match": independent
// owner-matching questions against the real MatchOwners / checkReservationMatchedOrIgnored.
// The oracles recompute the property's clauses from scratch on the implementation's own state.

const c05D = 3

var c05Names = [c05D]corev1.ResourceName{corev1.ResourceCPU, corev1.ResourceMemory, "example.com/foo"}

func c05Q(d int, v int64) resource.Quantity {
	switch d {
	case 0:
		return *resource.NewMilliQuantity(v, resource.DecimalSI)
	case 1:
		return *resource.NewQuantity(v, resource.BinarySI)
	}
	return *resource.NewQuantity(v, resource.DecimalSI)
}

func c05Val(d int, l corev1.ResourceList) int64 {
	q, ok := l[c05Names[d]]
	if !ok {
		return 0
	}
	if d == 0 {
		return q.MilliValue()
	}
	return q.Value()
}

// amounts: non-round, per dimension
func c05Amount(r *vRand, d int, big bool) int64 {
	switch d {
	case 0:
		if big {
			return int64(r.Range(1500, 9000))
		}
		return int64(r.Range(1, 2500))
	case 1:
		if big {
			return int64(r.Range(1<<20, 1<<24))
		}
		return int64(r.Range(1, 1<<22))
	}
	if big {
		return int64(r.Range(2, 9))
	}
	return int64(r.Range(1, 4))
}

type c05RObj struct {
	uid, node, phase   int
	once, onceNil      bool
	term               bool
	policy, optKind    int
	opt                [c05D]bool
	tmpl, st, reserved [c05D]int64 // -1 = absent (tmpl, st); reserved 0 = absent
	maxPods            int64
	ownBad             bool
	ownBadBoth         bool // the unparsable owner selector also carries matchLabels (not part of the op line: same meaning)
}

func (o *c05RObj) available() bool { return o.node != 0 && o.phase == 1 }

func (o *c05RObj) line() string {
	f := []int64{int64(o.uid), int64(o.node), int64(o.phase), int64(vB(o.once)), int64(vB(o.term)), int64(o.policy), int64(o.optKind)}
	for d := 0; d < c05D; d++ {
		f = append(f, int64(vB(o.opt[d])))
	}
	f = append(f, o.tmpl[:]...)
	f = append(f, o.st[:]...)
	f = append(f, o.maxPods)
	f = append(f, o.reserved[:]...)
	f = append(f, int64(vB(o.ownBad)))
	return vInts(f)
}

var c05Phases = []schedulingv1alpha1.ReservationPhase{schedulingv1alpha1.ReservationPending, schedulingv1alpha1.ReservationAvailable,
	schedulingv1alpha1.ReservationWaiting, schedulingv1alpha1.ReservationSucceeded, schedulingv1alpha1.ReservationFailed}

func c05NodeName(n int) string {
	if n == 0 {
		return ""
	}
	return "n" + strconv.Itoa(n)
}

func c05NodeOf(s string) int {
	if s == "" {
		return 0
	}
	n, err := strconv.Atoi(strings.TrimPrefix(s, "n"))
	if err != nil {
		return -1
	}
	return n
}

func c05UID(u types.UID) int {
	n, err := strconv.Atoi(string(u))
	if err != nil {
		return -1
	}
	return n
}

func c05List(vals [c05D]int64, absent int64) corev1.ResourceList {
	l := corev1.ResourceList{}
	for d := 0; d < c05D; d++ {
		if vals[d] != absent && vals[d] >= 0 {
			l[c05Names[d]] = c05Q(d, vals[d])
		}
	}
	return l
}

func (o *c05RObj) build() *schedulingv1alpha1.Reservation {
	r := &schedulingv1alpha1.Reservation{
		ObjectMeta: metav1.ObjectMeta{Name: "r" + strconv.Itoa(o.uid), UID: types.UID(strconv.Itoa(o.uid)), Annotations: map[string]string{}},
		Spec: schedulingv1alpha1.ReservationSpec{
			Template: &corev1.PodTemplateSpec{Spec: corev1.PodSpec{Containers: []corev1.Container{{Name: "c",
				Resources: corev1.ResourceRequirements{Requests: c05List(o.tmpl, -1)}}}}},
			Owners: []schedulingv1alpha1.ReservationOwner{{Object: &corev1.ObjectReference{Namespace: "default"}}},
		},
		Status: schedulingv1alpha1.ReservationStatus{NodeName: c05NodeName(o.node), Phase: c05Phases[o.phase]},
	}
	if o.term {
		now := metav1.Now()
		r.DeletionTimestamp = &now
	}
	if !o.once {
		r.Spec.AllocateOnce = ptr.To(false)
	} else if !o.onceNil {
		r.Spec.AllocateOnce = ptr.To(true)
	}
	switch o.policy {
	case 1:
		r.Spec.AllocatePolicy = schedulingv1alpha1.ReservationAllocatePolicyAligned
	case 2:
		r.Spec.AllocatePolicy = schedulingv1alpha1.ReservationAllocatePolicyRestricted
	}
	switch o.optKind {
	case 1:
		opts := apiext.ReservationRestrictedOptions{}
		for d := 0; d < c05D; d++ {
			if o.opt[d] {
				opts.Resources = append(opts.Resources, c05Names[d])
			}
		}
		b, _ := json.Marshal(opts)
		r.Annotations[apiext.AnnotationReservationRestrictedOptions] = string(b)
	case 2:
		r.Annotations[apiext.AnnotationReservationRestrictedOptions] = "{not json"
	}
	if res := c05List(o.reserved, 0); len(res) > 0 {
		b, _ := json.Marshal(apiext.NodeReservation{Resources: res})
		r.Annotations[apiext.AnnotationNodeReservation] = string(b)
	}
	st := c05List(o.st, -1)
	if o.maxPods >= 0 {
		st[corev1.ResourcePods] = *resource.NewQuantity(o.maxPods, resource.DecimalSI)
	}
	r.Status.Allocatable = st
	if o.ownBad {
		bad := &metav1.LabelSelector{MatchExpressions: []metav1.LabelSelectorRequirement{{Key: "k", Operator: "Bogus", Values: []string{"v"}}}}
		if o.ownBadBoth {
			bad.MatchLabels = map[string]string{"app": "a"}
		}
		r.Spec.Owners = append(r.Spec.Owners, schedulingv1alpha1.ReservationOwner{LabelSelector: bad})
	}
	return r
}

type c05Pod struct {
	uid   int
	empty bool
	req   [c05D]int64 // the pod's TOTAL request per dimension (containers + spec.overhead); -1 = key absent everywhere
	split bool
	ovh   [c05D]int64 // round 9: the part of req that is declared as spec.overhead (RuntimeClass overhead); 0 = none
}

// round 9: the request of a pod read from the DECLARED object, from scratch (API documentation of
// PodSpec: the effective request is max(sum of the containers, largest init container) + spec.overhead);
// no helper of the implementation is involved.  This is "the pod's request" of the property statement:
// it is what the op lines hand to the model and what the oracles sum up.
func c05DeclaredReq(pod *corev1.Pod) (out [c05D]int64) {
	for d := 0; d < c05D; d++ {
		var sum, ini int64
		for i := range pod.Spec.Containers {
			sum += c05Val(d, pod.Spec.Containers[i].Resources.Requests)
		}
		for i := range pod.Spec.InitContainers {
			if v := c05Val(d, pod.Spec.InitContainers[i].Resources.Requests); v > ini {
				ini = v
			}
		}
		if ini > sum {
			sum = ini
		}
		out[d] = sum + c05Val(d, pod.Spec.Overhead)
	}
	return out
}

// every version of every pod object the harness declared in the current case, by pod uid
var c05Decl = struct {
	h    *vHarness
	cse  int
	vers map[int][][c05D]int64
}{}

func c05DeclReset(h *vHarness) {
	c05Decl.h, c05Decl.cse, c05Decl.vers = h, h.curCase, map[int][][c05D]int64{}
}

func c05Declare(uid int, v [c05D]int64) {
	if c05Decl.vers == nil {
		c05Decl.vers = map[int][][c05D]int64{}
	}
	for _, w := range c05Decl.vers[uid] {
		if w == v {
			return
		}
	}
	c05Decl.vers[uid] = append(c05Decl.vers[uid], v)
}

// the declared request of the assigned pod `uid` whose recorded requests are rec: the declared version
// the record agrees with, else the latest declared version (ok=false: the record is not the request of
// any version of the pod); known=false: the pod was not built by c05Pod.build in this case
func c05DeclaredFor(h *vHarness, uid int, rec [c05D]int64) (v [c05D]int64, ok, known bool) {
	if c05Decl.h != h || c05Decl.cse != h.curCase {
		return rec, true, false
	}
	vs := c05Decl.vers[uid]
	if len(vs) == 0 {
		return rec, true, false
	}
	for _, w := range vs {
		if w == rec {
			return w, true, true
		}
	}
	return vs[len(vs)-1], false, true
}

func c05RecordedReq(pr *frameworkext.PodRequirement) (rec [c05D]int64) {
	for d := 0; d < c05D; d++ {
		rec[d] = c05Val(d, pr.Requests)
	}
	return rec
}

// overhead for ~30% of the pods: cpu and/or memory (rarely the extended resource), small amounts, carved
// out of the total request (so the distribution of totals is what it was); sometimes the whole amount of a
// small dimension is overhead (then no container declares the key)
func c05GenOvh(r *vRand, req [c05D]int64) (ovh [c05D]int64) {
	if !r.Chance(3, 10) {
		return ovh
	}
	caps := [c05D]int64{400, 1 << 17, 1}
	which := r.Intn(7) // 0,1,2: cpu  3,4: memory  5: both  6: all three
	for d := 0; d < c05D; d++ {
		pick := (d == 0 && (which <= 2 || which >= 5)) || (d == 1 && which >= 3) || (d == 2 && which == 6)
		if !pick || req[d] <= 0 {
			continue
		}
		m := req[d]
		if m > caps[d] {
			m = caps[d]
		}
		ovh[d] = 1 + r.Int63n(m)
		if req[d] <= 4*caps[d] && r.Chance(1, 4) {
			ovh[d] = req[d]
		}
	}
	return ovh
}

func (p *c05Pod) line() string {
	return vInts(append([]int64{int64(p.uid), int64(vB(p.empty))}, p.req[:]...))
}

func (p *c05Pod) build() *corev1.Pod {
	pod := p.buildRaw()
	decl := c05DeclaredReq(pod)
	for d := 0; d < c05D; d++ {
		want := p.req[d]
		if want < 0 || p.empty {
			want = 0
		}
		if decl[d] != want {
			panic(fmt.Sprintf("C05 harness bug: pod %d dim %d declares %d, op line says %d", p.uid, d, decl[d], want))
		}
	}
	c05Declare(p.uid, decl)
	return pod
}

func (p *c05Pod) buildRaw() *corev1.Pod {
	pod := &corev1.Pod{ObjectMeta: metav1.ObjectMeta{Name: "p" + strconv.Itoa(p.uid), Namespace: "default", UID: types.UID(strconv.Itoa(p.uid))}}
	if p.empty {
		pod.Spec.Containers = []corev1.Container{{Name: "c"}}
		return pod
	}
	// containers declare req - ovh; a dimension that is overhead only is declared by no container
	creq := p.req
	for d := 0; d < c05D; d++ {
		if p.ovh[d] > 0 {
			if pod.Spec.Overhead == nil {
				pod.Spec.Overhead = corev1.ResourceList{}
			}
			pod.Spec.Overhead[c05Names[d]] = c05Q(d, p.ovh[d])
			creq[d] = p.req[d] - p.ovh[d]
			if creq[d] <= 0 {
				creq[d] = -1
			}
		}
	}
	if p.split {
		var a, b [c05D]int64
		for d := 0; d < c05D; d++ {
			a[d] = creq[d] / 3
			b[d] = creq[d] - a[d]
		}
		// every declared key (also a zero one) stays declared in the first container
		la, lb := corev1.ResourceList{}, corev1.ResourceList{}
		for d := 0; d < c05D; d++ {
			if creq[d] >= 0 {
				la[c05Names[d]] = c05Q(d, a[d])
				lb[c05Names[d]] = c05Q(d, b[d])
			}
		}
		pod.Spec.Containers = []corev1.Container{{Name: "a", Resources: corev1.ResourceRequirements{Requests: la}},
			{Name: "b", Resources: corev1.ResourceRequirements{Requests: lb}}}
		return pod
	}
	pod.Spec.Containers = []corev1.Container{{Name: "c", Resources: corev1.ResourceRequirements{Requests: c05List(creq, -1)}}}
	return pod
}

type c05HPod struct {
	p      c05Pod
	node   int
	term   bool
	rAlloc int
}

func (h *c05HPod) line() string {
	return vInts(append([]int64{int64(h.p.uid), int64(h.node), int64(vB(h.term)), int64(h.rAlloc), int64(vB(h.p.empty))}, h.p.req[:]...))
}

func (h *c05HPod) build() *corev1.Pod {
	pod := h.p.build()
	pod.Spec.NodeName = c05NodeName(h.node)
	if h.term {
		pod.Status.Phase = corev1.PodSucceeded
	} else {
		pod.Status.Phase = corev1.PodRunning
	}
	if h.rAlloc != 0 {
		b, _ := json.Marshal(apiext.ReservationAllocated{Name: "r" + strconv.Itoa(h.rAlloc), UID: types.UID(strconv.Itoa(h.rAlloc))})
		pod.Annotations = map[string]string{apiext.AnnotationReservationAllocated: string(b)}
	}
	return pod
}

func c05Pairs(m map[string]map[types.UID]struct{}) [][2]int {
	var out [][2]int
	for n, s := range m {
		for u := range s {
			out = append(out, [2]int{c05NodeOf(n), c05UID(u)})
		}
	}
	sort.Slice(out, func(i, j int) bool {
		if out[i][0] != out[j][0] {
			return out[i][0] < out[j][0]
		}
		return out[i][1] < out[j][1]
	})
	return out
}

func c05ShowPairs(tag string, ps [][2]int) string {
	s := tag
	for _, p := range ps {
		s += fmt.Sprintf(" %d %d", p[0], p[1])
	}
	return s
}

func c05HasName(ri *frameworkext.ReservationInfo, d int) bool {
	for _, n := range ri.ResourceNames {
		if n == c05Names[d] {
			return true
		}
	}
	return false
}

// dump + oracle on the implementation's own state
func c05DumpAndCheck(h *vHarness, cache *reservationCache, objs map[int]*c05RObj) {
	uids := make([]int, 0, len(cache.reservationInfos))
	for u := range cache.reservationInfos {
		uids = append(uids, c05UID(u))
	}
	sort.Ints(uids)
	for _, u := range uids {
		ri := cache.reservationInfos[types.UID(strconv.Itoa(u))]
		phase := -1
		for i, p := range c05Phases {
			if ri.Reservation != nil && ri.Reservation.Status.Phase == p {
				phase = i
			}
		}
		f := []int64{int64(u), int64(c05NodeOf(ri.GetNodeName())), int64(phase), int64(vB(ri.IsMatchable()))}
		for d := 0; d < c05D; d++ {
			f = append(f, int64(vB(c05HasName(ri, d))))
		}
		for d := 0; d < c05D; d++ {
			f = append(f, c05Val(d, ri.Allocated))
		}
		pods := make([]int, 0, len(ri.AssignedPods))
		for pu := range ri.AssignedPods {
			pods = append(pods, c05UID(pu))
		}
		sort.Ints(pods)
		f = append(f, int64(len(pods)))
		for _, pu := range pods {
			f = append(f, int64(pu))
		}
		h.Obs("i %s", vInts(f))

		// ORACLE ledger: Allocated == sum over the assigned pods of their requests in the reserved dimensions.
		// round 9: "their requests" = the request of the DECLARED pod object (containers + spec.overhead,
		// c05DeclaredReq), not what the implementation's helper recorded: the record of an assigned pod must be
		// the declared request of a version of that pod, and the sum is taken over the declared requests
		decl := map[types.UID][c05D]int64{}
		for pu, pr := range ri.AssignedPods {
			rec := c05RecordedReq(pr)
			v, ok, known := c05DeclaredFor(h, c05UID(pu), rec)
			decl[pu] = v
			if known {
				h.Tag("ledger:declared-request-compared")
			}
			if !ok {
				h.Fail("C05:ledger-drift:pod-request", "reservation %d records assigned pod %d with requests %v but the declared pod object (max(sum containers, init) + spec.overhead) requests %v",
					u, c05UID(pu), rec, v)
			}
		}
		for d := 0; d < c05D; d++ {
			var sum int64
			if c05HasName(ri, d) {
				for pu := range ri.AssignedPods {
					sum += decl[pu][d]
				}
			}
			if got := c05Val(d, ri.Allocated); got != sum {
				h.Fail("C05:ledger-drift", "reservation %d dim %d: Allocated=%d but assigned pods sum to %d", u, d, got, sum)
			}
		}
		// ORACLE allocate-once: not matchable any more once a pod is assigned
		if ri.IsAllocateOnce() && len(ri.AssignedPods) > 0 && ri.IsMatchable() {
			h.Fail("C05:allocate-once-matchable", "reservation %d is allocate-once with %d pods but IsMatchable", u, len(ri.AssignedPods))
		}
		// ORACLE index completeness: every live reservation placed on a node is listed there
		if n := ri.GetNodeName(); n != "" {
			if _, ok := cache.reservationsOnNode[n][ri.UID()]; !ok {
				h.Fail("C05:index-missing", "reservation %d lives on %s but reservationsOnNode does not list it", u, n)
			}
		}
	}
	on, mt, al := c05Pairs(cache.reservationsOnNode), c05Pairs(cache.matchableOnNode), c05Pairs(cache.allocatedOnNode)
	h.Obs("%s", c05ShowPairs("on", on))
	h.Obs("%s", c05ShowPairs("mt", mt))
	h.Obs("%s", c05ShowPairs("al", al))
	// ORACLE no dangling index entry
	for k, ps := range map[string][][2]int{"reservationsOnNode": on, "matchableOnNode": mt, "allocatedOnNode": al} {
		for _, p := range ps {
			if _, ok := cache.reservationInfos[types.UID(strconv.Itoa(p[1]))]; !ok {
				h.Fail("C05:index-dangling", "%s[n%d] references reservation %d which is not in the cache", k, p[0], p[1])
			}
		}
	}
	for n := 1; n <= 3; n++ {
		var seen []int
		cache.ForEachMatchableReservationOnNode(c05NodeName(n), func(ri *frameworkext.ReservationInfo) (bool, *fwktype.Status) {
			if ri == nil {
				seen = append(seen, 0)
				h.Fail("C05:index-dangling", "ForEachMatchableReservationOnNode(n%d) handed out a nil ReservationInfo", n)
			} else {
				seen = append(seen, c05UID(ri.UID()))
				// evidence only (the index is refreshed by reservation events, not by pod events)
				if ri.IsAllocateOnce() && len(ri.AssignedPods) > 0 {
					h.Tag("fe:hands-out-allocate-once-with-pod")
				} else if !ri.IsMatchable() {
					h.Tag("fe:hands-out-unmatchable")
				}
			}
			return true, nil
		})
		sort.Ints(seen)
		h.Obs("fe %d%s", n, func() string {
			s := ""
			for _, u := range seen {
				s += " " + strconv.Itoa(u)
			}
			return s
		}())
	}
	listed := map[string]bool{}
	for _, n := range cache.ListAllNodes(true) {
		listed[n] = true
	}
	for _, p := range mt {
		if !listed[c05NodeName(p[0])] {
			h.Fail("C05:index-missing", "ListAllNodes(true) misses node n%d which has a matchable reservation", p[0])
		}
	}
}

func c05GenPod(r *vRand, uid int) c05Pod {
	p := c05Pod{uid: uid, split: r.Chance(1, 3)}
	switch r.Intn(12) {
	case 0:
		p.empty = true
		return p
	case 1: // declared zeros
		return p
	}
	for d := 0; d < c05D; d++ {
		switch r.Intn(5) {
		case 0:
			p.req[d] = -1 // key absent
		case 1:
			p.req[d] = 0
		default:
			p.req[d] = c05Amount(r, d, false)
		}
	}
	if p.req == [c05D]int64{-1, -1, -1} {
		p.req[0] = c05Amount(r, 0, false)
	}
	p.ovh = c05GenOvh(r, p.req)
	return p
}

func c05GenRObj(r *vRand, uid int) *c05RObj {
	o := &c05RObj{uid: uid, maxPods: -1}
	o.once = r.Chance(1, 3)
	o.onceNil = r.Bool()
	o.policy = []int{0, 1, 2, 2, 2}[r.Intn(5)]
	for d := 0; d < c05D; d++ {
		if r.Chance(1, 5) {
			o.tmpl[d] = -1
		} else {
			o.tmpl[d] = c05Amount(r, d, true)
		}
	}
	if o.tmpl == [c05D]int64{-1, -1, -1} {
		o.tmpl[0] = c05Amount(r, 0, true)
	}
	o.st = o.tmpl
	if r.Chance(1, 4) {
		o.optKind = 1
		for d := 0; d < c05D; d++ {
			o.opt[d] = r.Bool()
		}
	}
	if r.Chance(1, 3) {
		d := r.Intn(c05D)
		if o.tmpl[d] > 0 {
			o.reserved[d] = 1 + r.Int63n(o.tmpl[d]/2+1)
		}
	}
	if r.Chance(1, 4) {
		o.maxPods = int64(r.Range(1, 3))
	}
	return o
}

// mutate the object of an existing reservation the way later events do (status progress, spec edits)
func c05Mutate(r *vRand, o *c05RObj, namesMayChange bool) {
	switch r.Intn(10) {
	case 0, 1, 2:
		o.phase = []int{1, 1, 2, 3, 4}[r.Intn(5)]
	case 3:
		o.term = !o.term || r.Bool()
	case 4:
		d := r.Intn(c05D) // resize of the status allocatable value
		if o.st[d] >= 0 {
			o.st[d] = c05Amount(r, d, true)
		}
	case 5:
		o.ownBad = r.Chance(1, 3)
		o.ownBadBoth = o.ownBad && r.Bool()
	case 6:
		if namesMayChange { // edit of the restricted-options annotation / allocatable key set
			switch r.Intn(4) {
			case 0:
				o.optKind = 0
				o.opt = [c05D]bool{}
			case 1:
				o.optKind = 1
				for d := 0; d < c05D; d++ {
					o.opt[d] = r.Bool()
				}
			case 2:
				o.optKind = 2
			case 3:
				d := r.Intn(c05D)
				if o.st[d] < 0 {
					o.st[d] = c05Amount(r, d, true)
				} else if r.Bool() {
					o.st[d] = -1
				}
			}
		}
	case 7:
		d := r.Intn(c05D)
		o.reserved[d] = 0
		if o.tmpl[d] > 0 && r.Bool() {
			o.reserved[d] = 1 + r.Int63n(o.tmpl[d]/2+1)
		}
	case 8:
		if r.Bool() {
			o.maxPods = -1
		} else {
			o.maxPods = int64(r.Range(1, 3))
		}
	}
}

func c05FitFlags(reasons []string) (flags [c05D + 1]bool, unknown bool) {
	for _, s := range reasons {
		switch {
		case strings.Contains(s, "Too many pods"):
			flags[0] = true
		default:
			hit := false
			for d := 0; d < c05D; d++ {
				if strings.Contains(s, "Insufficient "+string(c05Names[d])) {
					flags[d+1] = true
					hit = true
				}
			}
			if !hit {
				unknown = true
			}
		}
	}
	return
}

func TestVerifC05Cache(t *testing.T) {
	h := vOpen("C05")
	if h == nil {
		t.Skip("VERIF_OUT not set")
	}
	suit := newPluginTestSuit(t)
	plg, err := suit.pluginFactory()
	if err != nil {
		t.Fatal(err)
	}
	pl := plg.(*Plugin)

	n := h.N(1500, 40000)
	for idx := 0; idx < n; idx++ {
		r := h.Begin(idx)
		c05DeclReset(h) // round 9: registry of the pod objects declared in this case
		if r == nil {
			continue
		}
		cache := newReservationCache(nil)
		nm := newNominator(nil, nil)
		reh := &reservationEventHandler{cache: cache, rrNominator: nm}
		peh := &podEventHandler{cache: cache, nominator: nm}
		objs := map[int]*c05RObj{}      // last object emitted per reservation uid
		scheduled := map[int]bool{}     // a node has been emitted for the uid (it stays the same from then on)
		home := map[int]int{}           // the node of the uid
		hpods := map[int]*c05HPod{}     // last informer state per pod uid
		pods := map[int]*c05Pod{}       // fixed request per pod uid
		namesMayChange := r.Chance(1, 2) // half of the histories keep every reservation's reserved dimensions fixed
		if namesMayChange {
			h.Tag("hist:names-may-change")
		} else {
			h.Tag("hist:names-fixed")
		}
		getPod := func(u int) *c05Pod {
			if pods[u] == nil {
				p := c05GenPod(r, u)
				pods[u] = &p
			}
			return pods[u]
		}
		pickR := func() int { // mostly a reservation that is in the cache
			if len(cache.reservationInfos) > 0 && r.Chance(6, 7) {
				us := make([]int, 0, 4)
				for u := range cache.reservationInfos {
					us = append(us, c05UID(u))
				}
				sort.Ints(us)
				return us[r.Intn(len(us))]
			}
			return r.Range(1, 4)
		}
		steps := r.Range(4, 22)
		if h.Tier == "thorough" && r.Chance(1, 4) {
			steps = r.Range(20, 60)
		}
		muts := 0
		initR := r.Range(1, 3)
		for s := 0; s < steps; s++ {
			k := r.Intn(100)
			if s < initR {
				k = 0 // start with reservation events so that later ops mostly hit live reservations
			}
			switch {
			case k < 34: // reservation event
				u := r.Range(1, 4)
				o := objs[u]
				if o == nil {
					o = c05GenRObj(r, u)
					home[u] = r.Range(1, 3)
					objs[u] = o
					if r.Chance(3, 4) {
						o.phase = []int{1, 1, 1, 2}[r.Intn(4)]
					}
				} else {
					c05Mutate(r, o, namesMayChange)
				}
				if !scheduled[u] && o.phase == 0 && r.Chance(1, 2) {
					o.node = 0
				} else {
					o.node = home[u]
					if !namesMayChange && !scheduled[u] {
						o.st = o.tmpl
					}
				}
				robj := o.build()
				kind := []string{"eadd", "eupd", "eupd", "eupd", "edel", "rupd", "rupd", "rupdx", "rdel"}[r.Intn(9)]
				if o.node == 0 { // an unscheduled reservation only reaches the cache through the (gating) handlers
					kind = []string{"eadd", "eupd"}[r.Intn(2)]
				} else {
					scheduled[u] = true
				}
				h.Tag("op:" + kind)
				switch kind {
				case "eadd":
					h.Op("eadd %s", o.line())
					reh.OnAdd(robj, false)
				case "eupd":
					h.Op("eupd %s", o.line())
					reh.OnUpdate(robj, robj)
				case "edel":
					h.Op("edel %s", o.line())
					reh.OnDelete(robj)
				case "rupd":
					h.Op("rupd %s", o.line())
					cache.updateReservation(robj)
				case "rupdx":
					h.Op("rupdx %s", o.line())
					cache.updateReservationIfExists(robj)
				case "rdel":
					h.Op("rdel %d %d", u, o.node)
					cache.DeleteReservation(robj)
					if r.Chance(1, 2) {
						delete(objs, u) // the uid may come back as a fresh object on the same node
					}
				}
				c05DumpAndCheck(h, cache, objs)
				muts++
			case k < 50: // assume / add pods
				ru := pickR()
				if r.Chance(1, 15) {
					ru = 9 // unknown reservation
				}
				np := 1
				if r.Chance(1, 6) {
					np = 2
				}
				var ps []*corev1.Pod
				line := ""
				for i := 0; i < np; i++ {
					p := getPod(r.Range(1, 6))
					ps = append(ps, p.build())
					line += " " + p.line()
				}
				h.Op("padd %d %d%s", ru, np, line)
				h.Tag("op:padd")
				var e error
				if r.Bool() {
					e = cache.assumePods(types.UID(strconv.Itoa(ru)), ps)
				} else {
					e = cache.addPods(types.UID(strconv.Itoa(ru)), ps)
				}
				code := 0
				if e != nil {
					code = 3
					if strings.Contains(e.Error(), "cannot find") {
						code = 1
					} else if strings.Contains(e.Error(), "terminating") {
						code = 2
					}
				}
				h.Obs("err %d", code)
				h.Tag(fmt.Sprintf("padd-err:%d", code))
				c05DumpAndCheck(h, cache, objs)
				muts++
			case k < 60: // forget / delete pods
				ru := pickR()
				np := 1
				if r.Chance(1, 6) {
					np = 2
				}
				var ps []*corev1.Pod
				line := ""
				for i := 0; i < np; i++ {
					p := getPod(r.Range(1, 6))
					ps = append(ps, p.build())
					line += " " + strconv.Itoa(p.uid)
				}
				h.Op("pdel %d %d%s", ru, np, line)
				h.Tag("op:pdel")
				if r.Bool() {
					cache.forgetPods(types.UID(strconv.Itoa(ru)), ps)
				} else {
					cache.deletePods(types.UID(strconv.Itoa(ru)), ps)
				}
				c05DumpAndCheck(h, cache, objs)
				muts++
			case k < 66: // raw updatePod
				ou, nu := r.Range(0, 4), r.Range(0, 4)
				if r.Chance(1, 2) {
					nu = ou
				}
				pu := r.Range(1, 6)
				po := *getPod(pu)
				pn := po
				if r.Chance(1, 5) { // in-place resize of the pod
					pn = c05GenPod(r, pu)
					pods[pu] = &pn
				}
				hasOld, hasNew := !r.Chance(1, 5), !r.Chance(1, 8)
				h.Op("pupd %d %d %d %s %d %s", ou, nu, vB(hasOld), po.line(), vB(hasNew), pn.line())
				h.Tag("op:pupd")
				var oldP, newP *corev1.Pod
				if hasOld {
					oldP = po.build()
				}
				if hasNew {
					newP = pn.build()
				}
				uidOf := func(u int) types.UID {
					if u == 0 {
						return ""
					}
					return types.UID(strconv.Itoa(u))
				}
				cache.updatePod(uidOf(ou), uidOf(nu), oldP, newP)
				c05DumpAndCheck(h, cache, objs)
				muts++
			case k < 80: // pod informer events
				pu := r.Range(1, 6)
				p := getPod(pu)
				old := hpods[pu]
				nw := &c05HPod{p: *p, node: 1}
				if old != nil {
					*nw = *old
					nw.p = *p
				}
				switch r.Intn(6) {
				case 0:
					nw.node = 0
				case 1:
					nw.term = true
				case 2, 3:
					nw.rAlloc = pickR()
					nw.node = 1
				case 4:
					nw.rAlloc = 0
				}
				kind := r.Intn(4)
				if old == nil {
					kind = 0
				}
				switch kind {
				case 0:
					h.Op("hadd %s", nw.line())
					h.Tag("op:hadd")
					peh.OnAdd(nw.build(), false)
					hpods[pu] = nw
				case 1, 2:
					h.Op("hupd %s %s", old.line(), nw.line())
					h.Tag("op:hupd")
					peh.OnUpdate(old.build(), nw.build())
					hpods[pu] = nw
				case 3:
					h.Op("hdel %s", old.line())
					h.Tag("op:hdel")
					peh.OnDelete(old.build())
					delete(hpods, pu)
				}
				c05DumpAndCheck(h, cache, objs)
				muts++
			case k < 94: // restricted fit query
				ru := pickR()
				var q, pre [c05D]int64
				ri := cache.reservationInfos[types.UID(strconv.Itoa(ru))]
				for d := 0; d < c05D; d++ {
					switch r.Intn(6) {
					case 0:
						q[d] = -1
					case 1:
						q[d] = 0
					case 2, 3:
						if ri != nil { // steer to the boundary: exactly the remainder, or one above
							rem := c05Val(d, ri.Allocatable) - c05Val(d, ri.Reserved) - c05Val(d, ri.Allocated)
							if rem > 0 {
								q[d] = rem + int64(r.Intn(2))
								break
							}
						}
						q[d] = c05Amount(r, d, false)
					default:
						q[d] = c05Amount(r, d, false)
					}
					if r.Chance(1, 4) {
						pre[d] = c05Amount(r, d, false)
					}
				}
				prePods := int64(0)
				if r.Chance(1, 6) {
					prePods = 1
				}
				h.Op("fit %d %s %s %d", ru, vInts(q[:]), vInts(pre[:]), prePods)
				h.Tag("op:fit")
				if ri == nil {
					h.Obs("fit none")
					break
				}
				podReq := c05List(q, -1)
				preRR := c05List(pre, 0)
				if prePods > 0 {
					preRR[corev1.ResourcePods] = *resource.NewQuantity(prePods, resource.DecimalSI)
				}
				if len(preRR) == 0 && r.Bool() {
					preRR = nil
				}
				var reasons []string
				detailed := r.Bool()
				_, reasons = fitsNodeAndReservation(framework.NewResource(podReq), nil, nil, nil, nil, podReq, preRR,
					&corev1.Pod{}, ri, nil, 1, detailed, true, nil, nil)
				flags, unknown := c05FitFlags(reasons)
				if unknown {
					h.Obs("fit unknown-reason")
				} else {
					h.Obs("fit %d %d %d %d", vB(flags[0]), vB(flags[1]), vB(flags[2]), vB(flags[3]))
				}
				fitsAll := len(reasons) == 0
				h.Tag(fmt.Sprintf("fit:%v", fitsAll))
				// ORACLE: a Restricted reservation lets the pod in only if, in every reserved dimension the pod
				// requests, (sum of assigned requests - preemptible)+ + request <= allocatable - inner reserved
				o := objs[ru]
				if fitsAll && o != nil && ri.Reservation != nil &&
					ri.Reservation.Spec.AllocatePolicy == schedulingv1alpha1.ReservationAllocatePolicyRestricted {
					h.Nontrivial()
					alloc := ri.Reservation.Spec.Template.Spec.Containers[0].Resources.Requests
					if reservationutil.IsReservationAvailable(ri.Reservation) {
						alloc = ri.Reservation.Status.Allocatable
					}
					var inner corev1.ResourceList
					if nr, _ := apiext.GetNodeReservation(ri.Reservation.Annotations); nr != nil {
						inner = nr.Resources
					}
					for d := 0; d < c05D; d++ {
						if !c05HasName(ri, d) || q[d] <= 0 {
							continue
						}
						var sum int64
						for pu, pr := range ri.AssignedPods { // round 9: the DECLARED requests (incl. spec.overhead)
							v, _, _ := c05DeclaredFor(h, c05UID(pu), c05RecordedReq(pr))
							sum += v[d]
						}
						used := sum - pre[d]
						if used < 0 {
							used = 0
						}
						if used+q[d] > c05Val(d, alloc)-c05Val(d, inner) {
							h.Fail("C05:fit-overcommit", "reservation %d dim %d: assigned %d - preemptible %d + request %d > allocatable %d - reserved %d but the pod was let in",
								ru, d, sum, pre[d], q[d], c05Val(d, alloc), c05Val(d, inner))
						}
					}
					if mp, ok := alloc[corev1.ResourcePods]; ok {
						if int64(len(ri.AssignedPods))-prePods+1 > mp.Value() {
							h.Fail("C05:fit-too-many-pods", "reservation %d: %d assigned pods (+1) exceed the reserved pods %d but the pod was let in",
								ru, len(ri.AssignedPods), mp.Value())
						}
					}
				}
			default: // nominate gate
				ru := pickR()
				h.Op("nom %d", ru)
				h.Tag("op:nom")
				ri := cache.getReservationInfoByUID(types.UID(strconv.Itoa(ru)))
				if ri == nil {
					h.Obs("nom none")
					break
				}
				st := pl.FilterNominateReservation(context.TODO(), framework.NewCycleState(), getPod(6).build(), ri, "verif-no-such-node")
				rejected := st != nil && st.Code() == fwktype.Unschedulable
				h.Obs("nom %d", vB(rejected))
				h.Tag(fmt.Sprintf("nom:%v", rejected))
				// ORACLE: an allocate-once reservation that already has an assigned pod is not nominated again
				if ri.Reservation != nil && ptr.Deref(ri.Reservation.Spec.AllocateOnce, true) && len(ri.AssignedPods) > 0 && st.IsSuccess() {
					h.Fail("C05:allocate-once-nominated", "reservation %d is allocate-once with %d pods but passed FilterNominateReservation", ru, len(ri.AssignedPods))
				}
				if ri.Reservation != nil && ptr.Deref(ri.Reservation.Spec.AllocateOnce, true) && len(ri.AssignedPods) > 0 && !rejected {
					h.Fail("C05:allocate-once-nominated", "reservation %d is allocate-once with %d pods but got past the allocate-once gate", ru, len(ri.AssignedPods))
				}
			}
		}
		if muts >= 3 {
			h.Nontrivial()
		}
		h.Tag(fmt.Sprintf("steps:%d", steps/8*8))
		h.End()
	}
	h.Close("one history (4-22 ops, thorough up to 60) over <=4 reservations on 3 nodes and <=6 pods with non-round cpu/memory/scalar amounts (~30% of the pods declare part of the request as spec.overhead; the request = containers + overhead is read from the declared object): " +
		"reservation add/update/delete through the event handlers and the raw cache methods (node fixed once set; phase, deletion, " +
		"allocate-once, policy, restricted options, allocatable, inner reserved, owners edited), pod assume/forget/add/update/delete " +
		"raw and through the pod informer handler (reservation-allocated annotation, terminated / unassigned pods, unknown uids, duplicates, empty requests), " +
		"restricted fit queries steered to the remainder boundary with preemptible amounts, nominate-gate queries; half of the histories keep " +
		"the reserved dimensions fixed; non-trivial = >=3 mutating ops or an admitted restricted fit; distinct by op lines")
}

// ---------------------------------------------------------------------------------------------
// "match" harness: owner matching and checkReservationMatchedOrIgnored

type c05Owner struct {
	obj  *corev1.ObjectReference
	ctrl *schedulingv1alpha1.ReservationControllerReference
	sel  *metav1.LabelSelector
}

// independent evaluation of one owner entry on a pod, from the documented semantics of
// ReservationOwner: every given part must hold; inside a part every non-empty field must be equal
func c05EvalOwner(o c05Owner, pod *corev1.Pod) (obj, ctrl, lbl bool) {
	obj, ctrl, lbl = true, true, true
	if o.obj != nil {
		if o.obj.UID != "" && o.obj.UID != pod.UID {
			obj = false
		}
		if o.obj.Name != "" && o.obj.Name != pod.Name {
			obj = false
		}
		if o.obj.Namespace != "" && o.obj.Namespace != pod.Namespace {
			obj = false
		}
	}
	if o.ctrl != nil {
		ctrl = false
		if o.ctrl.Namespace == "" || o.ctrl.Namespace == pod.Namespace {
			for _, ref := range pod.OwnerReferences {
				ok := true
				// an EXPLICIT controller flag in the owner spec: the pod's ownerReference must carry the flag (present) and
				// carry the same value; a reference that leaves the flag unset does not say what the spec demands
				if o.ctrl.Controller != nil && (ref.Controller == nil || *ref.Controller != *o.ctrl.Controller) {
					ok = false
				}
				if o.ctrl.APIVersion != "" && o.ctrl.APIVersion != ref.APIVersion {
					ok = false
				}
				if o.ctrl.UID != "" && o.ctrl.UID != ref.UID {
					ok = false
				}
				if o.ctrl.Name != "" && o.ctrl.Name != ref.Name {
					ok = false
				}
				if o.ctrl.Kind != "" && o.ctrl.Kind != ref.Kind {
					ok = false
				}
				if ok {
					ctrl = true
				}
			}
		}
	}
	if o.sel != nil {
		l, e, _ := c05EvalSelector(o.sel, pod.Labels)
		lbl = l && e
	}
	return
}

// independent evaluation of a metav1.LabelSelector on a label set, from its API documentation: "matchLabels is a map
// of {key,value} pairs [...] equivalent to an element of matchExpressions whose operator is In; the requirements are
// ANDed".  labelsOK = every matchLabels pair is carried; exprsOK = every expression holds (In: key present with one of
// the values; NotIn: key absent or value not listed; Exists / DoesNotExist: key present / absent); invalid = the
// selector is not a valid one (unknown operator, In / NotIn without values, Exists / DoesNotExist with values): it
// selects nothing and the owner spec that carries it does not parse.
func c05EvalSelector(sel *metav1.LabelSelector, lbls map[string]string) (labelsOK, exprsOK, invalid bool) {
	labelsOK, exprsOK = true, true
	for k, v := range sel.MatchLabels {
		if pv, ok := lbls[k]; !ok || pv != v {
			labelsOK = false
		}
	}
	for _, e := range sel.MatchExpressions {
		pv, has := lbls[e.Key]
		listed := false
		for _, v := range e.Values {
			if has && v == pv {
				listed = true
			}
		}
		switch e.Operator {
		case metav1.LabelSelectorOpIn:
			if len(e.Values) == 0 {
				invalid = true
			}
			if !listed {
				exprsOK = false
			}
		case metav1.LabelSelectorOpNotIn:
			if len(e.Values) == 0 {
				invalid = true
			}
			if listed {
				exprsOK = false
			}
		case metav1.LabelSelectorOpExists:
			if len(e.Values) != 0 {
				invalid = true
			}
			if !has {
				exprsOK = false
			}
		case metav1.LabelSelectorOpDoesNotExist:
			if len(e.Values) != 0 {
				invalid = true
			}
			if has {
				exprsOK = false
			}
		default:
			invalid = true
		}
	}
	if invalid {
		exprsOK = false
	}
	return
}

// an expression on the pod's `tier` label (absent | canary | stable) for owner selectors that ALSO carry matchLabels
func c05TierExpr(kind int) []metav1.LabelSelectorRequirement {
	switch kind {
	case 1:
		return []metav1.LabelSelectorRequirement{{Key: "tier", Operator: metav1.LabelSelectorOpNotIn, Values: []string{"canary"}}}
	case 2:
		return []metav1.LabelSelectorRequirement{{Key: "tier", Operator: metav1.LabelSelectorOpIn, Values: []string{"stable"}}}
	case 3:
		return []metav1.LabelSelectorRequirement{{Key: "tier", Operator: metav1.LabelSelectorOpExists}}
	case 4:
		return []metav1.LabelSelectorRequirement{{Key: "tier", Operator: metav1.LabelSelectorOpDoesNotExist}}
	case 5: // two expressions: both must hold
		return []metav1.LabelSelectorRequirement{{Key: "tier", Operator: metav1.LabelSelectorOpExists},
			{Key: "tier", Operator: metav1.LabelSelectorOpNotIn, Values: []string{"canary", "beta"}}}
	case 6: // not a valid selector
		return []metav1.LabelSelectorRequirement{{Key: "tier", Operator: "Bogus", Values: []string{"canary"}}}
	}
	return nil
}

var c05Tiers = []string{"", "canary", "stable"}

// integer tokens of the generated label keys / values / operators for the `sel` op (model: Model/C05Sel.lean)
var c05KeyTok = map[string]int{"app": 1, "tier": 2, "k": 3, apiext.LabelReservationIgnored: 4}
var c05ValTok = map[string]int{"a": 1, "b": 2, "c": 3, "canary": 4, "stable": 5, "beta": 6, "v": 7, "true": 8}
var c05OpTok = map[metav1.LabelSelectorOperator]int{metav1.LabelSelectorOpIn: 0, metav1.LabelSelectorOpNotIn: 1,
	metav1.LabelSelectorOpExists: 2, metav1.LabelSelectorOpDoesNotExist: 3}

func c05PairToks(t *testing.T, m map[string]string) string {
	var ps [][2]int
	for k, v := range m {
		kt, ok1 := c05KeyTok[k]
		vt, ok2 := c05ValTok[v]
		if !ok1 || !ok2 {
			t.Fatalf("harness: label %s=%s has no token", k, v)
		}
		ps = append(ps, [2]int{kt, vt})
	}
	sort.Slice(ps, func(i, j int) bool { return ps[i][0] < ps[j][0] })
	s := strconv.Itoa(len(ps))
	for _, p := range ps {
		s += fmt.Sprintf(" %d %d", p[0], p[1])
	}
	return s
}

// the `sel` op line of one owner label selector against the pod's labels
func c05SelLine(t *testing.T, sel *metav1.LabelSelector, lbls map[string]string) string {
	s := c05PairToks(t, lbls) + " " + c05PairToks(t, sel.MatchLabels) + " " + strconv.Itoa(len(sel.MatchExpressions))
	for _, e := range sel.MatchExpressions {
		kt, ok := c05KeyTok[e.Key]
		if !ok {
			t.Fatalf("harness: key %s has no token", e.Key)
		}
		ot, ok := c05OpTok[e.Operator]
		if !ok {
			ot = 9
		}
		s += fmt.Sprintf(" %d %d %d", kt, ot, len(e.Values))
		for _, v := range e.Values {
			vt, ok := c05ValTok[v]
			if !ok {
				t.Fatalf("harness: value %s has no token", v)
			}
			s += " " + strconv.Itoa(vt)
		}
	}
	return s
}

// controller references (round 8): the strings of metav1.OwnerReference as small integers, 0 = the empty string
var (
	c05CtlUIDs  = []string{"", "u1", "u2"}
	c05CtlNames = []string{"", "rs1", "rs2"}
	c05CtlKinds = []string{"", "ReplicaSet", "StatefulSet"}
	c05CtlAPIs  = []string{"", "apps/v1", "apps/v1beta1"}
	c05CtlNss   = []string{"", "default", "other"}
)

func c05CtlCode(t *testing.T, tbl []string, v string) int {
	for i, x := range tbl {
		if x == v {
			return i
		}
	}
	t.Fatalf("harness: string %q outside the generated vocabulary %v", v, tbl)
	return -1
}

// *bool: 0 nil, 1 &true, 2 &false
func c05CtlFlag(b *bool) int {
	if b == nil {
		return 0
	}
	if *b {
		return 1
	}
	return 2
}

func c05CtlFlagPtr(code int) *bool {
	switch code {
	case 1:
		return ptr.To(true)
	case 2:
		return ptr.To(false)
	}
	return nil
}

func c05CtlFlagText(b *bool) string { return []string{"nil", "true", "false"}[c05CtlFlag(b)] }

func c05CtlRefsText(refs []metav1.OwnerReference) string {
	s := "["
	for _, ref := range refs {
		s += fmt.Sprintf("{controller %s uid %q name %q kind %q apiVersion %q}", c05CtlFlagText(ref.Controller), ref.UID, ref.Name, ref.Kind, ref.APIVersion)
	}
	return s + "]"
}

func c05CtlRefToks(t *testing.T, ref metav1.OwnerReference) string {
	return fmt.Sprintf("%d %d %d %d %d", c05CtlFlag(ref.Controller), c05CtlCode(t, c05CtlUIDs, string(ref.UID)), c05CtlCode(t, c05CtlNames, ref.Name),
		c05CtlCode(t, c05CtlKinds, ref.Kind), c05CtlCode(t, c05CtlAPIs, ref.APIVersion))
}

func TestVerifC05Match(t *testing.T) {
	h := vOpen("C05")
	if h == nil {
		t.Skip("VERIF_OUT not set")
	}
	n := h.N(3000, 60000)
	for idx := 0; idx < n; idx++ {
		r := h.Begin(idx)
		c05DeclReset(h) // round 9: registry of the pod objects declared in this case
		if r == nil {
			continue
		}
		// the pod
		pod := &corev1.Pod{ObjectMeta: metav1.ObjectMeta{Name: []string{"p1", "p2"}[r.Intn(2)], Namespace: []string{"default", "other"}[r.Intn(2)],
			UID: types.UID([]string{"7", "8"}[r.Intn(2)]), Labels: map[string]string{}, Annotations: map[string]string{}}}
		switch r.Intn(3) {
		case 0:
			pod.Labels["app"] = "a"
		case 1:
			pod.Labels["app"] = "b"
		}
		if tier := c05Tiers[r.Intn(3)]; tier != "" {
			pod.Labels["tier"] = tier
		}
		if r.Bool() {
			// 1 (sometimes 2) ownerReferences; the controller flag is nil / &true / &false, the other fields mostly the usual ones
			for nr := r.Range(1, 4) / 4 + 1; nr > 0; nr-- {
				ref := metav1.OwnerReference{Name: []string{"rs1", "rs2"}[r.Intn(2)], Kind: "ReplicaSet", UID: "u1", Controller: c05CtlFlagPtr(r.Intn(3))}
				if r.Chance(1, 4) {
					ref.UID = "u2"
				}
				if r.Chance(1, 5) {
					ref.Kind = "StatefulSet"
				}
				if r.Chance(2, 3) {
					ref.APIVersion = c05CtlAPIs[r.Range(1, 2)]
				}
				pod.OwnerReferences = append(pod.OwnerReferences, ref)
			}
		}
		podCPU := int64(r.Range(1, 3) * 500)
		pod.Spec.Containers = []corev1.Container{{Name: "c", Resources: corev1.ResourceRequirements{Requests: corev1.ResourceList{corev1.ResourceCPU: c05Q(0, podCPU)}}}}

		// the reservation's owners
		k := r.Range(0, 3)
		if r.Chance(1, 10) {
			k = 0
		}
		var owners []c05Owner
		var spec []schedulingv1alpha1.ReservationOwner
		for i := 0; i < k; i++ {
			var o c05Owner
			switch r.Intn(5) {
			case 0:
				o.obj = &corev1.ObjectReference{Name: []string{"p1", "p2"}[r.Intn(2)]}
			case 1:
				o.obj = &corev1.ObjectReference{UID: types.UID([]string{"7", "8"}[r.Intn(2)]), Namespace: []string{"", "default", "other"}[r.Intn(3)]}
			case 2:
				o.obj = &corev1.ObjectReference{Namespace: []string{"default", "other"}[r.Intn(2)], Kind: "Pod"}
			}
			switch r.Intn(6) {
			case 0:
				o.ctrl = &schedulingv1alpha1.ReservationControllerReference{OwnerReference: metav1.OwnerReference{Name: []string{"rs1", "rs2"}[r.Intn(2)]}}
			case 1:
				o.ctrl = &schedulingv1alpha1.ReservationControllerReference{OwnerReference: metav1.OwnerReference{Kind: "ReplicaSet", Controller: c05CtlFlagPtr(r.Range(1, 6) % 3)},
					Namespace: []string{"", "default", "other"}[r.Intn(3)]}
			case 2, 3:
				// the spec names one of the pod's own ownerReferences (same uid / name / kind / apiVersion, some of them left
				// empty), sometimes with ONE field different, and states the controller flag nil / &true / &false
				// independently of the flag on the pod's reference: the whole 3x3 table of (spec flag, pod flag)
				c := &schedulingv1alpha1.ReservationControllerReference{OwnerReference: metav1.OwnerReference{Name: "rs1", Kind: "ReplicaSet", UID: "u1", APIVersion: "apps/v1"}}
				if len(pod.OwnerReferences) > 0 {
					c.OwnerReference = pod.OwnerReferences[r.Intn(len(pod.OwnerReferences))]
					c.BlockOwnerDeletion = nil
				}
				for f := 0; f < 4; f++ {
					if r.Chance(1, 3) {
						switch f {
						case 0:
							c.UID = ""
						case 1:
							c.Name = ""
						case 2:
							c.Kind = ""
						case 3:
							c.APIVersion = ""
						}
					}
				}
				if r.Chance(1, 4) {
					switch r.Intn(4) {
					case 0:
						c.UID = types.UID(c05CtlUIDs[r.Range(1, 2)])
					case 1:
						c.Name = c05CtlNames[r.Range(1, 2)]
					case 2:
						c.Kind = c05CtlKinds[r.Range(1, 2)]
					case 3:
						c.APIVersion = c05CtlAPIs[r.Range(1, 2)]
					}
				}
				c.Controller = c05CtlFlagPtr(r.Intn(3))
				if r.Chance(1, 3) {
					c.Namespace = []string{"default", "other"}[r.Intn(2)]
					if r.Chance(2, 3) {
						c.Namespace = pod.Namespace
					}
				}
				o.ctrl = c
			}
			switch r.Intn(5) {
			case 0:
				o.sel = &metav1.LabelSelector{MatchLabels: map[string]string{"app": []string{"a", "b"}[r.Intn(2)]}}
			case 1:
				o.sel = &metav1.LabelSelector{MatchExpressions: []metav1.LabelSelectorRequirement{{Key: "app", Operator: metav1.LabelSelectorOpIn,
					Values: [][]string{{"a"}, {"a", "b"}, {"c"}}[r.Intn(3)]}}}
			case 2:
				o.sel = &metav1.LabelSelector{} // empty selector matches everything
			case 3: // BOTH parts: matchLabels (mostly the pod's own app) AND an expression on the pod's tier (In / NotIn / Exists / DoesNotExist / two of them)
				app := []string{"a", "b"}[r.Intn(2)]
				if pa, ok := pod.Labels["app"]; ok && r.Chance(2, 3) {
					app = pa
				}
				o.sel = &metav1.LabelSelector{MatchLabels: map[string]string{"app": app}, MatchExpressions: c05TierExpr(r.Range(1, 5))}
				if r.Chance(1, 6) { // labels on the tier, expression on the app
					o.sel = &metav1.LabelSelector{MatchLabels: map[string]string{"tier": c05Tiers[r.Range(1, 2)]},
						MatchExpressions: []metav1.LabelSelectorRequirement{{Key: "app", Operator: []metav1.LabelSelectorOperator{metav1.LabelSelectorOpIn, metav1.LabelSelectorOpNotIn}[r.Intn(2)],
							Values: [][]string{{"a"}, {"a", "b"}, {"c"}}[r.Intn(3)]}}}
				}
				h.Tag("own:selector-with-labels-and-expressions")
			}
			owners = append(owners, o)
			spec = append(spec, schedulingv1alpha1.ReservationOwner{Object: o.obj, Controller: o.ctrl, LabelSelector: o.sel})
		}
		perr := r.Chance(1, 12)
		var badSel *metav1.LabelSelector
		if perr {
			badSel = &metav1.LabelSelector{MatchExpressions: []metav1.LabelSelectorRequirement{{Key: "k", Operator: "Bogus", Values: []string{"v"}}}}
			if r.Bool() { // the invalid expression sits NEXT TO matchLabels (mostly ones the pod carries)
				app := []string{"a", "b"}[r.Intn(2)]
				if pa, ok := pod.Labels["app"]; ok && r.Chance(2, 3) {
					app = pa
				}
				badSel = &metav1.LabelSelector{MatchLabels: map[string]string{"app": app}, MatchExpressions: c05TierExpr(6)}
				if r.Chance(1, 3) { // In without values is no valid requirement either
					badSel.MatchExpressions = []metav1.LabelSelectorRequirement{{Key: "tier", Operator: metav1.LabelSelectorOpIn}}
				}
				h.Tag("own:invalid-expression-next-to-labels")
			}
			if _, _, invalid := c05EvalSelector(badSel, pod.Labels); !invalid {
				t.Fatal("harness: the selector meant to be invalid is valid by the harness' own reading")
			}
			spec = append(spec, schedulingv1alpha1.ReservationOwner{LabelSelector: badSel})
		}
		resCPU := int64(r.Range(1, 3) * 500)
		res := &schedulingv1alpha1.Reservation{
			ObjectMeta: metav1.ObjectMeta{Name: "r1", UID: "1", Labels: map[string]string{"zone": "a"}},
			Spec: schedulingv1alpha1.ReservationSpec{Owners: spec, AllocateOnce: ptr.To(false),
				Template: &corev1.PodTemplateSpec{Spec: corev1.PodSpec{Containers: []corev1.Container{{Name: "c",
					Resources: corev1.ResourceRequirements{Requests: corev1.ResourceList{corev1.ResourceCPU: c05Q(0, resCPU)}}}}}}},
			Status: schedulingv1alpha1.ReservationStatus{NodeName: "n1", Phase: schedulingv1alpha1.ReservationAvailable,
				Allocatable: corev1.ResourceList{corev1.ResourceCPU: c05Q(0, resCPU)}},
		}
		unsched := false
		if r.Chance(1, 4) {
			res.Spec.Unschedulable = true
			unsched = true
		}
		if r.Chance(1, 8) {
			now := metav1.Now()
			res.DeletionTimestamp = &now
			unsched = true
		}
		taintEffect := corev1.TaintEffect("")
		switch r.Intn(5) {
		case 0:
			taintEffect = corev1.TaintEffectNoSchedule
		case 1:
			taintEffect = corev1.TaintEffectPreferNoSchedule // not a do-not-schedule taint
		}
		if taintEffect != "" {
			res.Spec.Taints = []corev1.Taint{{Key: "t", Effect: taintEffect}}
		}

		// pod side: ignore label, affinity, exact-match spec
		ignored := r.Chance(1, 8)
		if ignored {
			pod.Labels[apiext.LabelReservationIgnored] = "true"
		}
		hasAff := r.Chance(2, 3)
		hasName, nameMatch, affinityOK, tolerateUnsch, taintBad := false, false, true, false, false
		if hasAff {
			aff := apiext.ReservationAffinity{}
			switch r.Intn(4) {
			case 0:
				aff.Name = []string{"r1", "rX"}[r.Intn(2)]
				hasName, nameMatch = true, aff.Name == "r1"
			case 1, 2:
				z := []string{"a", "b"}[r.Intn(2)]
				aff.ReservationSelector = map[string]string{"zone": z}
				affinityOK = z == "a"
			}
			tolT, tolU := false, false
			switch r.Intn(5) {
			case 0:
				aff.Tolerations = []corev1.Toleration{{Key: "t", Operator: corev1.TolerationOpExists, Effect: corev1.TaintEffectNoSchedule}}
				tolT = true
			case 1:
				aff.Tolerations = []corev1.Toleration{{Key: corev1.TaintNodeUnschedulable, Operator: corev1.TolerationOpExists, Effect: corev1.TaintEffectNoSchedule}}
				tolU = true
			case 2:
				aff.Tolerations = []corev1.Toleration{{Operator: corev1.TolerationOpExists}}
				tolT, tolU = true, true
			}
			tolerateUnsch = tolU
			taintBad = taintEffect == corev1.TaintEffectNoSchedule && !tolT
			b, _ := json.Marshal(aff)
			pod.Annotations[apiext.AnnotationReservationAffinity] = string(b)
		}
		exact := true
		if r.Chance(1, 3) {
			pod.Annotations[apiext.AnnotationExactMatchReservationSpec] = `{"resourceNames":["cpu"]}`
			exact = podCPU == resCPU
		}

		rInfo := frameworkext.NewReservationInfo(res)
		var tri []int64
		satisfied := false
		for _, o := range owners {
			a, b, c := c05EvalOwner(o, pod)
			tri = append(tri, int64(vB(a)), int64(vB(b)), int64(vB(c)))
			if a && b && c {
				satisfied = true
			}
		}
		if perr {
			satisfied = false
		}
		// input class of a wrong acceptance (fingerprint only): some entry is satisfied in everything BUT the expressions
		// of a selector that also has matchLabels
		ownFP := "C05:owner-mismatch"
		selText := "" // the label selectors of the spec's entries, for the failure message
		for i, o := range spec {
			if o.LabelSelector != nil {
				selText += fmt.Sprintf(" [%d: matchLabels %v matchExpressions %v]", i, o.LabelSelector.MatchLabels, o.LabelSelector.MatchExpressions)
			}
		}
		for _, o := range append(append([]c05Owner{}, owners...), c05Owner{sel: badSel}) {
			if o.sel == nil || len(o.sel.MatchLabels) == 0 || len(o.sel.MatchExpressions) == 0 {
				continue
			}
			a, b, _ := c05EvalOwner(o, pod)
			if l, e, _ := c05EvalSelector(o.sel, pod.Labels); a && b && l && !e {
				ownFP = "C05:owner-mismatch:labels-and-expressions"
				h.Tag("own:labels-hold-expressions-violated")
			}
		}
		// input class (fingerprint only): some entry is satisfied in everything BUT the explicit controller flag of its
		// controller reference (the pod's ownerReference leaves the flag unset or states the other value)
		if ownFP == "C05:owner-mismatch" {
			for _, o := range owners {
				if o.ctrl == nil || o.ctrl.Controller == nil {
					continue
				}
				noFlag := *o.ctrl
				noFlag.Controller = nil
				a, b, c := c05EvalOwner(o, pod)
				if _, b2, _ := c05EvalOwner(c05Owner{ctrl: &noFlag}, pod); a && c && !b && b2 {
					ownFP = "C05:owner-mismatch:controller-flag"
					h.Tag("own:only-controller-flag-unmet")
				}
			}
		}
		// at a wrong acceptance: which entry does the real matcher accept ON ITS OWN although the harness' reading rejects it,
		// and which part of it is unmet - names the fingerprint more precisely than the input class (evaluated on failures only)
		ownCause := func() string {
			for _, o := range owners {
				a, b, c := c05EvalOwner(o, pod)
				if a && b && c {
					continue
				}
				acc := false
				if h.Guard(func() {
					ms, err := reservationutil.ParseReservationOwnerMatchers([]schedulingv1alpha1.ReservationOwner{{Object: o.obj, Controller: o.ctrl, LabelSelector: o.sel}})
					acc = err == nil && len(ms) == 1 && ms[0].Match(pod)
				}) || !acc {
					continue
				}
				if a && c && !b && o.ctrl != nil {
					noFlag := *o.ctrl
					noFlag.Controller = nil
					if _, b2, _ := c05EvalOwner(c05Owner{ctrl: &noFlag}, pod); b2 {
						return "C05:owner-mismatch:controller-flag"
					}
					return "C05:owner-mismatch:controller-reference"
				}
				if a && b && !c && o.sel != nil {
					if l, _, _ := c05EvalSelector(o.sel, pod.Labels); l && len(o.sel.MatchLabels) > 0 && len(o.sel.MatchExpressions) > 0 {
						return "C05:owner-mismatch:labels-and-expressions"
					}
					return "C05:owner-mismatch"
				}
			}
			return ownFP
		}
		sp := ""
		if len(tri) > 0 {
			sp = " " + vInts(tri)
		}
		// every label selector of the spec on its own: parsed through the real ParseReservationOwnerMatchers and evaluated by
		// the real matcher; the model (Model/C05Sel.lean) reads the selector itself; ORACLE by the harness' own reading
		for i, ow := range spec {
			if ow.LabelSelector == nil {
				continue
			}
			h.Op("sel %s", c05SelLine(t, ow.LabelSelector, pod.Labels))
			parsed, accepted := false, false
			if h.Guard(func() {
				ms, err := reservationutil.ParseReservationOwnerMatchers([]schedulingv1alpha1.ReservationOwner{{LabelSelector: ow.LabelSelector}})
				if err == nil && len(ms) == 1 {
					parsed, accepted = true, ms[0].Match(pod)
				}
			}) {
				h.Obs("sel panic")
				continue
			}
			h.Obs("sel %d %d", vB(parsed), vB(accepted))
			l, e, inv := c05EvalSelector(ow.LabelSelector, pod.Labels)
			h.Tag(fmt.Sprintf("sel:labels=%d:exprs=%d:parsed=%v:accepted=%v", len(ow.LabelSelector.MatchLabels), len(ow.LabelSelector.MatchExpressions), parsed, accepted))
			if accepted && !(l && e) {
				fp := "C05:owner-mismatch"
				if l && len(ow.LabelSelector.MatchLabels) > 0 && len(ow.LabelSelector.MatchExpressions) > 0 {
					fp = "C05:owner-mismatch:labels-and-expressions"
				}
				h.Fail(fp, "owner entry %d: the matcher built from selector matchLabels %v matchExpressions %v accepts a pod with labels %v (matchLabels hold: %v, matchExpressions hold: %v, invalid selector: %v)",
					i, ow.LabelSelector.MatchLabels, ow.LabelSelector.MatchExpressions, pod.Labels, l, e, inv)
			}
		}
		// every controller reference of the spec on its own, through the real ParseReservationOwnerMatchers /
		// MatchReservationOwners (the entry the reservation info's owner matcher uses); the model (Model/C05Ctl.lean) reads
		// the reference and the pod's ownerReferences itself; ORACLE by the harness' own reading (c05EvalOwner): every
		// non-empty field of the spec equal on ONE ownerReference of the pod, and "explicit flag in the spec => the pod's
		// flag is present and equal"
		for i, ow := range spec {
			if ow.Controller == nil {
				continue
			}
			line := fmt.Sprintf("ctl %d %d %s %d", c05CtlCode(t, c05CtlNss, ow.Controller.Namespace), c05CtlCode(t, c05CtlNss, pod.Namespace),
				c05CtlRefToks(t, ow.Controller.OwnerReference), len(pod.OwnerReferences))
			for _, ref := range pod.OwnerReferences {
				line += " " + c05CtlRefToks(t, ref)
			}
			h.Op("%s", line)
			accepted := false
			if h.Guard(func() {
				ms, err := reservationutil.ParseReservationOwnerMatchers([]schedulingv1alpha1.ReservationOwner{{Controller: ow.Controller}})
				accepted = err == nil && len(ms) == 1 && reservationutil.MatchReservationOwners(pod, ms)
			}) {
				h.Obs("ctl panic")
				continue
			}
			h.Obs("ctl %d", vB(accepted))
			_, want, _ := c05EvalOwner(c05Owner{ctrl: ow.Controller}, pod)
			flags := ""
			for _, ref := range pod.OwnerReferences {
				flags += strconv.Itoa(c05CtlFlag(ref.Controller))
			}
			h.Tag(fmt.Sprintf("ctl:spec-flag=%d:pod-flags=%s:accepted=%v", c05CtlFlag(ow.Controller.Controller), flags, accepted))
			if accepted && !want {
				fp := "C05:owner-mismatch:controller-reference"
				// input class: dropping the flag from the spec would make the harness' reading accept too, i.e. ONLY the flag is unmet
				noFlag := *ow.Controller
				noFlag.Controller = nil
				if _, w2, _ := c05EvalOwner(c05Owner{ctrl: &noFlag}, pod); w2 {
					fp = "C05:owner-mismatch:controller-flag"
				}
				h.Fail(fp, "owner entry %d: controller reference {ns %q controller %s uid %q name %q kind %q apiVersion %q} accepts a pod in namespace %q whose ownerReferences are %s: no ownerReference agrees with every non-empty field of the spec AND carries the stated controller flag (an explicit flag in the spec needs the pod's flag present and equal)",
					i, ow.Controller.Namespace, c05CtlFlagText(ow.Controller.Controller), ow.Controller.UID, ow.Controller.Name, ow.Controller.Kind, ow.Controller.APIVersion,
					pod.Namespace, c05CtlRefsText(pod.OwnerReferences))
			}
			if accepted && ow.Controller.Controller != nil {
				h.Tag("ctl:explicit-flag-accepted")
			}
		}
		h.Op("own %d %d%s", vB(perr), k, sp)
		got := rInfo.MatchOwners(pod)
		h.Obs("own %d", vB(got))
		if got && !satisfied {
			h.Fail(ownCause(), "MatchOwners accepted a pod (labels %v, ownerReferences %s) that satisfies none of the %d owner entries (all of matchLabels AND all of matchExpressions; controller reference incl. an explicit controller flag present and equal; unparsable spec: %v); selectors:%s", pod.Labels, c05CtlRefsText(pod.OwnerReferences), len(spec), perr, selText)
		}
		h.Tag(fmt.Sprintf("own:%v", got))
		h.Tag(fmt.Sprintf("owners:%d", k))

		h.Op("chk %d %d %d %d %d %d %d %d %d %d%s", vB(ignored), vB(perr), vB(hasName), vB(nameMatch), vB(exact), vB(unsched),
			vB(tolerateUnsch), vB(taintBad), vB(affinityOK), k, sp)
		ra, err1 := reservationutil.GetRequiredReservationAffinity(pod)
		ems, err2 := apiext.GetExactMatchReservationSpec(pod.Annotations)
		if err1 != nil || err2 != nil {
			h.Obs("chk parse-error")
		} else {
			diag := &nodeDiagnosisState{nodeName: "n1", taintsUnmatchedReasons: map[string]int{}}
			node := &corev1.Node{ObjectMeta: metav1.ObjectMeta{Name: "n1"}}
			podReq := corev1.ResourceList{corev1.ResourceCPU: c05Q(0, podCPU)}
			var m bool
			if h.Guard(func() {
				m = checkReservationMatchedOrIgnored(pod, rInfo, diag, node, podReq, ra, ems, ra.GetName(), apiext.IsReservationIgnored(pod))
			}) {
				h.Obs("chk panic")
			} else {
				h.Obs("chk %d", vB(m))
				h.Tag(fmt.Sprintf("chk:%v", m))
				// ORACLE: a pod is only matched (not merely "ignored") to a reservation whose owner spec it satisfies
				if m && !ignored && !satisfied {
					h.Fail(ownCause(), "pod (labels %v, ownerReferences %s) matched to a reservation although it satisfies none of its %d owner entries (all of matchLabels AND all of matchExpressions; controller reference incl. an explicit controller flag present and equal; unparsable spec: %v); selectors:%s", pod.Labels, c05CtlRefsText(pod.OwnerReferences), len(spec), perr, selText)
				}
				if m && !ignored && satisfied {
					h.Nontrivial()
				}
			}
		}
		h.End()
	}
	h.Close("one pod (name/uid/namespace/labels varied; 0-2 ownerReferences with controller flag nil / true / false, uid, name, kind, apiVersion varied) against one reservation with 0-3 owner entries (object reference, " +
		"controller reference (name only / kind + flag + namespace / one of the pod's own ownerReferences with fields left empty or one field different and the flag nil / true / false: the 3x3 flag table), label selector: matchLabels only / In-expression only / empty / BOTH matchLabels and matchExpressions (In, NotIn, Exists, DoesNotExist, two expressions; satisfied or violated by the pod's app / tier labels) / unparsable (unknown operator or In without values, alone or next to matchLabels the pod carries)), unschedulable / terminating / tainted reservation, " +
		"pod with ignore label, reservation affinity by name / selector, tolerations, exact-match spec; non-trivial = matched through an owner entry; distinct by op lines")
}
