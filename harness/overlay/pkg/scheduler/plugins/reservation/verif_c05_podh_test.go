//go:build verif

package reservation

import (
	"encoding/json"
	"fmt"
	"sort"
	"strconv"
	"strings"
	"testing"

	corev1 "k8s.io/api/core/v1"
	"k8s.io/apimachinery/pkg/types"
	toolscache "k8s.io/client-go/tools/cache"
	"k8s.io/kubernetes/pkg/scheduler/framework"

	apiext "github.com/koordinator-sh/koordinator/apis/extension"
	schedulingv1alpha1 "github.com/koordinator-sh/koordinator/apis/scheduling/v1alpha1"
	reservationutil "github.com/koordinator-sh/koordinator/pkg/util/reservation"
)

// C05 harness "podh": the informer pod-handler path as a first-class stream.  One case = one history in which
// pods reach the reservation cache (almost) only through the real podEventHandler (OnAdd / OnUpdate / OnDelete,
// consistent informer world: add -> update* -> delete per pod, `old` = the last delivered object), interleaved
// with reservation events, Reserve-style assumes that are later confirmed by the bind event, and restricted
// fit queries.  The oracle keeps the informer's truth ("which pod is currently assigned to which reservation,
// with which requests") and evaluates the ledger and the restricted-fit clause against THAT, not against what
// the cache recorded.

type c05XPod struct {
	p                            c05Pod
	node, phase, annKind, annUid int
	label                        int  // an unrelated label; not part of the op line
	annNull                      bool // annKind 3 rendered as JSON `null` instead of {"name":..}
}

func (x *c05XPod) line() string {
	return vInts(append([]int64{int64(x.p.uid), int64(x.node), int64(x.phase), int64(x.annKind), int64(x.annUid), int64(vB(x.p.empty))}, x.p.req[:]...))
}

var c05PodPhases = []corev1.PodPhase{corev1.PodPending, corev1.PodRunning, corev1.PodSucceeded, corev1.PodFailed, corev1.PodUnknown}

func (x *c05XPod) build() *corev1.Pod {
	pod := x.p.build()
	pod.Spec.NodeName = c05NodeName(x.node)
	pod.Status.Phase = c05PodPhases[x.phase]
	pod.Labels = map[string]string{"unrelated": strconv.Itoa(x.label)}
	switch x.annKind {
	case 1:
		b, _ := json.Marshal(apiext.ReservationAllocated{Name: "r" + strconv.Itoa(x.annUid), UID: types.UID(strconv.Itoa(x.annUid))})
		pod.Annotations = map[string]string{apiext.AnnotationReservationAllocated: string(b)}
	case 2:
		pod.Annotations = map[string]string{apiext.AnnotationReservationAllocated: "{not json"}
	case 3:
		if x.annNull {
			pod.Annotations = map[string]string{apiext.AnnotationReservationAllocated: "null"}
		} else {
			pod.Annotations = map[string]string{apiext.AnnotationReservationAllocated: `{"name":"r` + strconv.Itoa(x.annUid) + `"}`}
		}
	}
	return pod
}

// the reservation the informer's object says the pod currently holds (0 = none): assigned to a node, not
// terminated, carrying a well-formed reservation-allocated annotation with a uid
func (x *c05XPod) holds() int {
	if x == nil || x.node == 0 || x.phase == 2 || x.phase == 3 || x.annKind != 1 {
		return 0
	}
	return x.annUid
}

// ORACLE on the informer's truth: Allocated == sum of the CURRENT requests of the pods currently assigned
func c05TruthCheck(h *vHarness, cache *reservationCache, world map[int]*c05XPod, assumed map[int]*c05Pod, tracked map[int]int) {
	for uid, ri := range cache.reservationInfos {
		u := c05UID(uid)
		var want [c05D]int64
		n := 0
		for pu, ru := range tracked {
			if ru != u {
				continue
			}
			n++
			var req [c05D]int64
			if a := assumed[pu]; a != nil {
				req = a.req
			} else if w := world[pu]; w != nil {
				req = w.p.req
			}
			for d := 0; d < c05D; d++ {
				if c05HasName(ri, d) && req[d] > 0 {
					want[d] += req[d]
				}
			}
		}
		for d := 0; d < c05D; d++ {
			if got := c05Val(d, ri.Allocated); got != want[d] {
				h.Fail("C05:ledger-drift", "reservation %d dim %d: Allocated=%d but the %d pods currently assigned to it (informer state) request %d", u, d, got, n, want[d])
			}
		}
		if n != len(ri.AssignedPods) {
			h.Tag("podh:assigned-set-differs")
		}
	}
}

func TestVerifC05PodHandler(t *testing.T) {
	h := vOpen("C05")
	if h == nil {
		t.Skip("VERIF_OUT not set")
	}
	n := h.N(1500, 40000)
	for idx := 0; idx < n; idx++ {
		r := h.Begin(idx)
		c05DeclReset(h) // round 9: registry of the pod objects declared in this case
		if r == nil {
			continue
		}
		cache := newReservationCache(nil)
		nm := newNominator(nil, nil)
		reh := &reservationEventHandler{cache: cache, rrNominator: nm}
		peh := &podEventHandler{cache: cache, nominator: nm}
		nR := r.Range(1, 3)
		objs := map[int]*c05RObj{}
		world := map[int]*c05XPod{}  // last object delivered by the pod informer
		assumed := map[int]*c05Pod{} // assumed by Reserve, bind event not yet delivered
		tracked := map[int]int{}     // TRUTH: pod -> reservation it is currently assigned to (and the cache could know)
		inCache := func(u int) bool { return cache.reservationInfos[types.UID(strconv.Itoa(u))] != nil }
		pickR := func() int {
			if r.Chance(1, 14) {
				return 9
			}
			return r.Range(1, nR)
		}
		rEvent := func(u int, forceAdd bool) {
			o := objs[u]
			kind := "eupd"
			if o == nil {
				o = c05GenRObj(r, u)
				if r.Chance(3, 4) {
					o.policy = 2
				}
				if r.Chance(3, 4) {
					o.once = false
				}
				o.node, o.phase = 1+u%2, 1
				objs[u] = o
				kind = "eadd"
			} else if !forceAdd {
				c05Mutate(r, o, true)
				if r.Chance(2, 3) { // keep most reservations usable
					o.phase, o.term, o.ownBad = 1, false, false
					if o.optKind == 2 {
						o.optKind, o.opt = 0, [c05D]bool{}
					}
				}
			}
			if kind == "eadd" || forceAdd {
				h.Op("eadd %s", o.line())
				h.Tag("op:eadd")
				reh.OnAdd(o.build(), false)
			} else {
				h.Op("eupd %s", o.line())
				h.Tag("op:eupd")
				reh.OnUpdate(o.build(), o.build())
			}
		}
		after := func() {
			c05DumpAndCheck(h, cache, objs)
			c05TruthCheck(h, cache, world, assumed, tracked)
		}
		// what the truth says after the informer delivered `nw` (nil = deleted) for pod pu
		settle := func(pu int, nw *c05XPod) {
			delete(assumed, pu)
			u := nw.holds()
			switch {
			case u != 0 && inCache(u):
				tracked[pu] = u
			case u != 0:
				delete(tracked, pu)
				h.Tag("podh:event-for-uncached-reservation") // the record is lost until the pod's next event (C19:rsv-early-pod-lost)
			default:
				delete(tracked, pu)
			}
		}

		late := 0
		if r.Chance(1, 3) {
			late = r.Range(1, nR) // this reservation's add event arrives after pod events that name it
			h.Tag("hist:late-reservation")
		}
		for u := 1; u <= nR; u++ {
			if u != late {
				rEvent(u, false)
				after()
			}
		}
		steps := r.Range(8, 30)
		if h.Tier == "thorough" && r.Chance(1, 4) {
			steps = r.Range(30, 70)
		}
		for s := 0; s < steps; s++ {
			k := r.Intn(100)
			switch {
			case k < 12: // reservation event
				u := r.Range(1, nR)
				if objs[u] != nil && inCache(u) && r.Chance(1, 6) {
					// removed from the cache (frameworkext's handler on Succeeded/Failed/delete), may come back
					h.Op("rdel %d %d", u, objs[u].node)
					h.Tag("op:rdel")
					cache.DeleteReservation(objs[u].build())
					for pu, ru := range tracked {
						if ru == u {
							delete(tracked, pu)
							delete(assumed, pu)
						}
					}
				} else {
					rEvent(u, objs[u] != nil && !inCache(u) && r.Bool())
				}
				after()
			case k < 30: // pod add event
				pu := r.Range(1, 5)
				if world[pu] != nil || assumed[pu] != nil {
					break
				}
				nw := &c05XPod{p: c05GenPod(r, pu), node: 1, phase: r.Intn(2)}
				switch r.Intn(12) {
				case 0:
					nw.node = 0 // not scheduled yet
				case 1:
					// assigned without a reservation
				case 2:
					nw.annKind, nw.annUid, nw.annNull = 2+r.Intn(2), pickR(), r.Bool()
				case 3:
					nw.phase, nw.annKind, nw.annUid = 2+r.Intn(2), 1, pickR() // already terminated
				default:
					nw.annKind, nw.annUid = 1, pickR()
				}
				h.Op("xadd %s", nw.line())
				h.Tag("op:xadd")
				peh.OnAdd(nw.build(), r.Bool())
				world[pu] = nw
				settle(pu, nw)
				after()
			case k < 66: // pod update event
				var live []int
				for pu := range world {
					live = append(live, pu)
				}
				if len(live) == 0 {
					break
				}
				sort.Ints(live)
				pu := live[r.Intn(len(live))]
				old := world[pu]
				nw := *old
				mut := r.Intn(14)
				if assumed[pu] != nil {
					mut = 100 // the bind event of an assumed pod
				} else if old.phase >= 2 && old.phase <= 3 {
					mut = 3 // a terminated pod only sees unrelated updates
				}
				switch mut {
				case 0, 1, 2: // in-place resize
					nw.p = c05GenPod(r, pu)
					h.Tag("xupd:resize")
				case 3: // unrelated label change
					nw.label++
					h.Tag("xupd:label")
				case 4: // status change
					nw.phase = []int{0, 1, 1, 4}[r.Intn(4)]
					h.Tag("xupd:status")
				case 5, 6: // moved to another reservation
					if old.annKind == 1 {
						nw.annUid = pickR()
						h.Tag("xupd:move")
					} else {
						nw.annKind, nw.annUid = 1, pickR()
						h.Tag("xupd:gain-annotation")
					}
				case 7:
					if old.annKind != 0 && r.Bool() {
						nw.annKind, nw.annUid = 0, 0
						h.Tag("xupd:lose-annotation")
					} else {
						nw.annKind, nw.annUid = 1, pickR()
						h.Tag("xupd:gain-annotation")
					}
				case 8: // bind
					if old.node == 0 {
						nw.node = 1
						if old.annKind == 0 && r.Chance(2, 3) {
							nw.annKind, nw.annUid = 1, pickR()
						}
						h.Tag("xupd:bind")
					} else {
						nw.label++
						h.Tag("xupd:label")
					}
				case 9, 10: // terminated (the annotation stays as it is)
					nw.phase = 2 + r.Intn(2)
					h.Tag("xupd:terminate")
				case 11:
					if r.Chance(1, 3) {
						nw.annKind, nw.annNull = 2+r.Intn(2), r.Bool()
						h.Tag("xupd:annotation-malformed")
					} else {
						nw.p = c05GenPod(r, pu)
						nw.phase = []int{0, 1}[r.Intn(2)]
						h.Tag("xupd:resize+status")
					}
				case 12:
					if r.Chance(1, 3) {
						nw.node = 0 // defensive path: a bound pod shows up unassigned
						h.Tag("xupd:unassign")
					} else {
						nw.label++
						h.Tag("xupd:label")
					}
				case 13: // the same object again (resync)
					h.Tag("xupd:resync")
				case 100:
					nw.node, nw.phase, nw.annKind, nw.annUid = 1, r.Intn(2), 1, tracked[pu]
					if nw.annUid == 0 { // the reservation left the cache meanwhile; the annotation still names it
						nw.annUid = r.Range(1, nR)
					}
					h.Tag("xupd:bind-of-assumed")
				}
				h.Op("xupd %s %s", old.line(), nw.line())
				h.Tag("op:xupd")
				peh.OnUpdate(old.build(), nw.build())
				if old.holds() != 0 && old.holds() == nw.holds() {
					h.Tag("xupd:same-reservation")
					if tracked[pu] == 0 && inCache(nw.holds()) {
						h.Tag("xupd:repairs-dropped-add")
					}
				}
				world[pu] = &nw
				settle(pu, &nw)
				after()
			case k < 74: // pod delete event
				var live []int
				for pu := range world {
					if assumed[pu] == nil {
						live = append(live, pu)
					}
				}
				if len(live) == 0 {
					break
				}
				sort.Ints(live)
				pu := live[r.Intn(len(live))]
				old := world[pu]
				objKind := []int{0, 0, 0, 1, 1, 2, 3}[r.Intn(7)]
				h.Op("xdel %d %s", objKind, old.line())
				h.Tag(fmt.Sprintf("op:xdel:%d", objKind))
				switch objKind {
				case 0:
					peh.OnDelete(old.build())
				case 1:
					peh.OnDelete(toolscache.DeletedFinalStateUnknown{Key: "default/p", Obj: old.build()})
				case 2:
					peh.OnDelete(toolscache.DeletedFinalStateUnknown{Key: "default/p", Obj: &corev1.Node{}})
				case 3:
					peh.OnDelete(&corev1.Node{})
				}
				if objKind <= 1 {
					delete(world, pu)
					settle(pu, nil)
				}
				after()
			case k < 80: // Reserve-style assume of a pod the informer has not seen bound yet
				pu := r.Range(1, 5)
				if assumed[pu] != nil || (world[pu] != nil && world[pu].node != 0) {
					break
				}
				var p c05Pod
				if world[pu] != nil {
					p = world[pu].p
				} else {
					p = c05GenPod(r, pu)
					world[pu] = &c05XPod{p: p, node: 0, phase: 0}
					h.Op("xadd %s", world[pu].line())
					peh.OnAdd(world[pu].build(), false)
					after()
				}
				ru := r.Range(1, nR)
				h.Op("padd %d 1 %s", ru, p.line())
				h.Tag("op:assume")
				e := cache.assumePod(types.UID(strconv.Itoa(ru)), p.build())
				code := 0
				if e != nil {
					code = 3
					if strings.Contains(e.Error(), "cannot find") {
						code = 1
					} else if strings.Contains(e.Error(), "terminating") {
						code = 2
					}
				}
				h.Obs("err %d", code)
				if code == 0 {
					assumed[pu] = &p
					tracked[pu] = ru
				}
				after()
				if code == 0 && r.Chance(1, 4) { // Unreserve
					h.Op("pdel %d 1 %d", ru, pu)
					h.Tag("op:forget")
					cache.forgetPods(types.UID(strconv.Itoa(ru)), []*corev1.Pod{p.build()})
					delete(assumed, pu)
					delete(tracked, pu)
					after()
				}
			default: // restricted fit query, steered to the remainder the TRUTH leaves
				ru := r.Range(1, nR)
				ri := cache.reservationInfos[types.UID(strconv.Itoa(ru))]
				var q, used [c05D]int64
				cnt := 0
				for pu, tu := range tracked {
					if tu != ru {
						continue
					}
					cnt++
					req := world[pu].p.req
					if a := assumed[pu]; a != nil {
						req = a.req
					}
					for d := 0; d < c05D; d++ {
						if req[d] > 0 {
							used[d] += req[d]
						}
					}
				}
				for d := 0; d < c05D; d++ {
					switch r.Intn(6) {
					case 0:
						q[d] = -1
					case 1:
						q[d] = 0
					case 2, 3, 4:
						if ri != nil {
							rem := c05Val(d, ri.Allocatable) - c05Val(d, ri.Reserved) - used[d]
							if rem > 0 {
								q[d] = rem + int64(r.Intn(2))
								break
							}
						}
						q[d] = c05Amount(r, d, false)
					default:
						q[d] = c05Amount(r, d, false)
					}
				}
				var pre [c05D]int64
				h.Op("fit %d %s %s %d", ru, vInts(q[:]), vInts(pre[:]), 0)
				h.Tag("op:fit")
				if ri == nil {
					h.Obs("fit none")
					break
				}
				podReq := c05List(q, -1)
				_, reasons := fitsNodeAndReservation(framework.NewResource(podReq), nil, nil, nil, nil, podReq, nil,
					&corev1.Pod{}, ri, nil, 1, r.Bool(), true, nil, nil)
				flags, unknown := c05FitFlags(reasons)
				if unknown {
					h.Obs("fit unknown-reason")
				} else {
					h.Obs("fit %d %d %d %d", vB(flags[0]), vB(flags[1]), vB(flags[2]), vB(flags[3]))
				}
				fitsAll := len(reasons) == 0
				h.Tag(fmt.Sprintf("fit:%v", fitsAll))
				if fitsAll && ri.Reservation != nil && ri.Reservation.Spec.AllocatePolicy == schedulingv1alpha1.ReservationAllocatePolicyRestricted {
					h.Nontrivial()
					alloc := ri.Reservation.Spec.Template.Spec.Containers[0].Resources.Requests
					if reservationutil.IsReservationAvailable(ri.Reservation) {
						alloc = ri.Reservation.Status.Allocatable
					}
					var inner corev1.ResourceList
					if nr, _ := apiext.GetNodeReservation(ri.Reservation.Annotations); nr != nil {
						inner = nr.Resources
					}
					for d := 0; d < c05D; d++ {
						if !c05HasName(ri, d) || q[d] <= 0 {
							continue
						}
						if used[d]+q[d] > c05Val(d, alloc)-c05Val(d, inner) {
							h.Fail("C05:fit-overcommit", "reservation %d dim %d: the %d pods currently assigned (informer state) request %d, + request %d > allocatable %d - reserved %d but the pod was let in",
								ru, d, cnt, used[d], q[d], c05Val(d, alloc), c05Val(d, inner))
						}
					}
					if mp, ok := alloc[corev1.ResourcePods]; ok && int64(cnt)+1 > mp.Value() {
						h.Fail("C05:fit-too-many-pods", "reservation %d: %d pods currently assigned (+1) exceed the reserved pods %d but the pod was let in", ru, cnt, mp.Value())
					}
				}
			}
			if late != 0 && objs[late] == nil && (s > steps/3 || r.Chance(1, 6)) {
				rEvent(late, false)
				after()
			}
		}
		if len(tracked) > 0 {
			h.Nontrivial()
		}
		h.Tag(fmt.Sprintf("steps:%d", steps/8*8))
		h.End()
	}
	h.Close("one history (8-30 events, thorough up to 70) over 1-3 reservations (mostly Restricted, re-usable, one of them possibly added late or removed and re-added) " +
		"and <=5 pods that reach the cache through the real podEventHandler in a consistent informer world (add -> update* -> delete, old = last delivered object): " +
		"adds (bound / unbound / terminated / malformed or uid-less annotation), updates (in-place resize, label, status, move to another reservation, gain / lose / " +
		"corrupt the annotation, bind, terminate, unassign, resync, update repairing a dropped add), deletes (*Pod, tombstone, foreign objects), Reserve-style assumes " +
		"confirmed by the bind event or forgotten, restricted fit queries steered to the remainder left by the informer's truth; " +
		"non-trivial = at the end at least one pod is assigned to a cached reservation or a restricted fit was admitted; distinct by op lines")
}
