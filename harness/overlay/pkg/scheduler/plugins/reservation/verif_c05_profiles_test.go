//go:build verif

package reservation

import (
	"context"
	"fmt"
	"sort"
	"strconv"
	"strings"
	"testing"
	"time"

	corev1 "k8s.io/api/core/v1"
	metav1 "k8s.io/apimachinery/pkg/apis/meta/v1"
	"k8s.io/apimachinery/pkg/types"
	"k8s.io/client-go/informers"
	kubefake "k8s.io/client-go/kubernetes/fake"
	"k8s.io/client-go/tools/cache"
	"k8s.io/client-go/tools/record"
	"k8s.io/kubernetes/pkg/scheduler"
	"k8s.io/kubernetes/pkg/scheduler/framework/plugins/defaultbinder"
	plfeature "k8s.io/kubernetes/pkg/scheduler/framework/plugins/feature"
	"k8s.io/kubernetes/pkg/scheduler/framework/plugins/nodeaffinity"
	"k8s.io/kubernetes/pkg/scheduler/framework/plugins/nodename"
	"k8s.io/kubernetes/pkg/scheduler/framework/plugins/queuesort"
	frameworkruntime "k8s.io/kubernetes/pkg/scheduler/framework/runtime"
	"k8s.io/kubernetes/pkg/scheduler/profile"
	schedulertesting "k8s.io/kubernetes/pkg/scheduler/testing/framework"

	koordfake "github.com/koordinator-sh/koordinator/pkg/client/clientset/versioned/fake"
	koordinatorinformers "github.com/koordinator-sh/koordinator/pkg/client/informers/externalversions"
	schedinformers "github.com/koordinator-sh/koordinator/pkg/client/informers/externalversions/scheduling"
	schedv1alpha1informers "github.com/koordinator-sh/koordinator/pkg/client/informers/externalversions/scheduling/v1alpha1"
	"github.com/koordinator-sh/koordinator/pkg/scheduler/apis/config"
	v1 "github.com/koordinator-sh/koordinator/pkg/scheduler/apis/config/v1"
	"github.com/koordinator-sh/koordinator/pkg/scheduler/frameworkext"
	"github.com/koordinator-sh/koordinator/pkg/scheduler/frameworkext/eventhandlers"
	frameworkexthelper "github.com/koordinator-sh/koordinator/pkg/scheduler/frameworkext/helper"
)

// C05 harness "profiles": a scheduler with 1..3 PROFILES, each with its own real Reservation plugin instance
// (created through frameworkext.PluginFactoryProxy, so that the framework extender registers the plugin's
// reservation cache under the profile name exactly as koord-scheduler does), plus the scheduler-wide reservation
// event handler installed by eventhandlers.AddScheduleEventHandler.  The Reservation informer handed to all of
// them only CAPTURES the registered handlers; one case = one history of informer events (add / update / delete,
// object and tombstone shapes) that the harness delivers to every captured handler (each profile's plugin handler
// and the global handler) in a drawn order, plus pod informer events (to every profile) and Reserve-time assumes
// (in one profile).  After every event the cache of EVERY profile is dumped.
// ORACLE (informer truth, per profile): nothing in reservationInfos / the three per-node indexes references a
// reservation that was deleted, ended (Available -> Succeeded/Failed) or rolled back (Available -> unassigned);
// every live reservation (node set, Available/Waiting) is listed under its node.

type c05CapInformer struct {
	cache.SharedIndexInformer
	handlers []cache.ResourceEventHandler
}

func (c *c05CapInformer) AddEventHandler(h cache.ResourceEventHandler) (cache.ResourceEventHandlerRegistration, error) {
	c.handlers = append(c.handlers, h)
	return c.SharedIndexInformer.AddEventHandler(h)
}

func (c *c05CapInformer) AddEventHandlerWithResyncPeriod(h cache.ResourceEventHandler, d time.Duration) (cache.ResourceEventHandlerRegistration, error) {
	c.handlers = append(c.handlers, h)
	return c.SharedIndexInformer.AddEventHandlerWithResyncPeriod(h, d)
}

func (c *c05CapInformer) AddEventHandlerWithOptions(h cache.ResourceEventHandler, o cache.HandlerOptions) (cache.ResourceEventHandlerRegistration, error) {
	c.handlers = append(c.handlers, h)
	return c.SharedIndexInformer.AddEventHandlerWithOptions(h, o)
}

type c05CapFactory struct {
	koordinatorinformers.SharedInformerFactory
	cap *c05CapInformer
}

func (f *c05CapFactory) Scheduling() schedinformers.Interface {
	return &c05CapGroup{Interface: f.SharedInformerFactory.Scheduling(), cap: f.cap}
}

type c05CapGroup struct {
	schedinformers.Interface
	cap *c05CapInformer
}

func (g *c05CapGroup) V1alpha1() schedv1alpha1informers.Interface {
	return &c05CapVersion{Interface: g.Interface.V1alpha1(), cap: g.cap}
}

type c05CapVersion struct {
	schedv1alpha1informers.Interface
	cap *c05CapInformer
}

func (v *c05CapVersion) Reservations() schedv1alpha1informers.ReservationInformer {
	return &c05CapRsv{ReservationInformer: v.Interface.Reservations(), cap: v.cap}
}

type c05CapRsv struct {
	schedv1alpha1informers.ReservationInformer
	cap *c05CapInformer
}

func (i *c05CapRsv) Informer() cache.SharedIndexInformer {
	if i.cap.SharedIndexInformer == nil {
		i.cap.SharedIndexInformer = i.ReservationInformer.Informer()
	}
	return i.cap
}

// several handlers delivered back to back, in registration order
type c05HandlerSeq []cache.ResourceEventHandler

func (q c05HandlerSeq) OnAdd(obj interface{}, isInInitialList bool) {
	for _, h := range q {
		h.OnAdd(obj, isInInitialList)
	}
}
func (q c05HandlerSeq) OnUpdate(oldObj, newObj interface{}) {
	for _, h := range q {
		h.OnUpdate(oldObj, newObj)
	}
}
func (q c05HandlerSeq) OnDelete(obj interface{}) {
	for _, h := range q {
		h.OnDelete(obj)
	}
}

type c05Profiles struct {
	plugins []*Plugin
	pods    []*podEventHandler
	// deliveries[0] = the scheduler-wide handler, deliveries[i] = the plugin handler of profile i (1-based)
	deliveries []cache.ResourceEventHandler
	others     []cache.ResourceEventHandler
}

func c05NewProfiles(t *testing.T, n int) *c05Profiles {
	frameworkexthelper.ResetRegistrations()
	frameworkext.ClearReservationCache()
	var v1args v1.ReservationArgs
	v1.SetDefaults_ReservationArgs(&v1args)
	var args config.ReservationArgs
	if err := v1.Convert_v1_ReservationArgs_To_config_ReservationArgs(&v1args, &args, nil); err != nil {
		t.Fatal(err)
	}
	koordClientSet := koordfake.NewSimpleClientset()
	capInf := &c05CapInformer{}
	koordFactory := &c05CapFactory{SharedInformerFactory: koordinatorinformers.NewSharedInformerFactory(koordClientSet, 0), cap: capInf}
	extenderFactory, err := frameworkext.NewFrameworkExtenderFactory(
		frameworkext.WithKoordinatorClientSet(koordClientSet),
		frameworkext.WithKoordinatorSharedInformerFactory(koordFactory),
	)
	if err != nil {
		t.Fatal(err)
	}
	adapter := frameworkext.NewFakeScheduler()
	extenderFactory.InitScheduler(adapter)
	proxyNew := frameworkext.PluginFactoryProxy(extenderFactory, New)

	cs := kubefake.NewSimpleClientset()
	informerFactory := informers.NewSharedInformerFactory(cs, 0)
	snapshot := newFakeSharedLister(nil, nil, false)
	eventRecorder := record.NewEventRecorderAdapter(record.NewFakeRecorder(1024))

	ps := &c05Profiles{}
	profiles := profile.Map{}
	for i := 1; i <= n; i++ {
		name := "koord-scheduler"
		if i > 1 {
			name = "koord-scheduler-" + strconv.Itoa(i)
		}
		registered := []schedulertesting.RegisterPluginFunc{
			schedulertesting.RegisterPreFilterPlugin(nodeaffinity.Name, frameworkruntime.FactoryAdapter(plfeature.Features{}, nodeaffinity.New)),
			schedulertesting.RegisterFilterPlugin(nodename.Name, frameworkruntime.FactoryAdapter(plfeature.Features{}, nodename.New)),
			schedulertesting.RegisterBindPlugin(defaultbinder.Name, defaultbinder.New),
			schedulertesting.RegisterQueueSortPlugin(queuesort.Name, queuesort.New),
		}
		fw, err := schedulertesting.NewFramework(context.TODO(), registered, name,
			frameworkruntime.WithClientSet(cs),
			frameworkruntime.WithInformerFactory(informerFactory),
			frameworkruntime.WithSnapshotSharedLister(snapshot),
			frameworkruntime.WithEventRecorder(eventRecorder),
		)
		if err != nil {
			t.Fatal(err)
		}
		fwExt := extenderFactory.NewFrameworkExtender(fw)
		fwExt.SetConfiguredPlugins(fw.ListPlugins())
		fwExt.SetPodNominator(NewPodNominator())
		plg, err := proxyNew(context.TODO(), &args, fw)
		if err != nil {
			t.Fatal(err)
		}
		pl := plg.(*Plugin)
		ps.plugins = append(ps.plugins, pl)
		ps.pods = append(ps.pods, &podEventHandler{cache: pl.reservationCache, nominator: pl.nominator})
		profiles[name] = fwExt
	}
	sched := &scheduler.Scheduler{Profiles: profiles}
	before := len(capInf.handlers)
	eventhandlers.AddScheduleEventHandler(sched, adapter, informerFactory, koordFactory, nil)
	if len(capInf.handlers) == before {
		t.Fatalf("AddScheduleEventHandler registered no reservation handler")
	}
	ps.deliveries = make([]cache.ResourceEventHandler, n+1)
	ps.deliveries[0] = c05HandlerSeq(capInf.handlers[before:]) // whatever it registers is "the scheduler-wide handler"
	for _, hd := range capInf.handlers[:before] {
		if reh, ok := hd.(*reservationEventHandler); ok {
			found := false
			for i, pl := range ps.plugins {
				if reh.cache == pl.reservationCache {
					ps.deliveries[i+1] = hd
					found = true
				}
			}
			if !found {
				t.Fatalf("a captured plugin handler belongs to no profile")
			}
			continue
		}
		ps.others = append(ps.others, hd)
	}
	for i, d := range ps.deliveries {
		if d == nil {
			t.Fatalf("no reservation handler captured for role %d", i)
		}
	}
	return ps
}

// the object handed to a handler: kind 0 = *Reservation, 1 = DeletedFinalStateUnknown{*Reservation},
// 2 = DeletedFinalStateUnknown{something else}, 3 = something else
func c05ObjOfKind(kind int, o *c05RObj, valid bool) interface{} {
	r := o.build()
	if valid {
		r.Spec.TTL = &metav1.Duration{Duration: time.Hour}
	}
	switch kind {
	case 0:
		return r
	case 1:
		return cache.DeletedFinalStateUnknown{Key: r.Name, Obj: r}
	case 2:
		return cache.DeletedFinalStateUnknown{Key: r.Name, Obj: &corev1.Pod{}}
	}
	return &corev1.Pod{}
}

func c05Terminated(o *c05RObj) bool { return o.phase == 3 || o.phase == 4 }
func c05Live(o *c05RObj) bool       { return o.node != 0 && (o.phase == 1 || o.phase == 2) }

func c05DumpProfiles(h *vHarness, ps *c05Profiles, must map[int]int, home map[int]int) {
	c05DumpProfilesLag(h, ps, must, home, 0)
}

// lagging = the profile (1-based) whose plugin listener has just processed events the scheduler-wide handler was already
// past (directed stream only); a dangling entry in THAT profile is the known class `...:lagging-listener`
func c05DumpProfilesLag(h *vHarness, ps *c05Profiles, must map[int]int, home map[int]int, lagging int) {
	for i, pl := range ps.plugins {
		h.Obs("prof %d", i+1)
		c := pl.reservationCache
		c05DumpAndCheck(h, c, nil)
		// ORACLE on the informer's truth, for THIS profile
		seen := map[int]string{}
		for u := range c.reservationInfos {
			seen[c05UID(u)] = "reservationInfos"
		}
		for k, ix := range map[string]map[string]map[types.UID]struct{}{"reservationsOnNode": c.reservationsOnNode,
			"matchableOnNode": c.matchableOnNode, "allocatedOnNode": c.allocatedOnNode} {
			for _, s := range ix {
				for u := range s {
					seen[c05UID(u)] = k
				}
			}
		}
		us := make([]int, 0, len(seen))
		for u := range seen {
			us = append(us, u)
		}
		sort.Ints(us)
		for _, u := range us {
			if must[u] == 0 && lagging == i+1 {
				h.Fail("C05:profile-index-dangling:lagging-listener", "profile %d of %d: %s references reservation %d, whose Delete the scheduler-wide handler had "+
					"already processed when this profile's plugin listener handled the earlier Update (and then its Delete)", i+1, len(ps.plugins), seen[u], u)
			} else if must[u] == 0 {
				h.Fail("C05:profile-index-dangling", "profile %d of %d: %s still references reservation %d, which was deleted / ended / rolled back (or never placed)",
					i+1, len(ps.plugins), seen[u], u)
			}
		}
		for u, m := range must {
			if m != 1 {
				continue
			}
			n := c05NodeName(home[u])
			if _, ok := c.reservationsOnNode[n][types.UID(strconv.Itoa(u))]; !ok {
				h.Fail("C05:profile-index-missing", "profile %d of %d: live reservation %d on %s is not listed in reservationsOnNode", i+1, len(ps.plugins), u, n)
			}
			if _, ok := c.reservationInfos[types.UID(strconv.Itoa(u))]; !ok {
				h.Fail("C05:profile-index-missing", "profile %d of %d: live reservation %d on %s is not in the cache", i+1, len(ps.plugins), u, n)
			}
		}
	}
}

// the informer's truth after an event, per uid: 0 = must be absent from every profile, 1 = must be listed, 2 = no demand
func c05MustAfterAdd(kind int, o *c05RObj) int {
	switch {
	case kind == 0 && c05Live(o):
		return 1
	case c05Live(o):
		return 2 // an add event the plugin handlers cannot read is as good as not delivered
	}
	return 0
}

func c05MustAfterUpd(must int, valid, unreadable bool, old, nw *c05RObj) (int, string) {
	switch {
	case unreadable:
		return must, "upd:unreadable-shape"
	case c05Live(nw):
		return 1, "upd:live"
	case valid && old.available():
		if c05Terminated(nw) {
			return 0, "upd:available->terminated"
		}
		return 0, "upd:available->unassigned"
	case must == 0:
		return 0, "upd:stays-absent"
	}
	return 2, "upd:no-demand"
}

const c05LagCases = 6

// DIRECTED stream (known finding C05:profile-index-dangling:lagging-listener): informer listeners are delivered to
// independently, so the plugin listener of one profile may be a whole event behind the scheduler-wide handler.
// add(r Available) to everyone; Update(r, still Available) and Delete(r) are processed by the scheduler-wide handler and
// by the other profiles' plugin listeners; only then the lagging plugin listener handles the Update and its Delete.
// k: one / two profiles, which profile lags, edit or resync update, object or tombstone delete.
func c05LaggingCase(t *testing.T, h *vHarness, r *vRand, k int) {
	np := 1 + k%2
	lag := 1
	if np == 2 {
		lag = 1 + (k/2)%2
	}
	delKind := k / 2 % 2
	if np == 2 {
		delKind = k / 4 % 2
	}
	ps := c05NewProfiles(t, np)
	h.Op("mnew %d", np)
	h.Tag(fmt.Sprintf("lagging:profiles:%d", np))
	home := map[int]int{1: 2}
	must := map[int]int{}
	o := c05GenRObj(r, 1)
	o.term = false
	o.node, o.phase = 2, 1
	ord := strconv.Itoa(np+1) + " " + vIntsI(r.Perm(np+1))
	h.Op("madd 0 1 %s %s", o.line(), ord)
	add := c05ObjOfKind(0, o, true)
	for _, tk := range strings.Fields(ord)[1:] {
		role, _ := strconv.Atoi(tk)
		ps.deliveries[role].OnAdd(add, false)
	}
	must[1] = c05MustAfterAdd(0, o)
	c05DumpProfiles(h, ps, must, home)

	nw := *o
	if k%3 != 0 { // an edit of the status (k%3 == 0: a resync with the identical object)
		nw.st[0] = c05Amount(r, 0, true)
	}
	oo, no := c05ObjOfKind(0, o, true), c05ObjOfKind(0, &nw, true)
	dobj := c05ObjOfKind(delKind, &nw, true)
	upd := func(role int) {
		h.Op("mto %d upd 0 0 1 %s %s", role, o.line(), nw.line())
		ps.deliveries[role].OnUpdate(oo, no)
	}
	del := func(role int) {
		h.Op("mto %d del %d %s", role, delKind, nw.line())
		ps.deliveries[role].OnDelete(dobj)
	}
	// the listeners that keep up: Update ...
	for role := 0; role <= np; role++ {
		if role != lag {
			upd(role)
			c05DumpProfiles(h, ps, must, home) // informer truth still: live (the Update), listed everywhere
		}
	}
	// ... and Delete
	must[1] = 0
	for role := 0; role <= np; role++ {
		if role != lag {
			del(role)
			c05DumpProfiles(h, ps, must, home) // the scheduler-wide handler (role 0, first) removed it from EVERY cache
		}
	}
	// the lagging plugin listener
	upd(lag)
	c05DumpProfilesLag(h, ps, must, home, lag)
	del(lag)
	c05DumpProfilesLag(h, ps, must, home, lag)
	h.Nontrivial()
}

func TestVerifC05Profiles(t *testing.T) {
	h := vOpen("C05")
	if h == nil {
		t.Skip("VERIF_OUT not set")
	}
	n := h.N(1200, 30000)
	for idx := 0; idx < n+c05LagCases; idx++ {
		r := h.Begin(idx)
		c05DeclReset(h) // round 9: registry of the pod objects declared in this case
		if r == nil {
			continue
		}
		if idx >= n {
			c05LaggingCase(t, h, r, idx-n)
			h.End()
			continue
		}
		np := []int{1, 2, 2, 2, 2, 3, 3}[r.Intn(7)]
		ps := c05NewProfiles(t, np)
		h.Op("mnew %d", np)
		h.Tag(fmt.Sprintf("profiles:%d", np))
		for _, o := range ps.others {
			h.Tag(fmt.Sprintf("other-handler:%T", o))
		}

		exists := map[int]bool{}
		cur := map[int]*c05RObj{} // the object the informer holds (the `old` of the next update)
		valid := map[int]bool{}
		home := map[int]int{}
		must := map[int]int{}   // informer truth per uid: 0 = must be absent from every profile, 1 = must be listed, 2 = no demand
		hpods := map[int]*c05HPod{}
		pods := map[int]*c05Pod{}
		getPod := func(u int) *c05Pod {
			if pods[u] == nil {
				p := c05GenPod(r, u)
				pods[u] = &p
			}
			return pods[u]
		}
		order := func() string {
			perm := r.Perm(np + 1)
			return strconv.Itoa(len(perm)) + " " + vIntsI(perm)
		}
		deliver := func(ord string, f func(hd cache.ResourceEventHandler)) {
			for _, hd := range ps.others {
				f(hd)
			}
			toks := strings.Fields(ord)[1:]
			for _, tk := range toks {
				role, _ := strconv.Atoi(tk)
				f(ps.deliveries[role])
			}
		}
		liveUIDs := func() []int {
			var us []int
			for u := 1; u <= 3; u++ {
				if exists[u] && c05Live(cur[u]) {
					us = append(us, u)
				}
			}
			return us
		}
		steps := r.Range(3, 16)
		deletions, muts := 0, 0
		for s := 0; s < steps; s++ {
			k := r.Intn(100)
			if s == 0 {
				k = 0
			}
			switch {
			case k < 62: // reservation informer event
				u := r.Range(1, 3)
				if !exists[u] && r.Chance(2, 3) { // mostly an event for a reservation the informer already holds
					var ex []int
					for x := 1; x <= 3; x++ {
						if exists[x] {
							ex = append(ex, x)
						}
					}
					if len(ex) > 0 {
						u = ex[r.Intn(len(ex))]
					}
				}
				if !exists[u] { // ADD
					o := c05GenRObj(r, u)
					if home[u] == 0 {
						home[u] = r.Range(1, 2)
					}
					valid[u] = !r.Chance(1, 12)
					switch x := r.Intn(20); {
					case x < 8: // created unscheduled
						o.node, o.phase = 0, 0
					case x < 17: // already placed (scheduled by another scheduler / listed at start-up)
						o.node, o.phase = home[u], 1
					case x < 18:
						o.node, o.phase = home[u], 2
					case x < 19:
						o.node, o.phase = home[u], []int{3, 4}[r.Intn(2)]
					default:
						o.node, o.phase = 0, 4
					}
					kind := 0
					if r.Chance(1, 15) {
						kind = r.Range(1, 3)
					}
					ord := order()
					h.Op("madd %d %d %s %s", kind, vB(valid[u]), o.line(), ord)
					h.Tag("op:madd")
					obj := c05ObjOfKind(kind, o, valid[u])
					deliver(ord, func(hd cache.ResourceEventHandler) { hd.OnAdd(obj, false) })
					exists[u], cur[u] = true, o
					must[u] = c05MustAfterAdd(kind, o)
				} else if r.Chance(1, 4) { // DELETE
					o := cur[u]
					kind := []int{0, 0, 0, 1, 1, 1, 1, 2, 3}[r.Intn(9)]
					ord := order()
					h.Op("mdel %d %s %s", kind, o.line(), ord)
					h.Tag(fmt.Sprintf("op:mdel-kind%d", kind))
					obj := c05ObjOfKind(kind, o, valid[u])
					deliver(ord, func(hd cache.ResourceEventHandler) { hd.OnDelete(obj) })
					if kind <= 1 {
						if must[u] != 0 {
							deletions++
							h.Tag("del:of-cached")
						}
						exists[u] = false
						delete(cur, u)
						must[u] = 0
					}
				} else { // UPDATE
					old := cur[u]
					nw := *old
					switch {
					case r.Chance(1, 10): // resync: identical object
					case old.node == 0 && !c05Terminated(old):
						switch x := r.Intn(10); {
						case x < 6:
							nw.node, nw.phase = home[u], 1
							nw.st = nw.tmpl
						case x < 7:
							nw.phase = 4
						default:
							c05Mutate(r, &nw, true)
							nw.phase = old.phase
						}
					case old.available():
						switch x := r.Intn(20); {
						case x < 5:
							nw.phase = []int{3, 4}[r.Intn(2)]
						case x < 7 && valid[u]: // binding rolled back (never for an object without TTL: the scheduler-wide update
							// handler returns before its case analysis for it, and the later Delete event carries no node name)
							nw.node, nw.phase = 0, 0
						case x < 8:
							nw.phase = 2
						default:
							c05Mutate(r, &nw, true)
						}
					case old.node != 0 && old.phase == 2:
						switch x := r.Intn(10); {
						case x < 5:
							nw.phase = 1
						case x < 7:
							nw.phase = 4
						default:
							c05Mutate(r, &nw, true)
							nw.phase = 2
						}
					default: // terminated (or Pending with a node)
						if r.Chance(1, 8) && old.node != 0 {
							nw.phase = 1
						} else {
							ph := nw.phase
							c05Mutate(r, &nw, true)
							nw.phase = ph
						}
					}
					ko, kn := 0, 0
					if r.Chance(1, 20) {
						ko = r.Range(1, 3)
					}
					if r.Chance(1, 20) {
						kn = r.Range(1, 3)
					}
					if ko != 0 || kn != 0 {
						// shapes an informer never delivers on update: the plugin handlers cannot read them, the global one
						// reads a tombstone; delivered as a resync (identical object) so that the informer's truth does not move
						nw = *old
					}
					ord := order()
					h.Op("mupd %d %d %d %s %s %s", ko, kn, vB(valid[u]), old.line(), nw.line(), ord)
					h.Tag("op:mupd")
					oo, no := c05ObjOfKind(ko, old, valid[u]), c05ObjOfKind(kn, &nw, valid[u])
					deliver(ord, func(hd cache.ResourceEventHandler) { hd.OnUpdate(oo, no) })
					cur[u] = &nw
					before := must[u]
					var tag string
					must[u], tag = c05MustAfterUpd(before, valid[u], ko != 0 || kn != 0, old, &nw)
					h.Tag(tag)
					if before != 0 && must[u] == 0 {
						deletions++
					}
				}
				c05DumpProfiles(h, ps, must, home)
				muts++
			case k < 84: // pod informer event, delivered to every profile's pod handler
				pu := r.Range(1, 4)
				p := getPod(pu)
				old := hpods[pu]
				nw := &c05HPod{p: *p, node: 1}
				if old != nil {
					*nw = *old
					nw.p = *p
				}
				switch r.Intn(6) {
				case 0:
					nw.node = 0
				case 1:
					nw.term = true
				case 2, 3, 4:
					if us := liveUIDs(); len(us) > 0 {
						nw.rAlloc = us[r.Intn(len(us))]
					} else {
						nw.rAlloc = r.Range(1, 3)
					}
					nw.node = 1
				case 5:
					nw.rAlloc = 0
				}
				kind := r.Intn(4)
				if old == nil {
					kind = 0
				}
				switch kind {
				case 0:
					h.Op("mhadd %s", nw.line())
					h.Tag("op:mhadd")
					for _, peh := range ps.pods {
						peh.OnAdd(nw.build(), false)
					}
					hpods[pu] = nw
				case 1, 2:
					h.Op("mhupd %s %s", old.line(), nw.line())
					h.Tag("op:mhupd")
					for _, peh := range ps.pods {
						peh.OnUpdate(old.build(), nw.build())
					}
					hpods[pu] = nw
				case 3:
					h.Op("mhdel %s", old.line())
					h.Tag("op:mhdel")
					for _, peh := range ps.pods {
						peh.OnDelete(old.build())
					}
					delete(hpods, pu)
				}
				c05DumpProfiles(h, ps, must, home)
				muts++
			default: // Reserve in ONE profile's scheduling cycle: the pod is assumed into that profile's cache only
				prof := r.Range(1, np)
				ru := r.Range(1, 3)
				if us := liveUIDs(); len(us) > 0 && r.Chance(5, 6) {
					ru = us[r.Intn(len(us))]
				}
				p := getPod(r.Range(1, 4))
				h.Op("massume %d %d %s", prof, ru, p.line())
				h.Tag("op:massume")
				e := ps.plugins[prof-1].reservationCache.assumePods(types.UID(strconv.Itoa(ru)), []*corev1.Pod{p.build()})
				code := 0
				if e != nil {
					code = 3
					if strings.Contains(e.Error(), "cannot find") {
						code = 1
					} else if strings.Contains(e.Error(), "terminating") {
						code = 2
					}
				}
				h.Obs("err %d", code)
				c05DumpProfiles(h, ps, must, home)
				muts++
			}
		}
		if np >= 2 && deletions > 0 {
			h.Nontrivial()
			h.Tag("hist:multi-profile-removal")
		}
		h.Tag(fmt.Sprintf("removals:%d", deletions))
		h.End()
	}
	h.Close("one history (3-16 events) against a scheduler with 1-3 profiles, each with a real Reservation plugin registered through " +
		"PluginFactoryProxy, plus the scheduler-wide handler of AddScheduleEventHandler: reservation informer events over <=3 uids on 2 nodes " +
		"(created unscheduled / placed / terminated; scheduled, edited, Waiting, ended, rolled back, resurrected, resync; deleted as object or " +
		"tombstone; unreadable object shapes; objects without TTL) delivered to every captured handler in a drawn order, pod informer events " +
		"to every profile, assumes in one profile; non-trivial = >=2 profiles and at least one cached reservation removed (deleted, ended or " +
		"rolled back); plus 6 directed cases (1 / 2 profiles) where one profile's plugin listener is a whole event behind the scheduler-wide " +
		"handler (known finding lagging-listener); distinct by op lines")
}

// the six lifecycle states of the exhaustive stream
func c05ProfState(o *c05RObj, st, node int) {
	switch st {
	case 0:
		o.node, o.phase = 0, 0
	case 1:
		o.node, o.phase = node, 1
	case 2:
		o.node, o.phase = node, 2
	case 3:
		o.node, o.phase = node, 3
	case 4:
		o.node, o.phase = node, 4
	default:
		o.node, o.phase = 0, 4
	}
}

// "profx" (thorough tier): EVERY lifecycle path add(a) -> update(a->b) -> update(b->c) -> delete(c) over the six states
// {unassigned, Available, Waiting, Succeeded, Failed, Failed-without-node} x {valid, no TTL} x {object, tombstone delete}
// x three listener orders (global first / plugins first / between the two plugins), two profiles; paths that clear the
// node name of anything but a valid Available reservation are skipped (see assumptions: nothing could clean them up).
func TestVerifC05ProfilesExhaustive(t *testing.T) {
	h := vOpen("C05")
	if h == nil {
		t.Skip("VERIF_OUT not set")
	}
	orders := []string{"3 0 1 2", "3 1 2 0", "3 1 0 2"}
	total := 6 * 6 * 6 * 2 * 2 * 3
	for idx := 0; idx < total; idx++ {
		x := idx
		a, b, c := x%6, x/6%6, x/36%6
		x /= 216
		valid, delKind, ord := x%2 == 0, x/2%2, orders[x/4%3]
		path := [][2]int{{a, b}, {b, c}}
		skip := false
		for _, tr := range path {
			clears := tr[0] >= 1 && tr[0] <= 4 && (tr[1] == 0 || tr[1] == 5)
			if clears && !(valid && tr[0] == 1) {
				skip = true
			}
		}
		if skip {
			continue
		}
		r := h.Begin(idx)
		c05DeclReset(h) // round 9: registry of the pod objects declared in this case
		if r == nil {
			continue
		}
		ps := c05NewProfiles(t, 2)
		h.Op("mnew 2")
		home := map[int]int{1: 2}
		must := map[int]int{}
		o := c05GenRObj(r, 1)
		o.term = false
		c05ProfState(o, a, 2)
		deliver := func(f func(hd cache.ResourceEventHandler)) {
			for _, tk := range strings.Fields(ord)[1:] {
				role, _ := strconv.Atoi(tk)
				f(ps.deliveries[role])
			}
		}
		h.Op("madd 0 %d %s %s", vB(valid), o.line(), ord)
		obj := c05ObjOfKind(0, o, valid)
		deliver(func(hd cache.ResourceEventHandler) { hd.OnAdd(obj, false) })
		must[1] = c05MustAfterAdd(0, o)
		c05DumpProfiles(h, ps, must, home)
		cur := o
		removed := false
		for _, tr := range path {
			nw := *cur
			c05ProfState(&nw, tr[1], 2)
			h.Op("mupd 0 0 %d %s %s %s", vB(valid), cur.line(), nw.line(), ord)
			oo, no := c05ObjOfKind(0, cur, valid), c05ObjOfKind(0, &nw, valid)
			deliver(func(hd cache.ResourceEventHandler) { hd.OnUpdate(oo, no) })
			before := must[1]
			var tag string
			must[1], tag = c05MustAfterUpd(before, valid, false, cur, &nw)
			h.Tag("profx:" + tag)
			if before != 0 && must[1] == 0 {
				removed = true
			}
			c05DumpProfiles(h, ps, must, home)
			cur = &nw
		}
		h.Op("mdel %d %s %s", delKind, cur.line(), ord)
		dobj := c05ObjOfKind(delKind, cur, valid)
		deliver(func(hd cache.ResourceEventHandler) { hd.OnDelete(dobj) })
		if must[1] != 0 {
			removed = true
		}
		must[1] = 0
		c05DumpProfiles(h, ps, must, home)
		if removed {
			h.Nontrivial()
		}
		h.Tag(fmt.Sprintf("profx:path:%d%d%d", a, b, c))
		h.End()
	}
	h.Close("exhaustive: every lifecycle path add(a) -> update(a->b) -> update(b->c) -> delete(c) over 6 states x {valid, no TTL} x " +
		"{object, tombstone} x 3 listener orders on two real profiles (paths clearing the node of anything but a valid Available " +
		"reservation skipped); non-trivial = a cached reservation had to be removed from both profiles")
}
