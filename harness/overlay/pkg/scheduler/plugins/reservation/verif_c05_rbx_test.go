//go:build verif

package reservation

import (
	"context"
	"fmt"
	"sort"
	"strconv"
	"testing"

	corev1 "k8s.io/api/core/v1"
	metav1 "k8s.io/apimachinery/pkg/apis/meta/v1"
	"k8s.io/apimachinery/pkg/types"
	"k8s.io/kubernetes/pkg/scheduler/framework"

	apiext "github.com/koordinator-sh/koordinator/apis/extension"
	reservationutil "github.com/koordinator-sh/koordinator/pkg/util/reservation"
)

// C05 harness "rbx" (thorough tier): EXHAUSTIVE small scope for the roll-back of a cycle through the real Plugin
// (Reserve / PreBind / Unreserve), on the plugin test fixture whose listers the harness fills.
//   part A, normal pod (192 cases): reservation {allocate-once, re-usable} x {Default, Restricted} x {empty, already
//     holding pod 2} x pod 3 {nominated to it, nothing nominated} x stage {none, Unreserve after Reserve, PreBind then
//     Unreserve, PreBind only} x pod lister at Unreserve {nothing, the unbound pod, the pod annotated on the node};
//     then the same pod is reserved AGAIN (retry from the queue, nominated to the reservation) and finally its
//     annotated informer object is deleted.
//   part B, reserve pod (the reservation's own cycle; 288 index values): first cycle on n1..n3 x {rolled back with the
//     object still listed, rolled back after the object was deleted, object deleted before Reserve, bound}; if still
//     pending a second cycle on n1..n3 x the same four; if bound, {kept, deleted}; next to a bystander reservation
//     that holds a pod on n1.
// ORACLE (harness' own books): every cached reservation holds exactly the pods assumed / assigned and not rolled
// back, and reports their summed requests; plus the index clauses of the dump after every step.
func TestVerifC05RollbackExhaustive(t *testing.T) {
	h := vOpen("C05")
	if h == nil {
		t.Skip("VERIF_OUT not set")
	}
	baseNode := &corev1.Node{ObjectMeta: metav1.ObjectMeta{Name: "n1"}}
	suit := newPluginTestSuitWith(t, nil, []*corev1.Node{baseNode})
	plg, err := suit.pluginFactory()
	if err != nil {
		t.Fatal(err)
	}
	pl := plg.(*Plugin)
	ctx := context.TODO()
	rIdx := suit.extenderFactory.KoordinatorSharedInformerFactory().Scheduling().V1alpha1().Reservations().Informer().GetIndexer()
	pIdx := suit.fw.SharedInformerFactory().Core().V1().Pods().Informer().GetIndexer()

	const nA, nB = 192, 288
	for idx := 0; idx < nA+nB; idx++ {
		r := h.Begin(idx)
		c05DeclReset(h) // round 9: registry of the pod objects declared in this case
		if r == nil {
			continue
		}
		pl.reservationCache = newReservationCache(pl.rLister)
		pl.nominator = newNominator(nil, nil)
		cache := pl.reservationCache
		reh := &reservationEventHandler{cache: cache, rrNominator: pl.nominator}
		peh := &podEventHandler{cache: cache, nominator: pl.nominator}
		_ = rIdx.Replace(nil, "")
		_ = pIdx.Replace(nil, "")
		objs := map[int]*c05RObj{}
		bound := map[int]int{}
		reqs := map[int][c05D]int64{}
		truth := func(when string) {
			us := make([]int, 0, len(cache.reservationInfos))
			for uid := range cache.reservationInfos {
				us = append(us, c05UID(uid))
			}
			sort.Ints(us)
			for _, u := range us {
				ri := cache.reservationInfos[types.UID(strconv.Itoa(u))]
				var ps []int
				for pu := range ri.AssignedPods {
					ps = append(ps, c05UID(pu))
				}
				sort.Ints(ps)
				for _, pu := range ps {
					if ru, ok := bound[pu]; !ok || ru != u {
						h.Fail("C05:pipeline-rollback-leak", "exhaustive, %s: reservation %d still holds pod %d which is not assumed / assigned to it any more; it reports cpu %d allocated",
							when, u, pu, c05Val(0, ri.Allocated))
					}
				}
				var sum [c05D]int64
				for pu, ru := range bound {
					if ru != u {
						continue
					}
					if _, ok := ri.AssignedPods[types.UID(strconv.Itoa(pu))]; !ok {
						h.Fail("C05:pipeline-assigned-lost", "exhaustive, %s: pod %d is assumed into reservation %d but the reservation does not hold it", when, pu, u)
					}
					for d := 0; d < c05D; d++ {
						if v := reqs[pu][d]; v > 0 && c05HasName(ri, d) {
							sum[d] += v
						}
					}
				}
				for d := 0; d < c05D; d++ {
					if got := c05Val(d, ri.Allocated); got != sum[d] {
						h.Fail("C05:pipeline-ledger-truth", "exhaustive, %s: reservation %d dim %d reports %d allocated but the pods assumed / assigned to it request %d", when, u, d, got, sum[d])
					}
				}
			}
		}
		event := func(p *c05PipeRsv, add bool) {
			_ = rIdx.Add(p.build())
			if add {
				h.Op("eadd %s", p.o.line())
				reh.OnAdd(p.build(), false)
			} else {
				h.Op("eupd %s", p.o.line())
				reh.OnUpdate(p.build(), p.build())
			}
			c05DumpAndCheck(h, cache, objs)
			truth("after a reservation event")
		}
		// reservation 1: available on n1, 4 cpu / 4Mi
		o1 := &c05RObj{uid: 1, node: 1, phase: 1, maxPods: -1, tmpl: [c05D]int64{4000, 4 << 20, -1}}
		o1.st = o1.tmpl
		p1 := &c05PipeRsv{o: o1, ownerApp: 1, zone: 1}
		objs[1] = o1
		assume := func(ru int, p c05Pod) {
			h.Op("padd %d 1 %s", ru, p.line())
			if e := cache.assumePod(types.UID(strconv.Itoa(ru)), p.build()); e != nil {
				h.Obs("err 3")
			} else {
				h.Obs("err 0")
				bound[p.uid], reqs[p.uid] = ru, p.req
			}
			c05DumpAndCheck(h, cache, objs)
			truth("after assumePod")
		}

		if idx < nA {
			// ---------------- part A: normal pod ----------------
			k := idx
			o1.once = k&1 == 1
			k >>= 1
			if k&1 == 1 {
				o1.policy = 2
			}
			k >>= 1
			preHeld := k&1 == 1
			k >>= 1
			nominated := k&1 == 1
			k >>= 1
			stage := k & 3
			k >>= 2
			apiPodKind := k // 0..2
			event(p1, true)
			if preHeld {
				assume(1, c05Pod{uid: 2, req: [c05D]int64{1000, 1 << 20, -1}})
			}
			pod := c05Pod{uid: 3, req: [c05D]int64{1500, 3 << 19, -1}}
			cycle := func(nominated bool, stage int, what string) bool {
				kpod := pod.build()
				kpod.Labels = map[string]string{"app": "a"}
				cs := framework.NewCycleState()
				cs.Write(stateKey, &stateData{})
				u := 0
				if nominated {
					u = 1
					pl.nominator.AddNominatedReservation(kpod, "n1", cache.reservationInfos[types.UID("1")])
				}
				h.Op("resp %d 0 %d %s", u, stage, pod.line())
				rc := 0
				if h.Guard(func() {
					rc = c05CodeOf(pl.Reserve(ctx, cs, kpod, "n1"))
					pl.nominator.DeleteNominatedReservePodOrReservation(kpod)
				}) {
					h.Obs("panic")
					return false
				}
				h.Obs("rsv %d", rc)
				if _, ok := cache.reservationInfos[types.UID("1")].AssignedPods[kpod.UID]; ok {
					bound[3], reqs[3] = 1, pod.req
					h.Nontrivial()
				}
				c05DumpAndCheck(h, cache, objs)
				truth("after Reserve (" + what + ")")
				preBound := false
				if (stage == 2 || stage == 3) && rc == 0 {
					pc, ann := 0, 0
					if h.Guard(func() {
						pc = c05CodeOf(pl.PreBind(ctx, cs, kpod, "n1"))
						if ra, err := apiext.GetReservationAllocated(kpod); err == nil && ra != nil {
							ann = c05UID(ra.UID)
						}
					}) {
						h.Obs("panic")
						return false
					}
					h.Obs("pb %d %d", pc, ann)
					preBound = true
				}
				if stage == 1 || stage == 2 {
					apiPod := pod.build()
					switch apiPodKind {
					case 1:
						_ = pIdx.Add(apiPod)
					case 2:
						apiPod.Spec.NodeName = "n1"
						apiPod.Annotations = kpod.Annotations
						_ = pIdx.Add(apiPod)
					}
					panicked := h.Guard(func() { pl.Unreserve(ctx, cs, kpod, "n1") })
					_ = pIdx.Delete(apiPod)
					if panicked {
						h.Obs("panic")
						return false
					}
					h.Obs("unr")
					c05DumpAndCheck(h, cache, objs)
					delete(bound, 3)
					truth(fmt.Sprintf("after Unreserve (%s, PreBind ran: %v)", what, preBound))
				}
				return true
			}
			h.Tag(fmt.Sprintf("rbx:A:stage=%d:nominated=%v:held=%v", stage, nominated, preHeld))
			if !cycle(nominated, stage, "first cycle") {
				h.End()
				continue
			}
			if _, still := bound[3]; !still { // the pod comes back from the queue and is nominated to the reservation
				if !cycle(true, 3, "retry") {
					h.End()
					continue
				}
			}
			if _, ok := bound[3]; ok { // the bound pod is deleted: its informer object carries the annotation
				hp := c05HPod{p: pod, node: 1, rAlloc: 1}
				h.Op("hdel %s", hp.line())
				peh.OnDelete(hp.build())
				delete(bound, 3)
				c05DumpAndCheck(h, cache, objs)
				truth("after the Delete event of the bound pod")
			}
			h.End()
			continue
		}

		// ---------------- part B: reserve pod ----------------
		k := idx - nA
		n1 := 1 + k%3
		k /= 3
		out1 := k % 4 // 0 rolled back, still listed; 1 rolled back, object deleted meanwhile; 2 object deleted before Reserve; 3 bound
		k /= 4
		n2 := 1 + k%3
		k /= 3
		out2 := k % 4
		k /= 4
		del := k == 1
		event(p1, true)
		assume(1, c05Pod{uid: 2, req: [c05D]int64{1000, 1 << 20, -1}})
		o5 := &c05RObj{uid: 5, maxPods: -1, tmpl: [c05D]int64{2000, 2 << 20, -1}, once: true}
		o5.st = o5.tmpl
		p5 := &c05PipeRsv{o: o5, ownerApp: 1, zone: 2}
		objs[5] = o5
		event(p5, true)
		// one reserve-pod cycle; returns (still pending, bound)
		rcycle := func(node, out int) (bool, bool) {
			robj := p5.build()
			rp := reservationutil.NewReservePod(robj)
			cs := framework.NewCycleState()
			cs.Write(stateKey, &stateData{})
			if out == 2 {
				_ = rIdx.Delete(robj)
			}
			h.Op("rres %d %d %s", vB(out != 2), node, o5.line())
			rc := 0
			if h.Guard(func() { rc = c05CodeOf(pl.Reserve(ctx, cs, rp, c05NodeName(node))) }) {
				h.Obs("panic")
				return false, false
			}
			h.Obs("rsv %d", rc)
			c05DumpAndCheck(h, cache, objs)
			truth("after Reserve of the reserve pod")
			if rc == 0 {
				if _, ok := cache.reservationsOnNode[c05NodeName(node)][types.UID("5")]; !ok {
					h.Fail("C05:index-missing", "exhaustive: the reserve pod of reservation 5 was reserved on n%d but reservationsOnNode[n%d] does not list it", node, node)
				}
			}
			if out == 3 && rc == 0 {
				o5.node, o5.phase = node, 1
				event(p5, false)
				return false, true
			}
			listed := out == 0
			if out == 1 {
				_ = rIdx.Delete(robj)
			}
			h.Op("runr %d %d 5 %s", vB(listed), node, o5.line())
			if h.Guard(func() { pl.Unreserve(ctx, cs, rp, c05NodeName(node)) }) {
				h.Obs("panic")
				return false, false
			}
			h.Obs("unr")
			c05DumpAndCheck(h, cache, objs)
			truth("after Unreserve of the reserve pod")
			h.Nontrivial()
			return listed, false
		}
		h.Tag(fmt.Sprintf("rbx:B:first=n%d/%d", n1, out1))
		pending, isBound := rcycle(n1, out1)
		if pending {
			h.Tag(fmt.Sprintf("rbx:B:second=n%d/%d", n2, out2))
			pending, isBound = rcycle(n2, out2)
		}
		if isBound && del {
			robj := p5.build()
			h.Op("edel %s", o5.line())
			reh.OnDelete(robj)
			c05DumpAndCheck(h, cache, objs)
			h.Op("rdel 5 %d", o5.node)
			cache.DeleteReservation(robj)
			_ = rIdx.Delete(robj)
			c05DumpAndCheck(h, cache, objs)
			truth("after the deletion of the reservation")
			h.Tag("rbx:B:deleted")
		}
		_ = pending
		h.End()
	}
	h.Close("exhaustive roll-back scope: part A 192 normal-pod cases (allocate-once x policy x already-held pod x nominated x roll-back stage x pod-lister shape, " +
		"then a retry of the same pod and the Delete event of the bound pod), part B 288 reserve-pod lifecycles (node x outcome of the first cycle, node x outcome of a " +
		"second cycle when still pending, kept / deleted when bound) next to a bystander reservation holding a pod; non-trivial = a pod was assumed or a reserve pod rolled back; " +
		"distinct by op lines")
}
