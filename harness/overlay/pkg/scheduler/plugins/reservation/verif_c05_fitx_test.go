//go:build verif

package reservation

import (
	"fmt"
	"strconv"
	"testing"

	corev1 "k8s.io/api/core/v1"
	"k8s.io/apimachinery/pkg/types"
	"k8s.io/kubernetes/pkg/scheduler/framework"
)

// C05 harness "fitx" (thorough tier): EXHAUSTIVE small scope for the restricted fit check.  Every
// (allocatable, allocated, preemptible, request) in {0..3}^4 for two dimensions at once (cpu in milli, memory in
// bytes) = 4^8 = 65536 questions: one case per (allocatable, allocated) pair of pairs (256 cases), each asking all
// 256 (preemptible, request) combinations against the real fitsNodeAndReservation on a Restricted reservation
// that went through the real event handler and holds one pod requesting `allocated`.
func TestVerifC05FitExhaustive(t *testing.T) {
	h := vOpen("C05")
	if h == nil {
		t.Skip("VERIF_OUT not set")
	}
	for idx := 0; idx < 256; idx++ {
		r := h.Begin(idx)
		c05DeclReset(h) // round 9: registry of the pod objects declared in this case
		if r == nil {
			continue
		}
		a := [2]int64{int64(idx & 3), int64(idx >> 2 & 3)}
		u := [2]int64{int64(idx >> 4 & 3), int64(idx >> 6 & 3)}
		cache := newReservationCache(nil)
		reh := &reservationEventHandler{cache: cache, rrNominator: newNominator(nil, nil)}
		o := &c05RObj{uid: 1, node: 1, phase: 1, policy: 2, maxPods: -1, tmpl: [c05D]int64{a[0], a[1], -1}}
		o.st = o.tmpl
		objs := map[int]*c05RObj{1: o}
		h.Op("eadd %s", o.line())
		reh.OnAdd(o.build(), false)
		c05DumpAndCheck(h, cache, objs)
		p := c05Pod{uid: 2, req: [c05D]int64{u[0], u[1], -1}}
		h.Op("padd 1 1 %s", p.line())
		if e := cache.assumePod(types.UID("1"), p.build()); e != nil {
			h.Obs("err 3")
		} else {
			h.Obs("err 0")
		}
		c05DumpAndCheck(h, cache, objs)
		ri := cache.reservationInfos[types.UID("1")]
		for k := 0; k < 256; k++ {
			pre := [c05D]int64{int64(k & 3), int64(k >> 2 & 3), 0}
			q := [c05D]int64{int64(k >> 4 & 3), int64(k >> 6 & 3), -1}
			h.Op("fit 1 %s %s 0", vInts(q[:]), vInts(pre[:]))
			podReq := c05List(q, -1)
			preRR := c05List(pre, 0)
			if len(preRR) == 0 && k%2 == 0 {
				preRR = nil
			}
			_, reasons := fitsNodeAndReservation(framework.NewResource(podReq), nil, nil, nil, nil, podReq, preRR,
				&corev1.Pod{}, ri, nil, 1, k%3 == 0, true, nil, nil)
			flags, unknown := c05FitFlags(reasons)
			if unknown {
				h.Obs("fit unknown-reason")
			} else {
				h.Obs("fit %d %d %d %d", vB(flags[0]), vB(flags[1]), vB(flags[2]), vB(flags[3]))
			}
			h.Tag("fitx:fits:" + strconv.FormatBool(len(reasons) == 0))
			if len(reasons) == 0 {
				h.Nontrivial()
				for d := 0; d < 2; d++ {
					if q[d] <= 0 {
						continue
					}
					used := u[d] - pre[d]
					if used < 0 {
						used = 0
					}
					if used+q[d] > a[d] {
						h.Fail("C05:fit-overcommit", "exhaustive: dim %d allocatable %d allocated %d preemptible %d request %d was let in", d, a[d], u[d], pre[d], q[d])
					}
				}
			}
		}
		h.Tag(fmt.Sprintf("fitx:alloc:%d%d", a[0], a[1]))
		h.End()
	}
	h.Close("exhaustive: all (allocatable, allocated, preemptible, request) in {0..3}^4 x 2 dimensions = 65536 fit questions, 256 per case, " +
		"on a Restricted reservation added through the event handler and holding one assumed pod; non-trivial = some question admitted")
}
