//go:build verif

package reservation

import (
	"fmt"
	"testing"

	corev1 "k8s.io/api/core/v1"
	metav1 "k8s.io/apimachinery/pkg/apis/meta/v1"
	"k8s.io/utils/ptr"

	schedulingv1alpha1 "github.com/koordinator-sh/koordinator/apis/scheduling/v1alpha1"
	"github.com/koordinator-sh/koordinator/pkg/scheduler/frameworkext"
	reservationutil "github.com/koordinator-sh/koordinator/pkg/util/reservation"
)

// C05 harness "selx": EXHAUSTIVE small scope for the owner label selector.  Every selector built from
//   matchLabels in {none, app=a, app=b, tier=stable, app=a+tier=canary}  x
//   matchExpressions = any list of 0, 1 or 2 of { tier NotIn [canary], tier In [stable], tier Exists, tier DoesNotExist,
//     app In [a b], app NotIn [a], tier Bogus [canary] (unknown operator), tier In [] (no values), tier Exists [canary]
//     (values on Exists) }                                                      = 5 x 91 = 455 selectors (one case each)
// against every pod with app in {absent, a, b} x tier in {absent, canary, stable} (9 pods per case, 4095 questions):
// the real ParseReservationOwnerMatchers + matcher on the selector alone (`sel`, model Model/C05Sel.lean), and
// MatchOwners of a ReservationInfo whose owner spec carries the selector, reached by the CREATE path
// (NewReservationInfo) and by the UPDATE path (a ReservationInfo created with the labels-only owner app=a, then
// UpdateReservation to the selector) (`own`).  ORACLE by the harness' own reading of a label selector.
func TestVerifC05SelectorExhaustive(t *testing.T) {
	h := vOpen("C05")
	if h == nil {
		t.Skip("VERIF_OUT not set")
	}
	lblSets := []map[string]string{nil, {"app": "a"}, {"app": "b"}, {"tier": "stable"}, {"app": "a", "tier": "canary"}}
	base := []metav1.LabelSelectorRequirement{
		{Key: "tier", Operator: metav1.LabelSelectorOpNotIn, Values: []string{"canary"}},
		{Key: "tier", Operator: metav1.LabelSelectorOpIn, Values: []string{"stable"}},
		{Key: "tier", Operator: metav1.LabelSelectorOpExists},
		{Key: "tier", Operator: metav1.LabelSelectorOpDoesNotExist},
		{Key: "app", Operator: metav1.LabelSelectorOpIn, Values: []string{"a", "b"}},
		{Key: "app", Operator: metav1.LabelSelectorOpNotIn, Values: []string{"a"}},
		{Key: "tier", Operator: "Bogus", Values: []string{"canary"}},
		{Key: "tier", Operator: metav1.LabelSelectorOpIn},
		{Key: "tier", Operator: metav1.LabelSelectorOpExists, Values: []string{"canary"}},
	}
	nb := len(base)
	var exprLists [][]metav1.LabelSelectorRequirement
	exprLists = append(exprLists, nil)
	for i := 0; i < nb; i++ {
		exprLists = append(exprLists, []metav1.LabelSelectorRequirement{base[i]})
	}
	for i := 0; i < nb; i++ {
		for j := 0; j < nb; j++ {
			exprLists = append(exprLists, []metav1.LabelSelectorRequirement{base[i], base[j]})
		}
	}
	mkRes := func(sel *metav1.LabelSelector) *schedulingv1alpha1.Reservation {
		return &schedulingv1alpha1.Reservation{
			ObjectMeta: metav1.ObjectMeta{Name: "r1", UID: "1"},
			Spec: schedulingv1alpha1.ReservationSpec{Owners: []schedulingv1alpha1.ReservationOwner{{LabelSelector: sel}}, AllocateOnce: ptr.To(false),
				Template: &corev1.PodTemplateSpec{Spec: corev1.PodSpec{Containers: []corev1.Container{{Name: "c",
					Resources: corev1.ResourceRequirements{Requests: corev1.ResourceList{corev1.ResourceCPU: c05Q(0, 1000)}}}}}}},
			Status: schedulingv1alpha1.ReservationStatus{NodeName: "n1", Phase: schedulingv1alpha1.ReservationAvailable,
				Allocatable: corev1.ResourceList{corev1.ResourceCPU: c05Q(0, 1000)}},
		}
	}
	total := len(lblSets) * len(exprLists)
	for idx := 0; idx < total; idx++ {
		r := h.Begin(idx)
		if r == nil {
			continue
		}
		sel := &metav1.LabelSelector{MatchLabels: lblSets[idx%len(lblSets)], MatchExpressions: exprLists[idx/len(lblSets)]}
		if len(sel.MatchLabels) == 0 && idx%2 == 1 {
			sel.MatchLabels = map[string]string{} // empty, not nil
		}
		created := frameworkext.NewReservationInfo(mkRes(sel))
		updated := frameworkext.NewReservationInfo(mkRes(&metav1.LabelSelector{MatchLabels: map[string]string{"app": "a"}}))
		updated.UpdateReservation(mkRes(sel))
		for pi := 0; pi < 9; pi++ {
			pod := &corev1.Pod{ObjectMeta: metav1.ObjectMeta{Name: "p1", Namespace: "default", UID: "7", Labels: map[string]string{}}}
			if a := []string{"", "a", "b"}[pi%3]; a != "" {
				pod.Labels["app"] = a
			}
			if tr := c05Tiers[pi/3]; tr != "" {
				pod.Labels["tier"] = tr
			}
			l, e, inv := c05EvalSelector(sel, pod.Labels)
			want := l && e && !inv

			h.Op("sel %s", c05SelLine(t, sel, pod.Labels))
			parsed, accepted := false, false
			var viaCreate, viaUpdate bool
			if h.Guard(func() {
				ms, err := reservationutil.ParseReservationOwnerMatchers([]schedulingv1alpha1.ReservationOwner{{LabelSelector: sel}})
				if err == nil && len(ms) == 1 {
					parsed, accepted = true, ms[0].Match(pod)
				}
				viaCreate = created.MatchOwners(pod)
				viaUpdate = updated.MatchOwners(pod)
			}) {
				h.Obs("sel panic")
				continue
			}
			h.Obs("sel %d %d", vB(parsed), vB(accepted))
			h.Op("own %d 1 1 1 %d", vB(inv), vB(l && e))
			h.Obs("own %d", vB(viaCreate))
			h.Op("own %d 1 1 1 %d", vB(inv), vB(l && e))
			h.Obs("own %d", vB(viaUpdate))
			h.Tag(fmt.Sprintf("selx:labels=%d:exprs=%d:invalid=%v:accepted=%v", len(sel.MatchLabels), len(sel.MatchExpressions), inv, viaCreate))
			for _, g := range []struct {
				path string
				got  bool
			}{{"the matcher of ParseReservationOwnerMatchers", accepted}, {"MatchOwners after NewReservationInfo", viaCreate}, {"MatchOwners after UpdateReservation", viaUpdate}} {
				if g.got && !want {
					fp := "C05:owner-mismatch"
					if l && len(sel.MatchLabels) > 0 && len(sel.MatchExpressions) > 0 {
						fp = "C05:owner-mismatch:labels-and-expressions"
					}
					h.Fail(fp, "exhaustive: %s accepts a pod with labels %v for the owner selector matchLabels %v matchExpressions %v (matchLabels hold: %v, matchExpressions hold: %v, invalid selector: %v)",
						g.path, pod.Labels, sel.MatchLabels, sel.MatchExpressions, l, e, inv)
				}
			}
			if viaCreate && want {
				h.Nontrivial()
			}
		}
		h.End()
	}
	h.Close("exhaustive: 5 matchLabels sets x every list of 0-2 expressions out of 9 (In / NotIn / Exists / DoesNotExist on tier and app, three invalid shapes) = 455 owner " +
		"selectors, each against the 9 pods app in {absent,a,b} x tier in {absent,canary,stable}: matcher alone, MatchOwners after create and after update; " +
		"non-trivial = some pod is accepted and satisfies the selector")
}
