//go:build verif

package reservation

import (
	"context"
	"fmt"
	"sort"
	"strconv"
	"strings"
	"testing"

	corev1 "k8s.io/api/core/v1"
	"k8s.io/apimachinery/pkg/api/resource"
	metav1 "k8s.io/apimachinery/pkg/apis/meta/v1"
	"k8s.io/apimachinery/pkg/types"
	"k8s.io/client-go/tools/cache"
	"k8s.io/kubernetes/pkg/scheduler/framework"
	"k8s.io/utils/ptr"

	apiext "github.com/koordinator-sh/koordinator/apis/extension"
	schedulingv1alpha1 "github.com/koordinator-sh/koordinator/apis/scheduling/v1alpha1"
	"github.com/koordinator-sh/koordinator/pkg/scheduler/frameworkext"
)

// C19, reservation part ("rsv").  One case = one history on a LIVE reservationCache driven through the
// real Plugin.Reserve / Plugin.PreBind and the real pod / reservation event handlers, then a cut: the
// surviving API objects (annotated pods incl. terminated ones, Reservation CRs with the status the
// reservation controller would have patched) are delivered to FRESH caches through the real handlers in
// shuffled order with duplicate adds and same-assignment updates.  Every op line starts with `rsv`.

const c19D = 3

var c19Names = [c19D]corev1.ResourceName{corev1.ResourceCPU, corev1.ResourceMemory, "example.com/foo"}

func c19Q(d int, v int64) resource.Quantity {
	switch d {
	case 0:
		return *resource.NewMilliQuantity(v, resource.DecimalSI)
	case 1:
		return *resource.NewQuantity(v, resource.BinarySI)
	}
	return *resource.NewQuantity(v, resource.DecimalSI)
}

func c19Val(d int, l corev1.ResourceList) int64 {
	q, ok := l[c19Names[d]]
	if !ok {
		return 0
	}
	if d == 0 {
		return q.MilliValue()
	}
	return q.Value()
}

func c19List(vals [c19D]int64) corev1.ResourceList {
	l := corev1.ResourceList{}
	for d := 0; d < c19D; d++ {
		if vals[d] >= 0 {
			l[c19Names[d]] = c19Q(d, vals[d])
		}
	}
	return l
}

func c19NodeName(n int) string { return "node-" + strconv.Itoa(n) }
func c19RUID(rid int) types.UID { return types.UID("ruid-" + strconv.Itoa(rid)) }
func c19RName(rid int) string   { return "resv-" + strconv.Itoa(rid) }
func c19PUID(pid int) types.UID { return types.UID("puid-" + strconv.Itoa(pid)) }

func c19RidOf(u types.UID) int {
	n, err := strconv.Atoi(strings.TrimPrefix(string(u), "ruid-"))
	if err != nil {
		return -1
	}
	return n
}

func c19PidOf(u types.UID) int {
	n, err := strconv.Atoi(strings.TrimPrefix(string(u), "puid-"))
	if err != nil {
		return -1
	}
	return n
}

type c19R struct {
	rid, node int
	once      bool
	decl      [c19D]int64 // -1 = dimension not reserved
}

type c19P struct {
	pid, rid int
	req      [c19D]int64 // -1 = dimension not requested
	term     bool
	obj      *corev1.Pod // the object as the API server holds it (annotated by the real PreBind)
}

// build the Reservation CR; owners = surviving assigned pods (what the reservation controller patches
// into status; the scheduler cache does not read it, it is there so the CR looks as in production).
func c19BuildR(o *c19R, owners []*c19P) *schedulingv1alpha1.Reservation {
	r := &schedulingv1alpha1.Reservation{
		ObjectMeta: metav1.ObjectMeta{Name: c19RName(o.rid), UID: c19RUID(o.rid)},
		Spec: schedulingv1alpha1.ReservationSpec{
			Template: &corev1.PodTemplateSpec{Spec: corev1.PodSpec{Containers: []corev1.Container{{Name: "c",
				Resources: corev1.ResourceRequirements{Requests: c19List(o.decl)}}}}},
			Owners:       []schedulingv1alpha1.ReservationOwner{{Object: &corev1.ObjectReference{Namespace: "default"}}},
			AllocateOnce: ptr.To(o.once),
		},
		Status: schedulingv1alpha1.ReservationStatus{NodeName: c19NodeName(o.node), Phase: schedulingv1alpha1.ReservationAvailable,
			Allocatable: c19List(o.decl)},
	}
	if len(owners) > 0 {
		var sum [c19D]int64
		for d := 0; d < c19D; d++ {
			sum[d] = -1
			if o.decl[d] >= 0 {
				sum[d] = 0
				for _, p := range owners {
					if p.req[d] > 0 {
						sum[d] += p.req[d]
					}
				}
			}
		}
		r.Status.Allocated = c19List(sum)
		for _, p := range owners {
			r.Status.CurrentOwners = append(r.Status.CurrentOwners, corev1.ObjectReference{Namespace: "default", Name: "pod-" + strconv.Itoa(p.pid), UID: c19PUID(p.pid)})
		}
	}
	return r
}

func c19BuildPod(pid int, req [c19D]int64) *corev1.Pod {
	return &corev1.Pod{
		ObjectMeta: metav1.ObjectMeta{Name: "pod-" + strconv.Itoa(pid), Namespace: "default", UID: c19PUID(pid)},
		Spec:       corev1.PodSpec{Containers: []corev1.Container{{Name: "c", Resources: corev1.ResourceRequirements{Requests: c19List(req)}}}},
		Status:     corev1.PodStatus{Phase: corev1.PodPending},
	}
}

// c19Handle: the only ExtendedHandle method Reserve/PreBind use is GetReservationNominator.
type c19Handle struct {
	frameworkext.ExtendedHandle
	nm frameworkext.ReservationNominator
}

func (h *c19Handle) GetReservationNominator() frameworkext.ReservationNominator { return h.nm }

type c19Side struct {
	cache *reservationCache
	ph    *podEventHandler
	rh    *reservationEventHandler
}

func c19NewSide() *c19Side {
	c := newReservationCache(nil)
	nm := newNominator(nil, nil)
	return &c19Side{cache: c, ph: &podEventHandler{cache: c, nominator: nm}, rh: &reservationEventHandler{cache: c, rrNominator: nm}}
}

// canonical integer summary of a cache: per reservation (sorted by id) Allocated per dimension
// (missing = 0), membership in reservationsOnNode / allocatedOnNode of its node, sorted assigned pod ids.
func c19Summary(c *reservationCache) []string {
	c.lock.RLock()
	defer c.lock.RUnlock()
	var rids []int
	byRid := map[int]*frameworkext.ReservationInfo{}
	for uid, ri := range c.reservationInfos {
		id := c19RidOf(uid)
		rids = append(rids, id)
		byRid[id] = ri
	}
	sort.Ints(rids)
	out := []string{fmt.Sprintf("s %d", len(rids))}
	for _, id := range rids {
		ri := byRid[id]
		var pids []int
		for u := range ri.AssignedPods {
			pids = append(pids, c19PidOf(u))
		}
		sort.Ints(pids)
		node := ri.GetNodeName()
		_, on := c.reservationsOnNode[node][ri.UID()]
		_, al := c.allocatedOnNode[node][ri.UID()]
		s := fmt.Sprintf("r %d %d %d %d %d %d", id, c19Val(0, ri.Allocated), c19Val(1, ri.Allocated), c19Val(2, ri.Allocated), vB(on), vB(al))
		if len(pids) > 0 {
			s += " " + vIntsI(pids)
		}
		out = append(out, s)
	}
	return out
}

func c19Amount(r *vRand, d int) int64 {
	switch d {
	case 0:
		return []int64{0, 250, 500, 1000, 1500, 2300, 4000}[r.Intn(7)]
	case 1:
		return []int64{0, 1 << 20, 3 << 28, 1 << 30, 5<<30 + 7, 1 << 33}[r.Intn(6)]
	}
	return int64(r.Intn(5))
}

// c19DelShape: the shape in which client-go hands a delete to the registered OnDelete: the object pointer, or
// (a delete missed during a relist) cache.DeletedFinalStateUnknown{Key: ns/name, Obj} BY VALUE, about 2 in 5.
// The Lean model does not distinguish the shapes: the same `rsv del` is expected to act identically.
func c19DelShape(h *vHarness, r *vRand, obj interface{}) interface{} {
	if !r.Chance(2, 5) {
		h.Tag("del:plain")
		return obj
	}
	h.Tag("del:tombstone")
	key, _ := cache.MetaNamespaceKeyFunc(obj)
	return cache.DeletedFinalStateUnknown{Key: key, Obj: obj}
}

// c19BadDelete delivers one degenerate delete event to BOTH registered entry points of a side (pod handler and
// reservation handler): a tombstone whose Obj is of a foreign type / nil / a typed nil pointer / the other
// informer's type, or a bare foreign object.  It must be ignored: no panic, the cache summary unchanged (no op
// line is sent to the model; the next observation block is compared against the model's unchanged state).
func c19BadDelete(h *vHarness, r *vRand, side *c19Side, key string) {
	var forPod, forResv interface{}
	v := r.Intn(5)
	switch v {
	case 0:
		forPod = cache.DeletedFinalStateUnknown{Key: key, Obj: &corev1.Node{ObjectMeta: metav1.ObjectMeta{Name: c19NodeName(1)}}}
		forResv = forPod
	case 1:
		forPod = cache.DeletedFinalStateUnknown{Key: key}
		forResv = forPod
	case 2:
		forPod = cache.DeletedFinalStateUnknown{Key: key, Obj: (*corev1.Pod)(nil)}
		forResv = cache.DeletedFinalStateUnknown{Key: key, Obj: (*schedulingv1alpha1.Reservation)(nil)}
	case 3:
		forPod = cache.DeletedFinalStateUnknown{Key: key, Obj: c19BuildR(&c19R{rid: 1, node: 1, decl: [c19D]int64{1000, 1 << 20, -1}}, nil)}
		pod := c19BuildPod(1, [c19D]int64{1000, -1, -1})
		pod.Spec.NodeName = c19NodeName(1)
		apiext.SetReservationAllocated(pod, c19BuildR(&c19R{rid: 1, node: 1}, nil))
		forResv = cache.DeletedFinalStateUnknown{Key: key, Obj: pod}
	default:
		forPod = &corev1.Node{ObjectMeta: metav1.ObjectMeta{Name: c19NodeName(1)}}
		forResv = nil
	}
	before := c19Summary(side.cache)
	panicked := h.Guard(func() {
		side.ph.OnDelete(forPod)
		side.rh.OnDelete(forResv)
	})
	after := c19Summary(side.cache)
	if panicked || strings.Join(before, "|") != strings.Join(after, "|") {
		h.Fail("C19:rsv-tombstone-badobj", "a delete event with a malformed payload (variant %d) panicked=%v or changed the cache: before %v after %v", v, panicked, before, after)
	}
	h.Tag("del:tombstone-badobj")
	h.Tag(fmt.Sprintf("del:tombstone-badobj:%d", v))
}

type c19Ev struct {
	kind int // 0 resv, 1 pod add, 2 pod same-assignment update, 3 pod add(unbound, annotated), 4 pod update(unbound -> bound)
	id   int
}

// delivery shapes of a surviving pod on the rebuild side (what a restarting / second scheduler can see)
var c19ShapeNames = []string{"add-bound", "add-unbound-then-update-bound", "add-early-then-object-then-resync"}

// c19RLine: the "r <rid> ..." line of a cache summary ("" = the cache does not know the reservation).
func c19RLine(sum []string, rid int) string {
	pre := fmt.Sprintf("r %d ", rid)
	for _, l := range sum {
		if strings.HasPrefix(l, pre) {
			return l
		}
	}
	return ""
}

func TestVerifC19Rsv(t *testing.T) {
	h := vOpen("C19")
	if h == nil {
		t.Skip("VERIF_OUT not set")
	}
	ctx := context.TODO()
	n := h.N(500, 10000)
	for idx := 0; idx < n; idx++ {
		r := h.Begin(idx)
		if r == nil {
			continue
		}
		early := r.Chance(1, 12) // separate stream: a pod event may precede its reservation's first event
		if early {
			h.Tag("stream:early-pod")
		} else {
			h.Tag("stream:ordered")
		}

		live := c19NewSide()
		pl := &Plugin{reservationCache: live.cache, nominator: live.ph.nominator}
		pl.handle = &c19Handle{nm: pl}

		// ---- hypothesis coverage (no oracle): the whole-cache theorem rsv_cache_rebuilt_eq_live (Proofs/C19ExtRsvCache.lean)
		// assumes `wfHist` of the LIVE history.  Its three clauses are evaluated here from the real objects of every
		// live event, independently of the model, and tagged hyp:wf-ok / hyp:wf-violated:<clause> per case.
		hypResv := map[types.UID]string{} // delivered Reservations: node|once|allocatable
		type hypPod struct {
			rid  types.UID
			term bool
		}
		hypPods := map[types.UID]hypPod{}
		hypViol := map[string]bool{}
		hypR := func(ro *schedulingv1alpha1.Reservation) {
			var decl [c19D]int64
			for d := 0; d < c19D; d++ {
				decl[d] = -1
				if _, ok := ro.Status.Allocatable[c19Names[d]]; ok {
					decl[d] = c19Val(d, ro.Status.Allocatable)
				}
			}
			spec := fmt.Sprintf("%s|%v|%v", ro.Status.NodeName, ro.Spec.AllocateOnce != nil && *ro.Spec.AllocateOnce, decl)
			if old, ok := hypResv[ro.UID]; ok && old != spec {
				hypViol["resv-update-changes-node-once-or-allocatable"] = true
			}
			hypResv[ro.UID] = spec
		}
		hypP := func(pod *corev1.Pod) {
			nw := hypPod{term: pod.Status.Phase == corev1.PodSucceeded || pod.Status.Phase == corev1.PodFailed}
			if ra, err := apiext.GetReservationAllocated(pod); err == nil && ra != nil {
				nw.rid = ra.UID
			}
			if _, known := hypResv[nw.rid]; !nw.term && nw.rid != "" && !known {
				hypViol["pod-names-reservation-not-yet-delivered"] = true
			}
			if old, had := hypPods[pod.UID]; nw.term && had && !(old.term || old.rid == "" || old.rid == nw.rid) {
				hypViol["terminating-update-changes-annotation"] = true
			}
			hypPods[pod.UID] = nw
		}

		// ---- reservations ----
		nR := r.Range(1, 3)
		nNodes := r.Range(1, 2)
		h.Tag(fmt.Sprintf("resvs:%d", nR))
		var resvs []*c19R
		emit := func(side *c19Side) {
			for _, l := range c19Summary(side.cache) {
				h.Obs("%s", l)
			}
		}
		for i := 1; i <= nR; i++ {
			o := &c19R{rid: i, node: r.Range(1, nNodes), once: r.Chance(1, 4)}
			nd := 0
			for d := 0; d < c19D; d++ {
				o.decl[d] = -1
				if r.Chance(3, 4) {
					o.decl[d] = c19Amount(r, d) * 4
					nd++
				}
			}
			if nd < 2 { // 2-3 declared dimensions
				o.decl[0], o.decl[1] = 8000, 1<<34
			}
			resvs = append(resvs, o)
			h.Op("rsv resv %d %d %d %s", o.rid, o.node, vB(o.once), vInts(o.decl[:]))
			ro := c19BuildR(o, nil)
			hypR(ro)
			live.rh.OnAdd(ro, false)
			emit(live)
		}

		// ---- live history ----
		pods := map[int]*c19P{} // API-server store (bound pods still existing)
		var order []int
		nextPid := 1
		assignedTo := func(rid int) []*c19P {
			var out []*c19P
			for _, pid := range order {
				if p := pods[pid]; p != nil && p.rid == rid && !p.term {
					out = append(out, p)
				}
			}
			return out
		}
		existing := func() []int {
			var out []int
			for _, pid := range order {
				if pods[pid] != nil {
					out = append(out, pid)
				}
			}
			return out
		}
		steps := r.Range(1, 10)
		h.Tag(fmt.Sprintf("steps:%d", (steps+2)/3*3))
		for s := 0; s < steps; s++ {
			if r.Chance(1, 12) { // degenerate delete event on the live side: ignored
				key := "default/pod-0"
				if ex := existing(); len(ex) > 0 && r.Bool() {
					key = "default/pod-" + strconv.Itoa(ex[r.Intn(len(ex))]) // an existing object's key does not make it valid
				} else if r.Bool() {
					key = c19RName(resvs[r.Intn(len(resvs))].rid)
				}
				c19BadDelete(h, r, live, key)
			}
			ex := existing()
			k := r.Intn(10)
			if len(ex) == 0 {
				k = 0
			}
			switch {
			case k <= 4: // assign a new pod through the real Reserve + PreBind
				var cand []*c19R
				for _, o := range resvs {
					if !(o.once && len(assignedTo(o.rid)) > 0) { // the scheduler only nominates matchable reservations
						cand = append(cand, o)
					}
				}
				if len(cand) == 0 {
					h.Tag("op:assign-none-matchable")
					continue
				}
				o := cand[r.Intn(len(cand))]
				p := &c19P{pid: nextPid, rid: o.rid}
				nextPid++
				anyReq := false
				for d := 0; d < c19D; d++ {
					p.req[d] = -1
					if r.Chance(3, 4) {
						p.req[d] = c19Amount(r, d)
						anyReq = true
					}
				}
				if !anyReq {
					h.Tag("pod:no-requests")
				}
				h.Op("rsv assign %d %d %s", p.pid, p.rid, vInts(p.req[:]))
				pod := c19BuildPod(p.pid, p.req)
				nodeName := c19NodeName(o.node)
				cs := framework.NewCycleState()
				cs.Write(stateKey, &stateData{})
				st, rt := 0, -1
				rInfo := live.cache.getReservationInfoByUID(c19RUID(o.rid))
				pl.nominator.AddNominatedReservation(pod, nodeName, rInfo)
				if status := pl.Reserve(ctx, cs, pod, nodeName); !status.IsSuccess() {
					st = 1
				} else if status := pl.PreBind(ctx, cs, pod, nodeName); !status.IsSuccess() {
					st = 2
				} else {
					// ORACLE (i): codec round trip of what PreBind persisted
					got, err := apiext.GetReservationAllocated(pod)
					rt = 1
					if err != nil || got == nil || got.Name != c19RName(o.rid) || got.UID != c19RUID(o.rid) {
						rt = 0
						h.Fail("C19:rsv-codec-roundtrip", "pod %d bound to reservation %d: read back %+v err=%v annotation=%q", p.pid, o.rid, got, err, pod.Annotations[apiext.AnnotationReservationAllocated])
					}
					// the binding itself (default binder): nodeName set, pod running
					pod.Spec.NodeName = nodeName
					pod.Status.Phase = corev1.PodRunning
					p.obj = pod
					pods[p.pid] = p
					order = append(order, p.pid)
					hypP(pod) // Reserve assumed the pod on the live cache: the history's first `pod` event for it
				}
				h.Obs("assign %d %d", st, rt)
				h.Tag("op:assign")
			case k == 5: // the informer reports the binding to the live cache (old: unbound, unannotated)
				pid := ex[r.Intn(len(ex))]
				p := pods[pid]
				h.Op("rsv bound %d", pid)
				old := c19BuildPod(p.pid, p.req)
				hypP(p.obj)
				live.ph.OnUpdate(old, p.obj)
				h.Tag("op:bound")
			case k == 6: // update event carrying the same assignment
				pid := ex[r.Intn(len(ex))]
				p := pods[pid]
				h.Op("rsv upd %d", pid)
				nw := p.obj.DeepCopy()
				nw.Labels = map[string]string{"touched": strconv.Itoa(s)}
				hypP(nw)
				live.ph.OnUpdate(p.obj, nw)
				p.obj = nw
				h.Tag("op:upd")
			case k == 7: // pod deleted
				pid := ex[r.Intn(len(ex))]
				p := pods[pid]
				h.Op("rsv del %d", pid)
				live.ph.OnDelete(c19DelShape(h, r, p.obj)) // the registered entry point (type switch), either shape
				delete(hypPods, p.obj.UID)
				delete(pods, pid)
				h.Tag("op:del")
			case k == 8: // pod terminates (object survives, phase Succeeded)
				pid := ex[r.Intn(len(ex))]
				p := pods[pid]
				h.Op("rsv term %d", pid)
				nw := p.obj.DeepCopy()
				nw.Status.Phase = corev1.PodSucceeded
				hypP(nw)
				live.ph.OnUpdate(p.obj, nw)
				p.obj = nw
				p.term = true
				h.Tag("op:term")
			default: // the reservation controller patched status; the informer delivers the update
				o := resvs[r.Intn(len(resvs))]
				h.Op("rsv rupd %d", o.rid)
				nwR := c19BuildR(o, assignedTo(o.rid))
				hypR(nwR)
				live.rh.OnUpdate(c19BuildR(o, nil), nwR)
				h.Tag("op:rupd")
			}
			emit(live)
		}

		// ---- cut: surviving objects ----
		surv := existing()
		alive := 0
		share := false
		for _, o := range resvs {
			k := len(assignedTo(o.rid))
			alive += k
			if k >= 2 {
				share = true
			}
		}
		if share {
			h.Nontrivial()
		}
		h.Tag(fmt.Sprintf("surviving-assigned:%d", alive))
		if len(hypViol) == 0 {
			h.Tag("hyp:wf-ok")
		}
		for c := range hypViol {
			h.Tag("hyp:wf-violated:" + c)
		}
		liveSum := c19Summary(live.cache)
		// the early-pod stream reports at most one failure per case, under its own fingerprint
		earlyFailed := false
		fail := func(fp, format string, a ...interface{}) {
			if early {
				if earlyFailed {
					return
				}
				earlyFailed = true
				fp = "C19:rsv-early-pod-lost"
			}
			h.Fail(fp, format, a...)
		}

		replay := func() []string {
			// delivery order
			var revs, pevs []c19Ev
			for _, i := range r.Perm(len(resvs)) {
				revs = append(revs, c19Ev{0, resvs[i].rid})
			}
			// delivery shape per surviving running pod (ordered stream only; the early-pod stream keeps plain adds):
			//   1: add(unbound, annotated) ... update(old = unbound, new = bound, SAME annotations)
			//   2: add(bound) BEFORE any Reservation event, the Reservation arrives, a no-change resync update follows
			shape := map[int]int{}
			var earlyAdds []c19Ev
			if !early {
				for _, pid := range surv {
					if pods[pid].term {
						continue
					}
					switch r.Intn(5) {
					case 0:
						shape[pid] = 1
					case 1:
						shape[pid] = 2
					}
				}
			}
			for _, pid := range surv {
				h.Tag("shape:" + c19ShapeNames[shape[pid]])
			}
			for _, i := range r.Perm(len(surv)) {
				switch shape[surv[i]] {
				case 1:
					pevs = append(pevs, c19Ev{3, surv[i]})
				case 2:
					earlyAdds = append(earlyAdds, c19Ev{1, surv[i]})
					pevs = append(pevs, c19Ev{2, surv[i]}) // the resync
				default:
					pevs = append(pevs, c19Ev{1, surv[i]})
				}
			}
			for _, pid := range surv {
				if shape[pid] == 1 { // the bind update arrives somewhere after the unbound add
					first := 0
					for i, ev := range pevs {
						if ev.id == pid && ev.kind != 0 {
							first = i
							break
						}
					}
					at := first + 1 + r.Intn(len(pevs)-first)
					pevs = append(pevs[:at], append([]c19Ev{{4, pid}}, pevs[at:]...)...)
				}
			}
			// duplicates / same-assignment updates / reservation re-deliveries, inserted at random later places
			extra := r.Intn(4)
			for e := 0; e < extra && len(surv) > 0; e++ {
				pid := surv[r.Intn(len(surv))]
				kind := 1 + r.Intn(2)
				// insert after the pod's first effective delivery so that it is a duplicate
				first := 0
				for i, ev := range pevs {
					if ev.id == pid && ev.kind != 0 {
						first = i
					}
				}
				at := first + 1 + r.Intn(len(pevs)-first)
				pevs = append(pevs[:at], append([]c19Ev{{kind, pid}}, pevs[at:]...)...)
				h.Tag([]string{"", "inject:dup-add", "inject:same-update"}[kind])
			}
			if r.Chance(1, 2) {
				o := resvs[r.Intn(len(resvs))]
				at := r.Intn(len(pevs) + 1)
				pevs = append(pevs[:at], append([]c19Ev{{0, o.rid}}, pevs[at:]...)...)
				h.Tag("inject:resv-redelivery")
			}
			evs := append(append(earlyAdds, revs...), pevs...)
			if early {
				p := r.Perm(len(evs))
				sh := make([]c19Ev, len(evs))
				for i, j := range p {
					sh[i] = evs[j]
				}
				evs = sh
			}
			fresh := c19NewSide()
			h.Op("rsv fresh")
			seen := map[int]bool{}
			badAt := -1
			if r.Chance(1, 8) {
				badAt = r.Intn(len(evs))
			}
			for i, ev := range evs {
				if i == badAt { // degenerate delete event on a fresh side: ignored
					c19BadDelete(h, r, fresh, c19RName(resvs[0].rid))
				}
				switch ev.kind {
				case 0:
					var o *c19R
					for _, x := range resvs {
						if x.rid == ev.id {
							o = x
						}
					}
					h.Op("rsv ev resv %d", ev.id)
					seen[ev.id] = true
					fresh.rh.OnAdd(c19BuildR(o, assignedTo(o.rid)), true)
				case 1:
					p := pods[ev.id]
					if !seen[p.rid] {
						h.Tag("order:pod-before-reservation")
					}
					h.Op("rsv ev add %d", ev.id)
					fresh.ph.OnAdd(p.obj.DeepCopy(), true)
				case 2:
					p := pods[ev.id]
					if !seen[p.rid] {
						h.Tag("order:pod-before-reservation")
					}
					h.Op("rsv ev upd %d", ev.id)
					nw := p.obj.DeepCopy()
					nw.ResourceVersion = "2"
					fresh.ph.OnUpdate(p.obj.DeepCopy(), nw)
				case 3, 4:
					p := pods[ev.id]
					unbound := p.obj.DeepCopy()
					unbound.Spec.NodeName = ""
					unbound.Status.Phase = corev1.PodPending
					if ev.kind == 3 {
						h.Op("rsv ev addu %d", ev.id)
						fresh.ph.OnAdd(unbound, true)
					} else {
						h.Op("rsv ev bind %d", ev.id)
						nw := p.obj.DeepCopy()
						nw.ResourceVersion = "2"
						fresh.ph.OnUpdate(unbound, nw)
					}
				}
			}
			h.Op("rsv end")
			sum := c19Summary(fresh.cache)
			for _, l := range sum {
				h.Obs("%s", l)
			}
			// ORACLE (ii-b): per pod, whatever its delivery shape: the rebuilt cache records it exactly as the live one
			// (member of AssignedPods of its reservation; that reservation's Allocated and index flags agree)
			for _, pid := range surv {
				if shape[pid] == 0 {
					continue // plain adds: covered by ORACLE (ii) under its own fingerprint
				}
				p := pods[pid]
				_, inLive := live.cache.reservationInfos[c19RUID(p.rid)].AssignedPods[c19PUID(pid)]
				inFresh := false
				if ri := fresh.cache.reservationInfos[c19RUID(p.rid)]; ri != nil {
					_, inFresh = ri.AssignedPods[c19PUID(pid)]
				}
				if ll, lf := c19RLine(liveSum, p.rid), c19RLine(sum, p.rid); inLive != inFresh || ll != lf {
					h.Fail("C19:rsv-rebuilt-differs:"+c19ShapeNames[shape[pid]], "pod %d (reservation %d) delivered as %s: assigned live=%v rebuilt=%v; live %q rebuilt %q",
						pid, p.rid, c19ShapeNames[shape[pid]], inLive, inFresh, ll, lf)
				}
			}
			// ORACLE (iii): nothing taken before the restart is free after it (independent recomputation)
			for _, o := range resvs {
				ri := fresh.cache.reservationInfos[c19RUID(o.rid)]
				for d := 0; d < c19D; d++ {
					if o.decl[d] < 0 {
						continue
					}
					var want int64
					for _, p := range assignedTo(o.rid) {
						if p.req[d] > 0 {
							want += p.req[d]
						}
					}
					var got int64
					if ri != nil {
						got = c19Val(d, ri.Allocated)
					}
					if got < want {
						fail("C19:rsv-taken-considered-free", "reservation %d dimension %d: fresh cache holds %d allocated, surviving assigned pods request %d", o.rid, d, got, want)
					}
				}
			}
			return sum
		}

		s1 := replay()
		// ORACLE (ii): rebuilt state equals the live state
		if strings.Join(s1, "|") != strings.Join(liveSum, "|") {
			fail("C19:rsv-rebuilt-differs", "live %v fresh %v", liveSum, s1)
		}
		s2 := replay()
		// ORACLE (iv): a second delivery order gives the same state
		if strings.Join(s1, "|") != strings.Join(s2, "|") {
			fail("C19:rsv-order-dependent", "first %v second %v", s1, s2)
		}
		// ---- epilogue, event shapes of a RESERVATION delete (the Lean model has no Reservation-delete op, so no op
		// line / observation is emitted): two fresh caches rebuilt identically from the survivors (reservations
		// first) get the delete of the same Reservation through the registered reservationEventHandler.OnDelete, one
		// as the object pointer, one as DeletedFinalStateUnknown by value.  ORACLE (v): both end in the same state.
		{
			o := resvs[r.Intn(len(resvs))]
			build := func() *c19Side {
				sd := c19NewSide()
				for _, x := range resvs {
					sd.rh.OnAdd(c19BuildR(x, assignedTo(x.rid)), true)
				}
				for _, pid := range surv {
					sd.ph.OnAdd(pods[pid].obj.DeepCopy(), true)
				}
				return sd
			}
			a, b := build(), build()
			before := strings.Join(c19Summary(a.cache), "|")
			robj := c19BuildR(o, assignedTo(o.rid))
			key, _ := cache.MetaNamespaceKeyFunc(robj)
			panicked := h.Guard(func() {
				a.rh.OnDelete(robj.DeepCopy())
				b.rh.OnDelete(cache.DeletedFinalStateUnknown{Key: key, Obj: robj.DeepCopy()})
			})
			sa, sb := strings.Join(c19Summary(a.cache), "|"), strings.Join(c19Summary(b.cache), "|")
			if panicked || sa != sb {
				h.Fail("C19:rsv-resv-delete-shape", "delete of reservation %d: panicked=%v, delivered as object -> %s, delivered as tombstone -> %s", o.rid, panicked, sa, sb)
			}
			if sa != before {
				h.Tag("rdel:both-shapes:visible")
			} else {
				h.Tag("rdel:both-shapes:invisible")
			}
		}
		h.End()
	}
	h.Close("1-3 Available reservations on 1-2 nodes (2-3 of cpu/memory/example.com/foo reserved, 1/4 allocate-once); history of 1-10 ops on a live cache " +
		"(assign via real Plugin.Reserve+PreBind, bound/same-assignment update/delete/terminate pod events, reservation status updates); cut; surviving " +
		"objects replayed twice into fresh caches in shuffled order with duplicate adds, same-assignment updates and reservation re-deliveries " +
		"(1/12 of the cases: fully shuffled, pods may precede their reservation). Rebuild shapes per surviving running pod in the ordered stream (1/5 each, else plain add): add(unbound,annotated) then update(unbound->bound, same annotations); add before every Reservation event, then the Reservation, then a no-change resync update. Event shapes: pod deletes go to the registered podEventHandler.OnDelete, 2/5 as " +
		"cache.DeletedFinalStateUnknown{Key,Obj} by value; 1/12 of the steps and 1/8 of the replays add a degenerate delete (tombstone with foreign-type / nil / typed-nil / " +
		"other-informer Obj, bare foreign object) to both handlers that must change nothing; epilogue: one Reservation delete delivered to twin rebuilt caches as object and as tombstone must agree. " +
		"Non-trivial: >=2 surviving pods share a reservation.")
}
