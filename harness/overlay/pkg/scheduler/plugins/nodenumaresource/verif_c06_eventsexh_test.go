//go:build verif

package nodenumaresource

import (
	"encoding/json"
	"os"
	"testing"

	nrtv1alpha1 "github.com/k8stopologyawareschedwg/noderesourcetopology-api/pkg/apis/topology/v1alpha1"
	corev1 "k8s.io/api/core/v1"
	metav1 "k8s.io/apimachinery/pkg/apis/meta/v1"
	"k8s.io/client-go/tools/cache"

	"github.com/koordinator-sh/koordinator/apis/extension"
	schedulingconfig "github.com/koordinator-sh/koordinator/pkg/scheduler/apis/config"
)

// C06 `eventsexh` harness (thorough tier only): EXHAUSTIVE small scope for the informer glue.  One cluster node with 4
// CPUs (1 x 1 x 2 x 2), one pod at a time (a new UID after a delete), ALL applicable sequences of exactly 6 events over
// the 14-letter alphabet
//   topology -> valid | -> present without cpu topology | deleted;  add pending | add assigned+annotated;
//   update: heartbeat | bind (nodeName + annotation) | phase Succeeded | allocation changed | nodeName cleared |
//   annotation broken | object replaced by one with another UID (assigned, annotated);  delete | delete by tombstone
// through the real handlers, ledger dumped after every event; same oracle clauses as the random `events` harness
// (recorded => live; fresh => recorded with its allocation; settled => ledger == the live pod's allocation).

const c06EvExhDepth = 6
const c06EvExhAlphabet = 14

func TestVerifC06EventsExh(t *testing.T) {
	h := vOpen("C06")
	if h == nil {
		t.Skip("VERIF_OUT not set")
	}
	if h.Tier != "thorough" && os.Getenv("VERIF_C06_EXH") == "" {
		h.Close("exhaustive small-scope informer-event stream: thorough tier only")
		return
	}
	total := 1
	for i := 0; i < c06EvExhDepth; i++ {
		total *= c06EvExhAlphabet
	}
	idx := 0
	for code := 0; code < total; code++ {
		var seq [c06EvExhDepth]int
		x := code
		for i := 0; i < c06EvExhDepth; i++ {
			seq[i] = x % c06EvExhAlphabet
			x /= c06EvExhAlphabet
		}
		if !c06EvExhApplicable(seq) {
			continue
		}
		if h.Begin(idx) != nil {
			c06EvExhCase(h, seq)
			h.End()
		}
		idx++
	}
	h.Extra("exhaustive_sequences", idx)
	h.Close("EXHAUSTIVE: every applicable sequence of 6 informer events over a 14-letter alphabet (3 topology events, 2 pod adds, 7 pod " +
		"updates incl. a changed UID, 2 deletes) for one node with 4 CPUs and one pod at a time; non-trivial = the pod was recorded at some point and " +
		"left the ledger again")
}

// c06EvExhApplicable replays the sequence on the abstract state only.
func c06EvExhApplicable(seq [c06EvExhDepth]int) bool {
	exists, node, term, ann, topo := false, 0, false, false, 0
	for _, e := range seq {
		switch e {
		case 0:
			if topo == 2 {
				return false
			}
			topo = 2
		case 1:
			if topo == 1 {
				return false
			}
			topo = 1
		case 2:
			if topo == 0 {
				return false
			}
			topo = 0
		case 3:
			if exists {
				return false
			}
			exists, node, term, ann = true, 0, false, false
		case 4:
			if exists {
				return false
			}
			exists, node, term, ann = true, 1, false, true
		case 5:
			if !exists {
				return false
			}
		case 6:
			if !exists || node != 0 || term {
				return false
			}
			node, ann = 1, true
		case 7:
			if !exists || term || node == 0 {
				return false
			}
			term = true
		case 8:
			if !exists || term || !ann {
				return false
			}
		case 9:
			if !exists || node == 0 {
				return false
			}
			node = 0
		case 10, 11:
			if !exists {
				return false
			}
			exists = false
		case 12:
			if !exists || term || !ann {
				return false
			}
			ann = false
		case 13:
			if !exists {
				return false
			}
			node, term, ann = 1, false, true
		}
	}
	return true
}

func c06EvExhCase(h *vHarness, seq [c06EvExhDepth]int) {
	raw := buildCPUTopologyForTest(1, 1, 2, 2)
	nrt := func(withTopology bool) *nrtv1alpha1.NodeResourceTopology {
		o := &nrtv1alpha1.NodeResourceTopology{ObjectMeta: metav1.ObjectMeta{Name: c06EvNodeName(1), Annotations: map[string]string{}}}
		if withTopology {
			ct := extension.CPUTopology{}
			for c := 0; c < 4; c++ {
				info := raw.CPUDetails[c]
				ct.Detail = append(ct.Detail, extension.CPUInfo{ID: int32(c), Core: int32(info.CoreID), Socket: int32(info.SocketID), Node: int32(info.NodeID)})
			}
			data, _ := json.Marshal(ct)
			o.Annotations[extension.AnnotationNodeCPUTopology] = string(data)
		}
		o.Zones = append(o.Zones, nrtv1alpha1.Zone{Name: "node-0", Type: "Node", Resources: nrtv1alpha1.ResourceInfoList{
			{Name: "cpu", Capacity: c06Milli(4000), Allocatable: c06Milli(4000)}}})
		return o
	}
	tom := NewTopologyOptionsManager()
	rm := &resourceManager{numaAllocateStrategy: schedulingconfig.NUMAMostAllocated, topologyOptionsManager: tom, nodeAllocations: map[string]*NodeAllocation{}}
	podH := &podEventHandler{resourceManager: rm}
	topoH := &nodeResourceTopologyEventHandler{topologyManager: tom}
	var lastNRT *nrtv1alpha1.NodeResourceTopology
	topo := 0
	var cur *c06EvPod // the pod's latest delivered object, nil = none exists
	nextUID := 1
	gone := map[int]bool{}
	wasRecorded, leftAgain := false, false

	deliver := func(p *c06EvPod, old *c06EvPod) {
		if old != nil {
			p.everOK, p.unsure = old.everOK, old.unsure
			if old.annOK() && !p.annOK() {
				p.unsure = true
			}
		}
		if p.annOK() {
			p.everOK = true
			if p.node != 0 && topo == 2 {
				p.unsure = false
			}
		}
		p.fresh = p.live() && p.annOK() && topo == 2
		cur = p
	}
	check := func(step int) {
		led := c06EvDump(h, rm, 1, true)
		c06EvDump(h, rm, 2, true)
		for u, sh := range led.pods {
			wasRecorded = true
			switch {
			case gone[u]:
				h.Fail("C06:events-deleted-pod-in-ledger", "step %d: pod %d (cpus %v) is still recorded after its delete event", step, u, sh.cpus)
			case cur == nil || cur.uid != u:
				h.Fail("C06:events-unknown-pod-in-ledger", "step %d: pod %d recorded but never delivered", step, u)
			case cur.terminal() && cur.node != 0:
				h.Fail("C06:events-terminated-pod-in-ledger", "step %d: pod %d (cpus %v) is still recorded, its phase is %s", step, u, sh.cpus, cur.phase)
			case cur.node != 1:
				h.Fail("C06:events-pod-on-wrong-node", "step %d: pod %d recorded on node 1, its spec.nodeName is node %d", step, u, cur.node)
			}
		}
		if wasRecorded && len(led.pods) == 0 {
			leftAgain = true
		}
		if cur != nil && cur.fresh {
			sh := led.pods[cur.uid]
			if sh == nil {
				h.Fail("C06:events-live-pod-missing", "step %d: live pod %d (cpus %v; topology valid and annotation well-formed at its latest event) is not in the ledger", step, cur.uid, cur.cpus)
			} else if !c06SameInts(sh.cpus, cur.cpus) {
				h.Fail("C06:events-live-pod-wrong-allocation", "step %d: pod %d recorded with cpus %v, its annotation says %v", step, cur.uid, sh.cpus, cur.cpus)
			}
		}
		settled := topo == 2 && (cur == nil || !cur.live() || (!cur.unsure && (!cur.everOK || cur.fresh)))
		if settled {
			want := map[int]int{}
			if cur != nil && cur.fresh {
				for _, c := range cur.cpus {
					want[c] = 1
				}
			}
			for c := 0; c < 4; c++ {
				if led.refs[c] != want[c] {
					h.Fail("C06:events-ledger-ne-live", "step %d: ledger refs %v differ from the live pod's CPUs %v", step, led.refs, want)
					break
				}
			}
		}
	}
	annotate := func(p *c06EvPod, cpus []int) {
		p.st, p.sp, p.cs, p.excl, p.cpus = 2, 2, 0, 2, cpus
		p.cells = map[int]int64{0: int64(len(cpus)) * 1000}
	}
	for step, e := range seq {
		switch e {
		case 0, 1:
			to := 2 - e
			h.Op("etopo 1 1 %d", map[int]int{2: 4, 1: 0}[to])
			o := nrt(to == 2)
			if lastNRT == nil {
				topoH.OnAdd(o, false)
			} else {
				topoH.OnUpdate(lastNRT, o)
			}
			lastNRT, topo = o, to
		case 2:
			h.Op("etopo 1 0 0")
			topoH.OnDelete(lastNRT)
			lastNRT, topo = nil, 0
		case 3, 4:
			p := &c06EvPod{uid: nextUID, phase: corev1.PodPending, cells: map[int]int64{}}
			nextUID++
			if e == 4 {
				p.node, p.phase = 1, corev1.PodRunning
				annotate(p, []int{0, 1})
			}
			h.Op("epod 0 %s", p.snap())
			podH.OnAdd(p.object(), true)
			deliver(p, nil)
		case 5, 6, 7, 8, 9, 12:
			old := cur
			nw := old.clone()
			nw.beat++
			switch e {
			case 6:
				nw.node = 1
				annotate(nw, []int{0, 1})
			case 7:
				nw.phase = corev1.PodSucceeded
			case 8:
				if len(old.cpus) > 0 && old.cpus[0] == 0 {
					annotate(nw, []int{2, 3})
				} else {
					annotate(nw, []int{0, 1})
				}
			case 9:
				nw.node = 0
			case 12:
				nw.st = 1
			}
			h.Op("epod 1 %s %s", old.snap(), nw.snap())
			podH.OnUpdate(old.object(), nw.object())
			deliver(nw, old)
		case 13:
			old := cur
			p := &c06EvPod{uid: nextUID, node: 1, phase: corev1.PodRunning, cells: map[int]int64{}}
			nextUID++
			if len(old.cpus) > 0 && old.cpus[0] == 0 {
				annotate(p, []int{2, 3})
			} else {
				annotate(p, []int{0, 1})
			}
			h.Op("epod 1 %s %s", old.snap(), p.snap())
			podH.OnUpdate(old.object(), p.object())
			gone[old.uid] = true
			deliver(p, nil)
		case 10, 11:
			h.Op("epod %d %s", e-8, cur.snap())
			var obj interface{} = cur.object()
			if e == 11 {
				obj = cache.DeletedFinalStateUnknown{Key: "d/p", Obj: cur.object()}
			}
			podH.OnDelete(obj)
			gone[cur.uid] = true
			cur = nil
		}
		check(step)
	}
	if wasRecorded && leftAgain {
		h.Nontrivial()
	}
}
