//go:build verif

package nodenumaresource

import (
	"encoding/json"
	"fmt"
	"sort"
	"strconv"
	"strings"
	"testing"

	nrtv1alpha1 "github.com/k8stopologyawareschedwg/noderesourcetopology-api/pkg/apis/topology/v1alpha1"
	corev1 "k8s.io/api/core/v1"
	metav1 "k8s.io/apimachinery/pkg/apis/meta/v1"
	"k8s.io/apimachinery/pkg/types"

	"github.com/koordinator-sh/koordinator/apis/extension"
	schedulingconfig "github.com/koordinator-sh/koordinator/pkg/scheduler/apis/config"
	"github.com/koordinator-sh/koordinator/pkg/scheduler/frameworkext/topologymanager"
	"github.com/koordinator-sh/koordinator/pkg/util/bitmask"
	"github.com/koordinator-sh/koordinator/pkg/util/cpuset"
)

// C06 `nrt` harness (extension round 4): NodeResourceTopology object -> TopologyOptions -> NUMA allocation.
//
// A generated NodeResourceTopology report (cpu-topology annotation with ANY NUMA node ids - contiguous or not -, zones
// "node-<id>", kubelet reserved CPUs, node-reservation CPUs, static pods' cpusets, system-QoS cpuset) is delivered to the
// REAL nodeResourceTopologyEventHandler (OnAdd, sometimes an earlier report first and then OnUpdate); the stored
// TopologyOptions are read back and compared with the model's NewTopologyOptions (op `nrt`).  On top of the stored options
// pods are allocated through the plugin's getResourceOptions -> tryAllocateFromNode -> resourceManager.Allocate with NUMA
// hints that name the high ids, and committed with resourceManager.Update.
//
// Oracle (from the report and the returned allocations only):
//   N1  zone cpu capacity = reported amount - 1000 x (reserved CPUs whose NUMA id is the zone's id)   C06:zone-capacity-wrong
//   N2  the reserved set = union of the four sources (system QoS only when exclusive)                 C06:reserved-set-wrong
//   N3  per NUMA node, the live pods' cpu amounts never exceed N1's capacity                         C06:numa-over-capacity
//   N4  an allocation never takes more from a node than capacity minus what live pods hold           C06:numa-over-free
//   N5  bound CPUs are never reserved ones and never held by another live pod                        C06:cpuset-not-free

type c06NrtCPU struct{ id, core, node, socket int }

func c06CPUSetString(ids []int) string { return cpuset.NewCPUSet(ids...).String() }

func TestVerifC06Nrt(t *testing.T) {
	h := vOpen("C06")
	if h == nil {
		t.Skip("VERIF_OUT not set")
	}
	n := h.N(700, 20000)
	for idx := 0; idx < n; idx++ {
		r := h.Begin(idx)
		if r == nil {
			continue
		}
		c06NrtCase(h, r, idx)
		h.End()
	}
	h.Close("one case = one NodeResourceTopology report (1-2 sockets x 1-3 NUMA nodes x 1-4 cores x 1-2 threads, <= 32 CPUs; NUMA ids " +
		"contiguous or {0,2} / {1,3} / {0,1,4} / random increasing; reserved CPUs from up to four sources placed on every node; zones " +
		"reporting all CPUs of their id, fewer, zero or no cpu at all; malformed zones) through the real event handler, then 3-8 " +
		"Allocate+Update / Release steps with hints over all id subsets. non-trivial = non-contiguous ids, a reserved CPU on the " +
		"highest id and at least one pod allocated with a hint naming it")
}

func c06NrtCase(h *vHarness, r *vRand, idx int) {
	var dims [4]int
	for {
		dims = [4]int{r.Range(1, 2), r.Range(1, 3), r.Range(1, 4), r.Range(1, 2)}
		if c := dims[0] * dims[1] * dims[2] * dims[3]; c >= 2 && c <= 32 {
			break
		}
	}
	numNodes := dims[0] * dims[1]
	// NUMA ids: strictly increasing, any
	var ids []int
	switch k := r.Intn(6); {
	case k < 2 || numNodes == 1 && k < 4:
		for i := 0; i < numNodes; i++ {
			ids = append(ids, i)
		}
	case numNodes == 2 && k == 2:
		ids = []int{0, 2}
	case numNodes == 2 && k == 3:
		ids = []int{1, 3}
	case numNodes == 3 && k < 4:
		ids = []int{0, 1, 4}
	default:
		next := 0
		for i := 0; i < numNodes; i++ {
			next += r.Intn(3)
			ids = append(ids, next)
			next++
		}
	}
	contiguous := true
	for i, id := range ids {
		if id != i {
			contiguous = false
		}
	}
	var cpus []c06NrtCPU
	{
		cpuID, coreID, nodeIdx := 0, 0, 0
		for s := 0; s < dims[0]; s++ {
			for nd := 0; nd < dims[1]; nd++ {
				for c := 0; c < dims[2]; c++ {
					for p := 0; p < dims[3]; p++ {
						cpus = append(cpus, c06NrtCPU{id: cpuID, core: coreID, node: ids[nodeIdx], socket: s})
						cpuID++
					}
					coreID++
				}
				nodeIdx++
			}
		}
	}
	onNode := map[int][]int{}
	nodeOf := map[int]int{}
	var all []int
	for _, c := range cpus {
		onNode[c.node] = append(onNode[c.node], c.id)
		nodeOf[c.id] = c.node
		all = append(all, c.id)
	}
	hi := ids[len(ids)-1]
	// reserved CPU sources.  Each source picks a few CPUs; usually at least one source reserves on the highest id.
	pickOn := func(nd int, k int) []int {
		var out []int
		p := r.Perm(len(onNode[nd]))
		for i := 0; i < k && i < len(p); i++ {
			out = append(out, onNode[nd][p[i]])
		}
		sort.Ints(out)
		return out
	}
	src := func() []int {
		var out []int
		switch r.Intn(4) {
		case 0:
			return nil
		case 1:
			out = pickOn(hi, r.Range(1, 2))
		case 2:
			out = pickOn(ids[r.Intn(len(ids))], r.Range(1, 2))
		default:
			out = c06Subset(r, all, 1, 6)
		}
		if r.Chance(1, 12) {
			out = append(out, len(all)+r.Range(1, 3)) // an id the topology does not list
		}
		return out
	}
	kubelet, nodeRsv, sysq := src(), src(), src()
	sysqPresent := r.Chance(2, 3)
	if !sysqPresent {
		sysq = nil
	}
	sysqExclMode := r.Intn(3) // 0 absent (default true), 1 true, 2 false
	sysqExcl := sysqExclMode != 2
	type static struct {
		managed, hasUID, ok bool
		cpus                []int
	}
	var statics []static
	for i, k := 0, r.Intn(3); i < k; i++ {
		statics = append(statics, static{managed: !r.Chance(1, 4), hasUID: !r.Chance(1, 6), ok: !r.Chance(1, 8), cpus: src()})
	}
	// zones
	type zone struct {
		kind, id int
		cpu, mem int64 // -1 = not listed
	}
	var zones []zone
	memPer := int64(r.Range(4, 32)) * 1000
	for _, id := range ids {
		z := zone{kind: 0, id: id, cpu: int64(len(onNode[id])) * 1000, mem: memPer}
		switch r.Intn(12) {
		case 0:
			z.cpu = -1
		case 1:
			z.cpu = 0
		case 2:
			z.cpu = int64(r.Range(1, len(onNode[id]))) * 1000
		case 3:
			z.mem = -1
		}
		zones = append(zones, z)
	}
	if r.Chance(1, 6) {
		zones = append(zones, zone{kind: r.Range(1, 3), id: r.Intn(6), cpu: 4000, mem: memPer})
	}
	if r.Chance(1, 3) { // the report lists zones in any order
		p := r.Perm(len(zones))
		sh := make([]zone, len(zones))
		for i, j := range p {
			sh[i] = zones[j]
		}
		zones = sh
	}

	build := func(withReserved bool) *nrtv1alpha1.NodeResourceTopology {
		o := &nrtv1alpha1.NodeResourceTopology{ObjectMeta: metav1.ObjectMeta{Name: c06Node, Annotations: map[string]string{}}}
		ct := extension.CPUTopology{}
		for _, c := range cpus {
			ct.Detail = append(ct.Detail, extension.CPUInfo{ID: int32(c.id), Core: int32(c.core), Socket: int32(c.socket), Node: int32(c.node)})
		}
		data, _ := json.Marshal(ct)
		o.Annotations[extension.AnnotationNodeCPUTopology] = string(data)
		if withReserved {
			if kubelet != nil || r.Bool() {
				pol := extension.KubeletCPUManagerPolicy{Policy: extension.KubeletCPUManagerPolicyNone, ReservedCPUs: c06CPUSetString(kubelet)}
				d, _ := json.Marshal(pol)
				o.Annotations[extension.AnnotationKubeletCPUManagerPolicy] = string(d)
			}
			if nodeRsv != nil {
				d, _ := json.Marshal(extension.NodeReservation{ReservedCPUs: c06CPUSetString(nodeRsv)})
				o.Annotations[extension.AnnotationNodeReservation] = string(d)
			}
			if sysqPresent {
				q := extension.SystemQOSResource{CPUSet: c06CPUSetString(sysq)}
				if sysqExclMode == 1 {
					q.CPUSetExclusive = boolPtrC06(true)
				} else if sysqExclMode == 2 {
					q.CPUSetExclusive = boolPtrC06(false)
				}
				d, _ := json.Marshal(q)
				o.Annotations[extension.AnnotationNodeSystemQOSResource] = string(d)
			}
			if len(statics) > 0 {
				var allocs extension.PodCPUAllocs
				for i, s := range statics {
					a := extension.PodCPUAlloc{Namespace: "kube-system", Name: "s" + strconv.Itoa(i), ManagedByKubelet: s.managed, CPUSet: c06CPUSetString(s.cpus)}
					if s.hasUID {
						a.UID = types.UID("static-" + strconv.Itoa(i))
					}
					if !s.ok {
						a.CPUSet = "x-y"
					}
					allocs = append(allocs, a)
				}
				d, _ := json.Marshal(allocs)
				o.Annotations[extension.AnnotationNodeCPUAllocs] = string(d)
			}
		}
		for _, z := range zones {
			nz := nrtv1alpha1.Zone{Type: "Node", Name: fmt.Sprintf("node-%d", z.id)}
			switch z.kind {
			case 1:
				nz.Type = "Socket"
			case 2:
				nz.Name = fmt.Sprintf("numa%d", z.id)
			case 3:
				nz.Name = "node-x" + strconv.Itoa(z.id)
			}
			if z.cpu >= 0 {
				nz.Resources = append(nz.Resources, nrtv1alpha1.ResourceInfo{Name: "cpu", Capacity: c06Milli(z.cpu), Allocatable: c06Milli(z.cpu)})
			}
			if z.mem >= 0 {
				nz.Resources = append(nz.Resources, nrtv1alpha1.ResourceInfo{Name: "memory", Capacity: c06Milli(z.mem), Allocatable: c06Milli(z.mem)})
			}
			o.Zones = append(o.Zones, nz)
		}
		return o
	}

	tom := NewTopologyOptionsManager()
	strategy := schedulingconfig.NUMAMostAllocated
	if r.Bool() {
		strategy = schedulingconfig.NUMALeastAllocated
	}
	rm := &resourceManager{numaAllocateStrategy: strategy, topologyOptionsManager: tom, nodeAllocations: map[string]*NodeAllocation{}}
	topoH := &nodeResourceTopologyEventHandler{topologyManager: tom}
	plugin := &Plugin{resourceManager: rm, topologyOptionsManager: tom}
	node := &corev1.Node{ObjectMeta: metav1.ObjectMeta{Name: c06Node}}

	// ---- the op line (the REPORTED details)
	{
		var sb strings.Builder
		fmt.Fprintf(&sb, "nrt %d %d", vB(strategy == schedulingconfig.NUMAMostAllocated), len(cpus))
		for _, c := range cpus {
			fmt.Fprintf(&sb, " %d %d %d %d", c.id, c.core, c.node, c.socket)
		}
		fmt.Fprintf(&sb, " %d", len(statics))
		for _, s := range statics {
			fmt.Fprintf(&sb, " %d %d %d %s", vB(s.managed), vB(s.hasUID), vB(s.ok), c06Blk(s.cpus))
		}
		fmt.Fprintf(&sb, " %s %s %d %s %d", c06Blk(kubelet), c06Blk(nodeRsv), vB(sysqExcl), c06Blk(sysq), len(zones))
		for _, z := range zones {
			fmt.Fprintf(&sb, " %d %d %d %d", z.kind, z.id, z.cpu, z.mem)
		}
		h.Op("%s", sb.String())
	}
	if h.Guard(func() {
		if r.Chance(1, 4) { // an earlier report without any reservation, then the update
			old := build(false)
			topoH.OnAdd(old, true)
			topoH.OnUpdate(old, build(true))
			h.Tag("nrt:add-then-update")
		} else {
			topoH.OnAdd(build(true), false)
		}
	}) {
		h.Obs("nrt panic")
		h.Fail("C06:allocate-panic", "the NodeResourceTopology event handler panicked")
		return
	}
	stored := tom.GetTopologyOptions(c06Node)
	gotCaps := map[int]int64{}
	for _, nr := range stored.NUMANodeResources {
		for name, q := range nr.Resources {
			gotCaps[nr.Node*16+c06Dim(name)] = q.MilliValue()
		}
	}
	gotReserved := stored.ReservedCPUs.ToSlice()
	{
		var sb strings.Builder
		ct := stored.CPUTopology
		fmt.Fprintf(&sb, "nrt %d %d %d %d %s %d", ct.NumCPUs, ct.NumCores, ct.NumNodes, ct.NumSockets, c06Blk(gotReserved), len(gotCaps))
		for _, k := range c06SortedCellKeys(gotCaps) {
			fmt.Fprintf(&sb, " %d %d", k, gotCaps[k])
		}
		h.Obs("%s", sb.String())
	}
	h.Tag(fmt.Sprintf("nrt-topo:%dx%dx%dx%d", dims[0], dims[1], dims[2], dims[3]))
	h.Tag(fmt.Sprintf("nrt-ids-contiguous:%d", vB(contiguous)))

	// ---- oracle N1 / N2: from the report only
	wantReserved := map[int]bool{}
	for _, c := range kubelet {
		wantReserved[c] = true
	}
	for _, c := range nodeRsv {
		wantReserved[c] = true
	}
	if sysqPresent && sysqExcl {
		for _, c := range sysq {
			wantReserved[c] = true
		}
	}
	for _, s := range statics {
		if s.managed && s.hasUID && s.ok {
			for _, c := range s.cpus {
				wantReserved[c] = true
			}
		}
	}
	if !c06SameInts(gotReserved, c06SortedKeys(wantReserved)) {
		h.Fail("C06:reserved-set-wrong", "stored reserved CPUs %v, the report's four sources give %v", gotReserved, c06SortedKeys(wantReserved))
	}
	wantCaps := map[int]int64{}
	reservedHi := 0
	for _, z := range zones {
		if z.kind != 0 {
			continue
		}
		if z.cpu >= 0 {
			v := z.cpu
			if v != 0 {
				for _, c := range onNode[z.id] {
					if wantReserved[c] {
						v -= 1000
						if z.id == hi {
							reservedHi++
						}
					}
				}
			}
			wantCaps[z.id*16] = v
		}
		if z.mem >= 0 {
			wantCaps[z.id*16+1] = z.mem
		}
	}
	if !c06SameCells(gotCaps, wantCaps) {
		h.Fail("C06:zone-capacity-wrong", "stored zone capacities %v; reported amounts minus the reserved CPUs %v of each NUMA id give %v (ids %v)",
			gotCaps, c06SortedKeys(wantReserved), wantCaps, ids)
	}
	h.Tag(fmt.Sprintf("nrt-reserved-on-high-id:%d", vB(reservedHi > 0)))

	// ---- allocations on top
	capOf := func(k int) int64 {
		if v := wantCaps[k]; v > 0 {
			return v
		}
		return 0
	}
	shadow := map[int]*c06Shadow{}
	heldCPU := func() map[int]int {
		m := map[int]int{}
		for u, p := range shadow {
			for _, c := range p.cpus {
				m[c] = u
			}
		}
		return m
	}
	check := func(what string) {
		_, cells, _ := c06DumpLedger(h, rm)
		want := map[int]int64{}
		for _, p := range shadow {
			for k, v := range p.cells {
				want[k] += v
			}
		}
		if !c06SameCells(cells, c06NonZero(want)) {
			h.Fail("C06:ledger-numa", "%s: ledger cells %v, live pods sum to %v", what, cells, want)
		}
		for _, k := range c06SortedCellKeys(want) {
			if want[k] > capOf(k) {
				h.Fail("C06:numa-over-capacity", "%s: NUMA node %d dim %d: live pods hold %d, the zone can give %d (reported minus reserved CPUs on that id; ids %v, reserved %v)",
					what, k/16, k%16, want[k], capOf(k), ids, c06SortedKeys(wantReserved))
				break
			}
		}
	}
	nextUID := 1
	hintedHi := false
	steps := r.Range(3, 8)
	for s := 0; s < steps; s++ {
		if len(shadow) > 0 && r.Chance(1, 5) {
			uid := c06SortedShadow(shadow)[r.Intn(len(shadow))]
			h.Op("rel %d", uid)
			rm.Release(c06Node, types.UID(strconv.Itoa(uid)))
			delete(shadow, uid)
			check("release")
			continue
		}
		uid := nextUID
		nextUID++
		requestCPUBind := r.Chance(1, 3)
		bind := c06BindPolicies[r.Intn(3)]
		required := requestCPUBind && r.Chance(1, 3) && bind != schedulingconfig.CPUBindPolicyDefault
		excl := c06ExclPolicies[r.Intn(4)]
		// hint: any non-empty subset of the ids, biased to name the highest id
		var hint []int
		for _, id := range ids {
			if r.Bool() {
				hint = append(hint, id)
			}
		}
		if len(hint) == 0 || r.Chance(1, 3) {
			hint = []int{hi}
		}
		mask, _ := bitmask.NewBitMask(hint...)
		hint = mask.GetBits()
		affinity := topologymanager.NUMATopologyHint{NUMANodeAffinity: mask}
		var sumFree int64
		for _, id := range hint {
			f := capOf(id * 16)
			for _, p := range shadow {
				f -= p.cells[id*16]
			}
			if f > 0 {
				sumFree += f
			}
		}
		ncpu := r.Range(1, 6)
		if sumFree >= 1000 && r.Chance(1, 2) { // exactly what the hinted zones can still give, or a little less / more
			ncpu = int(sumFree/1000) + r.Range(-1, 1)
			if ncpu < 1 {
				ncpu = 1
			}
		}
		if bind == schedulingconfig.CPUBindPolicyFullPCPUs && requestCPUBind && !r.Chance(1, 6) {
			ncpu = (ncpu + dims[3] - 1) / dims[3] * dims[3]
		}
		cpuReq := int64(ncpu) * 1000
		if !requestCPUBind && r.Chance(1, 3) {
			cpuReq = int64(r.Range(1, ncpu*1000))
		}
		requests := corev1.ResourceList{corev1.ResourceCPU: c06Milli(cpuReq)}
		memReq := int64(0)
		if r.Bool() {
			memReq = int64(r.Range(1, int(memPer/1000))) * 1000
			requests[corev1.ResourceMemory] = c06Milli(memReq)
		}
		state := &preFilterState{requestCPUBind: requestCPUBind, requests: requests, numCPUsNeeded: ncpu, preferredCPUExclusivePolicy: excl}
		if required {
			state.requiredCPUBindPolicy = bind
		} else {
			state.preferredCPUBindPolicy = bind
		}
		pod := &corev1.Pod{ObjectMeta: metav1.ObjectMeta{UID: types.UID(strconv.Itoa(uid)), Name: "p", Namespace: "d"}}
		var alloc *PodAllocation
		okAlloc := false
		if h.Guard(func() {
			options, err := plugin.getResourceOptions(state, node, requestCPUBind, affinity, tom.GetTopologyOptions(c06Node))
			if err != nil {
				return
			}
			a, st := tryAllocateFromNode(rm, nil, &nodeReservationRestoreStateData{}, options, pod, node)
			if st.IsSuccess() && a != nil {
				alloc, okAlloc = a, true
			}
		}) {
			h.Op("dump")
			c06DumpLedger(h, rm)
			h.Fail("C06:allocate-panic", "Allocate panicked on NUMA ids %v, hint %v", ids, hint)
			return
		}
		{
			var sb strings.Builder
			fmt.Fprintf(&sb, "alloc %d %d %d %d %d %d 1 %s", uid, c06Excl(excl), c06BindEnum(bind), vB(required), vB(requestCPUBind), ncpu, c06Blk(hint))
			if memReq > 0 {
				fmt.Fprintf(&sb, " 2 0 %d 1 %d", cpuReq, memReq)
			} else {
				fmt.Fprintf(&sb, " 1 0 %d", cpuReq)
			}
			h.Op("%s", sb.String())
		}
		h.Tag(fmt.Sprintf("nrt-alloc-ok:%d-bind:%d", vB(okAlloc), vB(requestCPUBind)))
		if !okAlloc {
			h.Obs("alloc 0")
			continue
		}
		got := c06SortedCPUs(alloc.CPUSet)
		cells := map[int]int64{}
		for _, nr := range alloc.NUMANodeResources {
			for name, q := range nr.Resources {
				cells[nr.Node*16+c06Dim(name)] += q.MilliValue()
			}
		}
		{
			var sb strings.Builder
			fmt.Fprintf(&sb, "alloc 1 %s %d", c06Blk(got), len(cells))
			for _, k := range c06SortedCellKeys(cells) {
				fmt.Fprintf(&sb, " %d %d", k, cells[k])
			}
			h.Obs("%s", sb.String())
		}
		// N4 / N5
		inHint := map[int]bool{}
		for _, id := range hint {
			inHint[id] = true
			if id == hi && !contiguous {
				hintedHi = true
			}
		}
		for _, k := range c06SortedCellKeys(cells) {
			free := capOf(k)
			for _, p := range shadow {
				free -= p.cells[k]
			}
			if free < 0 {
				free = 0
			}
			if cells[k] > free {
				h.Fail("C06:numa-over-free", "pod %d gets %d of cell %d (NUMA node %d) but only %d is free there (capacity %d; ids %v, reserved %v)",
					uid, cells[k], k, k/16, free, capOf(k), ids, c06SortedKeys(wantReserved))
			}
			if !inHint[k/16] {
				h.Fail("C06:numa-outside-hint", "cell %d is not on a hinted node %v", k, hint)
			}
		}
		hm := heldCPU()
		for _, c := range got {
			if wantReserved[c] {
				h.Fail("C06:cpuset-not-free", "cpu %d is reserved by the report", c)
				break
			}
			if o, busy := hm[c]; busy {
				h.Fail("C06:cpuset-not-free", "cpu %d is held by live pod %d", c, o)
				break
			}
		}
		if requestCPUBind && len(got) != ncpu {
			h.Fail("C06:cpuset-count", "requested %d CPUs, got %v", ncpu, got)
		}
		h.Op("commit")
		rm.Update(c06Node, alloc)
		shadow[uid] = &c06Shadow{cpus: got, cells: c06NonZero(cells)}
		check("allocate+update")
	}
	if !contiguous && reservedHi > 0 && hintedHi && len(shadow) > 0 {
		h.Nontrivial()
	}
}

func boolPtrC06(b bool) *bool { return &b }
