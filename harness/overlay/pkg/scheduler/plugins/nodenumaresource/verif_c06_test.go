//go:build verif

package nodenumaresource

import (
	"fmt"
	"runtime"
	"sort"
	"strconv"
	"strings"
	"sync"
	"sync/atomic"
	"testing"

	corev1 "k8s.io/api/core/v1"
	"k8s.io/apimachinery/pkg/api/resource"
	metav1 "k8s.io/apimachinery/pkg/apis/meta/v1"
	"k8s.io/apimachinery/pkg/types"

	"github.com/koordinator-sh/koordinator/apis/extension"
	schedulingconfig "github.com/koordinator-sh/koordinator/pkg/scheduler/apis/config"
	"github.com/koordinator-sh/koordinator/pkg/scheduler/frameworkext/topologymanager"
	"github.com/koordinator-sh/koordinator/pkg/util/bitmask"
	"github.com/koordinator-sh/koordinator/pkg/util/cpuset"
)

// C06 harnesses (DESIGN.md §4 C06).  Three streams, one Lean driver:
//   TestVerifC06Numa  tryBestToDistributeEvenly on generated hints / free vectors (pure)
//   TestVerifC06Hist  histories of Allocate+Update / foreign Update / duplicate add / Release on a
//                     real resourceManager; ledger dump after every operation
//   TestVerifC06Pick  takePreferredCPUs / satisfiedRequiredCPUBindPolicy on arbitrary free sets
// All amounts are milli-units.  Names: pods are small ints, resources are dims 0=cpu 1=memory
// 2=extended, a ledger cell is node*16+dim.

const c06Node = "n"

var c06ResNames = []corev1.ResourceName{corev1.ResourceCPU, corev1.ResourceMemory, "example.com/widget"}

func c06Dim(name corev1.ResourceName) int {
	for i, n := range c06ResNames {
		if n == name {
			return i
		}
	}
	return 15
}

func c06Excl(p schedulingconfig.CPUExclusivePolicy) int {
	switch p {
	case "":
		return 0
	case schedulingconfig.CPUExclusivePolicyNone:
		return 1
	case schedulingconfig.CPUExclusivePolicyPCPULevel:
		return 2
	case schedulingconfig.CPUExclusivePolicyNUMANodeLevel:
		return 3
	}
	return 9
}

var c06ExclPolicies = []schedulingconfig.CPUExclusivePolicy{"", schedulingconfig.CPUExclusivePolicyNone,
	schedulingconfig.CPUExclusivePolicyPCPULevel, schedulingconfig.CPUExclusivePolicyNUMANodeLevel}

var c06BindPolicies = []schedulingconfig.CPUBindPolicy{schedulingconfig.CPUBindPolicyDefault,
	schedulingconfig.CPUBindPolicyFullPCPUs, schedulingconfig.CPUBindPolicySpreadByPCPUs}

func c06BindEnum(p schedulingconfig.CPUBindPolicy) int {
	switch p {
	case schedulingconfig.CPUBindPolicyFullPCPUs:
		return 1
	case schedulingconfig.CPUBindPolicySpreadByPCPUs:
		return 2
	}
	return 0
}

func c06Milli(m int64) resource.Quantity { return *resource.NewMilliQuantity(m, resource.DecimalSI) }

// c06Topo draws sockets x nodes/socket x cores/node x threads/core.
func c06Topo(r *vRand, maxCPUs int) (*CPUTopology, [4]int) {
	for {
		s := r.Range(1, 2)
		if r.Chance(1, 4) {
			s = r.Range(3, 4)
		}
		n := r.Range(1, 2)
		if r.Chance(1, 8) {
			n = 4
		}
		c := r.Range(1, 4)
		if r.Chance(1, 8) {
			c = r.Range(5, 8)
		}
		t := 2
		if r.Chance(1, 4) {
			t = 1
		} else if r.Chance(1, 10) {
			t = 4
		}
		if s*n*c*t <= maxCPUs {
			return buildCPUTopologyForTest(s, n, c, t), [4]int{s, n, c, t}
		}
	}
}

func c06Subset(r *vRand, xs []int, num, den int) []int {
	var out []int
	for _, x := range xs {
		if r.Chance(num, den) {
			out = append(out, x)
		}
	}
	return out
}

func c06SortedCPUs(s cpuset.CPUSet) []int { return s.ToSlice() }

func c06Blk(xs []int) string {
	if len(xs) == 0 {
		return "0"
	}
	return fmt.Sprintf("%d %s", len(xs), vIntsI(xs))
}

// ---------------------------------------------------------------- NUMA split (pure)

func c06Amount(r *vRand, whole bool) int64 {
	var v int64
	switch r.Intn(8) {
	case 0:
		v = 0
	case 1:
		v = int64(r.Range(1, 3)) * 1000
	case 2, 3:
		v = int64(r.Range(1, 16)) * 1000
	case 4:
		v = int64(r.Range(1, 64)) * 1000
	case 5:
		v = int64(r.Range(1, 999))
	default:
		v = int64(r.Range(1, 20000))
	}
	if whole {
		v = (v + 999) / 1000 * 1000
	}
	return v
}

func TestVerifC06Numa(t *testing.T) {
	h := vOpen("C06")
	if h == nil {
		t.Skip("VERIF_OUT not set")
	}
	n := h.N(6000, 150000)
	for idx := 0; idx < n; idx++ {
		r := h.Begin(idx)
		if r == nil {
			continue
		}
		nn := r.Range(1, 4)
		if r.Chance(1, 5) {
			nn = r.Range(5, 8)
		}
		ids := make([]int, nn)
		for i := range ids {
			ids[i] = i
		}
		// hint: any non-empty subset of the node ids (rarely also an id without any resources)
		hint := c06Subset(r, ids, 1, 2)
		if len(hint) == 0 {
			hint = []int{ids[r.Intn(nn)]}
		}
		if r.Chance(1, 25) {
			hint = append(hint, nn+r.Intn(2))
		}
		mask, _ := bitmask.NewBitMask(hint...)
		hint = mask.GetBits()

		requestCPUBind := r.Chance(1, 3)
		required := requestCPUBind && r.Chance(1, 2)
		bind := c06BindPolicies[r.Intn(3)]
		_, dims := c06Topo(r, 64)
		cpc := dims[3]
		topo := buildCPUTopologyForTest(dims[0], dims[1], dims[2], dims[3])
		malformed := r.Chance(1, 12) // fractional amounts for whole-unit resources

		nres := r.Range(1, 3)
		totalAvailable := map[int]corev1.ResourceList{}
		free := map[int]map[int]int64{} // node -> dim -> milli
		declared := map[int]bool{}
		for _, id := range ids {
			if r.Chance(1, 30) {
				continue // node without an entry in totalAvailable
			}
			rl := corev1.ResourceList{}
			free[id] = map[int]int64{}
			for d := 0; d < nres; d++ {
				if r.Chance(1, 15) {
					continue // this node does not declare the resource
				}
				whole := !(d == 0 && !requestCPUBind) && !malformed
				v := c06Amount(r, whole)
				rl[c06ResNames[d]] = c06Milli(v)
				free[id][d] = v
				declared[d] = true
			}
			totalAvailable[id] = rl
		}
		requests := corev1.ResourceList{}
		req := map[int]int64{}
		for d := 0; d < 3; d++ {
			if d >= nres && !r.Chance(1, 10) {
				continue
			}
			if r.Chance(1, 8) && d != 0 {
				continue
			}
			var sum int64
			for _, id := range hint {
				sum += free[id][d]
			}
			whole := !(d == 0 && !requestCPUBind) && !malformed
			var v int64
			switch r.Intn(6) {
			case 0:
				v = sum
			case 1:
				v = sum + c06Amount(r, whole) // usually infeasible
			case 2:
				v = c06Amount(r, whole)
			default:
				if sum > 0 {
					v = r.Int63n(sum + 1)
				}
				if whole {
					v = v / 1000 * 1000
				}
			}
			requests[c06ResNames[d]] = c06Milli(v)
			req[d] = v
		}
		options := &ResourceOptions{
			requestCPUBind:        requestCPUBind,
			requiredCPUBindPolicy: required,
			cpuBindPolicy:         bind,
			hint:                  topologymanager.NUMATopologyHint{NUMANodeAffinity: mask},
		}
		options.topologyOptions.CPUTopology = topo

		work := requests.DeepCopy()
		var result []NUMANodeResource
		var reasons []string
		panicked := h.Guard(func() { result, reasons = tryBestToDistributeEvenly(work, totalAvailable, options) })

		dimsSorted := make([]int, 0, len(req))
		for d := range req {
			dimsSorted = append(dimsSorted, d)
		}
		sort.Ints(dimsSorted)
		for _, d := range dimsSorted {
			name := c06ResNames[d]
			mode := 1
			if d == 0 {
				if !requestCPUBind {
					mode = 0
				} else if required && bind == schedulingconfig.CPUBindPolicyFullPCPUs {
					mode = 2
				}
			}
			var fl []string
			for _, id := range ids {
				if _, ok := free[id]; ok {
					fl = append(fl, fmt.Sprintf("%d %d", id, free[id][d]))
				}
			}
			h.Op("numa %d %d %d %d %s %d %s", mode, cpc, vB(declared[d]), req[d], c06Blk(hint), len(fl), strings.Join(fl, " "))
			h.Tag(fmt.Sprintf("numa-mode:%d", mode))
			h.Tag(fmt.Sprintf("hint-size:%d", len(hint)))
			if panicked {
				h.Obs("numa panic")
				h.Fail("C06:numa-panic", "tryBestToDistributeEvenly panicked")
				continue
			}
			failed := false
			for _, s := range reasons {
				if s == fmt.Sprintf("Insufficient NUMA %s", name) {
					failed = true
				}
			}
			remq := work[name]
			rem := remq.MilliValue()
			type na struct {
				id  int
				amt int64
			}
			var allocs []na
			for _, nr := range result {
				if q, ok := nr.Resources[name]; ok {
					allocs = append(allocs, na{nr.Node, q.MilliValue()})
				}
			}
			sort.Slice(allocs, func(i, j int) bool { return allocs[i].id < allocs[j].id })
			var sb strings.Builder
			for _, a := range allocs {
				fmt.Fprintf(&sb, " %d %d", a.id, a.amt)
			}
			h.Obs("numa %d %d%s", vB(failed), rem, sb.String())
			h.Tag(fmt.Sprintf("numa-failed:%d", vB(failed)))

			// ---- oracle (property statement, from the inputs and the returned allocation only)
			if !declared[d] {
				h.Tag("numa-undeclared")
				continue
			}
			var sumFree, sumAlloc int64
			divisible := mode == 0 || mode == 1
			inHint := map[int]bool{}
			for _, id := range hint {
				inHint[id] = true
				sumFree += free[id][d]
				if mode == 1 && free[id][d]%1000 != 0 {
					divisible = false
				}
			}
			if mode == 1 && req[d]%1000 != 0 {
				divisible = false
			}
			if !failed {
				seen := map[int]bool{}
				for _, a := range allocs {
					sumAlloc += a.amt
					if a.amt > free[a.id][d] {
						h.Fail("C06:numa-over-free", "node %d gives %d of dim %d but has %d free", a.id, a.amt, d, free[a.id][d])
					}
					if a.amt < 0 {
						h.Fail("C06:numa-negative", "node %d gives %d", a.id, a.amt)
					}
					if !inHint[a.id] {
						h.Fail("C06:numa-outside-hint", "node %d not hinted", a.id)
					}
					if seen[a.id] {
						h.Fail("C06:numa-node-twice", "node %d twice", a.id)
					}
					seen[a.id] = true
				}
				if sumAlloc != req[d] {
					h.Fail("C06:numa-sum", "dim %d allocated %d != requested %d", d, sumAlloc, req[d])
				}
			}
			if failed && divisible && sumFree >= req[d] {
				h.Fail("C06:numa-split-incomplete", "dim %d: hinted nodes %v have %d free >= request %d but the split was rejected", d, hint, sumFree, req[d])
			}
			if divisible && sumFree >= req[d] && req[d] > 0 && len(hint) > 1 {
				h.Nontrivial()
				if hint[0] != 0 {
					h.Tag("hint-not-zero-based")
				}
			}
		}
		h.End()
	}
	h.Close("1-8 NUMA nodes, hint = random subset of ids (rarely an unknown id), 1-3 resources with per-node free amounts " +
		"(0, whole, fractional milli), request steered to <= / = / > the hinted sum; all splitQuantity modes. " +
		"non-trivial = divisible resource, feasible positive request over >= 2 hinted nodes")
}

// ---------------------------------------------------------------- histories on a real resourceManager

type c06Shadow struct {
	cpus  []int
	cells map[int]int64
}

func c06DumpLedger(h *vHarness, rm *resourceManager) (refs map[int]int, cells map[int]int64, avail []int) {
	na := rm.getOrCreateNodeAllocation(c06Node)
	var pods []int
	for uid := range na.allocatedPods {
		u, _ := strconv.Atoi(string(uid))
		pods = append(pods, u)
	}
	sort.Ints(pods)
	refs = map[int]int{}
	var cpuIDs []int
	for c := range na.allocatedCPUs {
		cpuIDs = append(cpuIDs, c)
	}
	sort.Ints(cpuIDs)
	var sb strings.Builder
	for i, c := range cpuIDs {
		info := na.allocatedCPUs[c]
		refs[c] = info.RefCount
		if i > 0 {
			sb.WriteByte(' ')
		}
		fmt.Fprintf(&sb, "%d %d %d", c, info.RefCount, c06Excl(info.ExclusivePolicy))
	}
	cells = map[int]int64{}
	for node, res := range na.allocatedResources {
		if res == nil {
			continue
		}
		for name, q := range res.Resources {
			if v := q.MilliValue(); v != 0 {
				cells[node*16+c06Dim(name)] = v
			}
		}
	}
	var keys []int
	for k := range cells {
		keys = append(keys, k)
	}
	sort.Ints(keys)
	var rb strings.Builder
	for i, k := range keys {
		if i > 0 {
			rb.WriteByte(' ')
		}
		fmt.Fprintf(&rb, "%d %d", k, cells[k])
	}
	av, _, _ := rm.GetAvailableCPUs(c06Node)
	avail = c06SortedCPUs(av)
	h.Obs("pods %s", vIntsI(pods))
	h.Obs("cpus %s", sb.String())
	h.Obs("res %s", rb.String())
	h.Obs("avail %s", vIntsI(avail))
	return
}

func c06PodOp(kind string, uid int, excl int, cpus []int, cells map[int]int64, order []int) string {
	var sb strings.Builder
	fmt.Fprintf(&sb, "%s %d %d %s %d", kind, uid, excl, c06Blk(cpus), len(order))
	for _, k := range order {
		fmt.Fprintf(&sb, " %d %d", k, cells[k])
	}
	return sb.String()
}

// c06FullCores / c06Spread: the two policy predicates, from the topology table only.
func c06FullCores(topo *CPUTopology, s []int) bool {
	in := map[int]bool{}
	for _, c := range s {
		in[c] = true
	}
	for _, c := range s {
		for o, info := range topo.CPUDetails {
			if info.CoreID == topo.CPUDetails[c].CoreID && !in[o] {
				return false
			}
		}
	}
	return true
}

func c06Spread(topo *CPUTopology, s []int) bool {
	seen := map[int]bool{}
	for _, c := range s {
		core := topo.CPUDetails[c].CoreID
		if seen[core] {
			return false
		}
		seen[core] = true
	}
	return true
}

func TestVerifC06Hist(t *testing.T) {
	h := vOpen("C06")
	if h == nil {
		t.Skip("VERIF_OUT not set")
	}
	n := h.N(1500, 40000)
	for idx := 0; idx < n; idx++ {
		r := h.Begin(idx)
		if r == nil {
			continue
		}
		if idx%6 == 5 { // every 6th case: goroutines (informer Updates of running pods || the scheduling goroutine)
			c06StressCase(h, r)
			h.End()
			continue
		}
		topo, dims := c06Topo(r, 48)
		cpc := dims[3]
		var all []int
		for c := range topo.CPUDetails {
			all = append(all, c)
		}
		sort.Ints(all)
		maxRef := 1
		if r.Chance(1, 4) {
			maxRef = r.Range(2, 3)
		}
		var reserved []int
		if r.Chance(1, 3) {
			reserved = c06Subset(r, all, 1, 8)
		}
		numNodes := topo.NumNodes
		cpusPerNode := topo.CPUsPerNode()
		memPerNode := int64(r.Range(4, 64)) * 1000
		declareMem := !r.Chance(1, 6)
		var numaRes []NUMANodeResource
		capCell := map[int]int64{}
		for nd := 0; nd < numNodes; nd++ {
			rl := corev1.ResourceList{corev1.ResourceCPU: c06Milli(int64(cpusPerNode) * 1000)}
			capCell[nd*16] = int64(cpusPerNode) * 1000
			if declareMem {
				rl[corev1.ResourceMemory] = c06Milli(memPerNode)
				capCell[nd*16+1] = memPerNode
			}
			numaRes = append(numaRes, NUMANodeResource{Node: nd, Resources: rl})
		}
		tom := NewTopologyOptionsManager()
		tom.UpdateTopologyOptions(c06Node, func(o *TopologyOptions) {
			o.CPUTopology = topo
			o.MaxRefCount = maxRef
			o.ReservedCPUs = cpuset.NewCPUSet(reserved...)
			o.NUMANodeResources = numaRes
		})
		strategy := schedulingconfig.NUMAMostAllocated
		if r.Bool() {
			strategy = schedulingconfig.NUMALeastAllocated
		}
		rm := &resourceManager{numaAllocateStrategy: strategy, topologyOptionsManager: tom, nodeAllocations: map[string]*NodeAllocation{}}
		node := &corev1.Node{ObjectMeta: metav1.ObjectMeta{Name: c06Node}}
		// cpu amplification ratio of the node annotation (num/den; none = 0/1).  Only ratios that are exact in
		// binary floating point, so that extension.Amplify is the integer ceil(x*num/den) (checked on every use).
		ratioNum, ratioDen := int64(0), int64(1)
		if r.Chance(1, 2) {
			rt := [][2]int64{{1, 1}, {3, 2}, {2, 1}, {3, 1}}[r.Intn(4)]
			ratioNum, ratioDen = rt[0], rt[1]
			extension.SetNodeResourceAmplificationRatios(node, map[corev1.ResourceName]extension.Ratio{
				corev1.ResourceCPU: extension.Ratio(float64(ratioNum) / float64(ratioDen))})
		}
		amp := func(x int64) int64 { return c06Amplify(x, ratioNum, ratioDen) }
		// amplified capacity, computed by the oracle from the RAW topology
		capAmp := map[int]int64{}
		for k, v := range capCell {
			capAmp[k] = v
			if k%16 == 0 {
				capAmp[k] = amp(v)
			}
		}
		plugin := &Plugin{resourceManager: rm, topologyOptionsManager: tom}
		{
			var sb strings.Builder
			fmt.Fprintf(&sb, "cfg %d %d %d %d %d %d %d %d %d", maxRef, vB(strategy == schedulingconfig.NUMAMostAllocated), ratioNum, ratioDen,
				topo.NumCPUs, topo.NumCores, topo.NumNodes, topo.NumSockets, len(all))
			for _, c := range all {
				info := topo.CPUDetails[c]
				fmt.Fprintf(&sb, " %d %d %d %d", c, info.CoreID, info.NodeID, info.SocketID)
			}
			fmt.Fprintf(&sb, " %s %d", c06Blk(reserved), len(capCell))
			for _, k := range c06SortedCellKeys(capCell) {
				fmt.Fprintf(&sb, " %d %d", k, capCell[k])
			}
			h.Op("%s", sb.String())
		}
		h.Tag(fmt.Sprintf("topo:%dx%dx%dx%d", dims[0], dims[1], dims[2], dims[3]))
		h.Tag(fmt.Sprintf("maxref:%d", maxRef))
		h.Tag(fmt.Sprintf("cpu-ratio:%d/%d", ratioNum, ratioDen))
		// the options stored in the manager must be the same before and after every scheduling step
		storedOK := func(what string) {
			st := tom.GetTopologyOptions(c06Node)
			got := map[int]int64{}
			for _, nr := range st.NUMANodeResources {
				for name, q := range nr.Resources {
					got[nr.Node*16+c06Dim(name)] = q.MilliValue()
				}
			}
			same := len(got) == len(capCell) && st.AmplificationRatios == nil
			for k, v := range capCell {
				if got[k] != v {
					same = false
				}
			}
			if !same {
				h.Fail("C06:topology-options-mutated", "%s: stored NUMA capacities are now %v (ratios %v), were %v", what, got, st.AmplificationRatios, capCell)
			}
		}

		shadow := map[int]*c06Shadow{}
		allDrawn := true
		numaDrawn := true // every recorded NUMA amount was within capacity minus what live pods held
		nextUID := 1
		isReserved := map[int]bool{}
		for _, c := range reserved {
			isReserved[c] = true
		}
		shadowRef := func() map[int]int {
			m := map[int]int{}
			for _, p := range shadow {
				for _, c := range p.cpus {
					m[c]++
				}
			}
			return m
		}
		shadowAvail := func(exceptUID int) map[int]bool {
			m := map[int]int{}
			for u, p := range shadow {
				if u == exceptUID {
					continue
				}
				for _, c := range p.cpus {
					m[c]++
				}
			}
			out := map[int]bool{}
			for _, c := range all {
				if !isReserved[c] && m[c] < maxRef {
					out[c] = true
				}
			}
			return out
		}
		check := func(what string) {
			refs, cells, avail := c06DumpLedger(h, rm)
			want := shadowRef()
			for _, c := range all {
				if refs[c] != want[c] {
					h.Fail("C06:ledger-refcount", "%s: cpu %d refcount %d but %d live pods hold it", what, c, refs[c], want[c])
					break
				}
			}
			for c := range refs {
				if _, ok := topo.CPUDetails[c]; !ok {
					h.Fail("C06:ledger-refcount", "%s: unknown cpu %d in ledger", what, c)
				}
			}
			wantCells := map[int]int64{}
			for _, p := range shadow {
				for k, v := range p.cells {
					wantCells[k] += v
				}
			}
			for k, v := range wantCells {
				if cells[k] != v {
					h.Fail("C06:ledger-numa", "%s: cell %d holds %d but live pods sum to %d", what, k, cells[k], v)
					break
				}
			}
			for k, v := range cells {
				if wantCells[k] != v {
					h.Fail("C06:ledger-numa", "%s: cell %d holds %d but live pods sum to %d", what, k, v, wantCells[k])
					break
				}
			}
			if numaDrawn {
				for _, k := range c06SortedCellKeys(cells) {
					if cells[k] > capAmp[k] {
						h.Fail("C06:numa-over-capacity", "%s: cell %d (NUMA node %d, dim %d) has %d allocated but its capacity is %d (raw %d x ratio %d/%d)",
							what, k, k/16, k%16, cells[k], capAmp[k], capCell[k], ratioNum, ratioDen)
						break
					}
				}
			}
			storedOK(what)
			if allDrawn {
				for _, c := range all {
					if refs[c] > maxRef {
						h.Fail("C06:over-shared", "%s: cpu %d held %d times, sharing limit %d", what, c, refs[c], maxRef)
						break
					}
				}
			}
			wa := shadowAvail(-1)
			ok := len(wa) == len(avail)
			for _, c := range avail {
				if !wa[c] {
					ok = false
				}
			}
			if !ok {
				h.Fail("C06:avail-wrong", "%s: available set %v differs from {not reserved, holders < %d}", what, avail, maxRef)
			}
		}

		steps := r.Range(3, 10)
		if h.Tier == "thorough" && r.Chance(1, 5) {
			steps = r.Range(10, 25)
		}
		usedAlloc := false
		foreignSeen, ampClauseOK := false, true
		for s := 0; s < steps; s++ {
			kind := r.Intn(20)
			switch {
			case kind < 10: // real Allocate, then Update with what it returned
				uid := nextUID
				if len(shadow) > 0 && r.Chance(1, 10) { // re-allocate an existing pod
					uid = c06SortedShadow(shadow)[r.Intn(len(shadow))]
				} else {
					nextUID++
				}
				bind := c06BindPolicies[r.Intn(3)]
				excl := c06ExclPolicies[r.Intn(4)]
				required := r.Chance(1, 3) && bind != schedulingconfig.CPUBindPolicyDefault
				freeNow := shadowAvail(uid)
				hi := len(freeNow) + 1
				if hi > 12 {
					hi = 12
				}
				if hi < 1 {
					hi = 1
				}
				ncpu := r.Range(1, hi)
				if bind == schedulingconfig.CPUBindPolicyFullPCPUs && !r.Chance(1, 6) {
					ncpu = (ncpu + cpc - 1) / cpc * cpc
				}
				requestCPUBind := !r.Chance(1, 8)
				memReq := int64(0)
				if r.Bool() {
					memReq = int64(r.Range(1, 40)) * 1000
				}
				requests := corev1.ResourceList{corev1.ResourceCPU: c06Milli(int64(ncpu) * 1000)}
				if !requestCPUBind && r.Bool() {
					requests[corev1.ResourceCPU] = c06Milli(int64(r.Range(1, ncpu*1000)))
				}
				if memReq > 0 {
					requests[corev1.ResourceMemory] = c06Milli(memReq)
				}
				// the options come from the plugin's own getResourceOptions (amplification of the NUMA capacities by the
				// node's ratio annotation, bind-policy resolution), as in Filter / Reserve
				state := &preFilterState{
					requestCPUBind:              requestCPUBind,
					requests:                    requests,
					numCPUsNeeded:               ncpu,
					preferredCPUExclusivePolicy: excl,
				}
				if required {
					state.requiredCPUBindPolicy = bind
				} else {
					state.preferredCPUBindPolicy = bind
				}
				var hint []int
				affinity := topologymanager.NUMATopologyHint{}
				if r.Chance(1, 2) {
					for nd := 0; nd < numNodes; nd++ {
						if r.Bool() {
							hint = append(hint, nd)
						}
					}
					if len(hint) == 0 {
						hint = []int{r.Intn(numNodes)}
					}
					if len(hint) > 12 { // sort.Slice is the (stable) insertion sort only up to 12 elements; the model is that sort
						hint = hint[:12]
					}
					mask, _ := bitmask.NewBitMask(hint...)
					affinity = topologymanager.NUMATopologyHint{NUMANodeAffinity: mask}
				}
				// the pod's own previous holding is released by Update, not by Allocate: allocate as the scheduler
				// does, for a pod that is not in the ledger
				if _, ok := shadow[uid]; ok {
					rm.Release(c06Node, types.UID(strconv.Itoa(uid)))
					delete(shadow, uid)
					h.Op("rel %d", uid)
					check("release-before-realloc")
				}
				freeNow = shadowAvail(-1)
				// NUMA free amounts as the property reads them: capacity minus what live pods hold
				numaFree := map[int]int64{}
				for k, v := range capAmp {
					numaFree[k] = v
				}
				for _, p := range shadow {
					for k, v := range p.cells {
						numaFree[k] -= v
						if numaFree[k] < 0 {
							numaFree[k] = 0
						}
					}
				}
				pod := &corev1.Pod{ObjectMeta: metav1.ObjectMeta{UID: types.UID(strconv.Itoa(uid)), Name: "p", Namespace: "d"}}
				var alloc *PodAllocation
				var options *ResourceOptions
				okAlloc, optErr := false, false
				if h.Guard(func() {
					var err error
					options, err = plugin.getResourceOptions(state, node, requestCPUBind, affinity, tom.GetTopologyOptions(c06Node))
					if err != nil {
						optErr = true
						return
					}
					a, st := tryAllocateFromNode(rm, nil, &nodeReservationRestoreStateData{}, options, pod, node)
					if st.IsSuccess() && a != nil {
						alloc, okAlloc = a, true
					}
				}) {
					h.Tag("alloc:panic")
					h.Fail("C06:allocate-panic", "getResourceOptions / Allocate panicked")
					continue
				}
				if optErr || options == nil {
					h.Fail("C06:allocate-panic", "getResourceOptions failed on a well-formed ratio annotation")
					continue
				}
				{ // the NUMA capacities the resource manager was given
					got := map[int]int64{}
					for _, nr := range options.topologyOptions.NUMANodeResources {
						for name, q := range nr.Resources {
							got[nr.Node*16+c06Dim(name)] = q.MilliValue()
						}
					}
					var sb strings.Builder
					sb.WriteString("opts")
					for _, k := range c06SortedCellKeys(got) {
						fmt.Fprintf(&sb, " %d %d", k, got[k])
					}
					h.Op("opts")
					h.Obs("%s", sb.String())
					for k, v := range capCell {
						if k%16 == 0 && ratioNum > ratioDen && extension.Amplify(v, extension.Ratio(float64(ratioNum)/float64(ratioDen))) != capAmp[k] {
							h.Fail("C06:float-assumption", "Amplify(%d, %d/%d) is not ceil(x*num/den) = %d", v, ratioNum, ratioDen, capAmp[k])
						}
					}
					for _, k := range c06SortedCellKeys(capAmp) {
						if got[k] != capAmp[k] || len(got) != len(capAmp) {
							h.Fail("C06:numa-capacity-wrong", "options give NUMA cell %d capacity %d, raw %d x ratio %d/%d is %d", k, got[k], capCell[k], ratioNum, ratioDen, capAmp[k])
							break
						}
					}
				}
				{
					var sb strings.Builder
					fmt.Fprintf(&sb, "alloc %d %d %d %d %d %d %d %s", uid, c06Excl(excl), c06BindEnum(bind), vB(required), vB(requestCPUBind), ncpu, vB(hint != nil), c06Blk(hint))
					nreq := 1
					if memReq > 0 {
						nreq = 2
					}
					cpuq := requests[corev1.ResourceCPU]
					fmt.Fprintf(&sb, " %d 0 %d", nreq, cpuq.MilliValue())
					if memReq > 0 {
						fmt.Fprintf(&sb, " 1 %d", memReq)
					}
					h.Op("%s", sb.String())
				}
				usedAlloc = true
				h.Tag(fmt.Sprintf("alloc-ok:%d", vB(okAlloc)))
				h.Tag(fmt.Sprintf("alloc-bind:%d-req:%d-hint:%d", c06BindEnum(bind), vB(required), vB(hint != nil)))
				if !okAlloc {
					h.Obs("alloc 0")
					storedOK("allocate (failed)")
					continue
				}
				got := c06SortedCPUs(alloc.CPUSet)
				{
					ac := map[int]int64{}
					for _, nr := range alloc.NUMANodeResources {
						for name, q := range nr.Resources {
							ac[nr.Node*16+c06Dim(name)] += q.MilliValue()
						}
					}
					var sb strings.Builder
					fmt.Fprintf(&sb, "alloc 1 %s %d", c06Blk(got), len(ac))
					for _, k := range c06SortedCellKeys(ac) {
						fmt.Fprintf(&sb, " %d %d", k, ac[k])
					}
					h.Obs("%s", sb.String())
				}
				// ---- picker oracle
				if requestCPUBind {
					if len(got) != ncpu {
						h.Fail("C06:cpuset-count", "requested %d CPUs, got %d: %v", ncpu, len(got), got)
					}
					for _, c := range got {
						if !freeNow[c] {
							h.Fail("C06:cpuset-not-free", "cpu %d was not free for the pod (free: %d cpus)", c, len(freeNow))
							break
						}
					}
					if required {
						if bind == schedulingconfig.CPUBindPolicyFullPCPUs && !c06FullCores(topo, got) {
							h.Fail("C06:policy-not-satisfied", "required FullPCPUs reported satisfied but %v splits a core", got)
						}
						if bind == schedulingconfig.CPUBindPolicySpreadByPCPUs && !c06Spread(topo, got) {
							h.Fail("C06:policy-not-satisfied", "required SpreadByPCPUs reported satisfied but %v shares a core", got)
						}
					}
					h.Op("pick %d %s %s", ncpu, c06Blk(c06SortedKeys(freeNow)), c06Blk(got))
					h.Obs("pick %d", vB(c06Contract(freeNow, ncpu, got)))
				} else if len(got) != 0 {
					h.Fail("C06:cpuset-count", "no cpu bind requested, got %v", got)
				}
				// ---- NUMA oracle on the integrated path
				cells := map[int]int64{}
				var order []int
				for _, nr := range alloc.NUMANodeResources {
					for name, q := range nr.Resources {
						k := nr.Node*16 + c06Dim(name)
						cells[k] += q.MilliValue()
					}
				}
				for k := range cells {
					order = append(order, k)
				}
				sort.Ints(order)
				if hint != nil {
					sum := map[int]int64{}
					for _, k := range order {
						sum[k%16] += cells[k]
						if cells[k] > numaFree[k] {
							h.Fail("C06:numa-over-free", "cell %d gets %d but only %d free", k, cells[k], numaFree[k])
						}
					}
					for name, q := range requests {
						d := c06Dim(name)
						if d == 1 && !declareMem {
							continue
						}
						if sum[d] != q.MilliValue() {
							h.Fail("C06:numa-sum", "dim %d allocated %d != requested %d", d, sum[d], q.MilliValue())
						}
					}
				}
				if hint == nil && len(order) > 0 {
					h.Fail("C06:numa-outside-hint", "no NUMA hint, but NUMA amounts %v were allocated", cells)
				}
				h.Op("commit") // the model updates its ledger with ITS OWN allocation, not with the one returned here
				rm.Update(c06Node, alloc)
				shadow[uid] = &c06Shadow{cpus: got, cells: cells}
				check("allocate+update")
				if c06AmpBind && !foreignSeen && ampClauseOK { // gated clause (verif_c06_amp_test.go), also on the random histories
					ampClauseOK = c06ChargedOracle(h, rm, plugin, tom, node, topo, shadow, capAmp, ratioNum, ratioDen, "allocate+update")
				}
			case kind < 13: // foreign Update (e.g. replayed from a pod annotation)
				uid := nextUID
				if len(shadow) > 0 && r.Chance(1, 4) {
					uid = c06SortedShadow(shadow)[r.Intn(len(shadow))]
				} else {
					nextUID++
				}
				fa := shadowAvail(uid)
				var cpus []int
				if r.Chance(1, 5) {
					cpus = c06Subset(r, all, 1, 4) // may hit busy / reserved CPUs
				} else {
					cpus = c06Subset(r, c06SortedKeys(fa), 1, 3)
				}
				for _, c := range cpus {
					if !fa[c] {
						allDrawn = false
						h.Tag("hist:undrawn")
					}
				}
				cells := map[int]int64{}
				var order []int
				for nd := 0; nd < numNodes; nd++ {
					for d := 0; d < 2; d++ {
						if r.Chance(1, 3) {
							k := nd*16 + d
							cells[k] = int64(r.Range(0, 8)) * 500
							order = append(order, k)
							// usually within what the node still has (capacity minus the other live pods' amounts)
							left := capAmp[k]
							for u, p := range shadow {
								if u != uid {
									left -= p.cells[k]
								}
							}
							if left < 0 {
								left = 0
							}
							if cells[k] > left {
								if r.Chance(2, 3) {
									cells[k] = left
								} else {
									numaDrawn = false
									h.Tag("hist:numa-undrawn")
								}
							}
						}
					}
				}
				excl := c06ExclPolicies[r.Intn(4)]
				pa := c06MakeAlloc(uid, excl, cpus, cells, order)
				h.Op("%s", c06PodOp("upd", uid, c06Excl(excl), cpus, cells, order))
				rm.Update(c06Node, pa)
				shadow[uid] = &c06Shadow{cpus: cpus, cells: c06NonZero(cells)}
				foreignSeen = true
				h.Tag("hist:foreign-update")
				check("foreign-update")
			case kind < 14: // addPodAllocation for an already recorded pod: must be ignored
				if len(shadow) == 0 {
					continue
				}
				uid := c06SortedShadow(shadow)[r.Intn(len(shadow))]
				cpus := c06Subset(r, all, 1, 4)
				cells := map[int]int64{0: 1000}
				excl := c06ExclPolicies[r.Intn(4)]
				h.Op("%s", c06PodOp("add", uid, c06Excl(excl), cpus, cells, []int{0}))
				na := rm.getOrCreateNodeAllocation(c06Node)
				na.addPodAllocation(c06MakeAlloc(uid, excl, cpus, cells, []int{0}), topo)
				h.Tag("hist:duplicate-add")
				check("duplicate-add")
			case kind < 18: // Release
				uid := nextUID + 5
				if len(shadow) > 0 && !r.Chance(1, 8) {
					uid = c06SortedShadow(shadow)[r.Intn(len(shadow))]
				}
				h.Op("rel %d", uid)
				rm.Release(c06Node, types.UID(strconv.Itoa(uid)))
				delete(shadow, uid)
				h.Tag("hist:release")
				check("release")
			case kind < 19: // GetAvailableCPUs with restored (preferred) CPU sets
				np := r.Range(1, 2)
				var sets []cpuset.CPUSet
				var sb strings.Builder
				fmt.Fprintf(&sb, "avail %d", np)
				for i := 0; i < np; i++ {
					s := c06Subset(r, all, 1, 3)
					sets = append(sets, cpuset.NewCPUSet(s...))
					fmt.Fprintf(&sb, " %s", c06Blk(s))
				}
				h.Op("%s", sb.String())
				av, _, _ := rm.GetAvailableCPUs(c06Node, sets...)
				h.Obs("avail %s", vIntsI(c06SortedCPUs(av)))
				h.Tag("hist:avail-preferred")
			default: // getAvailableNUMANodeResources
				ta, _, _ := rm.getAvailableNUMANodeResources(c06Node, tom.GetTopologyOptions(c06Node), nil)
				var keys []int
				for k := range capCell {
					keys = append(keys, k)
				}
				sort.Ints(keys)
				var ob, sb strings.Builder
				fmt.Fprintf(&ob, "navail %d", len(keys))
				sb.WriteString("navail")
				for _, k := range keys {
					q := ta[k/16][c06ResNames[k%16]]
					fmt.Fprintf(&ob, " %d %d", k, capCell[k])
					fmt.Fprintf(&sb, " %d %d", k, q.MilliValue())
				}
				h.Op("%s", ob.String())
				h.Obs("%s", sb.String())
				h.Tag("hist:numa-available")
				// the same query with the options of getResourceOptions (amplified capacities, amplified cpuset charge)
				if opt, err := plugin.getResourceOptions(&preFilterState{requests: corev1.ResourceList{}}, node, false, topologymanager.NUMATopologyHint{}, tom.GetTopologyOptions(c06Node)); err == nil {
					tx, _, _ := rm.getAvailableNUMANodeResources(c06Node, opt.topologyOptions, nil)
					var xb strings.Builder
					xb.WriteString("navail")
					for _, k := range keys {
						q := tx[k/16][c06ResNames[k%16]]
						fmt.Fprintf(&xb, " %d %d", k, q.MilliValue())
					}
					h.Op("navailx")
					h.Obs("%s", xb.String())
					storedOK("numa-available")
				}
			}
		}
		if usedAlloc && len(shadow) > 0 {
			h.Nontrivial()
		}
		h.End()
	}
	if c06AmpBind { // directed stream, OFF by default: see verif_c06_amp_test.go
		for j := 0; j < c06AmpBindCases; j++ {
			r := h.Begin(n + j)
			if r == nil {
				continue
			}
			c06AmpBindCase(h, r, j)
			h.End()
		}
	}
	h.Close("one case = one history (3-10, thorough up to 25 ops) on a real resourceManager over a generated topology " +
		"(1-4 sockets x 1-4 nodes x 1-8 cores x 1/2/4 threads, <= 48 CPUs), sharing limit 1-3, reserved CPUs; ops: real Allocate " +
		"(all bind/exclusive policies, required or not, with/without NUMA hint) followed by Update, foreign Update (sometimes " +
		"not drawn from the free set), duplicate add, Release (known/unknown), queries. non-trivial = at least one real " +
		"Allocate ran and a pod is live at the end. Every 6th case is a goroutine stress case: a node filled to ~2/3 through " +
		"Allocate+Update, then 3 informer goroutines re-asserting the running pods (Update) while the scheduling goroutine " +
		"allocates 3-8 more pods; ledger read at quiescence; non-trivial = some pod was allocated during the race")
}

// c06StressCase: "however allocations and releases interleave", with goroutines.  Running pods are re-asserted by K
// informer goroutines (resourceManager.Update with the allocation the ledger already records) while ONE scheduling
// goroutine (scheduling cycles are serialized) does Allocate + Update for new pods on the same node.  The ledger is read
// only at quiescence; oracle = shadow ledger (C06:over-shared, C06:ledger-refcount) and, per allocation, "only CPUs that
// were free for this pod".  The model sees the scheduling goroutine's steps only: the informer Updates must be no-ops.
func c06StressCase(h *vHarness, r *vRand) {
	topo, dims := c06Topo(r, 32)
	cpc := dims[3]
	var all []int
	for c := range topo.CPUDetails {
		all = append(all, c)
	}
	sort.Ints(all)
	maxRef := 1
	if r.Chance(1, 5) {
		maxRef = 2
	}
	capCell := map[int]int64{}
	var numaRes []NUMANodeResource
	for nd := 0; nd < topo.NumNodes; nd++ {
		capCell[nd*16] = int64(topo.CPUsPerNode()) * 1000
		numaRes = append(numaRes, NUMANodeResource{Node: nd, Resources: corev1.ResourceList{corev1.ResourceCPU: c06Milli(capCell[nd*16])}})
	}
	tom := NewTopologyOptionsManager()
	tom.UpdateTopologyOptions(c06Node, func(o *TopologyOptions) {
		o.CPUTopology = topo
		o.MaxRefCount = maxRef
		o.NUMANodeResources = numaRes
	})
	strategy := schedulingconfig.NUMAMostAllocated
	if r.Bool() {
		strategy = schedulingconfig.NUMALeastAllocated
	}
	rm := &resourceManager{numaAllocateStrategy: strategy, topologyOptionsManager: tom, nodeAllocations: map[string]*NodeAllocation{}}
	node := &corev1.Node{ObjectMeta: metav1.ObjectMeta{Name: c06Node}}
	plugin := &Plugin{resourceManager: rm, topologyOptionsManager: tom}
	// one exclusive policy for all pods of the case: the per-CPU policy marker is last-writer-wins, so with mixed policies
	// and a sharing limit > 1 the dump would depend on the goroutine schedule
	excl := c06ExclPolicies[r.Intn(4)]
	{
		var sb strings.Builder
		fmt.Fprintf(&sb, "cfg %d %d 0 1 %d %d %d %d %d", maxRef, vB(strategy == schedulingconfig.NUMAMostAllocated),
			topo.NumCPUs, topo.NumCores, topo.NumNodes, topo.NumSockets, len(all))
		for _, c := range all {
			info := topo.CPUDetails[c]
			fmt.Fprintf(&sb, " %d %d %d %d", c, info.CoreID, info.NodeID, info.SocketID)
		}
		fmt.Fprintf(&sb, " 0 %d", len(capCell))
		for _, k := range c06SortedCellKeys(capCell) {
			fmt.Fprintf(&sb, " %d %d", k, capCell[k])
		}
		h.Op("%s", sb.String())
	}
	h.Tag("hist:stress")
	h.Tag(fmt.Sprintf("stress-maxref:%d", maxRef))

	shadow := map[int][]int{}
	var running []*PodAllocation
	nextUID := 1
	held := func() map[int]int {
		m := map[int]int{}
		for _, cs := range shadow {
			for _, c := range cs {
				m[c]++
			}
		}
		return m
	}
	// one scheduling step (Allocate, then Update) on the calling goroutine
	schedule := func(maxCPUs int, phase string) bool {
		uid := nextUID
		nextUID++
		bind := c06BindPolicies[r.Intn(3)]
		required := r.Chance(1, 4) && bind != schedulingconfig.CPUBindPolicyDefault
		ncpu := r.Range(1, maxCPUs)
		if bind == schedulingconfig.CPUBindPolicyFullPCPUs && !r.Chance(1, 6) {
			ncpu = (ncpu + cpc - 1) / cpc * cpc
		}
		requests := corev1.ResourceList{corev1.ResourceCPU: c06Milli(int64(ncpu) * 1000)}
		state := &preFilterState{requestCPUBind: true, requests: requests, numCPUsNeeded: ncpu, preferredCPUExclusivePolicy: excl}
		if required {
			state.requiredCPUBindPolicy = bind
		} else {
			state.preferredCPUBindPolicy = bind
		}
		hm := held()
		pod := &corev1.Pod{ObjectMeta: metav1.ObjectMeta{UID: types.UID(strconv.Itoa(uid)), Name: "p", Namespace: "d"}}
		var alloc *PodAllocation
		ok := false
		if h.Guard(func() {
			options, err := plugin.getResourceOptions(state, node, true, topologymanager.NUMATopologyHint{}, tom.GetTopologyOptions(c06Node))
			if err != nil {
				return
			}
			a, st := tryAllocateFromNode(rm, nil, &nodeReservationRestoreStateData{}, options, pod, node)
			if st.IsSuccess() && a != nil {
				alloc, ok = a, true
			}
		}) {
			h.Fail("C06:allocate-panic", "Allocate panicked (%s)", phase)
			return false
		}
		h.Op("alloc %d %d %d %d 1 %d 0 0 1 0 %d", uid, c06Excl(excl), c06BindEnum(bind), vB(required), ncpu, ncpu*1000)
		h.Tag(fmt.Sprintf("stress-%s-ok:%d", phase, vB(ok)))
		if !ok {
			h.Obs("alloc 0")
			return false
		}
		got := c06SortedCPUs(alloc.CPUSet)
		h.Obs("alloc 1 %s 0", c06Blk(got))
		if len(got) != ncpu {
			h.Fail("C06:cpuset-count", "%s: requested %d CPUs, got %d: %v", phase, ncpu, len(got), got)
		}
		for _, c := range got {
			if hm[c] >= maxRef {
				h.Fail("C06:cpuset-not-free", "%s: cpu %d is held by %d running pod(s) (sharing limit %d) and was handed out again", phase, c, hm[c], maxRef)
				break
			}
		}
		rm.Update(c06Node, alloc)
		h.Op("commitq")
		shadow[uid] = got
		running = append(running, alloc)
		return true
	}
	// phase 1 (sequential): fill the node to ~2/3
	for i := 0; i < 10; i++ {
		used := 0
		for _, cs := range shadow {
			used += len(cs)
		}
		if used*3 >= len(all)*2*maxRef {
			break
		}
		schedule(4, "fill")
	}
	// phase 2: K informer goroutines re-assert the running pods while this goroutine schedules new pods
	informed := append([]*PodAllocation(nil), running...)
	var stop int32
	var wg sync.WaitGroup
	k := 3
	if len(informed) == 0 {
		k = 0
	}
	for g := 0; g < k; g++ {
		wg.Add(1)
		go func(g int) {
			defer wg.Done()
			defer func() { _ = recover() }()
			for i := g; atomic.LoadInt32(&stop) == 0; i++ {
				rm.Update(c06Node, informed[i%len(informed)])
			}
		}(g)
	}
	m := r.Range(3, 8)
	succ := 0
	for i := 0; i < m; i++ {
		for y := 0; y < 50; y++ {
			runtime.Gosched()
		}
		if schedule(3, "race") {
			succ++
		}
	}
	atomic.StoreInt32(&stop, 1)
	wg.Wait()
	// quiescence
	h.Op("dump")
	refs, _, avail := c06DumpLedger(h, rm)
	want := held()
	for _, c := range all {
		if refs[c] != want[c] {
			h.Fail("C06:ledger-refcount", "at quiescence: cpu %d refcount %d but %d live pods hold it", c, refs[c], want[c])
			break
		}
	}
	for _, c := range all {
		if refs[c] > maxRef || want[c] > maxRef {
			h.Fail("C06:over-shared", "at quiescence: cpu %d is held by %d pods (ledger refcount %d), sharing limit %d", c, want[c], refs[c], maxRef)
			break
		}
	}
	for _, c := range avail {
		if want[c] >= maxRef {
			h.Fail("C06:avail-wrong", "at quiescence: cpu %d reported available but held by %d pods", c, want[c])
			break
		}
	}
	if succ > 0 && len(informed) > 0 {
		h.Nontrivial()
	}
}

func c06SortedCellKeys(m map[int]int64) []int {
	var out []int
	for k := range m {
		out = append(out, k)
	}
	sort.Ints(out)
	return out
}

// c06Amplify: ceil(x*num/den) for a ratio num/den > 1, x otherwise (x >= 0).
func c06Amplify(x, num, den int64) int64 {
	if num <= den {
		return x
	}
	return (x*num + den - 1) / den
}

func c06SortedKeys(m map[int]bool) []int {
	var out []int
	for k, v := range m {
		if v {
			out = append(out, k)
		}
	}
	sort.Ints(out)
	return out
}

func c06SortedShadow(m map[int]*c06Shadow) []int {
	var out []int
	for k := range m {
		out = append(out, k)
	}
	sort.Ints(out)
	return out
}

func c06NonZero(m map[int]int64) map[int]int64 {
	out := map[int]int64{}
	for k, v := range m {
		if v != 0 {
			out[k] = v
		}
	}
	return out
}

func c06MakeAlloc(uid int, excl schedulingconfig.CPUExclusivePolicy, cpus []int, cells map[int]int64, order []int) *PodAllocation {
	pa := &PodAllocation{UID: types.UID(strconv.Itoa(uid)), CPUSet: cpuset.NewCPUSet(cpus...), CPUExclusivePolicy: excl}
	byNode := map[int]corev1.ResourceList{}
	var nodes []int
	for _, k := range order {
		nd := k / 16
		if byNode[nd] == nil {
			byNode[nd] = corev1.ResourceList{}
			nodes = append(nodes, nd)
		}
		byNode[nd][c06ResNames[k%16]] = c06Milli(cells[k])
	}
	for _, nd := range nodes {
		pa.NUMANodeResources = append(pa.NUMANodeResources, NUMANodeResource{Node: nd, Resources: byNode[nd]})
	}
	return pa
}

// c06Contract: n CPUs, all from the free set (cpuset.CPUSet has no duplicates by construction).
func c06Contract(free map[int]bool, n int, got []int) bool {
	if len(got) != n {
		return false
	}
	for _, c := range got {
		if !free[c] {
			return false
		}
	}
	return true
}

// ---------------------------------------------------------------- picker on arbitrary free sets

func TestVerifC06Pick(t *testing.T) {
	h := vOpen("C06")
	if h == nil {
		t.Skip("VERIF_OUT not set")
	}
	n := h.N(6000, 150000)
	for idx := 0; idx < n; idx++ {
		r := h.Begin(idx)
		if r == nil {
			continue
		}
		topo, dims := c06Topo(r, 64)
		cpc := dims[3]
		var all []int
		for c := range topo.CPUDetails {
			all = append(all, c)
		}
		sort.Ints(all)
		maxRef := 1
		if r.Chance(1, 4) {
			maxRef = r.Range(2, 3)
		}
		// asymmetric free set: per-core and per-cpu knock-outs
		var avail []int
		dens := r.Range(3, 10)
		coreBusy := map[int]bool{}
		for _, c := range all {
			core := topo.CPUDetails[c].CoreID
			if _, ok := coreBusy[core]; !ok {
				coreBusy[core] = !r.Chance(dens, 10)
			}
		}
		for _, c := range all {
			if coreBusy[topo.CPUDetails[c].CoreID] {
				if r.Chance(1, 4) {
					avail = append(avail, c) // partially free core
				}
				continue
			}
			if !r.Chance(1, 12) {
				avail = append(avail, c)
			}
		}
		inAvail := map[int]bool{}
		for _, c := range avail {
			inAvail[c] = true
		}
		allocated := CPUDetails{}
		for _, c := range all {
			if !inAvail[c] || (maxRef > 1 && r.Chance(1, 3)) {
				info := topo.CPUDetails[c]
				info.RefCount = 1
				if maxRef > 1 {
					info.RefCount = r.Range(1, maxRef)
					if inAvail[c] && info.RefCount >= maxRef {
						info.RefCount = maxRef - 1
					}
				}
				info.ExclusivePolicy = c06ExclPolicies[r.Intn(4)]
				allocated[c] = info
			}
		}
		var preferred []int
		if r.Chance(1, 4) {
			preferred = c06Subset(r, all, 1, 4)
		}
		hi := len(avail) + 1
		if hi > 20 {
			hi = 20
		}
		need := r.Range(1, hi)
		bind := c06BindPolicies[r.Intn(3)]
		if bind == schedulingconfig.CPUBindPolicyFullPCPUs && !r.Chance(1, 3) {
			need = (need + cpc - 1) / cpc * cpc
		}
		excl := c06ExclPolicies[r.Intn(4)]
		strategy := schedulingconfig.NUMAMostAllocated
		if r.Bool() {
			strategy = schedulingconfig.NUMALeastAllocated
		}
		// directed stream: many sockets, preferred FullPCPUs, odd request larger than what one socket offers
		// (drives the whole-socket and core-by-core phases of takeCPUs)
		if dims[0] >= 3 && cpc >= 2 && r.Chance(1, 3) {
			bind = schedulingconfig.CPUBindPolicyFullPCPUs
			if len(avail) >= 5 {
				need = r.Range(len(avail)/3, len(avail)-1) | 1
			}
			if r.Bool() {
				preferred = nil
			}
			h.Tag("pick:directed-multisocket-odd")
		}
		h.Tag(fmt.Sprintf("topo:%dx%dx%dx%d", dims[0], dims[1], dims[2], dims[3]))
		var got cpuset.CPUSet
		var err error
		if h.Guard(func() {
			got, err = takePreferredCPUs(topo, maxRef, cpuset.NewCPUSet(avail...), cpuset.NewCPUSet(preferred...), allocated, need, bind, excl, strategy)
		}) {
			h.Op("pick %d %s 0", need, c06Blk(avail))
			h.Obs("pick panic")
			h.Fail("C06:picker-panic", "takePreferredCPUs panicked: need %d avail %v", need, avail)
			h.End()
			continue
		}
		h.Tag(fmt.Sprintf("pick-ok:%d-bind:%d", vB(err == nil), c06BindEnum(bind)))
		{ // the full input, for the picker model
			var sb strings.Builder
			fmt.Fprintf(&sb, "take %d %d %d %d %d %d %d %d %d %d", maxRef, c06Excl(excl), vB(strategy == schedulingconfig.NUMAMostAllocated),
				c06BindEnum(bind), need, topo.NumCPUs, topo.NumCores, topo.NumNodes, topo.NumSockets, len(all))
			for _, c := range all {
				info := topo.CPUDetails[c]
				fmt.Fprintf(&sb, " %d %d %d %d", c, info.CoreID, info.NodeID, info.SocketID)
			}
			fmt.Fprintf(&sb, " %s", c06Blk(avail))
			var ak []int
			for c := range allocated {
				ak = append(ak, c)
			}
			sort.Ints(ak)
			fmt.Fprintf(&sb, " %d", len(ak))
			for _, c := range ak {
				fmt.Fprintf(&sb, " %d %d %d", c, allocated[c].RefCount, c06Excl(allocated[c].ExclusivePolicy))
			}
			fmt.Fprintf(&sb, " %s", c06Blk(preferred))
			h.Op("%s", sb.String())
			if err == nil {
				h.Obs("take 1%s", func() string {
					var b strings.Builder
					for _, c := range c06SortedCPUs(got) {
						fmt.Fprintf(&b, " %d", c)
					}
					return b.String()
				}())
			} else {
				h.Obs("take 0")
			}
		}
		if err == nil {
			s := c06SortedCPUs(got)
			h.Op("pick %d %s %s", need, c06Blk(avail), c06Blk(s))
			h.Obs("pick %d", vB(c06Contract(inAvail, need, s)))
			if len(s) != need {
				h.Fail("C06:cpuset-count", "requested %d CPUs, got %d: %v (free %v; topology %dx%dx%dx%d sockets x nodes x cores x threads, bind policy %q, exclusive %q, maxRefCount %d, strategy %s, preferred %v)",
					need, len(s), s, avail, dims[0], dims[1], dims[2], dims[3], bind, excl, maxRef, strategy, preferred)
			}
			for _, c := range s {
				if !inAvail[c] {
					h.Fail("C06:cpuset-not-free", "cpu %d not in the free set %v", c, avail)
					break
				}
			}
			if need > 1 && len(avail) > need {
				h.Nontrivial()
			}
			// policy verification on the picked set (and, half of the time, on a perturbed set)
			set := s
			if r.Bool() && len(all) > 0 {
				set = c06Subset(r, all, 1, 3)
			}
			for _, pol := range []schedulingconfig.CPUBindPolicy{schedulingconfig.CPUBindPolicyFullPCPUs, schedulingconfig.CPUBindPolicySpreadByPCPUs} {
				var sb strings.Builder
				fmt.Fprintf(&sb, "policy %d %d %d", c06BindEnum(pol), cpc, len(set))
				for _, c := range set {
					fmt.Fprintf(&sb, " %d %d", c, topo.CPUDetails[c].CoreID)
				}
				h.Op("%s", sb.String())
				sat := satisfiedRequiredCPUBindPolicy(pol, cpuset.NewCPUSet(set...), topo) == nil
				h.Obs("policy %d", vB(sat))
				h.Tag(fmt.Sprintf("policy-%d-sat:%d", c06BindEnum(pol), vB(sat)))
				if sat {
					if pol == schedulingconfig.CPUBindPolicyFullPCPUs && !c06FullCores(topo, set) {
						h.Fail("C06:policy-not-satisfied", "FullPCPUs reported satisfied for %v which splits a core", set)
					}
					if pol == schedulingconfig.CPUBindPolicySpreadByPCPUs && !c06Spread(topo, set) {
						h.Fail("C06:policy-not-satisfied", "SpreadByPCPUs reported satisfied for %v which shares a core", set)
					}
				}
			}
		}
		h.End()
	}
	h.Close("takePreferredCPUs on generated topologies (<= 64 CPUs, up to 4 sockets) with asymmetric free sets (busy cores, " +
		"partially free cores), allocated-CPU details with exclusive policies and ref-counts, preferred sets, all bind/exclusive " +
		"policies and both NUMA strategies; satisfiedRequiredCPUBindPolicy on the picked and on random sets. " +
		"non-trivial = success with 1 < need < |free|")
}
