//go:build verif

package nodenumaresource

import (
	"fmt"
	"runtime"
	"sort"
	"strconv"
	"strings"
	"sync"
	"sync/atomic"
	"testing"

	corev1 "k8s.io/api/core/v1"
	metav1 "k8s.io/apimachinery/pkg/apis/meta/v1"
	"k8s.io/apimachinery/pkg/types"
	"k8s.io/client-go/tools/cache"

	schedulingconfig "github.com/koordinator-sh/koordinator/pkg/scheduler/apis/config"
	"github.com/koordinator-sh/koordinator/pkg/scheduler/frameworkext/topologymanager"
)

// C06 `fresh` harness (extension round 3): the goroutine stress stream on the FIRST TOUCH of a node name.
//
// resourceManager.nodeAllocations maps a node name to its ledger; the entry is created by whoever touches the name first
// (getOrCreateNodeAllocation).  After a scheduler restart, for a new node, or for a node that comes back after
// onNodeDelete, the informer replay (Update of every running pod of the node) and the parallel Filter workers
// (GetAvailableCPUs / getAvailableNUMANodeResources) touch the name at the same moment.  One case = 12-30 rounds; a
// round = a node name with no ledger entry (a new name, or a name dropped by the real onNodeDelete), N goroutines
// released by one barrier, goroutine i doing Update(node, pod_i) for its own pod (distinct pods, pairwise disjoint
// CPUs), plus 2-4 reader goroutines doing what Filter does.  At quiescence the ledger of the node must hold exactly the
// N pods (C06:fresh-node-lost-update), RefCount(c) = number of pods holding c, available = topology minus held;
// then one real Allocate on the node must not hand out a held CPU.
// The model sees the round as `fresh`, N silent updates (in uid order; the result does not depend on the order because
// the pods are disjoint) and a dump.

func TestVerifC06Fresh(t *testing.T) {
	h := vOpen("C06")
	if h == nil {
		t.Skip("VERIF_OUT not set")
	}
	n := h.N(120, 2500)
	for idx := 0; idx < n; idx++ {
		r := h.Begin(idx)
		if r == nil {
			continue
		}
		c06FreshCase(h, r)
		h.End()
	}
	h.Close("one case = 12-30 rounds on one resourceManager; a round = a node name without ledger entry (new name, or dropped by the real " +
		"onNodeDelete, plain or tombstone), 3-8 goroutines each doing resourceManager.Update for its own pod (pairwise disjoint CPUs, " +
		"optional NUMA amounts) and 2-4 goroutines doing GetAvailableCPUs / getAvailableNUMANodeResources / GetAllocatedCPUSet, all " +
		"released by one barrier; ledger read at quiescence, then one real Allocate. non-trivial = a round with >= 3 writers ran and the " +
		"Allocate after it succeeded")
}

func c06FreshCase(h *vHarness, r *vRand) {
	var dims [4]int
	for {
		dims = [4]int{r.Range(1, 2), r.Range(1, 2), r.Range(2, 4), r.Range(1, 2)}
		if c := dims[0] * dims[1] * dims[2] * dims[3]; c >= 8 && c <= 32 {
			break
		}
	}
	topo := buildCPUTopologyForTest(dims[0], dims[1], dims[2], dims[3])
	var all []int
	for c := range topo.CPUDetails {
		all = append(all, c)
	}
	sort.Ints(all)
	capCell := map[int]int64{}
	var numaRes []NUMANodeResource
	for nd := 0; nd < topo.NumNodes; nd++ {
		capCell[nd*16] = int64(topo.CPUsPerNode()) * 1000
		numaRes = append(numaRes, NUMANodeResource{Node: nd, Resources: corev1.ResourceList{corev1.ResourceCPU: c06Milli(capCell[nd*16])}})
	}
	tom := NewTopologyOptionsManager()
	strategy := schedulingconfig.NUMAMostAllocated
	if r.Bool() {
		strategy = schedulingconfig.NUMALeastAllocated
	}
	rm := &resourceManager{numaAllocateStrategy: strategy, topologyOptionsManager: tom, nodeAllocations: map[string]*NodeAllocation{}}
	plugin := &Plugin{resourceManager: rm, topologyOptionsManager: tom}
	podH := &podEventHandler{resourceManager: rm}
	{
		var sb strings.Builder
		fmt.Fprintf(&sb, "cfg 1 %d 0 1 %d %d %d %d %d", vB(strategy == schedulingconfig.NUMAMostAllocated),
			topo.NumCPUs, topo.NumCores, topo.NumNodes, topo.NumSockets, len(all))
		for _, c := range all {
			info := topo.CPUDetails[c]
			fmt.Fprintf(&sb, " %d %d %d %d", c, info.CoreID, info.NodeID, info.SocketID)
		}
		fmt.Fprintf(&sb, " 0 %d", len(capCell))
		for _, k := range c06SortedCellKeys(capCell) {
			fmt.Fprintf(&sb, " %d %d", k, capCell[k])
		}
		h.Op("%s", sb.String())
	}
	h.Tag("fresh:case")
	rounds := r.Range(12, 30)
	names := 0
	var reuse []string // names that had a ledger entry and lost it through onNodeDelete
	nextUID := 1
	good := false
	for round := 0; round < rounds; round++ {
		var name string
		if len(reuse) > 0 && r.Chance(1, 3) {
			name = reuse[len(reuse)-1]
			reuse = reuse[:len(reuse)-1]
			h.Tag("fresh:node-back-after-delete")
		} else {
			names++
			name = "f" + strconv.Itoa(names)
			h.Tag("fresh:new-node-name")
		}
		tom.UpdateTopologyOptions(name, func(o *TopologyOptions) {
			o.CPUTopology = topo
			o.MaxRefCount = 1
			o.NUMANodeResources = numaRes
		})
		writers := r.Range(3, 8)
		if writers > len(all)/2 {
			writers = len(all) / 2
		}
		perm := r.Perm(len(all))
		pods := make([]*PodAllocation, writers)
		objs := make([]*corev1.Pod, writers)
		viaInformer := r.Bool() // the writers are informer notifications (podEventHandler.OnAdd of the re-list) or direct Updates (Reserve)
		if viaInformer {
			h.Tag("fresh:writers-via-OnAdd")
		} else {
			h.Tag("fresh:writers-via-Update")
		}
		shadow := map[int]*c06Shadow{}
		h.Op("fresh")
		pos := 0
		for i := 0; i < writers; i++ {
			uid := nextUID
			nextUID++
			k := 1
			if pos+2*(writers-i) <= len(all) && r.Bool() {
				k = 2
			}
			var cpus []int
			for j := 0; j < k; j++ {
				cpus = append(cpus, all[perm[pos]])
				pos++
			}
			sort.Ints(cpus)
			cells := map[int]int64{}
			var order []int
			if r.Bool() {
				for _, c := range cpus {
					cells[topo.CPUDetails[c].NodeID*16] += 1000
				}
				order = c06SortedCellKeys(cells)
			}
			excl := r.Intn(4)
			pods[i] = c06MakeAlloc(uid, c06ExclPolicies[excl], cpus, cells, order)
			shadow[uid] = &c06Shadow{cpus: cpus, cells: cells}
			objs[i] = (&c06EvPod{uid: uid, node: 1, nodeName: name, phase: corev1.PodRunning, st: 2, sp: 2, excl: excl, cpus: cpus, cells: cells}).object()
			h.Op("%s", c06PodOp("updq", uid, excl, cpus, cells, order))
		}
		readers := r.Range(2, 4)
		opts := tom.GetTopologyOptions(name)
		var ready, gate int32
		total := int32(writers + readers)
		barrier := func() { // spin barrier: all goroutines leave within a few nanoseconds of each other
			atomic.AddInt32(&ready, 1)
			for spins := 1; atomic.LoadInt32(&gate) == 0; spins++ {
				if spins%4096 == 0 {
					runtime.Gosched()
				}
			}
		}
		var wg sync.WaitGroup
		var panicked int32
		var mu sync.Mutex
		for i := 0; i < writers; i++ {
			wg.Add(1)
			go func(pa *PodAllocation, obj *corev1.Pod) {
				defer wg.Done()
				defer func() {
					if recover() != nil {
						mu.Lock()
						panicked++
						mu.Unlock()
					}
				}()
				barrier()
				if viaInformer {
					podH.OnAdd(obj, true)
				} else {
					rm.Update(name, pa)
				}
			}(pods[i], objs[i])
		}
		for i := 0; i < readers; i++ {
			wg.Add(1)
			go func(i int) {
				defer wg.Done()
				defer func() {
					if recover() != nil {
						mu.Lock()
						panicked++
						mu.Unlock()
					}
				}()
				barrier()
				switch i % 3 {
				case 0:
					_, _, _ = rm.GetAvailableCPUs(name)
				case 1:
					_, _, _ = rm.getAvailableNUMANodeResources(name, opts, nil)
				default:
					_, _ = rm.GetAllocatedCPUSet(name, types.UID("1"))
				}
			}(i)
		}
		for atomic.LoadInt32(&ready) < total {
			runtime.Gosched()
		}
		atomic.StoreInt32(&gate, 1)
		wg.Wait()
		if panicked > 0 {
			h.Fail("C06:events-panic", "a goroutine panicked on the first touch of node %s", name)
		}
		// quiescence
		h.Op("dump")
		rm.lock.Lock()
		na := rm.nodeAllocations[name]
		rm.lock.Unlock()
		refs := map[int]int{}
		cells := map[int]int64{}
		var recorded, cpuIDs []int
		var sb, rb strings.Builder
		if na != nil {
			for uid := range na.allocatedPods {
				u, _ := strconv.Atoi(string(uid))
				recorded = append(recorded, u)
			}
			for c := range na.allocatedCPUs {
				cpuIDs = append(cpuIDs, c)
			}
			sort.Ints(cpuIDs)
			for i, c := range cpuIDs {
				info := na.allocatedCPUs[c]
				refs[c] = info.RefCount
				if i > 0 {
					sb.WriteByte(' ')
				}
				fmt.Fprintf(&sb, "%d %d %d", c, info.RefCount, c06Excl(info.ExclusivePolicy))
			}
			for node, res := range na.allocatedResources {
				if res == nil {
					continue
				}
				for rn, q := range res.Resources {
					if v := q.MilliValue(); v != 0 {
						cells[node*16+c06Dim(rn)] = v
					}
				}
			}
		}
		sort.Ints(recorded)
		for i, k := range c06SortedCellKeys(cells) {
			if i > 0 {
				rb.WriteByte(' ')
			}
			fmt.Fprintf(&rb, "%d %d", k, cells[k])
		}
		av, _, _ := rm.GetAvailableCPUs(name)
		avail := c06SortedCPUs(av)
		h.Obs("pods %s", vIntsI(recorded))
		h.Obs("cpus %s", sb.String())
		h.Obs("res %s", rb.String())
		h.Obs("avail %s", vIntsI(avail))
		// ---- oracle: the ledger is the sum of the pods that were recorded
		if len(recorded) != writers {
			var lost []int
			in := map[int]bool{}
			for _, u := range recorded {
				in[u] = true
			}
			for u := range shadow {
				if !in[u] {
					lost = append(lost, u)
				}
			}
			sort.Ints(lost)
			h.Fail("C06:fresh-node-lost-update", "round %d, node %s (first touch by %d writers + %d readers): the ledger records pods %v, the Updates of pods %v are lost (their CPUs read as free)",
				round, name, writers, readers, recorded, lost)
		}
		want := map[int]int{}
		wantCells := map[int]int64{}
		for _, sh := range shadow {
			for _, c := range sh.cpus {
				want[c]++
			}
			for k, v := range sh.cells {
				wantCells[k] += v
			}
		}
		for _, c := range all {
			if refs[c] != want[c] {
				h.Fail("C06:ledger-refcount", "round %d, node %s at quiescence: cpu %d refcount %d but %d recorded pods hold it", round, name, c, refs[c], want[c])
				break
			}
		}
		if !c06SameCells(cells, wantCells) {
			h.Fail("C06:ledger-numa", "round %d, node %s at quiescence: cells %v but the recorded pods sum to %v", round, name, cells, wantCells)
		}
		for _, c := range avail {
			if want[c] >= 1 {
				h.Fail("C06:avail-wrong", "round %d, node %s at quiescence: cpu %d reported available but a recorded pod holds it", round, name, c)
				break
			}
		}
		// ---- one scheduling step on the node
		{
			uid := nextUID
			nextUID++
			free := len(all) - len(want)
			ncpu := r.Range(1, 3)
			bind := c06BindPolicies[r.Intn(3)]
			excl := r.Intn(4)
			requests := corev1.ResourceList{corev1.ResourceCPU: c06Milli(int64(ncpu) * 1000)}
			state := &preFilterState{requestCPUBind: true, requests: requests, numCPUsNeeded: ncpu,
				preferredCPUExclusivePolicy: c06ExclPolicies[excl], preferredCPUBindPolicy: bind}
			node := &corev1.Node{ObjectMeta: metav1.ObjectMeta{Name: name}}
			pod := &corev1.Pod{ObjectMeta: metav1.ObjectMeta{UID: types.UID(strconv.Itoa(uid)), Name: "p", Namespace: "d"}}
			var alloc *PodAllocation
			ok := false
			if h.Guard(func() {
				options, err := plugin.getResourceOptions(state, node, true, topologymanager.NUMATopologyHint{}, tom.GetTopologyOptions(name))
				if err != nil {
					return
				}
				a, st := tryAllocateFromNode(rm, nil, &nodeReservationRestoreStateData{}, options, pod, node)
				if st.IsSuccess() && a != nil {
					alloc, ok = a, true
				}
			}) {
				h.Fail("C06:allocate-panic", "Allocate panicked on node %s", name)
				return
			}
			h.Op("alloc %d %d %d 0 1 %d 0 0 1 0 %d", uid, excl, c06BindEnum(bind), ncpu, ncpu*1000)
			h.Tag(fmt.Sprintf("fresh-alloc-ok:%d", vB(ok)))
			if !ok {
				h.Obs("alloc 0")
				if ncpu <= free {
					h.Fail("C06:events-allocate-refused", "node %s: %d CPUs asked, %d free, refused", name, ncpu, free)
				}
			} else {
				got := c06SortedCPUs(alloc.CPUSet)
				h.Obs("alloc 1 %s 0", c06Blk(got))
				for _, c := range got {
					if want[c] >= 1 {
						h.Fail("C06:cpuset-not-free", "round %d, node %s: cpu %d is held by a running pod whose Update was delivered, and was handed out again", round, name, c)
						break
					}
				}
				if writers >= 3 {
					good = true
				}
			}
		}
		// the node goes away (its pods with it); its name may come back
		if r.Chance(1, 2) {
			var obj interface{} = &corev1.Node{ObjectMeta: metav1.ObjectMeta{Name: name}}
			if r.Chance(1, 3) {
				obj = cache.DeletedFinalStateUnknown{Key: name, Obj: obj}
			}
			rm.onNodeDelete(obj)
			rm.lock.Lock()
			_, still := rm.nodeAllocations[name]
			rm.lock.Unlock()
			if still {
				h.Fail("C06:fresh-node-delete-ignored", "onNodeDelete left the ledger entry of node %s", name)
			}
			reuse = append(reuse, name)
		}
	}
	if good {
		h.Nontrivial()
	}
}
