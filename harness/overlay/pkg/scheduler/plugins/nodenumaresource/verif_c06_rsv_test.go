//go:build verif

package nodenumaresource

import (
	"context"
	"encoding/json"
	"fmt"
	"os"
	"sort"
	"strconv"
	"strings"
	"testing"

	nrtv1alpha1 "github.com/k8stopologyawareschedwg/noderesourcetopology-api/pkg/apis/topology/v1alpha1"
	corev1 "k8s.io/api/core/v1"
	metav1 "k8s.io/apimachinery/pkg/apis/meta/v1"
	"k8s.io/apimachinery/pkg/types"
	"k8s.io/kubernetes/pkg/scheduler/framework"

	"github.com/koordinator-sh/koordinator/apis/extension"
	schedulingv1alpha1 "github.com/koordinator-sh/koordinator/apis/scheduling/v1alpha1"
	schedulingconfig "github.com/koordinator-sh/koordinator/pkg/scheduler/apis/config"
	"github.com/koordinator-sh/koordinator/pkg/scheduler/frameworkext"
	"github.com/koordinator-sh/koordinator/pkg/scheduler/frameworkext/topologymanager"
	"github.com/koordinator-sh/koordinator/pkg/util/bitmask"
	reservationutil "github.com/koordinator-sh/koordinator/pkg/util/reservation"
)

// C06 `rsv` harness (extension round 4): NUMA-aware reservations with over-using owners.
//
// The REAL Plugin (package test suite: framework handle, snapshot lister, fake reservation nominator) schedules, on one
// node whose topology arrived through the real NodeResourceTopology handler (op `nrt`), a sequence of reserve pods and
// normal pods without cpu bind:
//     PreFilter -> PreRestoreReservation -> RestoreReservation(matched, unmatched) -> [nominate] -> Filter -> Reserve
// (the NUMA hint is put into the topology-manager store before Filter, so that Admit checks exactly that hint).  Owners
// may take more than their reservation (allocate policy Default / Aligned: reservation + node), later owners are
// nominated to the same reservation, owners and plain pods are released.  The model (op `ralloc`) computes the restore
// arithmetic from ITS ledger (signed remainder) and commits its own allocation.
//
// Oracle (recorded amounts only):
//   R1  per NUMA cell, what live NON-reserve pods hold never exceeds the zone's capacity       C06:rsv-live-over-capacity
//   R2  an allocation hands out exactly the request, on hinted nodes only                      C06:numa-sum / C06:numa-outside-hint
//   R3  the ledger cell = sum of the recorded amounts of reserve pods and live pods            C06:ledger-numa
// Histories in which a reservation OTHER than the nominated one (unmatched, or matched but not nominated) is over-used by
// its owners while a pod is scheduled are generated in every 8th random case (VERIF_C06_RSVOTHER=0 turns them off): the
// unchanged tree violates R1 there (open known finding).  R1 failures on a cell on which such a step happened carry the
// fingerprint C06:rsv-live-over-capacity:other-reservation-overused; everything else - in particular every history in
// which only the NOMINATED reservation is over-used - is plain C06:rsv-live-over-capacity.

var c06RsvOther = os.Getenv("VERIF_C06_RSVOTHER") != "0"

type c06Rsv struct {
	uid    int
	policy schedulingv1alpha1.ReservationAllocatePolicy
	obj    *schedulingv1alpha1.Reservation
	rInfo  *frameworkext.ReservationInfo
	owners map[int]*corev1.Pod
}

func TestVerifC06Rsv(t *testing.T) {
	h := vOpen("C06")
	if h == nil {
		t.Skip("VERIF_OUT not set")
	}
	n := h.N(400, 8000)
	for idx := 0; idx < n; idx++ {
		r := h.Begin(idx)
		if r == nil {
			continue
		}
		c06RsvCase(t, h, r, idx)
		h.End()
	}
	h.Close("one case = one node (1 socket x 1-2 NUMA nodes, ids {0}, {0,1} or {0,2}, 2-8 CPUs each) with 1-2 NUMA-aware reservations " +
		"(allocate policy Default / Aligned) and 4-9 steps: owner pods nominated to a reservation (requests steered to exceed what the " +
		"reservation has left), plain pods through the node path with the reservations matched / unmatched, releases; cases 0-3 are " +
		"directed (R 4 cpu, owner 6 cpu, second owner 4 cpu on an 8-cpu node). non-trivial = an owner holds more than its reservation " +
		"and a later pod was scheduled with that reservation nominated")
}

func c06RsvCase(t *testing.T, h *vHarness, r *vRand, idx int) {
	directed := idx < 4
	other := r.Chance(1, 8) && c06RsvOther && !directed // this case may over-use reservations other than the nominated one
	ids := [][]int{{0}, {0, 1}, {0, 2}}[r.Intn(3)]
	cores, threads := r.Range(2, 4), r.Range(1, 2)
	if directed {
		ids = [][]int{{0}, {0, 1}, {0, 2}, {1, 3}}[idx]
		cores, threads = 4, 2
	}
	perNode := cores * threads
	memPer := int64(r.Range(8, 32)) * 1000
	hiID := ids[len(ids)-1]

	node := &corev1.Node{ObjectMeta: metav1.ObjectMeta{Name: c06Node, Labels: map[string]string{}}}
	policies := []extension.NUMATopologyPolicy{extension.NUMATopologyPolicySingleNUMANode, extension.NUMATopologyPolicyRestricted}
	node.Labels[extension.LabelNUMATopologyPolicy] = string(policies[r.Intn(2)])
	suit := newPluginTestSuit(t, nil, []*corev1.Node{node})
	pl, err := suit.proxyNew(context.TODO(), suit.nodeNUMAResourceArgs, suit.Handle)
	if err != nil || pl == nil {
		h.Op("dump")
		h.Fail("C06:allocate-panic", "the plugin could not be built: %v", err)
		return
	}
	plg := pl.(*Plugin)
	rm := plg.resourceManager.(*resourceManager)
	most := rm.numaAllocateStrategy == schedulingconfig.NUMAMostAllocated

	// ---- topology through the real NodeResourceTopology handler
	capCell := map[int]int64{}
	{
		o := &nrtv1alpha1.NodeResourceTopology{ObjectMeta: metav1.ObjectMeta{Name: c06Node, Annotations: map[string]string{}}}
		ct := extension.CPUTopology{}
		var sb strings.Builder
		fmt.Fprintf(&sb, "nrt %d %d", vB(most), perNode*len(ids))
		cpuID, coreID := 0, 0
		for _, id := range ids {
			for c := 0; c < cores; c++ {
				for p := 0; p < threads; p++ {
					ct.Detail = append(ct.Detail, extension.CPUInfo{ID: int32(cpuID), Core: int32(coreID), Socket: 0, Node: int32(id)})
					fmt.Fprintf(&sb, " %d %d %d 0", cpuID, coreID, id)
					cpuID++
				}
				coreID++
			}
		}
		data, _ := json.Marshal(ct)
		o.Annotations[extension.AnnotationNodeCPUTopology] = string(data)
		fmt.Fprintf(&sb, " 0 0 0 1 0 %d", len(ids))
		for _, id := range ids {
			capCell[id*16] = int64(perNode) * 1000
			capCell[id*16+1] = memPer
			o.Zones = append(o.Zones, nrtv1alpha1.Zone{Type: "Node", Name: fmt.Sprintf("node-%d", id), Resources: nrtv1alpha1.ResourceInfoList{
				{Name: "cpu", Capacity: c06Milli(capCell[id*16]), Allocatable: c06Milli(capCell[id*16])},
				{Name: "memory", Capacity: c06Milli(memPer), Allocatable: c06Milli(memPer)}}})
			fmt.Fprintf(&sb, " 0 %d %d %d", id, capCell[id*16], memPer)
		}
		h.Op("%s", sb.String())
		topoH := &nodeResourceTopologyEventHandler{topologyManager: plg.topologyOptionsManager}
		topoH.OnAdd(o, false)
		stored := plg.topologyOptionsManager.GetTopologyOptions(c06Node)
		got := map[int]int64{}
		for _, nr := range stored.NUMANodeResources {
			for name, q := range nr.Resources {
				got[nr.Node*16+c06Dim(name)] = q.MilliValue()
			}
		}
		var ob strings.Builder
		tp := stored.CPUTopology
		fmt.Fprintf(&ob, "nrt %d %d %d %d 0 %d", tp.NumCPUs, tp.NumCores, tp.NumNodes, tp.NumSockets, len(got))
		for _, k := range c06SortedCellKeys(got) {
			fmt.Fprintf(&ob, " %d %d", k, got[k])
		}
		h.Obs("%s", ob.String())
		if !c06SameCells(got, capCell) {
			h.Fail("C06:zone-capacity-wrong", "stored zone capacities %v, reported %v", got, capCell)
		}
	}
	nodeInfo, err := suit.Handle.SnapshotSharedLister().NodeInfos().Get(c06Node)
	if err != nil {
		h.Fail("C06:allocate-panic", "node not in the snapshot: %v", err)
		return
	}
	h.Tag(fmt.Sprintf("rsv-ids:%v-percpu:%d", ids, perNode))

	// ---- world
	rec := map[int]map[int]int64{} // uid -> recorded cells (reserve pods and pods)
	isRsvPod := map[int]bool{}
	var rsvs []*c06Rsv
	plain := map[int]bool{}
	nextUID := 1
	ownerOf := map[int]*c06Rsv{}

	rsvBlock := func(list []*c06Rsv) string {
		var sb strings.Builder
		fmt.Fprintf(&sb, "%d", len(list))
		for _, x := range list {
			var os []int
			for u := range x.owners {
				os = append(os, u)
			}
			sort.Ints(os)
			fmt.Fprintf(&sb, " %d %s", x.uid, c06Blk(os))
		}
		return sb.String()
	}
	taintedCell := map[int]bool{} // cells on which a pod was scheduled while a non-nominated reservation was over-used
	overUsedCells := func(x *c06Rsv) []int {
		sum := map[int]int64{}
		for u := range x.owners {
			for k, v := range rec[u] {
				sum[k] += v
			}
		}
		var out []int
		for k, v := range sum {
			if v > rec[x.uid][k] {
				out = append(out, k)
			}
		}
		return out
	}
	overUsed := func(x *c06Rsv) bool {
		sum := map[int]int64{}
		for u := range x.owners {
			for k, v := range rec[u] {
				sum[k] += v
			}
		}
		for k, v := range sum {
			if v > rec[x.uid][k] {
				return true
			}
		}
		return false
	}
	check := func(what string, committed bool) {
		if !committed {
			h.Op("dump") // nothing was committed: the model is asked for its ledger explicitly
		}
		_, cells, _ := c06DumpLedger(h, rm)
		want := map[int]int64{}
		live := map[int]int64{}
		for u, c := range rec {
			for k, v := range c {
				want[k] += v
				if !isRsvPod[u] {
					live[k] += v
				}
			}
		}
		if !c06SameCells(cells, want) {
			h.Fail("C06:ledger-numa", "%s: ledger cells %v, recorded amounts sum to %v", what, cells, want)
		}
		for _, k := range c06SortedCellKeys(live) {
			if live[k] > capCell[k] {
				fp := "C06:rsv-live-over-capacity"
				if taintedCell[k] {
					fp += ":other-reservation-overused"
				}
				h.Fail(fp, "%s: NUMA node %d dim %d: live pods hold %d of %d (reservations %s; recorded %v)",
					what, k/16, k%16, live[k], capCell[k], rsvBlock(rsvs), rec)
				break
			}
		}
		// reserved-but-unused capacity given to strangers (not a clause of the property; histogram only)
		prot := map[int]int64{}
		for u, c := range rec {
			if !isRsvPod[u] && ownerOf[u] == nil {
				for k, v := range c {
					prot[k] += v
				}
			}
		}
		for _, x := range rsvs {
			own := map[int]int64{}
			for u := range x.owners {
				for k, v := range rec[u] {
					own[k] += v
				}
			}
			for k, v := range rec[x.uid] {
				if own[k] > v {
					v = own[k]
				}
				prot[k] += v
				delete(own, k)
			}
			for k, v := range own {
				prot[k] += v
			}
		}
		for k, v := range prot {
			if v > capCell[k] {
				h.Tag("rsv:reserved-capacity-short")
				break
			}
		}
	}

	// schedule one pod (or reserve pod) through the real plugin; returns the recorded cells
	schedule := func(pod *corev1.Pod, uid int, hint []int, reqs map[int]int64, matched, unmatched []*c06Rsv, nominated *c06Rsv) (map[int]int64, bool) {
		var sb strings.Builder
		fmt.Fprintf(&sb, "ralloc %d %s %d", uid, c06Blk(hint), len(reqs))
		for _, d := range []int{0, 1} {
			if v, ok := reqs[d]; ok {
				fmt.Fprintf(&sb, " %d %d", d, v)
			}
		}
		nom := -1
		if nominated != nil {
			nom = nominated.uid
		}
		fmt.Fprintf(&sb, " %s %s %d", rsvBlock(matched), rsvBlock(unmatched), nom)
		h.Op("%s", sb.String())

		for _, list := range [][]*c06Rsv{matched, unmatched} {
			for _, x := range list {
				if x != nominated {
					for _, k := range overUsedCells(x) {
						taintedCell[k] = true
						h.Tag("rsv:other-reservation-overused")
					}
				}
			}
		}
		cycleState := framework.NewCycleState()
		var filterOK, reserveOK bool
		var state *preFilterState
		if h.Guard(func() {
			if _, st := plg.PreFilter(context.TODO(), cycleState, pod, nil); !st.IsSuccess() {
				return
			}
			plg.PreRestoreReservation(context.TODO(), cycleState, pod)
			var m, um []*frameworkext.ReservationInfo
			for _, x := range matched {
				m = append(m, x.rInfo)
			}
			for _, x := range unmatched {
				um = append(um, x.rInfo)
			}
			plg.RestoreReservation(context.TODO(), cycleState, pod, m, um, nodeInfo)
			if nominated != nil {
				plg.handle.GetReservationNominator().AddNominatedReservation(pod, c06Node, nominated.rInfo)
			}
			mask, _ := bitmask.NewBitMask(hint...)
			topologymanager.GetStore(cycleState).SetAffinity(c06Node, topologymanager.NUMATopologyHint{NUMANodeAffinity: mask})
			filterOK = plg.Filter(context.TODO(), cycleState, pod, nodeInfo).IsSuccess()
			// Reserve is only reached through a passing Filter in the scheduler; the model answers both
			st := plg.Reserve(context.TODO(), cycleState, pod, c06Node)
			state, _ = getPreFilterState(cycleState)
			reserveOK = st.IsSuccess() && state != nil && state.allocation != nil
		}) {
			h.Obs("rfilter panic")
			h.Fail("C06:allocate-panic", "the reservation path panicked")
			return nil, false
		}
		h.Obs("rfilter %d", vB(filterOK))
		h.Tag(fmt.Sprintf("rsv-filter:%d-reserve:%d-nominated:%d", vB(filterOK), vB(reserveOK), vB(nominated != nil)))
		if !reserveOK {
			h.Obs("ralloc 0")
			if filterOK {
				h.Tag("rsv:filter-passed-reserve-failed")
			}
			return nil, false
		}
		cells := map[int]int64{}
		for _, nr := range state.allocation.NUMANodeResources {
			for name, q := range nr.Resources {
				cells[nr.Node*16+c06Dim(name)] += q.MilliValue()
			}
		}
		var ob strings.Builder
		fmt.Fprintf(&ob, "ralloc 1 %d", len(cells))
		for _, k := range c06SortedCellKeys(cells) {
			fmt.Fprintf(&ob, " %d %d", k, cells[k])
		}
		h.Obs("%s", ob.String())
		// R2
		inHint := map[int]bool{}
		for _, id := range hint {
			inHint[id] = true
		}
		sum := map[int]int64{}
		for k, v := range cells {
			sum[k%16] += v
			if !inHint[k/16] {
				h.Fail("C06:numa-outside-hint", "cell %d is not on a hinted node %v", k, hint)
			}
		}
		for d, v := range reqs {
			if sum[d] != v {
				h.Fail("C06:numa-sum", "dim %d allocated %d != requested %d", d, sum[d], v)
			}
		}
		if !filterOK {
			// Reserve succeeded where Filter refused: not reachable in the scheduler; undo and report as not scheduled
			h.Tag("rsv:reserve-without-filter")
		}
		h.Op("commit") // Reserve already did resourceManager.Update
		return c06NonZero(cells), true
	}
	mkPod := func(uid int, reqs map[int]int64) *corev1.Pod {
		rl := corev1.ResourceList{}
		for d, v := range reqs {
			rl[c06ResNames[d]] = c06Milli(v)
		}
		return &corev1.Pod{ObjectMeta: metav1.ObjectMeta{UID: types.UID(strconv.Itoa(uid)), Name: "p" + strconv.Itoa(uid), Namespace: "d"},
			Spec: corev1.PodSpec{Containers: []corev1.Container{{Name: "c", Resources: corev1.ResourceRequirements{Requests: rl}}}}}
	}
	pickHint := func() []int {
		if len(ids) == 1 || r.Chance(2, 3) {
			return []int{ids[r.Intn(len(ids))]}
		}
		return append([]int{}, ids...)
	}
	mkRsv := func(reqs map[int]int64, hint []int) bool {
		uid := nextUID
		nextUID++
		rl := corev1.ResourceList{}
		for d, v := range reqs {
			rl[c06ResNames[d]] = c06Milli(v)
		}
		pol := schedulingv1alpha1.ReservationAllocatePolicyDefault
		if r.Bool() {
			pol = schedulingv1alpha1.ReservationAllocatePolicyAligned
		}
		obj := &schedulingv1alpha1.Reservation{
			ObjectMeta: metav1.ObjectMeta{UID: types.UID(strconv.Itoa(uid)), Name: "r" + strconv.Itoa(uid)},
			Spec: schedulingv1alpha1.ReservationSpec{AllocatePolicy: pol, Template: &corev1.PodTemplateSpec{
				Spec: corev1.PodSpec{Containers: []corev1.Container{{Name: "c", Resources: corev1.ResourceRequirements{Requests: rl}}}}}},
			Status: schedulingv1alpha1.ReservationStatus{NodeName: c06Node, Phase: schedulingv1alpha1.ReservationAvailable},
		}
		reservePod := reservationutil.NewReservePod(obj)
		// existing reservations with owners are what the reservation plugin hands on as unmatched
		var um []*c06Rsv
		for _, x := range rsvs {
			if len(x.owners) > 0 && (other || !overUsed(x)) {
				um = append(um, x)
			}
		}
		cells, ok := schedule(reservePod, uid, hint, reqs, nil, um, nil)
		if !ok {
			check("reserve pod refused", false)
			return false
		}
		rec[uid] = cells
		isRsvPod[uid] = true
		x := &c06Rsv{uid: uid, policy: pol, obj: obj, rInfo: frameworkext.NewReservationInfo(obj), owners: map[int]*corev1.Pod{}}
		rsvs = append(rsvs, x)
		check("reserve pod scheduled", true)
		return true
	}

	nontrivial := false
	if directed {
		// R (4 cpu) on the highest id, owner A (6 cpu), owner B (4 cpu), then a plain pod for the rest
		hint := []int{hiID}
		if !mkRsv(map[int]int64{0: 4000}, hint) {
			return
		}
		x := rsvs[0]
		for i, want := range []int64{6000, 4000, 2000} {
			uid := nextUID
			nextUID++
			reqs := map[int]int64{0: want}
			pod := mkPod(uid, reqs)
			cells, ok := schedule(pod, uid, hint, reqs, []*c06Rsv{x}, nil, x)
			if ok {
				rec[uid] = cells
				x.owners[uid] = pod
				x.rInfo.AddAssignedPod(pod)
				ownerOf[uid] = x
				if i > 0 && overUsed(x) {
					nontrivial = true
				}
			}
			check(fmt.Sprintf("directed owner %d", i), ok)
			if i > 0 {
				nontrivial = nontrivial || overUsed(x)
			}
		}
		if nontrivial {
			h.Nontrivial()
		}
		return
	}

	// 1-2 reservations first
	for i, k := 0, r.Range(1, 2); i < k; i++ {
		reqs := map[int]int64{0: int64(r.Range(1, perNode)) * 1000}
		if r.Chance(1, 3) {
			reqs[0] = int64(r.Range(1, perNode*1000))
		}
		if r.Chance(1, 3) {
			reqs[1] = int64(r.Range(1, int(memPer/2000))) * 1000
		}
		mkRsv(reqs, pickHint())
	}
	steps := r.Range(4, 9)
	for s := 0; s < steps; s++ {
		// a reservation other than the nominated one must not be over-used unless the gate is open
		var forced *c06Rsv
		if !other {
			for _, x := range rsvs {
				if overUsed(x) {
					forced = x
				}
			}
		}
		switch k := r.Intn(10); {
		case k < 2 && (len(plain) > 0 || len(ownerOf) > 0): // release a pod
			var us []int
			for u := range rec {
				if !isRsvPod[u] {
					us = append(us, u)
				}
			}
			sort.Ints(us)
			u := us[r.Intn(len(us))]
			h.Op("rel %d", u)
			rm.Release(c06Node, types.UID(strconv.Itoa(u)))
			if x := ownerOf[u]; x != nil {
				x.rInfo.RemoveAssignedPod(x.owners[u])
				delete(x.owners, u)
				delete(ownerOf, u)
			}
			delete(plain, u)
			delete(rec, u)
			h.Tag("rsv:release")
			check("release", true)
		default:
			if len(rsvs) == 0 {
				mkRsv(map[int]int64{0: int64(r.Range(1, perNode)) * 1000}, pickHint())
				continue
			}
			uid := nextUID
			nextUID++
			var nominated *c06Rsv
			if forced != nil {
				nominated = forced
			} else if r.Chance(3, 4) {
				nominated = rsvs[r.Intn(len(rsvs))]
			}
			var matched, unmatched []*c06Rsv
			for _, x := range rsvs {
				switch {
				case x == nominated:
					matched = append(matched, x)
				case forced != nil && x != forced && overUsed(x): // (cannot happen: forced is the only over-used one)
				case r.Chance(1, 3):
					matched = append(matched, x)
				case len(x.owners) > 0 || r.Chance(1, 4):
					unmatched = append(unmatched, x)
				}
			}
			// hint: where the nominated reservation lives, usually
			hint := pickHint()
			if nominated != nil && !r.Chance(1, 6) {
				hint = nil
				seen := map[int]bool{}
				for k := range rec[nominated.uid] {
					if !seen[k/16] {
						seen[k/16] = true
						hint = append(hint, k/16)
					}
				}
				sort.Ints(hint)
				if len(hint) == 0 {
					hint = pickHint()
				}
			}
			// request: around what the reservation has left / what the hinted nodes can give
			var room int64
			for _, id := range hint {
				room += capCell[id*16]
				for u, c := range rec {
					if !isRsvPod[u] {
						room -= c[id*16]
					}
				}
			}
			reqs := map[int]int64{}
			switch r.Intn(4) {
			case 0:
				reqs[0] = int64(r.Range(1, perNode)) * 1000
			case 1:
				reqs[0] = room
			case 2:
				reqs[0] = room/2 + 1000
			default:
				reqs[0] = int64(r.Range(1, perNode*1000))
			}
			if reqs[0] <= 0 {
				reqs[0] = 1000
			}
			if r.Chance(1, 4) {
				reqs[1] = int64(r.Range(1, int(memPer/2000))) * 1000
			}
			pod := mkPod(uid, reqs)
			wasOver := nominated != nil && overUsed(nominated)
			cells, ok := schedule(pod, uid, hint, reqs, matched, unmatched, nominated)
			if ok {
				rec[uid] = cells
				// the reservation plugin records the pod as an owner only if it really went through the reservation
				if nominated != nil && c06RsvInLedger(rec, nominated.uid) {
					nominated.owners[uid] = pod
					nominated.rInfo.AddAssignedPod(pod)
					ownerOf[uid] = nominated
				} else {
					plain[uid] = true
				}
				if wasOver {
					nontrivial = true
				}
			} else if wasOver {
				nontrivial = true
			}
			check("pod scheduled", ok)
		}
	}
	if nontrivial {
		h.Nontrivial()
	}
}

func c06RsvInLedger(rec map[int]map[int]int64, uid int) bool { return len(rec[uid]) > 0 }
