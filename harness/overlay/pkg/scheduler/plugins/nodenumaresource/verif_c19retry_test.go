//go:build verif

package nodenumaresource

import (
	"context"
	"fmt"
	"strconv"
	"testing"
	"time"

	corev1 "k8s.io/api/core/v1"
	metav1 "k8s.io/apimachinery/pkg/apis/meta/v1"
	"k8s.io/apimachinery/pkg/types"
	"k8s.io/kubernetes/pkg/scheduler/framework"

	"github.com/koordinator-sh/koordinator/apis/extension"
	schedulingv1alpha1 "github.com/koordinator-sh/koordinator/apis/scheduling/v1alpha1"
	schedulingconfig "github.com/koordinator-sh/koordinator/pkg/scheduler/apis/config"
	"github.com/koordinator-sh/koordinator/pkg/util/cpuset"
	reservationutil "github.com/koordinator-sh/koordinator/pkg/util/reservation"
)

// C19 (NUMA part, extension 5), thorough tier: EXHAUSTIVE small scope of the retry history
//
//	cycle 1: Reserve + PreBind(A1), Bind fails, Unreserve      cycle 2: Reserve + PreBind(A2) on the annotated object, Bind
//
// over all ordered pairs (A1, A2) of 20 allocations (5 CPU sets incl. none x 4 NUMA-record lists incl. none) on a
// 2-NUMA-node 4-CPU topology, for a pod, a Reservation with its resource spec on itself and one with the spec on
// spec.template = 1200 cases.  Oracle: the persisted annotation decodes to exactly A2; a fresh cache fed the object
// equals the live cache (which holds A2 only).  Theorems: prebind_writes_current_allocation,
// retry_persisted_restores_last, retry_rebuilt_eq_live, retry_survivor_is_last.

var c19xCPUs = [][]int{nil, {0}, {0, 1}, {2, 3}, {1, 2}}
var c19xNuma = [][]c19Numa{nil, {{0, 2000, 1 << 20}}, {{1, 2000, 1 << 20}}, {{0, 1000, 0}, {1, 1000, 0}}}

func TestVerifC19NumaRetryExhaustive(t *testing.T) {
	h := vOpen("C19")
	if h == nil {
		t.Skip("VERIF_OUT not set")
	}
	node := &corev1.Node{ObjectMeta: metav1.ObjectMeta{Name: c19NodeName}}
	suit := newPluginTestSuit(t, nil, []*corev1.Node{node})
	p, err := suit.proxyNew(context.TODO(), suit.nodeNUMAResourceArgs, suit.Handle)
	if err != nil {
		t.Fatal(err)
	}
	plg := p.(*Plugin)
	liveRM := plg.resourceManager.(*resourceManager)
	topo := buildCPUTopologyForTest(1, 2, 2, 1)
	nodeOf := make([]int, topo.NumCPUs)
	for c := range nodeOf {
		nodeOf[c] = topo.CPUDetails[c].NodeID
	}
	nA := len(c19xCPUs) * len(c19xNuma)
	total := nA * nA * 3
	n := h.N(total, total)
	for idx := 0; idx < n; idx++ {
		r := h.Begin(idx)
		if r == nil {
			continue
		}
		i1, i2, kind := idx%nA, (idx/nA)%nA, idx/(nA*nA)
		excl := 1 + idx%3
		mk := func(i int) *c19Alloc {
			return &c19Alloc{uid: 1, excl: excl, cpus: c19xCPUs[i%len(c19xCPUs)], numa: c19xNuma[i/len(c19xCPUs)]}
		}
		a1, a2 := mk(i1), mk(i2)
		plg.topologyOptionsManager.UpdateTopologyOptions(c19NodeName, func(o *TopologyOptions) {
			*o = TopologyOptions{CPUTopology: topo, MaxRefCount: 1}
		})
		liveRM.lock.Lock()
		liveRM.nodeAllocations = map[string]*NodeAllocation{}
		liveRM.lock.Unlock()
		h.Op("numa topo 1 %s", vIntsI(nodeOf))
		h.Tag(fmt.Sprintf("kind:%d", kind))
		if vIntsI(a1.cpus) == vIntsI(a2.cpus) {
			h.Tag("retry:same-cpuset")
		} else {
			h.Tag("retry:other-cpuset")
		}
		if i1 != i2 {
			h.Nontrivial()
		}

		pod := &corev1.Pod{ObjectMeta: metav1.ObjectMeta{Namespace: "default", Name: "p1", UID: types.UID("1")}}
		spec := &extension.ResourceSpec{PreferredCPUBindPolicy: extension.CPUBindPolicyFullPCPUs,
			PreferredCPUExclusivePolicy: extension.CPUExclusivePolicy(c19ExclNames[excl])}
		_ = extension.SetResourceSpec(pod, spec)
		var resv *schedulingv1alpha1.Reservation
		if kind != 0 {
			resv = &schedulingv1alpha1.Reservation{
				ObjectMeta: metav1.ObjectMeta{Name: "r1", UID: pod.UID},
				Spec: schedulingv1alpha1.ReservationSpec{
					Template: &corev1.PodTemplateSpec{ObjectMeta: metav1.ObjectMeta{Namespace: "default", Annotations: map[string]string{}}},
					Owners:   []schedulingv1alpha1.ReservationOwner{{Object: &corev1.ObjectReference{Name: "owner"}}},
					TTL:      &metav1.Duration{Duration: time.Hour},
				},
			}
			if kind == 2 {
				_ = extension.SetResourceSpec(&resv.Spec.Template.ObjectMeta, spec)
			} else {
				_ = extension.SetResourceSpec(resv, spec)
			}
		}
		dumpLive := func() []string {
			h.Op("numa dump 0")
			ls := c19Dump(liveRM)
			for _, l := range ls {
				h.Obs("%s", l)
			}
			return ls
		}
		annots := func() map[string]string {
			if resv != nil {
				return resv.Annotations
			}
			return pod.Annotations
		}
		cycle := func(op string, a *c19Alloc) *framework.CycleState {
			pa := &PodAllocation{UID: pod.UID, Namespace: pod.Namespace, Name: pod.Name, CPUSet: cpuset.NewCPUSet(a.cpus...)}
			st := &preFilterState{allocation: pa}
			if len(a.cpus) > 0 {
				st.requestCPUBind = true
				st.preferredCPUBindPolicy = schedulingconfig.CPUBindPolicyFullPCPUs
				st.preferredCPUExclusivePolicy = c19ExclNames[a.excl]
				st.numCPUsNeeded = len(a.cpus)
				pa.CPUExclusivePolicy = st.preferredCPUExclusivePolicy
			}
			for _, x := range a.numa {
				pa.NUMANodeResources = append(pa.NUMANodeResources, NUMANodeResource{Node: x.node, Resources: c19RL(x, r)})
			}
			cs := framework.NewCycleState()
			cs.Write(stateKey, st)
			h.Op("numa %s 1 %d %d %d %s", op, kind, a.excl, len(a.cpus), c19Join(vIntsI(a.cpus), strconv.Itoa(len(a.numa)), c19NumaTok(a.numa)))
			ok := true
			if h.Guard(func() {
				target := pod
				if resv != nil {
					target = reservationutil.NewReservePod(resv)
				}
				if s := plg.Reserve(context.TODO(), cs, target, c19NodeName); !s.IsSuccess() {
					ok = false
				}
				if resv != nil {
					if s := plg.PreBindReservation(context.TODO(), cs, resv, c19NodeName); !s.IsSuccess() {
						ok = false
					}
				} else if s := plg.PreBind(context.TODO(), cs, pod, c19NodeName); !s.IsSuccess() {
					ok = false
				}
			}) || !ok {
				h.Obs("bind-failed")
				h.Fail("C19:numa-persist-failed", "Reserve/PreBind failed for %+v", *a)
				return cs
			}
			rs, gerr := extension.GetResourceStatus(annots())
			if gerr != nil || rs == nil {
				h.Obs("annot ")
				h.Fail("C19:numa-codec-roundtrip", "resource status unreadable: %v", gerr)
				return cs
			}
			bs := make([]int, len(rs.CPUSet))
			for i := range bs {
				bs[i] = int(rs.CPUSet[i])
			}
			h.Obs("annot %s", vIntsI(bs))
			if d := c19StatusDiff(rs, a); d != "" {
				if op == "bind" && c19StatusDiff(rs, a1) == "" {
					h.Fail("C19:numa-prebind-kept-stale-annotation", "the object reached PreBind carrying the resource-status of an earlier attempt (cpus=%v numa=%v) that was unreserved; the cycle that bound it allocated cpus=%v numa=%v but the persisted annotation still reads %q",
						a1.cpus, a1.numa, a.cpus, a.numa, annots()[extension.AnnotationResourceStatus])
				} else {
					h.Fail("C19:numa-codec-roundtrip", "%s", d)
				}
			}
			return cs
		}
		cs1 := cycle("try", a1)
		dumpLive()
		h.Op("numa unres 1")
		if h.Guard(func() {
			target := pod
			if resv != nil {
				target = reservationutil.NewReservePod(resv)
			}
			plg.Unreserve(context.TODO(), cs1, target, c19NodeName)
		}) {
			h.Obs("panic")
		}
		if after := dumpLive(); len(after) < 1 || after[0] != "pods " {
			h.Fail("C19:numa-unreserve-left-allocation", "after Unreserve of the failed attempt the live ledger still records %v", after)
		}
		cycle("bind", a2)
		live := dumpLive()
		pod.Spec.NodeName = c19NodeName
		if resv != nil {
			resv.Status.NodeName = c19NodeName
			resv.Status.Phase = schedulingv1alpha1.ReservationAvailable
		}
		// the restart
		freshTom := NewTopologyOptionsManager()
		freshTom.UpdateTopologyOptions(c19NodeName, func(o *TopologyOptions) {
			*o = TopologyOptions{CPUTopology: topo, MaxRefCount: 1}
		})
		fresh := &resourceManager{numaAllocateStrategy: liveRM.numaAllocateStrategy, topologyOptionsManager: freshTom,
			nodeAllocations: map[string]*NodeAllocation{}}
		fh := &podEventHandler{resourceManager: fresh}
		h.Op("numa fresh")
		h.Op("numa ev 1 0 1")
		if h.Guard(func() {
			if resv != nil {
				reservationutil.NewReservationToPodEventHandler(fh, reservationutil.IsObjValidActiveReservation).OnAdd(resv.DeepCopy(), true)
			} else {
				fh.OnAdd(pod.DeepCopy(), true)
			}
		}) {
			h.Obs("panic")
		}
		h.Op("numa dump 1")
		got := c19Dump(fresh)
		for _, l := range got {
			h.Obs("%s", l)
		}
		if !c19SameLines(got, live) {
			h.Fail("C19:numa-rebuilt-differs", "retry history A1=(cpus %v numa %v) A2=(cpus %v numa %v) kind %d: live=%v rebuilt=%v", a1.cpus, a1.numa, a2.cpus, a2.numa, kind, live, got)
		}
		// from scratch: the live ledger holds A2 and nothing else
		wantPod := ""
		if len(a2.cpus) > 0 || len(a2.numa) > 0 {
			wantPod = fmt.Sprintf("pod 1 %d ", len(a2.cpus)) + c19Join(vIntsI(a2.cpus), strconv.Itoa(len(a2.numa)), c19NumaTok(a2.numa))
		}
		if c19PodLine(live, 1) != wantPod {
			h.Fail("C19:numa-live-not-last-attempt", "the live ledger records %q for the object, the last cycle allocated %q", c19PodLine(live, 1), wantPod)
		}
		h.End()
	}
	h.Close("EXHAUSTIVE: all ordered pairs (A1, A2) of 20 allocations (CPU sets {}, {0}, {0,1}, {2,3}, {1,2} x NUMA records none / node 0 / node 1 / both) on a 2-node 4-CPU topology x {pod, Reservation with the spec on itself, Reservation with the spec on spec.template} = 1200 retry histories (Reserve+PreBind(A1), Unreserve, Reserve+PreBind(A2) on the annotated object, bind, restart); non-trivial = A1 != A2")
}
