//go:build verif

package nodenumaresource

import (
	"encoding/json"
	"fmt"
	"os"
	"sort"
	"strconv"
	"strings"
	"testing"

	nrtv1alpha1 "github.com/k8stopologyawareschedwg/noderesourcetopology-api/pkg/apis/topology/v1alpha1"
	corev1 "k8s.io/api/core/v1"
	metav1 "k8s.io/apimachinery/pkg/apis/meta/v1"
	"k8s.io/apimachinery/pkg/types"
	"k8s.io/client-go/tools/cache"

	"github.com/koordinator-sh/koordinator/apis/extension"
	schedulingconfig "github.com/koordinator-sh/koordinator/pkg/scheduler/apis/config"
	"github.com/koordinator-sh/koordinator/pkg/scheduler/frameworkext/topologymanager"
	"github.com/koordinator-sh/koordinator/pkg/util/bitmask"
)

// C06 `events` harness (extension round 3): the glue between the informers and the ledger.
//
// One case = one history of informer events on TWO cluster nodes (1, 2), delivered to the REAL podEventHandler
// (OnAdd / OnUpdate(old,new) / OnDelete, also with cache.DeletedFinalStateUnknown tombstones and non-pod objects) and the
// REAL nodeResourceTopologyEventHandler (NodeResourceTopology add / update / delete, with and without the cpu-topology
// annotation) on a real resourceManager + topologyManager.  After every event both node ledgers are dumped.
//
// Oracle (written against the WORLD = the latest delivered object of every pod, not against the implementation):
//   B  every pod recorded in the ledger of node n is live (delivered, not deleted, phase not Succeeded/Failed) on n
//   C  every live pod whose latest event carried a well-formed allocation and arrived while its node's topology was
//      valid ("fresh") is recorded on its node with exactly that allocation
//   E  on a SETTLED node (topology valid; every live pod that ever carried an allocation is fresh) the ledger equals
//      the sum of the live pods' allocations: same pod set, RefCount(c) = number of live pods holding c <= sharing
//      limit, every NUMA cell = sum of the live pods' amounts
//   then, after a final re-sync (topology for every node, one status heartbeat per pod): allocations through the real
//   Allocate hand out only CPUs no live pod holds, and succeed when the live pods leave enough room.
//
// Ops (model driver): `etopo <node> <present> <ncpus>`, `epod <kind> <snap>…`, `esel <node>`; a pod snapshot is
// `<uid> <node|0> <terminal> <status 0 absent|1 malformed|2 parsed> <spec 0|1|2> <cpuset 0 ok|1 unparsable> <excl> <nc> cpu… <nn> (cell amt)…`.

// c06UIDSwap (ON by default, VERIF_C06_UIDSWAP=0 turns the stream off): OnUpdate(old, new) whose objects have DIFFERENT
// UIDs - what a shared informer delivers when a pod was deleted and re-created under the same name (StatefulSet) while
// the watch was down: the re-list replaces the stored object and no delete event for the old UID follows.  The handler
// recorded the new pod and never released the old UID (C06:events-replaced-pod-in-ledger); repaired in /repo by 224a2b7
// (OnUpdate: deletePod(old); updatePod(nil, new)).
var c06UIDSwap = os.Getenv("VERIF_C06_UIDSWAP") != "0"

type c06EvPod struct {
	uid      int
	node     int    // 0 = spec.nodeName ""
	nodeName string // overrides the name derived from node (fresh-node harness)
	phase    corev1.PodPhase
	st, sp   int // 0 absent, 1 malformed JSON, 2 well-formed
	cs       int // 1 = cpuset string does not parse
	excl     int
	cpus     []int
	cells    map[int]int64
	beat     int // status-only content (a condition's message); never looked at by the handler
	// world bookkeeping (not part of the object)
	deleted  bool
	fresh    bool
	everOK   bool
	replaced bool // the object was replaced by one with another UID (same name): it no longer exists
	unsure   bool // a well-formed allocation was replaced by a malformed / empty one: what the ledger keeps is not specified
}

func (p *c06EvPod) terminal() bool {
	return p.phase == corev1.PodSucceeded || p.phase == corev1.PodFailed
}

func (p *c06EvPod) live() bool { return !p.deleted && !p.terminal() && p.node != 0 }

func (p *c06EvPod) annOK() bool {
	return p.st == 2 && p.sp != 1 && p.cs == 0 && (len(p.cpus) > 0 || len(p.cells) > 0)
}

func c06EvNodeName(n int) string { return "n" + strconv.Itoa(n) }

func (p *c06EvPod) object() *corev1.Pod {
	pod := &corev1.Pod{
		ObjectMeta: metav1.ObjectMeta{UID: types.UID(strconv.Itoa(p.uid)), Name: "p" + strconv.Itoa(p.uid), Namespace: "d",
			ResourceVersion: strconv.Itoa(p.beat), Annotations: map[string]string{"other": "x"}},
		Status: corev1.PodStatus{Phase: p.phase, Conditions: []corev1.PodCondition{{Type: corev1.PodReady, Message: strconv.Itoa(p.beat)}}},
	}
	if p.node != 0 {
		pod.Spec.NodeName = c06EvNodeName(p.node)
		if p.nodeName != "" {
			pod.Spec.NodeName = p.nodeName
		}
	}
	switch p.st {
	case 1:
		pod.Annotations[extension.AnnotationResourceStatus] = "{\"cpuset\": "
	case 2:
		rs := &extension.ResourceStatus{}
		if p.cs == 1 {
			rs.CPUSet = "0-x"
		} else if len(p.cpus) > 0 {
			var parts []string
			for _, c := range p.cpus {
				parts = append(parts, strconv.Itoa(c))
			}
			rs.CPUSet = strings.Join(parts, ",")
		}
		byNode := map[int]corev1.ResourceList{}
		var nodes []int
		for _, k := range c06SortedCellKeys(p.cells) {
			nd := k / 16
			if byNode[nd] == nil {
				byNode[nd] = corev1.ResourceList{}
				nodes = append(nodes, nd)
			}
			byNode[nd][c06ResNames[k%16]] = c06Milli(p.cells[k])
		}
		for _, nd := range nodes {
			rs.NUMANodeResources = append(rs.NUMANodeResources, extension.NUMANodeResource{Node: int32(nd), Resources: byNode[nd]})
		}
		_ = extension.SetResourceStatus(pod, rs)
	}
	switch p.sp {
	case 1:
		pod.Annotations[extension.AnnotationResourceSpec] = "[1,"
	case 2:
		_ = extension.SetResourceSpec(pod, &extension.ResourceSpec{PreferredCPUExclusivePolicy: extension.CPUExclusivePolicy(c06ExclPolicies[p.excl])})
	}
	return pod
}

func (p *c06EvPod) snap() string {
	excl := p.excl
	if p.sp != 2 {
		excl = 0
	}
	var cpus []int
	cells := map[int]int64{}
	if p.st == 2 {
		if p.cs == 0 {
			cpus = p.cpus
		}
		cells = p.cells
	}
	var sb strings.Builder
	fmt.Fprintf(&sb, "%d %d %d %d %d %d %d %s %d", p.uid, p.node, vB(p.terminal()), p.st, p.sp, p.cs, excl, c06Blk(cpus), len(cells))
	for _, k := range c06SortedCellKeys(cells) {
		fmt.Fprintf(&sb, " %d %d", k, cells[k])
	}
	return sb.String()
}

func (p *c06EvPod) clone() *c06EvPod {
	q := *p
	q.cpus = append([]int(nil), p.cpus...)
	q.cells = map[int]int64{}
	for k, v := range p.cells {
		q.cells[k] = v
	}
	return &q
}

type c06EvLedger struct {
	pods  map[int]*c06Shadow
	refs  map[int]int
	cells map[int]int64
}

// c06EvDump reads the ledger of one cluster node WITHOUT creating it (the dump must not be a "first touch").
func c06EvDump(h *vHarness, rm *resourceManager, n int, prefix bool) c06EvLedger {
	rm.lock.Lock()
	na := rm.nodeAllocations[c06EvNodeName(n)]
	rm.lock.Unlock()
	out := c06EvLedger{pods: map[int]*c06Shadow{}, refs: map[int]int{}, cells: map[int]int64{}}
	var pods, cpuIDs []int
	var sb, rb strings.Builder
	if na != nil {
		na.lock.RLock()
		for uid, pa := range na.allocatedPods {
			u, _ := strconv.Atoi(string(uid))
			pods = append(pods, u)
			sh := &c06Shadow{cpus: c06SortedCPUs(pa.CPUSet), cells: map[int]int64{}}
			for _, nr := range pa.NUMANodeResources {
				for name, q := range nr.Resources {
					if v := q.MilliValue(); v != 0 {
						sh.cells[nr.Node*16+c06Dim(name)] += v
					}
				}
			}
			out.pods[u] = sh
		}
		for c := range na.allocatedCPUs {
			cpuIDs = append(cpuIDs, c)
		}
		sort.Ints(cpuIDs)
		for i, c := range cpuIDs {
			info := na.allocatedCPUs[c]
			out.refs[c] = info.RefCount
			if i > 0 {
				sb.WriteByte(' ')
			}
			fmt.Fprintf(&sb, "%d %d %d", c, info.RefCount, c06Excl(info.ExclusivePolicy))
		}
		for node, res := range na.allocatedResources {
			if res == nil {
				continue
			}
			for name, q := range res.Resources {
				if v := q.MilliValue(); v != 0 {
					out.cells[node*16+c06Dim(name)] = v
				}
			}
		}
		na.lock.RUnlock()
	}
	sort.Ints(pods)
	for i, k := range c06SortedCellKeys(out.cells) {
		if i > 0 {
			rb.WriteByte(' ')
		}
		fmt.Fprintf(&rb, "%d %d", k, out.cells[k])
	}
	pre := ""
	if prefix {
		pre = fmt.Sprintf("n%d ", n)
	}
	h.Obs("%spods %s", pre, vIntsI(pods))
	h.Obs("%scpus %s", pre, sb.String())
	h.Obs("%sres %s", pre, rb.String())
	return out
}

func c06SameInts(a, b []int) bool {
	if len(a) != len(b) {
		return false
	}
	for i := range a {
		if a[i] != b[i] {
			return false
		}
	}
	return true
}

func c06SameCells(a, b map[int]int64) bool {
	a, b = c06NonZero(a), c06NonZero(b)
	if len(a) != len(b) {
		return false
	}
	for k, v := range a {
		if b[k] != v {
			return false
		}
	}
	return true
}

func TestVerifC06Events(t *testing.T) {
	h := vOpen("C06")
	if h == nil {
		t.Skip("VERIF_OUT not set")
	}
	n := h.N(1500, 40000)
	for idx := 0; idx < n; idx++ {
		r := h.Begin(idx)
		if r == nil {
			continue
		}
		c06EventsCase(h, r)
		h.End()
	}
	h.Close("one case = one informer history (6-24 events, thorough up to 40) on two cluster nodes through the real podEventHandler and " +
		"nodeResourceTopologyEventHandler: pod add (pending / assigned, with / without / malformed resource-status and resource-spec " +
		"annotations, already terminal, re-list duplicates), update (status heartbeat, phase -> Running / Succeeded / Failed, nodeName set " +
		"late, allocation annotation set / changed / broken, nodeName cleared), delete (plain, tombstone, non-pod objects), " +
		"NodeResourceTopology add without cpu topology / with it / delete, arriving before or after the pods; allocations of the pods are " +
		"drawn from CPUs and NUMA amounts no other live pod of the node holds; final re-sync + 1-3 real Allocate calls. " +
		"non-trivial = some pod was recorded, some pod left the ledger by termination or deletion, and an Allocate ran after the history")
}

func c06EventsCase(h *vHarness, r *vRand) {
	// one hardware shape for both cluster nodes
	var dims [4]int
	for {
		dims = [4]int{r.Range(1, 2), r.Range(1, 2), r.Range(1, 4), r.Range(1, 2)}
		if dims[0]*dims[1]*dims[2]*dims[3] <= 24 && dims[0]*dims[1]*dims[2]*dims[3] >= 2 {
			break
		}
	}
	raw := buildCPUTopologyForTest(dims[0], dims[1], dims[2], dims[3])
	var all []int
	for c := range raw.CPUDetails {
		all = append(all, c)
	}
	sort.Ints(all)
	numNodes := raw.NumNodes
	cpusPerNode := raw.CPUsPerNode()
	memPerNode := int64(r.Range(8, 64)) * 1000
	capCell := map[int]int64{}
	for nd := 0; nd < numNodes; nd++ {
		capCell[nd*16] = int64(cpusPerNode) * 1000
		capCell[nd*16+1] = memPerNode
	}
	// the NodeResourceTopology objects koordlet reports
	nrt := func(node int, withTopology bool) *nrtv1alpha1.NodeResourceTopology {
		o := &nrtv1alpha1.NodeResourceTopology{ObjectMeta: metav1.ObjectMeta{Name: c06EvNodeName(node), Annotations: map[string]string{}}}
		if withTopology {
			ct := extension.CPUTopology{}
			for _, c := range all {
				info := raw.CPUDetails[c]
				ct.Detail = append(ct.Detail, extension.CPUInfo{ID: int32(c), Core: int32(info.CoreID), Socket: int32(info.SocketID), Node: int32(info.NodeID)})
			}
			data, _ := json.Marshal(ct)
			o.Annotations[extension.AnnotationNodeCPUTopology] = string(data)
		}
		for nd := 0; nd < numNodes; nd++ {
			o.Zones = append(o.Zones, nrtv1alpha1.Zone{Name: fmt.Sprintf("node-%d", nd), Type: "Node", Resources: nrtv1alpha1.ResourceInfoList{
				{Name: "cpu", Capacity: c06Milli(capCell[nd*16]), Allocatable: c06Milli(capCell[nd*16])},
				{Name: "memory", Capacity: c06Milli(memPerNode), Allocatable: c06Milli(memPerNode)},
			}})
		}
		return o
	}
	tom := NewTopologyOptionsManager()
	strategy := schedulingconfig.NUMAMostAllocated
	if r.Bool() {
		strategy = schedulingconfig.NUMALeastAllocated
	}
	rm := &resourceManager{numaAllocateStrategy: strategy, topologyOptionsManager: tom, nodeAllocations: map[string]*NodeAllocation{}}
	podH := &podEventHandler{resourceManager: rm}
	topoH := &nodeResourceTopologyEventHandler{topologyManager: tom}
	plugin := &Plugin{resourceManager: rm, topologyOptionsManager: tom}

	// the stored topology (core ids are re-encoded by convertCPUTopology): read it once from a scratch manager through the
	// real NewTopologyOptions, for the model's cfg line
	stored := NewTopologyOptions(nrt(1, true)).CPUTopology
	{
		var sb strings.Builder
		fmt.Fprintf(&sb, "cfg 1 %d 0 1 %d %d %d %d %d", vB(strategy == schedulingconfig.NUMAMostAllocated),
			stored.NumCPUs, stored.NumCores, stored.NumNodes, stored.NumSockets, len(all))
		for _, c := range all {
			info := stored.CPUDetails[c]
			fmt.Fprintf(&sb, " %d %d %d %d", c, info.CoreID, info.NodeID, info.SocketID)
		}
		fmt.Fprintf(&sb, " 0 %d", len(capCell))
		for _, k := range c06SortedCellKeys(capCell) {
			fmt.Fprintf(&sb, " %d %d", k, capCell[k])
		}
		h.Op("%s", sb.String())
	}
	h.Tag(fmt.Sprintf("ev-topo:%dx%dx%dx%d", dims[0], dims[1], dims[2], dims[3]))

	const nodes = 2
	topoState := map[int]int{} // 0 no NodeResourceTopology, 1 without cpu topology, 2 valid
	lastNRT := map[int]*nrtv1alpha1.NodeResourceTopology{}
	world := map[int]*c06EvPod{}
	nextUID := 1
	recordedEver, leftLedger := false, false

	sortedUIDs := func(f func(p *c06EvPod) bool) []int {
		var out []int
		for u, p := range world {
			if f(p) {
				out = append(out, u)
			}
		}
		sort.Ints(out)
		return out
	}
	// CPUs / NUMA amounts of node nd that no OTHER live pod holds by a well-formed allocation annotation (a pod whose
	// annotation does not parse holds nothing the scheduler could know of)
	freeCPUs := func(nd, except int) []int {
		held := map[int]bool{}
		for u, p := range world {
			if u != except && p.live() && p.node == nd && p.annOK() {
				for _, c := range p.cpus {
					held[c] = true
				}
			}
		}
		var out []int
		for _, c := range all {
			if !held[c] {
				out = append(out, c)
			}
		}
		return out
	}
	freeCell := func(nd, except, k int) int64 {
		left := capCell[k]
		for u, p := range world {
			if u != except && p.live() && p.node == nd && p.annOK() {
				left -= p.cells[k]
			}
		}
		if left < 0 {
			left = 0
		}
		return left
	}
	// drawAlloc gives pod p (to run on node nd) an allocation from what is free there
	drawAlloc := func(p *c06EvPod, nd int) {
		p.st, p.cs = 2, 0
		p.sp = 2
		if r.Chance(1, 5) {
			p.sp = 0
		}
		p.excl = r.Intn(4)
		p.cpus, p.cells = nil, map[int]int64{}
		fc := freeCPUs(nd, p.uid)
		if len(fc) > 0 && !r.Chance(1, 4) { // cpu-bind pod
			want := r.Range(1, 4)
			perm := r.Perm(len(fc))
			for i := 0; i < want && i < len(fc); i++ {
				p.cpus = append(p.cpus, fc[perm[i]])
			}
			sort.Ints(p.cpus)
			if r.Bool() { // allocated with a NUMA hint: per-node cpu amounts as Allocate records them
				per := map[int]int64{}
				for _, c := range p.cpus {
					per[raw.CPUDetails[c].NodeID] += 1000
				}
				for nd2, v := range per {
					if v <= freeCell(nd, p.uid, nd2*16) {
						p.cells[nd2*16] = v
					}
				}
			}
		} else { // NUMA amounts only
			nd2 := r.Intn(numNodes)
			if f := freeCell(nd, p.uid, nd2*16); f > 0 {
				p.cells[nd2*16] = int64(r.Range(1, int(f/250))) * 250
			}
		}
		if r.Chance(1, 3) {
			nd2 := r.Intn(numNodes)
			if f := freeCell(nd, p.uid, nd2*16+1); f >= 1000 {
				p.cells[nd2*16+1] = int64(r.Range(1, int(f/1000))) * 1000
			}
		}
	}
	breakAnn := func(p *c06EvPod) {
		switch r.Intn(4) {
		case 0:
			p.st = 1
		case 1:
			p.sp = 1
		case 2:
			p.cs = 1
			if p.st != 2 {
				p.st = 2
			}
		default:
			p.st, p.cpus, p.cells = 0, nil, map[int]int64{}
		}
	}

	valid := func(nd int) bool { return topoState[nd] == 2 }
	// deliver records the new object as the pod's latest one
	deliver := func(p *c06EvPod) {
		if old := world[p.uid]; old != nil {
			p.everOK = old.everOK
			p.unsure = old.unsure
			if old.annOK() && !p.annOK() && !old.deleted {
				p.unsure = true
			}
		}
		if p.annOK() {
			p.everOK = true
			if p.node != 0 && valid(p.node) {
				p.unsure = false
			}
		}
		p.fresh = p.live() && p.annOK() && valid(p.node)
		p.deleted = false
		world[p.uid] = p
	}

	check := func(what string) {
		for nd := 1; nd <= nodes; nd++ {
			led := c06EvDump(h, rm, nd, true)
			// ledger self-consistency
			for _, c := range all {
				cnt := 0
				for _, sh := range led.pods {
					for _, x := range sh.cpus {
						if x == c {
							cnt++
						}
					}
				}
				if led.refs[c] != cnt {
					h.Fail("C06:ledger-refcount", "%s: node %d cpu %d refcount %d but %d recorded pods hold it", what, nd, c, led.refs[c], cnt)
					break
				}
			}
			sum := map[int]int64{}
			for _, sh := range led.pods {
				for k, v := range sh.cells {
					sum[k] += v
				}
			}
			if !c06SameCells(sum, led.cells) {
				h.Fail("C06:ledger-numa", "%s: node %d cells %v but the recorded pods sum to %v", what, nd, led.cells, sum)
			}
			// B: recorded => live on this node
			recUIDs := make([]int, 0, len(led.pods))
			for u := range led.pods {
				recUIDs = append(recUIDs, u)
			}
			sort.Ints(recUIDs)
			for _, u := range recUIDs {
				recordedEver = true
				p := world[u]
				switch {
				case p == nil:
					h.Fail("C06:events-unknown-pod-in-ledger", "%s: node %d records pod %d that was never delivered", what, nd, u)
				case p.deleted && p.replaced:
					h.Fail("C06:events-replaced-pod-in-ledger", "%s: node %d still records pod %d (cpus %v): OnUpdate delivered an object with another UID in its place (deleted and re-created under the same name while the watch was down), no delete event follows", what, nd, u, led.pods[u].cpus)
				case p.deleted:
					h.Fail("C06:events-deleted-pod-in-ledger", "%s: node %d still records pod %d (cpus %v) after its delete event", what, nd, u, led.pods[u].cpus)
				case p.terminal() && p.node != 0:
					h.Fail("C06:events-terminated-pod-in-ledger", "%s: node %d still records pod %d (cpus %v, cells %v) whose phase is %s", what, nd, u, led.pods[u].cpus, led.pods[u].cells, p.phase)
				case p.node != nd:
					h.Fail("C06:events-pod-on-wrong-node", "%s: node %d records pod %d whose spec.nodeName is node %d", what, nd, u, p.node)
				}
			}
			// C: fresh => recorded with exactly its allocation
			settled := valid(nd)
			for _, u := range sortedUIDs(func(p *c06EvPod) bool { return p.live() && p.node == nd }) {
				p := world[u]
				if p.unsure || (p.everOK && !p.fresh) {
					settled = false
				}
				if !p.fresh {
					continue
				}
				sh := led.pods[u]
				if sh == nil {
					h.Fail("C06:events-live-pod-missing", "%s: live pod %d on node %d (cpus %v, cells %v; topology valid, annotation well-formed at its latest event) is not in the ledger", what, u, nd, p.cpus, p.cells)
					continue
				}
				if !c06SameInts(sh.cpus, p.cpus) || !c06SameCells(sh.cells, p.cells) {
					h.Fail("C06:events-live-pod-wrong-allocation", "%s: pod %d on node %d is recorded with cpus %v cells %v, its annotation says %v %v", what, u, nd, sh.cpus, sh.cells, p.cpus, p.cells)
				}
			}
			// E: settled node => ledger == sum of the live pods' allocations, ref-count <= limit (1)
			if settled {
				h.Tag("ev-settled-check")
				want := map[int]int{}
				wantCells := map[int]int64{}
				npods := 0
				for _, u := range sortedUIDs(func(p *c06EvPod) bool { return p.live() && p.node == nd && p.fresh }) {
					npods++
					for _, c := range world[u].cpus {
						want[c]++
					}
					for k, v := range world[u].cells {
						wantCells[k] += v
					}
				}
				bad := npods != len(led.pods) || !c06SameCells(wantCells, led.cells)
				for _, c := range all {
					if want[c] != led.refs[c] {
						bad = true
					}
				}
				if bad {
					h.Fail("C06:events-ledger-ne-live", "%s: node %d ledger (pods %v, refs %v, cells %v) differs from the live pods' allocations (refs %v, cells %v)", what, nd, recUIDs, led.refs, led.cells, want, wantCells)
				}
				for _, c := range all {
					if led.refs[c] > 1 {
						h.Fail("C06:over-shared", "%s: node %d cpu %d held %d times, sharing limit 1", what, nd, c, led.refs[c])
						break
					}
				}
			}
		}
	}

	podEvent := func(kind int, old, nw *c06EvPod, what string) {
		switch kind {
		case 0:
			h.Op("epod 0 %s", nw.snap())
			obj := nw.object()
			if h.Guard(func() { podH.OnAdd(obj, r.Bool()) }) {
				h.Fail("C06:events-panic", "OnAdd panicked")
			}
			deliver(nw)
		case 1:
			h.Op("epod 1 %s %s", old.snap(), nw.snap())
			o, n2 := old.object(), nw.object()
			if h.Guard(func() { podH.OnUpdate(o, n2) }) {
				h.Fail("C06:events-panic", "OnUpdate panicked")
			}
			deliver(nw)
		case 2, 3:
			h.Op("epod %d %s", kind, nw.snap())
			var obj interface{} = nw.object()
			if kind == 3 {
				obj = cache.DeletedFinalStateUnknown{Key: "d/p" + strconv.Itoa(nw.uid), Obj: nw.object()}
			}
			if h.Guard(func() { podH.OnDelete(obj) }) {
				h.Fail("C06:events-panic", "OnDelete panicked")
			}
			if w := world[nw.uid]; w != nil {
				if led := w.live() && w.everOK; led {
					leftLedger = true
				}
				nw.everOK, nw.unsure = w.everOK, w.unsure
			}
			nw.deleted, nw.fresh = true, false
			world[nw.uid] = nw
		}
		h.Tag("ev:" + what)
		check(what)
	}
	topoEvent := func(nd, to int) {
		ncpus := 0
		if to == 2 {
			ncpus = len(all)
		}
		h.Op("etopo %d %d %d", nd, vB(to != 0), ncpus)
		what := fmt.Sprintf("topology-%d-to-%d", topoState[nd], to)
		if to == 0 {
			var obj interface{} = lastNRT[nd]
			if r.Chance(1, 3) {
				obj = cache.DeletedFinalStateUnknown{Key: c06EvNodeName(nd), Obj: lastNRT[nd]}
			}
			if h.Guard(func() { topoH.OnDelete(obj) }) {
				h.Fail("C06:events-panic", "topology OnDelete panicked")
			}
			lastNRT[nd] = nil
		} else {
			o := nrt(nd, to == 2)
			if lastNRT[nd] == nil {
				if h.Guard(func() { topoH.OnAdd(o, false) }) {
					h.Fail("C06:events-panic", "topology OnAdd panicked")
				}
			} else {
				prev := lastNRT[nd]
				if h.Guard(func() { topoH.OnUpdate(prev, o) }) {
					h.Fail("C06:events-panic", "topology OnUpdate panicked")
				}
			}
			lastNRT[nd] = o
		}
		topoState[nd] = to
		if got := tom.GetTopologyOptions(c06EvNodeName(nd)).CPUTopology.IsValid(); got != (to == 2) {
			h.Fail("C06:events-topology-validity", "node %d: NodeResourceTopology state %d but stored topology valid=%v", nd, to, got)
		}
		h.Tag("ev:" + what)
		check(what)
	}

	// initial topology: known for a node, or late (the pods' events come first)
	for nd := 1; nd <= nodes; nd++ {
		switch r.Intn(5) {
		case 0, 1:
			topoEvent(nd, 2)
		case 2:
			topoEvent(nd, 1)
		}
	}
	steps := r.Range(6, 24)
	if h.Tier == "thorough" && r.Chance(1, 5) {
		steps = r.Range(24, 40)
	}
	for s := 0; s < steps; s++ {
		alive := sortedUIDs(func(p *c06EvPod) bool { return !p.deleted })
		kind := r.Intn(20)
		switch {
		case kind < 5 || len(alive) == 0: // a new pod
			p := &c06EvPod{uid: nextUID, phase: corev1.PodPending, cells: map[int]int64{}}
			nextUID++
			what := "add-pending"
			switch r.Intn(8) {
			case 0, 1: // not yet scheduled
				if r.Chance(1, 4) {
					drawAlloc(p, r.Range(1, nodes)) // annotation patched before the bind
					what = "add-pending-annotated"
				}
			case 2, 3, 4: // assigned with an allocation (re-list after a restart, another scheduler, ...)
				p.node = r.Range(1, nodes)
				p.phase = corev1.PodRunning
				drawAlloc(p, p.node)
				what = "add-assigned"
			case 5: // ordinary pod
				p.node = r.Range(1, nodes)
				p.phase = corev1.PodRunning
				what = "add-plain"
			case 6: // malformed annotations
				p.node = r.Range(1, nodes)
				drawAlloc(p, p.node)
				breakAnn(p)
				what = "add-malformed"
			default: // already finished
				p.node = r.Range(1, nodes)
				drawAlloc(p, p.node)
				p.phase = corev1.PodSucceeded
				what = "add-terminal"
			}
			podEvent(0, nil, p, what)
		case kind < 15: // update
			u := alive[r.Intn(len(alive))]
			old := world[u]
			nw := old.clone()
			nw.beat++
			what := "upd-heartbeat"
			switch sub := r.Intn(12); {
			case sub < 3:
			case sub < 5: // phase change
				if old.terminal() {
					break
				}
				if old.phase == corev1.PodPending && old.node != 0 && r.Bool() {
					nw.phase = corev1.PodRunning
					what = "upd-running"
				} else if old.node != 0 {
					nw.phase = corev1.PodSucceeded
					if r.Bool() {
						nw.phase = corev1.PodFailed
					}
					what = "upd-terminated"
					if old.live() && old.everOK {
						leftLedger = true
					}
				}
			case sub < 8: // nodeName set late
				if old.node == 0 && !old.terminal() {
					nw.node = r.Range(1, nodes)
					if !old.annOK() && r.Chance(3, 4) {
						drawAlloc(nw, nw.node)
					} else if old.annOK() { // the annotation was patched for some node: re-draw for the one it is bound to
						drawAlloc(nw, nw.node)
					}
					what = "upd-bound"
				}
			case sub < 9: // annotation set / changed
				if !old.terminal() {
					nd := old.node
					if nd == 0 {
						nd = r.Range(1, nodes)
					}
					drawAlloc(nw, nd)
					what = "upd-annotation"
				}
			case sub < 10: // annotation broken
				if old.annOK() && r.Chance(1, 2) {
					breakAnn(nw)
					what = "upd-annotation-broken"
				}
			case sub < 11: // nodeName cleared (multi-scheduler clean-up)
				if old.node != 0 && r.Chance(1, 2) {
					nw.node = 0
					what = "upd-unassigned"
					if old.live() && old.everOK {
						leftLedger = true
					}
				}
			default: // re-list: OnAdd for a known pod
				if c06UIDSwap && r.Bool() { // ... or the re-list finds another pod under the same name
					gone := old.clone()
					gone.deleted, gone.replaced, gone.fresh = true, true, false
					world[u] = gone
					if old.live() && old.everOK {
						leftLedger = true
					}
					nw = &c06EvPod{uid: nextUID, phase: corev1.PodRunning, node: old.node, cells: map[int]int64{}}
					nextUID++
					if nw.node == 0 && r.Bool() {
						nw.node = r.Range(1, nodes)
					}
					if nw.node != 0 {
						drawAlloc(nw, nw.node)
					} else {
						nw.phase = corev1.PodPending
					}
					h.Op("epod 1 %s %s", old.snap(), nw.snap())
					o, n2 := old.object(), nw.object()
					podH.OnUpdate(o, n2)
					deliver(nw)
					h.Tag("ev:upd-uid-swap")
					check("upd-uid-swap")
					continue
				}
				podEvent(0, nil, nw, "add-relist")
				continue
			}
			podEvent(1, old, nw, what)
		case kind < 17: // delete
			u := alive[r.Intn(len(alive))]
			nw := world[u].clone()
			if r.Chance(1, 3) {
				podEvent(3, nil, nw, "delete-tombstone")
			} else {
				podEvent(2, nil, nw, "delete")
			}
		case kind < 18: // objects of another type
			h.Op("epod 4")
			if h.Guard(func() {
				podH.OnAdd(&corev1.Node{}, false)
				podH.OnUpdate(&corev1.Node{}, &corev1.Pod{})
				podH.OnUpdate(&corev1.Pod{}, "x")
				podH.OnDelete(cache.DeletedFinalStateUnknown{Key: "k", Obj: &corev1.Node{}})
				podH.OnDelete(nil)
				topoH.OnAdd("x", false)
				topoH.OnDelete(cache.DeletedFinalStateUnknown{Key: "k", Obj: &corev1.Pod{}})
			}) {
				h.Fail("C06:events-panic", "a handler panicked on an object of another type")
			}
			h.Tag("ev:foreign-object")
			check("foreign-object")
		default: // topology
			nd := r.Range(1, nodes)
			to := r.Intn(3)
			if r.Bool() {
				to = 2
			}
			if to == 0 && lastNRT[nd] == nil {
				to = 2
			}
			topoEvent(nd, to)
		}
	}

	// ---- re-sync: every node reports its topology, every pod gets one status heartbeat
	for nd := 1; nd <= nodes; nd++ {
		if !valid(nd) {
			topoEvent(nd, 2)
		}
	}
	for _, u := range sortedUIDs(func(p *c06EvPod) bool { return !p.deleted }) {
		old := world[u]
		nw := old.clone()
		nw.beat++
		podEvent(1, old, nw, "resync-heartbeat")
	}
	unsure := false
	for _, p := range world {
		if p.live() && p.unsure {
			unsure = true
		}
	}
	if unsure {
		h.Tag("ev-unsure-history")
		return
	}

	// ---- allocations after the history, on one node
	nd := r.Range(1, nodes)
	nodeName := c06EvNodeName(nd)
	node := &corev1.Node{ObjectMeta: metav1.ObjectMeta{Name: nodeName}}
	h.Op("esel %d", nd)
	ran := false
	for a := r.Range(1, 3); a > 0; a-- {
		uid := nextUID
		nextUID++
		fc := freeCPUs(nd, -1)
		isFree := map[int]bool{}
		for _, c := range fc {
			isFree[c] = true
		}
		requestCPUBind := !r.Chance(1, 3)
		bind := c06BindPolicies[r.Intn(3)]
		excl := r.Intn(4)
		ncpu := r.Range(1, len(fc)+1)
		if ncpu > 8 {
			ncpu = r.Range(1, 8)
		}
		var hint []int
		affinity := topologymanager.NUMATopologyHint{}
		cpuMilli := int64(ncpu) * 1000
		if !requestCPUBind { // whole-node hint, milli request
			for k := 0; k < numNodes; k++ {
				hint = append(hint, k)
			}
			mask, _ := bitmask.NewBitMask(hint...)
			affinity = topologymanager.NUMATopologyHint{NUMANodeAffinity: mask}
			cpuMilli = int64(r.Range(1, ncpu*4)) * 250
		}
		requests := corev1.ResourceList{corev1.ResourceCPU: c06Milli(cpuMilli)}
		state := &preFilterState{requestCPUBind: requestCPUBind, requests: requests, numCPUsNeeded: ncpu,
			preferredCPUExclusivePolicy: c06ExclPolicies[excl], preferredCPUBindPolicy: bind}
		pod := &corev1.Pod{ObjectMeta: metav1.ObjectMeta{UID: types.UID(strconv.Itoa(uid)), Name: "p", Namespace: "d"}}
		var alloc *PodAllocation
		ok := false
		if h.Guard(func() {
			options, err := plugin.getResourceOptions(state, node, requestCPUBind, affinity, tom.GetTopologyOptions(nodeName))
			if err != nil {
				return
			}
			a, st := tryAllocateFromNode(rm, nil, &nodeReservationRestoreStateData{}, options, pod, node)
			if st.IsSuccess() && a != nil {
				alloc, ok = a, true
			}
		}) {
			h.Fail("C06:allocate-panic", "Allocate panicked after the event history")
			return
		}
		h.Op("alloc %d %d %d 0 %d %d %d %s 1 0 %d", uid, excl, c06BindEnum(bind), vB(requestCPUBind), ncpu, vB(hint != nil), c06Blk(hint), cpuMilli)
		ran = true
		h.Tag(fmt.Sprintf("ev-alloc-ok:%d-bind:%d", vB(ok), vB(requestCPUBind)))
		var sumFree int64
		for k := 0; k < numNodes; k++ {
			sumFree += freeCell(nd, -1, k*16)
		}
		if !ok {
			h.Obs("alloc 0")
			if requestCPUBind && ncpu <= len(fc) {
				h.Fail("C06:events-allocate-refused", "node %d: %d CPUs asked, the live pods leave %d free (%v), but the allocation was refused", nd, ncpu, len(fc), fc)
			}
			if !requestCPUBind && cpuMilli <= sumFree {
				h.Fail("C06:events-allocate-refused", "node %d: %dm cpu asked over all NUMA nodes, the live pods leave %dm, but the allocation was refused", nd, cpuMilli, sumFree)
			}
			continue
		}
		got := c06SortedCPUs(alloc.CPUSet)
		cells := map[int]int64{}
		for _, nr := range alloc.NUMANodeResources {
			for name, q := range nr.Resources {
				cells[nr.Node*16+c06Dim(name)] += q.MilliValue()
			}
		}
		{
			var sb strings.Builder
			fmt.Fprintf(&sb, "alloc 1 %s %d", c06Blk(got), len(cells))
			for _, k := range c06SortedCellKeys(cells) {
				fmt.Fprintf(&sb, " %d %d", k, cells[k])
			}
			h.Obs("%s", sb.String())
		}
		if requestCPUBind && len(got) != ncpu {
			h.Fail("C06:cpuset-count", "requested %d CPUs, got %d: %v", ncpu, len(got), got)
		}
		for _, c := range got {
			if !isFree[c] {
				h.Fail("C06:cpuset-not-free", "node %d: cpu %d is held by a live pod and was handed out again (free by the live pods: %v)", nd, c, fc)
				break
			}
		}
		for _, k := range c06SortedCellKeys(cells) {
			if cells[k] > freeCell(nd, -1, k) {
				h.Fail("C06:numa-over-free", "node %d: cell %d gets %d but the live pods leave %d", nd, k, cells[k], freeCell(nd, -1, k))
			}
		}
		h.Op("commit")
		rm.Update(nodeName, alloc)
		np := &c06EvPod{uid: uid, node: nd, phase: corev1.PodRunning, st: 2, sp: 2, excl: excl, cpus: got, cells: c06NonZero(cells), everOK: true, fresh: true}
		world[uid] = np
		// dump in the format of the history harness (pods / cpus / res / avail)
		led := c06EvDump(h, rm, nd, false)
		av, _, _ := rm.GetAvailableCPUs(nodeName)
		h.Obs("avail %s", vIntsI(c06SortedCPUs(av)))
		for _, c := range all {
			if led.refs[c] > 1 {
				h.Fail("C06:over-shared", "after allocate+update: node %d cpu %d held %d times, sharing limit 1", nd, c, led.refs[c])
				break
			}
		}
	}
	if recordedEver && leftLedger && ran {
		h.Nontrivial()
	}
}
