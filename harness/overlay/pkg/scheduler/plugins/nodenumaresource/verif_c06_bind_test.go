//go:build verif

package nodenumaresource

import (
	"context"
	"fmt"
	"sort"
	"strconv"
	"testing"

	corev1 "k8s.io/api/core/v1"
	metav1 "k8s.io/apimachinery/pkg/apis/meta/v1"
	"k8s.io/apimachinery/pkg/types"
	"k8s.io/kubernetes/pkg/scheduler/framework"

	"github.com/koordinator-sh/koordinator/apis/extension"
	schedulingconfig "github.com/koordinator-sh/koordinator/pkg/scheduler/apis/config"
	"github.com/koordinator-sh/koordinator/pkg/util/cpuset"
)

// C06 `bind` harness (extension round 3): the round trip  Reserve -> PreBind (annotations) -> informer.
//
// `update_atomic_safe` assumes that the informer's Update of a running pod re-asserts the allocation the ledger already
// records.  Here the REAL Plugin (built by the package's own test suite: framework handle, snapshot lister) runs
// Reserve (Allocate + resourceManager.Update) and PreBind (writes the resource-status / resource-spec annotations) for a
// pod, the bound pod object (annotations + spec.nodeName) is then delivered to the real podEventHandler.OnUpdate, and
//   R1  the allocation written into the annotation is the one Reserve recorded (C06:bind-annotation-differs)
//   R2  the informer's re-assertion leaves the ledger exactly as Reserve left it, CPU ids, ref-counts, exclusive marks,
//       NUMA amounts (C06:bind-roundtrip-changed-ledger)
//   R3  Reserve hands out only CPUs no live pod holds (C06:cpuset-not-free); Unreserve and completion give them back
// The model sees Reserve's commit as `eupd` (manager Update with the recorded allocation), Unreserve as `erel`, and the
// informer notifications as `epod` events decoded by the event model.

func TestVerifC06Bind(t *testing.T) {
	h := vOpen("C06")
	if h == nil {
		t.Skip("VERIF_OUT not set")
	}
	n := h.N(400, 8000)
	for idx := 0; idx < n; idx++ {
		r := h.Begin(idx)
		if r == nil {
			continue
		}
		c06BindCase(t, h, r)
		h.End()
	}
	h.Close("one case = one node (2-24 CPUs, 1-2 sockets x 1-2 NUMA nodes x 1-4 cores x 1-2 threads) and 3-8 pods through the real " +
		"Plugin.Reserve + Plugin.PreBind (all bind / exclusive policies, preferred or required, with or without a resource-spec " +
		"annotation of their own), each bound object delivered to the real podEventHandler.OnUpdate; then Unreserve (bind failed), " +
		"completion (phase Succeeded) or delete for some of them; then (round 6) a preemption dry run over the pods bound at that moment: 2-7 real " +
		"Plugin.RemovePod / Plugin.AddPod steps on a preemptor's cycle state (every 6th case may AddPod a pod that was not removed), the preemptor's " +
		"Filter + allocate after every step with a request around the room at the end of the walk. non-trivial = at least two pods were reserved, bound and re-asserted")
}

func c06BindCase(t *testing.T, h *vHarness, r *vRand) {
	var dims [4]int
	for {
		dims = [4]int{r.Range(1, 2), r.Range(1, 2), r.Range(1, 4), r.Range(1, 2)}
		if c := dims[0] * dims[1] * dims[2] * dims[3]; c >= 2 && c <= 24 {
			break
		}
	}
	topo := buildCPUTopologyForTest(dims[0], dims[1], dims[2], dims[3])
	var all []int
	for c := range topo.CPUDetails {
		all = append(all, c)
	}
	sort.Ints(all)
	const nodeName = "n1"
	node := &corev1.Node{ObjectMeta: metav1.ObjectMeta{Name: nodeName}}
	suit := newPluginTestSuit(t, nil, []*corev1.Node{node})
	pl, err := suit.proxyNew(context.TODO(), suit.nodeNUMAResourceArgs, suit.Handle)
	if err != nil || pl == nil {
		h.Op("epod 4")
		h.Fail("C06:allocate-panic", "the plugin could not be built: %v", err)
		return
	}
	plg := pl.(*Plugin)
	rm := plg.resourceManager.(*resourceManager)
	var numaRes []NUMANodeResource
	for nd := 0; nd < topo.NumNodes; nd++ {
		numaRes = append(numaRes, NUMANodeResource{Node: nd, Resources: corev1.ResourceList{corev1.ResourceCPU: c06Milli(int64(topo.CPUsPerNode()) * 1000)}})
	}
	plg.topologyOptionsManager.UpdateTopologyOptions(nodeName, func(o *TopologyOptions) {
		o.CPUTopology = topo
		o.MaxRefCount = 1
		o.NUMANodeResources = numaRes
	})
	podH := &podEventHandler{resourceManager: rm}
	h.Op("etopo 1 1 %d", len(all))
	c06EvDump(h, rm, 1, true)
	c06EvDump(h, rm, 2, true)
	h.Tag(fmt.Sprintf("bind-topo:%dx%dx%dx%d", dims[0], dims[1], dims[2], dims[3]))

	type livePod struct {
		obj  *corev1.Pod
		snap *c06EvPod
	}
	live := map[int]*livePod{}
	held := func() map[int]int {
		m := map[int]int{}
		for _, p := range live {
			for _, c := range p.snap.cpus {
				m[c] = p.snap.uid
			}
		}
		return m
	}
	dumpBoth := func() c06EvLedger {
		led := c06EvDump(h, rm, 1, true)
		c06EvDump(h, rm, 2, true)
		return led
	}
	sameLedger := func(a, b c06EvLedger) bool {
		if len(a.pods) != len(b.pods) || len(a.refs) != len(b.refs) || !c06SameCells(a.cells, b.cells) {
			return false
		}
		for u, p := range a.pods {
			q := b.pods[u]
			if q == nil || !c06SameInts(p.cpus, q.cpus) || !c06SameCells(p.cells, q.cells) {
				return false
			}
		}
		for c, v := range a.refs {
			if b.refs[c] != v {
				return false
			}
		}
		return true
	}
	exclMarks := func() string {
		na := rm.getOrCreateNodeAllocation(nodeName)
		var ids []int
		for c := range na.allocatedCPUs {
			ids = append(ids, c)
		}
		sort.Ints(ids)
		s := ""
		for _, c := range ids {
			s += fmt.Sprintf("%d:%d ", c, c06Excl(na.allocatedCPUs[c].ExclusivePolicy))
		}
		return s
	}
	checkLive := func(what string, led c06EvLedger) {
		want := map[int]int{}
		for _, p := range live {
			for _, c := range p.snap.cpus {
				want[c]++
			}
		}
		bad := len(led.pods) != len(live)
		for _, c := range all {
			if led.refs[c] != want[c] {
				bad = true
			}
			if led.refs[c] > 1 {
				h.Fail("C06:over-shared", "%s: cpu %d held %d times, sharing limit 1", what, c, led.refs[c])
			}
		}
		if bad {
			h.Fail("C06:events-ledger-ne-live", "%s: ledger refs %v (pods %d) differ from the live pods' CPUs %v (pods %d)", what, led.refs, len(led.pods), want, len(live))
		}
	}

	nextUID := 1
	roundTrips := 0
	steps := r.Range(3, 8)
	for s := 0; s < steps; s++ {
		if len(live) > 0 && r.Chance(1, 4) { // a bound pod completes or is deleted
			var uids []int
			for u := range live {
				uids = append(uids, u)
			}
			sort.Ints(uids)
			u := uids[r.Intn(len(uids))]
			lp := live[u]
			if r.Bool() {
				done := lp.snap.clone()
				done.phase = corev1.PodSucceeded
				doneObj := lp.obj.DeepCopy()
				doneObj.Status.Phase = corev1.PodSucceeded
				h.Op("epod 1 %s %s", lp.snap.snap(), done.snap())
				podH.OnUpdate(lp.obj, doneObj)
				h.Tag("bind:completed")
			} else {
				h.Op("epod 2 %s", lp.snap.snap())
				podH.OnDelete(lp.obj)
				h.Tag("bind:deleted")
			}
			delete(live, u)
			checkLive("pod gone", dumpBoth())
			continue
		}
		uid := nextUID
		nextUID++
		hm := held()
		free := len(all) - len(hm)
		if free == 0 {
			continue
		}
		ncpu := r.Range(1, free)
		if ncpu > 6 {
			ncpu = r.Range(1, 6)
		}
		bind := c06BindPolicies[r.Intn(3)]
		required := r.Chance(1, 4) && bind != schedulingconfig.CPUBindPolicyDefault
		if bind == schedulingconfig.CPUBindPolicyFullPCPUs && !r.Chance(1, 6) {
			ncpu = (ncpu + dims[3] - 1) / dims[3] * dims[3]
		}
		excl := r.Intn(4)
		pod := &corev1.Pod{ObjectMeta: metav1.ObjectMeta{UID: types.UID(strconv.Itoa(uid)), Name: "p" + strconv.Itoa(uid), Namespace: "d"},
			Status: corev1.PodStatus{Phase: corev1.PodPending}}
		ownSpec := r.Chance(2, 3) // the pod declares a resource-spec annotation itself
		state := &preFilterState{requestCPUBind: true, numCPUsNeeded: ncpu,
			requests: corev1.ResourceList{corev1.ResourceCPU: c06Milli(int64(ncpu) * 1000)}}
		if ownSpec {
			spec := &extension.ResourceSpec{PreferredCPUExclusivePolicy: extension.CPUExclusivePolicy(c06ExclPolicies[excl])}
			if required {
				spec.RequiredCPUBindPolicy = extension.CPUBindPolicy(bind)
			} else {
				spec.PreferredCPUBindPolicy = extension.CPUBindPolicy(bind)
			}
			_ = extension.SetResourceSpec(pod, spec)
			state.preferredCPUExclusivePolicy = c06ExclPolicies[excl]
		} else {
			excl = 0
		}
		if required {
			state.requiredCPUBindPolicy = bind
		} else {
			state.preferredCPUBindPolicy = bind
		}
		cycleState := framework.NewCycleState()
		cycleState.Write(stateKey, state)
		before := c06EvDump(h, rm, 1, true)
		c06EvDump(h, rm, 2, true)
		h.Op("epod 4") // (the dump above belongs to this no-op line)
		ok := false
		if h.Guard(func() { ok = plg.Reserve(context.TODO(), cycleState, pod, nodeName).IsSuccess() }) {
			h.Fail("C06:allocate-panic", "Reserve panicked")
			return
		}
		h.Tag(fmt.Sprintf("bind-reserve-ok:%d-required:%d", vB(ok), vB(required)))
		if !ok || state.allocation == nil {
			h.Op("epod 4")
			after := dumpBoth()
			if !sameLedger(before, after) {
				h.Fail("C06:bind-failed-reserve-changed-ledger", "Reserve failed but the ledger changed: %v -> %v", before.refs, after.refs)
			}
			if !required && ncpu <= free {
				h.Fail("C06:events-allocate-refused", "Reserve refused %d CPUs with %d free and no required policy", ncpu, free)
			}
			continue
		}
		// what Reserve recorded
		rec := rm.getOrCreateNodeAllocation(nodeName).allocatedPods[pod.UID]
		recCPUs := c06SortedCPUs(rec.CPUSet)
		recCells := map[int]int64{}
		for _, nr := range rec.NUMANodeResources {
			for name, q := range nr.Resources {
				recCells[nr.Node*16+c06Dim(name)] += q.MilliValue()
			}
		}
		recSnap := &c06EvPod{uid: uid, node: 1, phase: corev1.PodPending, st: 2, sp: 2, excl: c06Excl(rec.CPUExclusivePolicy), cpus: recCPUs, cells: c06NonZero(recCells)}
		h.Op("%s", c06PodOp("eupd 1", uid, c06Excl(rec.CPUExclusivePolicy), recCPUs, recSnap.cells, c06SortedCellKeys(recSnap.cells)))
		afterReserve := dumpBoth()
		marksReserve := exclMarks()
		if len(recCPUs) != ncpu {
			h.Fail("C06:cpuset-count", "Reserve: requested %d CPUs, recorded %v", ncpu, recCPUs)
		}
		for _, c := range recCPUs {
			if o, busy := hm[c]; busy {
				h.Fail("C06:cpuset-not-free", "Reserve handed cpu %d to pod %d while live pod %d holds it", c, uid, o)
				break
			}
		}
		if r.Chance(1, 6) { // the bind fails: Unreserve
			plg.Unreserve(context.TODO(), cycleState, pod, nodeName)
			h.Op("erel 1 %d", uid)
			after := dumpBoth()
			if !sameLedger(before, after) {
				h.Fail("C06:bind-unreserve-leaks", "after Reserve + Unreserve the ledger is %v, before it was %v", after.refs, before.refs)
			}
			h.Tag("bind:unreserved")
			continue
		}
		// PreBind writes the annotations; the bind sets spec.nodeName; the informer delivers the update
		bound := pod.DeepCopy()
		if st := plg.PreBind(context.TODO(), cycleState, bound, nodeName); !st.IsSuccess() {
			h.Op("epod 4")
			dumpBoth()
			h.Fail("C06:bind-prebind-failed", "PreBind failed after a successful Reserve: %v", st.Message())
			continue
		}
		bound.Spec.NodeName = nodeName
		// the snapshot of the bound object, read from its annotations
		ns := &c06EvPod{uid: uid, node: 1, phase: corev1.PodPending, cells: map[int]int64{}}
		if raw, okA := bound.Annotations[extension.AnnotationResourceStatus]; okA {
			ns.st = 1
			if rs, err := extension.GetResourceStatus(bound.Annotations); err == nil {
				ns.st = 2
				if cs, err := cpuset.Parse(rs.CPUSet); err == nil {
					ns.cpus = cs.ToSlice()
				} else {
					ns.cs = 1
				}
				for _, nr := range rs.NUMANodeResources {
					for name, q := range nr.Resources {
						if v := q.MilliValue(); v != 0 {
							ns.cells[int(nr.Node)*16+c06Dim(name)] += v
						}
					}
				}
			}
			_ = raw
		}
		if _, okA := bound.Annotations[extension.AnnotationResourceSpec]; okA {
			ns.sp = 1
			if sp, err := extension.GetResourceSpec(bound.Annotations); err == nil {
				ns.sp = 2
				ns.excl = c06Excl(schedulingconfig.CPUExclusivePolicy(sp.PreferredCPUExclusivePolicy))
			}
		}
		if !c06SameInts(ns.cpus, recCPUs) || !c06SameCells(ns.cells, recCells) || ns.st != 2 || ns.cs != 0 {
			h.Fail("C06:bind-annotation-differs", "pod %d: Reserve recorded cpus %v cells %v, PreBind wrote cpus %v cells %v (status kind %d)", uid, recCPUs, recCells, ns.cpus, ns.cells, ns.st)
		}
		oldSnap := &c06EvPod{uid: uid, node: 0, phase: corev1.PodPending, sp: map[bool]int{true: 2, false: 0}[ownSpec], excl: excl, cells: map[int]int64{}}
		h.Op("epod 1 %s %s", oldSnap.snap(), ns.snap())
		podH.OnUpdate(pod, bound)
		afterInformer := dumpBoth()
		if !sameLedger(afterReserve, afterInformer) || exclMarks() != marksReserve {
			h.Fail("C06:bind-roundtrip-changed-ledger", "pod %d: the informer's re-assertion changed the ledger: after Reserve refs %v marks %s, after OnUpdate refs %v marks %s",
				uid, afterReserve.refs, marksReserve, afterInformer.refs, exclMarks())
		}
		live[uid] = &livePod{obj: bound, snap: ns}
		checkLive("bound + re-asserted", afterInformer)
		roundTrips++
		h.Tag(fmt.Sprintf("bind:roundtrip-ownspec:%d", vB(ownSpec)))
	}
	if roundTrips >= 2 {
		h.Nontrivial()
	}
	// extension round 6: a preemption dry run over the pods that are bound now (drawn after everything above)
	objs, cpusOf := map[int]*corev1.Pod{}, map[int][]int{}
	for u, lp := range live {
		objs[u] = lp.obj
		cpusOf[u] = lp.snap.cpus
	}
	c06BindDryRun(h, r, plg, rm, node, all, dims[3], objs, cpusOf)
}
