//go:build verif

package nodenumaresource

import (
	"context"
	"fmt"
	"sort"
	"strconv"
	"strings"
	"testing"
	"time"

	corev1 "k8s.io/api/core/v1"
	"k8s.io/apimachinery/pkg/api/resource"
	metav1 "k8s.io/apimachinery/pkg/apis/meta/v1"
	"k8s.io/apimachinery/pkg/types"
	"k8s.io/client-go/tools/cache"
	"k8s.io/kubernetes/pkg/scheduler/framework"

	"github.com/koordinator-sh/koordinator/apis/extension"
	schedulingv1alpha1 "github.com/koordinator-sh/koordinator/apis/scheduling/v1alpha1"
	schedulingconfig "github.com/koordinator-sh/koordinator/pkg/scheduler/apis/config"
	"github.com/koordinator-sh/koordinator/pkg/util/cpuset"
	reservationutil "github.com/koordinator-sh/koordinator/pkg/util/reservation"
)

// C19 harness (NUMA part).  One case = one allocation history on one node:
//   live cache  = the plugin's own resourceManager, driven through the real Reserve (ledger
//                 update) + PreBind (persist on the pod object) and the real pod event handler
//                 for later update / delete / terminate events;
//   fresh cache = a new resourceManager fed ONLY the surviving annotated objects through the
//                 real pod event handler, in a shuffled order with duplicate adds and
//                 same-allocation updates.
// After every live op and after every replay the canonical ledger is emitted; the oracle
// recomputes what must be taken from the surviving allocations alone.

const c19NodeName = "c19-node"

var c19ExclNames = []schedulingconfig.CPUExclusivePolicy{"", schedulingconfig.CPUExclusivePolicyNone,
	schedulingconfig.CPUExclusivePolicyPCPULevel, schedulingconfig.CPUExclusivePolicyNUMANodeLevel}

// c19SpecShapeNames: what the user's resource-spec annotation declares (ext8)
var c19SpecShapeNames = []string{"absent", "bind-only", "excl-only", "both", "required-bind"}

func c19ExclEnum(p schedulingconfig.CPUExclusivePolicy) int {
	for i, x := range c19ExclNames {
		if x == p {
			return i
		}
	}
	return 99
}

type c19Numa struct {
	node     int
	cpu, mem int64
}

type c19Alloc struct {
	uid  int
	excl int
	cpus []int // sorted
	numa []c19Numa
}

func c19NumaTok(ns []c19Numa) string {
	var sb strings.Builder
	for i, x := range ns {
		if i > 0 {
			sb.WriteByte(' ')
		}
		fmt.Fprintf(&sb, "%d %d %d", x.node, x.cpu, x.mem)
	}
	return sb.String()
}

func c19Join(parts ...string) string {
	var out []string
	for _, p := range parts {
		if p != "" {
			out = append(out, p)
		}
	}
	return strings.Join(out, " ")
}

func c19RL(x c19Numa, r *vRand) corev1.ResourceList {
	rl := corev1.ResourceList{}
	// a zero amount is either an explicit zero quantity or an absent key
	if x.cpu != 0 || r.Bool() {
		rl[corev1.ResourceCPU] = *resource.NewMilliQuantity(x.cpu, resource.DecimalSI)
	}
	if x.mem != 0 || r.Bool() {
		rl[corev1.ResourceMemory] = *resource.NewQuantity(x.mem, resource.BinarySI)
	}
	if len(rl) == 0 && r.Bool() {
		return nil
	}
	return rl
}

func c19RLVals(rl corev1.ResourceList) (int64, int64) {
	c := rl[corev1.ResourceCPU]
	m := rl[corev1.ResourceMemory]
	return c.MilliValue(), m.Value()
}

// c19Dump reads the canonical ledger of one resourceManager.
func c19Dump(rm *resourceManager) []string {
	na := rm.getOrCreateNodeAllocation(c19NodeName)
	var lines []string
	var uids []int
	for uid, pa := range na.allocatedPods {
		if pa.CPUSet.IsEmpty() && len(pa.NUMANodeResources) == 0 {
			continue // an empty allocation takes nothing; not part of the allocation state
		}
		u, _ := strconv.Atoi(string(uid))
		uids = append(uids, u)
	}
	sort.Ints(uids)
	lines = append(lines, "pods "+vIntsI(uids))
	for _, u := range uids {
		pa := na.allocatedPods[types.UID(strconv.Itoa(u))]
		var ns []c19Numa
		for _, nr := range pa.NUMANodeResources {
			c, m := c19RLVals(nr.Resources)
			ns = append(ns, c19Numa{nr.Node, c, m})
		}
		lines = append(lines, fmt.Sprintf("pod %d %d ", u, pa.CPUSet.Size())+
			c19Join(vIntsI(pa.CPUSet.ToSlice()), strconv.Itoa(len(ns)), c19NumaTok(ns)))
	}
	var ids []int
	for c := range na.allocatedCPUs {
		ids = append(ids, c)
	}
	sort.Ints(ids)
	var cs []string
	for _, c := range ids {
		info := na.allocatedCPUs[c]
		cs = append(cs, fmt.Sprintf("%d %d %d", c, info.RefCount, c19ExclEnum(info.ExclusivePolicy)))
	}
	lines = append(lines, "cpus "+strings.Join(cs, " "))
	var nodes []int
	for n := range na.allocatedResources {
		nodes = append(nodes, n)
	}
	sort.Ints(nodes)
	var rs []string
	for _, n := range nodes {
		if na.allocatedResources[n] == nil {
			continue
		}
		c, m := c19RLVals(na.allocatedResources[n].Resources)
		if c != 0 || m != 0 {
			rs = append(rs, fmt.Sprintf("%d %d %d", n, c, m))
		}
	}
	lines = append(lines, "res "+strings.Join(rs, " "))
	showSets := func(get func(int) []string, keys []int) string {
		var out []string
		for _, n := range keys {
			var us []int
			for _, s := range get(n) {
				u, _ := strconv.Atoi(s)
				us = append(us, u)
			}
			sort.Ints(us)
			for _, u := range us {
				out = append(out, fmt.Sprintf("%d %d", n, u))
			}
		}
		return strings.Join(out, " ")
	}
	var shKeys, siKeys []int
	for n := range na.sharedNode {
		shKeys = append(shKeys, n)
	}
	for n := range na.singleNUMANode {
		siKeys = append(siKeys, n)
	}
	sort.Ints(shKeys)
	sort.Ints(siKeys)
	lines = append(lines, "shared "+showSets(func(n int) []string { return na.sharedNode[n].UnsortedList() }, shKeys))
	lines = append(lines, "single "+showSets(func(n int) []string { return na.singleNUMANode[n].UnsortedList() }, siKeys))
	av, _, _ := rm.GetAvailableCPUs(c19NodeName)
	lines = append(lines, "avail "+vIntsI(av.ToSlice()))
	return lines
}

// c19StripMarks removes the exclusive-policy marker from a "cpus" line.
func c19StripMarks(lines []string) []string {
	out := make([]string, len(lines))
	for i, l := range lines {
		if strings.HasPrefix(l, "cpus ") {
			f := strings.Fields(l[5:])
			var keep []string
			for j := 0; j+3 <= len(f); j += 3 {
				keep = append(keep, f[j], f[j+1])
			}
			out[i] = "cpus " + strings.Join(keep, " ")
		} else {
			out[i] = l
		}
	}
	return out
}

// c19OnlyMixedMarks: the two dumps differ in nothing but the exclusive-policy marker, and only on
// CPUs whose holders disagreed on the policy at some point of the history.
func c19OnlyMixedMarks(a, b []string, mixed map[int]bool) bool {
	if !c19SameLines(c19StripMarks(a), c19StripMarks(b)) {
		return false
	}
	for i := range a {
		if a[i] == b[i] || !strings.HasPrefix(a[i], "cpus ") {
			continue
		}
		fa, fb := strings.Fields(a[i][5:]), strings.Fields(b[i][5:])
		if len(fa) != len(fb) {
			return false
		}
		for j := 0; j+3 <= len(fa); j += 3 {
			if fa[j+2] != fb[j+2] {
				c, _ := strconv.Atoi(fa[j])
				if !mixed[c] {
					return false
				}
			}
		}
	}
	return true
}

// c19ForeignMarker: in a ledger rebuilt by adds only, some CPU of `among` carries an exclusive-policy
// marker that is the policy of none of its surviving holders (a rebuilt marker is always written by a
// holder, so this means a holder's policy was not read back).
func c19ForeignMarker(dump []string, holders map[int]map[int]bool, among map[int]bool) bool {
	for _, l := range dump {
		if !strings.HasPrefix(l, "cpus ") {
			continue
		}
		f := strings.Fields(l[5:])
		for j := 0; j+3 <= len(f); j += 3 {
			c, _ := strconv.Atoi(f[j])
			e, _ := strconv.Atoi(f[j+2])
			if among[c] && !holders[c][e] {
				return true
			}
		}
	}
	return false
}

func c19Union(a, b map[int]bool) map[int]bool {
	out := map[int]bool{}
	for k := range a {
		out[k] = true
	}
	for k := range b {
		out[k] = true
	}
	return out
}

func c19SameLines(a, b []string) bool {
	if len(a) != len(b) {
		return false
	}
	for i := range a {
		if a[i] != b[i] {
			return false
		}
	}
	return true
}

type c19Obj struct {
	pod   *corev1.Pod // as the API server holds it
	resv  *schedulingv1alpha1.Reservation // non-nil: the object is a Reservation (its reserve pod holds the allocation)
	prev  *schedulingv1alpha1.Reservation // the active version before it terminated
	alloc *c19Alloc   // what the scheduler allocated (nil for hand-made objects)
	term  bool
}

func TestVerifC19Numa(t *testing.T) {
	h := vOpen("C19")
	if h == nil {
		t.Skip("VERIF_OUT not set")
	}
	node := &corev1.Node{ObjectMeta: metav1.ObjectMeta{Name: c19NodeName}}
	suit := newPluginTestSuit(t, nil, []*corev1.Node{node})
	p, err := suit.proxyNew(context.TODO(), suit.nodeNUMAResourceArgs, suit.Handle)
	if err != nil {
		t.Fatal(err)
	}
	plg := p.(*Plugin)
	liveRM := plg.resourceManager.(*resourceManager)
	tom := plg.topologyOptionsManager

	n := h.N(400, 8000)
	for idx := 0; idx < n; idx++ {
		r := h.Begin(idx)
		if r == nil {
			continue
		}
		// ---- topology
		dims := [4]int{r.Range(1, 2), r.Range(1, 2), r.Range(1, 4), r.Range(1, 2)}
		topo := buildCPUTopologyForTest(dims[0], dims[1], dims[2], dims[3])
		nCPU := topo.NumCPUs
		maxRef := 1
		if r.Chance(1, 4) {
			maxRef = r.Range(2, 3)
		}
		nodeOf := make([]int, nCPU)
		for c := 0; c < nCPU; c++ {
			nodeOf[c] = topo.CPUDetails[c].NodeID
		}
		tom.UpdateTopologyOptions(c19NodeName, func(o *TopologyOptions) {
			*o = TopologyOptions{CPUTopology: topo, MaxRefCount: maxRef}
		})
		liveRM.lock.Lock()
		liveRM.nodeAllocations = map[string]*NodeAllocation{}
		liveRM.lock.Unlock()
		liveH := &podEventHandler{resourceManager: liveRM}
		h.Op("numa topo %d %s", maxRef, vIntsI(nodeOf))
		h.Tag(fmt.Sprintf("topo:%dx%dx%dx%d", dims[0], dims[1], dims[2], dims[3]))

		objs := map[int]*c19Obj{}
		nextUID := 1
		mixedExclShare := false // two holders of one CPU disagree on the exclusive policy
		mixedCPUs := map[int]bool{} // CPUs that were at some point held concurrently under different policies
		shadowCPUs := map[int]bool{} // CPUs ever held by a Reservation whose exclusive policy sits on spec.template
		refs := func() map[int]int {
			m := map[int]int{}
			for _, o := range objs {
				if o.alloc != nil && !o.term {
					for _, c := range o.alloc.cpus {
						m[c]++
					}
				}
			}
			return m
		}
		liveUIDs := func() []int {
			var us []int
			for u := range objs {
				us = append(us, u)
			}
			sort.Ints(us)
			return us
		}
		dumpLive := func() []string {
			h.Op("numa dump 0")
			ls := c19Dump(liveRM)
			for _, l := range ls {
				h.Obs("%s", l)
			}
			return ls
		}
		// c19Del: the shape in which client-go hands a delete to OnDelete: the object pointer, or (a delete
		// missed during a relist) cache.DeletedFinalStateUnknown{Key, Obj} BY VALUE, about 2 in 5 (pods AND
		// Reservations: the adapter's filter unwraps the tombstone since /repo c70eb65; before that it rejected it
		// and the Reservation's CPUs stayed taken in the live ledger: C19:numa-rebuilt-differs).
		delShape := func(obj interface{}, what string) interface{} {
			tomb := r.Chance(2, 5)
			if !tomb {
				h.Tag("del:plain")
				h.Tag("del:plain:" + what)
				return obj
			}
			h.Tag("del:tombstone")
			h.Tag("del:tombstone:" + what)
			key, _ := cache.MetaNamespaceKeyFunc(obj) // ns/name (a Reservation is cluster-scoped: name)
			return cache.DeletedFinalStateUnknown{Key: key, Obj: obj}
		}
		deliver := func(eh *podEventHandler, cacheID, kind, uid int) {
			o := objs[uid]
			h.Op("numa ev %d %d %d", cacheID, kind, uid)
			if h.Guard(func() {
				if o.resv != nil {
					// Reservations reach the same handler through the reservation informer's adapter: exactly the
					// handler registerPodEventHandler registers (FilteringResourceEventHandler{IsObjValidActiveReservation}
					// around ReservationToPodEventHandler around the pod handler)
					rh := reservationutil.NewReservationToPodEventHandler(eh, reservationutil.IsObjValidActiveReservation)
					switch kind {
					case 0:
						rh.OnAdd(o.resv.DeepCopy(), false)
					case 1:
						old := o.resv
						if o.prev != nil && cacheID == 0 {
							old = o.prev // the live scheduler saw the active version before
							o.prev = nil
						}
						rh.OnUpdate(old.DeepCopy(), o.resv.DeepCopy())
					case 2:
						// the model does not distinguish the two shapes: the same release is expected
						rh.OnDelete(delShape(o.resv.DeepCopy(), "resv"))
					}
					return
				}
				switch kind {
				case 0:
					eh.OnAdd(o.pod.DeepCopy(), false)
				case 1:
					eh.OnUpdate(o.pod.DeepCopy(), o.pod.DeepCopy())
				case 2:
					eh.OnDelete(delShape(o.pod.DeepCopy(), "pod"))
				}
			}) {
				h.Obs("panic")
			}
		}
		// deliverX: an event that carries the UNBOUND version of the stored pod (PreBind wrote the annotations on
		// the still unbound pod, Bind sets spec.nodeName later): k 0 = add(unbound), 1 = update(unbound -> bound,
		// SAME annotations).  What a scheduler that did not run Reserve itself sees first.
		deliverX := func(eh *podEventHandler, cacheID, k, uid int) {
			o := objs[uid]
			unbound := o.pod.DeepCopy()
			unbound.Spec.NodeName = ""
			h.Op("numa evx %d %d %d", cacheID, k, uid)
			if h.Guard(func() {
				if k == 0 {
					eh.OnAdd(unbound, true)
				} else {
					eh.OnUpdate(unbound, o.pod.DeepCopy())
				}
			}) {
				h.Obs("panic")
			}
		}
		// degenerate delete events: a tombstone whose Obj is not what the handler expects (another type, nil, a
		// typed nil pointer), or a bare object of a foreign type.  Delivered to BOTH registered entry points (the
		// pod handler and the reservation adapter).  They must be ignored: no op line, the ledger is unchanged.
		badDelete := func(eh *podEventHandler) {
			key := "default/p0"
			if us := liveUIDs(); len(us) > 0 && r.Bool() {
				o := objs[us[r.Intn(len(us))]]
				key = o.pod.Namespace + "/" + o.pod.Name // the key of an existing object does not make the event valid
				if o.resv != nil && r.Bool() {
					key = o.resv.Name
				}
			}
			var forPod, forResv interface{}
			v := r.Intn(5)
			switch v {
			case 0: // Obj of a foreign type
				forPod = cache.DeletedFinalStateUnknown{Key: key, Obj: &corev1.Node{ObjectMeta: metav1.ObjectMeta{Name: c19NodeName}}}
				forResv = forPod
			case 1: // Obj nil
				forPod = cache.DeletedFinalStateUnknown{Key: key}
				forResv = forPod
			case 2: // typed nil pointer of the expected type
				forPod = cache.DeletedFinalStateUnknown{Key: key, Obj: (*corev1.Pod)(nil)}
				forResv = cache.DeletedFinalStateUnknown{Key: key, Obj: (*schedulingv1alpha1.Reservation)(nil)}
			case 3: // each handler gets the other informer's type inside the tombstone
				forPod = cache.DeletedFinalStateUnknown{Key: key, Obj: &schedulingv1alpha1.Reservation{ObjectMeta: metav1.ObjectMeta{Name: "r0"}}}
				forResv = cache.DeletedFinalStateUnknown{Key: key, Obj: &corev1.Pod{ObjectMeta: metav1.ObjectMeta{Namespace: "default", Name: "p0"},
					Spec: corev1.PodSpec{NodeName: c19NodeName}}}
			default: // a bare foreign object / an untyped nil
				forPod = &corev1.Node{ObjectMeta: metav1.ObjectMeta{Name: c19NodeName}}
				forResv = nil
			}
			if h.Guard(func() {
				eh.OnDelete(forPod)
				reservationutil.NewReservationToPodEventHandler(eh, reservationutil.IsObjValidActiveReservation).OnDelete(forResv)
			}) {
				h.Obs("panic")
				h.Fail("C19:numa-tombstone-badobj", "a delete event with a malformed payload (variant %d) panicked", v)
			}
			h.Tag("del:tombstone-badobj")
			h.Tag(fmt.Sprintf("del:tombstone-badobj:%d", v))
		}

		steps := r.Range(2, 10)
		for s := 0; s < steps; s++ {
			if r.Chance(1, 12) { // ---- degenerate delete event: ignored, the ledger (dumped) is unchanged
				before := c19Dump(liveRM)
				badDelete(liveH)
				if after := dumpLive(); !c19SameLines(before, after) {
					h.Fail("C19:numa-tombstone-badobj", "a delete event with a malformed payload changed the live ledger: before=%v after=%v", before, after)
				}
			}
			us := liveUIDs()
			k := r.Intn(20)
			switch {
			case k < 11 || len(us) == 0: // ---- bind a new pod
				a := &c19Alloc{uid: nextUID, excl: r.Intn(4)}
				nextUID++
				rc := refs()
				var free, held []int
				for c := 0; c < nCPU; c++ {
					if rc[c] < maxRef {
						free = append(free, c)
					}
					if rc[c] > 0 {
						held = append(held, c)
					}
				}
				mode := r.Intn(10)
				pick := func(from []int, num, den int) []int {
					var out []int
					for _, c := range from {
						if r.Chance(num, den) {
							out = append(out, c)
						}
					}
					return out
				}
				switch {
				case mode < 2: // NUMA amounts only, no CPU set
				case mode < 4 && len(held) > 0: // reuse CPUs already held (pod allocated from a reservation)
					a.cpus = pick(held, 1, 2)
					h.Tag("bind:reuse-held")
				case mode < 6 && len(free) > 0: // a contiguous block of free CPUs
					lo := r.Intn(len(free))
					hi := lo + r.Range(1, 6)
					if hi > len(free) {
						hi = len(free)
					}
					a.cpus = append([]int(nil), free[lo:hi]...)
				default:
					a.cpus = pick(free, 1, 3)
				}
				sort.Ints(a.cpus)
				// NUMA amounts
				nn := r.Intn(3)
				if len(a.cpus) == 0 && nn == 0 && !r.Chance(1, 8) {
					nn = 1
				}
				seen := map[int]bool{}
				for i := 0; i < nn; i++ {
					nd := r.Intn(topo.NumNodes)
					if seen[nd] && !r.Chance(1, 10) {
						continue
					}
					seen[nd] = true
					x := c19Numa{node: nd}
					switch r.Intn(5) {
					case 0: // zero amounts
					case 1:
						x.cpu = int64(r.Range(1, 8)) * 1000
					case 2:
						x.cpu = int64(r.Range(1, 7999))
						x.mem = int64(r.Range(1, 1<<20))
					default:
						x.cpu = int64(r.Range(0, 8)) * 1000
						x.mem = int64(r.Range(0, 64)) << 20
					}
					a.numa = append(a.numa, x)
				}
				// holders of a shared CPU usually agree on the exclusive policy (a pod and its reservation)
				holderExcl := map[int]bool{}
				for _, c := range a.cpus {
					for _, o := range objs {
						if o.alloc != nil && !o.term {
							for _, c2 := range o.alloc.cpus {
								if c2 == c {
									holderExcl[o.alloc.excl] = true
								}
							}
						}
					}
				}
				if len(holderExcl) == 1 && r.Chance(7, 8) {
					for e := range holderExcl {
						a.excl = e
					}
				}
				// ---- resource-spec shape (ext8): what the USER declared on the object before it was scheduled.
				//   0 absent (no annotation), 1 bind policy only, 2 exclusive policy ONLY (no bind policy: PreFilter
				//   defaults it from the plugin args, appendResourceSpecIfMissed must write the defaulted policy back
				//   INTO the declared spec), 3 both, 4 requiredCPUBindPolicy (+ exclusive, preferred bind 1/2)
				// The persisted object is whatever the real PreBind / PreBindReservation leaves behind.
				specShape := r.Intn(5)
				if specShape <= 1 {
					a.excl = 0 // nothing declared: PreFilter reads "" and Reserve marks the CPUs with ""
				}
				var declared *extension.ResourceSpec
				switch specShape {
				case 1:
					declared = &extension.ResourceSpec{PreferredCPUBindPolicy: extension.CPUBindPolicyFullPCPUs}
				case 2:
					declared = &extension.ResourceSpec{PreferredCPUExclusivePolicy: extension.CPUExclusivePolicy(c19ExclNames[a.excl])}
				case 3:
					declared = &extension.ResourceSpec{PreferredCPUBindPolicy: extension.CPUBindPolicyFullPCPUs,
						PreferredCPUExclusivePolicy: extension.CPUExclusivePolicy(c19ExclNames[a.excl])}
				case 4:
					declared = &extension.ResourceSpec{RequiredCPUBindPolicy: extension.CPUBindPolicyFullPCPUs,
						PreferredCPUExclusivePolicy: extension.CPUExclusivePolicy(c19ExclNames[a.excl])}
					if r.Bool() {
						declared.PreferredCPUBindPolicy = extension.CPUBindPolicyFullPCPUs
					}
				}
				// the value "Default" of either bind field (1/3 of the declared bind fields): PreFilter resolves it to the
				// plugin-args default, appendResourceSpecIfMissed must write the resolved policy back over it
				if declared != nil && declared.PreferredCPUBindPolicy != "" && r.Chance(1, 3) {
					declared.PreferredCPUBindPolicy = extension.CPUBindPolicyDefault
					h.Tag("spec:preferred-bind=Default")
				}
				if declared != nil && declared.RequiredCPUBindPolicy != "" && r.Chance(1, 3) {
					declared.RequiredCPUBindPolicy = extension.CPUBindPolicyDefault
					h.Tag("spec:required-bind=Default")
				}
				h.Tag("spec:" + c19SpecShapeNames[specShape])
				// c19SetState: the policy fields of the preFilterState exactly as PreFilter derives them from `declared`
				// (DefaultCPUBindPolicy = FullPCPUs when no bind policy is declared; required copied; exclusive copied)
				c19SetState := func(st *preFilterState) {
					st.preferredCPUBindPolicy = schedulingconfig.CPUBindPolicyFullPCPUs
					if declared != nil && declared.RequiredCPUBindPolicy != "" {
						st.requiredCPUBindPolicy = schedulingconfig.CPUBindPolicyFullPCPUs // declared FullPCPUs, or Default resolved
					}
				}
				// c19SpecCheck (oracle, ext8): "the annotation reads back to what was written" for the resource SPEC: after
				// PreBind every field the user declared is still there, and a bind policy that had to be defaulted was added.
				c19SpecCheck := func(annots map[string]string, boundCPUs int, when string) {
					sp, e := extension.GetResourceSpec(annots)
					want := extension.ResourceSpec{}
					if declared != nil {
						want = *declared
					}
					decl := want
					if boundCPUs > 0 { // appendResourceSpecIfMissed ran (CPU-bind allocation)
						if want.RequiredCPUBindPolicy == extension.CPUBindPolicyDefault {
							want.RequiredCPUBindPolicy = extension.CPUBindPolicyFullPCPUs
						}
						if want.PreferredCPUBindPolicy == extension.CPUBindPolicyDefault {
							want.PreferredCPUBindPolicy = extension.CPUBindPolicyFullPCPUs
						}
						if want.RequiredCPUBindPolicy == "" && want.PreferredCPUBindPolicy == "" {
							want.PreferredCPUBindPolicy = extension.CPUBindPolicyFullPCPUs
						}
					}
					if e != nil || sp == nil || *sp != want {
						h.Fail("C19:numa-prebind-dropped-declared-spec", "object %d (%s, %d CPUs bound, declared spec shape %s): the user declared resource-spec %+v, PreBind must persist %+v (declared fields kept, defaulted bind policy added) but the persisted annotation reads %q (err=%v); a restarted scheduler rebuilds the CPUs with the exclusive policy read from it",
							a.uid, when, boundCPUs, c19SpecShapeNames[specShape], decl, want, annots[extension.AnnotationResourceSpec], e)
					}
				}
				for _, c := range a.cpus {
					for _, o := range objs {
						if o.alloc != nil && !o.term && o.alloc.excl != a.excl {
							for _, c2 := range o.alloc.cpus {
								if c2 == c {
									mixedExclShare = true
									mixedCPUs[c] = true
								}
							}
						}
					}
				}
				// the pod as the user created it: resource spec annotation carries the exclusive policy
				pod := &corev1.Pod{ObjectMeta: metav1.ObjectMeta{Namespace: "default", Name: fmt.Sprintf("p%d", a.uid),
					UID: types.UID(strconv.Itoa(a.uid))}}
				if declared != nil {
					_ = extension.SetResourceSpec(pod, declared)
				}
				pa := &PodAllocation{UID: pod.UID, Namespace: pod.Namespace, Name: pod.Name, CPUSet: cpuset.NewCPUSet(a.cpus...)}
				state := &preFilterState{allocation: pa}
				if len(a.cpus) > 0 {
					// PreFilter copies the exclusive policy only for CPU-bind pods
					state.requestCPUBind = true
					c19SetState(state)
					state.preferredCPUExclusivePolicy = c19ExclNames[a.excl]
					state.numCPUsNeeded = len(a.cpus)
					pa.CPUExclusivePolicy = state.preferredCPUExclusivePolicy
				}
				for _, x := range a.numa {
					pa.NUMANodeResources = append(pa.NUMANodeResources, NUMANodeResource{Node: x.node, Resources: c19RL(x, r)})
				}
				cs := framework.NewCycleState()
				cs.Write(stateKey, state)
				kind := 0
				if r.Chance(1, 4) {
					kind = 1 + r.Intn(2)
				}
				ok := true
				var resv *schedulingv1alpha1.Reservation
				if kind != 0 {
					// the allocation is made for a Reservation: scheduled as its reserve pod, persisted on the Reservation
					resv = &schedulingv1alpha1.Reservation{
						ObjectMeta: metav1.ObjectMeta{Name: fmt.Sprintf("r%d", a.uid), UID: pod.UID},
						Spec: schedulingv1alpha1.ReservationSpec{
							Template: &corev1.PodTemplateSpec{ObjectMeta: metav1.ObjectMeta{Namespace: "default", Annotations: map[string]string{}}},
							Owners:   []schedulingv1alpha1.ReservationOwner{{Object: &corev1.ObjectReference{Name: "owner"}}},
							TTL:      &metav1.Duration{Duration: time.Hour},
						},
					}
					specWhere := 2 - kind // 0: the user put the resource spec on spec.template, 1: on the Reservation itself
					if declared == nil {
						// nothing declared anywhere
					} else if specWhere == 0 {
						_ = extension.SetResourceSpec(&resv.Spec.Template.ObjectMeta, declared)
					} else {
						_ = extension.SetResourceSpec(resv, declared)
					}
					h.Tag(fmt.Sprintf("bind:reservation-spec-on-%d", specWhere))
					// ---- stale template (ext2): the template was copied from a RUNNING pod (the migration controller puts the
					// whole ObjectMeta of the pod being migrated into spec.template), so it carries that pod's resource-status
					// (another CPU set, other NUMA amounts) and, when the Reservation declares its own spec, that pod's
					// resource-spec (another exclusive policy).  PreBindReservation writes the live allocation onto the
					// Reservation OBJECT; the reserve pod built by NewReservePod must read the object's own values.
					if r.Chance(1, 2) {
						var sc []int
						for c := 0; c < nCPU; c++ {
							if r.Bool() {
								sc = append(sc, c)
							}
						}
						if c19SameLines([]string{vIntsI(sc)}, []string{vIntsI(a.cpus)}) {
							if len(sc) > 0 && sc[0] == 0 {
								sc = sc[1:]
							} else {
								sc = append([]int{0}, sc...)
							}
						}
						stale := &extension.ResourceStatus{CPUSet: cpuset.NewCPUSet(sc...).String()}
						if r.Bool() {
							x := c19Numa{node: r.Intn(topo.NumNodes), cpu: int64(r.Range(1, 8)) * 1000, mem: int64(r.Range(1, 64)) << 20}
							stale.NUMANodeResources = append(stale.NUMANodeResources, extension.NUMANodeResource{Node: int32(x.node), Resources: c19RL(x, r)})
						}
						_ = extension.SetResourceStatus(&resv.Spec.Template.ObjectMeta, stale)
						h.Tag("bind:reservation-stale-template-status")
						if specWhere == 1 && declared != nil && r.Bool() {
							_ = extension.SetResourceSpec(&resv.Spec.Template.ObjectMeta, &extension.ResourceSpec{PreferredCPUBindPolicy: extension.CPUBindPolicyFullPCPUs,
								PreferredCPUExclusivePolicy: extension.CPUExclusivePolicy(c19ExclNames[(a.excl+1+r.Intn(3))%4])})
							h.Tag("bind:reservation-stale-template-spec")
						}
					}
					if kind == 2 && a.excl != 0 {
						for _, c := range a.cpus {
							shadowCPUs[c] = true
						}
					}
				}
				// ---- retry history (ext5): an EARLIER scheduling attempt of this very object got as far as PreBind (the
				// annotation was written and patched), Bind failed, the cycle was unreserved; the object re-enters the
				// scheduler ALREADY annotated and the next cycle allocates elsewhere (other CPUs and / or other NUMA
				// amounts; with the SAME CPU set - in particular none at all: a shared-pool pod placed by a NUMA topology
				// policy - only the NUMA records differ).  PreBind must write the CURRENT allocation whatever the object
				// carries (theorem prebind_writes_current_allocation).
				var prevAttempt *c19Alloc
				everCPUs := 0 // the largest CPU set any attempt of this object took to PreBind so far (> 0: the bind policy was defaulted)
				nTries := 0
				if r.Chance(1, 3) {
					nTries = 1
					if r.Chance(1, 4) {
						nTries = 2
					}
				}
				for try := 0; try < nTries; try++ {
					a1 := &c19Alloc{uid: a.uid, excl: a.excl}
					variant := r.Intn(4) // 0 same CPU set, other NUMA records; 1 other CPU set, same NUMA records; 2, 3 both differ
					otherCPUs := func() []int {
						var out []int
						for _, c := range free {
							if r.Chance(1, 3) {
								out = append(out, c)
							}
						}
						if vIntsI(out) == vIntsI(a.cpus) {
							if len(out) > 0 {
								out = out[1:]
							} else if len(free) > 0 {
								out = []int{free[r.Intn(len(free))]}
							}
						}
						return out
					}
					otherNuma := func() []c19Numa {
						var out []c19Numa
						for i, k := 0, r.Range(0, 2); i < k; i++ {
							out = append(out, c19Numa{node: r.Intn(topo.NumNodes), cpu: int64(r.Range(1, 8)) * 1000, mem: int64(r.Range(0, 64)) << 20})
						}
						if len(out) == 2 && out[0].node == out[1].node {
							out = out[:1]
						}
						if c19NumaTok(out) == c19NumaTok(a.numa) {
							if len(out) > 0 {
								out[0].cpu += 1000
							} else {
								out = []c19Numa{{node: r.Intn(topo.NumNodes), cpu: 1000}}
							}
						}
						return out
					}
					switch variant {
					case 0:
						a1.cpus, a1.numa = append([]int(nil), a.cpus...), otherNuma()
					case 1:
						a1.cpus, a1.numa = otherCPUs(), append([]c19Numa(nil), a.numa...)
					default:
						a1.cpus, a1.numa = otherCPUs(), otherNuma()
					}
					sort.Ints(a1.cpus)
					if vIntsI(a1.cpus) == vIntsI(a.cpus) {
						h.Tag("retry:same-cpuset")
						if len(a.cpus) == 0 {
							h.Tag("retry:no-cpuset-other-numa")
						}
					} else {
						h.Tag("retry:other-cpuset")
					}
					for _, c := range a1.cpus {
						for _, o := range objs {
							if o.alloc != nil && !o.term && o.alloc.excl != a1.excl {
								for _, c2 := range o.alloc.cpus {
									if c2 == c {
										mixedExclShare = true
										mixedCPUs[c] = true
									}
								}
							}
						}
					}
					pa1 := &PodAllocation{UID: pod.UID, Namespace: pod.Namespace, Name: pod.Name, CPUSet: cpuset.NewCPUSet(a1.cpus...)}
					st1 := &preFilterState{allocation: pa1}
					if len(a1.cpus) > 0 {
						st1.requestCPUBind = true
						c19SetState(st1)
						st1.preferredCPUExclusivePolicy = c19ExclNames[a1.excl]
						st1.numCPUsNeeded = len(a1.cpus)
						pa1.CPUExclusivePolicy = st1.preferredCPUExclusivePolicy
					}
					for _, x := range a1.numa {
						pa1.NUMANodeResources = append(pa1.NUMANodeResources, NUMANodeResource{Node: x.node, Resources: c19RL(x, r)})
					}
					cs1 := framework.NewCycleState()
					cs1.Write(stateKey, st1)
					h.Op("numa try %d %d %d %d %s", a1.uid, kind, a1.excl, len(a1.cpus), c19Join(vIntsI(a1.cpus), strconv.Itoa(len(a1.numa)), c19NumaTok(a1.numa)))
					ok1 := true
					if h.Guard(func() {
						target := pod
						if resv != nil {
							target = reservationutil.NewReservePod(resv)
						}
						if st := plg.Reserve(context.TODO(), cs1, target, c19NodeName); !st.IsSuccess() {
							ok1 = false
						}
						if resv != nil {
							if st := plg.PreBindReservation(context.TODO(), cs1, resv, c19NodeName); !st.IsSuccess() {
								ok1 = false
							}
						} else if st := plg.PreBind(context.TODO(), cs1, pod, c19NodeName); !st.IsSuccess() {
							ok1 = false
						}
					}) || !ok1 {
						h.Obs("bind-failed")
						h.Fail("C19:numa-persist-failed", "Reserve/PreBind failed for the first attempt %+v", *a1)
					}
					annots1 := pod.Annotations
					if resv != nil {
						annots1 = resv.Annotations
					}
					if len(a1.cpus) > everCPUs {
						everCPUs = len(a1.cpus)
					}
					if resv != nil {
						c19SpecCheck(reservationutil.NewReservePod(resv.DeepCopy()).Annotations, everCPUs, "reservation, attempt that failed to bind")
					} else {
						c19SpecCheck(annots1, everCPUs, "pod, attempt that failed to bind")
					}
					if rs1, e1 := extension.GetResourceStatus(annots1); e1 != nil || rs1 == nil {
						h.Obs("annot ")
						h.Fail("C19:numa-codec-roundtrip", "resource status of pod %d unreadable after the first attempt: %v", a1.uid, e1)
					} else {
						bs := make([]int, len(rs1.CPUSet))
						for i := range bs {
							bs[i] = int(rs1.CPUSet[i])
						}
						h.Obs("annot %s", vIntsI(bs))
						if d := c19StatusDiff(rs1, a1); d != "" {
							if prevAttempt != nil && c19StatusDiff(rs1, prevAttempt) == "" {
								h.Fail("C19:numa-prebind-kept-stale-annotation", "object %d reached PreBind carrying the resource-status of an earlier attempt %+v; this attempt allocated %+v but the annotation still reads %q", a1.uid, *prevAttempt, *a1, annots1[extension.AnnotationResourceStatus])
							} else {
								h.Fail("C19:numa-codec-roundtrip", "pod %d, failed attempt: %s", a1.uid, d)
							}
						}
					}
					dumpLive()
					if resv == nil && r.Chance(1, 3) {
						// the patched, still unbound pod reaches the live scheduler's own informer: not assigned, ignored
						objs[a.uid] = &c19Obj{pod: pod.DeepCopy()}
						deliverX(liveH, 0, 0, a.uid)
						delete(objs, a.uid)
						dumpLive()
					}
					// Bind fails: the cycle is unreserved; the object keeps the annotation
					h.Op("numa unres %d", a1.uid)
					if h.Guard(func() {
						target := pod
						if resv != nil {
							target = reservationutil.NewReservePod(resv)
						}
						plg.Unreserve(context.TODO(), cs1, target, c19NodeName)
					}) {
						h.Obs("panic")
					}
					dumpLive()
					prevAttempt = a1
					h.Tag(fmt.Sprintf("retry:attempts=%d", try+1))
				}
				h.Op("numa bind %d %d %d %d %s", a.uid, kind, a.excl, len(a.cpus), c19Join(vIntsI(a.cpus), strconv.Itoa(len(a.numa)), c19NumaTok(a.numa)))
				if h.Guard(func() {
					target := pod
					if resv != nil {
						target = reservationutil.NewReservePod(resv)
					}
					if st := plg.Reserve(context.TODO(), cs, target, c19NodeName); !st.IsSuccess() {
						ok = false
					}
					if resv != nil {
						if st := plg.PreBindReservation(context.TODO(), cs, resv, c19NodeName); !st.IsSuccess() {
							ok = false
						}
					} else if st := plg.PreBind(context.TODO(), cs, pod, c19NodeName); !st.IsSuccess() {
						ok = false
					}
				}) || !ok {
					h.Obs("bind-failed")
					h.Fail("C19:numa-persist-failed", "Reserve/PreBind failed for %+v", *a)
				}
				pod.Spec.NodeName = c19NodeName // the bind itself
				annots := pod.Annotations
				if resv != nil {
					resv.Status.NodeName = c19NodeName
					resv.Status.Phase = schedulingv1alpha1.ReservationAvailable
					if r.Chance(1, 5) {
						// scheduled, resources not yet ready for owners: still ACTIVE (IsReservationActive), its CPUs are taken
						resv.Status.Phase = schedulingv1alpha1.ReservationWaiting
						h.Tag("bind:reservation-waiting")
					}
					annots = resv.Annotations
				}
				// a retried object had its bind policy defaulted by whichever attempt bound CPUs first
				if len(a.cpus) > everCPUs {
					everCPUs = len(a.cpus)
				}
				if resv != nil {
					c19SpecCheck(reservationutil.NewReservePod(resv.DeepCopy()).Annotations, everCPUs, "reservation")
				} else {
					c19SpecCheck(annots, everCPUs, "pod")
				}
				if specShape == 2 && a.excl >= 2 && len(a.cpus) > 0 {
					h.Tag(fmt.Sprintf("spec:excl-only-exclusive-bound:kind=%d", kind))
				}
				rs, gerr := extension.GetResourceStatus(annots)
				text := ""
				if gerr == nil && rs != nil {
					text = rs.CPUSet
				}
				bs := make([]int, len(text))
				for i := range bs {
					bs[i] = int(text[i])
				}
				h.Obs("annot %s", vIntsI(bs))
				// ---- oracle (codec): the persisted value reads back to exactly what was allocated
				if gerr != nil {
					h.Fail("C19:numa-codec-roundtrip", "resource status of pod %d unreadable: %v", a.uid, gerr)
				} else {
					back, perr := cpuset.Parse(rs.CPUSet)
					same := perr == nil && c19SameLines([]string{vIntsI(back.ToSlice())}, []string{vIntsI(a.cpus)}) && len(rs.NUMANodeResources) == len(a.numa)
					if same {
						for i, nr := range rs.NUMANodeResources {
							c, m := c19RLVals(nr.Resources)
							if int(nr.Node) != a.numa[i].node || c != a.numa[i].cpu || m != a.numa[i].mem {
								same = false
							}
						}
					}
					if !same && prevAttempt != nil && rs != nil && c19StatusDiff(rs, prevAttempt) == "" {
						// the object reached PreBind annotated by an earlier, unreserved attempt and still carries THAT allocation
						h.Fail("C19:numa-prebind-kept-stale-annotation", "object %d reached PreBind carrying the resource-status of an earlier attempt (cpus=%v numa=%v) that failed to bind and was unreserved; the cycle that bound it allocated cpus=%v numa=%v (live ledger) but the persisted annotation still reads %q",
							a.uid, prevAttempt.cpus, prevAttempt.numa, a.cpus, a.numa, annots[extension.AnnotationResourceStatus])
					} else if !same {
						h.Fail("C19:numa-codec-roundtrip", "pod %d: allocated cpus=%v numa=%v, read back cpuset=%q numa=%v err=%v",
							a.uid, a.cpus, a.numa, rs.CPUSet, rs.NUMANodeResources, perr)
					}
				}
				// ---- oracle (reserve pod, ext2): what a restarted scheduler reads for a Reservation is the reserve pod built by
				// NewReservePod; it must carry exactly the allocation PreBindReservation persisted on the Reservation object,
				// whatever spec.template carries (theorem reserve_pod_reads_own_allocation)
				if resv != nil && gerr == nil {
					var rp *corev1.Pod
					if h.Guard(func() { rp = reservationutil.NewReservePod(resv.DeepCopy()) }) || rp == nil {
						h.Fail("C19:numa-reserve-pod-reads-stale-template", "NewReservePod panicked for reservation %d", a.uid)
					} else {
						rs2, e2 := extension.GetResourceStatus(rp.Annotations)
						sp2, e3 := extension.GetResourceSpec(rp.Annotations)
						same := e2 == nil && e3 == nil && rs2 != nil && sp2 != nil
						if same {
							back, perr := cpuset.Parse(rs2.CPUSet)
							same = perr == nil && vIntsI(back.ToSlice()) == vIntsI(a.cpus) && len(rs2.NUMANodeResources) == len(a.numa) &&
								(len(a.cpus) == 0 || c19ExclEnum(schedulingconfig.CPUExclusivePolicy(sp2.PreferredCPUExclusivePolicy)) == a.excl)
							for i := 0; same && i < len(a.numa); i++ {
								c, m := c19RLVals(rs2.NUMANodeResources[i].Resources)
								same = int(rs2.NUMANodeResources[i].Node) == a.numa[i].node && c == a.numa[i].cpu && m == a.numa[i].mem
							}
						}
						if !same {
							h.Fail("C19:numa-reserve-pod-reads-stale-template", "reservation %d: allocated cpus=%v numa=%v excl=%d, but its reserve pod carries resource-status %q / resource-spec %q (own=%q template=%q)",
								a.uid, a.cpus, a.numa, a.excl, rp.Annotations[extension.AnnotationResourceStatus], rp.Annotations[extension.AnnotationResourceSpec],
								resv.Annotations[extension.AnnotationResourceStatus], resv.Spec.Template.Annotations[extension.AnnotationResourceStatus])
						}
					}
				}
				objs[a.uid] = &c19Obj{pod: pod.DeepCopy(), alloc: a}
				if resv != nil {
					objs[a.uid].resv = resv.DeepCopy()
				}
				h.Tag(fmt.Sprintf("bind:cpus<=%d", 1<<uint(c19Lg(len(a.cpus)))))
				h.Tag(fmt.Sprintf("bind:numa=%d", len(a.numa)))
			case k < 13: // ---- delete
				u := us[r.Intn(len(us))]
				deliver(liveH, 0, 2, u)
				h.Op("numa drop %d", u)
				delete(objs, u)
				h.Tag("op:delete")
			case k < 15: // ---- terminate (object stays in the API server, phase Succeeded/Failed)
				u := us[r.Intn(len(us))]
				o := objs[u]
				o.term = true
				o.pod.Status.Phase = corev1.PodSucceeded
				if r.Bool() {
					o.pod.Status.Phase = corev1.PodFailed
				}
				if o.resv != nil && o.prev == nil && reservationutil.IsReservationActive(o.resv) {
					o.prev = o.resv.DeepCopy()
					o.resv.Status.Phase = schedulingv1alpha1.ReservationSucceeded
					if o.pod.Status.Phase == corev1.PodFailed {
						o.resv.Status.Phase = schedulingv1alpha1.ReservationFailed
					}
				}
				h.Op("numa setterm %d", u)
				deliver(liveH, 0, 1, u)
				h.Tag("op:terminate")
			case k < 17: // ---- update event carrying the same allocation
				deliver(liveH, 0, 1, us[r.Intn(len(us))])
				h.Tag("op:same-update")
			case k < 18: // ---- add event for an object the cache already holds (non-failover informer add)
				deliver(liveH, 0, 0, us[r.Intn(len(us))])
				h.Tag("op:dup-add")
			default: // ---- a hand-made object (stale / foreign / damaged annotation), delivered to the live cache too
				uid := nextUID
				nextUID++
				pod := &corev1.Pod{ObjectMeta: metav1.ObjectMeta{Namespace: "default", Name: fmt.Sprintf("p%d", uid),
					UID: types.UID(strconv.Itoa(uid))}}
				assigned := !r.Chance(1, 6)
				if assigned {
					pod.Spec.NodeName = c19NodeName
				}
				excl := r.Intn(4)
				_ = extension.SetResourceSpec(pod, &extension.ResourceSpec{PreferredCPUExclusivePolicy: extension.CPUExclusivePolicy(c19ExclNames[excl])})
				texts := []string{"", "a", "1-", "0-5000", "3,1-2,2", "+1,007", "1-2-3", "0", " 1", "5-3"}
				text := texts[r.Intn(len(texts))]
				var ns []c19Numa
				if r.Bool() {
					ns = append(ns, c19Numa{node: r.Intn(topo.NumNodes), cpu: int64(r.Range(0, 4)) * 1000, mem: int64(r.Range(0, 9))})
				}
				hasAnnot := !r.Chance(1, 5)
				if hasAnnot {
					rs := &extension.ResourceStatus{CPUSet: text}
					for _, x := range ns {
						rs.NUMANodeResources = append(rs.NUMANodeResources, extension.NUMANodeResource{Node: int32(x.node), Resources: c19RL(x, r)})
					}
					_ = extension.SetResourceStatus(pod, rs)
				} else {
					text, ns = "", nil
				}
				bs := make([]int, len(text))
				for i := range bs {
					bs[i] = int(text[i])
				}
				h.Op("numa raw %d %d 0 %d %d %d %s", uid, vB(assigned), excl, vB(hasAnnot), len(bs), c19Join(vIntsI(bs), strconv.Itoa(len(ns)), c19NumaTok(ns)))
				o := &c19Obj{pod: pod}
				// what this object holds, as far as the oracle is concerned, is whatever Parse accepts
				if cp, perr := cpuset.Parse(text); perr == nil && assigned && (len(ns) > 0 || !cp.IsEmpty()) {
					o.alloc = &c19Alloc{uid: uid, excl: excl, cpus: cp.ToSlice(), numa: ns}
					for _, c := range o.alloc.cpus {
						for _, o2 := range objs {
							if o2.alloc != nil && !o2.term && o2.alloc.excl != excl {
								for _, c2 := range o2.alloc.cpus {
									if c2 == c {
										mixedExclShare = true
										mixedCPUs[c] = true
									}
								}
							}
						}
					}
				}
				objs[uid] = o
				deliver(liveH, 0, 0, uid)
				h.Tag("op:raw")
			}
			dumpLive()
		}

		// ---- the restart: fresh caches see only the surviving objects
		live := c19Dump(liveRM)
		us := liveUIDs()
		var first []string
		for round := 0; round < 2; round++ {
			// the fresh scheduler has its own topology options (filled by the NodeResourceTopology informer)
			freshTom := NewTopologyOptionsManager()
			setFreshTopo := func() {
				freshTom.UpdateTopologyOptions(c19NodeName, func(o *TopologyOptions) {
					*o = TopologyOptions{CPUTopology: topo, MaxRefCount: maxRef}
				})
			}
			fresh := &resourceManager{numaAllocateStrategy: liveRM.numaAllocateStrategy, topologyOptionsManager: freshTom,
				nodeAllocations: map[string]*NodeAllocation{}}
			fh := &podEventHandler{resourceManager: fresh}
			h.Op("numa fresh")
			// ---- delivery shape per surviving object (what a restarting / second scheduler can see):
			//   0 add-bound: add(bound, annotated)
			//   1 add-unbound-then-update-bound: add(unbound, annotated) ... update(old = unbound, new = bound, same annotations)
			//   2 add-early-then-object-then-resync: add(bound) while the node's topology is not known yet, the
			//     topology arrives, a no-change resync update(old = new) follows
			shape := map[int]int{}
			var earlyUs []int
			for _, u := range us {
				o := objs[u]
				if o.pod.Spec.NodeName == "" || o.term {
					continue // shapes apply to bound, running objects
				}
				switch r.Intn(5) {
				case 0:
					if o.resv == nil {
						shape[u] = 1
					}
				case 1:
					shape[u] = 2
					earlyUs = append(earlyUs, u)
				}
			}
			for _, u := range us {
				h.Tag("shape:" + c19ShapeNames[shape[u]])
			}
			type ev struct{ kind, uid int } // kind 0 add, 1 update(old = new), 10 add(unbound), 11 update(unbound -> bound)
			if len(earlyUs) > 0 {
				h.Op("numa ftopo 0")
				for _, i := range r.Perm(len(earlyUs)) {
					deliver(fh, 1, 0, earlyUs[i]) // dropped by resourceManager.Update: no valid topology yet
				}
				h.Op("numa ftopo 1")
			}
			setFreshTopo()
			var evs []ev
			for _, i := range r.Perm(len(us)) {
				switch shape[us[i]] {
				case 1:
					evs = append(evs, ev{10, us[i]})
				case 2:
					evs = append(evs, ev{1, us[i]}) // the resync
				default:
					evs = append(evs, ev{0, us[i]})
				}
			}
			for _, u := range us {
				if shape[u] == 1 { // the bind update arrives somewhere after the unbound add
					pos := 0
					for i, e := range evs {
						if e.uid == u {
							pos = i
							break
						}
					}
					at := pos + 1 + r.Intn(len(evs)-pos)
					evs = append(evs[:at], append([]ev{{11, u}}, evs[at:]...)...)
				}
			}
			extras := 0
			for _, u := range us {
				if r.Chance(1, 3) {
					// insert a duplicate add / same-allocation update somewhere after the object's first effective delivery
					pos := 0
					for i, e := range evs {
						if e.uid == u {
							pos = i
						}
					}
					at := pos + 1 + r.Intn(len(evs)-pos)
					e := ev{r.Intn(2), u}
					evs = append(evs[:at], append([]ev{e}, evs[at:]...)...)
					extras++
				}
			}
			badAt := -1
			if r.Chance(1, 8) {
				badAt = r.Intn(len(evs) + 1)
			}
			for i, e := range evs {
				if i == badAt {
					badDelete(fh)
				}
				if e.kind >= 10 {
					deliverX(fh, 1, e.kind-10, e.uid)
				} else {
					deliver(fh, 1, e.kind, e.uid)
				}
			}
			if badAt == len(evs) {
				badDelete(fh)
			}
			h.Op("numa dump 1")
			got := c19Dump(fresh)
			for _, l := range got {
				h.Obs("%s", l)
			}
			h.Tag(fmt.Sprintf("replay:objs<=%d", 1<<uint(c19Lg(len(us)))))
			if extras > 0 {
				h.Tag("replay:with-dups")
			}
			// ---- oracle 1: nothing taken before the restart is free after it (from-scratch recomputation)
			wantRef := map[int]int{}
			wantRes := map[int][2]int64{}
			for _, u := range us {
				o := objs[u]
				if o.alloc == nil || o.term {
					continue
				}
				for _, c := range o.alloc.cpus {
					wantRef[c]++
				}
				for _, x := range o.alloc.numa {
					v := wantRes[x.node]
					v[0] += x.cpu
					v[1] += x.mem
					wantRes[x.node] = v
				}
			}
			na := fresh.getOrCreateNodeAllocation(c19NodeName)
			av, _, _ := fresh.GetAvailableCPUs(c19NodeName)
			for c, w := range wantRef {
				if na.allocatedCPUs[c].RefCount < w {
					h.Fail("C19:numa-taken-considered-free", "cpu %d held by %d surviving pods but refcount %d after the restart", c, w, na.allocatedCPUs[c].RefCount)
				}
				if w >= maxRef && av.Contains(c) {
					h.Fail("C19:numa-taken-considered-free", "cpu %d held by %d surviving pods (max %d) but available after the restart", c, w, maxRef)
				}
			}
			for nd, w := range wantRes {
				var c, m int64
				if na.allocatedResources[nd] != nil {
					c, m = c19RLVals(na.allocatedResources[nd].Resources)
				}
				if c < w[0] || m < w[1] {
					h.Fail("C19:numa-taken-considered-free", "NUMA node %d: surviving pods hold cpu=%d mem=%d but the rebuilt ledger has cpu=%d mem=%d", nd, w[0], w[1], c, m)
				}
			}
			// ---- oracle 2: rebuilt state identical to the live state
			holders := map[int]map[int]bool{}
			for _, u := range us {
				o := objs[u]
				if o.alloc == nil || o.term {
					continue
				}
				for _, c := range o.alloc.cpus {
					if holders[c] == nil {
						holders[c] = map[int]bool{}
					}
					holders[c][o.alloc.excl] = true
				}
			}
			// ---- hypothesis of excl_mark_order_independent_partial (Props/C19.lean), evaluated on the survivors: all
			// holders of a CPU agree on the exclusive policy.  Where it HOLDS the proved part is a checked clause
			// (oracle 2c, fresh caches only: they are rebuilt from scratch, `release` never restores a marker): the
			// rebuilt per-CPU marker is the agreed policy, in every delivery order / shape tried.
			{
				var heldCPUs []int
				for c := range holders {
					heldCPUs = append(heldCPUs, c)
				}
				sort.Ints(heldCPUs)
				agreeAll := true
				for _, c := range heldCPUs {
					if len(holders[c]) != 1 {
						agreeAll = false
						continue
					}
					want := -1
					for e := range holders[c] {
						want = e
					}
					info, ok := na.allocatedCPUs[c]
					if gotE := c19ExclEnum(info.ExclusivePolicy); !ok || gotE != want {
						h.Fail("C19:numa-excl-mark-differs-though-holders-agree", "cpu %d: every surviving holder has exclusive policy %d but the rebuilt marker is %d (entry present=%v); rebuilt=%v",
							c, want, gotE, ok, got)
					}
				}
				if round == 0 {
					if agreeAll {
						h.Tag("hyp:excl-agree")
					} else {
						h.Tag("hyp:excl-disagree")
					}
				}
			}
			if !c19SameLines(got, live) {
				shadowOnly := map[int]bool{} // in the live ledger a foreign marker can also stem from a deleted holder of a mixed CPU
				for c := range shadowCPUs {
					if !mixedCPUs[c] {
						shadowOnly[c] = true
					}
				}
				if c19OnlyMixedMarks(got, live, c19Union(mixedCPUs, shadowCPUs)) &&
					(c19ForeignMarker(got, holders, shadowCPUs) || c19ForeignMarker(live, holders, shadowOnly)) {
					h.Fail("C19:numa-reservation-excl-shadowed", "rebuilt ledger differs from the live one only in the exclusive-policy marker of CPUs held by a Reservation whose resource spec sits on spec.template (PreBind wrote a spec without it onto the Reservation): live=%v rebuilt=%v", live, got)
				} else if c19OnlyMixedMarks(got, live, mixedCPUs) {
					h.Fail("C19:numa-excl-mark-last-writer", "rebuilt ledger differs from the live one only in the exclusive-policy marker of a CPU held by pods with different policies: live=%v rebuilt=%v", live, got)
				} else {
					h.Fail("C19:numa-rebuilt-differs", "live=%v rebuilt=%v", live, got)
				}
			}
			// ---- oracle 2b: per object, whatever the delivery shape: what the rebuilt ledger records for it (CPU set,
			// per-NUMA amounts) is what the live ledger records
			for _, u := range us {
				if shape[u] == 0 {
					continue // plain adds: covered by oracle 2 under its own fingerprints
				}
				if lg, ll := c19PodLine(got, u), c19PodLine(live, u); lg != ll {
					h.Fail("C19:numa-rebuilt-differs:"+c19ShapeNames[shape[u]], "object %d delivered as %s: live ledger records %q, rebuilt ledger records %q (live=%v rebuilt=%v)",
						u, c19ShapeNames[shape[u]], ll, lg, live, got)
				}
			}
			// ---- oracle 3: delivery order does not matter
			if round == 0 {
				first = got
			} else if !c19SameLines(got, first) {
				if c19OnlyMixedMarks(got, first, c19Union(mixedCPUs, shadowCPUs)) && (c19ForeignMarker(got, holders, shadowCPUs) || c19ForeignMarker(first, holders, shadowCPUs)) {
					h.Fail("C19:numa-reservation-excl-shadowed", "two delivery orders differ only in the exclusive-policy marker of CPUs held by a Reservation whose policy (declared on spec.template) was not read back: %v vs %v", first, got)
				} else if c19OnlyMixedMarks(got, first, mixedCPUs) {
					h.Fail("C19:numa-excl-mark-last-writer", "two delivery orders differ only in the exclusive-policy marker of a shared CPU: %v vs %v", first, got)
				} else {
					h.Fail("C19:numa-order-dependent", "two delivery orders rebuild different ledgers: %v vs %v", first, got)
				}
			}
		}
		surv := 0
		for _, u := range us {
			if objs[u].alloc != nil && !objs[u].term {
				surv++
			}
		}
		if surv >= 2 {
			h.Nontrivial()
		}
		if mixedExclShare {
			h.Tag("case:mixed-excl-share")
		}
		h.End()
	}
	h.Close("history of bind (real Reserve+PreBind on a pod, or Reserve(NewReservePod)+PreBindReservation on a Reservation with its resource spec on the template or on itself) / delete / terminate / same-allocation update / duplicate add / hand-made objects on a 1-16 CPU topology (maxRef 1-3, CPU reuse as for reservation owners, NUMA amounts incl. zero and absent keys), cut anywhere, then two shuffled replays with duplicates into fresh caches. Resource-spec shapes (ext8, 1/5 each, on the pod / on the Reservation / on its spec.template): absent, bind policy only, exclusive policy ONLY (bind policy defaulted and written back by appendResourceSpecIfMissed), both, requiredCPUBindPolicy (+ exclusive, preferred bind 1/2), 1/3 of the declared bind fields with the value Default (resolved and written back); the stored object is the one the real PreBind / PreBindReservation left behind and after every PreBind the persisted resource-spec must keep every declared field (+ the defaulted bind policy when CPUs were bound). Retry histories (1/3 of the binds, ext5): before the cycle that binds, 1-2 earlier cycles of the SAME object run Reserve + PreBind (annotation written on the pod / Reservation object), fail to bind and are unreserved (numa try / numa unres); each allocates something else (same CPU set incl. none at all with other NUMA records, other CPU set with the same records, both different), so the object reaches PreBind already annotated and must end up carrying the allocation of the LAST cycle. Rebuild shapes per surviving bound object (1/5 each, else plain add): add(unbound,annotated) then update(unbound->bound, same annotations); add before the fresh manager knows the node topology, topology arrives, no-change resync update. Event shapes: every delete goes to the registered OnDelete entry point (pod handler; FilteringResourceEventHandler+ReservationToPodEventHandler for Reservations), 2/5 of the pod AND Reservation deletes as cache.DeletedFinalStateUnknown{Key,Obj} by value (the IsObjValidActiveReservation filter must unwrap the tombstone before the adapter's type switch, else the Reservation's CPUs stay taken in the live ledger); 1/12 of the steps and 1/8 of the replays add a degenerate delete (tombstone with a foreign-type / nil / typed-nil Obj, bare foreign object) that must change nothing. Hypothesis coverage: hyp:excl-agree / hyp:excl-disagree = all surviving holders of every held CPU carry the same exclusive policy; where they do, the rebuilt marker must be that policy. Non-trivial = >= 2 surviving allocations")
}

// c19StatusDiff: "" when the decoded resource status is exactly allocation a (CPU set, NUMA records in order).
func c19StatusDiff(rs *extension.ResourceStatus, a *c19Alloc) string {
	back, perr := cpuset.Parse(rs.CPUSet)
	if perr != nil {
		return fmt.Sprintf("cpuset %q unparsable", rs.CPUSet)
	}
	if vIntsI(back.ToSlice()) != vIntsI(a.cpus) {
		return fmt.Sprintf("allocated cpus=%v, read back %q", a.cpus, rs.CPUSet)
	}
	if len(rs.NUMANodeResources) != len(a.numa) {
		return fmt.Sprintf("allocated numa=%v, read back %v", a.numa, rs.NUMANodeResources)
	}
	for i, nr := range rs.NUMANodeResources {
		c, m := c19RLVals(nr.Resources)
		if int(nr.Node) != a.numa[i].node || c != a.numa[i].cpu || m != a.numa[i].mem {
			return fmt.Sprintf("allocated numa=%v, read back %v", a.numa, rs.NUMANodeResources)
		}
	}
	return ""
}

var c19ShapeNames = []string{"add-bound", "add-unbound-then-update-bound", "add-early-then-object-then-resync"}

// c19PodLine: the "pod <uid> ..." line of a ledger dump ("" = the ledger records nothing for uid).
func c19PodLine(dump []string, uid int) string {
	pre := fmt.Sprintf("pod %d ", uid)
	for _, l := range dump {
		if strings.HasPrefix(l, pre) {
			return l
		}
	}
	return ""
}

func c19Lg(n int) int {
	k := 0
	for (1 << uint(k)) < n {
		k++
	}
	return k
}
