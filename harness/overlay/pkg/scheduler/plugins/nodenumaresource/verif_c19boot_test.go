//go:build verif

package nodenumaresource

import (
	"context"
	"fmt"
	"strconv"
	"strings"
	"testing"
	"time"

	corev1 "k8s.io/api/core/v1"
	metav1 "k8s.io/apimachinery/pkg/apis/meta/v1"
	"k8s.io/apimachinery/pkg/runtime"
	"k8s.io/apimachinery/pkg/types"
	"k8s.io/client-go/informers"
	coreinformers "k8s.io/client-go/informers/core/v1"
	"k8s.io/client-go/kubernetes"
	kubefake "k8s.io/client-go/kubernetes/fake"
	"k8s.io/client-go/tools/cache"

	"github.com/koordinator-sh/koordinator/apis/extension"
	schedulingv1alpha1 "github.com/koordinator-sh/koordinator/apis/scheduling/v1alpha1"
	koordclientset "github.com/koordinator-sh/koordinator/pkg/client/clientset/versioned"
	koordfake "github.com/koordinator-sh/koordinator/pkg/client/clientset/versioned/fake"
	koordinatorinformers "github.com/koordinator-sh/koordinator/pkg/client/informers/externalversions"
	schedinformers "github.com/koordinator-sh/koordinator/pkg/client/informers/externalversions/scheduling/v1alpha1"
	"github.com/koordinator-sh/koordinator/pkg/scheduler/frameworkext"
	frameworkexthelper "github.com/koordinator-sh/koordinator/pkg/scheduler/frameworkext/helper"
	"github.com/koordinator-sh/koordinator/pkg/util/cpuset"
)

// C19 harness `numaboot` (ext2): START-UP ORDER of a restarted scheduler's NUMA / CPU ledger.  Same protocol as the
// deviceshare harness `devboot` (see there): the API server holds bound annotated pods and Available Reservations
// (resource-status on the Reservation object, ~1/2 with a stale copy on spec.template); a fresh resourceManager is
// wired with the REAL registerPodEventHandler on real informer factories over fake clientsets (kube factory behind
// NewForceSyncSharedInformerFactory); the pod (gated 0) or Reservation (gated 1) listener is pinned by a gate in front
// of the handler; start-up order factory start -> WaitForCacheSync -> real WaitForHandlersSync -> observe.
//
//	op   numa topo / numa raw lines, then  numa boot <gated> <k0> <uid>^k0 <k1> <uid>^k1
//	obs  held <0|1>  opened <0|1>  + ledger block at barrier-open

type c19BootHandle struct {
	frameworkext.FrameworkExtender
	kube  informers.SharedInformerFactory
	koord koordinatorinformers.SharedInformerFactory
}

func (b *c19BootHandle) SharedInformerFactory() informers.SharedInformerFactory { return b.kube }
func (b *c19BootHandle) KoordinatorSharedInformerFactory() koordinatorinformers.SharedInformerFactory {
	return b.koord
}

type c19GateInformer struct {
	cache.SharedIndexInformer
	gate chan struct{} // closed channel = gate open
	regs []cache.ResourceEventHandlerRegistration
}

type c19GatedHandler struct {
	inner cache.ResourceEventHandler
	gate  chan struct{}
}

func (g c19GatedHandler) OnAdd(obj interface{}, isInInitialList bool) {
	<-g.gate
	g.inner.OnAdd(obj, isInInitialList)
}
func (g c19GatedHandler) OnUpdate(oldObj, newObj interface{}) {
	<-g.gate
	g.inner.OnUpdate(oldObj, newObj)
}
func (g c19GatedHandler) OnDelete(obj interface{}) {
	<-g.gate
	g.inner.OnDelete(obj)
}

func (g *c19GateInformer) AddEventHandler(handler cache.ResourceEventHandler) (cache.ResourceEventHandlerRegistration, error) {
	reg, err := g.SharedIndexInformer.AddEventHandler(c19GatedHandler{handler, g.gate})
	g.regs = append(g.regs, reg)
	return reg, err
}

func (g *c19GateInformer) AddEventHandlerWithResyncPeriod(handler cache.ResourceEventHandler, resyncPeriod time.Duration) (cache.ResourceEventHandlerRegistration, error) {
	reg, err := g.SharedIndexInformer.AddEventHandlerWithResyncPeriod(c19GatedHandler{handler, g.gate}, resyncPeriod)
	g.regs = append(g.regs, reg)
	return reg, err
}

func TestVerifC19NumaBoot(t *testing.T) {
	h := vOpen("C19")
	if h == nil {
		t.Skip("VERIF_OUT not set")
	}
	node := &corev1.Node{ObjectMeta: metav1.ObjectMeta{Name: c19NodeName}}
	suit := newPluginTestSuit(t, nil, []*corev1.Node{node})
	n := h.N(30, 200)
	for idx := 0; idx < n; idx++ {
		r := h.Begin(idx)
		if r == nil {
			continue
		}
		dims := [4]int{r.Range(1, 2), r.Range(1, 2), r.Range(1, 4), r.Range(1, 2)}
		topo := buildCPUTopologyForTest(dims[0], dims[1], dims[2], dims[3])
		nCPU := topo.NumCPUs
		nodeOf := make([]int, nCPU)
		for c := 0; c < nCPU; c++ {
			nodeOf[c] = topo.CPUDetails[c].NodeID
		}
		h.Op("numa topo 1 %s", vIntsI(nodeOf))

		// ---- what the API server holds: holders with pairwise disjoint CPU sets (MaxRefCount 1)
		type holder struct {
			uid    int
			isResv bool
			alloc  *c19Alloc
		}
		var holders []*holder
		var podIDs, resvIDs []int
		var kubeObjs, koordObjs []runtime.Object
		live := &resourceManager{topologyOptionsManager: NewTopologyOptionsManager(), nodeAllocations: map[string]*NodeAllocation{}}
		live.topologyOptionsManager.UpdateTopologyOptions(c19NodeName, func(o *TopologyOptions) {
			*o = TopologyOptions{CPUTopology: topo, MaxRefCount: 1}
		})
		free := r.Perm(nCPU)
		nHold := r.Range(1, 5)
		for i := 0; i < nHold; i++ {
			a := &c19Alloc{uid: i + 1, excl: r.Intn(4)}
			take := r.Intn(4)
			if take > len(free) {
				take = len(free)
			}
			a.cpus = append([]int(nil), free[:take]...)
			free = free[take:]
			c19SortInts(a.cpus)
			if len(a.cpus) == 0 || r.Chance(1, 3) {
				a.numa = append(a.numa, c19Numa{node: r.Intn(topo.NumNodes), cpu: int64(r.Range(1, 8)) * 1000, mem: int64(r.Range(0, 64)) << 20})
			}
			hd := &holder{uid: a.uid, alloc: a, isResv: r.Bool()}
			if i == nHold-1 && len(resvIDs) == 0 {
				hd.isResv = true // the stream is about Reservations held across a restart
			}
			holders = append(holders, hd)
			status := &extension.ResourceStatus{CPUSet: cpuset.NewCPUSet(a.cpus...).String()}
			for _, x := range a.numa {
				status.NUMANodeResources = append(status.NUMANodeResources, extension.NUMANodeResource{Node: int32(x.node), Resources: c19RL(x, r)})
			}
			spec := &extension.ResourceSpec{PreferredCPUBindPolicy: extension.CPUBindPolicyFullPCPUs,
				PreferredCPUExclusivePolicy: extension.CPUExclusivePolicy(c19ExclNames[a.excl])}
			text := status.CPUSet
			bs := make([]int, len(text))
			for j := range bs {
				bs[j] = int(text[j])
			}
			h.Op("numa raw %d 1 0 %d 1 %d %s", a.uid, a.excl, len(bs), c19Join(vIntsI(bs), strconv.Itoa(len(a.numa)), c19NumaTok(a.numa)))
			// the scheduler that made the allocations recorded exactly what it decided
			pa := &PodAllocation{UID: types.UID(strconv.Itoa(a.uid)), Namespace: "default", Name: fmt.Sprintf("p%d", a.uid),
				CPUSet: cpuset.NewCPUSet(a.cpus...), CPUExclusivePolicy: c19ExclNames[a.excl]}
			for _, nr := range status.NUMANodeResources {
				pa.NUMANodeResources = append(pa.NUMANodeResources, NUMANodeResource{Node: int(nr.Node), Resources: nr.Resources})
			}
			if hd.isResv {
				resv := &schedulingv1alpha1.Reservation{
					ObjectMeta: metav1.ObjectMeta{Name: fmt.Sprintf("r%d", a.uid), UID: types.UID(strconv.Itoa(a.uid))},
					Spec: schedulingv1alpha1.ReservationSpec{
						Template: &corev1.PodTemplateSpec{ObjectMeta: metav1.ObjectMeta{Namespace: "default"}},
						Owners:   []schedulingv1alpha1.ReservationOwner{{Object: &corev1.ObjectReference{Name: "owner"}}},
						TTL:      &metav1.Duration{Duration: time.Hour},
					},
					Status: schedulingv1alpha1.ReservationStatus{NodeName: c19NodeName, Phase: schedulingv1alpha1.ReservationAvailable},
				}
				_ = extension.SetResourceSpec(resv, spec)
				_ = extension.SetResourceStatus(resv, status)
				if r.Chance(1, 5) {
					resv.Status.Phase = schedulingv1alpha1.ReservationWaiting // scheduled and still active
					h.Tag("resv:waiting")
				}
				if r.Bool() { // template copied from a running pod: stale resource-status (and spec) of that pod
					var sc []int
					for c := 0; c < nCPU; c++ {
						if r.Bool() {
							sc = append(sc, c)
						}
					}
					if vIntsI(sc) == vIntsI(a.cpus) {
						if len(sc) > 0 && sc[0] == 0 {
							sc = sc[1:]
						} else {
							sc = append([]int{0}, sc...)
						}
					}
					_ = extension.SetResourceStatus(&resv.Spec.Template.ObjectMeta, &extension.ResourceStatus{CPUSet: cpuset.NewCPUSet(sc...).String()})
					if r.Bool() {
						_ = extension.SetResourceSpec(&resv.Spec.Template.ObjectMeta, &extension.ResourceSpec{PreferredCPUBindPolicy: extension.CPUBindPolicyFullPCPUs,
							PreferredCPUExclusivePolicy: extension.CPUExclusivePolicy(c19ExclNames[(a.excl+1+r.Intn(3))%4])})
					}
					h.Tag("resv:stale-template")
				}
				koordObjs = append(koordObjs, resv)
				resvIDs = append(resvIDs, a.uid)
				pa.Name = string(resv.UID) // the reserve pod: name = uid = the Reservation's UID
			} else {
				pod := &corev1.Pod{ObjectMeta: metav1.ObjectMeta{Namespace: "default", Name: fmt.Sprintf("p%d", a.uid), UID: types.UID(strconv.Itoa(a.uid))},
					Spec: corev1.PodSpec{NodeName: c19NodeName}, Status: corev1.PodStatus{Phase: corev1.PodRunning}}
				_ = extension.SetResourceSpec(pod, spec)
				_ = extension.SetResourceStatus(pod, status)
				kubeObjs = append(kubeObjs, pod)
				podIDs = append(podIDs, a.uid)
			}
			h.Guard(func() { live.Update(c19NodeName, pa) })
		}
		gated := 1
		switch x := r.Intn(8); {
		case x < 2:
			gated = 0
		case x < 3:
			gated = 2
		}
		h.Tag(fmt.Sprintf("gated:%d", gated))
		h.Tag(fmt.Sprintf("boot:pods=%d", len(podIDs)))
		h.Tag(fmt.Sprintf("boot:resvs=%d", len(resvIDs)))
		h.Op("numa boot %d %d %s", gated, len(podIDs), strings.TrimSpace(vIntsI(podIDs)+fmt.Sprintf(" %d ", len(resvIDs))+vIntsI(resvIDs)))
		liveDump := c19Dump(live)

		held, opened := false, false
		var bootDump []string
		var fresh *resourceManager
		collected, gatedCollected := 0, 0
		if h.Guard(func() {
			frameworkexthelper.ResetRegistrations()
			kubeClient := kubefake.NewSimpleClientset(kubeObjs...)
			koordClient := koordfake.NewSimpleClientset(koordObjs...)
			inner := informers.NewSharedInformerFactory(kubeClient, 0)
			koordFactory := koordinatorinformers.NewSharedInformerFactory(koordClient, 0)
			gate := make(chan struct{})
			gateOpen := false
			openGate := func() {
				if !gateOpen {
					gateOpen = true
					close(gate)
				}
			}
			var gi *c19GateInformer
			switch gated {
			case 0:
				inner.InformerFor(&corev1.Pod{}, func(client kubernetes.Interface, resync time.Duration) cache.SharedIndexInformer {
					gi = &c19GateInformer{SharedIndexInformer: coreinformers.NewPodInformer(client, metav1.NamespaceAll, resync,
						cache.Indexers{cache.NamespaceIndex: cache.MetaNamespaceIndexFunc}), gate: gate}
					return gi
				})
			case 1:
				koordFactory.InformerFor(&schedulingv1alpha1.Reservation{}, func(client koordclientset.Interface, resync time.Duration) cache.SharedIndexInformer {
					gi = &c19GateInformer{SharedIndexInformer: schedinformers.NewReservationInformer(client, resync,
						cache.Indexers{cache.NamespaceIndex: cache.MetaNamespaceIndexFunc}), gate: gate}
					return gi
				})
			default:
				openGate()
			}
			kubeFactory := frameworkexthelper.NewForceSyncSharedInformerFactory(inner)
			ctx, cancel := context.WithCancel(context.Background())
			defer func() {
				openGate()
				cancel()
				inner.Shutdown()
				koordFactory.Shutdown()
			}()
			// the node's topology is known (its registration is tied by facts; the topology listener is the fast one)
			freshTom := NewTopologyOptionsManager()
			freshTom.UpdateTopologyOptions(c19NodeName, func(o *TopologyOptions) {
				*o = TopologyOptions{CPUTopology: topo, MaxRefCount: 1}
			})
			fresh = &resourceManager{topologyOptionsManager: freshTom, nodeAllocations: map[string]*NodeAllocation{}}
			registerPodEventHandler(&c19BootHandle{FrameworkExtender: suit.Extender, kube: kubeFactory, koord: koordFactory}, fresh)
			kubeFactory.Start(ctx.Done())
			koordFactory.Start(ctx.Done())
			kubeFactory.WaitForCacheSync(ctx.Done())
			koordFactory.WaitForCacheSync(ctx.Done())
			mine := map[cache.ResourceEventHandlerRegistration]bool{}
			if gi != nil {
				for _, reg := range gi.regs {
					mine[reg] = true
				}
			}
			deadline := time.Now().Add(10 * time.Second)
			for {
				all := true
				collected, gatedCollected = 0, 0
				for _, reg := range frameworkexthelper.GetRegistrations() {
					collected++
					if mine[reg] {
						gatedCollected++
						continue
					}
					if !reg.HasSynced() {
						all = false
					}
				}
				if all {
					break
				}
				if time.Now().After(deadline) {
					panic("the listeners that are not pinned never synced")
				}
				time.Sleep(2 * time.Millisecond)
			}
			c2, cc2 := context.WithTimeout(ctx, 150*time.Millisecond)
			err := frameworkexthelper.WaitForHandlersSync(c2)
			cc2()
			if err != nil {
				held = true
				openGate()
				c3, cc3 := context.WithTimeout(ctx, 10*time.Second)
				opened = frameworkexthelper.WaitForHandlersSync(c3) == nil
				cc3()
			} else {
				opened = true
			}
			h.Obs("held %d", vB(held))
			h.Obs("opened %d", vB(opened))
			bootDump = c19Dump(fresh)
			for _, l := range bootDump {
				h.Obs("%s", l)
			}
		}) {
			h.Obs("panic")
			h.Fail("C19:numa-boot-panic", "the start-up emulation panicked")
			h.End()
			continue
		}
		h.Tag(fmt.Sprintf("boot:collected=%d", collected))
		h.Tag(fmt.Sprintf("boot:held=%d", vB(held)))
		if !opened {
			h.Fail("C19:numa-boot-barrier-never-opens", "WaitForHandlersSync did not return within 10 s after every listener could run")
		}
		if !c19SameLines(liveDump, bootDump) {
			h.Fail("C19:numa-boot-first-cycle-before-rebuild", "when the handlers-sync barrier opened (gated listener %d, barrier held=%v, %d registrations collected, %d of them the pinned listener's) the rebuilt ledger differs from the ledger of the scheduler that made the allocations: live=%v first-cycle=%v; pods %v reservations %v",
				gated, held, collected, gatedCollected, liveDump, bootDump, podIDs, resvIDs)
		}
		na := fresh.getOrCreateNodeAllocation(c19NodeName)
		av, _, _ := fresh.GetAvailableCPUs(c19NodeName)
		for _, hd := range holders {
			for _, c := range hd.alloc.cpus {
				if na.allocatedCPUs[c].RefCount < 1 || av.Contains(c) {
					h.Fail("C19:numa-boot-taken-considered-free", "cpu %d is held by %d (reservation=%v) but at the first cycle refcount=%d available=%v",
						c, hd.uid, hd.isResv, na.allocatedCPUs[c].RefCount, av.Contains(c))
				}
			}
		}
		if len(podIDs) > 0 && len(resvIDs) > 0 {
			h.Nontrivial()
		}
		h.End()
	}
	h.Close("one case = a 1-16 CPU topology (MaxRefCount 1), 1-5 holders with disjoint CPU sets / NUMA amounts, each a bound annotated pod or an Available Reservation (>= 1; resource-status and resource-spec on the Reservation object, 1/2 with a stale resource-status (1/4 also a stale resource-spec) on spec.template). A fresh resourceManager is wired with the real registerPodEventHandler on real informer factories over fake clientsets (kube factory behind NewForceSyncSharedInformerFactory), the Reservation (5/8) or pod (2/8) listener pinned by a gate (1/8 none); start-up order factory start -> WaitForCacheSync -> real WaitForHandlersSync (150 ms deadline; the gate opens if it held) -> observe. Non-trivial = pods and Reservations both hold")
}

func c19SortInts(xs []int) {
	for i := 1; i < len(xs); i++ {
		for j := i; j > 0 && xs[j-1] > xs[j]; j-- {
			xs[j-1], xs[j] = xs[j], xs[j-1]
		}
	}
}
