//go:build verif

package nodenumaresource

import (
	"fmt"
	"os"
	"sort"
	"strconv"
	"strings"

	corev1 "k8s.io/api/core/v1"
	metav1 "k8s.io/apimachinery/pkg/apis/meta/v1"
	"k8s.io/apimachinery/pkg/types"

	"github.com/koordinator-sh/koordinator/apis/extension"
	schedulingconfig "github.com/koordinator-sh/koordinator/pkg/scheduler/apis/config"
	"github.com/koordinator-sh/koordinator/pkg/scheduler/frameworkext/topologymanager"
	"github.com/koordinator-sh/koordinator/pkg/util/bitmask"
	"github.com/koordinator-sh/koordinator/pkg/util/cpuset"
)

// C06 — directed stream "cpu-bind pod on a near-full NUMA node of an amplified node" (part of TestVerifC06Hist).
//
// With a cpu amplification ratio > 1 a NUMA node's capacity is raw x ratio.  A pod WITHOUT cpu bind consumes what it
// records.  A cpu-bind pod records its RAW request (allocateResourcesByHint splits options.originalRequests), but the CPUs
// it holds are worth Amplify(cpus x 1000) of the node's (amplified) capacity: that is what getAvailableNUMANodeResources
// charges afterwards (recorded - cpusets + Amplify(cpusets)) and what filterAmplifiedCPUs charges at node level.
//
// Per-NUMA clause evaluated here, from scratch (shadow of the live pods + topology table only):
//
//	consumed(node) = sum of the cpu amounts recorded by live pods without CPUs on that node
//	               + Amplify(1000 x number of distinct CPUs of that node held by live pods)
//	consumed(node) <= capacity(node) = Amplify(raw capacity)        after every Allocate + Update
//
// i.e. an allocation never takes more out of a NUMA node than the node had free, measured in the unit the capacity is
// expressed in.  Fingerprint C06:numa-amplified-bind-overcharge.  The stream is ON by default (open known finding; VERIF_C06_AMPBIND=0 turns it off)
// (the unchanged tree violates the clause; replay with the same variable set).
var c06AmpBind = os.Getenv("VERIF_C06_AMPBIND") != "0" // on by default: open known finding C06:numa-amplified-bind-overcharge

const c06AmpBindCases = 48

// c06Consumed: the from-scratch consumption of every NUMA node's cpu capacity (milli, amplified unit).
func c06Consumed(topo *CPUTopology, shadow map[int]*c06Shadow, num, den int64) map[int]int64 {
	out := map[int]int64{}
	held := map[int]map[int]bool{}
	for _, p := range shadow {
		for _, c := range p.cpus {
			nd := topo.CPUDetails[c].NodeID
			if held[nd] == nil {
				held[nd] = map[int]bool{}
			}
			held[nd][c] = true
		}
	}
	for _, p := range shadow {
		for k, v := range p.cells {
			if k%16 != 0 {
				continue
			}
			nd := k / 16
			onNode := false
			for _, c := range p.cpus {
				if topo.CPUDetails[c].NodeID == nd {
					onNode = true
				}
			}
			if !onNode {
				out[nd] += v
			}
		}
	}
	for nd, s := range held {
		out[nd] += c06Amplify(int64(len(s))*1000, num, den)
	}
	return out
}

// c06ChargedOracle evaluates the clause; `what` names the step.  Returns false if it failed.
func c06ChargedOracle(h *vHarness, rm *resourceManager, plugin *Plugin, tom TopologyOptionsManager, node *corev1.Node,
	topo *CPUTopology, shadow map[int]*c06Shadow, capAmp map[int]int64, num, den int64, what string) bool {
	// premise of the clause: NUMA-level accounting sees every pod, i.e. a pod holding CPUs of a NUMA node has recorded a cpu
	// amount on that node (a cpu-bind pod allocated WITHOUT a NUMA hint records nothing; such histories are not judged)
	for _, p := range shadow {
		for _, c := range p.cpus {
			if p.cells[topo.CPUDetails[c].NodeID*16] <= 0 {
				h.Tag("amp:unhinted-bind-skip")
				return true
			}
		}
	}
	cons := c06Consumed(topo, shadow, num, den)
	var nds []int
	for nd := range cons {
		nds = append(nds, nd)
	}
	sort.Ints(nds)
	for _, nd := range nds {
		if cons[nd] > capAmp[nd*16] {
			implSays := int64(-1)
			if opt, err := plugin.getResourceOptions(&preFilterState{requests: corev1.ResourceList{}}, node, false, topologymanager.NUMATopologyHint{}, tom.GetTopologyOptions(c06Node)); err == nil {
				_, talloc, _ := rm.getAvailableNUMANodeResources(c06Node, opt.topologyOptions, nil)
				if rl, ok := talloc[nd]; ok {
					q := rl[corev1.ResourceCPU]
					implSays = q.MilliValue()
				}
			}
			h.Tag("amp:overcharged")
			h.Fail("C06:numa-amplified-bind-overcharge", "%s: NUMA node %d consumes %d cpu (pods without cpu bind + Amplify(bound CPUs), ratio %d/%d) "+
				"but its capacity is %d; getAvailableNUMANodeResources itself reports %d allocated", what, nd, cons[nd], num, den, capAmp[nd*16], implSays)
			return false
		}
	}
	return true
}

// c06AmpBindCase: one directed history.  j selects ratio and variant.
func c06AmpBindCase(h *vHarness, r *vRand, j int) {
	rt := [][2]int64{{3, 2}, {2, 1}, {3, 1}}[j%3]
	num, den := rt[0], rt[1]
	variant := (j / 3) % 4
	cores := 2 + (j/12)%3 // 2..4 cores per NUMA node
	threads := 2
	if variant == 3 && r.Bool() {
		threads = 1
	}
	if j%5 == 4 && variant != 2 {
		threads = 1
	}
	topo := buildCPUTopologyForTest(1, 2, cores, threads)
	var all []int
	for c := range topo.CPUDetails {
		all = append(all, c)
	}
	sort.Ints(all)
	cpusPerNode := topo.CPUsPerNode()
	capCell := map[int]int64{}
	var numaRes []NUMANodeResource
	for nd := 0; nd < topo.NumNodes; nd++ {
		numaRes = append(numaRes, NUMANodeResource{Node: nd, Resources: corev1.ResourceList{corev1.ResourceCPU: c06Milli(int64(cpusPerNode) * 1000)}})
		capCell[nd*16] = int64(cpusPerNode) * 1000
	}
	tom := NewTopologyOptionsManager()
	tom.UpdateTopologyOptions(c06Node, func(o *TopologyOptions) {
		o.CPUTopology = topo
		o.MaxRefCount = 1
		o.ReservedCPUs = cpuset.NewCPUSet()
		o.NUMANodeResources = numaRes
	})
	strategy := schedulingconfig.NUMAMostAllocated
	if r.Bool() {
		strategy = schedulingconfig.NUMALeastAllocated
	}
	rm := &resourceManager{numaAllocateStrategy: strategy, topologyOptionsManager: tom, nodeAllocations: map[string]*NodeAllocation{}}
	node := &corev1.Node{ObjectMeta: metav1.ObjectMeta{Name: c06Node}}
	extension.SetNodeResourceAmplificationRatios(node, map[corev1.ResourceName]extension.Ratio{
		corev1.ResourceCPU: extension.Ratio(float64(num) / float64(den))})
	amp := func(x int64) int64 { return c06Amplify(x, num, den) }
	capAmp := map[int]int64{}
	for k, v := range capCell {
		capAmp[k] = amp(v)
		if extension.Amplify(v, extension.Ratio(float64(num)/float64(den))) != capAmp[k] {
			h.Fail("C06:float-assumption", "Amplify(%d, %d/%d) is not ceil(x*num/den) = %d", v, num, den, capAmp[k])
		}
	}
	plugin := &Plugin{resourceManager: rm, topologyOptionsManager: tom}
	{
		var sb strings.Builder
		fmt.Fprintf(&sb, "cfg %d %d %d %d %d %d %d %d %d", 1, vB(strategy == schedulingconfig.NUMAMostAllocated), num, den,
			topo.NumCPUs, topo.NumCores, topo.NumNodes, topo.NumSockets, len(all))
		for _, c := range all {
			info := topo.CPUDetails[c]
			fmt.Fprintf(&sb, " %d %d %d %d", c, info.CoreID, info.NodeID, info.SocketID)
		}
		fmt.Fprintf(&sb, " %s %d", c06Blk(nil), len(capCell))
		for _, k := range c06SortedCellKeys(capCell) {
			fmt.Fprintf(&sb, " %d %d", k, capCell[k])
		}
		h.Op("%s", sb.String())
	}
	h.Tag("hist:amp-bind")
	h.Tag(fmt.Sprintf("amp-variant:%d", variant))
	h.Tag(fmt.Sprintf("cpu-ratio:%d/%d", num, den))

	shadow := map[int]*c06Shadow{}
	nextUID := 1
	clauseOK := true
	// one Allocate + Update; returns whether the allocation succeeded
	step := func(what string, requestCPUBind bool, bind schedulingconfig.CPUBindPolicy, required bool, ncpu int, cpuMilli int64, hint []int) bool {
		uid := nextUID
		nextUID++
		requests := corev1.ResourceList{corev1.ResourceCPU: c06Milli(cpuMilli)}
		state := &preFilterState{requestCPUBind: requestCPUBind, requests: requests, numCPUsNeeded: ncpu}
		if required {
			state.requiredCPUBindPolicy = bind
		} else {
			state.preferredCPUBindPolicy = bind
		}
		mask, _ := bitmask.NewBitMask(hint...)
		affinity := topologymanager.NUMATopologyHint{NUMANodeAffinity: mask}
		pod := &corev1.Pod{ObjectMeta: metav1.ObjectMeta{UID: types.UID(strconv.Itoa(uid)), Name: "p", Namespace: "d"}}
		var alloc *PodAllocation
		okAlloc := false
		if h.Guard(func() {
			options, err := plugin.getResourceOptions(state, node, requestCPUBind, affinity, tom.GetTopologyOptions(c06Node))
			if err != nil {
				return
			}
			a, st := tryAllocateFromNode(rm, nil, &nodeReservationRestoreStateData{}, options, pod, node)
			if st.IsSuccess() && a != nil {
				alloc, okAlloc = a, true
			}
		}) {
			h.Fail("C06:allocate-panic", "getResourceOptions / Allocate panicked (%s)", what)
			return false
		}
		h.Op("alloc %d 0 %d %d %d %d 1 %s 1 0 %d", uid, c06BindEnum(bind), vB(required), vB(requestCPUBind), ncpu, c06Blk(hint), cpuMilli)
		h.Tag(fmt.Sprintf("amp-%s-ok:%d", what, vB(okAlloc)))
		if !okAlloc {
			h.Obs("alloc 0")
			return false
		}
		got := c06SortedCPUs(alloc.CPUSet)
		cells := map[int]int64{}
		for _, nr := range alloc.NUMANodeResources {
			for name, q := range nr.Resources {
				cells[nr.Node*16+c06Dim(name)] += q.MilliValue()
			}
		}
		{
			var sb strings.Builder
			fmt.Fprintf(&sb, "alloc 1 %s %d", c06Blk(got), len(cells))
			for _, k := range c06SortedCellKeys(cells) {
				fmt.Fprintf(&sb, " %d %d", k, cells[k])
			}
			h.Obs("%s", sb.String())
		}
		if requestCPUBind && len(got) != ncpu {
			h.Fail("C06:cpuset-count", "requested %d CPUs, got %d: %v", ncpu, len(got), got)
		}
		h.Op("commit")
		rm.Update(c06Node, alloc)
		shadow[uid] = &c06Shadow{cpus: got, cells: cells}
		c06DumpLedger(h, rm)
		// what the implementation reports available afterwards (amplified options)
		if opt, err := plugin.getResourceOptions(&preFilterState{requests: corev1.ResourceList{}}, node, false, topologymanager.NUMATopologyHint{}, tom.GetTopologyOptions(c06Node)); err == nil {
			tx, _, _ := rm.getAvailableNUMANodeResources(c06Node, opt.topologyOptions, nil)
			var xb strings.Builder
			xb.WriteString("navail")
			for _, k := range c06SortedCellKeys(capCell) {
				q := tx[k/16][c06ResNames[k%16]]
				fmt.Fprintf(&xb, " %d %d", k, q.MilliValue())
			}
			h.Op("navailx")
			h.Obs("%s", xb.String())
		}
		if clauseOK {
			clauseOK = c06ChargedOracle(h, rm, plugin, tom, node, topo, shadow, capAmp, num, den, what)
		}
		return true
	}

	k := 1 // CPUs the cpu-bind pod takes out of the near-full node
	bind := c06BindPolicies[r.Intn(3)]
	required := false
	if variant == 2 {
		k, bind, required = threads, schedulingconfig.CPUBindPolicyFullPCPUs, true
	}
	if k > cpusPerNode {
		k = cpusPerNode
	}
	// node 0 is left with f0 (amplified unit): enough for the RAW request k x 1000, not for Amplify(k x 1000)
	f0 := int64(k)*1000 + int64(r.Intn(int(amp(int64(k)*1000)-int64(k)*1000)))
	if j < 12 { // the plain instance: exactly the raw request is left (j = 1: raw 4 CPUs, ratio 2, 7000 + 1 CPU => 9000 > 8000)
		f0 = int64(k) * 1000
	}
	ok := true
	switch variant {
	case 0, 2: // the bind pod is hinted to the near-full node only
		ok = step("fill0", false, schedulingconfig.CPUBindPolicyDefault, false, 0, capAmp[0]-f0, []int{0})
		ok = ok && step("bind", true, bind, required, k, int64(k)*1000, []int{0})
	case 1: // hint {0,1}: together the two nodes have Amplify(2k) free, so a hint generator working on amplified requests accepts the mask
		f1 := amp(int64(2*k)*1000) - f0 + int64(r.Intn(2))*500
		if f1 <= f0 {
			f1 = f0 + 500
		}
		if f1 > capAmp[16] {
			f1 = capAmp[16]
		}
		ok = step("fill0", false, schedulingconfig.CPUBindPolicyDefault, false, 0, capAmp[0]-f0, []int{0})
		ok = ok && step("fill1", false, schedulingconfig.CPUBindPolicyDefault, false, 0, capAmp[16]-f1, []int{1})
		ok = ok && step("bind", true, bind, false, 2*k, int64(2*k)*1000, []int{0, 1})
	default: // mix: bind and non-bind pods in random order until node 0 is full
		for s := 0; s < 6 && ok; s++ {
			cons := c06Consumed(topo, shadow, num, den)
			left := capAmp[0] - cons[0]
			if left <= 0 {
				break
			}
			if r.Bool() {
				want := int64(r.Range(1, int(left)))
				if r.Bool() {
					want = (want + 999) / 1000 * 1000
					if want > left {
						want = left
					}
				}
				step("mix-nobind", false, schedulingconfig.CPUBindPolicyDefault, false, 0, want, []int{0})
			} else {
				n := r.Range(1, 2)
				step("mix-bind", true, c06BindPolicies[r.Intn(3)], false, n, int64(n)*1000, []int{0})
			}
		}
	}
	if len(shadow) > 0 {
		h.Nontrivial()
	}
}
