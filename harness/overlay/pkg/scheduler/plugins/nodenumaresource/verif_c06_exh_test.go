//go:build verif

package nodenumaresource

import (
	"fmt"
	"os"
	"sort"
	"strings"
	"testing"

	schedulingconfig "github.com/koordinator-sh/koordinator/pkg/scheduler/apis/config"
	"github.com/koordinator-sh/koordinator/pkg/util/cpuset"
)

// TestVerifC06PickExh — exhaustive small-scope stream for the picker (thorough tier; VERIF_C06_EXH=1 forces it in quick).
//
// ALL topologies sockets x nodes/socket x cores/node x threads/core with every factor in {1,2} (1..16 CPUs), ALL free
// subsets of the CPUs (topologies with 16 CPUs: the empty set, the full set and a capped pseudo-random sample), sharing
// limit 1 and 2, and inside one case ALL requests 1..|free|+1 x ALL bind policies x ALL exclusive policies x both NUMA
// strategies.  The allocated-CPU table (ref-counts, exclusive marks) is a fixed function of the subset:
//   limit 1: every CPU outside the free set is held once, exclusive mark = policies[(cpu+mask) mod 4];
//   limit 2: every CPU outside the free set is held twice, every free CPU with (cpu+mask) mod 3 = 0 is held once.
// Oracle = picker contract (exact count, inside the free set); model = exact CPU ids (takePreferredCPUs, no preferred CPUs).
// One case = one (topology, free set, limit); non-trivial = some request with 1 < need < |free| succeeded.
func TestVerifC06PickExh(t *testing.T) {
	h := vOpen("C06")
	if h == nil {
		t.Skip("VERIF_OUT not set")
	}
	if h.Tier != "thorough" && os.Getenv("VERIF_C06_EXH") == "" {
		h.Close("exhaustive small-scope picker stream: thorough tier only")
		return
	}
	sample16 := vEnvInt("VERIF_C06_EXH_SAMPLE", 160)
	idx := 0
	for s := 1; s <= 2; s++ {
		for n := 1; n <= 2; n++ {
			for c := 1; c <= 2; c++ {
				for th := 1; th <= 2; th++ {
					topo := buildCPUTopologyForTest(s, n, c, th)
					var all []int
					for id := range topo.CPUDetails {
						all = append(all, id)
					}
					sort.Ints(all)
					N := len(all)
					var masks []uint32
					if N <= 8 {
						for m := uint32(0); m < 1<<uint(N); m++ {
							masks = append(masks, m)
						}
					} else {
						masks = append(masks, 0, 1<<uint(N)-1)
						mr := vNewRand(h.Seed, uint64(1000003))
						for i := 0; i < sample16; i++ {
							masks = append(masks, uint32(mr.Intn(1<<uint(N))))
						}
					}
					for _, mask := range masks {
						for maxRef := 1; maxRef <= 2; maxRef++ {
							r := h.Begin(idx)
							idx++
							if r == nil {
								continue
							}
							c06ExhCase(h, topo, [4]int{s, n, c, th}, all, mask, maxRef)
							h.End()
						}
					}
				}
			}
		}
	}
	h.Close("exhaustive: all 16 topologies with factors in {1,2} (1-16 CPUs), all free subsets (16 CPUs: empty, full and a capped sample), " +
		"sharing limit 1/2, and per case all requests 1..|free|+1 x 3 bind policies x 4 exclusive policies x 2 NUMA strategies; " +
		"non-trivial = some request with 1 < need < |free| succeeded")
}

func c06ExhCase(h *vHarness, topo *CPUTopology, dims [4]int, all []int, mask uint32, maxRef int) {
	var avail []int
	inAvail := map[int]bool{}
	for i, c := range all {
		if mask&(1<<uint(i)) != 0 {
			avail = append(avail, c)
			inAvail[c] = true
		}
	}
	allocated := CPUDetails{}
	for _, c := range all {
		mark := c06ExclPolicies[(c+int(mask))%4]
		switch {
		case !inAvail[c]:
			info := topo.CPUDetails[c]
			info.RefCount = maxRef
			info.ExclusivePolicy = mark
			allocated[c] = info
		case maxRef > 1 && (c+int(mask))%3 == 0:
			info := topo.CPUDetails[c]
			info.RefCount = 1
			info.ExclusivePolicy = mark
			allocated[c] = info
		}
	}
	var ak []int
	for c := range allocated {
		ak = append(ak, c)
	}
	sort.Ints(ak)
	h.Tag(fmt.Sprintf("exh-topo:%dx%dx%dx%d", dims[0], dims[1], dims[2], dims[3]))
	h.Tag(fmt.Sprintf("exh-maxref:%d", maxRef))
	nontrivial := false
	for need := 1; need <= len(avail)+1; need++ {
		for _, bind := range c06BindPolicies {
			for _, excl := range c06ExclPolicies {
				for _, strategy := range []schedulingconfig.NUMAAllocateStrategy{schedulingconfig.NUMAMostAllocated, schedulingconfig.NUMALeastAllocated} {
					var got cpuset.CPUSet
					var err error
					var sb strings.Builder
					fmt.Fprintf(&sb, "take %d %d %d %d %d %d %d %d %d %d", maxRef, c06Excl(excl), vB(strategy == schedulingconfig.NUMAMostAllocated),
						c06BindEnum(bind), need, topo.NumCPUs, topo.NumCores, topo.NumNodes, topo.NumSockets, len(all))
					for _, c := range all {
						info := topo.CPUDetails[c]
						fmt.Fprintf(&sb, " %d %d %d %d", c, info.CoreID, info.NodeID, info.SocketID)
					}
					fmt.Fprintf(&sb, " %s %d", c06Blk(avail), len(ak))
					for _, c := range ak {
						fmt.Fprintf(&sb, " %d %d %d", c, allocated[c].RefCount, c06Excl(allocated[c].ExclusivePolicy))
					}
					sb.WriteString(" 0")
					h.Op("%s", sb.String())
					if h.Guard(func() {
						got, err = takePreferredCPUs(topo, maxRef, cpuset.NewCPUSet(avail...), cpuset.NewCPUSet(), allocated, need, bind, excl, strategy)
					}) {
						h.Obs("take panic")
						h.Fail("C06:picker-panic", "takePreferredCPUs panicked: need %d avail %v topology %v", need, avail, dims)
						continue
					}
					h.Tag(fmt.Sprintf("exh-ok:%d-bind:%d", vB(err == nil), c06BindEnum(bind)))
					if err != nil {
						h.Obs("take 0")
						continue
					}
					sset := c06SortedCPUs(got)
					var b strings.Builder
					for _, c := range sset {
						fmt.Fprintf(&b, " %d", c)
					}
					h.Obs("take 1%s", b.String())
					if len(sset) != need {
						h.Fail("C06:cpuset-count", "requested %d CPUs, got %d: %v (free %v; topology %v sockets x nodes x cores x threads, bind policy %q, exclusive %q, maxRefCount %d, strategy %s)",
							need, len(sset), sset, avail, dims, bind, excl, maxRef, strategy)
					}
					for _, c := range sset {
						if !inAvail[c] {
							h.Fail("C06:cpuset-not-free", "cpu %d not in the free set %v", c, avail)
							break
						}
					}
					if need > 1 && need < len(avail) {
						nontrivial = true
					}
				}
			}
		}
	}
	if nontrivial {
		h.Nontrivial()
	}
}
