//go:build verif

package nodenumaresource

import (
	"context"
	"fmt"
	"sort"

	corev1 "k8s.io/api/core/v1"
	metav1 "k8s.io/apimachinery/pkg/apis/meta/v1"
	"k8s.io/apimachinery/pkg/types"
	"k8s.io/kubernetes/pkg/scheduler/framework"

	"github.com/koordinator-sh/koordinator/apis/extension"
	schedulingconfig "github.com/koordinator-sh/koordinator/pkg/scheduler/apis/config"
	"github.com/koordinator-sh/koordinator/pkg/util/cpuset"
)

// C06 preemption dry-run stream (extension round 6), appended to every case of the `bind` harness (after all the draws of
// the existing stream, which therefore stay exactly as they were).
//
// The pods that are bound on the node at the end of the case are the candidate victims of a preemptor.  The generic
// preemption loop is replayed on the preemptor's cycle state through the REAL Plugin.RemovePod / Plugin.AddPod
// (PreFilterExtensions): a walk of 2-7 steps, each removing a victim that is on the node or reprieving one that was
// removed (every 6th case is degenerate: AddPod may name a pod that was not removed; a pod is 'removed' iff its
// removals minus additions are positive, kept within -1..1).  After every step
//   * the CPUs the plugin reports preemptible (nodeAlloc.AppendCPUSet(∅), what tryAllocateFromNode passes to Allocate) and
//     resourceManager.GetAvailableCPUs(node, ∅, preemptible) are observed (model: `prm` / `pad`);
//   * the preemptor goes through the real Plugin.Filter and then Plugin.allocate (what Reserve runs before committing;
//     Filter itself allocates only for a required bind policy and throws the result away) on that dry-run state.
// Oracle (the property on the dry-run view: a CPU is free for the preemptor iff no pod that is live and NOT currently
// removed holds it):
//   C06:preempt-reports-held-cpu   a CPU reported preemptible is held by a live pod that is not removed
//   C06:cpuset-not-free            a CPU handed to the preemptor is held by a live pod that is not removed
//   C06:cpuset-count               the preemptor did not get exactly the requested number of CPUs
//   C06:preempt-changed-ledger     the dry run wrote the ledger
func c06BindDryRun(h *vHarness, r *vRand, plg *Plugin, rm *resourceManager, node *corev1.Node, all []int, cpc int,
	objs map[int]*corev1.Pod, cpusOf map[int][]int) {
	var uids []int
	for u := range objs {
		uids = append(uids, u)
	}
	sort.Ints(uids)
	if len(uids) == 0 {
		h.Tag("dry:no-victim")
		return
	}
	nodeName := node.Name
	heldBy := map[int]int{}
	for _, u := range uids {
		for _, c := range cpusOf[u] {
			heldBy[c] = u
		}
	}
	free := len(all) - len(heldBy)

	// the walk is drawn first, so that the request can be placed around what will be available at its end
	type step struct {
		add bool
		uid int
	}
	var walk []step
	cnt := map[int]int{} // removals minus additions; a pod is removed now iff cnt > 0
	nsteps := r.Range(2, 7)
	// degenerate stream: AddPod may also name a pod that was NOT removed (the shape of a nominated pod added to the node
	// copy); it then counts as -1 and its next RemovePod only cancels that.  cnt stays within -1..1.
	degenerate := r.Chance(1, 6)
	if len(uids) >= 2 && r.Chance(1, 3) { // the loop as the scheduler runs it: remove all, then reprieve some
		for _, i := range r.Perm(len(uids)) {
			walk = append(walk, step{false, uids[i]})
			cnt[uids[i]]++
		}
		for _, i := range r.Perm(len(uids)) {
			if r.Bool() {
				walk = append(walk, step{true, uids[i]})
				cnt[uids[i]]--
			}
		}
	} else {
		for s := 0; s < nsteps; s++ {
			var in, out []int
			for _, u := range uids {
				if cnt[u] > 0 || (degenerate && cnt[u] == 0) {
					in = append(in, u)
				}
				if cnt[u] <= 0 {
					out = append(out, u)
				}
			}
			add := len(out) == 0 || (len(in) > 0 && r.Chance(2, 5))
			if add {
				u := in[r.Intn(len(in))]
				walk = append(walk, step{true, u})
				cnt[u]--
			} else {
				u := out[r.Intn(len(out))]
				walk = append(walk, step{false, u})
				cnt[u]++
			}
		}
	}
	room := free
	for u, k := range cnt {
		if k > 0 {
			room += len(cpusOf[u])
		}
	}
	// request: exactly the room at the end of the walk, less, or more than the room (then it must be refused: any
	// answer takes a CPU of a pod that stays)
	ncpu := room
	switch k := r.Intn(4); {
	case k == 0 && room > 1:
		ncpu = r.Range(1, room)
	case k == 1 && room < len(all):
		ncpu = r.Range(room+1, len(all))
	}
	if ncpu < 1 {
		ncpu = 1
	}
	bind := c06BindPolicies[r.Intn(3)]
	required := r.Chance(1, 3) && bind != schedulingconfig.CPUBindPolicyDefault
	if bind == schedulingconfig.CPUBindPolicyFullPCPUs && required && ncpu%cpc != 0 && r.Chance(5, 6) {
		ncpu = ncpu / cpc * cpc
		if ncpu == 0 {
			ncpu = cpc
		}
	}
	preemptor := &corev1.Pod{ObjectMeta: metav1.ObjectMeta{UID: types.UID("900"), Name: "p900", Namespace: "d"},
		Status: corev1.PodStatus{Phase: corev1.PodPending}}
	state := &preFilterState{requestCPUBind: true, numCPUsNeeded: ncpu,
		requests: corev1.ResourceList{corev1.ResourceCPU: c06Milli(int64(ncpu) * 1000)}}
	if required {
		state.requiredCPUBindPolicy = bind
	} else {
		state.preferredCPUBindPolicy = bind
	}
	cycleState := framework.NewCycleState()
	cycleState.Write(stateKey, state)
	nodeInfo := framework.NewNodeInfo()
	nodeInfo.SetNode(node)

	before := c06DryLedger(rm, nodeName)
	h.Op("pdry 1 %s", c06Blk(all))
	cnt = map[int]int{}
	removedNow := func() []int {
		var out []int
		for _, u := range uids {
			if cnt[u] > 0 {
				out = append(out, u)
			}
		}
		return out
	}
	reprieved, handedOut := 0, 0
	for _, st := range walk {
		pi, err := framework.NewPodInfo(objs[st.uid])
		if err != nil {
			h.Fail("C06:allocate-panic", "NewPodInfo: %v", err)
			return
		}
		okStatus := false
		if st.add {
			h.Op("pad 1 %d", st.uid)
			if h.Guard(func() { okStatus = plg.AddPod(context.TODO(), cycleState, preemptor, pi, nodeInfo).IsSuccess() }) {
				h.Obs("panic")
				h.Fail("C06:allocate-panic", "Plugin.AddPod panicked")
				return
			}
			cnt[st.uid]--
			reprieved++
		} else {
			h.Op("prm 1 %d", st.uid)
			if h.Guard(func() { okStatus = plg.RemovePod(context.TODO(), cycleState, preemptor, pi, nodeInfo).IsSuccess() }) {
				h.Obs("panic")
				h.Fail("C06:allocate-panic", "Plugin.RemovePod panicked")
				return
			}
			cnt[st.uid]++
		}
		if !okStatus {
			h.Obs("status-not-success")
			h.Fail("C06:allocate-panic", "the PreFilter extension refused the dry-run step")
			return
		}
		// what the plugin now reports preemptible, read where tryAllocateFromNode reads it
		pre := cpuset.NewCPUSet()
		cur, _ := getPreFilterState(cycleState)
		if cur != nil && cur.preemptibleState != nil {
			if ns := cur.preemptibleState[nodeName]; ns != nil && ns.nodeAlloc != nil {
				pre = ns.nodeAlloc.AppendCPUSet(cpuset.NewCPUSet())
			}
		}
		h.Obs("pre %s", vIntsI(pre.ToSlice()))
		if av, _, err := rm.GetAvailableCPUs(nodeName, cpuset.NewCPUSet(), pre); err != nil {
			h.Obs("pavail error")
		} else {
			h.Obs("pavail %s", vIntsI(av.ToSlice()))
		}
		stays := func(c int) (int, bool) { // a live pod that is not removed holds c
			u, held := heldBy[c]
			return u, held && cnt[u] <= 0
		}
		for _, c := range pre.ToSlice() {
			if u, bad := stays(c); bad {
				h.Fail("C06:preempt-reports-held-cpu", "after %v: cpu %d is reported preemptible, pod %d holds it and is not removed (removed now: %v)", walk, c, u, removedNow())
				break
			}
		}
		// the preemptor on this dry-run view: Filter, then the allocation Reserve would make
		var fst, ast bool
		state.allocation = nil
		if h.Guard(func() {
			fst = plg.Filter(context.TODO(), cycleState, preemptor, nodeInfo).IsSuccess()
			ast = plg.allocate(context.TODO(), cycleState, preemptor, node, extension.NUMATopologyPolicyNone).IsSuccess()
		}) {
			h.Fail("C06:allocate-panic", "the preemptor's Filter / allocate panicked")
			return
		}
		roomNow := free
		for _, u := range removedNow() {
			roomNow += len(cpusOf[u])
		}
		h.Tag(fmt.Sprintf("dry-filter:%d-alloc:%d-required:%d-fits:%d", vB(fst), vB(ast), vB(required), vB(ncpu <= roomNow)))
		if ast && state.allocation != nil {
			got := state.allocation.CPUSet.ToSlice()
			handedOut++
			if len(got) != ncpu {
				h.Fail("C06:cpuset-count", "dry run: the preemptor requested %d CPUs and got %v", ncpu, got)
			}
			for _, c := range got {
				if u, bad := stays(c); bad {
					h.Fail("C06:cpuset-not-free", "dry run %v: cpu %d is handed to the preemptor, pod %d holds it and is not removed (removed now: %v, reported preemptible %v)",
						walk, c, u, removedNow(), pre.ToSlice())
					break
				}
			}
		}
	}
	if after := c06DryLedger(rm, nodeName); after != before {
		h.Fail("C06:preempt-changed-ledger", "the dry run changed the ledger: %s -> %s", before, after)
	}
	h.Tag(fmt.Sprintf("dry:degenerate:%d", vB(degenerate)))
	h.Tag(fmt.Sprintf("dry:victims:%d-reprieved:%d", len(uids), c06Min(reprieved, 3)))
	if len(uids) >= 2 && reprieved > 0 && handedOut > 0 {
		h.Tag("dry:nontrivial")
	}
}

// the ledger of the node as text (pods, then cpu:ref), without emitting observations
func c06DryLedger(rm *resourceManager, nodeName string) string {
	na := rm.getOrCreateNodeAllocation(nodeName)
	na.lock.RLock()
	defer na.lock.RUnlock()
	var pods []string
	for uid, pa := range na.allocatedPods {
		pods = append(pods, fmt.Sprintf("%s=%v", uid, pa.CPUSet.ToSlice()))
	}
	sort.Strings(pods)
	var ids []int
	for c := range na.allocatedCPUs {
		ids = append(ids, c)
	}
	sort.Ints(ids)
	s := fmt.Sprint(pods) + " |"
	for _, c := range ids {
		s += fmt.Sprintf(" %d:%d", c, na.allocatedCPUs[c].RefCount)
	}
	return s
}

func c06Min(a, b int) int {
	if a < b {
		return a
	}
	return b
}
