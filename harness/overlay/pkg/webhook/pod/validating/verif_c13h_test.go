//go:build verif

package validating

import (
	"context"
	"encoding/json"
	"fmt"
	"math/big"
	"testing"
	"time"

	admissionv1 "k8s.io/api/admission/v1"
	corev1 "k8s.io/api/core/v1"
	"k8s.io/apimachinery/pkg/api/resource"
	metav1 "k8s.io/apimachinery/pkg/apis/meta/v1"
	"k8s.io/apimachinery/pkg/runtime"
	"k8s.io/client-go/kubernetes/scheme"
	"sigs.k8s.io/controller-runtime/pkg/client/fake"
	"sigs.k8s.io/controller-runtime/pkg/webhook/admission"

	"github.com/koordinator-sh/koordinator/pkg/features"
	"github.com/koordinator-sh/koordinator/pkg/util/feature"
)

// C13 (validating half, through the ENTRY POINT): PodValidatingHandler.Handle on raw admission requests.
// Which requests reach the colocation validators is decided by validatingPodFn (sub-resource / foreign
// resource / DELETE without old object are let through, objects are decoded from the raw JSON); the object
// shapes a pod carries through its life (metadata.deletionTimestamp on the old / new / both objects,
// finalizers, status-only updates) decide NOTHING on the unchanged tree.  The model has exactly that
// dispatch (Model/C13Handle.lean handleValidating); the oracle demands the protocol - in particular
// "QoS and priority class never change on update" - for every CREATE / UPDATE of a pod (no sub-resource).

var c13hOperations = []admissionv1.Operation{admissionv1.Create, admissionv1.Update, admissionv1.Delete, admissionv1.Connect}
var c13hSubResources = []string{"", "status", "ephemeralcontainers", "binding", "eviction", "resize"}
var c13hResourceNames = []string{"pods", "podtemplates", "deployments", ""}

// c13hCase: one request.
type c13hCase struct {
	op, sub, res                              int
	hasObj, hasOld                            bool
	delOld, delNew, finalizers, statusOnly    bool
	oldFinalizers                             bool
	gate                                      bool
	newPod, oldPod                            *corev1.Pod // as generated; the request carries their JSON
}

func c13hJSON(t *testing.T, pod *corev1.Pod) ([]byte, *corev1.Pod) {
	raw, err := json.Marshal(pod)
	if err != nil {
		t.Fatalf("C13: marshal: %v", err)
	}
	back := &corev1.Pod{}
	if err := json.Unmarshal(raw, back); err != nil {
		t.Fatalf("C13: generated pod does not survive JSON: %v", err)
	}
	return raw, back
}

// c13hRun: ops, the request through Handle, the observation, the oracle.  Bracketed by h.Begin / h.End by the caller.
func c13hRun(h *vHarness, t *testing.T, handler *PodValidatingHandler, c *c13hCase) {
	deleting := metav1.NewTime(time.Unix(1700000000, 0))
	if c.delNew {
		c.newPod.DeletionTimestamp = &deleting
		sec := int64(30)
		c.newPod.DeletionGracePeriodSeconds = &sec
	}
	if c.delOld {
		c.oldPod.DeletionTimestamp = &deleting
	}
	if c.finalizers {
		c.newPod.Finalizers = []string{"example.com/c13"}
	}
	if c.oldFinalizers {
		c.oldPod.Finalizers = []string{"example.com/c13", "example.com/c13-b"}
	}
	rawNew, decNew := c13hJSON(t, c.newPod)
	rawOld, decOld := c13hJSON(t, c.oldPod)
	h.Op("pod 0 %s", c13EncPod(decNew))
	h.Op("pod 1 %s", c13EncPod(decOld))
	if c13HasResizeStatus(decNew) { // ext6: what survives the JSON round trip of the request
		h.Op("cstatus 0 %s", c13EncStatus(decNew))
	}
	if c13HasResizeStatus(decOld) {
		h.Op("cstatus 1 %s", c13EncStatus(decOld))
	}
	h.Op("hvalidate %d %d %d %d %d %d %d %d %d %d %d", c.op, c.sub, vB(c.res == 0), vB(c.hasObj), vB(c.hasOld),
		vB(c.delOld), vB(c.delNew), vB(c.finalizers), vB(c.oldFinalizers), vB(c.statusOnly), vB(c.gate))

	req := admission.Request{AdmissionRequest: admissionv1.AdmissionRequest{
		Resource:    metav1.GroupVersionResource{Group: "", Version: "v1", Resource: c13hResourceNames[c.res]},
		SubResource: c13hSubResources[c.sub], Namespace: "default", Name: "p",
		Operation: c13hOperations[c.op], Object: runtime.RawExtension{}, OldObject: runtime.RawExtension{}}}
	if c.hasObj {
		req.Object.Raw = rawNew
	}
	if c.hasOld {
		req.OldObject.Raw = rawOld
	}
	restore := feature.SetFeatureGateDuringTest(t, feature.DefaultMutableFeatureGate, features.ColocationProfileSkipValidatingPriority, c.gate)
	var resp admission.Response
	panicked := h.Guard(func() { resp = handler.Handle(context.TODO(), req) })
	restore()
	if panicked {
		h.Obs("panic")
		return
	}
	allowed := resp.Allowed
	h.Obs("hverdict %d", vB(allowed))

	term := "none"
	switch {
	case c.delOld && c.delNew:
		term = "both"
	case c.delOld:
		term = "old"
	case c.delNew:
		term = "new"
	}
	h.Tag(fmt.Sprintf("h:op:%s", c13hOperations[c.op]))
	h.Tag("h:terminating:" + term)
	h.Tag(fmt.Sprintf("h:sub:%s/res:%s", c13hSubResources[c.sub], c13hResourceNames[c.res]))
	h.Tag(fmt.Sprintf("h:obj%d/old%d", vB(c.hasObj), vB(c.hasOld)))
	h.Tag(fmt.Sprintf("h:verdict:%v", allowed))
	h.Tag(fmt.Sprintf("h:finalizers:old%d/new%d", vB(c.oldFinalizers), vB(c.finalizers)))
	if c.statusOnly {
		h.Tag("h:status-only")
	}

	// ---- property oracle: a pod CREATE / UPDATE (the pod resource itself) that is admitted obeys the protocol,
	// whatever else the objects carry ----
	if !(c.op == 0 || c.op == 1) || c.sub != 0 || c.res != 0 || !c.hasObj || (c.op == 1 && !c.hasOld) {
		h.Tag("h:protocol:not-applicable")
		return
	}
	qos, pc := c13OracleQoS(decNew), c13OraclePC(decNew)
	pairBad := (qos == "BE" && (pc == "koord-prod" || pc == "")) || (qos == "LSR" && pc != "koord-prod")
	nonNeg := c13AllNonNegative(decNew)
	milli := c13CeilDiv(c13OraclePodRequest(decNew, "cpu"), 1000000)
	fractional := nonNeg && (qos == "LSR" || qos == "LSE") && new(big.Int).Mod(milli, big.NewInt(1000)).Sign() != 0
	batch := nonNeg && (c13OraclePodRequest(decNew, "kubernetes.io/batch-cpu").Sign() > 0 || c13OraclePodRequest(decNew, "kubernetes.io/batch-memory").Sign() > 0)
	batchNonBE := batch && qos != "BE"
	qosChanged, pcChanged := false, false
	if c.op == 1 {
		qosChanged = c13OracleQoS(decOld) != qos
		pcChanged = c13OraclePC(decOld) != pc
	}
	if qosChanged || pcChanged {
		h.Tag("h:class-changed/terminating:" + term)
	}
	if pairBad || fractional || batchNonBE || qosChanged || pcChanged {
		h.Tag("h:protocol:violated")
	} else {
		h.Tag("h:protocol:obeyed")
	}
	if qos != "" || pc != "" {
		h.Nontrivial()
	}
	if !allowed {
		return
	}
	if pairBad {
		h.Fail("C13:handle-admit-forbidden-pair", "Handle admitted QoS %q with priority class %q (terminating: %s)", qos, pc, term)
	}
	if fractional {
		h.Fail("C13:handle-admit-fractional-cpu", "Handle admitted %s pod requesting %s milli-CPU (terminating: %s)", qos, milli, term)
	}
	if batchNonBE {
		h.Fail("C13:handle-admit-batch-non-be", "Handle admitted QoS %q pod requesting batch resources (terminating: %s)", qos, term)
	}
	if qosChanged {
		h.Fail("C13:handle-admit-qos-changed", "Handle admitted an update with QoS %q -> %q (terminating: %s, finalizers %v)", c13OracleQoS(decOld), qos, term, c.finalizers)
	}
	if pcChanged {
		h.Fail("C13:handle-admit-priority-class-changed", "Handle admitted an update with priority class %q -> %q (terminating: %s, finalizers %v)", c13OraclePC(decOld), pc, term, c.finalizers)
	}
}

func c13hHandler() *PodValidatingHandler {
	// as the direct harness: a fake client without objects and a decoder over the client-go scheme
	return &PodValidatingHandler{Client: fake.NewClientBuilder().Build(), Decoder: admission.NewDecoder(scheme.Scheme)}
}

func TestVerifC13ValidatingHandle(t *testing.T) {
	h := vOpen("C13")
	if h == nil {
		t.Skip("VERIF_OUT not set")
	}
	handler := c13hHandler()
	n := h.N(3000, 80000)
	for idx := 0; idx < n; idx++ {
		r := h.Begin(idx)
		if r == nil {
			continue
		}
		c := &c13hCase{}
		c.newPod = c13GenValidatingPod(r)
		c.op = int(r.Pick([]int64{0, 0, 0, 1, 1, 1, 1, 1, 1, 2, 3}))
		switch r.Intn(6) {
		case 0, 1: // an update that changes nothing the protocol reads (or only the status)
			c.oldPod = c.newPod.DeepCopy()
			if r.Bool() {
				c.statusOnly = true
				c.oldPod.Status.Phase = corev1.PodPending
				c.newPod.Status.Phase = corev1.PodRunning
				c.newPod.Status.Conditions = []corev1.PodCondition{{Type: corev1.PodReady, Status: corev1.ConditionTrue}}
			}
		default:
			c.oldPod = c13PerturbOld(r, c.newPod)
		}
		switch r.Intn(10) {
		case 0, 1, 2:
			c.delOld, c.delNew = true, true // a terminating pod being updated (finalizer removal, status sync)
		case 3, 4:
			c.delNew = true // the update that starts the graceful deletion
		case 5:
			c.delOld = true
		}
		c.finalizers = r.Chance(1, 4)
		c.oldFinalizers = r.Chance(1, 3) // old yes / new no = the removal of a finalizer
		c.gate = r.Chance(1, 7)
		// what the request carries: the normal shape of the operation, rarely a degenerate one
		switch c.op {
		case 0, 3:
			c.hasObj, c.hasOld = true, r.Chance(1, 20)
		case 1:
			c.hasObj, c.hasOld = !r.Chance(1, 40), !r.Chance(1, 40)
		case 2:
			c.hasObj, c.hasOld = r.Chance(1, 3), !r.Chance(1, 4)
		}
		if r.Chance(1, 8) {
			c.sub = r.Range(1, len(c13hSubResources)-1)
		}
		if r.Chance(1, 30) {
			c.res = r.Range(1, len(c13hResourceNames)-1)
		}
		c13DecorateStatus(h, r, c.newPod, c.oldPod) // ext6: in-place-resize status (the last draws of the case)
		c13hRun(h, t, handler, c)
		h.End()
	}
	h.Close("one raw admission request per case through PodValidatingHandler.Handle: operation (CREATE/UPDATE/DELETE/CONNECT) x sub-resource " +
		"(none, status, ephemeralcontainers, binding, eviction, resize) x resource (pods / foreign) x object / old object present or missing x " +
		"metadata.deletionTimestamp on none / old / new / both objects x finalizers x status-only update x feature gate x in-place-resize status " +
		"(1/3 of the cases, as in the validating stream; it travels in the request's JSON); pods as in the validating " +
		"stream, old pods perturbed copies or identical; non-trivial = a pod CREATE/UPDATE whose new pod has a QoS or a priority class; distinct by op lines")
}

// TestVerifC13ValidatingHandleExhaustive (thorough tier): the dispatch of validatingPodFn on a small scope.  Every
// operation x {no sub-resource, status, ephemeralcontainers} x {pods, foreign resource} x object present x old object
// present x deletionTimestamp on old x on new x finalizers x an update kind {nothing changed, status only, QoS
// LS -> BE on a prod pod, QoS BE -> LSR, priority class batch -> mid by value, priority-class label changed} x gate.
func TestVerifC13ValidatingHandleExhaustive(t *testing.T) {
	h := vOpen("C13")
	if h == nil {
		t.Skip("VERIF_OUT not set")
	}
	handler := c13hHandler()
	mk := func(qos string, prio int32, pcLabel string) *corev1.Pod {
		pod := &corev1.Pod{ObjectMeta: metav1.ObjectMeta{Namespace: "default", Name: "p", Labels: map[string]string{}}}
		if qos != "" {
			pod.Labels[c13LabelQoS] = qos
		}
		if pcLabel != "" {
			pod.Labels[c13LabelPC] = pcLabel
		}
		v := prio
		pod.Spec.Priority = &v
		pod.Spec.Containers = []corev1.Container{{Name: "c0", Resources: corev1.ResourceRequirements{Requests: corev1.ResourceList{"cpu": resource.MustParse("2")}}}}
		return pod
	}
	type change struct {
		name     string
		old, new func() *corev1.Pod
	}
	changes := []change{
		{"same", func() *corev1.Pod { return mk("LS", 9500, "") }, func() *corev1.Pod { return mk("LS", 9500, "") }},
		{"status-only", func() *corev1.Pod { return mk("BE", 5500, "") }, func() *corev1.Pod { return mk("BE", 5500, "") }},
		{"qos-ls-to-be-on-prod", func() *corev1.Pod { return mk("LS", 9500, "") }, func() *corev1.Pod { return mk("BE", 9500, "") }},
		{"qos-ls-to-be-on-batch", func() *corev1.Pod { return mk("LS", 5500, "") }, func() *corev1.Pod { return mk("BE", 5500, "") }},
		{"qos-be-to-lsr", func() *corev1.Pod { return mk("BE", 9500, "koord-batch") }, func() *corev1.Pod { return mk("LSR", 9500, "koord-batch") }},
		{"qos-ls-to-lsr-on-prod", func() *corev1.Pod { return mk("LS", 9500, "") }, func() *corev1.Pod { return mk("LSR", 9500, "") }},
		{"class-batch-to-mid", func() *corev1.Pod { return mk("BE", 5500, "") }, func() *corev1.Pod { return mk("BE", 7500, "") }},
		{"class-label-prod-to-batch", func() *corev1.Pod { return mk("LS", 9500, "") }, func() *corev1.Pod { return mk("LS", 9500, "koord-batch") }},
	}
	idx := 0
	for op := 0; op < 4; op++ {
		for sub := 0; sub < 3; sub++ {
			for res := 0; res < 2; res++ {
				for _, hasObj := range []bool{true, false} {
					for _, hasOld := range []bool{true, false} {
						for _, delOld := range []bool{false, true} {
							for _, delNew := range []bool{false, true} {
								for finc := 0; finc < 4; finc++ {
									fin, ofin := finc&1 != 0, finc&2 != 0
									for _, ch := range changes {
										for _, gate := range []bool{false, true} {
											if gate && (ch.name != "same" || finc != 0) {
												continue // the gate only concerns the sub-priority label, which no change kind touches: keep one slice
											}
											r := h.Begin(idx)
											idx++
											if r == nil {
												continue
											}
											c := &c13hCase{op: op, sub: sub, res: res, hasObj: hasObj, hasOld: hasOld, delOld: delOld, delNew: delNew,
												finalizers: fin, oldFinalizers: ofin, gate: gate, newPod: ch.new(), oldPod: ch.old()}
											if ch.name == "status-only" {
												c.statusOnly = true
												c.oldPod.Status.Phase = corev1.PodPending
												c.newPod.Status.Phase = corev1.PodRunning
											}
											h.Tag("hx:change:" + ch.name)
											c13hRun(h, t, handler, c)
											h.End()
										}
									}
								}
							}
						}
					}
				}
			}
		}
	}
	h.Extra("exhaustive", fmt.Sprintf("4 operations x 3 sub-resources x 2 resources x object x old object x deletionTimestamp old x new x finalizers on new x on old x 8 update kinds (+ gate slice): %d cases", idx))
	h.Close("exhaustive enumeration of the validating entry point's dispatch: operation x sub-resource x resource x object / old object present x " +
		"deletionTimestamp on old / new x finalizers x update kind (same, status only, 4 QoS changes, 2 priority-class changes); non-trivial as in the random stream")
}

// TestVerifC13ValidatingResize (ext6, both tiers): a small-scope enumeration of "running pod whose status differs from
// its spec".  Permitted QoS / priority pairs only (so the resource clauses decide) x CPU shape of the SPEC x batch request
// x sidecar x what status.containerStatuses[] / initContainerStatuses[] report relative to the spec (absent, equal, above
// in whole CPUs, below, empty, allocatedResources only, without the batch entries, with an added batch entry, an entry
// naming no container) x resize condition x CREATE / UPDATE.  Every case goes through PodValidatingHandler.Handle as raw
// JSON (c13hRun: op hvalidate, oracle fingerprints C13:handle-*) and through clusterColocationProfileValidatingPod on
// the decoded objects (op validate, oracle fingerprints C13:admit-*).  The oracle judges the SPEC.
func TestVerifC13ValidatingResize(t *testing.T) {
	h := vOpen("C13")
	if h == nil {
		t.Skip("VERIF_OUT not set")
	}
	handler := c13hHandler()
	type qp struct {
		qos  string
		prio int32 // 0 = spec.priority unset
	}
	pairs := []qp{{"LSR", 9500}, {"LSE", 9500}, {"LS", 9500}, {"LS", 7500}, {"BE", 5500}, {"", 0}}
	cpuShapes := []string{"integral", "fractional", "split", "fractional-split", "missing", "zero"}
	batchShapes := []string{"none", "positive"}
	statusShapes := []string{"absent", "equal", "up-whole", "down", "empty", "alloc-only", "no-batch", "adds-batch", "unknown-name"}
	build := func(p qp, cpu, batch string, sidecar bool) *corev1.Pod {
		pod := &corev1.Pod{ObjectMeta: metav1.ObjectMeta{Namespace: "default", Name: "p", Labels: map[string]string{}}}
		if p.qos != "" {
			pod.Labels[c13LabelQoS] = p.qos
		}
		if p.prio != 0 {
			v := p.prio
			pod.Spec.Priority = &v
		}
		c0 := corev1.Container{Name: "c0", Resources: corev1.ResourceRequirements{Requests: corev1.ResourceList{"memory": resource.MustParse("1Gi")}}}
		var c1 *corev1.Container
		switch cpu {
		case "integral":
			c0.Resources.Requests["cpu"] = resource.MustParse("2")
		case "fractional":
			c0.Resources.Requests["cpu"] = resource.MustParse("1500m")
		case "split": // 500m + 1500m = 2 CPUs
			c0.Resources.Requests["cpu"] = resource.MustParse("500m")
			c1 = &corev1.Container{Name: "c1", Resources: corev1.ResourceRequirements{Requests: corev1.ResourceList{"cpu": resource.MustParse("1500m")}}}
		case "fractional-split": // 500m + 1 = 1500m
			c0.Resources.Requests["cpu"] = resource.MustParse("500m")
			c1 = &corev1.Container{Name: "c1", Resources: corev1.ResourceRequirements{Requests: corev1.ResourceList{"cpu": resource.MustParse("1")}}}
		case "zero":
			c0.Resources.Requests["cpu"] = resource.MustParse("0")
		}
		if batch == "positive" {
			c0.Resources.Requests["kubernetes.io/batch-cpu"] = resource.MustParse("1000")
		}
		pod.Spec.Containers = []corev1.Container{c0}
		if c1 != nil {
			pod.Spec.Containers = append(pod.Spec.Containers, *c1)
		}
		if sidecar { // a restartable init container asking for half a CPU, and an ordinary one (its status is never read)
			always := corev1.ContainerRestartPolicyAlways
			pod.Spec.InitContainers = []corev1.Container{
				{Name: "c10", RestartPolicy: &always, Resources: corev1.ResourceRequirements{Requests: corev1.ResourceList{"cpu": resource.MustParse("500m")}}},
				{Name: "c11", Resources: corev1.ResourceRequirements{Requests: corev1.ResourceList{"cpu": resource.MustParse("250m")}}}}
		}
		return pod
	}
	idx := 0
	for _, p := range pairs {
		for _, cpu := range cpuShapes {
			for _, batch := range batchShapes {
				for _, sidecar := range []bool{false, true} {
					for _, ss := range statusShapes {
						for cond := range c13CondKinds {
							for op := 0; op < 2; op++ {
								r := h.Begin(idx)
								idx++
								if r == nil {
									continue
								}
								newPod := build(p, cpu, batch, sidecar)
								switch ss {
								case "equal":
									c13SetStatus(nil, newPod, 0, 0)
								case "up-whole":
									c13SetStatus(nil, newPod, 1, 4)
								case "down":
									c13SetStatus(nil, newPod, 2, 2)
								case "empty":
									c13SetStatus(nil, newPod, 3, 4)
								case "alloc-only":
									c13SetStatus(nil, newPod, -1, 1)
								case "no-batch":
									c13SetStatus(nil, newPod, 6, 6)
								case "adds-batch":
									c13SetStatus(nil, newPod, 7, 0)
								case "unknown-name":
									newPod.Status.ContainerStatuses = []corev1.ContainerStatus{{Name: "c77",
										Resources: &corev1.ResourceRequirements{Requests: corev1.ResourceList{"cpu": resource.MustParse("500m"), "kubernetes.io/batch-cpu": resource.MustParse("1000")}}}}
								}
								c13SetResizeCond(newPod, cond)
								c := &c13hCase{op: op, hasObj: true, hasOld: op == 1, newPod: newPod}
								// the old object of the UPDATE: the same pod before the kubelet reported anything (CREATE: unused, not sent)
								c.oldPod = build(p, cpu, batch, sidecar)
								h.Tag("rz:status:" + ss + "/" + c13CondKinds[cond])
								h.Tag("rz:spec:" + p.qos + "/cpu:" + cpu + "/batch:" + batch)
								c13hRun(h, t, handler, c)
								// the same request's decoded objects through the colocation validator itself
								_, decNew := c13hJSON(t, c.newPod)
								_, decOld := c13hJSON(t, c.oldPod)
								h.Op("validate 0 %d", op)
								req := admission.Request{AdmissionRequest: admissionv1.AdmissionRequest{
									Resource:  metav1.GroupVersionResource{Group: "", Version: "v1", Resource: "pods"},
									Operation: c13hOperations[op], Object: runtime.RawExtension{}, OldObject: runtime.RawExtension{}}}
								var allowed bool
								if h.Guard(func() { allowed, _, _ = handler.clusterColocationProfileValidatingPod(context.TODO(), req, decNew, decOld) }) {
									h.Obs("panic")
									h.End()
									continue
								}
								h.Obs("verdict %d", vB(allowed))
								spec := build(p, cpu, batch, sidecar) // the oracle reads the declared pod
								qos := c13OracleQoS(spec)
								milli := c13CeilDiv(c13OraclePodRequest(spec, "cpu"), 1000000)
								fractional := (qos == "LSR" || qos == "LSE") && new(big.Int).Mod(milli, big.NewInt(1000)).Sign() != 0
								batchNonBE := c13OraclePodRequest(spec, "kubernetes.io/batch-cpu").Sign() > 0 && qos != "BE"
								h.Tag(fmt.Sprintf("rz:verdict:%v", allowed))
								if allowed && fractional {
									h.Fail("C13:admit-fractional-cpu", "admitted %s pod declaring %s milli-CPU (status: %s, resize condition: %s)", qos, milli, ss, c13CondKinds[cond])
								}
								if allowed && batchNonBE {
									h.Fail("C13:admit-batch-non-be", "admitted QoS %q pod declaring batch resources (status: %s, resize condition: %s)", qos, ss, c13CondKinds[cond])
								}
								h.End()
							}
						}
					}
				}
			}
		}
	}
	h.Extra("exhaustive", fmt.Sprintf("6 permitted QoS/priority pairs x 6 CPU shapes x 2 batch shapes x sidecar x 9 status shapes x 6 resize conditions x CREATE/UPDATE: %d cases", idx))
	h.Close("enumeration of running pods whose status differs from their spec: permitted QoS / priority pair x CPU shape of the spec {integral, fractional, " +
		"two containers summing to a whole / a fractional number, missing, zero} x batch request x sidecar + ordinary init container x " +
		"status.containerStatuses[].resources / allocatedResources {absent, equal, above in whole CPUs, below, empty, allocatedResources only, without the batch entries, " +
		"with an added batch entry, an entry naming no container} x resize condition {none, Pending Deferred / Infeasible, InProgress, both} x CREATE / UPDATE, " +
		"each through Handle (raw JSON) and through the colocation validator; non-trivial = the pod has a QoS or a priority class")
}
