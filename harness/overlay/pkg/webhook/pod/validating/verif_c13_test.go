//go:build verif

package validating

import (
	"context"
	"encoding/json"
	"fmt"
	"math/big"
	"sort"
	"strconv"
	"strings"
	"testing"

	admissionv1 "k8s.io/api/admission/v1"
	corev1 "k8s.io/api/core/v1"
	"k8s.io/apimachinery/pkg/api/resource"
	metav1 "k8s.io/apimachinery/pkg/apis/meta/v1"
	"k8s.io/apimachinery/pkg/runtime"
	"k8s.io/client-go/kubernetes/scheme"
	"sigs.k8s.io/controller-runtime/pkg/client/fake"
	"sigs.k8s.io/controller-runtime/pkg/webhook/admission"

	"github.com/koordinator-sh/koordinator/pkg/features"
	"github.com/koordinator-sh/koordinator/pkg/util/feature"
)

// C13 (validating half): drive the real clusterColocationProfileValidatingPod on generated
// (operation, old pod, new pod) triples; emit the pods as integer tokens, the verdict as the
// observation, and evaluate the property oracle: an admitted pod obeys the QoS/priority protocol.

var _ = json.Marshal
var _ = sort.Ints

// ---- C13 shared helpers (identical copy in the validating and the mutating harness) ----
// Names are the LITERAL strings of the protocol (not the apis/extension identifiers): renaming a Go
// identifier in /repo is harmless, changing the VALUE of a constant makes the implementation
// disagree with the model / the oracle on these literals (and breaks a tie lemma of Ties/C13.lean).

const (
	c13LabelQoS = "koordinator.sh/qosClass"
	c13LabelPC  = "koordinator.sh/priority-class"
	c13LabelSub = "koordinator.sh/priority"
	c13LabelSrc = "c13/src" // a foreign label: source / target of labelKeysMapping
	c13AnnExt   = "node.koordinator.sh/extended-resource-spec"
	c13AnnSkip  = "config.koordinator.sh/skip-update-resources"
)

var c13LabelKeys = []string{c13LabelQoS, c13LabelPC, c13LabelSrc} // key codes 0 1 2

var c13ResNames = []corev1.ResourceName{"cpu", "memory", "kubernetes.io/batch-cpu", "kubernetes.io/batch-memory",
	"kubernetes.io/mid-cpu", "kubernetes.io/mid-memory", "example.com/foo"}

// the JSON shape of the summary annotation, restated
type c13ExtSpec struct {
	Containers map[string]struct {
		Limits   corev1.ResourceList `json:"limits,omitempty"`
		Requests corev1.ResourceList `json:"requests,omitempty"`
	} `json:"containers,omitempty"`
}

func c13ResCode(n corev1.ResourceName) int {
	for i, x := range c13ResNames {
		if x == n {
			return i
		}
	}
	return 6
}

var c13QoSNames = []string{"", "LSE", "LSR", "LS", "BE", "SYSTEM"} // code 0 = a string naming no class
var c13PCNames = []string{"", "koord-prod", "koord-mid", "koord-batch", "koord-free"}

// c13EncStr: LSTR of a present string: <n> <byte>*
func c13EncStr(v string) string {
	parts := []string{strconv.Itoa(len(v))}
	for i := 0; i < len(v); i++ {
		parts = append(parts, strconv.Itoa(int(v[i])))
	}
	return strings.Join(parts, " ")
}

// c13EncLabel: LSTR of a label (absent = -1)
func c13EncLabel(labels map[string]string, key string) string {
	v, ok := labels[key]
	if !ok {
		return "-1"
	}
	return c13EncStr(v)
}

// c13Nano: the exact amount of a quantity in nano-units (Quantity has no finer precision).
func c13Nano(q resource.Quantity) *big.Int {
	d := q.AsDec()
	un := new(big.Int).Set(d.UnscaledBig())
	sc := int(d.Scale())
	if sc <= 9 {
		return un.Mul(un, new(big.Int).Exp(big.NewInt(10), big.NewInt(int64(9-sc)), nil))
	}
	return un.Quo(un, new(big.Int).Exp(big.NewInt(10), big.NewInt(int64(sc-9)), nil))
}

type c13RL map[int]*big.Int

func c13ListOf(l corev1.ResourceList) c13RL {
	out := c13RL{}
	for k, q := range l {
		out[c13ResCode(k)] = c13Nano(q)
	}
	return out
}

func c13EncRL(l corev1.ResourceList) string {
	m := c13ListOf(l)
	parts := []string{strconv.Itoa(len(m))}
	for c := 0; c <= 6; c++ {
		if v, ok := m[c]; ok {
			parts = append(parts, strconv.Itoa(c), v.String())
		}
	}
	return strings.Join(parts, " ")
}

func c13CtrCode(name string) int {
	n, err := strconv.Atoi(strings.TrimPrefix(name, "c"))
	if err != nil {
		return 99
	}
	return n
}

func c13EncOptQ(l corev1.ResourceList, k corev1.ResourceName) string {
	if q, ok := l[k]; ok {
		return "1 " + c13Nano(q).String()
	}
	return "0 0"
}

func c13EncAnnot(ann map[string]string) string {
	data, ok := ann[c13AnnExt]
	if !ok {
		return "0"
	}
	spec := &c13ExtSpec{}
	if err := json.Unmarshal([]byte(data), spec); err != nil {
		return "1"
	}
	names := make([]string, 0, len(spec.Containers))
	for n := range spec.Containers {
		names = append(names, n)
	}
	sort.Slice(names, func(i, j int) bool { return c13CtrCode(names[i]) < c13CtrCode(names[j]) })
	parts := []string{"2", strconv.Itoa(len(names))}
	for _, n := range names {
		c := spec.Containers[n]
		parts = append(parts, strconv.Itoa(c13CtrCode(n)),
			c13EncOptQ(c.Requests, "kubernetes.io/batch-cpu"), c13EncOptQ(c.Requests, "kubernetes.io/batch-memory"),
			c13EncOptQ(c.Limits, "kubernetes.io/batch-cpu"), c13EncOptQ(c.Limits, "kubernetes.io/batch-memory"))
	}
	return strings.Join(parts, " ")
}

func c13EncMeta(pod *corev1.Pod) string {
	hp, pv := 0, int64(0)
	if pod.Spec.Priority != nil {
		hp, pv = 1, int64(*pod.Spec.Priority)
	}
	hs, sv := 0, int64(0)
	if s := pod.Labels[c13LabelSub]; s != "" {
		n, _ := strconv.ParseInt(s, 10, 64)
		hs, sv = 1, n
	}
	return fmt.Sprintf("%s %s %s %d %d %d %d", c13EncLabel(pod.Labels, c13LabelQoS), c13EncLabel(pod.Labels, c13LabelPC),
		c13EncLabel(pod.Labels, c13LabelSrc), hp, pv, hs, sv)
}

func c13IsSidecar(c *corev1.Container) bool {
	return c.RestartPolicy != nil && *c.RestartPolicy == corev1.ContainerRestartPolicyAlways
}

// c13EncCtrObs: the observation form (name, requests, limits)
func c13EncCtrObs(c *corev1.Container) string {
	return fmt.Sprintf("%d %s %s", c13CtrCode(c.Name), c13EncRL(c.Resources.Requests), c13EncRL(c.Resources.Limits))
}

// c13EncCtr: the CTR token sequence (name, sidecar, requests, limits)
func c13EncCtr(c *corev1.Container) string {
	return fmt.Sprintf("%d %d %s %s", c13CtrCode(c.Name), vB(c13IsSidecar(c)), c13EncRL(c.Resources.Requests), c13EncRL(c.Resources.Limits))
}

// c13EncPod: the POD token sequence of the line protocol (see lean/KoordVerif/Driver/C13.lean).
func c13EncPod(pod *corev1.Pod) string {
	st := 0
	if pod.Status.QOSClass == corev1.PodQOSBestEffort {
		st = 1
	} else if pod.Status.QOSClass != "" {
		st = 2
	}
	parts := []string{c13EncMeta(pod), strconv.Itoa(st), c13EncAnnot(pod.Annotations),
		strconv.Itoa(len(pod.Spec.InitContainers)), strconv.Itoa(len(pod.Spec.Containers)), strconv.Itoa(vB(pod.Spec.Overhead != nil)),
		strconv.Itoa(vB(pod.Spec.Resources != nil))}
	for i := range pod.Spec.InitContainers {
		parts = append(parts, c13EncCtr(&pod.Spec.InitContainers[i]))
	}
	for i := range pod.Spec.Containers {
		parts = append(parts, c13EncCtr(&pod.Spec.Containers[i]))
	}
	if pod.Spec.Overhead != nil {
		parts = append(parts, c13EncRL(pod.Spec.Overhead))
	}
	if pod.Spec.Resources != nil {
		parts = append(parts, c13EncRL(pod.Spec.Resources.Requests), c13EncRL(pod.Spec.Resources.Limits))
	}
	return strings.Join(parts, " ")
}

var c13CPUStrs = []string{"1", "2", "4", "500m", "1m", "0.0005", "1500m", "0", "0.1", "999999900n", "1000000100n", "100u", "2000m", "3", "250m", "1001m", "16"}
var c13MemStrs = []string{"1Gi", "512Mi", "1.5Gi", "100M", "128974848", "0", "1e3", "123456789m", "4Gi", "1Ki", "1", "64Mi", "2G"}
var c13NegStrs = []string{"-1", "-2", "-500m", "-1m", "-0.0005", "-1500m", "-999999900n", "-1Gi", "-1", "-100u"}

// c13Neg: set by a generator for the pods that may carry negative quantities (invalid for the API
// server, but admission webhooks run before validation).
var c13Neg = false

func c13Q(r *vRand, code int) resource.Quantity {
	if c13Neg && r.Chance(1, 5) {
		return resource.MustParse(c13NegStrs[r.Intn(len(c13NegStrs))])
	}
	switch code {
	case 0:
		if r.Chance(1, 4) {
			return *resource.NewMilliQuantity(int64(r.Range(1, 64000)), resource.DecimalSI)
		}
		return resource.MustParse(c13CPUStrs[r.Intn(len(c13CPUStrs))])
	case 1:
		if r.Chance(1, 4) {
			return *resource.NewQuantity(r.Int63n(1<<36), resource.BinarySI)
		}
		return resource.MustParse(c13MemStrs[r.Intn(len(c13MemStrs))])
	case 2, 4: // extended cpu: an integer count of milli-cores
		if r.Chance(1, 8) {
			return resource.MustParse("0")
		}
		return *resource.NewQuantity(int64(r.Range(1, 64000)), resource.DecimalSI)
	case 3, 5:
		if r.Chance(1, 8) {
			return resource.MustParse("0")
		}
		return resource.MustParse(c13MemStrs[r.Intn(len(c13MemStrs))])
	}
	return *resource.NewQuantity(int64(r.Range(0, 8)), resource.DecimalSI)
}

// c13GenPodLevel: spec.resources (pod-level requests / limits of cpu and memory; rarely empty or foreign only)
func c13GenPodLevel(r *vRand, wholeCPU bool) *corev1.ResourceRequirements {
	rr := &corev1.ResourceRequirements{}
	if r.Chance(1, 8) {
		if r.Bool() {
			rr.Requests = corev1.ResourceList{}
		}
		return rr
	}
	req, lim := corev1.ResourceList{}, corev1.ResourceList{}
	if r.Chance(2, 3) {
		q := c13Q(r, 0)
		if wholeCPU {
			q = *resource.NewQuantity(int64(r.Range(1, 8)), resource.DecimalSI)
		}
		req["cpu"] = q
	}
	if r.Chance(1, 2) {
		req["memory"] = c13Q(r, 1)
	}
	if r.Chance(1, 8) {
		req["example.com/foo"] = c13Q(r, 6)
	}
	if r.Chance(1, 2) {
		lim["cpu"] = c13Q(r, 0)
	}
	if r.Chance(1, 2) {
		lim["memory"] = c13Q(r, 1)
	}
	if len(req) > 0 || r.Bool() {
		rr.Requests = req
	}
	if len(lim) > 0 || r.Bool() {
		rr.Limits = lim
	}
	return rr
}

// c13AllNonNegative: no negative quantity anywhere in the pod's resource lists
func c13AllNonNegative(pod *corev1.Pod) bool {
	ok := true
	chk := func(l corev1.ResourceList) {
		for _, q := range l {
			if q.Sign() < 0 {
				ok = false
			}
		}
	}
	for _, cs := range [][]corev1.Container{pod.Spec.InitContainers, pod.Spec.Containers} {
		for i := range cs {
			chk(cs[i].Resources.Requests)
			chk(cs[i].Resources.Limits)
		}
	}
	chk(pod.Spec.Overhead)
	if pod.Spec.Resources != nil {
		chk(pod.Spec.Resources.Requests)
		chk(pod.Spec.Resources.Limits)
	}
	return ok
}

// c13Resources: one container's requirements.  shape: 0 req=lim, 1 limits only, 2 requests only,
// 3 independent, 4 empty; `ext` adds already-extended entries, `foreign` a foreign resource.
func c13Resources(r *vRand, wholeCPU bool, extProb int) corev1.ResourceRequirements {
	req, lim := corev1.ResourceList{}, corev1.ResourceList{}
	shape := r.Pick([]int64{0, 0, 0, 1, 1, 2, 3, 3, 4})
	put := func(code int) {
		q := c13Q(r, code)
		if code == 0 && wholeCPU {
			q = *resource.NewQuantity(int64(r.Range(1, 8)), resource.DecimalSI)
		}
		n := c13ResNames[code]
		switch shape {
		case 0:
			req[n], lim[n] = q, q.DeepCopy()
		case 1:
			lim[n] = q
		case 2:
			req[n] = q
		case 3:
			if r.Chance(2, 3) {
				req[n] = q
			}
			if r.Chance(2, 3) {
				lim[n] = c13Q(r, code)
			}
		}
	}
	if r.Chance(4, 5) {
		put(0)
	}
	if r.Chance(4, 5) {
		put(1)
	}
	for code := 2; code <= 5; code++ {
		if r.Chance(extProb, 100) {
			put(code)
		}
	}
	if r.Chance(1, 8) {
		put(6)
	}
	rr := corev1.ResourceRequirements{}
	if len(req) > 0 || r.Chance(1, 6) { // nil vs empty
		rr.Requests = req
	}
	if len(lim) > 0 || r.Chance(1, 6) {
		rr.Limits = lim
	}
	return rr
}

var c13Priorities = []int64{-1, 0, 1, 2999, 3000, 3500, 3999, 4000, 4999, 5000, 5500, 5999, 6000, 6999, 7000, 7500, 7999, 8000, 8999, 9000, 9500, 9999, 10000, 2000000000}

// priorities that land in class pc (1 prod 2 mid 3 batch 4 free, 0 none)
func c13PriorityIn(r *vRand, pc int) int32 {
	switch pc {
	case 1:
		return int32(r.Pick([]int64{9000, 9500, 9999, int64(r.Range(9000, 9999))}))
	case 2:
		return int32(r.Pick([]int64{7000, 7500, 7999, int64(r.Range(7000, 7999))}))
	case 3:
		return int32(r.Pick([]int64{5000, 5500, 5999, int64(r.Range(5000, 5999))}))
	case 4:
		return int32(r.Pick([]int64{3000, 3500, 3999, int64(r.Range(3000, 3999))}))
	}
	return int32(r.Pick([]int64{-1, 0, 1, 2999, 4000, 4999, 6000, 6999, 8000, 8999, 10000, 2000000000}))
}

// ---- independent re-statement of the protocol's notions for the oracle (literals of the statement) ----

func c13OracleQoS(pod *corev1.Pod) string {
	switch v := pod.Labels["koordinator.sh/qosClass"]; v {
	case "LSE", "LSR", "LS", "BE", "SYSTEM":
		return v
	}
	return ""
}

func c13OraclePC(pod *corev1.Pod) string {
	if v, ok := pod.Labels["koordinator.sh/priority-class"]; ok {
		switch v {
		case "koord-prod", "koord-mid", "koord-batch", "koord-free":
			return v
		}
		return ""
	}
	if pod.Spec.Priority == nil {
		return ""
	}
	switch p := *pod.Spec.Priority; {
	case p >= 9000 && p <= 9999:
		return "koord-prod"
	case p >= 7000 && p <= 7999:
		return "koord-mid"
	case p >= 5000 && p <= 5999:
		return "koord-batch"
	case p >= 3000 && p <= 3999:
		return "koord-free"
	}
	return ""
}

func c13CeilDiv(n *big.Int, d int64) *big.Int {
	q, m := new(big.Int).DivMod(n, big.NewInt(d), new(big.Int))
	if m.Sign() > 0 {
		q.Add(q, big.NewInt(1))
	}
	return q
}

func c13PickStr(r *vRand, xs []string) string { return xs[r.Intn(len(xs))] }

// ---- end of shared helpers ----

// c13OraclePodRequest: the pod's request of one resource in nano-units, from scratch after the
// Kubernetes definition (KEP-753 sidecars, pod-level resources): containers and sidecars run
// together; an ordinary init container runs together with the sidecars started before it; the pod
// needs the larger of the two phases; a pod-level cpu/memory request replaces that; overhead is added.
// Only meaningful for non-negative quantities (callers check c13AllNonNegative).
func c13OraclePodRequest(pod *corev1.Pod, name corev1.ResourceName) *big.Int {
	get := func(c *corev1.Container) *big.Int {
		if q, ok := c.Resources.Requests[name]; ok {
			return c13Nano(q)
		}
		return new(big.Int)
	}
	running := new(big.Int)
	for i := range pod.Spec.Containers {
		running.Add(running, get(&pod.Spec.Containers[i]))
	}
	sidecars, initPeak := new(big.Int), new(big.Int)
	for i := range pod.Spec.InitContainers {
		c := &pod.Spec.InitContainers[i]
		phase := new(big.Int)
		if c13IsSidecar(c) {
			sidecars.Add(sidecars, get(c))
			running.Add(running, get(c))
			phase.Set(sidecars)
		} else {
			phase.Add(sidecars, get(c))
		}
		if phase.Cmp(initPeak) > 0 {
			initPeak.Set(phase)
		}
	}
	total := running
	if initPeak.Cmp(total) > 0 {
		total = initPeak
	}
	if pod.Spec.Resources != nil && (name == "cpu" || name == "memory") {
		_, anyCPU := pod.Spec.Resources.Requests["cpu"]
		_, anyMem := pod.Spec.Resources.Requests["memory"]
		if q, ok := pod.Spec.Resources.Requests[name]; ok && (anyCPU || anyMem) {
			total = c13Nano(q)
		}
	}
	if q, ok := pod.Spec.Overhead[name]; ok {
		total = new(big.Int).Add(total, c13Nano(q))
	}
	return total
}

func c13GenValidatingPod(r *vRand) *corev1.Pod {
	pod := &corev1.Pod{ObjectMeta: metav1.ObjectMeta{Namespace: "default", Name: "p"}}
	q := int(r.Pick([]int64{4, 4, 4, 4, 3, 3, 3, 2, 2, 2, 1, 1, 5, 0, -1, -1}))
	if q >= 0 || r.Chance(1, 3) {
		pod.Labels = map[string]string{}
	}
	if q == 0 {
		pod.Labels[c13LabelQoS] = c13PickStr(r, []string{"foo", "", "be", "Ls"})
	} else if q > 0 {
		pod.Labels[c13LabelQoS] = c13QoSNames[q]
	}
	// priority class: mostly one the protocol permits for this QoS
	pc := r.Intn(5)
	if r.Chance(7, 10) {
		switch q {
		case 4:
			pc = int(r.Pick([]int64{2, 3, 3, 3, 4}))
		case 2:
			pc = 1
		}
	}
	switch r.Intn(10) {
	case 0: // by label (wins over the value)
		if pod.Labels == nil {
			pod.Labels = map[string]string{}
		}
		if pc == 0 {
			pod.Labels[c13LabelPC] = c13PickStr(r, []string{"foo", "", "koord-Prod"})
		} else {
			pod.Labels[c13LabelPC] = c13PCNames[pc]
		}
		if r.Bool() {
			v := int32(r.Pick(c13Priorities))
			pod.Spec.Priority = &v
		}
	case 1: // no priority at all
		if pc != 0 {
			v := c13PriorityIn(r, pc)
			pod.Spec.Priority = &v
		}
	default:
		v := c13PriorityIn(r, pc)
		pod.Spec.Priority = &v
	}
	if r.Chance(1, 4) {
		if pod.Labels == nil {
			pod.Labels = map[string]string{}
		}
		pod.Labels[c13LabelSub] = strconv.Itoa(r.Range(0, 3))
	}
	whole := (q == 1 || q == 2) && r.Chance(7, 10)
	c13Neg = !whole && r.Chance(1, 12)
	defer func() { c13Neg = false }()
	ext := 8
	if q == 4 {
		ext = 35
	}
	nc := r.Range(1, 3)
	for i := 0; i < nc; i++ {
		pod.Spec.Containers = append(pod.Spec.Containers, corev1.Container{Name: fmt.Sprintf("c%d", i), Resources: c13Resources(r, whole, ext)})
	}
	ni := int(r.Pick([]int64{0, 0, 0, 1, 2, 3}))
	for i := 0; i < ni; i++ {
		ic := corev1.Container{Name: fmt.Sprintf("c%d", 10+i), Resources: c13Resources(r, whole, ext)}
		if r.Chance(1, 3) { // a sidecar: restartable init container
			always := corev1.ContainerRestartPolicyAlways
			ic.RestartPolicy = &always
		} else if r.Chance(1, 10) {
			never := corev1.ContainerRestartPolicy("Never")
			ic.RestartPolicy = &never
		}
		pod.Spec.InitContainers = append(pod.Spec.InitContainers, ic)
	}
	if r.Chance(1, 5) {
		pod.Spec.Overhead = c13Resources(r, whole, ext).Requests
	}
	if r.Chance(1, 8) {
		pod.Spec.Resources = c13GenPodLevel(r, whole)
	}
	return pod
}

func c13PerturbOld(r *vRand, newPod *corev1.Pod) *corev1.Pod {
	old := newPod.DeepCopy()
	if old.Labels == nil && r.Bool() {
		old.Labels = map[string]string{}
	}
	switch r.Intn(8) {
	case 0, 1: // QoS label changed / removed / added
		if old.Labels == nil {
			old.Labels = map[string]string{}
		}
		if _, ok := old.Labels[c13LabelQoS]; ok && r.Chance(1, 3) {
			delete(old.Labels, c13LabelQoS)
		} else {
			old.Labels[c13LabelQoS] = c13PickStr(r, []string{"BE", "LS", "LSR", "LSE", "SYSTEM", "foo"})
		}
	case 2, 3: // priority value changed (inside the same class or across classes)
		if old.Spec.Priority != nil && r.Bool() {
			v := *old.Spec.Priority + int32(r.Pick([]int64{1, -1, 1000, -1000, 2000}))
			old.Spec.Priority = &v
		} else if r.Bool() {
			old.Spec.Priority = nil
		} else {
			v := int32(r.Pick(c13Priorities))
			old.Spec.Priority = &v
		}
	case 4: // priority-class label changed
		if old.Labels == nil {
			old.Labels = map[string]string{}
		}
		if _, ok := old.Labels[c13LabelPC]; ok && r.Bool() {
			delete(old.Labels, c13LabelPC)
		} else {
			old.Labels[c13LabelPC] = c13PickStr(r, []string{"koord-prod", "koord-mid", "koord-batch", "koord-free", "foo"})
		}
	case 5: // sub-priority label changed
		if old.Labels == nil {
			old.Labels = map[string]string{}
		}
		if r.Bool() {
			old.Labels[c13LabelSub] = strconv.Itoa(r.Range(4, 9))
		} else {
			delete(old.Labels, c13LabelSub)
		}
	case 6: // resources of the old pod differ (irrelevant to the rules)
		old.Spec.Containers[0].Resources = c13Resources(r, false, 20)
	}
	return old
}

func TestVerifC13Validating(t *testing.T) {
	h := vOpen("C13")
	if h == nil {
		t.Skip("VERIF_OUT not set")
	}
	client := fake.NewClientBuilder().Build()
	handler := &PodValidatingHandler{Client: client, Decoder: admission.NewDecoder(scheme.Scheme)}
	n := h.N(6000, 150000)
	for idx := 0; idx < n; idx++ {
		r := h.Begin(idx)
		if r == nil {
			continue
		}
		newPod := c13GenValidatingPod(r)
		op := int(r.Pick([]int64{0, 0, 0, 0, 0, 1, 1, 1, 1, 2}))
		var oldPod *corev1.Pod
		if op == 1 {
			oldPod = c13PerturbOld(r, newPod)
		}
		gate := r.Chance(1, 7)
		c13DecorateStatus(h, r, newPod, oldPod) // ext6: in-place-resize status (decides nothing; the last draws of the case)
		h.Op("pod 0 %s", c13EncPod(newPod))
		if oldPod != nil {
			h.Op("pod 1 %s", c13EncPod(oldPod))
		}
		if c13HasResizeStatus(newPod) {
			h.Op("cstatus 0 %s", c13EncStatus(newPod))
		}
		if oldPod != nil && c13HasResizeStatus(oldPod) {
			h.Op("cstatus 1 %s", c13EncStatus(oldPod))
		}
		h.Op("validate %d %d", vB(gate), op)

		operation := []admissionv1.Operation{admissionv1.Create, admissionv1.Update, admissionv1.Delete}[op]
		req := admission.Request{AdmissionRequest: admissionv1.AdmissionRequest{
			Resource:  metav1.GroupVersionResource{Group: "", Version: "v1", Resource: "pods"},
			Operation: operation, Object: runtime.RawExtension{}, OldObject: runtime.RawExtension{}}}
		restore := feature.SetFeatureGateDuringTest(t, feature.DefaultMutableFeatureGate, features.ColocationProfileSkipValidatingPriority, gate)
		var allowed bool
		var err error
		// the oracle reads copies taken before the call
		newCopy := newPod.DeepCopy()
		var oldCopy *corev1.Pod
		if oldPod != nil {
			oldCopy = oldPod.DeepCopy()
		}
		panicked := h.Guard(func() {
			allowed, _, err = handler.clusterColocationProfileValidatingPod(context.TODO(), req, newPod, oldPod)
		})
		restore()
		if panicked {
			h.Obs("panic")
			h.End()
			continue
		}
		if allowed != (err == nil) {
			h.Fail("C13:verdict-error-mismatch", "allowed=%v but err=%v", allowed, err)
		}
		h.Obs("verdict %d", vB(allowed))

		// ---- property oracle: admitted  ==>  protocol obeyed ----
		qos, pc := c13OracleQoS(newCopy), c13OraclePC(newCopy)
		h.Tag("op:" + string(operation))
		h.Tag("qos:" + qos + "/pc:" + pc)
		h.Tag(fmt.Sprintf("verdict:%v", allowed))
		pairBad := (qos == "BE" && (pc == "koord-prod" || pc == "")) || (qos == "LSR" && pc != "koord-prod")
		nonNeg := c13AllNonNegative(newCopy) // the statement's amounts are amounts: negative entries are compared against the model only
		cpu := c13OraclePodRequest(newCopy, "cpu")
		milli := c13CeilDiv(cpu, 1000000)
		fractional := nonNeg && (qos == "LSR" || qos == "LSE") && new(big.Int).Mod(milli, big.NewInt(1000)).Sign() != 0
		batch := nonNeg && (c13OraclePodRequest(newCopy, "kubernetes.io/batch-cpu").Sign() > 0 || c13OraclePodRequest(newCopy, "kubernetes.io/batch-memory").Sign() > 0)
		batchNonBE := batch && qos != "BE"
		if !nonNeg {
			h.Tag("quantities:negative")
		}
		if newCopy.Spec.Resources != nil {
			h.Tag("podlevel:set")
		}
		for i := range newCopy.Spec.InitContainers {
			if c13IsSidecar(&newCopy.Spec.InitContainers[i]) {
				h.Tag("init:sidecar")
				break
			}
		}
		qosChanged, pcChanged := false, false
		if op == 1 {
			qosChanged = c13OracleQoS(oldCopy) != qos
			pcChanged = c13OraclePC(oldCopy) != pc
		}
		if pairBad || fractional || batchNonBE || qosChanged || pcChanged {
			h.Tag("protocol:violated")
		} else {
			h.Tag("protocol:obeyed")
		}
		if allowed {
			if pairBad {
				h.Fail("C13:admit-forbidden-pair", "admitted with QoS %q and priority class %q", qos, pc)
			}
			if fractional {
				h.Fail("C13:admit-fractional-cpu", "admitted %s pod requesting %s milli-CPU", qos, milli)
			}
			if batchNonBE {
				h.Fail("C13:admit-batch-non-be", "admitted QoS %q pod requesting batch resources", qos)
			}
			if qosChanged {
				h.Fail("C13:admit-qos-changed", "update admitted with QoS %q -> %q", c13OracleQoS(oldCopy), qos)
			}
			if pcChanged {
				h.Fail("C13:admit-priority-class-changed", "update admitted with priority class %q -> %q", c13OraclePC(oldCopy), pc)
			}
		}
		if qos != "" || pc != "" {
			h.Nontrivial()
		}
		h.End()
	}
	h.Close("one (operation, old pod, new pod, feature gate) per case: QoS label over all classes/absent/garbage, priority class by value " +
		"(on, between and outside the ranges) or by label, 1-3 containers + 0-3 init containers (1/3 sidecars) + overhead + pod-level resources (1/8) " +
		"with cpu/memory/batch/mid/foreign quantities (integral, milli, sub-milli, nano, binary suffixes, zero, missing, 1/12 of the pods with " +
		"negative entries); UPDATE old pods are perturbed copies; 1/3 of the cases carry an in-place-resize status (status.containerStatuses / " +
		"initContainerStatuses [].resources and allocatedResources equal to / above (whole CPUs) / below / empty / nil / unrelated to / without the batch " +
		"entries of the declared requests, conditions PodResizePending Deferred / Infeasible, PodResizeInProgress) on the new and the old pod; " +
		"non-trivial = the new pod has a QoS or a priority class; distinct by op lines")
}

// TestVerifC13ValidatingExhaustive (thorough tier): the whole decision table on a small scope.  Every
// QoS label x priority class (by value, by label, absent, garbage, in a gap) x CPU shape (integral,
// fractional, zero, missing, two containers summing to a whole number) x batch request (none, positive,
// zero) x operation (CREATE, UPDATE with nothing or exactly one of QoS label / priority class by value /
// priority value inside the class / priority-class label / sub-priority label changed) x feature gate.
// The oracle here is the table itself in both directions (fingerprint C13:table-mismatch): admitted iff
// permitted pair, LSR/LSE => non-zero whole CPU, batch => BE, nothing immutable changed.
func TestVerifC13ValidatingExhaustive(t *testing.T) {
	h := vOpen("C13")
	if h == nil {
		t.Skip("VERIF_OUT not set")
	}
	client := fake.NewClientBuilder().Build()
	handler := &PodValidatingHandler{Client: client, Decoder: admission.NewDecoder(scheme.Scheme)}
	type prio struct {
		label    string // "-" = absent
		hasValue bool
		value    int32
	}
	var prios []prio
	for _, v := range []int32{9500, 7500, 5500, 3500, 6500} {
		prios = append(prios, prio{"-", true, v})
	}
	prios = append(prios, prio{"-", false, 0})
	for _, l := range []string{"koord-prod", "koord-mid", "koord-batch", "koord-free", "foo"} {
		prios = append(prios, prio{l, false, 0}, prio{l, true, 9500})
	}
	qosLabels := []string{"-", "", "LSE", "LSR", "LS", "BE", "SYSTEM", "foo"}
	cpuShapes := []string{"integral", "fractional", "zero", "missing", "split"}
	batchShapes := []string{"none", "positive", "zero"}
	changes := []string{"create", "same", "qos", "class-by-value", "value-in-class", "class-label", "sub-priority"}

	build := func(q string, p prio, cpu, batch string) *corev1.Pod {
		pod := &corev1.Pod{ObjectMeta: metav1.ObjectMeta{Namespace: "default", Name: "p"}}
		if q != "-" || p.label != "-" {
			pod.Labels = map[string]string{}
		}
		if q != "-" {
			pod.Labels[c13LabelQoS] = q
		}
		if p.label != "-" {
			pod.Labels[c13LabelPC] = p.label
		}
		if p.hasValue {
			v := p.value
			pod.Spec.Priority = &v
		}
		c0 := corev1.Container{Name: "c0", Resources: corev1.ResourceRequirements{Requests: corev1.ResourceList{}, Limits: corev1.ResourceList{}}}
		switch cpu {
		case "integral":
			c0.Resources.Requests["cpu"] = resource.MustParse("2")
		case "fractional":
			c0.Resources.Requests["cpu"] = resource.MustParse("1500m")
		case "zero":
			c0.Resources.Requests["cpu"] = resource.MustParse("0")
		case "split":
			c0.Resources.Requests["cpu"] = resource.MustParse("500m")
		}
		switch batch {
		case "positive":
			c0.Resources.Requests["kubernetes.io/batch-cpu"] = resource.MustParse("1000")
		case "zero":
			c0.Resources.Requests["kubernetes.io/batch-cpu"] = resource.MustParse("0")
		}
		pod.Spec.Containers = []corev1.Container{c0}
		if cpu == "split" {
			pod.Spec.Containers = append(pod.Spec.Containers, corev1.Container{Name: "c1",
				Resources: corev1.ResourceRequirements{Requests: corev1.ResourceList{"cpu": resource.MustParse("1500m")}}})
		}
		return pod
	}
	classOf := func(p prio) string {
		if p.label != "-" {
			switch p.label {
			case "koord-prod", "koord-mid", "koord-batch", "koord-free":
				return p.label
			}
			return ""
		}
		if !p.hasValue {
			return ""
		}
		switch {
		case p.value >= 9000 && p.value <= 9999:
			return "koord-prod"
		case p.value >= 7000 && p.value <= 7999:
			return "koord-mid"
		case p.value >= 5000 && p.value <= 5999:
			return "koord-batch"
		case p.value >= 3000 && p.value <= 3999:
			return "koord-free"
		}
		return ""
	}
	qosOf := func(q string) string {
		switch q {
		case "LSE", "LSR", "LS", "BE", "SYSTEM":
			return q
		}
		return ""
	}

	idx := 0
	for _, q := range qosLabels {
		for _, p := range prios {
			for _, cpu := range cpuShapes {
				for _, batch := range batchShapes {
					for _, ch := range changes {
						for _, gate := range []bool{false, true} {
							if ch == "create" && gate {
								continue // the gate is only read on UPDATE; CREATE x gate adds nothing new but is cheap: keep one
							}
							r := h.Begin(idx)
							idx++
							if r == nil {
								continue
							}
							newPod := build(q, p, cpu, batch)
							var oldPod *corev1.Pod
							immutableChanged := false
							op := 0
							if ch != "create" {
								op = 1
								oldPod = newPod.DeepCopy()
								if oldPod.Labels == nil {
									oldPod.Labels = map[string]string{}
								}
								switch ch {
								case "qos": // the old pod had another QoS label (or none)
									if q == "LS" {
										oldPod.Labels[c13LabelQoS] = "BE"
									} else {
										oldPod.Labels[c13LabelQoS] = "LS"
									}
									immutableChanged = qosOf(oldPod.Labels[c13LabelQoS]) != qosOf(q)
								case "class-by-value": // old priority value in another class
									v := int32(7500)
									if p.hasValue && p.value == 7500 {
										v = 5500
									}
									oldPod.Spec.Priority = &v
									oldP := p
									oldP.hasValue, oldP.value = true, v
									immutableChanged = classOf(oldP) != classOf(p)
								case "value-in-class": // old priority value differs but stays in the class
									if p.hasValue {
										v := p.value + 1
										oldPod.Spec.Priority = &v
									}
								case "class-label":
									oldP := p
									if p.label == "koord-mid" {
										oldP.label = "koord-batch"
									} else {
										oldP.label = "koord-mid"
									}
									oldPod.Labels[c13LabelPC] = oldP.label
									immutableChanged = classOf(oldP) != classOf(p)
								case "sub-priority":
									oldPod.Labels[c13LabelSub] = "7"
									immutableChanged = !gate
								}
							}
							h.Op("pod 0 %s", c13EncPod(newPod))
							if oldPod != nil {
								h.Op("pod 1 %s", c13EncPod(oldPod))
							}
							h.Op("validate %d %d", vB(gate), op)
							operation := []admissionv1.Operation{admissionv1.Create, admissionv1.Update}[op]
							req := admission.Request{AdmissionRequest: admissionv1.AdmissionRequest{
								Resource:  metav1.GroupVersionResource{Group: "", Version: "v1", Resource: "pods"},
								Operation: operation, Object: runtime.RawExtension{}, OldObject: runtime.RawExtension{}}}
							restore := feature.SetFeatureGateDuringTest(t, feature.DefaultMutableFeatureGate, features.ColocationProfileSkipValidatingPriority, gate)
							var allowed bool
							panicked := h.Guard(func() {
								allowed, _, _ = handler.clusterColocationProfileValidatingPod(context.TODO(), req, newPod, oldPod)
							})
							restore()
							if panicked {
								h.Obs("panic")
								h.End()
								continue
							}
							h.Obs("verdict %d", vB(allowed))
							// ---- the table ----
							qc, pc := qosOf(q), classOf(p)
							pairOK := !(qc == "BE" && (pc == "koord-prod" || pc == "")) && !(qc == "LSR" && pc != "koord-prod")
							cpuOK := !(qc == "LSR" || qc == "LSE") || cpu == "integral" || cpu == "split"
							batchOK := batch != "positive" || qc == "BE"
							want := pairOK && cpuOK && batchOK && !immutableChanged
							h.Tag("x:qos:" + qc + "/pc:" + pc)
							h.Tag("x:cpu:" + cpu)
							h.Tag("x:change:" + ch)
							h.Tag(fmt.Sprintf("x:verdict:%v", allowed))
							if allowed != want {
								h.Fail("C13:table-mismatch", "qos=%q class=%q(label %q) cpu=%s batch=%s change=%s gate=%v: admitted=%v, table says %v",
									q, pc, p.label, cpu, batch, ch, gate, allowed, want)
							}
							h.Nontrivial()
							h.End()
						}
					}
				}
			}
		}
	}
	h.Extra("exhaustive", fmt.Sprintf("QoS label {absent,'',LSE,LSR,LS,BE,SYSTEM,foo} x 16 priority sources x 5 CPU shapes x 3 batch shapes x {CREATE, 6 UPDATE variants x gate}: %d cases", idx))
	h.Close("exhaustive enumeration of the validating decision table: QoS label x priority class (value in/between ranges, label, garbage, absent) x " +
		"CPU {integral, fractional, zero, missing, split} x batch {none, positive, zero} x CREATE / UPDATE with at most one immutable field changed x gate; " +
		"every case non-trivial; oracle = the table in both directions")
}

// ---- in-place resize (ext6): pod.status carries resources as well; the protocol judges the SPEC ----
// A running pod's status.containerStatuses[].resources / allocatedResources may differ from spec.containers[].resources
// (in-place resize), and the conditions PodResizePending (reason Deferred / Infeasible) / PodResizeInProgress say how
// far the kubelet got.  The webhook validates what the pod DECLARES (util.GetPodRequest = PodRequests with no
// option set); the generators below put every relation status : spec on CREATE and UPDATE requests, the op line
// `cstatus` hands the status to the model (which ignores it: Model/C13Status.lean), the oracle is unchanged.

// c13ResizeCond: <pending> + 4*<inProgress>; pending: 0 no PodResizePending condition, 1 reason Deferred, 2 reason
// Infeasible, 3 another reason (the FIRST PodResizePending condition counts, as in IsPodResizeInfeasible).
func c13ResizeCond(pod *corev1.Pod) int {
	pend, prog := 0, 0
	for _, c := range pod.Status.Conditions {
		if c.Type == "PodResizePending" && pend == 0 {
			switch c.Reason {
			case "Deferred":
				pend = 1
			case "Infeasible":
				pend = 2
			default:
				pend = 3
			}
		}
		if c.Type == "PodResizeInProgress" {
			prog = 1
		}
	}
	return pend + 4*prog
}

func c13HasResizeStatus(pod *corev1.Pod) bool {
	return c13ResizeCond(pod) != 0 || len(pod.Status.ContainerStatuses) > 0 || len(pod.Status.InitContainerStatuses) > 0 ||
		pod.Status.Resources != nil || pod.Status.AllocatedResources != nil
}

// c13EncStatus: <cond> <n> (<name> <hasResources> RL(resources.requests) RL(allocatedResources))* <hasPodResources> RL RL
// (containerStatuses first, then initContainerStatuses: the order in which PodRequests fills its name map)
func c13EncStatus(pod *corev1.Pod) string {
	parts := []string{strconv.Itoa(c13ResizeCond(pod)), strconv.Itoa(len(pod.Status.ContainerStatuses) + len(pod.Status.InitContainerStatuses))}
	for _, list := range [][]corev1.ContainerStatus{pod.Status.ContainerStatuses, pod.Status.InitContainerStatuses} {
		for i := range list {
			cs := &list[i]
			var rq corev1.ResourceList
			if cs.Resources != nil {
				rq = cs.Resources.Requests
			}
			parts = append(parts, strconv.Itoa(c13CtrCode(cs.Name)), strconv.Itoa(vB(cs.Resources != nil)), c13EncRL(rq), c13EncRL(cs.AllocatedResources))
		}
	}
	var prq corev1.ResourceList
	if pod.Status.Resources != nil {
		prq = pod.Status.Resources.Requests
	}
	parts = append(parts, strconv.Itoa(vB(pod.Status.Resources != nil)), c13EncRL(prq), c13EncRL(pod.Status.AllocatedResources))
	return strings.Join(parts, " ")
}

// c13DeriveRL: what a status reports, relative to the declared requests.  mode: 0 equal, 1 up (cpu rounded up to whole
// CPUs [+1], the rest doubled), 2 down (cpu rounded down to whole CPUs, the rest halved), 3 empty, 4 nil, 5 unrelated,
// 6 without the batch / mid entries, 7 with an added batch-cpu entry.
func c13DeriveRL(r *vRand, spec corev1.ResourceList, mode int) corev1.ResourceList {
	switch mode {
	case 3:
		return corev1.ResourceList{}
	case 4:
		return nil
	case 5:
		return c13Resources(r, false, 20).Requests
	}
	out := corev1.ResourceList{}
	for k, q := range spec {
		switch {
		case mode == 6 && strings.HasPrefix(string(k), "kubernetes.io/"):
			continue
		case (mode == 1 || mode == 2) && k == "cpu":
			m := q.MilliValue()
			if m < 0 {
				out[k] = q.DeepCopy()
			} else if mode == 1 {
				w := (m + 999) / 1000
				if r != nil && r.Chance(1, 3) {
					w++
				}
				out[k] = *resource.NewQuantity(w, resource.DecimalSI)
			} else {
				out[k] = *resource.NewQuantity(m/1000, resource.DecimalSI)
			}
		case mode == 1:
			out[k] = *resource.NewQuantity(q.Value()*2, q.Format)
		case mode == 2:
			out[k] = *resource.NewQuantity(q.Value()/2, q.Format)
		default:
			out[k] = q.DeepCopy()
		}
	}
	if mode == 7 {
		out["kubernetes.io/batch-cpu"] = *resource.NewQuantity(1000, resource.DecimalSI)
	}
	return out
}

var c13CondKinds = []string{"none", "deferred", "infeasible", "in-progress", "infeasible+in-progress", "deferred+in-progress"}

func c13SetResizeCond(pod *corev1.Pod, kind int) {
	pending := func(reason string) {
		pod.Status.Conditions = append(pod.Status.Conditions, corev1.PodCondition{Type: "PodResizePending", Status: corev1.ConditionTrue, Reason: reason})
	}
	progress := func() {
		pod.Status.Conditions = append(pod.Status.Conditions, corev1.PodCondition{Type: "PodResizeInProgress", Status: corev1.ConditionTrue})
	}
	switch kind {
	case 1:
		pending("Deferred")
	case 2:
		pending("Infeasible")
	case 3:
		progress()
	case 4:
		progress()
		pending("Infeasible")
	case 5:
		pending("Deferred")
		progress()
	}
}

// c13SetStatus: one status entry per container (main containers and init containers) with resources.requests =
// derive(resMode) (resMode -1: resources nil) and allocatedResources = derive(allocMode).
func c13SetStatus(r *vRand, pod *corev1.Pod, resMode, allocMode int) {
	pod.Status.ContainerStatuses, pod.Status.InitContainerStatuses = nil, nil
	entry := func(c *corev1.Container) corev1.ContainerStatus {
		cs := corev1.ContainerStatus{Name: c.Name, Ready: true}
		if resMode >= 0 {
			cs.Resources = &corev1.ResourceRequirements{Requests: c13DeriveRL(r, c.Resources.Requests, resMode)}
			if resMode != 3 && resMode != 4 {
				cs.Resources.Limits = c.Resources.Limits.DeepCopy()
			}
		}
		cs.AllocatedResources = c13DeriveRL(r, c.Resources.Requests, allocMode)
		return cs
	}
	for i := range pod.Spec.Containers {
		pod.Status.ContainerStatuses = append(pod.Status.ContainerStatuses, entry(&pod.Spec.Containers[i]))
	}
	for i := range pod.Spec.InitContainers {
		pod.Status.InitContainerStatuses = append(pod.Status.InitContainerStatuses, entry(&pod.Spec.InitContainers[i]))
	}
}

var c13StatusScenarios = []string{"up-whole", "empty", "equal", "alloc-only", "mixed", "no-batch", "down", "adds-batch"}

// c13GenStatus: a random resize status for a generated pod; returns the scenario's name (for the histogram).
func c13GenStatus(r *vRand, pod *corev1.Pod) string {
	scen := int(r.Pick([]int64{0, 0, 0, 1, 1, 2, 3, 4, 4, 4, 5, 5, 6, 7}))
	cond := r.Intn(len(c13CondKinds))
	switch scen {
	case 0:
		c13SetStatus(r, pod, 1, int(r.Pick([]int64{4, 0, 1})))
	case 1:
		c13SetStatus(r, pod, int(r.Pick([]int64{3, 4})), int(r.Pick([]int64{3, 4})))
		if r.Chance(3, 4) {
			cond = int(r.Pick([]int64{2, 4}))
		}
	case 2:
		c13SetStatus(r, pod, 0, 0)
	case 3:
		c13SetStatus(r, pod, -1, 1)
	case 4:
		c13SetStatus(r, pod, 0, 0)
		fix := func(list []corev1.ContainerStatus, cs []corev1.Container) []corev1.ContainerStatus {
			var out []corev1.ContainerStatus
			for i := range list {
				if r.Chance(1, 6) {
					continue // no status entry for this container
				}
				e := list[i]
				if r.Chance(1, 6) {
					e.Resources = nil
				} else {
					e.Resources = &corev1.ResourceRequirements{Requests: c13DeriveRL(r, cs[i].Resources.Requests, r.Intn(8))}
				}
				e.AllocatedResources = c13DeriveRL(r, cs[i].Resources.Requests, r.Intn(8))
				out = append(out, e)
			}
			return out
		}
		pod.Status.ContainerStatuses = fix(pod.Status.ContainerStatuses, pod.Spec.Containers)
		pod.Status.InitContainerStatuses = fix(pod.Status.InitContainerStatuses, pod.Spec.InitContainers)
		if r.Chance(1, 6) { // an entry that names no container of the spec
			pod.Status.ContainerStatuses = append(pod.Status.ContainerStatuses, corev1.ContainerStatus{Name: "c77",
				Resources: &corev1.ResourceRequirements{Requests: corev1.ResourceList{"cpu": resource.MustParse("500m")}}})
		}
	case 5:
		c13SetStatus(r, pod, 6, int(r.Pick([]int64{6, 4})))
		if r.Chance(3, 4) {
			cond = int(r.Pick([]int64{2, 4}))
		}
	case 6:
		c13SetStatus(r, pod, 2, int(r.Pick([]int64{2, 0, 4})))
	case 7:
		c13SetStatus(r, pod, 7, int(r.Pick([]int64{7, 0, 4})))
	}
	c13SetResizeCond(pod, cond)
	if pod.Spec.Resources != nil && r.Chance(1, 3) { // pod-level status (read only under an option nobody sets)
		pod.Status.Resources = &corev1.ResourceRequirements{Requests: c13DeriveRL(r, pod.Spec.Resources.Requests, r.Intn(5))}
		pod.Status.AllocatedResources = c13DeriveRL(r, pod.Spec.Resources.Requests, r.Intn(5))
	}
	return c13StatusScenarios[scen] + "/" + c13CondKinds[cond]
}

// c13DecorateStatus: the LAST draws of a random case (the pods of the case are the same as without it): 1/3 of the
// cases get a resize status on the new pod; the old pod of an UPDATE then gets the same one, its own, or none.
func c13DecorateStatus(h *vHarness, r *vRand, newPod, oldPod *corev1.Pod) {
	if !r.Chance(1, 3) {
		h.Tag("resize-status:absent")
		return
	}
	h.Tag("resize-status:" + c13GenStatus(r, newPod))
	if oldPod != nil {
		switch r.Intn(3) {
		case 0:
			oldPod.Status.ContainerStatuses = newPod.DeepCopy().Status.ContainerStatuses
			oldPod.Status.InitContainerStatuses = newPod.DeepCopy().Status.InitContainerStatuses
		case 1:
			c13GenStatus(r, oldPod)
		}
	}
}
