//go:build verif

package validating

import (
	"context"
	"encoding/json"
	"fmt"
	"math/big"
	"sort"
	"strconv"
	"strings"
	"testing"

	admissionv1 "k8s.io/api/admission/v1"
	corev1 "k8s.io/api/core/v1"
	"k8s.io/apimachinery/pkg/api/resource"
	metav1 "k8s.io/apimachinery/pkg/apis/meta/v1"
	"k8s.io/apimachinery/pkg/runtime"
	"k8s.io/client-go/kubernetes/scheme"
	"sigs.k8s.io/controller-runtime/pkg/client/fake"
	"sigs.k8s.io/controller-runtime/pkg/webhook/admission"

	apiext "github.com/koordinator-sh/koordinator/apis/extension"
	"github.com/koordinator-sh/koordinator/pkg/features"
	"github.com/koordinator-sh/koordinator/pkg/util/feature"
)

// C13 (validating half): drive the real clusterColocationProfileValidatingPod on generated
// (operation, old pod, new pod) triples; emit the pods as integer tokens, the verdict as the
// observation, and evaluate the property oracle: an admitted pod obeys the QoS/priority protocol.

var _ = json.Marshal
var _ = sort.Ints

// ---- C13 shared helpers (identical copy in the validating and the mutating harness) ----

var c13ResNames = []corev1.ResourceName{corev1.ResourceCPU, corev1.ResourceMemory, apiext.BatchCPU, apiext.BatchMemory,
	apiext.MidCPU, apiext.MidMemory, "example.com/foo"}

func c13ResCode(n corev1.ResourceName) int {
	for i, x := range c13ResNames {
		if x == n {
			return i
		}
	}
	return 6
}

var c13QoSNames = []string{"", "LSE", "LSR", "LS", "BE", "SYSTEM"} // code 0 = a string naming no class
var c13PCNames = []string{"", "koord-prod", "koord-mid", "koord-batch", "koord-free"}

func c13NameCode(names []string, labels map[string]string, key string) int {
	v, ok := labels[key]
	if !ok {
		return -1
	}
	for i := 1; i < len(names); i++ {
		if names[i] == v {
			return i
		}
	}
	return 0
}

// c13Nano: the exact amount of a quantity in nano-units (Quantity has no finer precision).
func c13Nano(q resource.Quantity) *big.Int {
	d := q.AsDec()
	un := new(big.Int).Set(d.UnscaledBig())
	sc := int(d.Scale())
	if sc <= 9 {
		return un.Mul(un, new(big.Int).Exp(big.NewInt(10), big.NewInt(int64(9-sc)), nil))
	}
	return un.Quo(un, new(big.Int).Exp(big.NewInt(10), big.NewInt(int64(sc-9)), nil))
}

type c13RL map[int]*big.Int

func c13ListOf(l corev1.ResourceList) c13RL {
	out := c13RL{}
	for k, q := range l {
		out[c13ResCode(k)] = c13Nano(q)
	}
	return out
}

func c13EncRL(l corev1.ResourceList) string {
	m := c13ListOf(l)
	parts := []string{strconv.Itoa(len(m))}
	for c := 0; c <= 6; c++ {
		if v, ok := m[c]; ok {
			parts = append(parts, strconv.Itoa(c), v.String())
		}
	}
	return strings.Join(parts, " ")
}

func c13CtrCode(name string) int {
	n, err := strconv.Atoi(strings.TrimPrefix(name, "c"))
	if err != nil {
		return 99
	}
	return n
}

func c13EncOptQ(l corev1.ResourceList, k corev1.ResourceName) string {
	if q, ok := l[k]; ok {
		return "1 " + c13Nano(q).String()
	}
	return "0 0"
}

func c13EncAnnot(ann map[string]string) string {
	data, ok := ann[apiext.AnnotationExtendedResourceSpec]
	if !ok {
		return "0"
	}
	spec := &apiext.ExtendedResourceSpec{}
	if err := json.Unmarshal([]byte(data), spec); err != nil {
		return "1"
	}
	names := make([]string, 0, len(spec.Containers))
	for n := range spec.Containers {
		names = append(names, n)
	}
	sort.Slice(names, func(i, j int) bool { return c13CtrCode(names[i]) < c13CtrCode(names[j]) })
	parts := []string{"2", strconv.Itoa(len(names))}
	for _, n := range names {
		c := spec.Containers[n]
		parts = append(parts, strconv.Itoa(c13CtrCode(n)),
			c13EncOptQ(c.Requests, apiext.BatchCPU), c13EncOptQ(c.Requests, apiext.BatchMemory),
			c13EncOptQ(c.Limits, apiext.BatchCPU), c13EncOptQ(c.Limits, apiext.BatchMemory))
	}
	return strings.Join(parts, " ")
}

func c13EncMeta(pod *corev1.Pod) string {
	hp, pv := 0, int64(0)
	if pod.Spec.Priority != nil {
		hp, pv = 1, int64(*pod.Spec.Priority)
	}
	hs, sv := 0, int64(0)
	if s := pod.Labels[apiext.LabelPodPriority]; s != "" {
		n, _ := strconv.ParseInt(s, 10, 64)
		hs, sv = 1, n
	}
	return fmt.Sprintf("%d %d %d %d %d %d", c13NameCode(c13QoSNames, pod.Labels, apiext.LabelPodQoS),
		c13NameCode(c13PCNames, pod.Labels, apiext.LabelPodPriorityClass), hp, pv, hs, sv)
}

func c13EncCtr(c *corev1.Container) string {
	return fmt.Sprintf("%d %s %s", c13CtrCode(c.Name), c13EncRL(c.Resources.Requests), c13EncRL(c.Resources.Limits))
}

// c13EncPod: the POD token sequence of the line protocol (see lean/KoordVerif/Driver/C13.lean).
func c13EncPod(pod *corev1.Pod) string {
	st := 0
	if pod.Status.QOSClass == corev1.PodQOSBestEffort {
		st = 1
	} else if pod.Status.QOSClass != "" {
		st = 2
	}
	parts := []string{c13EncMeta(pod), strconv.Itoa(st), c13EncAnnot(pod.Annotations),
		strconv.Itoa(len(pod.Spec.InitContainers)), strconv.Itoa(len(pod.Spec.Containers)), strconv.Itoa(vB(pod.Spec.Overhead != nil))}
	for i := range pod.Spec.InitContainers {
		parts = append(parts, c13EncCtr(&pod.Spec.InitContainers[i]))
	}
	for i := range pod.Spec.Containers {
		parts = append(parts, c13EncCtr(&pod.Spec.Containers[i]))
	}
	if pod.Spec.Overhead != nil {
		parts = append(parts, c13EncRL(pod.Spec.Overhead))
	}
	return strings.Join(parts, " ")
}

var c13CPUStrs = []string{"1", "2", "4", "500m", "1m", "0.0005", "1500m", "0", "0.1", "999999900n", "1000000100n", "100u", "2000m", "3", "250m", "1001m", "16"}
var c13MemStrs = []string{"1Gi", "512Mi", "1.5Gi", "100M", "128974848", "0", "1e3", "123456789m", "4Gi", "1Ki", "1", "64Mi", "2G"}

func c13Q(r *vRand, code int) resource.Quantity {
	switch code {
	case 0:
		if r.Chance(1, 4) {
			return *resource.NewMilliQuantity(int64(r.Range(1, 64000)), resource.DecimalSI)
		}
		return resource.MustParse(c13CPUStrs[r.Intn(len(c13CPUStrs))])
	case 1:
		if r.Chance(1, 4) {
			return *resource.NewQuantity(r.Int63n(1<<36), resource.BinarySI)
		}
		return resource.MustParse(c13MemStrs[r.Intn(len(c13MemStrs))])
	case 2, 4: // extended cpu: an integer count of milli-cores
		if r.Chance(1, 8) {
			return resource.MustParse("0")
		}
		return *resource.NewQuantity(int64(r.Range(1, 64000)), resource.DecimalSI)
	case 3, 5:
		if r.Chance(1, 8) {
			return resource.MustParse("0")
		}
		return resource.MustParse(c13MemStrs[r.Intn(len(c13MemStrs))])
	}
	return *resource.NewQuantity(int64(r.Range(0, 8)), resource.DecimalSI)
}

// c13Resources: one container's requirements.  shape: 0 req=lim, 1 limits only, 2 requests only,
// 3 independent, 4 empty; `ext` adds already-extended entries, `foreign` a foreign resource.
func c13Resources(r *vRand, wholeCPU bool, extProb int) corev1.ResourceRequirements {
	req, lim := corev1.ResourceList{}, corev1.ResourceList{}
	shape := r.Pick([]int64{0, 0, 0, 1, 1, 2, 3, 3, 4})
	put := func(code int) {
		q := c13Q(r, code)
		if code == 0 && wholeCPU {
			q = *resource.NewQuantity(int64(r.Range(1, 8)), resource.DecimalSI)
		}
		n := c13ResNames[code]
		switch shape {
		case 0:
			req[n], lim[n] = q, q.DeepCopy()
		case 1:
			lim[n] = q
		case 2:
			req[n] = q
		case 3:
			if r.Chance(2, 3) {
				req[n] = q
			}
			if r.Chance(2, 3) {
				lim[n] = c13Q(r, code)
			}
		}
	}
	if r.Chance(4, 5) {
		put(0)
	}
	if r.Chance(4, 5) {
		put(1)
	}
	for code := 2; code <= 5; code++ {
		if r.Chance(extProb, 100) {
			put(code)
		}
	}
	if r.Chance(1, 8) {
		put(6)
	}
	rr := corev1.ResourceRequirements{}
	if len(req) > 0 || r.Chance(1, 6) { // nil vs empty
		rr.Requests = req
	}
	if len(lim) > 0 || r.Chance(1, 6) {
		rr.Limits = lim
	}
	return rr
}

var c13Priorities = []int64{-1, 0, 1, 2999, 3000, 3500, 3999, 4000, 4999, 5000, 5500, 5999, 6000, 6999, 7000, 7500, 7999, 8000, 8999, 9000, 9500, 9999, 10000, 2000000000}

// priorities that land in class pc (1 prod 2 mid 3 batch 4 free, 0 none)
func c13PriorityIn(r *vRand, pc int) int32 {
	switch pc {
	case 1:
		return int32(r.Pick([]int64{9000, 9500, 9999, int64(r.Range(9000, 9999))}))
	case 2:
		return int32(r.Pick([]int64{7000, 7500, 7999, int64(r.Range(7000, 7999))}))
	case 3:
		return int32(r.Pick([]int64{5000, 5500, 5999, int64(r.Range(5000, 5999))}))
	case 4:
		return int32(r.Pick([]int64{3000, 3500, 3999, int64(r.Range(3000, 3999))}))
	}
	return int32(r.Pick([]int64{-1, 0, 1, 2999, 4000, 4999, 6000, 6999, 8000, 8999, 10000, 2000000000}))
}

// ---- independent re-statement of the protocol's notions for the oracle (literals of the statement) ----

func c13OracleQoS(pod *corev1.Pod) string {
	switch v := pod.Labels["koordinator.sh/qosClass"]; v {
	case "LSE", "LSR", "LS", "BE", "SYSTEM":
		return v
	}
	return ""
}

func c13OraclePC(pod *corev1.Pod) string {
	if v, ok := pod.Labels["koordinator.sh/priority-class"]; ok {
		switch v {
		case "koord-prod", "koord-mid", "koord-batch", "koord-free":
			return v
		}
		return ""
	}
	if pod.Spec.Priority == nil {
		return ""
	}
	switch p := *pod.Spec.Priority; {
	case p >= 9000 && p <= 9999:
		return "koord-prod"
	case p >= 7000 && p <= 7999:
		return "koord-mid"
	case p >= 5000 && p <= 5999:
		return "koord-batch"
	case p >= 3000 && p <= 3999:
		return "koord-free"
	}
	return ""
}

func c13CeilDiv(n *big.Int, d int64) *big.Int {
	q, m := new(big.Int).DivMod(n, big.NewInt(d), new(big.Int))
	if m.Sign() > 0 {
		q.Add(q, big.NewInt(1))
	}
	return q
}

func c13PickStr(r *vRand, xs []string) string { return xs[r.Intn(len(xs))] }

// ---- end of shared helpers ----

// c13OraclePodRequest: pod-level request of one resource in nano-units, from scratch:
// max(sum of containers, largest init container) + overhead.
func c13OraclePodRequest(pod *corev1.Pod, name corev1.ResourceName) *big.Int {
	sum := new(big.Int)
	for _, c := range pod.Spec.Containers {
		if q, ok := c.Resources.Requests[name]; ok {
			sum.Add(sum, c13Nano(q))
		}
	}
	for _, c := range pod.Spec.InitContainers {
		if q, ok := c.Resources.Requests[name]; ok {
			if n := c13Nano(q); n.Cmp(sum) > 0 {
				sum = n
			}
		}
	}
	if q, ok := pod.Spec.Overhead[name]; ok {
		sum = new(big.Int).Add(sum, c13Nano(q))
	}
	return sum
}

func c13GenValidatingPod(r *vRand) *corev1.Pod {
	pod := &corev1.Pod{ObjectMeta: metav1.ObjectMeta{Namespace: "default", Name: "p"}}
	q := int(r.Pick([]int64{4, 4, 4, 4, 3, 3, 3, 2, 2, 2, 1, 1, 5, 0, -1, -1}))
	if q >= 0 || r.Chance(1, 3) {
		pod.Labels = map[string]string{}
	}
	if q == 0 {
		pod.Labels[apiext.LabelPodQoS] = c13PickStr(r, []string{"foo", "", "be", "Ls"})
	} else if q > 0 {
		pod.Labels[apiext.LabelPodQoS] = c13QoSNames[q]
	}
	// priority class: mostly one the protocol permits for this QoS
	pc := r.Intn(5)
	if r.Chance(7, 10) {
		switch q {
		case 4:
			pc = int(r.Pick([]int64{2, 3, 3, 3, 4}))
		case 2:
			pc = 1
		}
	}
	switch r.Intn(10) {
	case 0: // by label (wins over the value)
		if pod.Labels == nil {
			pod.Labels = map[string]string{}
		}
		if pc == 0 {
			pod.Labels[apiext.LabelPodPriorityClass] = c13PickStr(r, []string{"foo", "", "koord-Prod"})
		} else {
			pod.Labels[apiext.LabelPodPriorityClass] = c13PCNames[pc]
		}
		if r.Bool() {
			v := int32(r.Pick(c13Priorities))
			pod.Spec.Priority = &v
		}
	case 1: // no priority at all
		if pc != 0 {
			v := c13PriorityIn(r, pc)
			pod.Spec.Priority = &v
		}
	default:
		v := c13PriorityIn(r, pc)
		pod.Spec.Priority = &v
	}
	if r.Chance(1, 4) {
		if pod.Labels == nil {
			pod.Labels = map[string]string{}
		}
		pod.Labels[apiext.LabelPodPriority] = strconv.Itoa(r.Range(0, 3))
	}
	whole := (q == 1 || q == 2) && r.Chance(7, 10)
	ext := 8
	if q == 4 {
		ext = 35
	}
	nc := r.Range(1, 3)
	for i := 0; i < nc; i++ {
		pod.Spec.Containers = append(pod.Spec.Containers, corev1.Container{Name: fmt.Sprintf("c%d", i), Resources: c13Resources(r, whole, ext)})
	}
	ni := int(r.Pick([]int64{0, 0, 0, 1, 2}))
	for i := 0; i < ni; i++ {
		pod.Spec.InitContainers = append(pod.Spec.InitContainers, corev1.Container{Name: fmt.Sprintf("c%d", 10+i), Resources: c13Resources(r, whole, ext)})
	}
	if r.Chance(1, 5) {
		pod.Spec.Overhead = c13Resources(r, whole, ext).Requests
	}
	return pod
}

func c13PerturbOld(r *vRand, newPod *corev1.Pod) *corev1.Pod {
	old := newPod.DeepCopy()
	if old.Labels == nil && r.Bool() {
		old.Labels = map[string]string{}
	}
	switch r.Intn(8) {
	case 0, 1: // QoS label changed / removed / added
		if old.Labels == nil {
			old.Labels = map[string]string{}
		}
		if _, ok := old.Labels[apiext.LabelPodQoS]; ok && r.Chance(1, 3) {
			delete(old.Labels, apiext.LabelPodQoS)
		} else {
			old.Labels[apiext.LabelPodQoS] = c13PickStr(r, []string{"BE", "LS", "LSR", "LSE", "SYSTEM", "foo"})
		}
	case 2, 3: // priority value changed (inside the same class or across classes)
		if old.Spec.Priority != nil && r.Bool() {
			v := *old.Spec.Priority + int32(r.Pick([]int64{1, -1, 1000, -1000, 2000}))
			old.Spec.Priority = &v
		} else if r.Bool() {
			old.Spec.Priority = nil
		} else {
			v := int32(r.Pick(c13Priorities))
			old.Spec.Priority = &v
		}
	case 4: // priority-class label changed
		if old.Labels == nil {
			old.Labels = map[string]string{}
		}
		if _, ok := old.Labels[apiext.LabelPodPriorityClass]; ok && r.Bool() {
			delete(old.Labels, apiext.LabelPodPriorityClass)
		} else {
			old.Labels[apiext.LabelPodPriorityClass] = c13PickStr(r, []string{"koord-prod", "koord-mid", "koord-batch", "koord-free", "foo"})
		}
	case 5: // sub-priority label changed
		if old.Labels == nil {
			old.Labels = map[string]string{}
		}
		if r.Bool() {
			old.Labels[apiext.LabelPodPriority] = strconv.Itoa(r.Range(4, 9))
		} else {
			delete(old.Labels, apiext.LabelPodPriority)
		}
	case 6: // resources of the old pod differ (irrelevant to the rules)
		old.Spec.Containers[0].Resources = c13Resources(r, false, 20)
	}
	return old
}

func TestVerifC13Validating(t *testing.T) {
	h := vOpen("C13")
	if h == nil {
		t.Skip("VERIF_OUT not set")
	}
	client := fake.NewClientBuilder().Build()
	handler := &PodValidatingHandler{Client: client, Decoder: admission.NewDecoder(scheme.Scheme)}
	n := h.N(6000, 150000)
	for idx := 0; idx < n; idx++ {
		r := h.Begin(idx)
		if r == nil {
			continue
		}
		newPod := c13GenValidatingPod(r)
		op := int(r.Pick([]int64{0, 0, 0, 0, 0, 1, 1, 1, 1, 2}))
		var oldPod *corev1.Pod
		if op == 1 {
			oldPod = c13PerturbOld(r, newPod)
		}
		gate := r.Chance(1, 7)
		h.Op("pod 0 %s", c13EncPod(newPod))
		if oldPod != nil {
			h.Op("pod 1 %s", c13EncPod(oldPod))
		}
		h.Op("validate %d %d", vB(gate), op)

		operation := []admissionv1.Operation{admissionv1.Create, admissionv1.Update, admissionv1.Delete}[op]
		req := admission.Request{AdmissionRequest: admissionv1.AdmissionRequest{
			Resource:  metav1.GroupVersionResource{Group: "", Version: "v1", Resource: "pods"},
			Operation: operation, Object: runtime.RawExtension{}, OldObject: runtime.RawExtension{}}}
		restore := feature.SetFeatureGateDuringTest(t, feature.DefaultMutableFeatureGate, features.ColocationProfileSkipValidatingPriority, gate)
		var allowed bool
		var err error
		// the oracle reads copies taken before the call
		newCopy := newPod.DeepCopy()
		var oldCopy *corev1.Pod
		if oldPod != nil {
			oldCopy = oldPod.DeepCopy()
		}
		panicked := h.Guard(func() {
			allowed, _, err = handler.clusterColocationProfileValidatingPod(context.TODO(), req, newPod, oldPod)
		})
		restore()
		if panicked {
			h.Obs("panic")
			h.End()
			continue
		}
		if allowed != (err == nil) {
			h.Fail("C13:verdict-error-mismatch", "allowed=%v but err=%v", allowed, err)
		}
		h.Obs("verdict %d", vB(allowed))

		// ---- property oracle: admitted  ==>  protocol obeyed ----
		qos, pc := c13OracleQoS(newCopy), c13OraclePC(newCopy)
		h.Tag("op:" + string(operation))
		h.Tag("qos:" + qos + "/pc:" + pc)
		h.Tag(fmt.Sprintf("verdict:%v", allowed))
		pairBad := (qos == "BE" && (pc == "koord-prod" || pc == "")) || (qos == "LSR" && pc != "koord-prod")
		cpu := c13OraclePodRequest(newCopy, "cpu")
		milli := c13CeilDiv(cpu, 1000000)
		fractional := (qos == "LSR" || qos == "LSE") && new(big.Int).Mod(milli, big.NewInt(1000)).Sign() != 0
		batch := c13OraclePodRequest(newCopy, "kubernetes.io/batch-cpu").Sign() > 0 || c13OraclePodRequest(newCopy, "kubernetes.io/batch-memory").Sign() > 0
		batchNonBE := batch && qos != "BE"
		qosChanged, pcChanged := false, false
		if op == 1 {
			qosChanged = c13OracleQoS(oldCopy) != qos
			pcChanged = c13OraclePC(oldCopy) != pc
		}
		if pairBad || fractional || batchNonBE || qosChanged || pcChanged {
			h.Tag("protocol:violated")
		} else {
			h.Tag("protocol:obeyed")
		}
		if allowed {
			if pairBad {
				h.Fail("C13:admit-forbidden-pair", "admitted with QoS %q and priority class %q", qos, pc)
			}
			if fractional {
				h.Fail("C13:admit-fractional-cpu", "admitted %s pod requesting %s milli-CPU", qos, milli)
			}
			if batchNonBE {
				h.Fail("C13:admit-batch-non-be", "admitted QoS %q pod requesting batch resources", qos)
			}
			if qosChanged {
				h.Fail("C13:admit-qos-changed", "update admitted with QoS %q -> %q", c13OracleQoS(oldCopy), qos)
			}
			if pcChanged {
				h.Fail("C13:admit-priority-class-changed", "update admitted with priority class %q -> %q", c13OraclePC(oldCopy), pc)
			}
		}
		if qos != "" || pc != "" {
			h.Nontrivial()
		}
		h.End()
	}
	h.Close("one (operation, old pod, new pod, feature gate) per case: QoS label over all classes/absent/garbage, priority class by value " +
		"(on, between and outside the ranges) or by label, 1-3 containers + 0-2 init containers + overhead with cpu/memory/batch/mid/foreign " +
		"quantities (integral, milli, sub-milli, nano, binary suffixes, zero, missing); UPDATE old pods are perturbed copies; " +
		"non-trivial = the new pod has a QoS or a priority class; distinct by op lines")
}
