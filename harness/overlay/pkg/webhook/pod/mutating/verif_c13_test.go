//go:build verif

package mutating

import (
	"context"
	"encoding/json"
	"fmt"
	"math/big"
	"sort"
	"strconv"
	"strings"
	"testing"

	jsonpatch "github.com/evanphx/json-patch"
	admissionv1 "k8s.io/api/admission/v1"
	corev1 "k8s.io/api/core/v1"
	schedulingv1 "k8s.io/api/scheduling/v1"
	"k8s.io/apimachinery/pkg/api/resource"
	metav1 "k8s.io/apimachinery/pkg/apis/meta/v1"
	"k8s.io/apimachinery/pkg/runtime"
	"k8s.io/apimachinery/pkg/util/intstr"
	"k8s.io/client-go/kubernetes/scheme"
	ctrlclient "sigs.k8s.io/controller-runtime/pkg/client"
	"sigs.k8s.io/controller-runtime/pkg/client/fake"
	"sigs.k8s.io/controller-runtime/pkg/webhook/admission"

	configv1alpha1 "github.com/koordinator-sh/koordinator/apis/config/v1alpha1"
	"github.com/koordinator-sh/koordinator/pkg/features"
	"github.com/koordinator-sh/koordinator/pkg/util/feature"
)

// C13 (mutating half): drive the real clusterColocationProfileMutatingPod +
// extendedResourceSpecMutatingPod (the first two steps of handleCreate) on generated pods and
// colocation profiles, twice (re-admission of the result); emit pods/profiles as integer
// tokens, the resulting pod as observation, and evaluate the property oracle: amounts kept,
// native entries erased, requests defaulted, annotation = final spec, re-admission changes nothing.

// ---- C13 shared helpers (identical copy in the validating and the mutating harness) ----
// Names are the LITERAL strings of the protocol (not the apis/extension identifiers): renaming a Go
// identifier in /repo is harmless, changing the VALUE of a constant makes the implementation
// disagree with the model / the oracle on these literals (and breaks a tie lemma of Ties/C13.lean).

const (
	c13LabelQoS = "koordinator.sh/qosClass"
	c13LabelPC  = "koordinator.sh/priority-class"
	c13LabelSub = "koordinator.sh/priority"
	c13LabelSrc = "c13/src" // a foreign label: source / target of labelKeysMapping
	c13AnnExt   = "node.koordinator.sh/extended-resource-spec"
	c13AnnSkip  = "config.koordinator.sh/skip-update-resources"
)

var c13LabelKeys = []string{c13LabelQoS, c13LabelPC, c13LabelSrc} // key codes 0 1 2

var c13ResNames = []corev1.ResourceName{"cpu", "memory", "kubernetes.io/batch-cpu", "kubernetes.io/batch-memory",
	"kubernetes.io/mid-cpu", "kubernetes.io/mid-memory", "example.com/foo"}

// the JSON shape of the summary annotation, restated
type c13ExtSpec struct {
	Containers map[string]struct {
		Limits   corev1.ResourceList `json:"limits,omitempty"`
		Requests corev1.ResourceList `json:"requests,omitempty"`
	} `json:"containers,omitempty"`
}

func c13ResCode(n corev1.ResourceName) int {
	for i, x := range c13ResNames {
		if x == n {
			return i
		}
	}
	return 6
}

var c13QoSNames = []string{"", "LSE", "LSR", "LS", "BE", "SYSTEM"} // code 0 = a string naming no class
var c13PCNames = []string{"", "koord-prod", "koord-mid", "koord-batch", "koord-free"}

// c13EncStr: LSTR of a present string: <n> <byte>*
func c13EncStr(v string) string {
	parts := []string{strconv.Itoa(len(v))}
	for i := 0; i < len(v); i++ {
		parts = append(parts, strconv.Itoa(int(v[i])))
	}
	return strings.Join(parts, " ")
}

// c13EncLabel: LSTR of a label (absent = -1)
func c13EncLabel(labels map[string]string, key string) string {
	v, ok := labels[key]
	if !ok {
		return "-1"
	}
	return c13EncStr(v)
}

// c13Nano: the exact amount of a quantity in nano-units (Quantity has no finer precision).
func c13Nano(q resource.Quantity) *big.Int {
	d := q.AsDec()
	un := new(big.Int).Set(d.UnscaledBig())
	sc := int(d.Scale())
	if sc <= 9 {
		return un.Mul(un, new(big.Int).Exp(big.NewInt(10), big.NewInt(int64(9-sc)), nil))
	}
	return un.Quo(un, new(big.Int).Exp(big.NewInt(10), big.NewInt(int64(sc-9)), nil))
}

type c13RL map[int]*big.Int

func c13ListOf(l corev1.ResourceList) c13RL {
	out := c13RL{}
	for k, q := range l {
		out[c13ResCode(k)] = c13Nano(q)
	}
	return out
}

func c13EncRL(l corev1.ResourceList) string {
	m := c13ListOf(l)
	parts := []string{strconv.Itoa(len(m))}
	for c := 0; c <= 6; c++ {
		if v, ok := m[c]; ok {
			parts = append(parts, strconv.Itoa(c), v.String())
		}
	}
	return strings.Join(parts, " ")
}

func c13CtrCode(name string) int {
	n, err := strconv.Atoi(strings.TrimPrefix(name, "c"))
	if err != nil {
		return 99
	}
	return n
}

func c13EncOptQ(l corev1.ResourceList, k corev1.ResourceName) string {
	if q, ok := l[k]; ok {
		return "1 " + c13Nano(q).String()
	}
	return "0 0"
}

func c13EncAnnot(ann map[string]string) string {
	data, ok := ann[c13AnnExt]
	if !ok {
		return "0"
	}
	spec := &c13ExtSpec{}
	if err := json.Unmarshal([]byte(data), spec); err != nil {
		return "1"
	}
	names := make([]string, 0, len(spec.Containers))
	for n := range spec.Containers {
		names = append(names, n)
	}
	sort.Slice(names, func(i, j int) bool { return c13CtrCode(names[i]) < c13CtrCode(names[j]) })
	parts := []string{"2", strconv.Itoa(len(names))}
	for _, n := range names {
		c := spec.Containers[n]
		parts = append(parts, strconv.Itoa(c13CtrCode(n)),
			c13EncOptQ(c.Requests, "kubernetes.io/batch-cpu"), c13EncOptQ(c.Requests, "kubernetes.io/batch-memory"),
			c13EncOptQ(c.Limits, "kubernetes.io/batch-cpu"), c13EncOptQ(c.Limits, "kubernetes.io/batch-memory"))
	}
	return strings.Join(parts, " ")
}

func c13EncMeta(pod *corev1.Pod) string {
	hp, pv := 0, int64(0)
	if pod.Spec.Priority != nil {
		hp, pv = 1, int64(*pod.Spec.Priority)
	}
	hs, sv := 0, int64(0)
	if s := pod.Labels[c13LabelSub]; s != "" {
		n, _ := strconv.ParseInt(s, 10, 64)
		hs, sv = 1, n
	}
	return fmt.Sprintf("%s %s %s %d %d %d %d", c13EncLabel(pod.Labels, c13LabelQoS), c13EncLabel(pod.Labels, c13LabelPC),
		c13EncLabel(pod.Labels, c13LabelSrc), hp, pv, hs, sv)
}

func c13IsSidecar(c *corev1.Container) bool {
	return c.RestartPolicy != nil && *c.RestartPolicy == corev1.ContainerRestartPolicyAlways
}

// c13EncCtrObs: the observation form (name, requests, limits)
func c13EncCtrObs(c *corev1.Container) string {
	return fmt.Sprintf("%d %s %s", c13CtrCode(c.Name), c13EncRL(c.Resources.Requests), c13EncRL(c.Resources.Limits))
}

// c13EncCtr: the CTR token sequence (name, sidecar, requests, limits)
func c13EncCtr(c *corev1.Container) string {
	return fmt.Sprintf("%d %d %s %s", c13CtrCode(c.Name), vB(c13IsSidecar(c)), c13EncRL(c.Resources.Requests), c13EncRL(c.Resources.Limits))
}

// c13EncPod: the POD token sequence of the line protocol (see lean/KoordVerif/Driver/C13.lean).
func c13EncPod(pod *corev1.Pod) string {
	st := 0
	if pod.Status.QOSClass == corev1.PodQOSBestEffort {
		st = 1
	} else if pod.Status.QOSClass != "" {
		st = 2
	}
	parts := []string{c13EncMeta(pod), strconv.Itoa(st), c13EncAnnot(pod.Annotations),
		strconv.Itoa(len(pod.Spec.InitContainers)), strconv.Itoa(len(pod.Spec.Containers)), strconv.Itoa(vB(pod.Spec.Overhead != nil)),
		strconv.Itoa(vB(pod.Spec.Resources != nil))}
	for i := range pod.Spec.InitContainers {
		parts = append(parts, c13EncCtr(&pod.Spec.InitContainers[i]))
	}
	for i := range pod.Spec.Containers {
		parts = append(parts, c13EncCtr(&pod.Spec.Containers[i]))
	}
	if pod.Spec.Overhead != nil {
		parts = append(parts, c13EncRL(pod.Spec.Overhead))
	}
	if pod.Spec.Resources != nil {
		parts = append(parts, c13EncRL(pod.Spec.Resources.Requests), c13EncRL(pod.Spec.Resources.Limits))
	}
	return strings.Join(parts, " ")
}

var c13CPUStrs = []string{"1", "2", "4", "500m", "1m", "0.0005", "1500m", "0", "0.1", "999999900n", "1000000100n", "100u", "2000m", "3", "250m", "1001m", "16"}
var c13MemStrs = []string{"1Gi", "512Mi", "1.5Gi", "100M", "128974848", "0", "1e3", "123456789m", "4Gi", "1Ki", "1", "64Mi", "2G"}
var c13NegStrs = []string{"-1", "-2", "-500m", "-1m", "-0.0005", "-1500m", "-999999900n", "-1Gi", "-1", "-100u"}

// c13Neg: set by a generator for the pods that may carry negative quantities (invalid for the API
// server, but admission webhooks run before validation).
var c13Neg = false

func c13Q(r *vRand, code int) resource.Quantity {
	if c13Neg && r.Chance(1, 5) {
		return resource.MustParse(c13NegStrs[r.Intn(len(c13NegStrs))])
	}
	switch code {
	case 0:
		if r.Chance(1, 4) {
			return *resource.NewMilliQuantity(int64(r.Range(1, 64000)), resource.DecimalSI)
		}
		return resource.MustParse(c13CPUStrs[r.Intn(len(c13CPUStrs))])
	case 1:
		if r.Chance(1, 4) {
			return *resource.NewQuantity(r.Int63n(1<<36), resource.BinarySI)
		}
		return resource.MustParse(c13MemStrs[r.Intn(len(c13MemStrs))])
	case 2, 4: // extended cpu: an integer count of milli-cores
		if r.Chance(1, 8) {
			return resource.MustParse("0")
		}
		return *resource.NewQuantity(int64(r.Range(1, 64000)), resource.DecimalSI)
	case 3, 5:
		if r.Chance(1, 8) {
			return resource.MustParse("0")
		}
		return resource.MustParse(c13MemStrs[r.Intn(len(c13MemStrs))])
	}
	return *resource.NewQuantity(int64(r.Range(0, 8)), resource.DecimalSI)
}

// c13GenPodLevel: spec.resources (pod-level requests / limits of cpu and memory; rarely empty or foreign only)
func c13GenPodLevel(r *vRand, wholeCPU bool) *corev1.ResourceRequirements {
	rr := &corev1.ResourceRequirements{}
	if r.Chance(1, 8) {
		if r.Bool() {
			rr.Requests = corev1.ResourceList{}
		}
		return rr
	}
	req, lim := corev1.ResourceList{}, corev1.ResourceList{}
	if r.Chance(2, 3) {
		q := c13Q(r, 0)
		if wholeCPU {
			q = *resource.NewQuantity(int64(r.Range(1, 8)), resource.DecimalSI)
		}
		req["cpu"] = q
	}
	if r.Chance(1, 2) {
		req["memory"] = c13Q(r, 1)
	}
	if r.Chance(1, 8) {
		req["example.com/foo"] = c13Q(r, 6)
	}
	if r.Chance(1, 2) {
		lim["cpu"] = c13Q(r, 0)
	}
	if r.Chance(1, 2) {
		lim["memory"] = c13Q(r, 1)
	}
	if len(req) > 0 || r.Bool() {
		rr.Requests = req
	}
	if len(lim) > 0 || r.Bool() {
		rr.Limits = lim
	}
	return rr
}

// c13AllNonNegative: no negative quantity anywhere in the pod's resource lists
func c13AllNonNegative(pod *corev1.Pod) bool {
	ok := true
	chk := func(l corev1.ResourceList) {
		for _, q := range l {
			if q.Sign() < 0 {
				ok = false
			}
		}
	}
	for _, cs := range [][]corev1.Container{pod.Spec.InitContainers, pod.Spec.Containers} {
		for i := range cs {
			chk(cs[i].Resources.Requests)
			chk(cs[i].Resources.Limits)
		}
	}
	chk(pod.Spec.Overhead)
	if pod.Spec.Resources != nil {
		chk(pod.Spec.Resources.Requests)
		chk(pod.Spec.Resources.Limits)
	}
	return ok
}

// c13Resources: one container's requirements.  shape: 0 req=lim, 1 limits only, 2 requests only,
// 3 independent, 4 empty; `ext` adds already-extended entries, `foreign` a foreign resource.
func c13Resources(r *vRand, wholeCPU bool, extProb int) corev1.ResourceRequirements {
	req, lim := corev1.ResourceList{}, corev1.ResourceList{}
	shape := r.Pick([]int64{0, 0, 0, 1, 1, 2, 3, 3, 4})
	put := func(code int) {
		q := c13Q(r, code)
		if code == 0 && wholeCPU {
			q = *resource.NewQuantity(int64(r.Range(1, 8)), resource.DecimalSI)
		}
		n := c13ResNames[code]
		switch shape {
		case 0:
			req[n], lim[n] = q, q.DeepCopy()
		case 1:
			lim[n] = q
		case 2:
			req[n] = q
		case 3:
			if r.Chance(2, 3) {
				req[n] = q
			}
			if r.Chance(2, 3) {
				lim[n] = c13Q(r, code)
			}
		}
	}
	if r.Chance(4, 5) {
		put(0)
	}
	if r.Chance(4, 5) {
		put(1)
	}
	for code := 2; code <= 5; code++ {
		if r.Chance(extProb, 100) {
			put(code)
		}
	}
	if r.Chance(1, 8) {
		put(6)
	}
	rr := corev1.ResourceRequirements{}
	if len(req) > 0 || r.Chance(1, 6) { // nil vs empty
		rr.Requests = req
	}
	if len(lim) > 0 || r.Chance(1, 6) {
		rr.Limits = lim
	}
	return rr
}

var c13Priorities = []int64{-1, 0, 1, 2999, 3000, 3500, 3999, 4000, 4999, 5000, 5500, 5999, 6000, 6999, 7000, 7500, 7999, 8000, 8999, 9000, 9500, 9999, 10000, 2000000000}

// priorities that land in class pc (1 prod 2 mid 3 batch 4 free, 0 none)
func c13PriorityIn(r *vRand, pc int) int32 {
	switch pc {
	case 1:
		return int32(r.Pick([]int64{9000, 9500, 9999, int64(r.Range(9000, 9999))}))
	case 2:
		return int32(r.Pick([]int64{7000, 7500, 7999, int64(r.Range(7000, 7999))}))
	case 3:
		return int32(r.Pick([]int64{5000, 5500, 5999, int64(r.Range(5000, 5999))}))
	case 4:
		return int32(r.Pick([]int64{3000, 3500, 3999, int64(r.Range(3000, 3999))}))
	}
	return int32(r.Pick([]int64{-1, 0, 1, 2999, 4000, 4999, 6000, 6999, 8000, 8999, 10000, 2000000000}))
}

// ---- independent re-statement of the protocol's notions for the oracle (literals of the statement) ----

func c13OracleQoS(pod *corev1.Pod) string {
	switch v := pod.Labels["koordinator.sh/qosClass"]; v {
	case "LSE", "LSR", "LS", "BE", "SYSTEM":
		return v
	}
	return ""
}

func c13OraclePC(pod *corev1.Pod) string {
	if v, ok := pod.Labels["koordinator.sh/priority-class"]; ok {
		switch v {
		case "koord-prod", "koord-mid", "koord-batch", "koord-free":
			return v
		}
		return ""
	}
	if pod.Spec.Priority == nil {
		return ""
	}
	switch p := *pod.Spec.Priority; {
	case p >= 9000 && p <= 9999:
		return "koord-prod"
	case p >= 7000 && p <= 7999:
		return "koord-mid"
	case p >= 5000 && p <= 5999:
		return "koord-batch"
	case p >= 3000 && p <= 3999:
		return "koord-free"
	}
	return ""
}

func c13CeilDiv(n *big.Int, d int64) *big.Int {
	q, m := new(big.Int).DivMod(n, big.NewInt(d), new(big.Int))
	if m.Sign() > 0 {
		q.Add(q, big.NewInt(1))
	}
	return q
}

func c13PickStr(r *vRand, xs []string) string { return xs[r.Intn(len(xs))] }

// ---- end of shared helpers ----

type c13KV struct {
	key int // index into c13LabelKeys
	val string
}

type c13ResPatch struct {
	ctr, isLimit, res int
	q                 resource.Quantity
}

type c13Profile struct {
	name, matched, skipRes, hasProb, prob int
	probPercent                           bool // spec.probability written as the string "<prob>%"
	probInvalid                           bool // spec.probability is a string that is no percentage: the admission fails
	pcMissing                             bool // spec.priorityClassName names no PriorityClass: the admission fails when applied
	hasProbStr                            bool // spec.probability is the STRING probStr, handed to the model as bytes (the model parses it)
	probStr                               string
	hasSel                                bool // the selectors' outcomes are handed to the model (op `sel`), which decides `matched`
	nsSel, objSel                         int  // 0 nil 1 empty 2 match 3 no match 4 evaluation error
	hasQoS                                bool
	qos                                   string // spec.qosClass (non-empty when hasQoS)
	hasPrio                               int
	prio                                  int64
	hasSub                                int
	sub                                   int64
	labels                                []c13KV  // spec.labels (distinct keys)
	keyMap                                [][2]int // spec.labelKeysMapping old -> new (one entry, or two order-independent ones)
	suffixes                              []c13KV  // spec.labelSuffixes (distinct keys)
	hasPatch                              bool
	patchLabels                           []c13KV
	hasPatchPrio                          bool
	patchPrio                             int64
	patchRes                              []c13ResPatch
}

// simple: an "overwrite with constants or keep" profile (hypothesis AppliedSimple of readmission_idempotent)
func (p *c13Profile) simple() bool {
	return len(p.keyMap) == 0 && len(p.suffixes) == 0 && len(p.patchRes) == 0
}

// c13PercentOf: "<integer>%" -> the integer (the documented form of a percentage), restated for the oracle
func c13PercentOf(s string) (int, bool) {
	if !strings.HasSuffix(s, "%") {
		return 0, false
	}
	v, err := strconv.Atoi(strings.TrimSuffix(s, "%"))
	return v, err == nil
}

func (p *c13Profile) skipped(rnd int) bool {
	percent := 100
	if p.hasProb == 1 {
		percent = p.prob
	}
	if p.hasProbStr {
		v, ok := c13PercentOf(p.probStr)
		if !ok {
			return false // the admission fails
		}
		percent = v
	}
	return percent == 0 || (percent != 100 && rnd > percent)
}

// the shapes of a string-typed spec.probability: percentages (0, 50, 100, signs, leading zeros, out of range)
// and texts that are no percentage
var c13ProbStrs = []string{"0%", "0%", "0%", "50%", "50%", "100%", "100%", "30%", "+50%", "-5%", "150%", "050%", "00%", "-0%",
	"half", "50", "%", "", " 50%", "5 0%", "50%%", "1e2%", "0x10%", "50% ", "+%", "-%"}

func c13EncKVs(kvs []c13KV) string {
	parts := []string{strconv.Itoa(len(kvs))}
	for _, kv := range kvs {
		parts = append(parts, strconv.Itoa(kv.key), c13EncStr(kv.val))
	}
	return strings.Join(parts, " ")
}

func (p *c13Profile) opLine() string {
	q := "-1"
	if p.hasQoS {
		q = c13EncStr(p.qos)
	}
	parts := []string{fmt.Sprintf("profile %d %d %d %d %d %s %d %d %d %d %d %d", p.name, p.matched, p.skipRes, p.hasProb, p.prob, q, p.hasPrio, p.prio, p.hasSub, p.sub,
		vB(p.probInvalid), vB(p.pcMissing)),
		c13EncKVs(p.labels), strconv.Itoa(len(p.keyMap))}
	for _, m := range p.keyMap {
		parts = append(parts, strconv.Itoa(m[0]), strconv.Itoa(m[1]))
	}
	parts = append(parts, c13EncKVs(p.suffixes), strconv.Itoa(vB(p.hasPatch)), c13EncKVs(p.patchLabels), strconv.Itoa(vB(p.hasPatchPrio)), strconv.FormatInt(p.patchPrio, 10),
		strconv.Itoa(len(p.patchRes)))
	for _, rp := range p.patchRes {
		parts = append(parts, strconv.Itoa(rp.ctr), strconv.Itoa(rp.isLimit), strconv.Itoa(rp.res), c13Nano(rp.q).String())
	}
	return strings.Join(parts, " ")
}

// opLines: the profile line, plus the raw string of a string-typed probability
func (p *c13Profile) opLines() []string {
	out := []string{p.opLine()}
	if p.hasProbStr {
		out = append(out, fmt.Sprintf("probstr %d %s", p.name, c13EncStr(p.probStr)))
	}
	if p.hasSel {
		out = append(out, fmt.Sprintf("sel %d %d %d", p.name, p.nsSel, p.objSel))
	}
	return out
}

// c13NamespaceMissing: the case's namespace object does not exist (every namespace lookup fails).
var c13NamespaceMissing = false

func c13GenMutatingPod(r *vRand) *corev1.Pod {
	pod := &corev1.Pod{ObjectMeta: metav1.ObjectMeta{Namespace: "default", Name: "p"}}
	if r.Chance(5, 6) {
		pod.Labels = map[string]string{"app": "c13"}
	}
	setLabel := func(k, v string) {
		if pod.Labels == nil {
			pod.Labels = map[string]string{}
		}
		pod.Labels[k] = v
	}
	switch q := int(r.Pick([]int64{4, 4, 4, 4, 3, 3, 2, 1, 5, 0, -1, -1, -1})); {
	case q == 0:
		setLabel(c13LabelQoS, c13PickStr(r, []string{"foo", ""}))
	case q > 0:
		setLabel(c13LabelQoS, c13QoSNames[q])
	}
	pc := int(r.Pick([]int64{3, 3, 3, 3, 2, 2, 2, 1, 4, 0}))
	switch r.Intn(10) {
	case 0:
		if pc == 0 {
			setLabel(c13LabelPC, c13PickStr(r, []string{"foo", ""}))
		} else {
			setLabel(c13LabelPC, c13PCNames[pc])
		}
		if r.Bool() {
			v := int32(r.Pick(c13Priorities))
			pod.Spec.Priority = &v
		}
	case 1, 2: // no priority: the class comes from the profile or from the QoS default
	default:
		v := c13PriorityIn(r, pc)
		pod.Spec.Priority = &v
	}
	if r.Chance(1, 6) {
		setLabel(c13LabelSub, strconv.Itoa(r.Range(0, 3)))
	}
	if r.Chance(1, 5) { // a foreign label whose value may name a class: source of labelKeysMapping
		setLabel(c13LabelSrc, c13PickStr(r, []string{"BE", "LS", "LSR", "koord-batch", "koord-mid", "koord-prod", "x", ""}))
	}
	if r.Chance(1, 12) {
		pod.Status.QOSClass = corev1.PodQOSClass(c13PickStr(r, []string{"BestEffort", "Burstable", "Guaranteed"}))
	}
	ext := int(r.Pick([]int64{0, 0, 10, 30}))
	c13Neg = r.Chance(1, 12)
	defer func() { c13Neg = false }()
	bare := r.Chance(1, 8) // no native cpu/memory at all: kube QoS BestEffort
	mk := func() corev1.ResourceRequirements {
		rr := c13Resources(r, false, ext)
		if bare {
			for _, l := range []corev1.ResourceList{rr.Requests, rr.Limits} {
				if r.Bool() {
					delete(l, corev1.ResourceCPU)
				} else if _, ok := l[corev1.ResourceCPU]; ok {
					l[corev1.ResourceCPU] = resource.MustParse("0")
				}
				delete(l, corev1.ResourceMemory)
			}
		}
		return rr
	}
	nc := int(r.Pick([]int64{0, 1, 1, 1, 2, 2, 3, 4}))
	for i := 0; i < nc; i++ {
		name := fmt.Sprintf("c%d", i)
		if i > 0 && r.Chance(1, 40) {
			name = "c0" // duplicate names are invalid, but the mutating webhook runs before validation
		}
		pod.Spec.Containers = append(pod.Spec.Containers, corev1.Container{Name: name, Resources: mk()})
	}
	ni := int(r.Pick([]int64{0, 0, 0, 1, 2}))
	for i := 0; i < ni; i++ {
		ic := corev1.Container{Name: fmt.Sprintf("c%d", 10+i), Resources: mk()}
		if r.Chance(1, 3) { // a sidecar
			always := corev1.ContainerRestartPolicyAlways
			ic.RestartPolicy = &always
		}
		pod.Spec.InitContainers = append(pod.Spec.InitContainers, ic)
	}
	if r.Chance(1, 8) { // pod-level resources: the Kubernetes QoS (and so the default class) is computed from them alone
		if bare && r.Bool() {
			pod.Spec.Resources = &corev1.ResourceRequirements{}
		} else {
			pod.Spec.Resources = c13GenPodLevel(r, false)
		}
	}
	if r.Chance(1, 4) {
		pod.Spec.Overhead = mk().Requests
		if pod.Spec.Overhead == nil && r.Bool() {
			pod.Spec.Overhead = corev1.ResourceList{}
		}
	}
	// a pre-existing (stale / user-written / broken) summary annotation
	switch r.Intn(12) {
	case 0:
		pod.Annotations = map[string]string{c13AnnExt: c13PickStr(r, []string{"{", "[]", "not json", `{"containers":{"c0":{"limits":{"kubernetes.io/batch-cpu":"x"}}}}`})}
	case 1:
		pod.Annotations = map[string]string{c13AnnExt: c13PickStr(r, []string{"{}", `{"containers":{}}`, `{"containers":{"c0":{}}}`,
			`{"containers":{"c0":{"limits":{"kubernetes.io/batch-cpu":"500","kubernetes.io/batch-memory":"1Gi"},"requests":{"kubernetes.io/batch-cpu":"500"}}}}`,
			`{"containers":{"c7":{"requests":{"kubernetes.io/batch-memory":"64Mi"}},"c1":{"limits":{"kubernetes.io/batch-cpu":"1000"}}}}`,
			`{"containers":{"c0":{"limits":{"kubernetes.io/batch-cpu":"1k","cpu":"1"},"requests":{"kubernetes.io/batch-cpu":"1e3"}}},"other":1}`,
			`{"containers":{"c0":{"requests":{"kubernetes.io/batch-cpu":"-5","kubernetes.io/batch-memory":"0"}}}}`, `null`, `{"containers":null}`})}
	case 2:
		pod.Annotations = map[string]string{"other": "x"}
	}
	return pod
}

var c13LabelVals = []string{"BE", "LS", "LSR", "LSE", "SYSTEM", "koord-batch", "koord-mid", "koord-prod", "koord-free", "foo", ""}

func c13GenProfiles(r *vRand, pod *corev1.Pod) []c13Profile {
	c13NamespaceMissing = r.Chance(1, 10)
	np := int(r.Pick([]int64{0, 1, 1, 1, 1, 1, 2, 2, 3}))
	ids := r.Perm(10)[:np]
	ps := make([]c13Profile, 0, np)
	uniqueNames := true
	seen := map[string]bool{}
	for _, c := range pod.Spec.Containers {
		if seen[c.Name] {
			uniqueNames = false
		}
		seen[c.Name] = true
	}
	for _, id := range ids {
		p := c13Profile{name: id, matched: vB(!r.Chance(1, 8)), skipRes: vB(r.Chance(1, 12))}
		if r.Chance(1, 4) {
			p.hasProb, p.prob = 1, int(r.Pick([]int64{0, 0, 30, 30, 50, 50, 100, 100, 1, 99, 150, -5}))
			p.probPercent = p.prob >= 0 && p.prob <= 100 && r.Chance(1, 3)
		}
		if r.Chance(1, 40) {
			p.probInvalid = true
		}
		if r.Chance(1, 4) { // namespaceSelector / selector shapes; the profile is dropped only by a selector that says "no match"
			p.hasSel = true
			p.nsSel = int(r.Pick([]int64{0, 0, 1, 2, 2, 3, 4}))
			p.objSel = int(r.Pick([]int64{0, 0, 1, 2, 2, 2, 3, 4}))
			if p.objSel == 2 && pod.Labels["app"] != "c13" {
				p.objSel = 3 // the selector app=c13 does not match this pod
			}
			if c13NamespaceMissing && (p.nsSel == 2 || p.nsSel == 3) {
				p.nsSel = 4 // the lookup of the namespace fails
			}
			p.matched = vB(p.nsSel != 3 && p.objSel != 3) // restated for the oracle
		}
		if r.Chance(1, 7) { // a string-typed probability whose parse is the model's business
			p.hasProb, p.prob, p.probPercent, p.probInvalid = 0, 0, false, false
			p.hasProbStr, p.probStr = true, c13PickStr(r, c13ProbStrs)
		}
		if r.Chance(1, 2) {
			p.hasQoS = true
			if q := int(r.Pick([]int64{4, 4, 4, 3, 2, 1, 5, 0})); q == 0 {
				p.qos = "foo"
			} else {
				p.qos = c13QoSNames[q]
			}
		}
		if r.Chance(1, 2) {
			p.hasPrio, p.prio = 1, int64(c13PriorityIn(r, int(r.Pick([]int64{3, 3, 3, 2, 2, 1, 4, 0}))))
		}
		if p.hasPrio == 0 && r.Chance(1, 30) {
			p.pcMissing = true
		}
		if r.Chance(1, 5) {
			p.hasSub, p.sub = 1, int64(r.Range(0, 5))
		}
		// spec.labels on the class labels / the foreign label
		if r.Chance(1, 6) {
			for _, k := range r.Perm(3)[:r.Range(1, 2)] {
				v := c13PickStr(r, c13LabelVals)
				if k == 1 && r.Chance(2, 3) {
					v = c13PCNames[r.Intn(5)]
				}
				p.labels = append(p.labels, c13KV{k, v})
			}
		}
		// labelKeysMapping: one entry (old -> new); old == new is legal
		if r.Chance(1, 8) {
			from := r.Intn(3)
			p.keyMap = append(p.keyMap, [2]int{from, r.Intn(3)})
			// a second entry (the map is keyed by the old key, so another source) that maps a key onto
			// itself (creating it with "" when missing) and shares no key with the first entry: the two
			// assignments are independent of the order in which Go iterates the map
			if r.Chance(1, 3) {
				for b := 0; b < 3; b++ {
					if b != from && b != p.keyMap[0][1] {
						p.keyMap = append(p.keyMap, [2]int{b, b})
						break
					}
				}
			}
		}
		// labelSuffixes
		if r.Chance(1, 8) {
			for _, k := range r.Perm(3)[:r.Range(1, 2)] {
				p.suffixes = append(p.suffixes, c13KV{k, c13PickStr(r, []string{"", "R", "E", "-x", "BE", "koord-batch"})})
			}
		}
		// spec.patch (strategic merge): labels, spec.priority, container resources
		if r.Chance(1, 6) {
			p.hasPatch = true
			if r.Chance(1, 2) {
				for _, k := range r.Perm(3)[:r.Range(1, 2)] {
					p.patchLabels = append(p.patchLabels, c13KV{k, c13PickStr(r, c13LabelVals)})
				}
			}
			if r.Chance(1, 3) {
				p.hasPatchPrio, p.patchPrio = true, int64(c13PriorityIn(r, int(r.Pick([]int64{3, 3, 2, 1, 4, 0}))))
			}
			if uniqueNames && len(pod.Spec.Containers) > 0 && r.Chance(1, 2) {
				n := r.Range(1, 2)
				for i := 0; i < n; i++ {
					res := int(r.Pick([]int64{0, 0, 1, 2, 3, 4}))
					p.patchRes = append(p.patchRes, c13ResPatch{ctr: r.Intn(len(pod.Spec.Containers)), isLimit: vB(r.Bool()), res: res, q: c13Q(r, res)})
				}
			}
		}
		ps = append(ps, p)
	}
	// every profile switched off by its probability (0 / "0%" / a percentage below every draw > it): the pod is
	// admitted by matching profiles none of which is applied
	if len(ps) > 0 && r.Chance(1, 7) {
		for i := range ps {
			p := &ps[i]
			p.probInvalid, p.probPercent, p.hasProbStr, p.probStr = false, false, false, ""
			switch r.Intn(4) {
			case 0:
				p.hasProb, p.prob = 1, 0
			case 1:
				p.hasProb, p.prob, p.probPercent = 1, 0, true
			case 2:
				p.hasProb, p.prob = 0, 0
				p.hasProbStr, p.probStr = true, c13PickStr(r, []string{"0%", "00%", "-0%", "+0%"})
			case 3:
				p.hasProb, p.prob = 1, int(r.Pick([]int64{1, 29, 30, 50})) // skipped for the larger draws
			}
		}
	}
	return ps
}

func c13PatchJSON(p *c13Profile) []byte {
	type m = map[string]interface{}
	root := m{}
	if len(p.patchLabels) > 0 {
		lbl := m{}
		for _, kv := range p.patchLabels {
			lbl[c13LabelKeys[kv.key]] = kv.val
		}
		root["metadata"] = m{"labels": lbl}
	}
	spec := m{}
	if p.hasPatchPrio {
		spec["priority"] = p.patchPrio
	}
	if len(p.patchRes) > 0 {
		byCtr := map[int]m{}
		var order []int
		for _, rp := range p.patchRes {
			c, ok := byCtr[rp.ctr]
			if !ok {
				c = m{"name": fmt.Sprintf("c%d", rp.ctr), "resources": m{}}
				byCtr[rp.ctr] = c
				order = append(order, rp.ctr)
			}
			which := "requests"
			if rp.isLimit == 1 {
				which = "limits"
			}
			rs := c["resources"].(m)
			if _, ok := rs[which]; !ok {
				rs[which] = m{}
			}
			rs[which].(m)[string(c13ResNames[rp.res])] = rp.q.String()
		}
		// containers in pod order: strategic merge then keeps the order of spec.containers (a patch that
		// lists them in another order reorders the pod's containers; that reordering is not modelled)
		sort.Ints(order)
		var cs []interface{}
		for _, i := range order {
			cs = append(cs, byCtr[i])
		}
		spec["containers"] = cs
	}
	if len(spec) > 0 {
		root["spec"] = spec
	}
	data, _ := json.Marshal(root)
	return data
}

func c13ProfileObjects(ps []c13Profile) []ctrlclient.Object {
	var objs []ctrlclient.Object
	if !c13NamespaceMissing {
		objs = append(objs, &corev1.Namespace{ObjectMeta: metav1.ObjectMeta{Name: "default", Labels: map[string]string{"team": "a"}}})
	}
	seenPC := map[int64]bool{}
	for i := range ps {
		p := &ps[i]
		o := &configv1alpha1.ClusterColocationProfile{ObjectMeta: metav1.ObjectMeta{Name: fmt.Sprintf("p%d", p.name)}}
		if p.hasSel {
			// two ways to write a selector: matchLabels (the fast path of GetFastLabelSelector) / matchExpressions
			mk := func(shape int, key, val string) *metav1.LabelSelector {
				switch shape {
				case 1:
					return &metav1.LabelSelector{}
				case 2, 3:
					if shape == 3 {
						val = "c13-other"
					}
					if p.name%2 == 0 {
						return &metav1.LabelSelector{MatchLabels: map[string]string{key: val}}
					}
					return &metav1.LabelSelector{MatchExpressions: []metav1.LabelSelectorRequirement{{Key: key, Operator: metav1.LabelSelectorOpIn, Values: []string{val}}}}
				case 4:
					return &metav1.LabelSelector{MatchExpressions: []metav1.LabelSelectorRequirement{{Key: key, Operator: "C13Bogus", Values: []string{val}}}}
				}
				return nil
			}
			o.Spec.Selector = mk(p.objSel, "app", "c13")
			if p.nsSel == 4 && c13NamespaceMissing {
				o.Spec.NamespaceSelector = mk(2+p.name%2, "team", "a") // a valid selector; the namespace lookup fails
			} else {
				o.Spec.NamespaceSelector = mk(p.nsSel, "team", "a")
			}
		} else if p.matched == 0 {
			o.Spec.Selector = &metav1.LabelSelector{MatchLabels: map[string]string{"c13-no-such-label": "x"}}
		} else if p.name%2 == 0 {
			o.Spec.Selector = &metav1.LabelSelector{} // empty selector matches everything
		}
		if p.skipRes == 1 {
			// the annotation counts by its presence, whatever its value
			o.Annotations = map[string]string{c13AnnSkip: []string{"true", "false", ""}[p.name%3]}
		}
		if p.hasProb == 1 {
			v := intstr.FromInt(p.prob)
			if p.probPercent {
				v = intstr.FromString(fmt.Sprintf("%d%%", p.prob))
			}
			o.Spec.Probability = &v
		}
		if p.probInvalid {
			v := intstr.FromString("half")
			o.Spec.Probability = &v
		}
		if p.hasProbStr {
			v := intstr.FromString(p.probStr)
			o.Spec.Probability = &v
		}
		if p.pcMissing {
			o.Spec.PriorityClassName = "c13-no-such-priority-class"
		}
		if p.hasQoS {
			o.Spec.QoSClass = p.qos
		}
		if len(p.labels) > 0 {
			o.Spec.Labels = map[string]string{}
			for _, kv := range p.labels {
				o.Spec.Labels[c13LabelKeys[kv.key]] = kv.val
			}
		}
		if len(p.keyMap) > 0 {
			o.Spec.LabelKeysMapping = map[string]string{}
			for _, m := range p.keyMap {
				o.Spec.LabelKeysMapping[c13LabelKeys[m[0]]] = c13LabelKeys[m[1]]
			}
		}
		if len(p.suffixes) > 0 {
			o.Spec.LabelSuffixes = map[string]string{}
			for _, kv := range p.suffixes {
				o.Spec.LabelSuffixes[c13LabelKeys[kv.key]] = kv.val
			}
		}
		if p.hasPrio == 1 {
			o.Spec.PriorityClassName = fmt.Sprintf("pc%d", p.prio)
			if !seenPC[p.prio] {
				seenPC[p.prio] = true
				objs = append(objs, &schedulingv1.PriorityClass{ObjectMeta: metav1.ObjectMeta{Name: o.Spec.PriorityClassName}, Value: int32(p.prio)})
			}
		}
		if p.hasSub == 1 {
			v := int32(p.sub)
			o.Spec.KoordinatorPriority = &v
		}
		if p.hasPatch {
			o.Spec.Patch = runtime.RawExtension{Raw: c13PatchJSON(p)}
		}
		objs = append(objs, o)
	}
	return objs
}

// c13Obs emits the canonical observation block of a pod.
func c13Obs(h *vHarness, pod *corev1.Pod) []string {
	lines := c13ObsLines(pod)
	for _, l := range lines {
		h.Obs("%s", l)
	}
	return lines
}

// c13ObsLines: the canonical observation block of a pod, not emitted.
func c13ObsLines(pod *corev1.Pod) []string {
	var lines []string
	lines = append(lines, "meta "+c13EncMeta(pod))
	for i := range pod.Spec.InitContainers {
		lines = append(lines, "c 0 "+c13EncCtrObs(&pod.Spec.InitContainers[i]))
	}
	for i := range pod.Spec.Containers {
		lines = append(lines, "c 1 "+c13EncCtrObs(&pod.Spec.Containers[i]))
	}
	if pod.Spec.Overhead != nil {
		lines = append(lines, "ov 1 "+c13EncRL(pod.Spec.Overhead))
	} else {
		lines = append(lines, "ov 0")
	}
	if pod.Spec.Resources != nil {
		lines = append(lines, "pl 1 "+c13EncRL(pod.Spec.Resources.Requests)+" "+c13EncRL(pod.Spec.Resources.Limits))
	} else {
		lines = append(lines, "pl 0")
	}
	lines = append(lines, "ann "+c13EncAnnot(pod.Annotations))
	return lines
}

// ---- oracle pieces (from scratch, literals of the statement) ----

var c13Tier = map[string][2]corev1.ResourceName{
	"koord-batch": {"kubernetes.io/batch-cpu", "kubernetes.io/batch-memory"},
	"koord-mid":   {"kubernetes.io/mid-cpu", "kubernetes.io/mid-memory"},
}

func c13SameQ(a resource.Quantity, okA bool, b *big.Int, okB bool) bool {
	if okA != okB {
		return false
	}
	return !okA || c13Nano(a).Cmp(b) == 0
}

// c13CheckList: `after` must be `before` with cpu/memory moved to the tier names, amounts kept.
// defaulted names the tier entries that may have been added to requests from limits.
// c13Fp: fingerprint prefix of the oracle clauses below: "C13:" on the in-memory pod of the two steps,
// "C13:stored-" on the pod the API server stores after Handle.
var c13Fp = "C13:"

func c13CheckList(h *vHarness, where string, tier [2]corev1.ResourceName, before, after corev1.ResourceList, isRequests bool, limitsAfter corev1.ResourceList) {
	for _, n := range []corev1.ResourceName{"cpu", "memory"} {
		if _, ok := after[n]; ok {
			h.Fail(c13Fp+"native-left", "%s still has %s after translation", where, n)
		}
	}
	want := map[corev1.ResourceName]*big.Int{}
	for k, q := range before {
		switch k {
		case "cpu":
			want[tier[0]] = new(big.Int).Mul(c13CeilDiv(c13Nano(q), 1000000), big.NewInt(1000000000)) // milli-cores as a count
		case "memory":
			want[tier[1]] = c13Nano(q)
		default:
			if _, moved := want[k]; !moved {
				want[k] = c13Nano(q)
			}
		}
	}
	// a native entry overrides a pre-existing tier entry
	if q, ok := before["cpu"]; ok {
		want[tier[0]] = new(big.Int).Mul(c13CeilDiv(c13Nano(q), 1000000), big.NewInt(1000000000))
	}
	if q, ok := before["memory"]; ok {
		want[tier[1]] = c13Nano(q)
	}
	for k, w := range want {
		q, ok := after[k]
		if !c13SameQ(q, ok, w, true) {
			if k == tier[0] || k == tier[1] {
				h.Fail(c13Fp+"amount-changed", "%s: %s should be %s nano-units, got present=%v %s", where, k, w, ok, q.String())
			} else {
				h.Fail(c13Fp+"foreign-changed", "%s: %s changed", where, k)
			}
		}
	}
	for k, q := range after {
		if _, ok := want[k]; ok {
			continue
		}
		if isRequests && (k == tier[0] || k == tier[1]) {
			lq, lok := limitsAfter[k]
			if !lok || lq.Cmp(q) != 0 {
				h.Fail(c13Fp+"request-not-limit", "%s: request %s appeared but is not the limit", where, k)
			}
			continue
		}
		h.Fail(c13Fp+"entry-appeared", "%s: %s appeared", where, k)
	}
	if isRequests {
		for _, k := range tier {
			if _, lok := limitsAfter[k]; lok {
				if _, rok := after[k]; !rok {
					h.Fail(c13Fp+"request-not-defaulted", "%s: limit %s without request", where, k)
				}
			}
		}
	}
}

func c13CheckAnnotation(h *vHarness, pod *corev1.Pod) {
	spec := &c13ExtSpec{}
	if data, ok := pod.Annotations["node.koordinator.sh/extended-resource-spec"]; ok {
		if err := json.Unmarshal([]byte(data), spec); err != nil {
			h.Fail(c13Fp+"annotation-mismatch", "annotation does not parse: %v", err)
			return
		}
	}
	names := map[string]int{}
	for _, c := range pod.Spec.Containers {
		names[c.Name]++
	}
	seen := map[string]bool{}
	for _, c := range pod.Spec.Containers {
		if names[c.Name] > 1 {
			seen[c.Name] = true
			continue // ambiguous (invalid pod)
		}
		e, has := spec.Containers[c.Name]
		any := false
		for _, k := range []corev1.ResourceName{"kubernetes.io/batch-cpu", "kubernetes.io/batch-memory"} {
			for li, pair := range [][2]corev1.ResourceList{{c.Resources.Requests, e.Requests}, {c.Resources.Limits, e.Limits}} {
				cq, cok := pair[0][k]
				aq, aok := pair[1][k]
				if cok {
					any = true
				}
				if cok != aok || (cok && cq.Cmp(aq) != 0) {
					h.Fail(c13Fp+"annotation-mismatch", "container %s %s list %d: spec present=%v annotation present=%v", c.Name, k, li, cok, aok)
				}
			}
		}
		if any != has {
			h.Fail(c13Fp+"annotation-mismatch", "container %s: has batch entries=%v, in annotation=%v", c.Name, any, has)
		}
		seen[c.Name] = true
	}
	for n := range spec.Containers {
		if !seen[n] {
			h.Fail(c13Fp+"annotation-mismatch", "annotation names %s which is not a container", n)
		}
	}
}

// c13OracleFirst: the property's clauses on one admission, `before` = the pod as submitted, `pod` = the pod that
// came out (in memory after the two steps, or as stored by the API server after Handle + JSON patch).  pfx prefixes
// the histogram tags.  Returns whether every applied profile is simple (hypothesis of readmission_idempotent).
func c13OracleFirst(h *vHarness, before, pod *corev1.Pod, profiles []c13Profile, create, gate bool, rnd int, pfx string, summary bool) bool {
	anyMatched, anySkipRes, appliedSimple, resPatched := false, false, true, false
	applied := 0
	// a profile whose selector cannot be evaluated: the unchanged tree keeps it (the model mirrors that), but the property
	// does not say so - the oracle stays silent on the clauses that depend on which profiles match
	uncertain := false
	for i := range profiles {
		p := &profiles[i]
		if p.hasSel && p.matched == 1 && (p.nsSel == 4 || p.objSel == 4) {
			uncertain = true
		}
		if p.matched == 1 {
			anyMatched = true
			if p.skipRes == 1 {
				anySkipRes = true
			}
			if create && !p.skipped(rnd) {
				applied++
				if !p.simple() {
					appliedSimple = false
				}
				if len(p.patchRes) > 0 {
					resPatched = true
				}
				if len(p.keyMap) > 0 {
					h.Tag(pfx + "profile:keymap")
				}
				if len(p.suffixes) > 0 {
					h.Tag(pfx + "profile:suffix")
				}
				if p.hasPatch {
					h.Tag(pfx + "profile:patch")
				}
				if len(p.labels) > 0 {
					h.Tag(pfx + "profile:labels")
				}
			}
		}
	}
	nonNeg := c13AllNonNegative(before)
	if !nonNeg {
		h.Tag(pfx + "quantities:negative")
	}
	if before.Spec.Resources != nil {
		h.Tag(pfx + "podlevel:set")
	}
	pc := c13OraclePC(pod) // explicit class of the pod as admitted (after the profiles)
	h.Tag(pfx + "class:" + pc)
	tier, isTier := c13Tier[pc]
	if create && anyMatched && applied == 0 {
		h.Tag(pfx + "profiles:all-skipped")
		if !anySkipRes && !gate && isTier {
			h.Tag(pfx + "translated-though-all-skipped:" + pc)
		}
	}
	if uncertain {
		h.Tag(pfx + "selectors:evaluation-error")
	}
	if create && anyMatched && !anySkipRes && !gate && isTier && !uncertain {
		for _, cs := range [][]corev1.Container{pod.Spec.InitContainers, pod.Spec.Containers} {
			for i := range cs {
				for _, l := range []corev1.ResourceList{cs[i].Resources.Requests, cs[i].Resources.Limits} {
					for _, n := range []corev1.ResourceName{"cpu", "memory"} {
						if _, ok := l[n]; ok {
							h.Fail(c13Fp+"native-left", "container %s still has %s after translation", cs[i].Name, n)
						}
					}
				}
			}
		}
	}
	// amounts: compared against the pod before admission, so only when no applied profile patched
	// resources, and (the statement speaks of amounts) only for non-negative quantities
	if create && anyMatched && !anySkipRes && !gate && isTier && !resPatched && nonNeg && !uncertain {
		h.Tag(pfx + "translated:" + pc)
		h.Nontrivial()
		for li, lists := range [][2][]corev1.Container{{before.Spec.InitContainers, pod.Spec.InitContainers}, {before.Spec.Containers, pod.Spec.Containers}} {
			if len(lists[0]) != len(lists[1]) {
				h.Fail(c13Fp+"container-count", "containers added or removed")
				continue
			}
			for i := range lists[0] {
				where := fmt.Sprintf("list %d container %d", li, i)
				b, a := lists[0][i].Resources, lists[1][i].Resources
				c13CheckList(h, where+" limits", tier, b.Limits, a.Limits, false, nil)
				c13CheckList(h, where+" requests", tier, b.Requests, a.Requests, true, a.Limits)
			}
		}
		c13CheckList(h, "overhead", tier, before.Spec.Overhead, pod.Spec.Overhead, false, nil)
	}
	if create && summary { // summary = the summary-annotation step is not switched off by its feature gate
		c13CheckAnnotation(h, pod)
	}
	return appliedSimple
}

// c13Env: the envelope of the admission request sent through Handle.
type c13Env struct {
	op       int // 0 CREATE 1 UPDATE 2 DELETE 3 CONNECT
	sub      int // index into c13SubResources (0 = none)
	res      int // index into c13Resources_ (0 = pods)
	noObject bool
	noExt    bool // feature gate DisableExtendedResourceSpec during Handle
}

var c13Operations = []admissionv1.Operation{admissionv1.Create, admissionv1.Update, admissionv1.Delete, admissionv1.Connect}
var c13SubResources = []string{"", "status", "ephemeralcontainers", "binding", "eviction", "resize"}
var c13ResourceNames = []string{"pods", "podtemplates", "deployments", ""}

// c13ViaHandle sends the raw JSON through PodMutatingHandler.Handle, applies the response's JSON patch to the
// submitted JSON (what the API server does), decodes the result and evaluates the property on THAT pod.
func c13ViaHandle(h *vHarness, t *testing.T, handler *PodMutatingHandler, raw []byte, submitted *corev1.Pod, profiles []c13Profile, gate bool, rnd int, env c13Env) {
	h.Op("handle %d %d %d %d %d %d %d", env.op, env.sub, vB(env.res == 0), vB(!env.noObject), vB(gate), vB(env.noExt), rnd)
	if env.noExt {
		defer feature.SetFeatureGateDuringTest(t, feature.DefaultMutableFeatureGate, features.DisableExtendedResourceSpec, true)()
		h.Tag("handle:gate-no-summary-annotation")
	}
	req := admission.Request{AdmissionRequest: admissionv1.AdmissionRequest{
		Resource:    metav1.GroupVersionResource{Group: "", Version: "v1", Resource: c13ResourceNames[env.res]},
		SubResource: c13SubResources[env.sub], Namespace: "default", Name: "p",
		Operation: c13Operations[env.op], Object: runtime.RawExtension{}, OldObject: runtime.RawExtension{}}}
	if !env.noObject {
		req.Object.Raw = raw
		if env.op == 1 {
			req.OldObject.Raw = raw
		}
	} else if env.op == 2 {
		req.OldObject.Raw = raw // the shape of a real DELETE
	}
	var resp admission.Response
	if h.Guard(func() { resp = handler.Handle(context.TODO(), req) }) {
		h.Obs("panic")
		return
	}
	h.Tag(fmt.Sprintf("handle:op%d/sub%d/res%d/obj%d", env.op, vB(env.sub != 0), vB(env.res == 0), vB(!env.noObject)))
	if !resp.Allowed {
		h.Obs("hresp 0")
		h.Tag("handle:rejected")
		return
	}
	h.Obs("hresp 1")
	storedJSON := raw
	if len(resp.Patches) > 0 {
		h.Tag("handle:patched")
		pb, err := json.Marshal(resp.Patches)
		if err == nil {
			var patch jsonpatch.Patch
			if patch, err = jsonpatch.DecodePatch(pb); err == nil {
				storedJSON, err = patch.Apply(raw)
			}
		}
		if err != nil {
			h.Fail("C13:stored-patch-unusable", "the response's JSON patch does not apply to the submitted object: %v", err)
			return
		}
	} else {
		h.Tag("handle:no-patch")
	}
	stored := &corev1.Pod{}
	if err := json.Unmarshal(storedJSON, stored); err != nil {
		h.Fail("C13:stored-patch-unusable", "the patched object is no pod: %v", err)
		return
	}
	first := c13Obs(h, stored)
	if env.op == 0 && env.sub == 0 && env.res == 0 {
		// the request is a pod CREATE: the stored pod must obey the translation clauses
		c13Fp = "C13:stored-"
		appliedSimple := c13OracleFirst(h, submitted, stored, profiles, true, gate, rnd, "stored:", !env.noExt)
		c13Fp = "C13:"
		// ---- admitting the result again changes nothing, as the user sees it: the stored object submitted once more
		// (same profiles, same draw) is stored as it is (theorem handle_readmission_idempotent; hypothesis AppliedSimple) ----
		if appliedSimple && !env.noExt {
			req.Object.Raw = storedJSON
			var resp2 admission.Response
			if h.Guard(func() { resp2 = handler.Handle(context.TODO(), req) }) || !resp2.Allowed {
				h.Fail("C13:stored-not-idempotent", "the stored pod is rejected when it is submitted again")
				return
			}
			again := storedJSON
			if len(resp2.Patches) > 0 {
				pb, err := json.Marshal(resp2.Patches)
				if err == nil {
					var patch jsonpatch.Patch
					if patch, err = jsonpatch.DecodePatch(pb); err == nil {
						again, err = patch.Apply(storedJSON)
					}
				}
				if err != nil {
					h.Fail("C13:stored-patch-unusable", "the second response's JSON patch does not apply: %v", err)
					return
				}
			}
			stored2 := &corev1.Pod{}
			if err := json.Unmarshal(again, stored2); err != nil {
				h.Fail("C13:stored-patch-unusable", "the re-admitted object is no pod: %v", err)
				return
			}
			if strings.Join(first, "\n") != strings.Join(c13ObsLines(stored2), "\n") {
				h.Fail("C13:stored-not-idempotent", "submitting the stored pod again changes it")
			}
		}
	}
}

// c13RunMutatingCase: one case of the mutating harness (ops, observations, oracle); the caller brackets it
// with h.Begin / h.End.
func c13RunMutatingCase(h *vHarness, t *testing.T, decoder admission.Decoder, pod *corev1.Pod, profiles []c13Profile, create, gate bool, rnd int, env c13Env) {
	// the request as a client submits it: the pod's JSON; `submitted` is what a decoder makes of it
	raw, _ := json.Marshal(pod)
	submitted := &corev1.Pod{}
	if err := json.Unmarshal(raw, submitted); err != nil {
		t.Fatalf("C13: generated pod does not survive JSON: %v", err)
	}
	h.Op("pod 0 %s", c13EncPod(submitted))
	for i := range profiles {
		for _, l := range profiles[i].opLines() {
			h.Op("%s", l)
		}
		if profiles[i].hasSel {
			h.Tag(fmt.Sprintf("selectors:ns%d/obj%d", profiles[i].nsSel, profiles[i].objSel))
		}
		if profiles[i].hasProbStr {
			if _, ok := c13PercentOf(profiles[i].probStr); ok {
				h.Tag("probability:string-percent")
			} else {
				h.Tag("probability:string-invalid")
			}
		}
	}
	client := fake.NewClientBuilder().WithScheme(scheme.Scheme).WithObjects(c13ProfileObjects(profiles)...).Build()
	handler := &PodMutatingHandler{Client: client, Decoder: decoder}
	randIntnFn = func(int) int { return rnd }
	restore := feature.SetFeatureGateDuringTest(t, feature.DefaultMutableFeatureGate, features.ColocationProfileSkipMutatingResources, gate)

	// ---- through the entry point: PodMutatingHandler.Handle on the raw JSON, then the response's JSON patch applied
	// to the submitted JSON = the object the API server stores and the user reads back ----
	c13ViaHandle(h, t, handler, raw, submitted, profiles, gate, rnd, env)
	h.Op("pod 0 %s", c13EncPod(pod))
	op := admissionv1.Create
	if !create {
		op = admissionv1.Update
	}
	req := admission.Request{AdmissionRequest: admissionv1.AdmissionRequest{
		Resource:  metav1.GroupVersionResource{Group: "", Version: "v1", Resource: "pods"},
		Operation: op, Object: runtime.RawExtension{}, OldObject: runtime.RawExtension{}}}

	admit := func(p *corev1.Pod) (ok bool, lines []string) {
		h.Op("mutate %d %d %d", vB(create), vB(gate), rnd)
		var m1 bool
		var err1, err2 error
		if h.Guard(func() {
			m1, err1 = handler.clusterColocationProfileMutatingPod(context.TODO(), req, p)
			if err1 == nil && create {
				_, err2 = handler.extendedResourceSpecMutatingPod(context.TODO(), req, p)
			}
		}) {
			h.Obs("panic")
			return false, nil
		}
		if err1 != nil {
			h.Obs("err1")
			h.Tag("admit:error")
			return false, nil
		}
		h.Obs("mut %d", vB(m1))
		if err2 != nil {
			h.Obs("err")
			h.Tag("ext:error")
			return false, nil
		}
		return true, c13Obs(h, p)
	}

	before := pod.DeepCopy()
	ok, first := admit(pod)
	if ok && create {
		// the same admission through the real entry point handleCreate (all its steps, in the source's
		// order): the summary annotation must match the final spec there too, and the class fields /
		// resources / annotation must be those of the two steps driven above
		whole := before.DeepCopy()
		var herr error
		if h.Guard(func() { _, herr = handler.handleCreate(context.TODO(), req, whole) }) || herr != nil {
			h.Fail("C13:handle-create-failed", "handleCreate failed on a pod its first two steps admit: %v", herr)
		} else {
			c13CheckAnnotation(h, whole)
			var lines []string
			lines = append(lines, "meta "+c13EncMeta(whole))
			for i := range whole.Spec.InitContainers {
				lines = append(lines, "c 0 "+c13EncCtrObs(&whole.Spec.InitContainers[i]))
			}
			for i := range whole.Spec.Containers {
				lines = append(lines, "c 1 "+c13EncCtrObs(&whole.Spec.Containers[i]))
			}
			lines = append(lines, "ann "+c13EncAnnot(whole.Annotations))
			var want []string
			for _, l := range first {
				if !strings.HasPrefix(l, "ov ") && !strings.HasPrefix(l, "pl ") {
					want = append(want, l)
				}
			}
			if strings.Join(lines, "\n") != strings.Join(want, "\n") {
				h.Fail("C13:handle-create-differs", "handleCreate does not give the pod of its first two steps")
			}
		}
	}
	if ok {
		h.Tag("admit:ok")
		// ---- property oracle on the first admission ----
		appliedSimple := c13OracleFirst(h, before, pod, profiles, create, gate, rnd, "", true)
		// ---- admitting the result again changes nothing ----
		// (demanded exactly under the hypothesis of theorem readmission_idempotent: every applied
		// profile is simple; label suffixes / key mappings / resource patches are not idempotent by design)
		again := pod.DeepCopy()
		ok2, second := admit(again)
		if appliedSimple {
			h.Tag("readmit:simple")
			if !ok2 {
				h.Fail("C13:not-idempotent", "re-admission of an admitted pod failed")
			} else if strings.Join(first, "\n") != strings.Join(second, "\n") {
				h.Fail("C13:not-idempotent", "re-admission changed the pod")
			}
		} else {
			h.Tag("readmit:not-simple")
		}
	}
	restore()
	h.Tag(fmt.Sprintf("profiles:%d", len(profiles)))
}

func TestVerifC13Mutating(t *testing.T) {
	h := vOpen("C13")
	if h == nil {
		t.Skip("VERIF_OUT not set")
	}
	defer func(f func(int) int) { randIntnFn = f }(randIntnFn)
	decoder := admission.NewDecoder(scheme.Scheme)
	n := h.N(4000, 80000)
	for idx := 0; idx < n; idx++ {
		r := h.Begin(idx)
		if r == nil {
			continue
		}
		pod := c13GenMutatingPod(r)
		profiles := c13GenProfiles(r, pod)
		create := !r.Chance(1, 20)
		gate := r.Chance(1, 15)
		rnd := int(r.Pick([]int64{0, 29, 30, 31, 50, 51, 99}))

		// the envelope sent through Handle: mostly the plain request of the operation; rarely a sub-resource, a
		// foreign resource, CONNECT, or DELETE (which carries no object)
		env := c13Env{}
		if !create {
			env.op = int(r.Pick([]int64{1, 1, 1, 1, 3, 2}))
			env.noObject = env.op == 2 && r.Chance(2, 3)
		}
		if r.Chance(1, 25) {
			env.sub = r.Range(1, len(c13SubResources)-1)
		}
		if r.Chance(1, 40) {
			env.res = r.Range(1, len(c13ResourceNames)-1)
		}
		if r.Chance(1, 60) {
			env.noObject = true
		}
		env.noExt = r.Chance(1, 20)
		c13RunMutatingCase(h, t, decoder, pod, profiles, create, gate, rnd, env)
		h.End()
	}
	h.Close("one pod (QoS/priority by label, value, profile or default; a foreign label; 0-4 containers, 0-2 init containers (1/3 sidecars), overhead, " +
		"pod-level resources (1/8); cpu/memory/batch/mid/foreign quantities integral, milli, sub-milli, nano, binary, zero, 1/12 of the pods with negative " +
		"entries; requests=limits / limits only / requests only / independent / empty; stale, broken, representation-variant or absent summary " +
		"annotation) x 0-3 colocation profiles (match/no match, skip annotation, probability, qosClass, priorityClassName, koordinatorPriority, " +
		"labels, labelKeysMapping, labelSuffixes, strategic-merge patch of labels / spec.priority / container resources) x operation x feature gate; " +
		"admitted twice through the two steps and once through handleCreate; non-trivial = explicit mid/batch pod that goes through translation; " +
		"distinct by op lines")
}

// TestVerifC13MutatingExhaustive (thorough tier): the translation on a small scope.  One container with every
// presence pattern of requests.cpu {absent, 500m, 0.0005} x limits.cpu {absent, 1} x requests.memory
// {absent, 1Gi} x limits.memory {absent, 2Gi} x requests.batch-cpu {absent, 200} x limits.batch-cpu
// {absent, 300} x requests.mid-memory {absent, 64Mi}, x the source of the class (priority value in each
// range, or none with QoS BE / LS / no label = Kubernetes default) x overhead {nil, cpu 100m} x profile
// {none, one simple BE/batch profile, one mid profile by label patch, one skip-update-resources profile}.
// Same ops, observations and oracle as the random stream.
func TestVerifC13MutatingExhaustive(t *testing.T) {
	h := vOpen("C13")
	if h == nil {
		t.Skip("VERIF_OUT not set")
	}
	defer func(f func(int) int) { randIntnFn = f }(randIntnFn)
	decoder := admission.NewDecoder(scheme.Scheme)
	type src struct {
		prio int32 // 0 = none
		qos  string
	}
	srcs := []src{{9500, ""}, {7500, ""}, {5500, ""}, {3500, ""}, {0, "BE"}, {0, "LS"}, {0, ""}}
	opt := func(l corev1.ResourceList, name corev1.ResourceName, v string) {
		if v != "" {
			l[name] = resource.MustParse(v)
		}
	}
	profileSets := [][]c13Profile{
		nil,
		{{name: 1, matched: 1, hasQoS: true, qos: "BE", hasPrio: 1, prio: 5500}},
		{{name: 2, matched: 1, hasPatch: true, patchLabels: []c13KV{{1, "koord-mid"}}}},
		{{name: 3, matched: 1, skipRes: 1, hasQoS: true, qos: "BE", hasPrio: 1, prio: 5999}},
		// matching profiles that are switched off by their probability: 0, "0%", 50 with the draw 51; and 50 with the draw 50 (applied)
		{{name: 4, matched: 1, hasProb: 1, prob: 0, hasQoS: true, qos: "BE", hasPrio: 1, prio: 5500}},
		{{name: 5, matched: 1, hasProbStr: true, probStr: "0%", hasQoS: true, qos: "BE", hasPrio: 1, prio: 5500}},
		{{name: 6, matched: 1, hasProb: 1, prob: 50, hasQoS: true, qos: "BE", hasPrio: 1, prio: 5500}},
		{{name: 7, matched: 1, hasProb: 1, prob: 50, hasQoS: true, qos: "BE", hasPrio: 1, prio: 5500}},
	}
	rnds := []int{0, 0, 0, 0, 0, 0, 51, 50}
	idx := 0
	for _, sc := range srcs {
		for _, rc := range []string{"", "500m", "0.0005"} {
			for _, lc := range []string{"", "1"} {
				for _, rm := range []string{"", "1Gi"} {
					for _, lm := range []string{"", "2Gi"} {
						for _, rb := range []string{"", "200"} {
							for _, lb := range []string{"", "300"} {
								for _, rmm := range []string{"", "64Mi"} {
									for _, ov := range []string{"", "100m"} {
										for pi, ps := range profileSets {
											r := h.Begin(idx)
											idx++
											if r == nil {
												continue
											}
											pod := &corev1.Pod{ObjectMeta: metav1.ObjectMeta{Namespace: "default", Name: "p"}}
											if sc.qos != "" {
												pod.Labels = map[string]string{c13LabelQoS: sc.qos}
											}
											if sc.prio != 0 {
												v := sc.prio
												pod.Spec.Priority = &v
											}
											req, lim := corev1.ResourceList{}, corev1.ResourceList{}
											opt(req, "cpu", rc)
											opt(lim, "cpu", lc)
											opt(req, "memory", rm)
											opt(lim, "memory", lm)
											opt(req, "kubernetes.io/batch-cpu", rb)
											opt(lim, "kubernetes.io/batch-cpu", lb)
											opt(req, "kubernetes.io/mid-memory", rmm)
											pod.Spec.Containers = []corev1.Container{{Name: "c0", Resources: corev1.ResourceRequirements{Requests: req, Limits: lim}}}
											if ov != "" {
												pod.Spec.Overhead = corev1.ResourceList{"cpu": resource.MustParse(ov)}
											}
											profiles := append([]c13Profile(nil), ps...)
											h.Tag(fmt.Sprintf("x:profileset:%d", pi))
											c13RunMutatingCase(h, t, decoder, pod, profiles, true, false, rnds[pi], c13Env{})
											h.End()
										}
									}
								}
							}
						}
					}
				}
			}
		}
	}
	// the envelope of the request through Handle, exhaustively: operation x sub-resource x resource x object present,
	// on a mid pod with native cpu/memory x {no profile, an applied batch profile, a switched-off profile}
	nShapes := idx
	for op := 0; op < len(c13Operations); op++ {
		for sub := 0; sub < len(c13SubResources); sub++ {
			for res := 0; res < len(c13ResourceNames); res++ {
				for _, noObj := range []bool{false, true} {
					for _, pix := range []int{0, 1, 4, 10, 11, 14} { // + 10: the summary-annotation step switched off by its gate
						pi, noExt := pix%10, pix >= 10
						r := h.Begin(idx)
						idx++
						if r == nil {
							continue
						}
						v := int32(7500)
						pod := &corev1.Pod{ObjectMeta: metav1.ObjectMeta{Namespace: "default", Name: "p"}}
						pod.Spec.Priority = &v
						pod.Spec.Containers = []corev1.Container{{Name: "c0", Resources: corev1.ResourceRequirements{
							Requests: corev1.ResourceList{"cpu": resource.MustParse("500m")},
							Limits:   corev1.ResourceList{"cpu": resource.MustParse("1"), "memory": resource.MustParse("1Gi")}}}}
						profiles := append([]c13Profile(nil), profileSets[pi]...)
						h.Tag(fmt.Sprintf("x:envelope:profileset:%d", pi))
						c13RunMutatingCase(h, t, decoder, pod, profiles, op == 0, false, 0, c13Env{op: op, sub: sub, res: res, noObject: noObj, noExt: noExt})
						h.End()
					}
				}
			}
		}
	}
	h.Extra("exhaustive", fmt.Sprintf("7 class sources x 192 container shapes x 2 overheads x 8 profile sets: %d cases; + envelope: 4 operations x 6 sub-resources x 4 resources x object present x 3 profile sets x summary-annotation gate: %d cases",
		nShapes, idx-nShapes))
	h.Close("exhaustive enumeration: one container over every presence pattern of requests/limits cpu, memory, batch-cpu and requests mid-memory " +
		"(sub-milli and milli cpu), x class source (priority value per range, QoS BE / LS, Kubernetes default) x overhead x {no profile, simple " +
		"batch profile, mid-by-label-patch profile, skip-update-resources profile}; admitted twice + through handleCreate; non-trivial as in the random stream")
}

var _ = sort.Ints
